// ---- bits_repr_lemmas.rs: binary-digit vocabulary for the word-buffer bit operations of integer/src/bits.rs
// (mod repr: bitand_large, bitor_large, ...).  Word = @W@.   Needs prelude.rs, shift_bv.rs.
//
// The property (C09) speaks about the number "written in two's complement"; for a non-negative integer x the
// binary digit at position i is  floor(x / 2^i) mod 2.  `nbit` is that definition on mathematical integers,
// `bit_of` is the digit read from a little-endian word sequence (0 beyond the length); lemma_br_nbit_val proves
// that they agree, so every postcondition can be stated on VALUES (ret.v(), val(buffer@)) only.

/// binary digit i of the non-negative integer x
pub open spec fn nbit(x: int, i: int) -> bool { (x / pow2(i)) % 2 == 1 }

/// binary digit i of the number whose little-endian words are s (digits beyond the length are 0)
pub open spec fn bit_of(s: Seq<Word>, i: int) -> bool {
    0 <= i < s.len() * @BITS@ && ((s[i / @BITS@] >> ((i % @BITS@) as @W@)) & 1) == 1
}

pub proof fn lemma_br_zero_word(k: @W@)
    ensures (((0 as @W@) >> k) & 1) == 0,
{
    assert((((0 as @W@) >> k) & 1) == 0) by (bit_vector);
}

pub proof fn lemma_br_pw_pow2(k: int)
    requires k >= 0,
    ensures pw(k) == pow2(k * @BITS@),
    decreases k
{
    if k > 0 {
        lemma_br_pw_pow2(k - 1);
        lemma_sh_pow2_add(@BITS@, (k - 1) * @BITS@);
        lemma_sh_pow2_bits();
        assert(k * @BITS@ == @BITS@ + (k - 1) * @BITS@);
    }
}

/// adding an even multiple of 2^i does not change digit i
pub proof fn lemma_br_nbit_add_high(y: int, t: int, i: int)
    requires y >= 0, t >= 0, i >= 0,
    ensures nbit(y + pow2(i) * (2 * t), i) == nbit(y, i),
{
    let d = pow2(i);
    lemma_sh_pow2_pos(i);
    vstd::arithmetic::div_mod::lemma_fundamental_div_mod(y, d);
    let q = y / d;
    let r = y % d;
    assert(0 <= r < d) by { vstd::arithmetic::div_mod::lemma_mod_pos_bound(y, d); }
    assert(y + d * (2 * t) == d * (q + 2 * t) + r) by (nonlinear_arith) requires y == d * q + r;
    vstd::arithmetic::div_mod::lemma_fundamental_div_mod_converse(y + d * (2 * t), d, q + 2 * t, r);
    assert((q + 2 * t) % 2 == q % 2);
}

/// digit i of a number below 2^i is 0
pub proof fn lemma_br_nbit_small(y: int, i: int)
    requires 0 <= y < pow2(i), i >= 0,
    ensures !nbit(y, i),
{
    vstd::arithmetic::div_mod::lemma_fundamental_div_mod_converse(y, pow2(i), 0, y);
}

/// digit k·BITS + b of  lo + w·B^k  (lo < B^k)  is bit b of the word w
pub proof fn lemma_br_nbit_word(lo: int, w: Word, k: int, b: u32)
    requires 0 <= lo < pw(k), k >= 0, b < @BITS@,
    ensures nbit(lo + (w as int) * pw(k), k * @BITS@ + b) == (((w >> b) & 1) == 1),
{
    let y = lo + (w as int) * pw(k);
    let p = pw(k);
    let e = pow2(b as int);
    lemma_br_pw_pow2(k);
    lemma_sh_pow2_add(k * @BITS@, b as int);
    lemma_sh_pow2_pos(b as int);
    lemma_pw_pos(k);
    assert(pow2(k * @BITS@ + b) == p * e);
    assert((w as int) * p == p * (w as int)) by (nonlinear_arith);
    vstd::arithmetic::div_mod::lemma_fundamental_div_mod_converse(y, p, w as int, lo);
    assert(y / p == w as int);
    assert(y >= 0) by (nonlinear_arith) requires y == lo + (w as int) * p, lo >= 0, (w as int) >= 0, p >= 1;
    vstd::arithmetic::div_mod::lemma_div_denominator(y, p, e);
    assert(y / (p * e) == (w as int) / e);
    lemma_sh_shr_div_w(w, b);
    let h = w >> b;
    assert((h & 1) == h % 2) by (bit_vector);
}

/// nbit of a word-sequence prefix value agrees with the digit read from the words
pub proof fn lemma_br_nbit_valn(s: Seq<Word>, n: int, i: int)
    requires 0 <= n <= s.len(), i >= 0,
    ensures nbit(valn(s, n), i) == (i < n * @BITS@ && ((s[i / @BITS@] >> ((i % @BITS@) as @W@)) & 1) == 1),
    decreases n
{
    if i >= n * @BITS@ {
        lemma_valn_bound(s, n);
        lemma_br_pw_pow2(n);
        lemma_sh_pow2_mono(n * @BITS@, i);
        lemma_br_nbit_small(valn(s, n), i);
    } else {
        let k = i / @BITS@;
        let b = (i % @BITS@) as u32;
        assert(i == k * @BITS@ + b);
        assert(n >= 1 && k <= n - 1);
        lemma_valn_bound(s, n - 1);
        if k == n - 1 {
            lemma_br_nbit_word(valn(s, n - 1), s[n - 1], k, b);
        } else {
            // word n-1 lies entirely above digit i:  B^(n-1) = 2^i * 2 * 2^((n-1)·BITS - i - 1)
            let m = (n - 1) * @BITS@ - i - 1;
            assert(m >= 0);
            lemma_br_pw_pow2(n - 1);
            lemma_sh_pow2_add(i, m + 1);
            lemma_sh_pow2_pos(m);
            let t = (s[n - 1] as int) * pow2(m);
            assert(t >= 0) by (nonlinear_arith) requires t == (s[n - 1] as int) * pow2(m), (s[n - 1] as int) >= 0, pow2(m) >= 1;
            assert((s[n - 1] as int) * (pow2(i) * (2 * pow2(m))) == pow2(i) * (2 * ((s[n - 1] as int) * pow2(m)))) by (nonlinear_arith);
            lemma_br_nbit_add_high(valn(s, n - 1), t, i);
            lemma_br_nbit_valn(s, n - 1, i);
        }
    }
}

/// the binary digits of val(s) are the bits of the words of s
pub proof fn lemma_br_nbit_val(s: Seq<Word>, i: int)
    requires i >= 0,
    ensures nbit(val(s), i) == bit_of(s, i),
{
    lemma_br_nbit_valn(s, s.len() as int, i);
}

// ---- per-word bit-vector facts --------------------------------------------------------------------------------
pub proof fn lemma_br_and_word(x: @W@, y: @W@, k: @W@)
    requires k < @BITS@,
    ensures ((((x & y) >> k) & 1) == 1) == ((((x >> k) & 1) == 1) && (((y >> k) & 1) == 1)),
{
    assert(((((x & y) >> k) & 1) == 1) == ((((x >> k) & 1) == 1) && (((y >> k) & 1) == 1))) by (bit_vector) requires k < @BITS@;
}
pub proof fn lemma_br_or_word(x: @W@, y: @W@, k: @W@)
    requires k < @BITS@,
    ensures ((((x | y) >> k) & 1) == 1) == ((((x >> k) & 1) == 1) || (((y >> k) & 1) == 1)),
{
    assert(((((x | y) >> k) & 1) == 1) == ((((x >> k) & 1) == 1) || (((y >> k) & 1) == 1))) by (bit_vector) requires k < @BITS@;
}
pub proof fn lemma_br_xor_word(x: @W@, y: @W@, k: @W@)
    requires k < @BITS@,
    ensures ((((x ^ y) >> k) & 1) == 1) == ((((x >> k) & 1) == 1) != (((y >> k) & 1) == 1)),
{
    assert(((((x ^ y) >> k) & 1) == 1) == ((((x >> k) & 1) == 1) != (((y >> k) & 1) == 1))) by (bit_vector) requires k < @BITS@;
}
pub proof fn lemma_br_andnot_word(x: @W@, y: @W@, k: @W@)
    requires k < @BITS@,
    ensures ((((x & !y) >> k) & 1) == 1) == ((((x >> k) & 1) == 1) && !(((y >> k) & 1) == 1)),
{
    assert(((((x & !y) >> k) & 1) == 1) == ((((x >> k) & 1) == 1) && !(((y >> k) & 1) == 1))) by (bit_vector) requires k < @BITS@;
}

// ---- whole-sequence consequences: word-wise relation ==> digit-wise relation on the VALUES -------------------------

/// f = a AND b word by word on the common prefix, nothing above it
pub proof fn lemma_br_and_seq(f: Seq<Word>, a: Seq<Word>, b: Seq<Word>)
    requires f.len() <= a.len(), f.len() <= b.len(), f.len() == a.len() || f.len() == b.len(),
        forall|j: int| 0 <= j < f.len() ==> f[j] == a[j] & b[j],
    ensures forall|i: int| i >= 0 ==> #[trigger] nbit(val(f), i) == (nbit(val(a), i) && nbit(val(b), i)),
{
    assert forall|i: int| i >= 0 implies #[trigger] nbit(val(f), i) == (nbit(val(a), i) && nbit(val(b), i)) by {
        lemma_br_nbit_val(f, i);
        lemma_br_nbit_val(a, i);
        lemma_br_nbit_val(b, i);
        if i < f.len() * @BITS@ {
            let j = i / @BITS@;
            lemma_br_and_word(a[j], b[j], (i % @BITS@) as @W@);
        }
    }
}

/// f = a OR b / a XOR b word by word where both exist, the longer operand's words above
pub proof fn lemma_br_or_seq(f: Seq<Word>, a: Seq<Word>, b: Seq<Word>)
    requires f.len() >= a.len(), f.len() >= b.len(), f.len() == a.len() || f.len() == b.len(),
        forall|j: int| 0 <= j < a.len() && j < b.len() ==> f[j] == a[j] | b[j],
        forall|j: int| a.len() <= j < b.len() ==> f[j] == b[j],
        forall|j: int| b.len() <= j < a.len() ==> f[j] == a[j],
    ensures forall|i: int| i >= 0 ==> #[trigger] nbit(val(f), i) == (nbit(val(a), i) || nbit(val(b), i)),
{
    assert forall|i: int| i >= 0 implies #[trigger] nbit(val(f), i) == (nbit(val(a), i) || nbit(val(b), i)) by {
        lemma_br_nbit_val(f, i);
        lemma_br_nbit_val(a, i);
        lemma_br_nbit_val(b, i);
        if i < f.len() * @BITS@ {
            let j = i / @BITS@;
            if j < a.len() && j < b.len() {
                lemma_br_or_word(a[j], b[j], (i % @BITS@) as @W@);
            }
        }
    }
}

pub proof fn lemma_br_xor_seq(f: Seq<Word>, a: Seq<Word>, b: Seq<Word>)
    requires f.len() >= a.len(), f.len() >= b.len(), f.len() == a.len() || f.len() == b.len(),
        forall|j: int| 0 <= j < a.len() && j < b.len() ==> f[j] == a[j] ^ b[j],
        forall|j: int| a.len() <= j < b.len() ==> f[j] == b[j],
        forall|j: int| b.len() <= j < a.len() ==> f[j] == a[j],
    ensures forall|i: int| i >= 0 ==> #[trigger] nbit(val(f), i) == (nbit(val(a), i) != nbit(val(b), i)),
{
    assert forall|i: int| i >= 0 implies #[trigger] nbit(val(f), i) == (nbit(val(a), i) != nbit(val(b), i)) by {
        lemma_br_nbit_val(f, i);
        lemma_br_nbit_val(a, i);
        lemma_br_nbit_val(b, i);
        if i < f.len() * @BITS@ {
            let j = i / @BITS@;
            if j < a.len() && j < b.len() {
                lemma_br_xor_word(a[j], b[j], (i % @BITS@) as @W@);
            }
        }
    }
}

/// f = a AND NOT b on the common prefix, a's own words above the length of b
pub proof fn lemma_br_andnot_seq(f: Seq<Word>, a: Seq<Word>, b: Seq<Word>)
    requires f.len() == a.len(),
        forall|j: int| 0 <= j < a.len() && j < b.len() ==> f[j] == a[j] & !b[j],
        forall|j: int| b.len() <= j < a.len() ==> f[j] == a[j],
    ensures forall|i: int| i >= 0 ==> #[trigger] nbit(val(f), i) == (nbit(val(a), i) && !nbit(val(b), i)),
{
    assert forall|i: int| i >= 0 implies #[trigger] nbit(val(f), i) == (nbit(val(a), i) && !nbit(val(b), i)) by {
        lemma_br_nbit_val(f, i);
        lemma_br_nbit_val(a, i);
        lemma_br_nbit_val(b, i);
        if i < f.len() * @BITS@ {
            let j = i / @BITS@;
            if j < b.len() {
                lemma_br_andnot_word(a[j], b[j], (i % @BITS@) as @W@);
            }
        }
    }
}

// ---- clear_high_bits: keeping the low n binary digits is reduction modulo 2^n -----------------------------------

/// masking a word with 2^r - 1 is reduction modulo 2^r
pub proof fn lemma_br_mask_word(w: @W@, mask: @W@, r: u32)
    requires 0 < r < @BITS@, mask as int == pow2(r as int) - 1,
    ensures (w & mask) as int == (w as int) % pow2(r as int), (w & mask) as int <= pow2(r as int) - 1,
{
    lemma_sh_one_shl_w(r);
    let one = (1 as @W@) << r;
    assert(one as int == pow2(r as int));
    assert(mask == (one - 1) as @W@);
    // w & (2^r - 1) == w - ((w >> r) << r), and (w >> r) << r == floor(w / 2^r) * 2^r
    let h = w >> r;
    assert((w & mask) == w - (h << r) && (h << r) <= w && ((h as @D@) << r) == ((h << r) as @D@)) by (bit_vector)
        requires 0 < r < @BITS@, one == (1 as @W@) << r, mask == (one - 1) as @W@, h == w >> r;
    lemma_sh_shr_div_w(w, r);
    let e = pow2(r as int);
    let hi = h as int;
    lemma_sh_pow2_mono(r as int, @BITS@);
    lemma_sh_pow2_bits();
    assert(hi * e < B() * B()) by (nonlinear_arith) requires 0 <= hi < B(), 1 <= e <= B();
    lemma_sh_shl_mul_d(h as @D@, r);
    vstd::arithmetic::div_mod::lemma_fundamental_div_mod(w as int, e);
    assert(e * hi == hi * e) by (nonlinear_arith);
    vstd::arithmetic::div_mod::lemma_mod_pos_bound(w as int, e);
}

/// f = the first k words of a, the last of them masked to r bits when r != 0 (n = BITS·(k-1) + r resp. BITS·k):
/// the value of f is val(a) mod 2^n
pub proof fn lemma_br_clear_high_seq(a: Seq<Word>, f: Seq<Word>, n: int, k: int, r: u32, mask: Word)
    requires 0 <= k <= a.len(), f.len() == k, r < @BITS@,
        r == 0 ==> n == k * @BITS@ && (forall|j: int| 0 <= j < k ==> f[j] == a[j]),
        r != 0 ==> k >= 1 && n == (k - 1) * @BITS@ + r && (forall|j: int| 0 <= j < k - 1 ==> f[j] == a[j])
            && f[k - 1] == a[k - 1] & mask && mask as int == pow2(r as int) - 1,
    ensures val(f) == val(a) % pow2(n), 0 <= val(f) < pow2(n),
{
    let len = a.len() as int;
    lemma_valn_split(a, k, len);
    let hi = valn(a.subrange(k, len), len - k);
    assert(val(a) == valn(a, k) + pw(k) * hi);
    if r == 0 {
        lemma_valn_ext(f, a, k);
        lemma_valn_bound(a, k);
        lemma_br_pw_pow2(k);
        assert(pw(k) * hi == hi * pw(k)) by (nonlinear_arith);
        vstd::arithmetic::div_mod::lemma_fundamental_div_mod_converse(val(a), pw(k), hi, valn(a, k));
    } else {
        let m = k - 1;
        let w = a[m];
        let wm = f[m];
        lemma_valn_ext(f, a, m);
        lemma_valn_bound(a, m);
        lemma_br_mask_word(w, mask, r);
        let e = pow2(r as int);
        let ee = pow2(@BITS@ - r);
        lemma_sh_pow2_pos(r as int);
        lemma_sh_pow2_add(r as int, @BITS@ - r);
        lemma_sh_pow2_bits();
        assert(e * ee == B());
        vstd::arithmetic::div_mod::lemma_fundamental_div_mod(w as int, e);
        let q = (w as int) / e;
        let wi = wm as int;
        assert(w as int == e * q + wi);
        let p = pw(m);
        lemma_pw_pos(m);
        lemma_br_pw_pow2(m);
        lemma_sh_pow2_add(m * @BITS@, r as int);
        let d = p * e;
        assert(pow2(n) == d);
        assert(pw(k) == B() * p);
        let lo = valn(a, m);
        assert(valn(a, k) == lo + (w as int) * p);
        assert(val(f) == lo + wi * p);
        assert(val(a) == (lo + wi * p) + (q + ee * hi) * d) by (nonlinear_arith)
            requires val(a) == lo + (w as int) * p + (B() * p) * hi, w as int == e * q + wi, e * ee == B(), d == p * e;
        assert(0 <= lo + wi * p < d) by (nonlinear_arith) requires 0 <= lo < p, 0 <= wi <= e - 1, d == p * e;
        vstd::arithmetic::div_mod::lemma_fundamental_div_mod_converse(val(a), d, q + ee * hi, lo + wi * p);
    }
}

/// a number below 2^n is its own residue (the words requested reach beyond the length)
pub proof fn lemma_br_clear_high_noop(a: Seq<Word>, n: int)
    requires n >= a.len() * @BITS@,
    ensures val(a) == val(a) % pow2(n),
{
    lemma_valn_bound(a, a.len() as int);
    lemma_br_pw_pow2(a.len() as int);
    lemma_sh_pow2_mono((a.len() * @BITS@) as int, n);
    vstd::arithmetic::div_mod::lemma_fundamental_div_mod_converse(val(a), pow2(n), 0, val(a));
}

// ---- set_bit ------------------------------------------------------------------------------------------------
pub proof fn lemma_br_setbit_word(x: @W@, r: @W@, k: @W@)
    requires r < @BITS@, k < @BITS@,
    ensures ((((x | ((1 as @W@) << r)) >> k) & 1) == 1) == (k == r || (((x >> k) & 1) == 1)),
{
    assert(((((x | ((1 as @W@) << r)) >> k) & 1) == 1) == (k == r || (((x >> k) & 1) == 1))) by (bit_vector)
        requires r < @BITS@, k < @BITS@;
}

/// f = a with bit n set (a extended with zero words up to the word of bit n when it is too short)
pub proof fn lemma_br_setbit_seq(f: Seq<Word>, a: Seq<Word>, n: int, bitw: Word)
    requires n >= 0, bitw == (1 as @W@) << ((n % @BITS@) as @W@),
        f.len() == (if n / @BITS@ < a.len() { a.len() as int } else { n / @BITS@ + 1 }),
        forall|j: int| 0 <= j < a.len() && j != n / @BITS@ ==> f[j] == a[j],
        forall|j: int| a.len() <= j < f.len() && j != n / @BITS@ ==> f[j] == 0,
        n / @BITS@ < a.len() ==> f[n / @BITS@] == a[n / @BITS@] | bitw,
        n / @BITS@ >= a.len() ==> f[n / @BITS@] == bitw,
    ensures forall|i: int| i >= 0 ==> #[trigger] nbit(val(f), i) == (i == n || nbit(val(a), i)),
{
    let idx = n / @BITS@;
    let r = (n % @BITS@) as @W@;
    assert forall|i: int| i >= 0 implies #[trigger] nbit(val(f), i) == (i == n || nbit(val(a), i)) by {
        lemma_br_nbit_val(f, i);
        lemma_br_nbit_val(a, i);
        if i < f.len() * @BITS@ {
            let j = i / @BITS@;
            let k = (i % @BITS@) as @W@;
            if j == idx {
                if idx < a.len() {
                    lemma_br_setbit_word(a[j], r, k);
                } else {
                    lemma_br_setbit_word(0, r, k);
                    assert((0 as @W@) | bitw == bitw) by (bit_vector);
                    lemma_br_zero_word(k);
                }
            } else if j >= a.len() {
                lemma_br_zero_word(k);
            }
        }
    }
}

// ---- clear_bit ----------------------------------------------------------------------------------------------
pub proof fn lemma_br_clearbit_word(x: @W@, r: @W@, k: @W@)
    requires r < @BITS@, k < @BITS@,
    ensures ((((x & !((1 as @W@) << r)) >> k) & 1) == 1) == (k != r && (((x >> k) & 1) == 1)),
{
    assert(((((x & !((1 as @W@) << r)) >> k) & 1) == 1) == (k != r && (((x >> k) & 1) == 1))) by (bit_vector)
        requires r < @BITS@, k < @BITS@;
}

/// f = a with bit n cleared (a unchanged when bit n lies beyond its length)
pub proof fn lemma_br_clearbit_seq(f: Seq<Word>, a: Seq<Word>, n: int, bitw: Word)
    requires n >= 0, bitw == (1 as @W@) << ((n % @BITS@) as @W@), f.len() == a.len(),
        forall|j: int| 0 <= j < a.len() && j != n / @BITS@ ==> f[j] == a[j],
        n / @BITS@ < a.len() ==> f[n / @BITS@] == a[n / @BITS@] & !bitw,
    ensures forall|i: int| i >= 0 ==> #[trigger] nbit(val(f), i) == (i != n && nbit(val(a), i)),
{
    let idx = n / @BITS@;
    let r = (n % @BITS@) as @W@;
    assert forall|i: int| i >= 0 implies #[trigger] nbit(val(f), i) == (i != n && nbit(val(a), i)) by {
        lemma_br_nbit_val(f, i);
        lemma_br_nbit_val(a, i);
        if i < f.len() * @BITS@ {
            let j = i / @BITS@;
            let k = (i % @BITS@) as @W@;
            if j == idx {
                lemma_br_clearbit_word(a[j], r, k);
            }
        }
    }
}
