// ---- bits_signed_lemmas.rs: two's complement with infinitely many sign bits on mathematical integers.
// For EVERY integer x (Verus `/` and `%` are Euclidean, i.e. floor division for the positive divisor 2^i) the digit
//     nbit(x, i) = floor(x / 2^i) mod 2
// is the two's complement digit i of x with the sign repeated for ever (x = -1: all ones).  The whole sign-case
// analysis of bits.rs rests on one fact: complementing every digit is  x |-> -x - 1.

/// digits of -y - 1 are the complements of the digits of y
pub proof fn lemma_bs_compl(x: int, y: int, i: int)
    requires x + y == -1, i >= 0,
    ensures nbit(x, i) == !nbit(y, i),
{
    let d = pow2(i);
    lemma_sh_pow2_pos(i);
    vstd::arithmetic::div_mod::lemma_fundamental_div_mod(y, d);
    vstd::arithmetic::div_mod::lemma_mod_bound(y, d);
    let q = y / d;
    let r = y % d;
    // x = -y - 1 = d*(-q-1) + (d - 1 - r)
    assert(x == (-q - 1) * d + (d - 1 - r)) by (nonlinear_arith) requires x + y == -1, y == d * q + r;
    vstd::arithmetic::div_mod::lemma_fundamental_div_mod_converse(x, d, -q - 1, d - 1 - r);
    assert((-q - 1) % 2 == 1 - q % 2);
}

/// floor division of a negative number through its magnitude:  floor(-m / d) = -floor(m / d) - [m mod d != 0]
pub proof fn lemma_bs_floor_neg(m: int, d: int)
    requires m >= 0, d >= 1,
    ensures (-m) / d == -(m / d) - (if m % d != 0 { 1int } else { 0int }),
{
    vstd::arithmetic::div_mod::lemma_fundamental_div_mod(m, d);
    vstd::arithmetic::div_mod::lemma_mod_bound(m, d);
    let q = m / d;
    let r = m % d;
    if r == 0 {
        assert(-m == (-q) * d + 0) by (nonlinear_arith) requires m == d * q + r, r == 0;
        vstd::arithmetic::div_mod::lemma_fundamental_div_mod_converse(-m, d, -q, 0);
    } else {
        assert(-m == (-q - 1) * d + (d - r)) by (nonlinear_arith) requires m == d * q + r;
        vstd::arithmetic::div_mod::lemma_fundamental_div_mod_converse(-m, d, -q - 1, d - r);
    }
}
