// ---- farith_lemmas.rs: value-level statement of C03 for the arithmetic operations of dashu-float and the digit /
// power lemmas behind it.  Needs round_prelude.rs, round_int_stubs.rs, round_float_repr.rs.  Nothing trusted here.

/// (s0, e0) is THE normalized representation of the real number X * b^E: same value, last digit non-zero (or zero)
pub open spec fn norm_of(b: int, X: int, E: int, s0: int, e0: int) -> bool {
    same_value(b, s0, e0, X, E) && (s0 == 0 || s0 % b != 0)
}
/// C03 for an operation whose exact real result is x = X * b^E: `ret` is ONE correct rounding (mode m, precision p,
/// 0 = unlimited) of x.  Spelled out through `round_once` on the normalized representation (s0, e0) of x:
///   Exact(r)        iff x has at most p significant digits, and then r == x;
///   Inexact(r, adj) otherwise: r = mm * ulp with ulp = b^(e0 + nd - p) the unit in the last place of x at precision p,
///                   mm the neighbour of x/ulp prescribed by the mode (error < 1 ulp, <= 1/2 ulp for the Half modes,
///                   side by mode), adj = mm - trunc(x/ulp) truthful, r != x, |mm| <= b^p (at most p digits, or b^p).
pub open spec fn round_val<const B: Word>(m: Mode, b: int, p: usize, X: int, E: int, ret: Rounded<Repr<B>>) -> bool {
    exists|s0: int, e0: int| #[trigger] norm_of(b, X, E, s0, e0) && round_once(m, b, p, s0, e0, ret)
}

pub proof fn lemma_ipow_mono(b: int, x: nat, y: nat)
    requires b >= 1, x <= y
    ensures ipow(b, x) <= ipow(b, y)
    decreases y
{
    if x < y {
        lemma_ipow_mono(b, x, (y - 1) as nat);
        lemma_ipow_pos(b, (y - 1) as nat);
        let t = ipow(b, (y - 1) as nat);
        assert(b * t >= t) by (nonlinear_arith) requires b >= 1, t >= 1;
    }
}
pub proof fn lemma_ipow_strict(b: int, x: nat, y: nat)
    requires b >= 2, x < y
    ensures ipow(b, x) < ipow(b, y)
{
    lemma_ipow_mono(b, x, (y - 1) as nat);
    lemma_ipow_pos(b, (y - 1) as nat);
    let t = ipow(b, (y - 1) as nat);
    assert(b * t > t) by (nonlinear_arith) requires b >= 2, t >= 1;
}
/// ndigits is determined by its defining enclosure
pub proof fn lemma_ndigits_unique(b: int, v: int, k: nat)
    requires b >= 2, k >= 1, ipow(b, (k - 1) as nat) <= iabs(v), iabs(v) < ipow(b, k)
    ensures ndigits(b, v) == k
{
    broadcast use ax_ndigits;
    lemma_ipow_pos(b, (k - 1) as nat);
    let n = ndigits(b, v);
    assert(v != 0);
    if n < k {
        lemma_ipow_mono(b, n, (k - 1) as nat);
    } else if n > k {
        lemma_ipow_mono(b, k, (n - 1) as nat);
    }
}
/// |v| < b^k  ==>  at most k digits
pub proof fn lemma_ndigits_le(b: int, v: int, k: nat)
    requires b >= 2, iabs(v) < ipow(b, k)
    ensures ndigits(b, v) <= k
{
    broadcast use ax_ndigits;
    let n = ndigits(b, v);
    if n > k {
        lemma_ipow_mono(b, k, (n - 1) as nat);
    }
}
/// |v| >= b^k  ==>  more than k digits
pub proof fn lemma_ndigits_gt(b: int, v: int, k: nat)
    requires b >= 2, iabs(v) >= ipow(b, k)
    ensures ndigits(b, v) > k
{
    broadcast use ax_ndigits;
    let n = ndigits(b, v);
    lemma_ipow_pos(b, k);
    if n <= k {
        lemma_ipow_mono(b, n, k);
    }
}
/// appending k zero digits
pub proof fn lemma_ndigits_shift(b: int, s: int, k: nat)
    requires b >= 2, s != 0
    ensures ndigits(b, s * ipow(b, k)) == ndigits(b, s) + k, s * ipow(b, k) != 0
{
    broadcast use ax_ndigits;
    let n = ndigits(b, s);
    let u = ipow(b, k);
    lemma_ipow_pos(b, k);
    let lo = ipow(b, (n - 1) as nat);
    let hi = ipow(b, n);
    let a = iabs(s);
    let v = s * u;
    assert(iabs(v) == a * u) by (nonlinear_arith) requires v == s * u, a == (if s < 0 { -s } else { s }), u >= 1;
    let au = a * u;
    assert(lo * u <= au) by (nonlinear_arith) requires lo <= a, u >= 1, au == a * u;
    assert(au < hi * u) by (nonlinear_arith) requires a < hi, u >= 1, au == a * u;
    lemma_ipow_add(b, (n - 1) as nat, k);
    lemma_ipow_add(b, n, k);
    assert(((n - 1) as nat + k) as nat == ((n + k) - 1) as nat);
    assert(au >= 1) by (nonlinear_arith) requires a >= 1, u >= 1, au == a * u;
    lemma_ndigits_unique(b, v, n + k);
}
/// two representations of the same non-zero value have the same "exponent + digits" (position of the top digit)
pub proof fn lemma_same_value_top(b: int, s1: int, e1: int, s2: int, e2: int)
    requires b >= 2, same_value(b, s1, e1, s2, e2)
    ensures (s1 == 0) == (s2 == 0), s1 != 0 ==> e1 + ndigits(b, s1) == e2 + ndigits(b, s2)
{
    broadcast use ax_ndigits;
    if e1 <= e2 {
        let k = (e2 - e1) as nat;
        lemma_ipow_pos(b, k);
        if s2 != 0 { lemma_ndigits_shift(b, s2, k); } else { assert(0 * ipow(b, k) == 0); }
    } else {
        let k = (e1 - e2) as nat;
        lemma_ipow_pos(b, k);
        if s1 != 0 { lemma_ndigits_shift(b, s1, k); } else { assert(0 * ipow(b, k) == 0); }
    }
}
/// number of digits of a product: nd(x) + nd(y) - 1 <= nd(x*y) <= nd(x) + nd(y)
pub proof fn lemma_ndigits_mul(b: int, x: int, y: int)
    requires b >= 2
    ensures ndigits(b, x * y) <= ndigits(b, x) + ndigits(b, y)
{
    broadcast use ax_ndigits;
    let (n, m) = (ndigits(b, x), ndigits(b, y));
    if x == 0 || y == 0 {
        assert(x * y == 0) by (nonlinear_arith) requires x == 0 || y == 0;
    } else {
        let (ax, ay) = (iabs(x), iabs(y));
        let (px, py) = (ipow(b, n), ipow(b, m));
        let xy = x * y;
        assert(iabs(xy) == ax * ay) by (nonlinear_arith)
            requires xy == x * y, ax == (if x < 0 { -x } else { x }), ay == (if y < 0 { -y } else { y });
        let axy = ax * ay;
        assert(axy < px * py) by (nonlinear_arith) requires 0 <= ax, ax < px, 0 <= ay, ay < py, axy == ax * ay;
        lemma_ipow_add(b, n, m);
        lemma_ndigits_le(b, xy, n + m);
    }
}
/// a value with k >= 1 appended zero digits is divisible by the base
pub proof fn lemma_shift_divisible(b: int, s: int, k: nat)
    requires b >= 2, k >= 1
    ensures (s * ipow(b, k)) % b == 0
{
    let p = ipow(b, (k - 1) as nat);
    assert(ipow(b, k) == b * p);
    let t = s * p;
    assert(s * (b * p) == t * b) by (nonlinear_arith) requires t == s * p;
    vstd::arithmetic::div_mod::lemma_mod_multiples_basic(t, b);
}
/// the normalized representation (s1, e1) of (s2, e2): exponent not below, digits not above
pub proof fn lemma_norm_of(b: int, s2: int, e2: int, s1: int, e1: int)
    requires b >= 2, norm_of(b, s2, e2, s1, e1)
    ensures (s1 == 0) == (s2 == 0),
        s1 != 0 ==> e1 >= e2 && e1 + ndigits(b, s1) == e2 + ndigits(b, s2) && ndigits(b, s1) <= ndigits(b, s2),
{
    lemma_same_value_top(b, s1, e1, s2, e2);
    if s1 != 0 && e1 < e2 {
        lemma_shift_divisible(b, s2, (e2 - e1) as nat);
    }
}

pub open spec fn imin(a: int, b: int) -> int { if a <= b { a } else { b } }
/// |v| < b^ndigits(v), also for v == 0
pub proof fn lemma_ndigits_ub(b: int, v: int)
    requires b >= 2
    ensures iabs(v) < ipow(b, ndigits(b, v))
{
    broadcast use ax_ndigits;
    lemma_ipow_pos(b, ndigits(b, v));
}
