// ---- simplest_lemmas.rs: continued-fraction invariant of `Repr::simplest_in` (rational/src/simplify.rs, C18).
// Needs lib/ratio_lemmas.rs (rabs), lib/farey_lemmas.rs (qlt, qle, lemma_q_neg, lemma_qeq_left).

/// p/s lies strictly between l = ln/ld and u = un/ud (in either order); denominators positive
pub open spec fn strictly_between(ln: int, ld: int, un: int, ud: int, p: int, s: int) -> bool {
    (qlt(ln, ld, p, s) && qlt(p, s, un, ud)) || (qlt(un, ud, p, s) && qlt(p, s, ln, ld))
}
/// DEFINITION (property C18): rn/rd is strictly between l and u and every fraction p/s strictly between them has
/// s >= rd and |p| >= |rn| (so none has a smaller denominator, or the same denominator and a smaller numerator magnitude)
pub open spec fn is_simplest_in(ln: int, ld: int, un: int, ud: int, rn: int, rd: int) -> bool {
    &&& rd >= 1
    &&& strictly_between(ln, ld, un, ud, rn, rd)
    &&& forall|p: int, s: int| s >= 1 && #[trigger] strictly_between(ln, ld, un, ud, p, s) ==> s >= rd && rabs(p) >= rabs(rn)
}

/// a/b < p/s < c/d
pub open spec fn inside(a: int, b: int, c: int, d: int, p: int, s: int) -> bool { qlt(a, b, p, s) && qlt(p, s, c, d) }
/// what the loop of simplest_in delivers for 0 <= a/b < c/d: N/D inside, minimal denominator AND numerator
pub open spec fn cf_done(a: int, b: int, c: int, d: int, nn: int, dd: int) -> bool {
    &&& dd >= 1 && nn >= 0
    &&& inside(a, b, c, d, nn, dd)
    &&& forall|p: int, s: int| s >= 1 && #[trigger] inside(a, b, c, d, p, s) ==> s >= dd && p >= nn
}

/// loop invariant: the current interval (nl/dl, nr/dr) (dr may be 0 = infinity) is mapped onto the original one
/// (a/b, c/d) by y -> (n0*y + n1)/(d0*y + d1), a unimodular map whose orientation alternates (`flip`)
pub open spec fn cf_inv(a: int, b: int, c: int, d: int, flip: bool, n0: int, n1: int, d0: int, d1: int,
                        nl: int, dl: int, nr: int, dr: int) -> bool {
    &&& b > 0 && d > 0 && a >= 0
    &&& dl > 0 && nl >= 0 && nr > 0 && dr >= 0
    &&& nl * dr < nr * dl
    &&& n0 >= 0 && n1 >= 0 && d0 >= 0 && d1 >= 0 && d0 + d1 >= 1
    &&& n0 * d1 - n1 * d0 == (if flip { -1int } else { 1int })
    &&& if flip { n0 * nl + n1 * dl == c && d0 * nl + d1 * dl == d && n0 * nr + n1 * dr == a && d0 * nr + d1 * dr == b }
        else { n0 * nl + n1 * dl == a && d0 * nl + d1 * dl == b && n0 * nr + n1 * dr == c && d0 * nr + d1 * dr == d }
}

/// cross product of the images of two vectors under the matrix [[n0, n1], [d0, d1]] = determinant * cross product
pub proof fn lemma_cross_det(n0: int, n1: int, d0: int, d1: int, x1: int, y1: int, x2: int, y2: int)
    ensures (n0 * x1 + n1 * y1) * (d0 * x2 + d1 * y2) - (n0 * x2 + n1 * y2) * (d0 * x1 + d1 * y1)
            == (n0 * d1 - n1 * d0) * (x1 * y2 - x2 * y1)
{
    let (p1, q1, p2, q2) = (n0 * x1 + n1 * y1, d0 * x1 + d1 * y1, n0 * x2 + n1 * y2, d0 * x2 + d1 * y2);
    let (ee, aa, bb, ff) = (n0 * d0, n0 * d1, n1 * d0, n1 * d1);
    let (w, u, v, z) = (x1 * x2, x1 * y2, x2 * y1, y1 * y2);
    let (t1, t2, t3, t4) = (n0 * x1, n1 * y1, d0 * x2, d1 * y2);
    let (s1, s2, s3, s4) = (n0 * x2, n1 * y2, d0 * x1, d1 * y1);
    assert(p1 * q2 == t1 * t3 + t1 * t4 + t2 * t3 + t2 * t4) by (nonlinear_arith) requires p1 == t1 + t2, q2 == t3 + t4;
    assert(p2 * q1 == s1 * s3 + s1 * s4 + s2 * s3 + s2 * s4) by (nonlinear_arith) requires p2 == s1 + s2, q1 == s3 + s4;
    assert(t1 * t3 == ee * w) by (nonlinear_arith) requires t1 == n0 * x1, t3 == d0 * x2, ee == n0 * d0, w == x1 * x2;
    assert(t1 * t4 == aa * u) by (nonlinear_arith) requires t1 == n0 * x1, t4 == d1 * y2, aa == n0 * d1, u == x1 * y2;
    assert(t2 * t3 == bb * v) by (nonlinear_arith) requires t2 == n1 * y1, t3 == d0 * x2, bb == n1 * d0, v == x2 * y1;
    assert(t2 * t4 == ff * z) by (nonlinear_arith) requires t2 == n1 * y1, t4 == d1 * y2, ff == n1 * d1, z == y1 * y2;
    assert(s1 * s3 == ee * w) by (nonlinear_arith) requires s1 == n0 * x2, s3 == d0 * x1, ee == n0 * d0, w == x1 * x2;
    assert(s1 * s4 == aa * v) by (nonlinear_arith) requires s1 == n0 * x2, s4 == d1 * y1, aa == n0 * d1, v == x2 * y1;
    assert(s2 * s3 == bb * u) by (nonlinear_arith) requires s2 == n1 * y2, s3 == d0 * x1, bb == n1 * d0, u == x1 * y2;
    assert(s2 * s4 == ff * z) by (nonlinear_arith) requires s2 == n1 * y2, s4 == d1 * y1, ff == n1 * d1, z == y1 * y2;
    assert((aa - bb) * (u - v) == aa * u - aa * v - bb * u + bb * v) by (nonlinear_arith);
}

pub proof fn lemma_cf_init(a: int, b: int, c: int, d: int)
    requires b > 0, d > 0, a >= 0, qlt(a, b, c, d)
    ensures cf_inv(a, b, c, d, false, 1, 0, 0, 1, a, b, c, d)
{
    assert(c > 0) by (nonlinear_arith) requires a * d < c * b, a >= 0, d > 0, b > 0;
    assert(1 * a + 0 * b == a && 0 * a + 1 * b == b && 1 * c + 0 * d == c && 0 * c + 1 * d == d && 1 * 1 - 0 * 0 == 1) by (nonlinear_arith);
}

/// one continued-fraction step: q = floor(nl/dl), r1 = nl - q*dl
pub proof fn lemma_cf_step(a: int, b: int, c: int, d: int, flip: bool, n0: int, n1: int, d0: int, d1: int,
                           nl: int, dl: int, nr: int, dr: int, q: int, r1: int)
    requires cf_inv(a, b, c, d, flip, n0, n1, d0, d1, nl, dl, nr, dr), nl == q * dl + r1, 0 <= r1 < dl
    ensures q >= 0, cf_inv(a, b, c, d, !flip, q * n0 + n1, n0, q * d0 + d1, d0, dr, nr - q * dr, dl, r1)
{
    assert(q >= 0) by (nonlinear_arith) requires nl == q * dl + r1, 0 <= r1 < dl, nl >= 0;
    let r2 = nr - q * dr;
    let qdl = q * dl;
    // r2 > 0
    assert(qdl * dr <= nl * dr) by (nonlinear_arith) requires qdl <= nl, dr >= 0;
    assert(qdl * dr == dl * (q * dr)) by (nonlinear_arith) requires qdl == q * dl;
    assert(nr * dl == dl * nr) by (nonlinear_arith);
    lemma_mul_cancel(dl, q * dr, nr);
    assert(r2 > 0);
    // the new interval is ordered: dr * r1 < dl * r2
    assert(dr * r1 == nl * dr - qdl * dr) by (nonlinear_arith) requires r1 == nl - qdl;
    assert(dl * r2 == nr * dl - qdl * dr) by (nonlinear_arith) requires r2 == nr - q * dr, qdl == q * dl;
    assert(dr * r1 < dl * r2);
    // coefficients
    let (m0, m1, e0, e1) = (q * n0 + n1, n0, q * d0 + d1, d0);
    assert(q * n0 >= 0 && q * d0 >= 0) by (nonlinear_arith) requires q >= 0, n0 >= 0, d0 >= 0;
    assert(m0 * e1 - m1 * e0 == -(n0 * d1 - n1 * d0)) by (nonlinear_arith)
        requires m0 == q * n0 + n1, m1 == n0, e0 == q * d0 + d1, e1 == d0;
    // images: new L = (dr, r2) is mapped to the old image of R, new R = (dl, r1) to the old image of L
    assert(m0 * dr + m1 * r2 == n0 * nr + n1 * dr) by (nonlinear_arith) requires m0 == q * n0 + n1, m1 == n0, r2 == nr - q * dr;
    assert(e0 * dr + e1 * r2 == d0 * nr + d1 * dr) by (nonlinear_arith) requires e0 == q * d0 + d1, e1 == d0, r2 == nr - q * dr;
    assert(m0 * dl + m1 * r1 == n0 * nl + n1 * dl) by (nonlinear_arith) requires m0 == q * n0 + n1, m1 == n0, nl == q * dl + r1;
    assert(e0 * dl + e1 * r1 == d0 * nl + d1 * dl) by (nonlinear_arith) requires e0 == q * d0 + d1, e1 == d0, nl == q * dl + r1;
}

/// at the exit (current L < 1 < current R) the image of 1 lies strictly inside the original interval
pub proof fn lemma_cf_final(a: int, b: int, c: int, d: int, flip: bool, n0: int, n1: int, d0: int, d1: int,
                            nl: int, dl: int, nr: int, dr: int)
    requires cf_inv(a, b, c, d, flip, n0, n1, d0, d1, nl, dl, nr, dr), nl < dl, nr > dr
    ensures inside(a, b, c, d, n0 + n1, d0 + d1)
{
    let (nn, dd) = (n0 + n1, d0 + d1);
    let det = n0 * d1 - n1 * d0;
    let (pl, ql, pr, qr) = (n0 * nl + n1 * dl, d0 * nl + d1 * dl, n0 * nr + n1 * dr, d0 * nr + d1 * dr);
    lemma_cross_det(n0, n1, d0, d1, 1, 1, nl, dl);
    lemma_cross_det(n0, n1, d0, d1, 1, 1, nr, dr);
    assert(n0 * 1 + n1 * 1 == nn && d0 * 1 + d1 * 1 == dd && 1 * dl - nl * 1 == dl - nl && 1 * dr - nr * 1 == dr - nr) by (nonlinear_arith)
        requires nn == n0 + n1, dd == d0 + d1;
    assert(nn * ql - pl * dd == det * (dl - nl));
    assert(nn * qr - pr * dd == det * (dr - nr));
    if flip {
        assert(det * (dl - nl) == -(dl - nl) && det * (dr - nr) == -(dr - nr)) by (nonlinear_arith) requires det == -1;
    } else {
        assert(det * (dl - nl) == dl - nl && det * (dr - nr) == dr - nr) by (nonlinear_arith) requires det == 1;
    }
}

/// ... and every fraction strictly inside has a denominator >= d0 + d1 and a numerator >= n0 + n1
pub proof fn lemma_cf_opt(a: int, b: int, c: int, d: int, flip: bool, n0: int, n1: int, d0: int, d1: int,
                          nl: int, dl: int, nr: int, dr: int, p: int, s: int)
    requires cf_inv(a, b, c, d, flip, n0, n1, d0, d1, nl, dl, nr, dr), nl < dl, nr > dr, s >= 1, inside(a, b, c, d, p, s)
    ensures s >= d0 + d1, p >= n0 + n1
{
    let det = n0 * d1 - n1 * d0;
    // (aa, cc) = M^-1 (p, s):  p == n0*aa + n1*cc, s == d0*aa + d1*cc
    let aa = det * (d1 * p - n1 * s);
    let cc = det * (n0 * s - d0 * p);
    let (u, w) = (d1 * p - n1 * s, n0 * s - d0 * p);
    assert(n0 * u + n1 * w == det * p) by (nonlinear_arith) requires u == d1 * p - n1 * s, w == n0 * s - d0 * p, det == n0 * d1 - n1 * d0;
    assert(d0 * u + d1 * w == det * s) by (nonlinear_arith) requires u == d1 * p - n1 * s, w == n0 * s - d0 * p, det == n0 * d1 - n1 * d0;
    assert(aa == (if flip { -u } else { u }) && cc == (if flip { -w } else { w })) by (nonlinear_arith)
        requires aa == det * u, cc == det * w, det == (if flip { -1int } else { 1int });
    assert(det * p == (if flip { -p } else { p }) && det * s == (if flip { -s } else { s })) by (nonlinear_arith)
        requires det == (if flip { -1int } else { 1int });
    assert(n0 * aa + n1 * cc == p) by (nonlinear_arith)
        requires n0 * u + n1 * w == (if flip { -p } else { p }), aa == (if flip { -u } else { u }), cc == (if flip { -w } else { w });
    assert(d0 * aa + d1 * cc == s) by (nonlinear_arith)
        requires d0 * u + d1 * w == (if flip { -s } else { s }), aa == (if flip { -u } else { u }), cc == (if flip { -w } else { w });
    // position of (aa, cc) relative to the current interval
    let (pl, ql, pr, qr) = (n0 * nl + n1 * dl, d0 * nl + d1 * dl, n0 * nr + n1 * dr, d0 * nr + d1 * dr);
    let (x, y) = (aa * dl - cc * nl, aa * dr - cc * nr);
    lemma_cross_det(n0, n1, d0, d1, aa, cc, nl, dl);
    lemma_cross_det(n0, n1, d0, d1, aa, cc, nr, dr);
    assert(nl * cc == cc * nl && nr * cc == cc * nr) by (nonlinear_arith);
    assert(p * ql - pl * s == det * x);
    assert(p * qr - pr * s == det * y);
    assert(det * x == (if flip { -x } else { x }) && det * y == (if flip { -y } else { y })) by (nonlinear_arith)
        requires det == (if flip { -1int } else { 1int });
    // in both orientations: aa*dl > cc*nl and aa*dr < cc*nr
    assert(x > 0 && y < 0);
    // cc >= 1, aa >= 1
    if cc <= 0 {
        assert(cc * nr <= 0) by (nonlinear_arith) requires cc <= 0, nr > 0;
        assert(aa < 0) by (nonlinear_arith) requires aa * dr < 0, dr >= 0;
        assert(d0 * aa + d1 * cc <= 0) by (nonlinear_arith) requires aa < 0, cc <= 0, d0 >= 0, d1 >= 0;
        assert(false);
    }
    assert(cc * nl >= 0) by (nonlinear_arith) requires cc >= 1, nl >= 0;
    assert(aa >= 1) by (nonlinear_arith) requires aa * dl > 0, dl > 0;
    assert(d0 * aa + d1 * cc >= d0 + d1) by (nonlinear_arith) requires aa >= 1, cc >= 1, d0 >= 0, d1 >= 0;
    assert(n0 * aa + n1 * cc >= n0 + n1) by (nonlinear_arith) requires aa >= 1, cc >= 1, n0 >= 0, n1 >= 0;
}

pub proof fn lemma_cf_done(a: int, b: int, c: int, d: int, flip: bool, n0: int, n1: int, d0: int, d1: int,
                           nl: int, dl: int, nr: int, dr: int)
    requires cf_inv(a, b, c, d, flip, n0, n1, d0, d1, nl, dl, nr, dr), nl < dl, nr > dr
    ensures cf_done(a, b, c, d, n0 + n1, d0 + d1)
{
    lemma_cf_final(a, b, c, d, flip, n0, n1, d0, d1, nl, dl, nr, dr);
    assert forall|p: int, s: int| s >= 1 && #[trigger] inside(a, b, c, d, p, s) implies s >= d0 + d1 && p >= n0 + n1 by {
        lemma_cf_opt(a, b, c, d, flip, n0, n1, d0, d1, nl, dl, nr, dr, p, s);
    }
}

/// sign handling of simplest_in: both end points have the sign `neg` (a zero end point takes the sign of the other one), (a/b, c/d) are
/// their magnitudes in increasing order, nn/dd is the answer for the magnitudes  ==>  +-nn/dd answers (l, u)
pub proof fn lemma_simplest_wrap(ln: int, ld: int, un: int, ud: int, neg: bool, a: int, b: int, c: int, d: int, nn: int, dd: int, rn: int)
    requires ld > 0, ud > 0, b > 0, d > 0,
        neg ==> ln <= 0 && un <= 0, !neg ==> ln >= 0 && un >= 0,
        (a == rabs(ln) && b == ld && c == rabs(un) && d == ud) || (a == rabs(un) && b == ud && c == rabs(ln) && d == ld),
        qlt(a, b, c, d), cf_done(a, b, c, d, nn, dd), rn == (if neg { -nn } else { nn })
    ensures is_simplest_in(ln, ld, un, ud, rn, dd)
{
    // strictly_between is symmetric in its end points: arrange (xl, xu) = signed (a/b, c/d) resp. (c/d, a/b)
    assert forall|p: int, s: int| s >= 1 implies
        (#[trigger] strictly_between(ln, ld, un, ud, p, s) == inside(a, b, c, d, if neg { -p } else { p }, s)) by {
        if neg {
            lemma_q_neg(ln, ld, p, s); lemma_q_neg(p, s, un, ud); lemma_q_neg(un, ud, p, s); lemma_q_neg(p, s, ln, ld);
            // a/b < c/d excludes the wrong orientation
            if inside(c, d, a, b, -p, s) { lemma_qlt_qle(c, d, -p, s, a, b); lemma_q_irrefl(a, b, c, d); }
        } else {
            if inside(c, d, a, b, p, s) { lemma_qlt_qle(c, d, p, s, a, b); lemma_q_irrefl(a, b, c, d); }
        }
    }
    assert(strictly_between(ln, ld, un, ud, rn, dd) == inside(a, b, c, d, if neg { -rn } else { rn }, dd));
    assert forall|p: int, s: int| s >= 1 && #[trigger] strictly_between(ln, ld, un, ud, p, s) implies s >= dd && rabs(p) >= rabs(rn) by {
        assert(inside(a, b, c, d, if neg { -p } else { p }, s));
    }
}
/// a/b < c/d and c/d < a/b (or <=) cannot both hold
pub proof fn lemma_q_irrefl(a: int, b: int, c: int, d: int)
    requires qlt(a, b, c, d), qlt(c, d, a, b) || qle(c, d, a, b)
    ensures false
{
}
/// lower < 0 < upper (different signs, zero counting as non-negative, the zero/negative combination excluded): 0 = 0/1
pub proof fn lemma_simplest_zero(ln: int, ld: int, un: int, ud: int)
    requires ld > 0, ud > 0, (ln < 0) != (un < 0), !(ln == 0 && un < 0), !(un == 0 && ln < 0)
    ensures ln * ud != un * ld, is_simplest_in(ln, ld, un, ud, 0, 1)
{
    lemma_sign_prod(ln, ud);
    lemma_sign_prod(un, ld);
    assert(ln * 1 == ln && un * 1 == un && 0 * ld == 0 && 0 * ud == 0) by (nonlinear_arith);
}
/// inside(a,b,c,d,..) is non-empty only if a/b < c/d
pub proof fn lemma_cf_between(a: int, b: int, c: int, d: int, p: int, s: int)
    requires b > 0, d > 0, s > 0, inside(a, b, c, d, p, s)
    ensures qlt(a, b, c, d)
{
    lemma_qlt_qle(a, b, p, s, c, d);
}

/// the canonical form n1/d1 of n/d has the smaller (or equal) parts
pub proof fn lemma_reduced_le(n: int, d: int, n1: int, d1: int)
    requires d > 0, wf_ratio(n1, d1), n1 * d == n * d1
    ensures d1 <= d, rabs(n1) <= rabs(n)
{
    lemma_sign_prod(n1, d);
    lemma_sign_prod(n, d1);
    let (a1, a) = (rabs(n1), rabs(n));
    assert(a1 * d == a * d1);
    lemma_divides_intro(d1, a, a1 * d);
    lemma_gcd_sym(1, a1, d1);
    lemma_euclid_lemma(d1, a1, d);
    lemma_divides_le(d1, d);
    assert(a1 <= a) by (nonlinear_arith) requires a1 * d == a * d1, d1 <= d, d > 0, d1 >= 1, a >= 0, a1 >= 0;
}
/// reducing the answer of Repr::simplest_in keeps it the answer
pub proof fn lemma_simplest_reduce(ln: int, ld: int, un: int, ud: int, rn: int, rd: int, n1: int, d1: int)
    requires ld > 0, ud > 0, is_simplest_in(ln, ld, un, ud, rn, rd), wf_ratio(n1, d1), n1 * rd == rn * d1
    ensures is_simplest_in(ln, ld, un, ud, n1, d1)
{
    lemma_reduced_le(rn, rd, n1, d1);
    assert(rn * d1 == n1 * rd);
    lemma_qeq_left(rn, rd, n1, d1, ln, ld);
    lemma_qeq_left(rn, rd, n1, d1, un, ud);
    assert forall|p: int, s: int| s >= 1 && #[trigger] strictly_between(ln, ld, un, ud, p, s) implies s >= d1 && rabs(p) >= rabs(n1) by {
        assert(s >= rd && rabs(p) >= rabs(rn));
    }
}

/// a/b == c/d (positive denominators), cross-multiplied
pub open spec fn qeq(a: int, b: int, c: int, d: int) -> bool { a * d == c * b }

/// quantified forms usable before `Self(Repr::simplest_in(..).reduce())` (the intermediate value has no name)
pub proof fn lemma_simplest_reduce_all(ln: int, ld: int, un: int, ud: int)
    requires ld > 0, ud > 0
    ensures
        forall|rn: int, rd: int, n1: int, d1: int| #![trigger is_simplest_in(ln, ld, un, ud, rn, rd), wf_ratio(n1, d1)]
            is_simplest_in(ln, ld, un, ud, rn, rd) && wf_ratio(n1, d1) && n1 * rd == rn * d1 ==> is_simplest_in(ln, ld, un, ud, n1, d1),
{
    assert forall|rn: int, rd: int, n1: int, d1: int| #![trigger is_simplest_in(ln, ld, un, ud, rn, rd), wf_ratio(n1, d1)]
        is_simplest_in(ln, ld, un, ud, rn, rd) && wf_ratio(n1, d1) && n1 * rd == rn * d1 implies is_simplest_in(ln, ld, un, ud, n1, d1) by {
        lemma_simplest_reduce(ln, ld, un, ud, rn, rd, n1, d1);
    }
}
pub proof fn lemma_equal_reduce_all(ln: int, ld: int)
    requires wf_ratio(ln, ld)
    ensures
        forall|mn: int, md: int, n1: int, d1: int| #![trigger qeq(mn, md, ln, ld), wf_ratio(n1, d1)]
            md >= 1 && qeq(mn, md, ln, ld) && wf_ratio(n1, d1) && n1 * md == mn * d1 ==> n1 == ln && d1 == ld,
{
    assert forall|mn: int, md: int, n1: int, d1: int| #![trigger qeq(mn, md, ln, ld), wf_ratio(n1, d1)]
        md >= 1 && qeq(mn, md, ln, ld) && wf_ratio(n1, d1) && n1 * md == mn * d1 implies n1 == ln && d1 == ld by {
        // n1/d1 == mn/md == ln/ld
        let (x, y) = (n1 * ld, ln * d1);
        assert(md * x == md * y) by (nonlinear_arith)
            requires x == n1 * ld, y == ln * d1, n1 * md == mn * d1, mn * ld == ln * md;
        assert(x == y) by (nonlinear_arith) requires md * x == md * y, md >= 1;
        lemma_canonical_unique(n1, d1, ln, ld);
    }
}
