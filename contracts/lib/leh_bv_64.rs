// ---- leh_bv_64.rs: bit-level facts for integer/src/gcd/lehmer.rs with Word = u64 --------------------------------------
pub proof fn lemma_leh_split_signed_bv(dw: i128)
    ensures (dw as u64) as int + (((dw >> 64u32) as i64) as int) * B() == dw as int,
{
    assert((dw as u64) as i128 + (((dw >> 64u32) as i64) as i128) * 0x1_0000_0000_0000_0000i128 == dw) by (bit_vector);
}
