// ---- sf_spec.rs: specification vocabulary of `RBig::simplest_from_float` (rational/src/third_party/dashu_float.rs, C18).
// Needs round_prelude.rs (ipow, round_def), round_float_repr.rs (ndigits), ebounds_lemmas.rs (rounds_on_grid, eb_g, eb_pow),
// ratio_lemmas.rs (rabs), farey_lemmas.rs (qlt, qle).  Pure mathematics over int: nothing here is taken from the code.

/// the documented order of C18 over (denominator, |numerator|, sign): smaller denominator first, then smaller numerator
/// magnitude, then positive before negative.  (Verbatim copy of `simpler` in lib/ratio_types.rs, against which
/// `RBig::is_simpler_than` is PROVED in unit ratio_simpler; that file cannot be included next to round_int_stubs.rs
/// because both carry an assume_specification for `Ordering::is_le`.)
pub open spec fn simpler(d1: int, n1: int, d2: int, n2: int) -> bool {
    d1 < d2 || (d1 == d2 && (rabs(n1) < rabs(n2) || (rabs(n1) == rabs(n2) && n1 >= 0 && n2 < 0)))
}

/// the fraction n/d (d > 0) IS the number s * b^e, cross-multiplied
pub open spec fn fv(b: int, s: int, e: int, n: int, d: int) -> bool {
    if e >= 0 { n == (s * ipow(b, e as nat)) * d } else { n * ipow(b, (-e) as nat) == s * d }
}

/// "the fraction yn/yd (yd > 0) rounds to f" on the grid of f: f = m * ulp = (m * g) * b^eu, where b^eu = ulp/g is the fine
/// step below f (g = b when f is a power of the base: the numbers below it are spaced ulp/b; g = 1 otherwise; MODEL of
/// ebounds_lemmas.rs).  y = f + (X/D) * b^eu with X/D = (y - f) / b^eu, and `rounds_on_grid` is the DEFINITION of the mode
/// (round_def) on the grid of y's own binade.
pub open spec fn in_round_grid(md: Mode, b: int, m: int, g: int, eu: int, yn: int, yd: int) -> bool {
    if eu >= 0 {
        rounds_on_grid(md, m, g, yn - ((m * g) * ipow(b, eu as nat)) * yd, yd * ipow(b, eu as nat))
    } else {
        rounds_on_grid(md, m, g, yn * ipow(b, (-eu) as nat) - (m * g) * yd, yd)
    }
}
/// DEFINITION (property C18): "the fraction yn/yd (yd > 0) rounds to the float f = sig * b^exp of precision p under mode md":
/// f = m * ulp with the p-digit integer m = sig * b^(p - digits), ulp = b^(exp + digits - p).
pub open spec fn in_round_set(md: Mode, b: int, sig: int, exp: int, p: int, yn: int, yd: int) -> bool {
    let d = ndigits(b, sig) as int;
    let g = eb_g(b, sig);
    let eu = exp + d - p - (if eb_pow(sig) { 1int } else { 0int });       // exponent of the fine step ulp/g
    let m = sig * ipow(b, (p - d) as nat);
    in_round_grid(md, b, m, g, eu, yn, yd)
}

/// p/s lies in the interval from ln/ld to un/ud whose end points belong to it iff il / ir
pub open spec fn in_flag(ln: int, ld: int, un: int, ud: int, il: bool, ir: bool, p: int, s: int) -> bool {
    (if il { qle(ln, ld, p, s) } else { qlt(ln, ld, p, s) }) && (if ir { qle(p, s, un, ud) } else { qlt(p, s, un, ud) })
}

/// the CONTRACT of simplest_from_float for a finite non-zero f: rn/rd is canonical, rounds to f, and no fraction that
/// rounds to f is simpler (documented order; q ranges over ALL fractions qn/qd with qd >= 1, canonical or not)
pub open spec fn sf_post(md: Mode, b: int, sig: int, exp: int, p: int, rn: int, rd: int) -> bool {
    &&& wf_ratio(rn, rd)
    &&& in_round_set(md, b, sig, exp, p, rn, rd)
    &&& forall|qn: int, qd: int| qd >= 1 && #[trigger] in_round_set(md, b, sig, exp, p, qn, qd) ==> !simpler(qd, qn, rd, rn)
}
