// ---- conv_float.rs: IEEE-754 binary32 / binary64 vocabulary of the conversion units (C06).
// Mathematical integers only.  `rne_ok` is a transcription of the oracle `vk_bb_rne_ok` of the Kani group base_bit
// (kani/harness/base_bit.rs), generalised from x = a * 2^e to an exact non-negative rational x = xn / xd: the float
// is read through its IEEE fields (sign bit, biased exponent, fraction) and compared with x, and with the midpoints
// to its two neighbours, by exact cross-multiplication.
use vstd::arithmetic::power2::{pow2, lemma_pow2_pos, lemma_pow2_adds, lemma_pow2_strictly_increases, lemma2_to64, lemma2_to64_rest};
use vstd::float::*;

/// an IEEE binary interchange format: p fraction bits, all-ones biased exponent `emaxb`, exponent bias
pub struct Fmt { pub p: nat, pub emaxb: int, pub bias: int }
pub open spec fn fmt32() -> Fmt { Fmt { p: 23, emaxb: 0xff, bias: 127 } }
pub open spec fn fmt64() -> Fmt { Fmt { p: 52, emaxb: 0x7ff, bias: 1023 } }
/// the three IEEE fields of a bit pattern
pub struct Fields { pub sbit: bool, pub eb: int, pub frac: int }
pub open spec fn fields_wf(f: Fmt, r: Fields) -> bool { 0 <= r.eb <= f.emaxb && 0 <= r.frac < pow2(f.p) }
pub open spec fn fields32(x: f32) -> Fields {
    let b = x.to_bits_spec() as int;
    Fields { sbit: b / 0x8000_0000 == 1, eb: (b / 0x80_0000) % 0x100, frac: b % 0x80_0000 }
}
pub open spec fn fields64(x: f64) -> Fields {
    let b = x.to_bits_spec() as int;
    Fields { sbit: b / 0x8000_0000_0000_0000 == 1, eb: (b / 0x10_0000_0000_0000) % 0x800, frac: b % 0x10_0000_0000_0000 }
}
pub open spec fn f_inf(f: Fmt, neg: bool) -> Fields { Fields { sbit: neg, eb: f.emaxb, frac: 0 } }
pub open spec fn f_zero(neg: bool) -> Fields { Fields { sbit: neg, eb: 0, frac: 0 } }

pub open spec fn sgn3(a: int) -> int { if a < 0 { -1 } else if a == 0 { 0 } else { 1 } }
/// sign(xn/xd - m * 2^q)   (xd > 0)
pub open spec fn cmp_q(xn: int, xd: int, m: int, q: int) -> int {
    if q >= 0 { sgn3(xn - m * pow2(q as nat) * xd) } else { sgn3(xn * pow2((-q) as nat) - m * xd) }
}

/// "`r` is the round-to-nearest, ties-to-even value of (-1)^neg * xn/xd  (xn >= 0, xd > 0), and (`exact`, `err_pos`)
/// report truthfully whether it is exact / whether result - exact value is positive."   Zero is +0.0, exact.
/// Overflow threshold: the midpoint (2^(p+2) - 1) * 2^(q_top - 1) between the largest finite value and 2^(emax+1)
/// (the tie goes to infinity: the largest finite significand is odd).
pub open spec fn rne_ok(f: Fmt, neg: bool, xn: int, xd: int, r: Fields, exact: bool, err_pos: bool) -> bool {
    let P = pow2(f.p) as int;
    let q_top = f.emaxb - 1 - f.bias - f.p;
    if xn == 0 {
        !r.sbit && r.eb == 0 && r.frac == 0 && exact
    } else if r.sbit != neg {
        false
    } else if r.eb == f.emaxb {
        r.frac == 0 && cmp_q(xn, xd, 4 * P - 1, q_top - 1) >= 0 && !exact && (err_pos != neg)
    } else {
        // finite candidate y = m * 2^q
        let m = if r.eb == 0 { r.frac } else { r.frac + P };
        let q = (if r.eb == 0 { 1 } else { r.eb }) - f.bias - f.p;
        let c = cmp_q(xn, xd, m, q);          // sign(x - y)
        if c == 0 {
            exact
        } else {
            &&& !exact
            // sign(result - exact) is sign(y - x) for positive inputs and the opposite for negative ones
            &&& err_pos == ((c < 0) != neg)
            &&& if c > 0 {
                // x above y: not beyond the midpoint (2m + 1) * 2^(q-1) to the next float up; on the tie m is even
                let t = cmp_q(xn, xd, 2 * m + 1, q - 1);
                t < 0 || (t == 0 && m % 2 == 0)
            } else {
                // x below y (so m > 0): the next float down is (m - 1) * 2^q, except at the bottom of a normal binade
                // above the first one, where it is (2m - 1) * 2^(q-1)
                let t = if r.eb > 1 && r.frac == 0 { cmp_q(xn, xd, 4 * m - 1, q - 2) } else { cmp_q(xn, xd, 2 * m - 1, q - 1) };
                t > 0 || (t == 0 && m % 2 == 0)
            }
        }
    }
}

/// numerator / denominator of a * 2^e as an exact rational
pub open spec fn sc_num(a: int, e: int) -> int { if e >= 0 { a * pow2(e as nat) } else { a } }
pub open spec fn sc_den(e: int) -> int { if e >= 0 { 1 } else { pow2((-e) as nat) as int } }
pub open spec fn absi(a: int) -> int { if a < 0 { -a } else { a } }

// ------------------------------------------------------------------------------------------------
// powers of two

pub proof fn lemma_pow2_mono(a: nat, b: nat)
    requires a <= b
    ensures pow2(a) <= pow2(b), pow2(a) >= 1
{
    lemma_pow2_pos(a);
    if a < b { lemma_pow2_strictly_increases(a, b); }
}
pub proof fn lemma_pow2_succ(a: nat)
    ensures pow2(a + 1) == 2 * pow2(a), pow2(a) >= 1
{
    lemma_pow2_adds(a, 1);
    lemma2_to64();
    lemma_pow2_pos(a);
}
/// 2^a <= x < 2^b  ==>  a < b      (stated on a product bound)
pub proof fn lemma_pow2_lt_exp(a: nat, b: nat)
    requires pow2(a) < pow2(b)
    ensures a < b
{
    if a >= b { lemma_pow2_mono(b, a); }
}

/// From x >= 2^n1 and x <= M * 2^Q with M < 2^j (or x < M * 2^Q with M <= 2^j):  Q + j > n1.
pub proof fn lemma_q_lower(xn: int, n1: nat, M: int, j: nat, Q: int)
    requires
        xn >= pow2(n1), M >= 0,
        (cmp_q(xn, 1, M, Q) <= 0 && M < pow2(j)) || (cmp_q(xn, 1, M, Q) < 0 && M <= pow2(j)),
    ensures Q + j > n1
{
    lemma_pow2_pos(n1);
    lemma_pow2_pos(j);
    if Q >= 0 {
        let pq = pow2(Q as nat) as int;
        let pj = pow2(j) as int;
        lemma_pow2_pos(Q as nat);
        lemma_pow2_adds(j, Q as nat);
        let b = M * pq;
        assert(M * pq * 1 == b) by (nonlinear_arith) requires b == M * pq;
        // xn <= b (< if strict), b <= pj*pq (< if M < pj)
        assert(b <= pj * pq) by (nonlinear_arith) requires b == M * pq, M <= pj, pq > 0;
        assert(M < pj ==> b < pj * pq) by (nonlinear_arith) requires b == M * pq, pq > 0;
        assert(pow2(n1) < pow2(j + Q as nat));
        lemma_pow2_lt_exp(n1, j + Q as nat);
    } else {
        let pq = pow2((-Q) as nat) as int;
        let pj = pow2(j) as int;
        let pn = pow2(n1) as int;
        lemma_pow2_pos((-Q) as nat);
        lemma_pow2_adds(n1, (-Q) as nat);
        let a = xn * pq;
        assert(M * 1 == M);
        assert(pn * pq <= a) by (nonlinear_arith) requires a == xn * pq, xn >= pn, pq > 0;
        assert(pow2(n1 + (-Q) as nat) < pow2(j));
        lemma_pow2_lt_exp(n1 + (-Q) as nat, j);
    }
}

