// ---- conv_float.rs: IEEE-754 binary32 / binary64 vocabulary of the conversion units (C06).
// Mathematical integers only.  `rne_ok` is a transcription of the oracle `vk_bb_rne_ok` of the Kani group base_bit
// (kani/harness/base_bit.rs), generalised from x = a * 2^e to an exact non-negative rational x = xn / xd: the float
// is read through its IEEE fields (sign bit, biased exponent, fraction) and compared with x, and with the midpoints
// to its two neighbours, by exact cross-multiplication.
use vstd::arithmetic::power2::{pow2, lemma_pow2_pos, lemma_pow2_adds, lemma_pow2_strictly_increases, lemma2_to64, lemma2_to64_rest};
use vstd::float::*;

/// an IEEE binary interchange format: p fraction bits, all-ones biased exponent `emaxb`, exponent bias
pub struct Fmt { pub p: nat, pub emaxb: int, pub bias: int }
pub open spec fn fmt32() -> Fmt { Fmt { p: 23, emaxb: 0xff, bias: 127 } }
pub open spec fn fmt64() -> Fmt { Fmt { p: 52, emaxb: 0x7ff, bias: 1023 } }
/// the three IEEE fields of a bit pattern
pub struct Fields { pub sbit: bool, pub eb: int, pub frac: int }
pub open spec fn fields_wf(f: Fmt, r: Fields) -> bool { 0 <= r.eb <= f.emaxb && 0 <= r.frac < pow2(f.p) }
pub open spec fn fields32(x: f32) -> Fields {
    let b = x.to_bits_spec() as int;
    Fields { sbit: b / 0x8000_0000 == 1, eb: (b / 0x80_0000) % 0x100, frac: b % 0x80_0000 }
}
pub open spec fn fields64(x: f64) -> Fields {
    let b = x.to_bits_spec() as int;
    Fields { sbit: b / 0x8000_0000_0000_0000 == 1, eb: (b / 0x10_0000_0000_0000) % 0x800, frac: b % 0x10_0000_0000_0000 }
}
pub open spec fn f_inf(f: Fmt, neg: bool) -> Fields { Fields { sbit: neg, eb: f.emaxb, frac: 0 } }
pub open spec fn f_zero(neg: bool) -> Fields { Fields { sbit: neg, eb: 0, frac: 0 } }

pub open spec fn sgn3(a: int) -> int { if a < 0 { -1 } else if a == 0 { 0 } else { 1 } }
/// sign(xn/xd - m * 2^q)   (xd > 0)
pub open spec fn cmp_q(xn: int, xd: int, m: int, q: int) -> int {
    if q >= 0 { sgn3(xn - m * pow2(q as nat) * xd) } else { sgn3(xn * pow2((-q) as nat) - m * xd) }
}

/// "`r` is the round-to-nearest, ties-to-even value of (-1)^neg * xn/xd  (xn >= 0, xd > 0), and (`exact`, `err_pos`)
/// report truthfully whether it is exact / whether result - exact value is positive."   Zero is +0.0, exact.
/// Overflow threshold: the midpoint (2^(p+2) - 1) * 2^(q_top - 1) between the largest finite value and 2^(emax+1)
/// (the tie goes to infinity: the largest finite significand is odd).
pub open spec fn rne_ok(f: Fmt, neg: bool, xn: int, xd: int, r: Fields, exact: bool, err_pos: bool) -> bool {
    let P = pow2(f.p) as int;
    let q_top = f.emaxb - 1 - f.bias - f.p;
    if xn == 0 {
        !r.sbit && r.eb == 0 && r.frac == 0 && exact
    } else if r.sbit != neg {
        false
    } else if r.eb == f.emaxb {
        r.frac == 0 && cmp_q(xn, xd, 4 * P - 1, q_top - 1) >= 0 && !exact && (err_pos != neg)
    } else {
        // finite candidate y = m * 2^q
        let m = if r.eb == 0 { r.frac } else { r.frac + P };
        let q = (if r.eb == 0 { 1 } else { r.eb }) - f.bias - f.p;
        let c = cmp_q(xn, xd, m, q);          // sign(x - y)
        if c == 0 {
            exact
        } else {
            &&& !exact
            // sign(result - exact) is sign(y - x) for positive inputs and the opposite for negative ones
            &&& err_pos == ((c < 0) != neg)
            &&& if c > 0 {
                // x above y: not beyond the midpoint (2m + 1) * 2^(q-1) to the next float up; on the tie m is even
                let t = cmp_q(xn, xd, 2 * m + 1, q - 1);
                t < 0 || (t == 0 && m % 2 == 0)
            } else {
                // x below y (so m > 0): the next float down is (m - 1) * 2^q, except at the bottom of a normal binade
                // above the first one, where it is (2m - 1) * 2^(q-1)
                let t = if r.eb > 1 && r.frac == 0 { cmp_q(xn, xd, 4 * m - 1, q - 2) } else { cmp_q(xn, xd, 2 * m - 1, q - 1) };
                t > 0 || (t == 0 && m % 2 == 0)
            }
        }
    }
}

/// numerator / denominator of a * 2^e as an exact rational
pub open spec fn sc_num(a: int, e: int) -> int { if e >= 0 { a * pow2(e as nat) } else { a } }
pub open spec fn sc_den(e: int) -> int { if e >= 0 { 1 } else { pow2((-e) as nat) as int } }
pub open spec fn absi(a: int) -> int { if a < 0 { -a } else { a } }

// ------------------------------------------------------------------------------------------------
// powers of two

pub proof fn lemma_pow2_mono(a: nat, b: nat)
    requires a <= b
    ensures pow2(a) <= pow2(b), pow2(a) >= 1
{
    lemma_pow2_pos(a);
    if a < b { lemma_pow2_strictly_increases(a, b); }
}
pub proof fn lemma_pow2_succ(a: nat)
    ensures pow2(a + 1) == 2 * pow2(a), pow2(a) >= 1
{
    lemma_pow2_adds(a, 1);
    lemma2_to64();
    lemma_pow2_pos(a);
}
/// 2^a <= x < 2^b  ==>  a < b      (stated on a product bound)
pub proof fn lemma_pow2_lt_exp(a: nat, b: nat)
    requires pow2(a) < pow2(b)
    ensures a < b
{
    if a >= b { lemma_pow2_mono(b, a); }
}

/// From x >= 2^n1 and x <= M * 2^Q with M < 2^j (or x < M * 2^Q with M <= 2^j):  Q + j > n1.
pub proof fn lemma_q_lower(xn: int, n1: nat, M: int, j: nat, Q: int)
    requires
        xn >= pow2(n1), M >= 0,
        (cmp_q(xn, 1, M, Q) <= 0 && M < pow2(j)) || (cmp_q(xn, 1, M, Q) < 0 && M <= pow2(j)),
    ensures Q + j > n1
{
    lemma_pow2_pos(n1);
    lemma_pow2_pos(j);
    if Q >= 0 {
        let pq = pow2(Q as nat) as int;
        let pj = pow2(j) as int;
        lemma_pow2_pos(Q as nat);
        lemma_pow2_adds(j, Q as nat);
        let b = M * pq;
        assert(M * pq * 1 == b) by (nonlinear_arith) requires b == M * pq;
        // xn <= b (< if strict), b <= pj*pq (< if M < pj)
        assert(b <= pj * pq) by (nonlinear_arith) requires b == M * pq, M <= pj, pq > 0;
        assert(M < pj ==> b < pj * pq) by (nonlinear_arith) requires b == M * pq, pq > 0;
        assert(pow2(n1) < pow2(j + Q as nat));
        lemma_pow2_lt_exp(n1, j + Q as nat);
    } else {
        let pq = pow2((-Q) as nat) as int;
        let pj = pow2(j) as int;
        let pn = pow2(n1) as int;
        lemma_pow2_pos((-Q) as nat);
        lemma_pow2_adds(n1, (-Q) as nat);
        let a = xn * pq;
        assert(M * 1 == M);
        assert(pn * pq <= a) by (nonlinear_arith) requires a == xn * pq, xn >= pn, pq > 0;
        assert(pow2(n1 + (-Q) as nat) < pow2(j));
        lemma_pow2_lt_exp(n1 + (-Q) as nat, j);
    }
}

// ------------------------------------------------------------------------------------------------
// the sticky-bit lemma: rounding (top bits | sticky) * 2^s equals rounding the full integer

/// t | sticky on integers
pub open spec fn or_sticky(t: int, lo: int) -> int { if lo == 0 { t } else if t % 2 == 0 { t + 1 } else { t } }

/// every breakpoint M * 2^Q that is a multiple of 2^(s+1) separates the integer t*2^s + lo exactly as it separates
/// (t | sticky) * 2^s
pub proof fn lemma_sticky_cmp(t: int, s: nat, lo: int, M: int, Q: int)
    requires t >= 0, 0 <= lo < pow2(s), M >= 0, Q >= s + 1
    ensures cmp_q(t * pow2(s) + lo, 1, M, Q) == cmp_q(or_sticky(t, lo) * pow2(s), 1, M, Q)
{
    let ps = pow2(s) as int;
    let d = (Q - s - 1) as nat;
    let pd = pow2(d) as int;
    lemma_pow2_pos(s);
    lemma_pow2_pos(d);
    lemma_pow2_succ(s);
    lemma_pow2_adds(d, s + 1);
    assert(d + (s + 1) == Q as nat);
    let pq = pow2(Q as nat) as int;
    assert(pq == pd * (2 * ps));
    let K = M * pd;
    let b = M * pq;
    assert(b == (2 * K) * ps) by (nonlinear_arith) requires b == M * pq, pq == pd * (2 * ps), K == M * pd;
    assert(M * pq * 1 == b) by (nonlinear_arith) requires b == M * pq;
    let t2 = or_sticky(t, lo);
    let x = t * ps + lo;
    let x2 = t2 * ps;
    if t < 2 * K {
        assert(t2 <= 2 * K - 1);
        assert(x < b) by (nonlinear_arith) requires x == t * ps + lo, lo < ps, t <= 2 * K - 1, b == (2 * K) * ps, ps > 0;
        assert(x2 < b) by (nonlinear_arith) requires x2 == t2 * ps, t2 <= 2 * K - 1, b == (2 * K) * ps, ps > 0;
    } else if t == 2 * K {
        assert(x == b + lo) by (nonlinear_arith) requires x == t * ps + lo, t == 2 * K, b == (2 * K) * ps;
        assert(x2 - b == (t2 - t) * ps) by (nonlinear_arith) requires x2 == t2 * ps, t == 2 * K, b == (2 * K) * ps;
        if lo != 0 {
            assert(t2 - t == 1);
            assert((t2 - t) * ps == ps) by (nonlinear_arith) requires t2 - t == 1;
        } else {
            assert((t2 - t) * ps == 0) by (nonlinear_arith) requires t2 - t == 0;
        }
    } else {
        assert(x > b) by (nonlinear_arith) requires x == t * ps + lo, lo >= 0, t >= 2 * K + 1, b == (2 * K) * ps, ps > 0;
        assert(x2 > b) by (nonlinear_arith) requires x2 == t2 * ps, t2 >= 2 * K + 1, b == (2 * K) * ps, ps > 0;
    }
}

/// THE LEMMA.  t has exactly k >= p + 3 bits, the overflow threshold of the format is a multiple of 2^(s+1):
/// whatever is a correct RNE rounding (value, exactness flag, error sign) of (t | sticky) * 2^s is a correct RNE
/// rounding of the integer t * 2^s + lo itself.
pub proof fn lemma_sticky_rne(f: Fmt, neg: bool, t: int, s: nat, lo: int, k: nat, r: Fields, exact: bool, err_pos: bool)
    requires
        k >= f.p + 3, pow2((k - 1) as nat) <= t < pow2(k), 0 <= lo < pow2(s),
        f.emaxb - 1 - f.bias - f.p - 1 >= s + 1,
        fields_wf(f, r),
        rne_ok(f, neg, or_sticky(t, lo) * pow2(s), 1, r, exact, err_pos),
    ensures
        rne_ok(f, neg, t * pow2(s) + lo, 1, r, exact, err_pos)
{
    let ps = pow2(s) as int;
    let P = pow2(f.p) as int;
    let t2 = or_sticky(t, lo);
    let x2 = t2 * ps;
    let x = t * ps + lo;
    let n1 = (k - 1 + s) as nat;
    lemma_pow2_pos(s);
    lemma_pow2_pos(f.p);
    lemma_pow2_pos((k - 1) as nat);
    lemma_pow2_adds((k - 1) as nat, s);
    let pk1 = pow2((k - 1) as nat) as int;
    assert(x2 >= pk1 * ps) by (nonlinear_arith) requires x2 == t2 * ps, t2 >= pk1, ps > 0;
    assert(x2 >= pow2(n1));
    assert(x >= pk1 * ps) by (nonlinear_arith) requires x == t * ps + lo, t >= pk1, ps > 0, lo >= 0;
    assert(pk1 * ps > 0) by (nonlinear_arith) requires pk1 > 0, ps > 0;
    assert(x > 0 && x2 > 0);
    lemma_pow2_succ(f.p);
    lemma_pow2_succ(f.p + 1);
    let q_top = f.emaxb - 1 - f.bias - f.p;
    if r.sbit != neg {
    } else if r.eb == f.emaxb {
        lemma_sticky_cmp(t, s, lo, 4 * P - 1, q_top - 1);
    } else {
        let m = if r.eb == 0 { r.frac } else { r.frac + P };
        let q = (if r.eb == 0 { 1 } else { r.eb }) - f.bias - f.p;
        let c2 = cmp_q(x2, 1, m, q);
        assert(0 <= m < 2 * P);
        if c2 <= 0 {
            lemma_q_lower(x2, n1, m, f.p + 1, q);
        } else {
            let t2c = cmp_q(x2, 1, 2 * m + 1, q - 1);
            assert(t2c <= 0);
            lemma_q_lower(x2, n1, 2 * m + 1, f.p + 2, q - 1);
        }
        assert(q >= s + 2);
        lemma_sticky_cmp(t, s, lo, m, q);
        lemma_sticky_cmp(t, s, lo, 2 * m + 1, q - 1);
        if c2 < 0 {
            assert(m >= 1) by {
                if m == 0 {
                    assert(0 * pow2(q as nat) * 1 == 0) by (nonlinear_arith);
                }
            }
            lemma_sticky_cmp(t, s, lo, 2 * m - 1, q - 1);
            if r.eb > 1 && r.frac == 0 {
                lemma_q_lower(x2, n1, m, f.p, q);
                assert(q >= s + 3);
                lemma_sticky_cmp(t, s, lo, 4 * m - 1, q - 2);
            }
        }
    }
}

// ------------------------------------------------------------------------------------------------
// splitting an n-bit integer into its top k bits and the rest; overflow

/// v has n > k bits: t = v div 2^(n-k) has exactly k bits and v = t * 2^(n-k) + (v mod 2^(n-k))
pub proof fn lemma_top_bits(v: int, n: nat, k: nat)
    requires n > k, k >= 1, pow2((n - 1) as nat) <= v < pow2(n)
    ensures ({
        let s = (n - k) as nat;
        let t = v / (pow2(s) as int);
        let lo = v % (pow2(s) as int);
        &&& pow2((k - 1) as nat) <= t < pow2(k)
        &&& v == t * pow2(s) + lo
        &&& 0 <= lo < pow2(s)
    })
{
    let s = (n - k) as nat;
    let ps = pow2(s) as int;
    lemma_pow2_pos(s);
    let t = v / ps;
    let lo = v % ps;
    vstd::arithmetic::div_mod::lemma_fundamental_div_mod(v, ps);
    vstd::arithmetic::div_mod::lemma_mod_bound(v, ps);
    assert(ps * t == t * ps) by (nonlinear_arith);
    lemma_pow2_adds((k - 1) as nat, s);
    lemma_pow2_adds(k, s);
    assert((k - 1) as nat + s == (n - 1) as nat);
    assert(k + s == n);
    let pk1 = pow2((k - 1) as nat) as int;
    let pk = pow2(k) as int;
    let tp = t * ps;
    // pk1*ps <= t*ps + lo < pk*ps, 0 <= lo < ps
    assert(t < pk) by (nonlinear_arith) requires tp == t * ps, tp + lo < pk * ps, lo >= 0, ps > 0;
    assert(t >= pk1) by (nonlinear_arith) requires tp == t * ps, tp + lo >= pk1 * ps, lo < ps, ps > 0;
}

/// at or above 2^(emax+1) (= 2^(emaxb - bias)) the RNE result is the infinity of the right sign, inexact, error
/// pointing away from zero
pub proof fn lemma_overflow(f: Fmt, neg: bool, xn: int, e: nat)
    requires
        e == f.emaxb - f.bias, f.emaxb - 1 - f.bias - f.p - 1 >= 0,
        xn >= pow2(e),
    ensures rne_ok(f, neg, xn, 1, f_inf(f, neg), false, !neg)
{
    let P = pow2(f.p) as int;
    let Q = (f.emaxb - 1 - f.bias - f.p - 1) as nat;
    let pq = pow2(Q) as int;
    lemma_pow2_pos(e);
    lemma_pow2_pos(Q);
    lemma_pow2_pos(f.p);
    lemma_pow2_succ(f.p);
    lemma_pow2_succ(f.p + 1);
    lemma_pow2_adds(f.p + 2, Q);
    assert(f.p + 2 + Q == e);
    let b = (4 * P - 1) * pq;
    assert(b < (4 * P) * pq) by (nonlinear_arith) requires b == (4 * P - 1) * pq, pq > 0;
    assert((4 * P - 1) * pq * 1 == b) by (nonlinear_arith) requires b == (4 * P - 1) * pq;
    assert(xn > 0);
}

/// a value that is exactly m * 2^q for the candidate's own (m, q) is reported exact: used for results such as +-0
pub proof fn lemma_or_sticky_u64(t: u64, e: u64)
    requires t < 0x8000_0000_0000_0000u64, e == 0 || e == 1
    ensures (t | e) < 0x8000_0000_0000_0000u64, (t | e) as int == (if e == 0 { t as int } else if t % 2 == 0 { t + 1 } else { t as int })
{
    assert((t | e) < 0x8000_0000_0000_0000u64) by (bit_vector) requires t < 0x8000_0000_0000_0000u64, e == 0 || e == 1;
    assert(e == 0 ==> (t | e) == t) by (bit_vector);
    assert(e == 1 && t % 2 == 0 ==> (t | e) == t + 1) by (bit_vector) requires t < 0x8000_0000_0000_0000u64;
    assert(e == 1 && t % 2 != 0 ==> (t | e) == t) by (bit_vector);
}
pub proof fn lemma_or_sticky_u32(t: u32, e: u32)
    requires t < 0x8000_0000u32, e == 0 || e == 1
    ensures (t | e) < 0x8000_0000u32, (t | e) as int == (if e == 0 { t as int } else if t % 2 == 0 { t + 1 } else { t as int })
{
    assert((t | e) < 0x8000_0000u32) by (bit_vector) requires t < 0x8000_0000u32, e == 0 || e == 1;
    assert(e == 0 ==> (t | e) == t) by (bit_vector);
    assert(e == 1 && t % 2 == 0 ==> (t | e) == t + 1) by (bit_vector) requires t < 0x8000_0000u32;
    assert(e == 1 && t % 2 != 0 ==> (t | e) == t) by (bit_vector);
}

/// mirror image: a correct rounding of +x, with the sign bit flipped, is a correct rounding of -x and the error
/// sign flips (x != 0)
pub proof fn lemma_rne_negate(f: Fmt, xn: int, xd: int, r: Fields, exact: bool, err_pos: bool)
    requires xn != 0, rne_ok(f, false, xn, xd, r, exact, err_pos)
    ensures rne_ok(f, true, xn, xd, Fields { sbit: !r.sbit, eb: r.eb, frac: r.frac }, exact, !err_pos)
{
}
/// the error sign is irrelevant for an exact result
pub proof fn lemma_rne_exact_pos(f: Fmt, neg: bool, xn: int, xd: int, r: Fields, p1: bool, p2: bool)
    requires rne_ok(f, neg, xn, xd, r, true, p1)
    ensures rne_ok(f, neg, xn, xd, r, true, p2)
{
}

// ------------------------------------------------------------------------------------------------
// underflow to zero

/// 0 < x = a * 2^e with a < 2^k and e + k <= 1 - bias - p - 1 (i.e. x < half the smallest subnormal): the RNE result
/// is the zero of the right sign, inexact, error pointing towards zero
pub proof fn lemma_underflow(f: Fmt, neg: bool, a: int, e: int, k: nat)
    requires
        0 < a < pow2(k), e + k <= 1 - f.bias - f.p - 1, e < 0, f.bias + f.p >= 2, f.emaxb > 0,
    ensures rne_ok(f, neg, sc_num(a, e), sc_den(e), f_zero(neg), false, neg)
{
    let xn = a;
    let xd = pow2((-e) as nat) as int;
    let q = 1 - f.bias - f.p;          // quantum exponent of the subnormals (negative)
    lemma_pow2_pos((-e) as nat);
    lemma_pow2_pos((-q) as nat);
    // c = cmp_q(xn, xd, 0, q) > 0
    let pq = pow2((-q) as nat) as int;
    assert(xn * pq > 0) by (nonlinear_arith) requires xn > 0, pq > 0;
    assert(0 * xd == 0);
    // t = cmp_q(xn, xd, 1, q - 1) < 0:  a * 2^(-(q-1)) < 2^k * 2^(1-q) <= 2^(-e)
    let pq1 = pow2((-(q - 1)) as nat) as int;
    let pk = pow2(k) as int;
    lemma_pow2_pos((-(q - 1)) as nat);
    lemma_pow2_adds(k, (-(q - 1)) as nat);
    lemma_pow2_mono(k + (-(q - 1)) as nat, (-e) as nat);
    assert(xn * pq1 < pk * pq1) by (nonlinear_arith) requires xn < pk, pq1 > 0;
    assert(1 * xd == xd);
    assert(2 * 0 + 1 == 1);
}

// ------------------------------------------------------------------------------------------------
// two-stage rounding whose second stage is exact (rational -> float: integer quotient, then `encode`)

/// sign(k * u) == sign(k) for u > 0
pub proof fn lemma_sgn_scale(k: int, u: int)
    requires u > 0
    ensures sgn3(k * u) == sgn3(k)
{
    assert(k > 0 ==> k * u > 0) by (nonlinear_arith) requires u > 0;
    assert(k < 0 ==> k * u < 0) by (nonlinear_arith) requires u > 0;
    assert(k == 0 ==> k * u == 0) by (nonlinear_arith);
}

/// x = xn/xd rescaled by 2^-e:  x / 2^e = rs_num / rs_den
pub open spec fn rs_num(xn: int, e: int) -> int { if e >= 0 { xn } else { xn * pow2((-e) as nat) } }
pub open spec fn rs_den(xd: int, e: int) -> int { if e >= 0 { xd * pow2(e as nat) } else { xd } }

/// comparing x with M * 2^Q (Q >= e) is comparing x / 2^e with M * 2^(Q-e)
pub proof fn lemma_cmp_rescale(xn: int, xd: int, e: int, M: int, Q: int)
    requires xd > 0, Q >= e
    ensures cmp_q(xn, xd, M, Q) == sgn3(rs_num(xn, e) - M * pow2((Q - e) as nat) * rs_den(xd, e))
{
    let d = (Q - e) as nat;
    let pd = pow2(d) as int;
    lemma_pow2_pos(d);
    if e >= 0 {
        // Q >= e >= 0: 2^Q = 2^d * 2^e
        let pe = pow2(e as nat) as int;
        lemma_pow2_pos(e as nat);
        lemma_pow2_adds(d, e as nat);
        assert(d + e as nat == Q as nat);
        let pq = pow2(Q as nat) as int;
        assert(M * pq * xd == M * pd * (xd * pe)) by (nonlinear_arith) requires pq == pd * pe;
    } else if Q >= 0 {
        // e < 0 <= Q: 2^d = 2^Q * 2^-e
        let pne = pow2((-e) as nat) as int;
        let pq = pow2(Q as nat) as int;
        lemma_pow2_pos((-e) as nat);
        lemma_pow2_adds(Q as nat, (-e) as nat);
        assert(Q as nat + (-e) as nat == d);
        let k = xn - M * pq * xd;
        lemma_sgn_scale(k, pne);
        assert(k * pne == xn * pne - M * pd * xd) by (nonlinear_arith) requires k == xn - M * pq * xd, pd == pq * pne;
    } else {
        // e <= Q < 0: 2^-e = 2^d * 2^-Q
        let pne = pow2((-e) as nat) as int;
        let pnq = pow2((-Q) as nat) as int;
        lemma_pow2_pos((-Q) as nat);
        lemma_pow2_adds(d, (-Q) as nat);
        assert(d + (-Q) as nat == (-e) as nat);
        let k = xn * pnq - M * xd;
        lemma_sgn_scale(k, pd);
        assert(k * pd == xn * pne - M * pd * xd) by (nonlinear_arith) requires k == xn * pnq - M * xd, pne == pd * pnq;
    }
}

/// the same for the exact value a * 2^e, in both directions
pub proof fn lemma_cmp_scaled_int(a: int, e: int, M: int, Q: int)
    ensures cmp_q(sc_num(a, e), sc_den(e), M, Q)
        == (if Q >= e { sgn3(a - M * pow2((Q - e) as nat)) } else { sgn3(a * pow2((e - Q) as nat) - M) })
{
    let xn = sc_num(a, e);
    let xd = sc_den(e);
    if e >= 0 { lemma_pow2_pos(e as nat); } else { lemma_pow2_pos((-e) as nat); }
    if Q >= e {
        lemma_cmp_rescale(xn, xd, e, M, Q);
        let d = (Q - e) as nat;
        let pd = pow2(d) as int;
        let u = if e >= 0 { pow2(e as nat) as int } else { pow2((-e) as nat) as int };
        // rs_num = a * u, rs_den = u
        assert(rs_num(xn, e) == a * u);
        assert(rs_den(xd, e) == u) by {
            assert(1 * u == u);
        }
        let k = a - M * pd;
        lemma_sgn_scale(k, u);
        assert(k * u == a * u - M * pd * u) by (nonlinear_arith) requires k == a - M * pd;
    } else {
        let d = (e - Q) as nat;
        let pd = pow2(d) as int;
        lemma_pow2_pos(d);
        let k = a * pd - M;
        if Q >= 0 {
            // e > Q >= 0: 2^e = 2^d * 2^Q;  cmp = sgn(a*2^e - M*2^Q*1)
            let pq = pow2(Q as nat) as int;
            let pe = pow2(e as nat) as int;
            lemma_pow2_pos(Q as nat);
            lemma_pow2_adds(d, Q as nat);
            assert(d + Q as nat == e as nat);
            lemma_sgn_scale(k, pq);
            assert(k * pq == a * pe - M * pq * 1) by (nonlinear_arith) requires k == a * pd - M, pe == pd * pq;
        } else if e >= 0 {
            // e >= 0 > Q: cmp = sgn(a*2^e*2^-Q - M*1), 2^d = 2^e * 2^-Q
            let pe = pow2(e as nat) as int;
            let pnq = pow2((-Q) as nat) as int;
            lemma_pow2_adds(e as nat, (-Q) as nat);
            assert(e as nat + (-Q) as nat == d);
            assert(a * pe * pnq - M * 1 == k) by (nonlinear_arith) requires k == a * pd - M, pd == pe * pnq;
        } else {
            // 0 > e > Q: cmp = sgn(a*2^-Q - M*2^-e), 2^-Q = 2^d * 2^-e
            let pne = pow2((-e) as nat) as int;
            let pnq = pow2((-Q) as nat) as int;
            lemma_pow2_pos((-e) as nat);
            lemma_pow2_adds(d, (-e) as nat);
            assert(d + (-e) as nat == (-Q) as nat);
            lemma_sgn_scale(k, pne);
            assert(k * pne == a * pnq - M * pne) by (nonlinear_arith) requires k == a * pd - M, pnq == pd * pne;
        }
    }
}

/// "a is the round-to-nearest-even integer of N/D (D > 0)"
pub open spec fn rne_int(N: int, D: int, a: int) -> bool {
    let t = 2 * N - 2 * a * D;       // 2D * (N/D - a)
    -D <= t <= D && ((t == D || t == -D) ==> a % 2 == 0)
}

/// comparing x with M * 2^(Q-1) is comparing 2x with M * 2^Q
pub proof fn lemma_cmp_halve(xn: int, xd: int, M: int, Q: int)
    ensures cmp_q(xn, xd, M, Q - 1) == cmp_q(2 * xn, xd, M, Q)
{
    if Q - 1 >= 0 {
        let ph = pow2((Q - 1) as nat) as int;
        lemma_pow2_succ((Q - 1) as nat);
        assert((Q - 1) as nat + 1 == Q as nat);
        let pq = pow2(Q as nat) as int;
        assert(pq == 2 * ph);
        let k = xn - M * ph * xd;
        lemma_sgn_scale(k, 2);
        assert(k * 2 == 2 * xn - M * pq * xd) by (nonlinear_arith) requires k == xn - M * ph * xd, pq == 2 * ph;
        assert(cmp_q(xn, xd, M, Q - 1) == sgn3(k));
        assert(cmp_q(2 * xn, xd, M, Q) == sgn3(2 * xn - M * pq * xd));
    } else if Q == 0 {
        lemma2_to64();
        assert(M * 1 * xd == M * xd) by (nonlinear_arith);
        assert(pow2((-(Q - 1)) as nat) == 2);
        assert(cmp_q(xn, xd, M, Q - 1) == sgn3(xn * 2 - M * xd));
        assert(cmp_q(2 * xn, xd, M, Q) == sgn3(2 * xn - M * 1 * xd));
    } else {
        let pn = pow2((-Q) as nat) as int;
        lemma_pow2_succ((-Q) as nat);
        assert((-(Q - 1)) as nat == (-Q) as nat + 1);
        let pn1 = pow2((-(Q - 1)) as nat) as int;
        assert(pn1 == 2 * pn);
        assert(xn * pn1 == 2 * xn * pn) by (nonlinear_arith) requires pn1 == 2 * pn;
        assert(cmp_q(xn, xd, M, Q - 1) == sgn3(xn * pn1 - M * xd));
        assert(cmp_q(2 * xn, xd, M, Q) == sgn3(2 * xn * pn - M * xd));
    }
}

/// THE TWO-STAGE LEMMA.  x = xn/xd > 0; x / 2^e = N/D has at least p+1 integer bits (N/D >= 2^p); a is the
/// nearest-even integer of N/D; the second stage is exact: a * 2^e is the float r.  Then r is the correct RNE
/// rounding of x itself, exact iff N/D == a, with the error sign of a - N/D.
pub proof fn lemma_two_stage(f: Fmt, neg: bool, xn: int, xd: int, e: int, a: int, r: Fields, ep: bool)
    requires
        xd > 0, xn > 0, f.p >= 1,
        fields_wf(f, r),
        rs_num(xn, e) >= pow2(f.p) * rs_den(xd, e),
        rne_int(rs_num(xn, e), rs_den(xd, e), a),
        rne_ok(f, neg, sc_num(a, e), sc_den(e), r, true, ep),
    ensures
        rne_ok(f, neg, xn, xd, r, 2 * rs_num(xn, e) - 2 * a * rs_den(xd, e) == 0,
               (2 * rs_num(xn, e) - 2 * a * rs_den(xd, e) < 0) != neg),
{
    let N = rs_num(xn, e);
    let D = rs_den(xd, e);
    let P = pow2(f.p) as int;
    let aD = a * D;
    let t = 2 * N - 2 * aD;
    assert(2 * a * D == 2 * aD) by (nonlinear_arith) requires aD == a * D;
    lemma_pow2_pos(f.p);
    lemma_pow2_succ(f.p);
    if e >= 0 { lemma_pow2_pos(e as nat); } else { lemma_pow2_pos((-e) as nat); }
    assert(D > 0) by (nonlinear_arith) requires D == rs_den(xd, e), xd > 0, (e >= 0 ==> pow2(e as nat) > 0),
        D == (if e >= 0 { xd * pow2(e as nat) } else { xd });
    let PD = P * D;
    assert(PD >= D) by (nonlinear_arith) requires PD == P * D, P >= 1, D > 0;
    // a >= 2^p
    assert(a >= P) by (nonlinear_arith) requires aD == a * D, PD == P * D, 2 * aD >= 2 * PD - D, D > 0;
    assert(a > 0);
    // the exact second stage: finite candidate with m * 2^q == a * 2^e
    let yn = sc_num(a, e);
    let yd = sc_den(e);
    assert(yn != 0) by {
        if e >= 0 {
            let pe = pow2(e as nat) as int;
            assert(a * pe > 0) by (nonlinear_arith) requires a > 0, pe > 0;
        }
    }
    assert(r.sbit == neg && r.eb != f.emaxb);
    let m = if r.eb == 0 { r.frac } else { r.frac + P };
    let q = (if r.eb == 0 { 1 } else { r.eb }) - f.bias - f.p;
    assert(0 <= m < 2 * P);
    assert(cmp_q(yn, yd, m, q) == 0);
    lemma_cmp_scaled_int(a, e, m, q);
    if q < e {
        let pd = pow2((e - q) as nat) as int;
        lemma_pow2_mono(1, (e - q) as nat);
        lemma2_to64();
        assert(a * pd >= 2 * a) by (nonlinear_arith) requires a > 0, pd >= 2;
        assert(false);
    }
    let d = (q - e) as nat;
    let pd = pow2(d) as int;
    lemma_pow2_pos(d);
    assert(a == m * pd);
    let pdD = pd * D;
    assert(pdD >= D) by (nonlinear_arith) requires pdD == pd * D, pd >= 1, D > 0;
    assert(d == 0 ==> pdD == D) by { lemma2_to64(); assert(1 * D == D); }
    assert(m * pd * D == aD) by (nonlinear_arith) requires a == m * pd, aD == a * D;
    // c = sign(x - y) = sign(N - a*D)
    lemma_cmp_rescale(xn, xd, e, m, q);
    let c = cmp_q(xn, xd, m, q);
    assert(c == sgn3(N - aD));
    assert(xn != 0);
    if t == 0 {
        assert(c == 0);
    } else if t > 0 {
        assert(c > 0);
        // upper midpoint (2m+1) * 2^(q-1):  sign(2N - (2m+1) * 2^d * D) = sign(t - 2^d * D)
        lemma_cmp_halve(xn, xd, 2 * m + 1, q);
        lemma_cmp_rescale(2 * xn, xd, e, 2 * m + 1, q);
        assert(rs_num(2 * xn, e) == 2 * N) by (nonlinear_arith)
            requires N == rs_num(xn, e), rs_num(2 * xn, e) == (if e >= 0 { 2 * xn } else { 2 * xn * pow2((-e) as nat) }),
                N == (if e >= 0 { xn } else { xn * pow2((-e) as nat) });
        assert((2 * m + 1) * pd * D == 2 * aD + pdD) by (nonlinear_arith)
            requires m * pd * D == aD, pdD == pd * D;
        let tu = cmp_q(xn, xd, 2 * m + 1, q - 1);
        assert(tu == sgn3(t - pdD));
        if tu == 0 {
            // t == D == 2^d * D: tie and d == 0, so m == a is even
            assert(pdD == D);
            assert(d == 0) by {
                if d >= 1 {
                    lemma_pow2_mono(1, d);
                    lemma2_to64();
                    assert(pdD >= 2 * D) by (nonlinear_arith) requires pdD == pd * D, pd >= 2, D > 0;
                }
            }
            lemma2_to64();
            assert(m * 1 == m);
        }
    } else {
        assert(c < 0);
        if r.eb > 1 && r.frac == 0 {
            // bottom of a binade: m == 2^p, lower midpoint (4m-1) * 2^(q-2): sign(4N - (4m-1) * 2^d * D) = sign(2t + 2^d * D)
            lemma_cmp_halve(xn, xd, 4 * m - 1, q - 1);
            lemma_cmp_halve(2 * xn, xd, 4 * m - 1, q);
            lemma_cmp_rescale(4 * xn, xd, e, 4 * m - 1, q);
            assert(2 * (2 * xn) == 4 * xn);
            assert(rs_num(4 * xn, e) == 4 * N) by (nonlinear_arith)
                requires N == (if e >= 0 { xn } else { xn * pow2((-e) as nat) }),
                    rs_num(4 * xn, e) == (if e >= 0 { 4 * xn } else { 4 * xn * pow2((-e) as nat) });
            assert((4 * m - 1) * pd * D == 4 * aD - pdD) by (nonlinear_arith)
                requires m * pd * D == aD, pdD == pd * D;
            let tl = cmp_q(xn, xd, 4 * m - 1, q - 2);
            assert(tl == sgn3(2 * t + pdD));
            // d == 0 is impossible here: a == 2^p, N >= 2^p * D = a * D contradicts t < 0
            if d == 0 {
                lemma2_to64();
                assert(m * 1 == m);
                assert(aD == PD);
                assert(false);
            }
            lemma_pow2_mono(1, d);
            lemma2_to64();
            assert(pdD >= 2 * D) by (nonlinear_arith) requires pdD == pd * D, pd >= 2, D > 0;
            assert(tl >= 0);
            // m == 2^p is even (p >= 1)
            lemma_pow2_succ((f.p - 1) as nat);
            assert(m % 2 == 0);
        } else {
            // lower midpoint (2m-1) * 2^(q-1):  sign(2N - (2m-1) * 2^d * D) = sign(t + 2^d * D)
            lemma_cmp_halve(xn, xd, 2 * m - 1, q);
            lemma_cmp_rescale(2 * xn, xd, e, 2 * m - 1, q);
            assert(rs_num(2 * xn, e) == 2 * N) by (nonlinear_arith)
                requires N == (if e >= 0 { xn } else { xn * pow2((-e) as nat) }),
                    rs_num(2 * xn, e) == (if e >= 0 { 2 * xn } else { 2 * xn * pow2((-e) as nat) });
            assert((2 * m - 1) * pd * D == 2 * aD - pdD) by (nonlinear_arith)
                requires m * pd * D == aD, pdD == pd * D;
            let tl = cmp_q(xn, xd, 2 * m - 1, q - 1);
            assert(tl == sgn3(t + pdD));
            if tl == 0 {
                assert(pdD == D);
                assert(d == 0) by {
                    if d >= 1 {
                        lemma_pow2_mono(1, d);
                        lemma2_to64();
                        assert(pdD >= 2 * D) by (nonlinear_arith) requires pdD == pd * D, pd >= 2, D > 0;
                    }
                }
                lemma2_to64();
                assert(m * 1 == m);
            }
        }
    }
}

// ------------------------------------------------------------------------------------------------
// rational inputs: value equality, overflow / underflow on x = xn/xd, quotient range from bit lengths

/// cmp_q depends on xn/xd only
pub proof fn lemma_cmp_same_value(xn: int, xd: int, yn: int, yd: int, M: int, Q: int)
    requires xd > 0, yd > 0, xn * yd == yn * xd
    ensures cmp_q(xn, xd, M, Q) == cmp_q(yn, yd, M, Q)
{
    if Q >= 0 {
        let g = M * pow2(Q as nat);
        let kx = xn - g * xd;
        let ky = yn - g * yd;
        // kx * yd == ky * xd
        assert(kx * yd == ky * xd) by (nonlinear_arith) requires kx == xn - g * xd, ky == yn - g * yd, xn * yd == yn * xd;
        lemma_sgn_scale(kx, yd);
        lemma_sgn_scale(ky, xd);
    } else {
        let g = pow2((-Q) as nat) as int;
        let kx = xn * g - M * xd;
        let ky = yn * g - M * yd;
        assert(kx * yd == ky * xd) by (nonlinear_arith) requires kx == xn * g - M * xd, ky == yn * g - M * yd, xn * yd == yn * xd;
        lemma_sgn_scale(kx, yd);
        lemma_sgn_scale(ky, xd);
    }
}
/// ... and so does rne_ok
pub proof fn lemma_rne_same_value(f: Fmt, neg: bool, xn: int, xd: int, yn: int, yd: int, r: Fields, exact: bool, ep: bool)
    requires xd > 0, yd > 0, xn * yd == yn * xd, rne_ok(f, neg, xn, xd, r, exact, ep)
    ensures rne_ok(f, neg, yn, yd, r, exact, ep)
{
    let P = pow2(f.p) as int;
    let q_top = f.emaxb - 1 - f.bias - f.p;
    assert(xn == 0 <==> yn == 0) by (nonlinear_arith) requires xd > 0, yd > 0, xn * yd == yn * xd;
    let m = if r.eb == 0 { r.frac } else { r.frac + P };
    let q = (if r.eb == 0 { 1 } else { r.eb }) - f.bias - f.p;
    lemma_cmp_same_value(xn, xd, yn, yd, 4 * P - 1, q_top - 1);
    lemma_cmp_same_value(xn, xd, yn, yd, m, q);
    lemma_cmp_same_value(xn, xd, yn, yd, 2 * m + 1, q - 1);
    lemma_cmp_same_value(xn, xd, yn, yd, 2 * m - 1, q - 1);
    lemma_cmp_same_value(xn, xd, yn, yd, 4 * m - 1, q - 2);
}

/// x = xn/xd >= 2^(emax+1): infinity (cf. lemma_overflow)
pub proof fn lemma_overflow_q(f: Fmt, neg: bool, xn: int, xd: int, e: nat)
    requires
        e == f.emaxb - f.bias, f.emaxb - 1 - f.bias - f.p - 1 >= 0, xd > 0,
        xn >= pow2(e) * xd,
    ensures rne_ok(f, neg, xn, xd, f_inf(f, neg), false, !neg)
{
    let P = pow2(f.p) as int;
    let Q = (f.emaxb - 1 - f.bias - f.p - 1) as nat;
    let pq = pow2(Q) as int;
    let pe = pow2(e) as int;
    lemma_pow2_pos(e);
    lemma_pow2_pos(Q);
    lemma_pow2_pos(f.p);
    lemma_pow2_succ(f.p);
    lemma_pow2_succ(f.p + 1);
    lemma_pow2_adds(f.p + 2, Q);
    assert(f.p + 2 + Q == e);
    let b = (4 * P - 1) * pq;
    assert(b < pe) by (nonlinear_arith) requires b == (4 * P - 1) * pq, pe == (4 * P) * pq, pq > 0;
    assert(b * xd < pe * xd) by (nonlinear_arith) requires b < pe, xd > 0;
    assert(pe * xd > 0) by (nonlinear_arith) requires pe > 0, xd > 0;
    assert(xn > 0);
}

/// 0 < x = xn/xd <= 2^(qmin - 1) (half the smallest subnormal): zero of the right sign, error towards zero
pub proof fn lemma_underflow_q(f: Fmt, neg: bool, xn: int, xd: int)
    requires
        xn > 0, xd > 0, f.bias + f.p >= 2, f.emaxb > 0,
        xn * pow2((f.bias + f.p) as nat) <= xd,          // the tie 2^(qmin-1) itself goes to zero (even)
    ensures rne_ok(f, neg, xn, xd, f_zero(neg), false, neg)
{
    let q = 1 - f.bias - f.p;
    let pq = pow2((-q) as nat) as int;
    lemma_pow2_pos((-q) as nat);
    assert(xn * pq > 0) by (nonlinear_arith) requires xn > 0, pq > 0;
    assert(0 * xd == 0);
    assert((-(q - 1)) as nat == (f.bias + f.p) as nat);
    assert(1 * xd == xd);
    assert(2 * 0 + 1 == 1);
}

/// bit lengths nb, db of numerator and denominator, e = nb - db - (p+1):  2^p <= (xn/xd) / 2^e < 2^(p+2)
pub proof fn lemma_quot_bounds(xn: int, xd: int, nb: nat, db: nat, p: nat, e: int)
    requires
        nb >= 1, db >= 1, pow2((nb - 1) as nat) <= xn < pow2(nb), pow2((db - 1) as nat) <= xd < pow2(db),
        e == nb - db - (p + 1),
    ensures
        rs_den(xd, e) > 0,
        pow2(p) * rs_den(xd, e) <= rs_num(xn, e),
        rs_num(xn, e) < pow2(p + 2) * rs_den(xd, e),
{
    let pp = pow2(p) as int;
    let pp2 = pow2(p + 2) as int;
    lemma_pow2_pos(p);
    lemma_pow2_pos((nb - 1) as nat);
    lemma_pow2_pos((db - 1) as nat);
    lemma_pow2_succ((nb - 1) as nat);
    lemma_pow2_succ((db - 1) as nat);
    assert((nb - 1) as nat + 1 == nb && (db - 1) as nat + 1 == db);
    if e >= 0 {
        // N = xn, D = xd * 2^e;   2^p * 2^db * 2^e == 2^(nb-1),  2^(p+2) * 2^(db-1) * 2^e == 2^nb
        let pe = pow2(e as nat) as int;
        let D = xd * pe;
        lemma_pow2_pos(e as nat);
        lemma_pow2_adds(p, db);
        lemma_pow2_adds(p + db, e as nat);
        assert(p + db + e as nat == (nb - 1) as nat);
        lemma_pow2_adds(p + 2, (db - 1) as nat);
        lemma_pow2_adds(p + 2 + (db - 1) as nat, e as nat);
        assert(p + 2 + (db - 1) as nat + e as nat == nb);
        let pdb = pow2(db) as int;
        let pdb1 = pow2((db - 1) as nat) as int;
        assert(D > 0) by (nonlinear_arith) requires D == xd * pe, xd > 0, pe > 0;
        assert(pp * D <= pp * pdb * pe) by (nonlinear_arith) requires D == xd * pe, xd < pdb, pe > 0, pp > 0;
        assert(pp2 * D >= pp2 * pdb1 * pe) by (nonlinear_arith) requires D == xd * pe, xd >= pdb1, pe > 0, pp2 >= 0;
        lemma_pow2_pos(p + 2);
    } else {
        // N = xn * 2^-e, D = xd;   2^(nb-1) * 2^-e == 2^p * 2^db,  2^nb * 2^-e == 2^(p+2) * 2^(db-1)
        let pne = pow2((-e) as nat) as int;
        let N = xn * pne;
        lemma_pow2_pos((-e) as nat);
        lemma_pow2_adds((nb - 1) as nat, (-e) as nat);
        lemma_pow2_adds(p, db);
        assert((nb - 1) as nat + (-e) as nat == p + db);
        lemma_pow2_adds(nb, (-e) as nat);
        lemma_pow2_adds(p + 2, (db - 1) as nat);
        assert(nb + (-e) as nat == p + 2 + (db - 1) as nat);
        let pnb1 = pow2((nb - 1) as nat) as int;
        let pnb = pow2(nb) as int;
        let pdb = pow2(db) as int;
        let pdb1 = pow2((db - 1) as nat) as int;
        lemma_pow2_pos(p + 2);
        assert(N >= pnb1 * pne) by (nonlinear_arith) requires N == xn * pne, xn >= pnb1, pne > 0;
        assert(N < pnb * pne) by (nonlinear_arith) requires N == xn * pne, xn < pnb, pne > 0;
        assert(pp * xd <= pp * pdb) by (nonlinear_arith) requires xd < pdb, pp > 0;
        assert(pp2 * xd >= pp2 * pdb1) by (nonlinear_arith) requires xd >= pdb1, pp2 > 0;
    }
}

/// x / 2^e = N/D <= 2^k with e + k <= qmin - 1 (e < 0): x <= half the smallest subnormal, the result is zero
pub proof fn lemma_underflow_from_quot(f: Fmt, neg: bool, xn: int, xd: int, e: int, k: nat)
    requires
        xn > 0, xd > 0, f.bias + f.p >= 2, f.emaxb > 0,
        e < 0, e + k <= -(f.bias + f.p),
        rs_num(xn, e) <= pow2(k) * rs_den(xd, e),
    ensures rne_ok(f, neg, xn, xd, f_zero(neg), false, neg)
{
    let b = (f.bias + f.p) as nat;
    let u = ((-e) - k - b) as nat;        // 2^-e = 2^b * 2^k * 2^u
    let pb = pow2(b) as int;
    let pk = pow2(k) as int;
    let pu = pow2(u) as int;
    let pne = pow2((-e) as nat) as int;
    lemma_pow2_pos(b); lemma_pow2_pos(k); lemma_pow2_pos(u);
    lemma_pow2_adds(b, k);
    lemma_pow2_adds(b + k, u);
    assert(b + k + u == (-e) as nat);
    let A = xn * pb;
    // A * pk * pu == xn * pne <= pk * xd  ==>  A <= xd
    assert(A * (pk * pu) == xn * pne) by (nonlinear_arith) requires A == xn * pb, pne == pb * pk * pu;
    let g = pk * pu;
    assert(g >= pk) by (nonlinear_arith) requires g == pk * pu, pu >= 1, pk > 0;
    assert(A * g <= pk * xd);
    assert(A >= 0) by (nonlinear_arith) requires A == xn * pb, xn > 0, pb > 0;
    assert(A <= xd) by (nonlinear_arith) requires A * g <= pk * xd, g >= pk, pk > 0, xd > 0, A >= 0;
    lemma_underflow_q(f, neg, xn, xd);
}

/// N == a * D at scale e means xn/xd == a * 2^e
pub proof fn lemma_value_from_quot(xn: int, xd: int, e: int, a: int)
    requires xd > 0, rs_num(xn, e) == a * rs_den(xd, e)
    ensures sc_num(a, e) * xd == xn * sc_den(e), sc_den(e) > 0
{
    if e >= 0 {
        let pe = pow2(e as nat) as int;
        lemma_pow2_pos(e as nat);
        assert(a * (xd * pe) == (a * pe) * xd) by (nonlinear_arith);
    } else {
        lemma_pow2_pos((-e) as nat);
    }
}

/// the integer the rational code rounds the quotient N/D to (nearest, ties to even), and that it is `rne_int`
pub open spec fn rq_man(N: int, D: int) -> int {
    let q = N / D;
    let r = N % D;
    if 2 * r > D || (2 * r == D && q % 2 != 0) { q + 1 } else { q }
}
pub proof fn lemma_rq_man(N: int, D: int)
    requires D > 0, N >= 0
    ensures rne_int(N, D, rq_man(N, D)),
        N % D == 0 ==> N == rq_man(N, D) * D,
        N % D != 0 ==> 2 * N - 2 * rq_man(N, D) * D != 0,
        (2 * N - 2 * rq_man(N, D) * D < 0) == (rq_man(N, D) == N / D + 1),
        0 <= N % D < D, N == D * (N / D) + N % D,
{
    let q = N / D;
    let r = N % D;
    vstd::arithmetic::div_mod::lemma_fundamental_div_mod(N, D);
    vstd::arithmetic::div_mod::lemma_mod_bound(N, D);
    let a = rq_man(N, D);
    let qD = q * D;
    assert(D * q == qD) by (nonlinear_arith) requires qD == q * D;
    assert((q + 1) * D == qD + D) by (nonlinear_arith) requires qD == q * D;
    assert(2 * a * D == 2 * (a * D)) by (nonlinear_arith);
}
