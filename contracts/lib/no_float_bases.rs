// ---- no_float_bases.rs: the C14 sentence for two floats in DIFFERENT bases (include after lib/no_float_stubs.rs,
// lib/no_frac_lemmas.rs).  Pure specification, nothing trusted.
pub mod no_float_bases {
use super::*;
use core::cmp::Ordering;
/// constructors only build the infinities (0, 1) and (0, -1) (repr.rs `infinity` / `neg_infinity`)
pub open spec fn canon_inf(s: int, e: int) -> bool { fl_inf(s, e) ==> e == 1 || e == -1 }
/// ordering of the exact values s1 * b1^e1 and s2 * b2^e2 (or +-inf), cross-multiplied by the positive denominators
pub open spec fn cmp_repr_repr(s1: int, b1: int, e1: int, s2: int, b2: int, e2: int) -> Ordering {
    if fl_inf(s1, e1) && fl_inf(s2, e2) { cmp_int(if e1 > 0 { 1 } else { -1 }, if e2 > 0 { 1 } else { -1 }) }
    else if fl_inf(s2, e2) { if e2 > 0 { Ordering::Less } else { Ordering::Greater } }
    else if fl_inf(s1, e1) { if e1 > 0 { Ordering::Greater } else { Ordering::Less } }
    else { cmp_int((s1 * pn(b1, e1)) * pd(b2, e2), (s2 * pd(b1, e1)) * pn(b2, e2)) }
}
} // mod no_float_bases
pub use no_float_bases::*;
