// ---- basering_root_est.rs: the table-driven reciprocal-square-root ESTIMATE of <u64 as NormalizedRootRem>::normalized_sqrt_rem
// (base/src/ring/root.rs steps 1-5) as closed-form integer functions of the high word n32 = n >> 32, and the ONE trusted statement
// about them.  Needs the real table `RSQRT_TAB` in the unit (`//@@ CONST base/ring_root/rsqrt_tab.rs`).
//
// TRUSTED (explicit assumption, NOT proved in Verus): `axiom_br_sq64_estimate` -- for each of the 3 * 2^30 values of n32 the estimate
// chain neither overflows nor underflows, the margin `s -= 10` makes s an underestimate of sqrt(n32 * 2^32), and the Newton step keeps
// it an underestimate for both values floor(e / 2^32) can take inside the class.  The largest overshoot of the raw estimate over
// isqrt(n32 * 2^32) is EXACTLY 10 (n32 = 3462353398, 3763620829, ..), so no analytic error bound with slack can replace the
// enumeration: it was established by running /verif/tools/base_root_exhaust.rs (all classes, native, 25 s), which evaluates exactly
// the predicate `br_sq64_ok` below on the pinned table.  Everything else (that the machine code computes these integers, that the two
// class-wise facts cover every n of the class, the correction loop, the u128 Karatsuba step, the wrappers) is proved.

/// pinned copy of RSQRT_TAB (the axiom is about THESE numbers; normalized_sqrt_rem proves the entry it reads from the real table equal to the pinned one)
pub open spec fn br_rsqrt_tab() -> Seq<int> {
    seq![
        0xfc, 0xf4, 0xed, 0xe6, 0xdf, 0xd9, 0xd3, 0xcd, 0xc7, 0xc2, 0xbc, 0xb7, 0xb2, 0xad, 0xa9, 0xa4,
        0xa0, 0x9c, 0x98, 0x94, 0x90, 0x8c, 0x88, 0x85, 0x81, 0x7e, 0x7b, 0x77, 0x74, 0x71, 0x6e, 0x6b,
        0x69, 0x66, 0x63, 0x61, 0x5e, 0x5b, 0x59, 0x57, 0x54, 0x52, 0x50, 0x4d, 0x4b, 0x49, 0x47, 0x45,
        0x43, 0x41, 0x3f, 0x3d, 0x3b, 0x39, 0x37, 0x36, 0x34, 0x32, 0x30, 0x2f, 0x2d, 0x2c, 0x2a, 0x28,
        0x27, 0x25, 0x24, 0x22, 0x21, 0x1f, 0x1e, 0x1d, 0x1b, 0x1a, 0x19, 0x17, 0x16, 0x15, 0x14, 0x12,
        0x11, 0x10, 0x0f, 0x0d, 0x0c, 0x0b, 0x0a, 0x09, 0x08, 0x07, 0x06, 0x05, 0x04, 0x03, 0x02, 0x01int
    ]
}

pub open spec fn br_p32() -> int { 0x1_0000_0000 }

/// step 1: r0 = 0x100 | RSQRT_TAB[(n32 >> 25) - 32]
pub open spec fn br_sq64_r0(n32: int) -> int { 0x100 + br_rsqrt_tab()[n32 / 0x200_0000 - 32] }
/// step 2: r1 = ((3 r0) << 21) - hi32(n32 * ((r0^3) << 5))
pub open spec fn br_sq64_a1(n32: int) -> int { 3 * br_sq64_r0(n32) * 0x20_0000 }
pub open spec fn br_sq64_b1(n32: int) -> int { (n32 * (br_sq64_r0(n32) * br_sq64_r0(n32) * br_sq64_r0(n32) * 32)) / br_p32() }
pub open spec fn br_sq64_r1(n32: int) -> int { br_sq64_a1(n32) - br_sq64_b1(n32) }
/// step 3: t = (3 << 28) - hi32(r1 * hi32(r1 * n32)),  r2 = hi32(r1 * t)
pub open spec fn br_sq64_w2(n32: int) -> int { (br_sq64_r1(n32) * ((br_sq64_r1(n32) * n32) / br_p32())) / br_p32() }
pub open spec fn br_sq64_t(n32: int) -> int { 0x3000_0000 - br_sq64_w2(n32) }
pub open spec fn br_sq64_r2(n32: int) -> int { (br_sq64_r1(n32) * br_sq64_t(n32)) / br_p32() }
/// step 4: r = r2 << 4,  s1 = hi32(r * n32) << 1,  s0 = s1 - 10
pub open spec fn br_sq64_r(n32: int) -> int { 16 * br_sq64_r2(n32) }
pub open spec fn br_sq64_h(n32: int) -> int { (br_sq64_r(n32) * n32) / br_p32() }
pub open spec fn br_sq64_s0(n32: int) -> int { 2 * br_sq64_h(n32) - 10 }
/// step 5 on the smallest member n32 * 2^32 of the class: e0 = n32 * 2^32 - s0^2
pub open spec fn br_sq64_e0(n32: int) -> int { n32 * br_p32() - br_sq64_s0(n32) * br_sq64_s0(n32) }
pub open spec fn br_sq64_sa(n32: int) -> int { br_sq64_s0(n32) + ((br_sq64_e0(n32) / br_p32()) * br_sq64_r(n32)) / br_p32() }
pub open spec fn br_sq64_sb(n32: int) -> int { br_sq64_s0(n32) + ((br_sq64_e0(n32) / br_p32() + 1) * br_sq64_r(n32)) / br_p32() }

/// what tools/base_root_exhaust.rs checks for one class n32
pub open spec fn br_sq64_ok(n32: int) -> bool {
    &&& 0 <= br_sq64_b1(n32) <= br_sq64_a1(n32)                          // step 2 does not underflow
    &&& br_sq64_r1(n32) < br_p32()
    &&& 0 <= br_sq64_w2(n32) <= 0x3000_0000                              // step 3 does not underflow
    &&& 0 <= br_sq64_r2(n32) < 0x1000_0000                               // `r << 4` loses nothing
    &&& 5 <= br_sq64_h(n32) < 0x8000_0000                                // `<< 1` loses nothing, `s -= 10` does not underflow
    &&& br_sq64_e0(n32) >= 0                                             // s0^2 <= n32 * 2^32 (`self - s*s` does not underflow)
    &&& br_sq64_sa(n32) < br_p32()                                       // `s += ..` does not overflow
    &&& br_sq64_sa(n32) * br_sq64_sa(n32) <= n32 * br_p32()
    &&& (br_sq64_e0(n32) % br_p32() > 0 ==> br_sq64_sb(n32) < br_p32()
            && br_sq64_sb(n32) * br_sq64_sb(n32) <= n32 * br_p32() + br_p32() - br_sq64_e0(n32) % br_p32())
}

/// TRUSTED: see the header of this file
#[verifier::external_body]
pub proof fn axiom_br_sq64_estimate(n32: int)
    requires 0x4000_0000 <= n32 < 0x1_0000_0000,
    ensures br_sq64_ok(n32),
{
}

// ---- machine-word facts (proved) ----------------------------------------------------------------------------------------------

pub proof fn lemma_br_sq64_bits(n: u64, n32: u32, t: u8, r0: u32)
    requires n >= 0x4000_0000_0000_0000, n32 == (n >> 32u32) as u32, r0 == 0x100 | t as u32,
    ensures n32 as int == (n as int) / 0x1_0000_0000, n32 >= 0x4000_0000, n as int == (n32 as int) * 0x1_0000_0000 + (n as int) % 0x1_0000_0000,
        32 <= (n32 >> 25u32) < 128, (n32 >> 25u32) as int == (n32 as int) / 0x200_0000,
        r0 as int == 0x100 + t as int, r0 < 512,
{
    assert((n >> 32u32) == n / 0x1_0000_0000 && (n >> 32u32) <= 0xffff_ffff && (n >> 32u32) >= 0x4000_0000) by (bit_vector)
        requires n >= 0x4000_0000_0000_0000u64;
    vstd::arithmetic::div_mod::lemma_fundamental_div_mod(n as int, 0x1_0000_0000);
    assert(32 <= (n32 >> 25u32) < 128 && (n32 >> 25u32) == n32 / 0x200_0000) by (bit_vector) requires n32 >= 0x4000_0000u32;
    assert(r0 == 0x100 + t as u32 && r0 < 512) by (bit_vector) requires r0 == 0x100 | t as u32;
}

pub proof fn lemma_br_sq64_shifts(x3: u32, c: u32, r2: u32, h: u32)
    requires x3 < 2048, c < 0x800_0000, r2 < 0x1000_0000, h < 0x8000_0000,
    ensures (x3 << 21u32) as int == x3 as int * 0x20_0000, (c << 5u32) as int == c as int * 32,
        (r2 << 4u32) as int == 16 * r2 as int, (h << 1u32) as int == 2 * h as int,
{
    assert((x3 << 21u32) == x3 * 0x20_0000) by (bit_vector) requires x3 < 2048;
    assert((c << 5u32) == c * 32) by (bit_vector) requires c < 0x800_0000;
    assert((r2 << 4u32) == 16 * r2) by (bit_vector) requires r2 < 0x1000_0000;
    assert((h << 1u32) == 2 * h) by (bit_vector) requires h < 0x8000_0000;
}

pub proof fn lemma_br_shr32_u64(e: u64)
    ensures ((e >> 32u32) as u32) as int == (e as int) / 0x1_0000_0000,
{
    assert((e >> 32u32) == e / 0x1_0000_0000 && (e >> 32u32) <= 0xffff_ffff) by (bit_vector);
}

// ---- <u32 as NormalizedRootRem>::normalized_sqrt_rem (steps 1-4): the estimate depends on ALL 32 bits of n ------------------------
// TRUSTED: `axiom_br_sq32_estimate` -- `br_sq32_ok(n)` for every n in [2^30, 2^32), established by the exhaustive native run
// `tools/base_root_exhaust.rs u32` (all 3 * 2^30 inputs), which evaluates exactly the predicate below on the pinned table.

pub open spec fn br_p16() -> int { 0x1_0000 }
pub open spec fn br_sq32_r0(n: int) -> int { 0x100 + br_rsqrt_tab()[(n / 0x1_0000) / 0x200 - 32] }
/// step 2: r1 = ((3 r0) << 5) - (hi32(n * r0^3) >> 11)
pub open spec fn br_sq32_a(n: int) -> int { 3 * br_sq32_r0(n) * 32 }
pub open spec fn br_sq32_b(n: int) -> int { ((n * (br_sq32_r0(n) * br_sq32_r0(n) * br_sq32_r0(n))) / br_p32()) / 0x800 }
pub open spec fn br_sq32_r1(n: int) -> int { br_sq32_a(n) - br_sq32_b(n) }
/// step 3: r = r1 << 1, s1 = sat16(2 * hi16(r * n16)), s0 = s1 - 4
pub open spec fn br_sq32_r(n: int) -> int { 2 * br_sq32_r1(n) }
pub open spec fn br_sq32_h(n: int) -> int { (br_sq32_r(n) * (n / 0x1_0000)) / br_p16() }
pub open spec fn br_sq32_s1(n: int) -> int { if 2 * br_sq32_h(n) > 0xffff { 0xffff } else { 2 * br_sq32_h(n) } }
pub open spec fn br_sq32_s0(n: int) -> int { br_sq32_s1(n) - 4 }
/// step 4: e = n - s0^2, s = s0 + hi16((e >> 16) * r)
pub open spec fn br_sq32_e(n: int) -> int { n - br_sq32_s0(n) * br_sq32_s0(n) }
pub open spec fn br_sq32_s(n: int) -> int { br_sq32_s0(n) + ((br_sq32_e(n) / br_p16()) * br_sq32_r(n)) / br_p16() }

pub open spec fn br_sq32_ok(n: int) -> bool {
    &&& 0 <= br_sq32_b(n) <= br_sq32_a(n)                               // step 2 does not underflow
    &&& br_sq32_r1(n) < 0x8000                                           // `r << 1` loses nothing
    &&& 0 <= br_sq32_h(n) && br_sq32_s1(n) >= 4                          // `s -= 4` does not underflow
    &&& br_sq32_e(n) >= 0                                                // `self - s*s` does not underflow
    &&& 0 <= br_sq32_s(n) < 0x1_0000                                     // `s += ..` does not overflow
    &&& br_sq32_s(n) * br_sq32_s(n) <= n                                 // s is an underestimate of the root
}

/// TRUSTED: see above
#[verifier::external_body]
pub proof fn axiom_br_sq32_estimate(n: int)
    requires 0x4000_0000 <= n < 0x1_0000_0000,
    ensures br_sq32_ok(n),
{
}

pub proof fn lemma_br_sq32_bits(n: u32, n16: u16, t: u8, r0: u32)
    requires n >= 0x4000_0000, n16 == (n >> 16u32) as u16, r0 == 0x100 | t as u32,
    ensures n16 as int == (n as int) / 0x1_0000, n16 >= 0x4000,
        32 <= (n16 >> 9u32) < 128, (n16 >> 9u32) as int == (n16 as int) / 0x200,
        r0 as int == 0x100 + t as int, r0 < 512,
{
    assert((n >> 16u32) == n / 0x1_0000 && (n >> 16u32) <= 0xffff && (n >> 16u32) >= 0x4000) by (bit_vector)
        requires n >= 0x4000_0000u32;
    assert(32 <= (n16 >> 9u32) < 128 && (n16 >> 9u32) == n16 / 0x200) by (bit_vector) requires n16 >= 0x4000u16;
    assert(r0 == 0x100 + t as u32 && r0 < 512) by (bit_vector) requires r0 == 0x100 | t as u32;
}

pub proof fn lemma_br_sq32_shifts(x3: u16, w: u32, r1: u16, e: u32)
    requires x3 < 2048, w < 0x800_0000, r1 < 0x8000,
    ensures (x3 << 5u32) as int == x3 as int * 32, ((w >> 11u32) as u16) as int == (w as int) / 0x800,
        (r1 << 1u32) as int == 2 * r1 as int, ((e >> 16u32) as u16) as int == (e as int) / 0x1_0000,
{
    assert((x3 << 5u32) == x3 * 32) by (bit_vector) requires x3 < 2048;
    assert((w >> 11u32) == w / 0x800 && (w >> 11u32) <= 0xffff) by (bit_vector) requires w < 0x800_0000u32;
    assert((r1 << 1u32) == 2 * r1) by (bit_vector) requires r1 < 0x8000;
    assert((e >> 16u32) == e / 0x1_0000 && (e >> 16u32) <= 0xffff) by (bit_vector);
}
