// ---- farith_add_lemmas.rs: specification and lemmas of the float addition units.  Nothing trusted here.
// Needs round_prelude.rs, round_int_stubs.rs, round_float_repr.rs, farith_lemmas.rs.

/// N == q*U + l with |l| < U: q is the part of N at or above the unit U, l the part below it (l may have either sign)
pub open spec fn unit_split(N: int, U: int, q: int, l: int) -> bool { N == q * U + l && iabs(l) < U }

/// `ret` is the rounding, under mode m, of the EXACT real number x = N * b^F at the unit u = b^(F + j)  (j >= 0):
///   Exact(r)        iff x is a multiple of u, and then r == x;
///   Inexact(r, adj) otherwise: r = mm * u with mm the integer prescribed by the mode for x/u (|r - x| < u, side by
///                   mode, <= u/2 with the tie rule for the Half modes), r != x, and adj = mm - q for a q with
///                   |x/u - q| < 1  (hence AddOne ==> r > x and SubOne ==> r < x).
pub open spec fn rounded_at<const B: Word>(m: Mode, b: int, N: int, F: int, j: nat, ret: Rounded<Repr<B>>) -> bool {
    let U = ipow(b, j);
    exists|q: int, l: int| #[trigger] unit_split(N, U, q, l) && match ret {
        Approximation::Exact(r) => l == 0 && same_value(b, r.significand.v(), r.exponent as int, q, F + j),
        Approximation::Inexact(r, adj) => l != 0 && round_def(m, N, U, q + adj_int(adj))
            && same_value(b, r.significand.v(), r.exponent as int, q + adj_int(adj), F + j),
    }
}

/// S and L lie on opposite sides of zero (a zero high part counts as opposite to any non-zero low part)
pub open spec fn opposite(S: int, L: int) -> bool { (S >= 0 && L < 0) || (S <= 0 && L > 0) }

/// repr_round_sum: by how many digits the unit of the result lies above (+) / below (-) the unit of the incoming high
/// part: the high part is cut to rp digits, or filled up to rp digits from the k digits of the low part
pub open spec fn unit_shift(rp: int, nd: int, k: int, low_zero: bool) -> int {
    if nd > rp { nd - rp } else if nd == rp || low_zero { 0 } else if k <= rp - nd { -k } else { -(rp - nd) }
}
/// contract of repr_round_sum: the exact value (S + L / b^k) * b^E, i.e. (S*b^k + L) * b^(E-k), is rounded at the unit
/// b^(E + unit_shift)
pub open spec fn sum_post<const B: Word>(m: Mode, b: int, p: usize, is_sub: bool, S: int, E: int, L: int, k: int,
                                         ret: Rounded<Repr<B>>) -> bool {
    if p == 0 {
        ret matches Approximation::Exact(r) && same_value(b, r.significand.v(), r.exponent as int, S, E)
    } else {
        let rp = p + (if is_sub { 1int } else { 0int });
        let j = k + unit_shift(rp, ndigits(b, S) as int, k, L == 0);
        j >= 0 && rounded_at(m, b, S * ipow(b, k as nat) + L, E - k, j as nat, ret)
    }
}

/// repr_round_sum, room for the exponent of its result (`Repr::new(significand + adjust, exponent)`): the high part q of
/// N = S*b^k + L at the unit b^j, adjusted by -1/0/+1, has at most nd + k - j + 2 digits (nd = digits of S, |L| < b^k, j <= nd + k)
pub proof fn lemma_sum_top(b: int, S: int, L: int, k: nat, j: nat, q: int, l: int, a: int)
    requires b >= 2, iabs(L) < ipow(b, k), j <= ndigits(b, S) + k, -1 <= a <= 1,
        unit_split(S * ipow(b, k) + L, ipow(b, j), q, l),
    ensures ndigits(b, q + a) <= ndigits(b, S) + k - j + 2
{
    let nd = ndigits(b, S);
    let m = (nd + k - j) as nat;
    let (bk, U, h, t) = (ipow(b, k), ipow(b, j), ipow(b, nd), ipow(b, m));
    lemma_ipow_pos(b, k); lemma_ipow_pos(b, j); lemma_ipow_pos(b, nd); lemma_ipow_pos(b, m);
    lemma_ndigits_ub(b, S);
    let N = S * bk + L;
    // |N| < b^(nd + k) = t * U
    let aS = iabs(S);
    let Sbk = S * bk;
    assert(iabs(Sbk) == aS * bk) by (nonlinear_arith) requires Sbk == S * bk, aS == (if S < 0 { -S } else { S }), bk >= 1;
    let aSbk = aS * bk;
    assert(aSbk + bk <= h * bk) by (nonlinear_arith) requires aSbk == aS * bk, aS + 1 <= h, bk >= 1;
    lemma_ipow_add(b, nd, k);
    lemma_ipow_add(b, m, j);
    assert(m + j == nd + k);
    let tU = t * U;
    assert(iabs(N) < tU);
    // |q| * U <= |N| + |l| < (t + 1) * U
    let aq = iabs(q);
    let qU = q * U;
    assert(iabs(qU) == aq * U) by (nonlinear_arith) requires qU == q * U, aq == (if q < 0 { -q } else { q }), U >= 1;
    let aqU = aq * U;
    assert(aqU < tU + U);
    assert(aq <= t) by (nonlinear_arith) requires aqU == aq * U, tU == t * U, aqU < tU + U, U >= 1;
    // |q + a| <= t + 1 <= 2t <= b*t < b^(m+2)
    assert(ipow(b, (m + 1) as nat) == b * t);
    assert(ipow(b, (m + 2) as nat) == b * ipow(b, (m + 1) as nat));
    let t1 = b * t;
    assert(t1 >= 2 * t) by (nonlinear_arith) requires t1 == b * t, b >= 2, t >= 1;
    assert(b * t1 > t1) by (nonlinear_arith) requires b >= 2, t1 >= 1;
    lemma_ndigits_le(b, q + a, (m + 2) as nat);
}
/// cutting `shift` digits off the high part: they join the low part
pub proof fn lemma_sum_shrink(b: int, S: int, L: int, k: nat, shift: nat, hi: int, lo: int)
    requires b >= 2, iabs(L) < ipow(b, k), is_trunc_divrem(S, ipow(b, shift), hi, lo)
    ensures
        S * ipow(b, k) + L == hi * ipow(b, k + shift) + (lo * ipow(b, k) + L),
        iabs(lo * ipow(b, k) + L) < ipow(b, k + shift),
{
    let (bk, bs) = (ipow(b, k), ipow(b, shift));
    lemma_ipow_pos(b, k);
    lemma_ipow_pos(b, shift);
    lemma_ipow_add(b, k, shift);
    let bks = bk * bs;
    assert(ipow(b, k + shift) == bks);
    let hibs = hi * bs;
    assert(S == hibs + lo);
    assert(S * bk == hi * bks + lo * bk) by (nonlinear_arith) requires S == hi * bs + lo, bks == bk * bs;
    let al = iabs(lo);
    let lobk = lo * bk;
    assert(iabs(lobk) == al * bk) by (nonlinear_arith) requires lobk == lo * bk, al == (if lo < 0 { -lo } else { lo }), bk >= 1;
    let albk = al * bk;
    assert(albk + bk <= bks) by (nonlinear_arith) requires albk == al * bk, al + 1 <= bs, bks == bk * bs, bk >= 1;
}
/// filling the high part with `shift` digits taken from the top of the low part
pub proof fn lemma_sum_expand(b: int, S: int, L: int, k: nat, shift: nat, pad: int, lv: int)
    requires b >= 2, shift <= k, is_trunc_divrem(L, ipow(b, (k - shift) as nat), pad, lv)
    ensures
        S * ipow(b, k) + L == (S * ipow(b, shift) + pad) * ipow(b, (k - shift) as nat) + lv,
        iabs(lv) < ipow(b, (k - shift) as nat),
{
    let r = (k - shift) as nat;
    let (bs, br) = (ipow(b, shift), ipow(b, r));
    lemma_ipow_pos(b, r);
    lemma_ipow_add(b, shift, r);
    assert(shift + r == k);
    let bk = ipow(b, k);
    assert(bk == bs * br);
    assert((S * bs + pad) * br + lv == S * bk + (pad * br + lv)) by (nonlinear_arith) requires bk == bs * br;
}

/// the EXACT sum  Sl * b^El + sg * Sr * b^Er  as an integer at the scale b^min(El, Er)
pub open spec fn exact_sum(b: int, Sl: int, El: int, sg: Sign, Sr: int, Er: int) -> int {
    let F = imin(El, Er);
    Sl * ipow(b, (El - F) as nat) + sgn_apply(sg, Sr) * ipow(b, (Er - F) as nat)
}
/// the operation lhs + sg * rhs subtracts magnitudes (operands of opposite effective sign); both non-zero
pub open spec fn true_sub(Sl: int, sg: Sign, Sr: int) -> bool { (Sl > 0) != (sgn_apply(sg, Sr) > 0) }
/// what is proved about lhs + sg * rhs (both finite and non-zero): unlimited precision gives the exact sum; otherwise
/// the result is the rounding, under the mode, of the EXACT sum at SOME unit b^(F + j) (see `rounded_at`: Exact iff the
/// sum is a multiple of that unit, mode-correct neighbour otherwise, truthful flags).
pub open spec fn add_post<const B: Word>(m: Mode, b: int, p: usize, Sl: int, El: int, sg: Sign, Sr: int, Er: int,
                                         ret: Rounded<Repr<B>>) -> bool {
    let N = exact_sum(b, Sl, El, sg, Sr, Er);
    let F = imin(El, Er);
    if p == 0 {
        ret matches Approximation::Exact(r) && same_value(b, r.significand.v(), r.exponent as int, N, F)
    } else {
        exists|j: nat| #[trigger] rounded_at(m, b, N, F, j, ret)
    }
}
/// rounding of a sentinel: the sum Q*U1 + s (s = +-1 standing for a far smaller addend of the same sign) and the true sum
/// Q*U + n round alike at the unit of Q, as long as both fractions are below one half -- or the sentinel is EXACTLY one
/// half (U1 == 2: base 2, one digit) and the mode cannot tell (directed modes; HalfEven on an even Q; HalfAway when the
/// addend points towards zero).
pub proof fn lemma_far_transfer(m: Mode, Q: int, U1: int, s: int, U: int, n: int, q: int, l: int, a: Rounding)
    requires
        U1 >= 2, s == 1 || s == -1, n != 0, (n > 0) == (s > 0), 2 * iabs(n) < U, Q != 0,
        unit_split(Q * U1 + s, U1, q, l), l != 0, round_def(m, Q * U1 + s, U1, q + adj_int(a)),
        U1 == 2 ==> (m is HalfEven ==> Q % 2 == 0) && (m is HalfAway ==> opposite(Q, s)),
    ensures
        unit_split(Q * U + n, U, q, (Q - q) * U + n), (Q - q) * U + n != 0, round_def(m, Q * U + n, U, q + adj_int(a)),
{
    let d = q - Q;
    let dU1 = d * U1;
    assert(q * U1 == Q * U1 + dU1) by (nonlinear_arith) requires d == q - Q, dU1 == d * U1;
    assert(l == s - dU1);
    assert(d == 0 || d == 1 || d == -1) by (nonlinear_arith) requires dU1 == d * U1, -U1 < s - dU1, s - dU1 < U1, -1 <= s, s <= 1, U1 >= 2;
    assert(d == 1 ==> dU1 == U1) by (nonlinear_arith) requires dU1 == d * U1;
    assert(d == -1 ==> dU1 == -U1) by (nonlinear_arith) requires dU1 == d * U1;
    assert(d == 0 ==> dU1 == 0) by (nonlinear_arith) requires dU1 == d * U1;
    let mm = q + adj_int(a);
    let t = mm - Q;
    let tU1 = t * U1;
    assert(mm * U1 == Q * U1 + tU1) by (nonlinear_arith) requires t == mm - Q, tU1 == t * U1;
    assert(t == 0 || t == 1 || t == -1) by (nonlinear_arith) requires tU1 == t * U1, -U1 < tU1 - s, tU1 - s < U1, -1 <= s, s <= 1, U1 >= 2;
    let ar = if t == 0 { Rounding::NoOp } else if t == 1 { Rounding::AddOne } else { Rounding::SubOne };
    assert(adj_int(ar) == t);
    lemma_mode_rep(m, Q, s, U1, ar);
    lemma_mode_rep(m, Q, n, U, ar);
    assert(sign_of(s) == sign_of(n));
    assert(int_cmp(2 * iabs(n), U) == Ordering::Less);
    assert(mode_ok(m, Q, sign_of(s), int_cmp(2 * iabs(s), U1), ar));
    if U1 == 2 {
        assert(int_cmp(2 * iabs(s), U1) == Ordering::Equal);
        assert(mode_ok(m, Q, sign_of(s), Ordering::Less, ar));
    }
    assert(round_def(m, Q * U + n, U, Q + t));
    let dU = d * U;
    assert((Q - q) * U == -dU) by (nonlinear_arith) requires d == q - Q, dU == d * U;
    assert(q * U == Q * U + dU) by (nonlinear_arith) requires d == q - Q, dU == d * U;
    assert(d == 1 ==> dU == U) by (nonlinear_arith) requires dU == d * U;
    assert(d == -1 ==> dU == -U) by (nonlinear_arith) requires dU == d * U;
    assert(d == 0 ==> dU == 0) by (nonlinear_arith) requires dU == d * U;
}
/// |a|, |c| < b^n  ==>  a + c has at most n + 1 digits
pub proof fn lemma_ndigits_sum(b: int, a: int, c: int, n: nat)
    requires b >= 2, iabs(a) < ipow(b, n), iabs(c) < ipow(b, n)
    ensures ndigits(b, a + c) <= n + 1
{
    let t = ipow(b, n);
    lemma_ipow_pos(b, n);
    assert(ipow(b, n + 1) == b * ipow(b, n));
    assert(b * t >= 2 * t) by (nonlinear_arith) requires b >= 2, t >= 1;
    lemma_ndigits_le(b, a + c, n + 1);
}
/// |s| < b^n ==> |s * b^k| < b^(n+k)
pub proof fn lemma_shift_bound(b: int, s: int, n: nat, k: nat)
    requires b >= 2, iabs(s) < ipow(b, n)
    ensures iabs(s * ipow(b, k)) < ipow(b, n + k)
{
    let u = ipow(b, k);
    lemma_ipow_pos(b, k);
    lemma_ipow_add(b, n, k);
    let a = iabs(s);
    let v = s * u;
    assert(iabs(v) == a * u) by (nonlinear_arith) requires v == s * u, a == (if s < 0 { -s } else { s }), u >= 1;
    let au = a * u;
    let h = ipow(b, n);
    assert(au < h * u) by (nonlinear_arith) requires a < h, u >= 1, au == a * u;
}
/// the quotient of a truncating split has the digits above the split position
pub proof fn lemma_split_hi_bound(b: int, v: int, n: nat, k: nat, hi: int, lo: int)
    requires b >= 2, iabs(v) < ipow(b, n), is_trunc_divrem(v, ipow(b, k), hi, lo)
    ensures iabs(hi) <= iabs(v), iabs(hi) < ipow(b, n), (hi > 0 ==> v > 0), (hi < 0 ==> v < 0), (lo > 0 ==> v > 0), (lo < 0 ==> v < 0)
{
    let u = ipow(b, k);
    lemma_ipow_pos(b, k);
    lemma_divrem_facts(v, u, hi, lo);
    let hu = hi * u;
    let ah = iabs(hi);
    let ahu = ah * u;
    assert(ahu == iabs(hu)) by (nonlinear_arith) requires ahu == ah * u, hu == hi * u, ah == (if hi < 0 { -hi } else { hi }), u > 0;
    assert(ah <= ahu) by (nonlinear_arith) requires ahu == ah * u, u >= 1, ah >= 0;
    assert(hi > 0 ==> hu > 0) by (nonlinear_arith) requires hu == hi * u, u >= 1;
    assert(hi < 0 ==> hu < 0) by (nonlinear_arith) requires hu == hi * u, u >= 1;
    assert(hi == 0 ==> hu == 0) by (nonlinear_arith) requires hu == hi * u;
}

/// machine ranges under which the helpers of add.rs are free of usize/isize overflow (digit counts, precision and
/// exponents below 2^56; anything beyond is outside the contracts).
/// resource limit: exponent overflow is a documented panic (C16), not modelled: the digit positions passed to
/// split_digits(_ref) / shl_digits(_in_place) (exponent differences < 2^57, digit counts, precision + 2) must satisfy
/// `pos_room` (bit position `pos * log2(B)` within usize, i.e. pos < 2^58), and the exponents handed to `Repr::new`
/// `exp_room`; 2^56 leaves that margin (it was 2^60 while the stubs ignored these limits).
pub open spec fn add_ranges(b: int, p: usize, Sl: int, El: int, Sr: int, Er: int) -> bool {
    let lim = 0x100_0000_0000_0000int;
    p < lim && ndigits(b, Sl) < lim && ndigits(b, Sr) < lim && -lim < El && El < lim && -lim < Er && Er < lim
}
/// C03 domain ("operands that fit the context precision"), for a limited precision
pub open spec fn add_fits(b: int, p: usize, Sl: int, Sr: int) -> bool {
    p != 0 ==> ndigits(b, Sl) <= p && ndigits(b, Sr) <= p
}

/// aligning the operand with the smaller exponent by splitting it k digits from the right (branches "align rhs" /
/// "align both" of repr_add_large_small / repr_add_small_large): Sa is the (shifted) operand with the larger exponent,
/// Sb = hi * b^k + r the other one, sa / sb the signs applied to them.
pub proof fn lemma_align_split(b: int, Sa: int, sa: Sign, Sb: int, sb: Sign, k: nat, hi: int, r: int, n: nat)
    requires b >= 2, is_trunc_divrem(Sb, ipow(b, k), hi, r), Sa != 0, Sb != 0, iabs(Sa) < ipow(b, n), iabs(Sb) < ipow(b, n)
    ensures
        (sgn_apply(sa, Sa) + sgn_apply(sb, hi)) * ipow(b, k) + sgn_apply(sb, r) == sgn_apply(sa, Sa) * ipow(b, k) + sgn_apply(sb, Sb),
        iabs(sgn_apply(sb, r)) < ipow(b, k),
        ndigits(b, sgn_apply(sa, Sa) + sgn_apply(sb, hi)) <= n + 1,
        sgn_apply(sb, r) != 0 && opposite(sgn_apply(sa, Sa) + sgn_apply(sb, hi), sgn_apply(sb, r))
            ==> (sgn_apply(sa, Sa) > 0) != (sgn_apply(sb, Sb) > 0),
{
    let u = ipow(b, k);
    lemma_ipow_pos(b, k);
    lemma_split_hi_bound(b, Sb, n, k, hi, r);
    let (A, h, l, B_) = (sgn_apply(sa, Sa), sgn_apply(sb, hi), sgn_apply(sb, r), sgn_apply(sb, Sb));
    assert((A + h) * u + l == A * u + B_) by (nonlinear_arith)
        requires Sb == hi * u + r, (h == hi && l == r && B_ == Sb) || (h == -hi && l == -r && B_ == -Sb);
    lemma_ndigits_sum(b, A, h, n);
}
/// far-apart operands: what repr_round_sum returns for the sentinel  Sa * b^k + s  (s = +-1) is the rounding of the true
/// sum  Sa * b^ediff + sb  at the same unit
pub proof fn lemma_far_result<const B: Word>(m: Mode, b: int, Sa: int, s: int, sb: int, k: nat, j1: nat, ediff: nat, rde: nat,
                                             F1: int, ret: Rounded<Repr<B>>)
    requires
        b >= 2, Sa != 0, s == 1 || s == -1, sb != 0, (sb > 0) == (s > 0), iabs(sb) < ipow(b, rde),
        1 <= j1 <= k, k - j1 <= ediff, ediff - k + j1 >= rde + 1,
        rounded_at(m, b, Sa * ipow(b, k) + s, F1, j1, ret),
        // a sentinel of exactly one half (base 2, one digit left)
        ipow(b, j1) == 2 ==> (m is HalfEven ==> k > j1) && (m is HalfAway ==> opposite(Sa, s)),
    ensures
        rounded_at(m, b, Sa * ipow(b, ediff) + sb, F1 + k - ediff, (ediff - k + j1) as nat, ret),
{
    let t = (k - j1) as nat;
    let j = (ediff - k + j1) as nat;
    let N1 = Sa * ipow(b, k) + s;
    let N = Sa * ipow(b, ediff) + sb;
    let (U1, U) = (ipow(b, j1), ipow(b, j));
    let Q = Sa * ipow(b, t);
    lemma_ipow_add(b, t, j1);
    lemma_ipow_add(b, t, j);
    lemma_ipow_pos(b, t);
    assert(t + j1 == k && t + j == ediff);
    let (pk, pe, pt) = (ipow(b, k), ipow(b, ediff), ipow(b, t));
    assert(Q * U1 == Sa * pk) by (nonlinear_arith) requires Q == Sa * pt, pk == pt * U1;
    assert(Q * U == Sa * pe) by (nonlinear_arith) requires Q == Sa * pt, pe == pt * U;
    assert(Q != 0) by (nonlinear_arith) requires Q == Sa * pt, pt >= 1, Sa != 0;
    assert(Q > 0 <==> Sa > 0) by (nonlinear_arith) requires Q == Sa * pt, pt >= 1;
    // 2|sb| < U
    lemma_ipow_mono(b, rde + 1, j);
    assert(ipow(b, rde + 1) == b * ipow(b, rde));
    let pr = ipow(b, rde);
    lemma_ipow_pos(b, rde);
    assert(2 * pr <= b * pr) by (nonlinear_arith) requires b >= 2, pr >= 0;
    // U1 >= 2
    lemma_ipow_strict(b, 0, j1);
    assert(ipow(b, 0) == 1);
    if U1 == 2 && (m is HalfEven) {
        lemma_shift_divisible(b, Sa, t);
        // U1 == 2 forces b == 2
        lemma_ipow_mono(b, 1, j1);
        reveal_with_fuel(ipow, 2);
        assert(ipow(b, 1) == b);
    }
    match ret {
        Approximation::Exact(_) => {
            // impossible: the sentinel is never a multiple of the unit
            let (q, l) = choose|q: int, l: int| #[trigger] unit_split(N1, U1, q, l) && l == 0;
            let d = q - Q;
            let dU1 = d * U1;
            assert(q * U1 == Q * U1 + dU1) by (nonlinear_arith) requires d == q - Q, dU1 == d * U1;
            assert(false) by (nonlinear_arith) requires dU1 == d * U1, dU1 == s, s == 1 || s == -1, U1 >= 2;
        },
        Approximation::Inexact(r, adj) => {
            let (q, l) = choose|q: int, l: int| #[trigger] unit_split(N1, U1, q, l) && l != 0
                && round_def(m, N1, U1, q + adj_int(adj))
                && same_value(b, r.significand.v(), r.exponent as int, q + adj_int(adj), F1 + j1);
            lemma_far_transfer(m, Q, U1, s, U, sb, q, l, adj);
            assert(unit_split(N, U, q, (Q - q) * U + sb));
        },
    }
}
/// b^1 == b, b^2 >= 4; b^j == 2 only for b == 2, j == 1
pub proof fn lemma_ipow_small(b: int)
    requires b >= 2
    ensures ipow(b, 0) == 1, ipow(b, 1) == b, ipow(b, 2) == b * b, ipow(b, 2) >= 4
{
    reveal_with_fuel(ipow, 3);
    assert(b * b >= 4) by (nonlinear_arith) requires b >= 2;
}
/// the digit count ignores the sign
pub proof fn lemma_ndigits_neg(b: int, v: int)
    requires b >= 2
    ensures ndigits(b, -v) == ndigits(b, v)
{
    broadcast use ax_ndigits;
    if v != 0 { lemma_ndigits_unique(b, -v, ndigits(b, v)); }
}

/// the definition of the modes is invariant under a change of scale
pub proof fn lemma_round_def_scale(m: Mode, X: int, D: int, r: int, c: int)
    requires D > 0, c > 0, round_def(m, X, D, r)
    ensures round_def(m, X * c, D * c, r)
{
    let R = r * D;
    let (X2, D2) = (X * c, D * c);
    let R2 = r * D2;
    assert(R2 == R * c) by (nonlinear_arith) requires R2 == r * D2, D2 == D * c, R == r * D;
    let e = R - X;
    let e2 = R2 - X2;
    assert(e2 == e * c) by (nonlinear_arith) requires e2 == R2 - X2, R2 == R * c, X2 == X * c, e == R - X;
    assert(-D2 < e2 && e2 < D2) by (nonlinear_arith) requires e2 == e * c, D2 == D * c, -D < e, e < D, c > 0;
    let (a, a2) = (iabs(e), iabs(e2));
    assert(a2 == a * c) by (nonlinear_arith) requires e2 == e * c, c > 0, a == (if e < 0 { -e } else { e }), a2 == (if e2 < 0 { -e2 } else { e2 });
    assert((2 * a <= D) == (2 * a2 <= D2)) by (nonlinear_arith) requires a2 == a * c, D2 == D * c, c > 0;
    assert((2 * a == D) == (2 * a2 == D2)) by (nonlinear_arith) requires a2 == a * c, D2 == D * c, c > 0;
    assert((R >= X) == (R2 >= X2)) by (nonlinear_arith) requires R2 == R * c, X2 == X * c, c > 0;
    assert((R <= X) == (R2 <= X2)) by (nonlinear_arith) requires R2 == R * c, X2 == X * c, c > 0;
    assert((R >= 0) == (R2 >= 0) && (R <= 0) == (R2 <= 0)) by (nonlinear_arith) requires R2 == R * c, c > 0;
    assert((X >= 0) == (X2 >= 0) && (X <= 0) == (X2 <= 0)) by (nonlinear_arith) requires X2 == X * c, c > 0;
}
/// a single correct rounding to p digits (round_val, as `repr_round` delivers it) is in particular a rounding of the
/// exact value at some unit (rounded_at)
pub proof fn lemma_round_val_at<const B: Word>(m: Mode, b: int, p: usize, N: int, F: int, ret: Rounded<Repr<B>>)
    requires b >= 2, round_val(m, b, p, N, F, ret)
    ensures exists|j: nat| #[trigger] rounded_at(m, b, N, F, j, ret),
        p == 0 ==> (ret matches Approximation::Exact(r) && same_value(b, r.significand.v(), r.exponent as int, N, F)),
{
    broadcast use ax_ndigits;
    let (s0, e0) = choose|s0: int, e0: int| #[trigger] norm_of(b, N, F, s0, e0) && round_once(m, b, p, s0, e0, ret);
    lemma_norm_of(b, N, F, s0, e0);
    match ret {
        Approximation::Exact(r) => {
            assert(ipow(b, 0) == 1);
            assert(N == N * 1 + 0);
            assert(unit_split(N, ipow(b, 0), N, 0));
            assert(rounded_at(m, b, N, F, 0, ret));
        },
        Approximation::Inexact(r, adj) => {
            let nd = ndigits(b, s0);
            let shift = (nd - p) as nat;
            let mm = choose|mm: int| #[trigger] round_witness(m, b, s0, shift, mm, adj)
                && same_value(b, r.significand.v(), r.exponent as int, mm, e0 + shift);
            assert(s0 != 0);
            let t = (e0 - F) as nat;
            let (c, u) = (ipow(b, t), ipow(b, shift));
            lemma_ipow_pos(b, t);
            lemma_ipow_pos(b, shift);
            lemma_ipow_add(b, t, shift);
            let j = t + shift;
            let U = ipow(b, j);
            assert(U == c * u);
            assert(N == s0 * c) by {
                if e0 == F { assert(c == 1); assert(N * 1 == N); }
            }
            let q = mm - adj_int(adj);
            let l0 = s0 - q * u;
            let l = l0 * c;
            assert(N == q * U + l) by (nonlinear_arith) requires N == s0 * c, l0 == s0 - q * u, l == l0 * c, U == c * u;
            let (al0, al) = (iabs(l0), iabs(l));
            assert(al == al0 * c) by (nonlinear_arith) requires l == l0 * c, c > 0, al0 == (if l0 < 0 { -l0 } else { l0 }), al == (if l < 0 { -l } else { l });
            assert(al < U) by (nonlinear_arith) requires al == al0 * c, al0 < u, U == c * u, c > 0;
            assert(unit_split(N, U, q, l));
            if l0 == 0 {
                lemma_round_exact(m, q, u);
                lemma_round_def_unique(m, s0, u, mm, q);
                assert(false);
            }
            assert(l != 0) by (nonlinear_arith) requires l == l0 * c, c > 0, l0 != 0;
            lemma_round_def_scale(m, s0, u, mm, c);
            assert(u * c == U) by (nonlinear_arith) requires U == c * u;
            assert(rounded_at(m, b, N, F, j, ret));
        },
    }
}
/// the top-level statement proved for add / sub (see add_post) as a function of the exact sum N * b^F
pub open spec fn sum_c03<const B: Word>(m: Mode, b: int, p: usize, N: int, F: int, ret: Rounded<Repr<B>>) -> bool {
    if p == 0 {
        ret matches Approximation::Exact(r) && same_value(b, r.significand.v(), r.exponent as int, N, F)
    } else {
        exists|j: nat| #[trigger] rounded_at(m, b, N, F, j, ret)
    }
}
/// an operand that fits the precision passes `repr_round(_ref)` unchanged; adding zero to it is exact
pub proof fn lemma_add_zero<const B: Word>(m: Mode, b: int, p: usize, S: int, E: int, N: int, F: int, ret: Rounded<Repr<B>>)
    requires b >= 2, same_value(b, S, E, N, F),
        ret matches Approximation::Exact(r) && r.significand.v() == S && r.exponent == E,
    ensures sum_c03(m, b, p, N, F, ret)
{
    assert(ipow(b, 0) == 1);
    assert(N == N * 1 + 0);
    assert(unit_split(N, ipow(b, 0), N, 0));
    assert(rounded_at(m, b, N, F, 0, ret));
}
/// exact_sum with a zero operand is the other operand
pub proof fn lemma_exact_sum_zero(b: int, S: int, E: int, sg: Sign)
    requires b >= 2
    ensures
        same_value(b, sgn_apply(sg, S), E, exact_sum(b, 0, 0, sg, S, E), imin(0, E)),
        same_value(b, S, E, exact_sum(b, S, E, sg, 0, 0), imin(E, 0)),
{
    assert(ipow(b, 0) == 1);
    let s = sgn_apply(sg, S);
    if E >= 0 {
        let u = ipow(b, E as nat);
        assert(0 * 1 + s * u == s * u);
        assert(S * u + sgn_apply(sg, 0) * 1 == S * u);
    } else {
        let u = ipow(b, (-E) as nat);
        assert(0 * u + s * 1 == s) by (nonlinear_arith);
        assert(S * 1 + sgn_apply(sg, 0) * u == S) by (nonlinear_arith) requires sgn_apply(sg, 0) == 0;
    }
}
/// `context.repr_round(Repr::new(X, E))` as ONE expression (the intermediate repr cannot be named): whatever normalized
/// representation (s1, e1) `Repr::new` returns satisfies the range precondition of repr_round, and rounding it is a
/// rounding of X * b^E
pub proof fn lemma_new_then_round<const B: Word>(m: Mode, b: int, p: usize, X: int, E: int)
    requires b >= 2, E + ndigits(b, X) <= isize::MAX, ndigits(b, X) <= isize::MAX, pos_room(ndigits(b, X) as int)
    ensures
        exp_room(E, ndigits(b, X) as int),
        forall|s1: int, e1: int| #[trigger] same_value(b, s1, e1, X, E) && (s1 == 0 || s1 % b != 0) && (X == 0 ==> s1 == 0 && e1 == 0)
            ==> !(s1 == 0 && e1 != 0) && e1 + ndigits(b, s1) <= isize::MAX && ndigits(b, s1) <= isize::MAX
                && pos_room(ndigits(b, s1) as int),
        forall|s1: int, e1: int, rr: Rounded<Repr<B>>| #[trigger] same_value(b, s1, e1, X, E) && (s1 == 0 || s1 % b != 0)
            && #[trigger] round_once(m, b, p, s1, e1, rr) ==> round_val(m, b, p, X, E, rr) && sum_c03(m, b, p, X, E, rr),
{
    broadcast use ax_ndigits;
    assert forall|s1: int, e1: int| #[trigger] same_value(b, s1, e1, X, E) && (s1 == 0 || s1 % b != 0) && (X == 0 ==> s1 == 0 && e1 == 0)
        implies !(s1 == 0 && e1 != 0) && e1 + ndigits(b, s1) <= isize::MAX && ndigits(b, s1) <= isize::MAX
            && pos_room(ndigits(b, s1) as int) by {
        assert(norm_of(b, X, E, s1, e1));
        lemma_norm_of(b, X, E, s1, e1);
    }
    assert forall|s1: int, e1: int, rr: Rounded<Repr<B>>| #[trigger] same_value(b, s1, e1, X, E) && (s1 == 0 || s1 % b != 0)
        && #[trigger] round_once(m, b, p, s1, e1, rr) implies round_val(m, b, p, X, E, rr) && sum_c03(m, b, p, X, E, rr) by {
        assert(norm_of(b, X, E, s1, e1));
        lemma_round_val_at::<B>(m, b, p, X, E, rr);
    }
}

/// the plain value (flag dropped by `.value()`) of a result satisfying add_post
pub open spec fn add_post_of<const B: Word>(m: Mode, b: int, p: usize, Sl: int, El: int, sg: Sign, Sr: int, Er: int, r: Repr<B>) -> bool {
    exists|rr: Rounded<Repr<B>>| #[trigger] rd_val0(rr) == r && add_post(m, b, p, Sl, El, sg, Sr, Er, rr)
}
/// zero shortcut of the operator forms: the other operand (with the sign applied) is returned as it is (any repr with
/// that significand value and exponent: the returned object may be a clone)
pub proof fn lemma_add_zero_of<const B: Word>(m: Mode, b: int, p: usize, Sl: int, El: int, sg: Sign, Sr: int, Er: int)
    requires b >= 2, (Sl == 0 && El == 0) || (Sr == 0 && Er == 0),
    ensures forall|r: Repr<B>|
        ((Sl == 0 && El == 0 && r.significand.v() == sgn_apply(sg, Sr) && r.exponent == Er)
            || (Sr == 0 && Er == 0 && r.significand.v() == Sl && r.exponent == El))
        ==> #[trigger] add_post_of(m, b, p, Sl, El, sg, Sr, Er, r)
{
    assert forall|r: Repr<B>|
        ((Sl == 0 && El == 0 && r.significand.v() == sgn_apply(sg, Sr) && r.exponent == Er)
            || (Sr == 0 && Er == 0 && r.significand.v() == Sl && r.exponent == El))
        implies #[trigger] add_post_of(m, b, p, Sl, El, sg, Sr, Er, r) by {
        let rr = Approximation::<Repr<B>, Rounding>::Exact(r);
        let N = exact_sum(b, Sl, El, sg, Sr, Er);
        let F = imin(El, Er);
        if Sl == 0 && El == 0 && r.significand.v() == sgn_apply(sg, Sr) && r.exponent == Er {
            lemma_exact_sum_zero(b, Sr, Er, sg);
            lemma_add_zero::<B>(m, b, p, sgn_apply(sg, Sr), Er, N, F, rr);
        } else {
            lemma_exact_sum_zero(b, Sl, El, sg);
            lemma_add_zero::<B>(m, b, p, Sl, El, N, F, rr);
        }
        assert(rd_val0(rr) == r);
        assert(add_post(m, b, p, Sl, El, sg, Sr, Er, rr));
    }
}
