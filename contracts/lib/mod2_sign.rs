// ---- dashu_base::Sign (base/src/sign.rs): the two-variant enum, transcribed; `Structural` so that the derived `==` of the
// real code is structural equality for Verus (same transcription as lib/round_prelude.rs; lib/sign.rs lacks `Structural`)
#[derive(Clone, Copy, PartialEq, Eq, Debug, Structural)]
pub enum Sign { Positive, Negative }
pub use Sign::*;
pub open spec fn sgn(s: Sign) -> int { match s { Sign::Positive => 1, Sign::Negative => -1 } }
