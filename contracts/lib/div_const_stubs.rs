// ---- trusted stubs for integer/src/div_const.rs (ConstDivisor). Word = @W@ ---------------------------------------
// Needs lib/prelude.rs, lib/div_word_stubs.rs (FastDivideNormalized), lib/div_dword_stubs.rs (FastDivideNormalized2).
//
// num_modular::PreMulInv2by1<Word> / PreMulInv3by2<Word, DoubleWord> (num-modular 0.6.5, src/barrett.rs:258-291,
// 479-515) are NOT verified here.  They are plain pairs { div: Normalized*Divisor, shift: u32 } whose only
// constructor is `new(divisor)`: `shift = divisor.leading_zeros(); div = Normalized*Divisor::new(divisor << shift)`.
// ASSUMED: `divider()` / `shift()` return the two fields; `new(d)` yields a value with
//     divider().divisor() == d * 2^shift  (nothing shifted out),  divider().wf() (top bit set).
// The invariant is not an axiom: it is the explicit predicate wf(), established by `new`.
#[verifier::external_body]
#[verifier::reject_recursive_types(T)]
pub struct PreMulInv2by1<T> { _p: T }

impl PreMulInv2by1<Word> {
    pub uninterp spec fn spec_divider(&self) -> FastDivideNormalized;
    pub uninterp spec fn spec_shift(&self) -> u32;
    /// the normalized divisor
    pub open spec fn dn(&self) -> int { self.spec_divider().divisor() }
    pub open spec fn wf(&self) -> bool {
        self.spec_divider().wf() && self.spec_shift() < WORD_BITS && self.dn() % pow2(self.spec_shift() as int) == 0
    }
    /// the original (unnormalized) divisor: dn() >> shift
    pub open spec fn orig(&self) -> int { self.dn() / pow2(self.spec_shift() as int) }

    #[verifier::external_body]
    pub const fn new(divisor: Word) -> (r: Self)
        requires divisor != 0,
        ensures r.wf(), r.orig() == divisor as int,
    { unimplemented!() }
    #[verifier::external_body]
    pub const fn divider(&self) -> (r: &FastDivideNormalized) ensures *r == self.spec_divider() { unimplemented!() }
    #[verifier::external_body]
    pub const fn shift(&self) -> (r: u32) ensures r == self.spec_shift() { unimplemented!() }
}

#[verifier::external_body]
#[verifier::reject_recursive_types(T)]
#[verifier::reject_recursive_types(D)]
pub struct PreMulInv3by2<T, D> { _p: T, _q: D }

impl PreMulInv3by2<Word, DoubleWord> {
    pub uninterp spec fn spec_divider(&self) -> FastDivideNormalized2;
    pub uninterp spec fn spec_shift(&self) -> u32;
    pub open spec fn dn(&self) -> int { self.spec_divider().divisor() }
    /// shift < WORD_BITS: the original divisor is > Word::MAX (debug assertion of ConstDoubleDivisor::new)
    pub open spec fn wf(&self) -> bool {
        self.spec_divider().wf() && self.spec_shift() < WORD_BITS && self.dn() % pow2(self.spec_shift() as int) == 0
    }
    pub open spec fn orig(&self) -> int { self.dn() / pow2(self.spec_shift() as int) }

    #[verifier::external_body]
    pub const fn new(divisor: DoubleWord) -> (r: Self)
        requires divisor as int >= B(),
        ensures r.wf(), r.orig() == divisor as int,
    { unimplemented!() }
    #[verifier::external_body]
    pub const fn divider(&self) -> (r: &FastDivideNormalized2) ensures *r == self.spec_divider() { unimplemented!() }
    #[verifier::external_body]
    pub const fn shift(&self) -> (r: u32) ensures r == self.spec_shift() { unimplemented!() }
}

// div_const.rs:28-39, 214-218: the crate's own types, mirrored verbatim (trusted to match)
pub struct ConstSingleDivisor(pub PreMulInv2by1<Word>);
pub struct ConstDoubleDivisor(pub PreMulInv3by2<Word, DoubleWord>);
pub struct ConstLargeDivisor {
    pub normalized_divisor: Box<[Word]>,
    pub shift: u32,
    pub fast_div_top: FastDivideNormalized2,
}
pub enum ConstDivisorRepr {
    Single(ConstSingleDivisor),
    Double(ConstDoubleDivisor),
    Large(ConstLargeDivisor),
}

impl ConstLargeDivisor {
    /// what ConstLargeDivisor::new establishes from a `Large` buffer (>= 3 words, top word non-zero) via div::normalize
    pub open spec fn wf(&self) -> bool {
        let n = self.normalized_divisor@.len() as int;
        n >= 3 && 2 * n <= usize::MAX && self.shift < WORD_BITS      // (the words came out of a Buffer)
        && self.fast_div_top.wf()
        && self.fast_div_top.divisor() == self.normalized_divisor@[n - 2] as int + (self.normalized_divisor@[n - 1] as int) * B()
        && val(self.normalized_divisor@) % pow2(self.shift as int) == 0
        && self.orig() >= pw(n - 1)          // the unnormalized divisor has n words too (its top word is non-zero)
    }
    /// the original (unnormalized) divisor
    pub open spec fn orig(&self) -> int { val(self.normalized_divisor@) / pow2(self.shift as int) }
}

impl ConstDivisorRepr {
    pub open spec fn wf(&self) -> bool {
        match self {
            ConstDivisorRepr::Single(d) => d.0.wf(),
            ConstDivisorRepr::Double(d) => d.0.wf(),
            ConstDivisorRepr::Large(d) => d.wf(),
        }
    }
    /// the divisor the ConstDivisor was built from
    pub open spec fn value(&self) -> int {
        match self {
            ConstDivisorRepr::Single(d) => d.0.orig(),
            ConstDivisorRepr::Double(d) => d.0.orig(),
            ConstDivisorRepr::Large(d) => d.orig(),
        }
    }
}
