// ---- fm_float_stubs.rs: call-site views of float/src/sign.rs operations and of `Clone for FBig`, for unit
// float_fm_methods.  They exist so that a change of an FBig-level method that routes the value through |x| / sign(x)
// (seeded change C03_r3_3: `self.sign() * self.context.cubic(&abs(self).repr).value()`) is DECIDED by the contract
// instead of being rejected as unresolved.  NOT new assumptions about sign.rs: each contract repeats the statement the
// real method is proved against in unit float_sign (fs_abs_post, fs_sign_of, fs_sign_post; annot float/shift/*.rs).
// (`Clone for FBig` is in fm_fbig_clone.rs.)
// Needs fm_fbig_clone.rs, fs_spec.rs, fs_stubs.rs (trait Abs), farith_add_stubs.rs (sgn_apply).
pub mod dashu_base { pub use super::Abs; }
impl<R: Round, const B: Word> Abs for FBig<R, B> {
    type Output = FBig<R, B>;
    #[verifier::external_body]
    fn abs(self) -> (r: FBig<R, B>) ensures fs_abs_post(self, r) { unimplemented!() }
}
impl<R: Round, const B: Word> FBig<R, B> {
    #[verifier::external_body]
    pub fn sign(&self) -> (r: Sign) ensures r == fs_sign_of(self.repr) { unimplemented!() }
}
pub open spec fn fm_sign_mul_spec<R: Round, const B: Word>(s: Sign, f: FBig<R, B>) -> FBig<R, B> {
    FBig { repr: Repr { significand: ibig_of(sgn_apply(s, f.repr.significand.v())), exponent: f.repr.exponent }, context: f.context }
}
impl<R: Round, const B: Word> Mul<FBig<R, B>> for Sign { type Output = FBig<R, B>;
    #[verifier::external_body] fn mul(self, rhs: FBig<R, B>) -> FBig<R, B> { unimplemented!() } }
impl<R: Round, const B: Word> MulSpecImpl<FBig<R, B>> for Sign {
    open spec fn obeys_mul_spec() -> bool { true }
    open spec fn mul_req(self, rhs: FBig<R, B>) -> bool { true }
    open spec fn mul_spec(self, rhs: FBig<R, B>) -> FBig<R, B> { fm_sign_mul_spec(self, rhs) }
}
