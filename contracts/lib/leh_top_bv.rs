// ---- leh_top_bv.rs: bit-level lemma of highest_dword_normalized. Word = @W@.  Needs lib/prelude.rs, lib/shift_bv.rs,
// lib/div_dword_lemmas.rs (lemma_dd_shr_div).

/// the double word assembled by highest_dword_normalized:  w0 << (s + BITS) | w12 >> (BITS - s)  with w0 * 2^s < B
///   == w0 * 2^s * B + floor(w12 / 2^(BITS - s))
pub proof fn lemma_leh_dw_or(w0: @W@, w12: @D@, s: u32)
    requires s < @BITS@, (w0 as int) * pow2(s as int) < B(),
    ensures ((((w0 as @D@) << ((s + @BITS@) as u32)) | (w12 >> ((@BITS@ - s) as u32))) as int)
        == (w0 as int) * pow2(s as int) * B() + (w12 as int) / pow2(@BITS@ - s as int),
{
    let k = (s + @BITS@) as u32; let t = (@BITS@ - s) as u32;
    let a = (w0 as @D@) << k; let c = w12 >> t;
    assert((a | c) == a + c) by (bit_vector)
        requires a == (w0 as @D@) << k, c == w12 >> t, k == s + @BITS@, t == @BITS@ - s, s < @BITS@;
    lemma_sh_pow2_add(s as int, @BITS@); lemma_sh_pow2_bits();
    let p = pow2(s as int);
    assert((w0 as int) * (p * B()) == (w0 as int) * p * B()) by (nonlinear_arith);
    assert((w0 as int) * p * B() < B() * B()) by (nonlinear_arith) requires (w0 as int) * p < B(), B() >= 1;
    lemma_sh_shl_mul_d(w0 as @D@, k);
    lemma_dd_shr_div(w12, t);
}

