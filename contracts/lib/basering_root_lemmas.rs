// ---- basering_root_lemmas.rs: arithmetic of the PRIMITIVE square-root algorithms of dashu-base (base/src/ring/root.rs), unit base_root.
// Needs lib/div_dword_bits_64.rs, lib/basering_bits.rs.  Mathematical integers; everything in this file is proved except the two
// `assume_specification`s of core functions (u64::pow, u128::pow: TRUSTED, definition in `core`).
//
// C12 for sqrt_rem: (s, r) with s*s + r == n and 0 <= r <= 2*s, i.e. s*s <= n < (s+1)*(s+1): s is the root truncated toward zero.

pub open spec fn br_ipow(b: int, e: nat) -> int
    decreases e
{
    if e == 0 { 1 } else { b * br_ipow(b, (e - 1) as nat) }
}

/// core: the mathematical power when it fits (an overflowing power panics in debug builds and wraps in release builds: precondition)
pub assume_specification [u64::pow] (b: u64, e: u32) -> (r: u64)
    requires br_ipow(b as int, e as nat) <= u64::MAX as int,
    ensures r as int == br_ipow(b as int, e as nat);
pub assume_specification [u128::pow] (b: u128, e: u32) -> (r: u128)
    requires br_ipow(b as int, e as nat) <= u128::MAX as int,
    ensures r as int == br_ipow(b as int, e as nat);
pub assume_specification [u32::pow] (b: u32, e: u32) -> (r: u32)
    requires br_ipow(b as int, e as nat) <= u32::MAX as int,
    ensures r as int == br_ipow(b as int, e as nat);

pub proof fn lemma_br_ipow2(b: int)
    ensures br_ipow(b, 2) == b * b, br_ipow(b, 3) == b * b * b,
{
    reveal_with_fuel(br_ipow, 4);
    assert(b * (b * 1) == b * b) by (nonlinear_arith);
    assert(b * (b * (b * 1)) == b * b * b) by (nonlinear_arith);
}

/// 0 <= a <= b  ==>  a*a <= b*b;   a*a < b*b (a, b >= 0)  ==>  a < b
pub proof fn lemma_br_sq_mono(a: int, b: int)
    requires 0 <= a, 0 <= b,
    ensures a <= b ==> a * a <= b * b, a * a < b * b ==> a < b, a < b ==> a * a < b * b,
{
    if a <= b { assert(a * a <= b * b) by (nonlinear_arith) requires 0 <= a <= b; }
    if a >= b { assert(a * a >= b * b) by (nonlinear_arith) requires 0 <= b <= a; }
    if a < b { assert(a * a < b * b) by (nonlinear_arith) requires 0 <= a < b; }
}

pub proof fn lemma_br_sq_succ(s: int)
    ensures (s + 1) * (s + 1) == s * s + 2 * s + 1,
{
    assert((s + 1) * (s + 1) == s * s + 2 * s + 1) by (nonlinear_arith);
}

/// s*s <= n < p*p  ==>  s < p
pub proof fn lemma_br_root_lt(s: int, n: int, p: int)
    requires 0 <= s, 0 <= p, s * s <= n, n < p * p,
    ensures s < p,
{
    lemma_br_sq_mono(s, p);
}

/// one turn of the correction loop `fix_sqrt_error`: e + s*s == n, e >= 2s + 1  ==>  (e - (2s+1)) + (s+1)*(s+1) == n
pub proof fn lemma_br_fix_step(n: int, s: int, e: int)
    requires e + s * s == n, e >= 2 * s + 1, s >= 0,
    ensures (e - (2 * s + 1)) + (s + 1) * (s + 1) == n, (s + 1) * (s + 1) <= n,
{
    lemma_br_sq_succ(s);
}

// ---- Newton step of <u64 as NormalizedRootRem>::normalized_sqrt_rem (step 5) -------------------------------------------------

/// n = n32 * P + lo (P = 2^32); for the class n32 the estimate s0 and reciprocal r are fixed; e = n - s0^2; the step adds
/// floor(floor(e / P) * r / P).  floor(e / P) takes the two values eh, eh + 1 (e0 = n32 * P - s0^2 = eh * P + fr), the second one
/// exactly for lo >= P - fr: the class-wise facts (sa, sb) therefore cover every n of the class.
pub proof fn lemma_br_sq64_newton(n32: int, lo: int, s0: int, r: int, e0: int, eh: int, fr: int, sa: int, sb: int)
    requires 0 <= lo < 0x1_0000_0000, 0 <= s0, 0 <= r, e0 == n32 * 0x1_0000_0000 - s0 * s0, e0 >= 0,
        eh == e0 / 0x1_0000_0000, fr == e0 % 0x1_0000_0000,
        sa == s0 + (eh * r) / 0x1_0000_0000, sa < 0x1_0000_0000, sa * sa <= n32 * 0x1_0000_0000,
        fr > 0 ==> sb == s0 + ((eh + 1) * r) / 0x1_0000_0000 && sb < 0x1_0000_0000 && sb * sb <= n32 * 0x1_0000_0000 + 0x1_0000_0000 - fr,
    ensures ({
        let n = n32 * 0x1_0000_0000 + lo;
        let e = n - s0 * s0;
        let s = s0 + ((e / 0x1_0000_0000) * r) / 0x1_0000_0000;
        e >= 0 && 0 <= e / 0x1_0000_0000 && s < 0x1_0000_0000 && s * s <= n && s >= s0
    }),
{
    let p = 0x1_0000_0000int;
    let n = n32 * p + lo;
    let e = n - s0 * s0;
    assert(e == e0 + lo);
    vstd::arithmetic::div_mod::lemma_fundamental_div_mod(e0, p);
    vstd::arithmetic::div_mod::lemma_mod_bound(e0, p);
    assert(e0 == p * eh + fr);
    assert(eh >= 0) by (nonlinear_arith) requires e0 == p * eh + fr, e0 >= 0, 0 <= fr < p, p == 0x1_0000_0000int;
    assert(eh * r >= 0) by (nonlinear_arith) requires eh >= 0, r >= 0;
    assert((eh + 1) * r >= 0) by (nonlinear_arith) requires eh >= 0, r >= 0;
    vstd::arithmetic::div_mod::lemma_div_pos_is_pos(eh * r, p);
    vstd::arithmetic::div_mod::lemma_div_pos_is_pos((eh + 1) * r, p);
    if fr + lo < p {
        vstd::arithmetic::div_mod::lemma_fundamental_div_mod_converse(e, p, eh, fr + lo);
        assert(e / p == eh);
    } else {
        vstd::arithmetic::div_mod::lemma_fundamental_div_mod_converse(e, p, eh + 1, fr + lo - p);
        assert(e / p == eh + 1);
        assert(fr > 0);
    }
}

// ---- Karatsuba step of <u128 as NormalizedRootRem>::normalized_sqrt_rem ----------------------------------------------------------

/// the identity behind the step (P = 2^32): n = a*P^2 + b1*P + b0, a = s1^2 + r1, r1*P + b1 = 2*r0 + beta, r0 = q*s1 + u, s = s1*P + q
///   ==>  n = s^2 + ((2u + beta)*P + b0 - q^2)
pub proof fn lemma_br_kara_identity(n: int, a: int, b1: int, b0: int, s1: int, r1: int, r0: int, beta: int, q: int, u: int, p: int, s: int)
    requires n == a * (p * p) + b1 * p + b0, a == s1 * s1 + r1, r1 * p + b1 == 2 * r0 + beta, r0 == q * s1 + u, s == s1 * p + q,
    ensures n == s * s + ((2 * u + beta) * p + b0 - q * q),
{
    assert((s1 * p + q) * (s1 * p + q) == (s1 * s1) * (p * p) + (2 * (q * s1)) * p + q * q) by (nonlinear_arith);
    assert((s1 * s1 + r1) * (p * p) == (s1 * s1) * (p * p) + (r1 * p) * p) by (nonlinear_arith);
    assert((r1 * p + b1) * p == (r1 * p) * p + b1 * p) by (nonlinear_arith);
    assert((2 * (q * s1 + u) + beta) * p == (2 * (q * s1)) * p + (2 * u + beta) * p) by (nonlinear_arith);
}

/// the quotient of the step is at most P, and q == P forces r1 == 2*s1 (then u < P/2)
pub proof fn lemma_br_kara_q(r1: int, r0: int, bh: int, s1: int, q: int, u: int, p: int, ph: int)
    requires p == 2 * ph, ph >= 1, r0 == r1 * ph + bh, 0 <= bh < ph, 0 <= r1 <= 2 * s1, s1 >= ph, r0 == q * s1 + u, 0 <= u < s1, q >= 0,
    ensures q <= p, q == p ==> r1 == 2 * s1 && u == bh,
{
    assert(r1 * ph <= (2 * s1) * ph) by (nonlinear_arith) requires r1 <= 2 * s1, ph >= 1;
    assert((2 * s1) * ph == p * s1) by (nonlinear_arith) requires p == 2 * ph;
    if q >= p + 1 {
        assert(q * s1 >= (p + 1) * s1) by (nonlinear_arith) requires q >= p + 1, s1 >= 0;
        assert((p + 1) * s1 == p * s1 + s1) by (nonlinear_arith);
        assert(false);
    }
    if q == p {
        if r1 <= 2 * s1 - 1 {
            assert(r1 * ph <= (2 * s1 - 1) * ph) by (nonlinear_arith) requires r1 <= 2 * s1 - 1, ph >= 1;
            assert((2 * s1 - 1) * ph == p * s1 - ph) by (nonlinear_arith) requires p == 2 * ph;
            assert(false);
        }
        assert(r1 * ph == p * s1);
        assert(q * s1 == p * s1);
    }
}

/// bounds of the tentative remainder R = (2u + beta)*P + b0 - q^2 after the (q, u) adjustment: R <= 2s and R + 2s - 1 >= 0
///   plain:   0 <= u < s1, q < P
///   adjusted (q was P): q == P - 1, u == u' + s1 with u' < P/2
pub proof fn lemma_br_kara_bounds(s1: int, q: int, u: int, beta: int, b0: int, p: int, ph: int, s: int, adjusted: bool, uo: int)
    requires p == 2 * ph, ph >= 1, ph <= s1 < p, 0 <= beta <= 1, 0 <= b0 < p, s == s1 * p + q,
        !adjusted ==> 0 <= u < s1 && 0 <= q < p,
        adjusted ==> q == p - 1 && u == uo + s1 && 0 <= uo < ph,
    ensures (2 * u + beta) * p + b0 - q * q <= 2 * s, (2 * u + beta) * p + b0 - q * q + 2 * s - 1 >= 0,
{
    let rr = (2 * u + beta) * p + b0 - q * q;
    if !adjusted {
        assert((2 * u + beta) * p <= (2 * s1 - 1) * p) by (nonlinear_arith) requires 2 * u + beta <= 2 * s1 - 1, p >= 1;
        assert((2 * s1 - 1) * p == 2 * (s1 * p) - p) by (nonlinear_arith);
        assert(q * q >= 0) by (nonlinear_arith);
        assert(rr <= 2 * s);
        assert((2 * u + beta) * p >= 0) by (nonlinear_arith) requires u >= 0, beta >= 0, p >= 1;
        assert(q * q <= (p - 1) * (p - 1)) by (nonlinear_arith) requires 0 <= q <= p - 1;
        assert((p - 1) * (p - 1) == p * p - 2 * p + 1) by (nonlinear_arith);
        assert(2 * (s1 * p) >= p * p) by (nonlinear_arith) requires 2 * s1 >= p, p >= 1;
        assert(rr + 2 * s - 1 >= 0);
    } else {
        assert((2 * (uo + s1) + beta) * p == 2 * (s1 * p) + (2 * uo + beta) * p) by (nonlinear_arith);
        assert((2 * uo + beta) * p <= (p - 1) * p) by (nonlinear_arith) requires 2 * uo + beta <= p - 1, p >= 1;
        assert((p - 1) * (p - 1) == p * p - 2 * p + 1) by (nonlinear_arith);
        assert((p - 1) * p == p * p - p) by (nonlinear_arith);
        assert(rr <= 2 * s);
        assert((2 * uo + beta) * p >= 0) by (nonlinear_arith) requires uo >= 0, beta >= 0, p >= 1;
        assert(2 * (s1 * p) >= p * p) by (nonlinear_arith) requires 2 * s1 >= p, p >= 1;
        assert(rr + 2 * s - 1 >= 0);
    }
}

/// one correction step: (s - 1)^2 + (R + 2s - 1) == s^2 + R
pub proof fn lemma_br_kara_correct(s: int, r: int)
    ensures (s - 1) * (s - 1) + (r + 2 * s - 1) == s * s + r,
{
    assert((s - 1) * (s - 1) == s * s - 2 * s + 1) by (nonlinear_arith);
}

/// a == s1^2 + r1, r1 <= 2 s1, T^2 <= a < (2T)^2  ==>  T <= s1 < 2T
pub proof fn lemma_br_kara_s1_range(a: int, s1: int, r1: int, t: int)
    requires a == s1 * s1 + r1, 0 <= r1 <= 2 * s1, 0 <= s1, t >= 1, a >= t * t, a < (2 * t) * (2 * t),
    ensures t <= s1 < 2 * t,
{
    if s1 <= t - 1 {
        lemma_br_sq_succ(s1);
        lemma_br_sq_mono(s1 + 1, t);
        assert(false);
    }
    if s1 >= 2 * t {
        lemma_br_sq_mono(2 * t, s1);
        assert(false);
    }
}

// ---- the public wrappers: normalisation by an even shift ---------------------------------------------------------------------

/// root of x from the root of xs == x * 4^k:  rs^2 <= xs < (rs+1)^2, rt == rs div 2^k  ==>  rt^2 <= x < (rt+1)^2
pub proof fn lemma_br_sqrt_unshift(x: int, xs: int, k: nat, rs: int, rt: int)
    requires x >= 0, xs == x * (pow2(k) * pow2(k)), rs >= 0, rs * rs <= xs, xs < (rs + 1) * (rs + 1), rt == rs / (pow2(k) as int),
    ensures rt >= 0, rt * rt <= x, x < (rt + 1) * (rt + 1),
{
    vstd::arithmetic::power2::lemma_pow2_pos(k);
    let p = pow2(k) as int;
    vstd::arithmetic::div_mod::lemma_fundamental_div_mod(rs, p);
    vstd::arithmetic::div_mod::lemma_mod_bound(rs, p);
    vstd::arithmetic::div_mod::lemma_div_pos_is_pos(rs, p);
    let rho = rs % p;
    assert(rs == p * rt + rho);
    let lo = rt * p;
    assert(p * rt == rt * p) by (nonlinear_arith);
    // (rt p)^2 <= rs^2 <= x p^2
    assert(lo >= 0) by (nonlinear_arith) requires rt >= 0, p >= 1, lo == rt * p;
    lemma_br_sq_mono(lo, rs);
    let pp = p * p;
    assert(pp >= 1) by (nonlinear_arith) requires p >= 1, pp == p * p;
    assert(xs == x * pp) by (nonlinear_arith) requires xs == x * (pow2(k) * pow2(k)), p == pow2(k), pp == p * p;
    let a2 = rt * rt;
    assert(lo * lo == a2 * pp) by (nonlinear_arith) requires lo == rt * p, pp == p * p, a2 == rt * rt;
    assert(a2 * pp <= x * pp);
    assert(a2 <= x) by (nonlinear_arith) requires a2 * pp <= x * pp, pp >= 1;
    // x p^2 < (rs+1)^2 <= ((rt+1) p)^2
    let hi = (rt + 1) * p;
    assert(hi == rt * p + p) by (nonlinear_arith) requires hi == (rt + 1) * p;
    assert(rs + 1 <= hi);
    lemma_br_sq_mono(rs + 1, hi);
    let b2 = (rt + 1) * (rt + 1);
    assert(hi * hi == b2 * pp) by (nonlinear_arith) requires hi == (rt + 1) * p, pp == p * p, b2 == (rt + 1) * (rt + 1);
    assert(x * pp < b2 * pp);
    assert(x < b2) by (nonlinear_arith) requires x * pp < b2 * pp, pp >= 1;
}

/// 2^(2k) == 2^k * 2^k
pub proof fn lemma_br_pow2_double(k: nat)
    ensures pow2(2 * k) == pow2(k) * pow2(k),
{
    vstd::arithmetic::power2::lemma_pow2_adds(k, k);
}

pub proof fn lemma_br_pow2_mono(a: nat, b: nat)
    requires a <= b,
    ensures pow2(a) <= pow2(b), pow2(a) >= 1,
{
    vstd::arithmetic::power2::lemma_pow2_pos(a);
    if a < b { vstd::arithmetic::power2::lemma_pow2_strictly_increases(a, b); }
}

/// x in [2^(m-1), 2^m) scaled by 2^sh with m + sh == w or w - 1:  x * 2^sh in [2^(w-2), 2^w)
pub proof fn lemma_br_norm_range(x: int, m: nat, sh: nat, w: nat)
    requires m >= 1, pow2((m - 1) as nat) <= x < pow2(m), w >= 2, m + sh == w || m + sh + 1 == w,
    ensures pow2((w - 2) as nat) <= x * pow2(sh) < pow2(w),
{
    vstd::arithmetic::power2::lemma_pow2_pos(sh);
    vstd::arithmetic::power2::lemma_pow2_adds((m - 1) as nat, sh);
    vstd::arithmetic::power2::lemma_pow2_adds(m, sh);
    let p = pow2(sh) as int;
    assert(pow2((m - 1) as nat) * p <= x * p) by (nonlinear_arith) requires pow2((m - 1) as nat) <= x, p >= 1;
    assert(x * p < pow2(m) * p) by (nonlinear_arith) requires x < pow2(m), p >= 1;
    lemma_br_pow2_mono((w - 2) as nat, (m - 1 + sh) as nat);
    lemma_br_pow2_mono((m + sh) as nat, w);
}

/// 2^(BITS/2) for the value range of the operand type (used by the correction loop: the root of an n < cap^2 is below cap)
pub open spec fn br_half_cap(n: int) -> int {
    if n < 0x1_0000 { 0x100 } else if n < 0x1_0000_0000 { 0x1_0000 } else if n < 0x1_0000_0000_0000_0000 { 0x1_0000_0000 } else { 0x1_0000_0000_0000_0000 }
}
pub open spec fn wmul32_hi_spec(a: u32, b: u32) -> u32 { (((a as int) * (b as int)) / 0x1_0000_0000) as u32 }

/// n >= 2^62  ==>  leading_zeros(n) <= 1
pub proof fn lemma_br_norm_lz64(n: u64)
    requires n >= 0x4000_0000_0000_0000,
    ensures vstd::std_specs::bits::u64_leading_zeros(n) <= 1,
{
    vstd::std_specs::bits::axiom_u64_leading_zeros(n);
    let z = vstd::std_specs::bits::u64_leading_zeros(n);
    if z >= 2 {
        let zz = z as u64;
        let up = (64 - z) as u64;
        assert(sub(64u64, zz) == up);
        assert(n >> up == 0);
        assert(false) by (bit_vector) requires n >> up == 0, up <= 62, n >= 0x4000_0000_0000_0000u64;
    }
}

// ---- machine-word facts of the u128 Karatsuba step (bit_vector; no overflow inside any stated product) -----------------------------

/// n = a * 2^64 + b with a = n >> 64, b = n & u64::MAX
pub proof fn lemma_br_kara_split(n: u128, hi: u128, lo: u128)
    requires hi == n >> 64u32, lo == n & 0xffff_ffff_ffff_ffffu128,
    ensures hi <= 0xffff_ffff_ffff_ffff, lo <= 0xffff_ffff_ffff_ffff, n as int == (hi as int) * 0x1_0000_0000_0000_0000 + lo as int,
        n >= 0x4000_0000_0000_0000_0000_0000_0000_0000 ==> hi >= 0x4000_0000_0000_0000,
{
    assert(hi <= 0xffff_ffff_ffff_ffffu128 && lo <= 0xffff_ffff_ffff_ffffu128 && hi == n / 0x1_0000_0000_0000_0000u128
           && lo == n % 0x1_0000_0000_0000_0000u128) by (bit_vector)
        requires hi == n >> 64u32, lo == n & 0xffff_ffff_ffff_ffffu128;
    vstd::arithmetic::div_mod::lemma_fundamental_div_mod(n as int, 0x1_0000_0000_0000_0000);
    assert(0x1_0000_0000_0000_0000 * (hi as int) == (hi as int) * 0x1_0000_0000_0000_0000);
    if n >= 0x4000_0000_0000_0000_0000_0000_0000_0000 {
        assert(hi >= 0x4000_0000_0000_0000u128) by (bit_vector)
            requires hi == n >> 64u32, n >= 0x4000_0000_0000_0000_0000_0000_0000_0000u128;
    }
}

/// r0 = r1 << 31 | b >> 33 = r1 * 2^31 + bh,  b = (2 bh + beta) * 2^32 + b0
pub proof fn lemma_br_kara_r0(r1: u64, b: u64, r0: u64)
    requires r1 <= 0x1_ffff_fffe, r0 == r1 << 31u32 | b >> 33u32,
    ensures r0 as int == (r1 as int) * 0x8000_0000 + (b as int) / 0x2_0000_0000,
        0 <= (b as int) / 0x2_0000_0000 < 0x8000_0000,
        b as int == (2 * ((b as int) / 0x2_0000_0000) + ((b as int) / 0x1_0000_0000) % 2) * 0x1_0000_0000 + (b as int) % 0x1_0000_0000,
        (b as int) % 0x2_0000_0000 == (((b as int) / 0x1_0000_0000) % 2) * 0x1_0000_0000 + (b as int) % 0x1_0000_0000,
{
    let bh = b >> 33u32;
    assert(r0 == r1 * 0x8000_0000 + bh && bh == b / 0x2_0000_0000 && bh < 0x8000_0000) by (bit_vector)
        requires r1 <= 0x1_ffff_fffeu64, r0 == r1 << 31u32 | b >> 33u32, bh == b >> 33u32;
    let bi = b as int;
    vstd::arithmetic::div_mod::lemma_fundamental_div_mod(bi, 0x2_0000_0000);
    vstd::arithmetic::div_mod::lemma_fundamental_div_mod(bi, 0x1_0000_0000);
    vstd::arithmetic::div_mod::lemma_div_denominator(bi, 0x1_0000_0000, 2);
    vstd::arithmetic::div_mod::lemma_fundamental_div_mod(bi / 0x1_0000_0000, 2);
}

/// s = s1 << 32 | q,   r = (u << 33) | (b & (2^33 - 1)) with the bits shifted out of u,   the final double word
pub proof fn lemma_br_kara_words(s1: u64, q: u64, u: u64, b: u64, s: u64, r: u64, msk: u64)
    requires s1 <= 0xffff_ffff, q <= 0xffff_ffff, u <= 0x1_ffff_ffff, s == s1 << 32u32 | q, msk == sub((1u64 << 33u32), 1),
        r == (u << 33u32) | (b & msk),
    ensures s as int == (s1 as int) * 0x1_0000_0000 + q as int,
        0 <= (u >> 31u32) <= 3,
        ((u >> 31u32) as int) * 0x1_0000_0000_0000_0000 + r as int == (u as int) * 0x2_0000_0000 + (b as int) % 0x2_0000_0000,
        ((q >> 32u32) > 0) == (q as int >= 0x1_0000_0000),
{
    assert(s == s1 * 0x1_0000_0000 + q) by (bit_vector) requires s1 <= 0xffff_ffffu64, q <= 0xffff_ffffu64, s == s1 << 32u32 | q;
    let c = u >> 31u32;
    let bl = b & msk;
    assert(c <= 3 && bl == b % 0x2_0000_0000 && (c as u128) * 0x1_0000_0000_0000_0000 + (r as u128) == (u as u128) * 0x2_0000_0000 + (bl as u128)) by (bit_vector)
        requires u <= 0x1_ffff_ffffu64, msk == sub((1u64 << 33u32), 1), r == (u << 33u32) | (b & msk), c == u >> 31u32, bl == b & msk;
    assert(((q >> 32u32) > 0) == (q >= 0x1_0000_0000)) by (bit_vector);
}

pub proof fn lemma_br_kara_q_hi(q: u64)
    ensures ((q >> 32u32) > 0) == (q as int >= 0x1_0000_0000),
{
    assert(((q >> 32u32) > 0) == (q >= 0x1_0000_0000)) by (bit_vector);
}

pub proof fn lemma_br_kara_final(c: u128, r: u64)
    requires c <= 1,
    ensures (c << 64u32 | r as u128) as int == (c as int) * 0x1_0000_0000_0000_0000 + r as int,
{
    assert((c << 64u32 | r as u128) == c * 0x1_0000_0000_0000_0000 + r as u128) by (bit_vector) requires c <= 1;
}

/// n >= 2^126  ==>  leading_zeros(n) <= 1
pub proof fn lemma_br_norm_lz128(n: u128)
    requires n >= 0x4000_0000_0000_0000_0000_0000_0000_0000,
    ensures dd_lz(n) <= 1,
{
    axiom_dd_lz(n);
    let z = dd_lz(n);
    if z >= 2 {
        let up = (128 - z) as u128;
        assert(n >> up == 0);
        assert(false) by (bit_vector) requires n >> up == 0, up <= 126, n >= 0x4000_0000_0000_0000_0000_0000_0000_0000u128;
    }
}

/// the normalising shift of sqrt_rem / sqrt: x in [2^(w-1-z), 2^(w-z)), sh even, sh <= z <= sh + 1:
///   x * 2^sh in [2^(w-2), 2^w)  and  2^sh == 2^(sh/2) * 2^(sh/2)
pub proof fn lemma_br_sqrt_norm(x: int, z: nat, sh: nat, w: nat)
    requires w >= 2, z < w, pow2((w - 1 - z) as nat) <= x < pow2((w - z) as nat), sh % 2 == 0, sh <= z <= sh + 1,
    ensures pow2((w - 2) as nat) <= x * pow2(sh) < pow2(w), pow2(sh) == pow2(sh / 2) * pow2(sh / 2), x * pow2(sh) == x * (pow2(sh / 2) * pow2(sh / 2)),
{
    lemma_br_norm_range(x, (w - z) as nat, sh, w);
    lemma_br_pow2_double(sh / 2);
    assert(2 * (sh / 2) == sh);
}

/// rs^2 + rm == xs, rm <= 2 rs  ==>  rs^2 <= xs < (rs+1)^2;  and back
pub proof fn lemma_br_sqrt_rem_iff(xs: int, rs: int, rm: int)
    requires rs >= 0, rs * rs + rm == xs,
    ensures (0 <= rm <= 2 * rs) == (rs * rs <= xs && xs < (rs + 1) * (rs + 1)),
{
    lemma_br_sq_succ(rs);
}
pub open spec fn wmul16_hi_spec(a: u16, b: u16) -> u16 { (((a as int) * (b as int)) / 0x1_0000) as u16 }

/// n >= 2^30  ==>  leading_zeros(n) <= 1
pub proof fn lemma_br_norm_lz32(n: u32)
    requires n >= 0x4000_0000,
    ensures vstd::std_specs::bits::u32_leading_zeros(n) <= 1,
{
    vstd::std_specs::bits::axiom_u32_leading_zeros(n);
    let z = vstd::std_specs::bits::u32_leading_zeros(n);
    if z >= 2 {
        let zz = z as u32;
        let up = (32 - z) as u32;
        assert(sub(32u32, zz) == up);
        assert(n >> up == 0);
        assert(false) by (bit_vector) requires n >> up == 0, up <= 30, n >= 0x4000_0000u32;
    }
}
