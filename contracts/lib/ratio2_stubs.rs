// ---- ratio2_stubs.rs: more of dashu-int / dashu-base as seen from dashu-ratio (extends lib/bigstub.rs, which must be
// included first together with lib/ratio_lemmas.rs).  Every external_body item is a TRUSTED ASSUMPTION stating what
// the real operator does on the mathematical value `v()`; nothing here is verified against integer/src.
pub mod ratio2_stubs {
use super::*;
use vstd::std_specs::ops::*;
use vstd::std_specs::convert::*;
use core::ops::{Add, Sub, Mul, Div, Rem, Neg};
use core::cmp::Ordering;

// truncating remainder: sign of the dividend (divisor > 0)
pub open spec fn trem(a: int, b: int) -> int { a - tdiv(a, b) * b }
// Euclidean remainder / quotient for any non-zero divisor: x == ediv(x,y)*y + erem(x,y), 0 <= erem(x,y) < |y|
pub open spec fn erem(x: int, y: int) -> int { x % rabs(y) }
pub open spec fn ediv(x: int, y: int) -> int { if y > 0 { x / y } else { -(x / (-y)) } }

// TRUSTED (integer/src/div_ops.rs impl_ibig_rem, forward_ibig_ubig_binop_to_repr): IBig % &UBig is the remainder of the
// truncating division (sign of the dividend); a zero divisor panics (rem_req)
impl<'b> RemSpecImpl<&'b UBig> for IBig {
    open spec fn obeys_rem_spec() -> bool { true }
    open spec fn rem_req(self, rhs: &'b UBig) -> bool { rhs.v() != 0 }
    open spec fn rem_spec(self, rhs: &'b UBig) -> IBig { ibig_of(trem(self.v(), rhs.v())) }
}
impl<'b> Rem<&'b UBig> for IBig { type Output = IBig;
    #[verifier::external_body]
    fn rem(self, rhs: &'b UBig) -> IBig { unimplemented!() }
}
// TRUSTED (integer/src/add_ops.rs): UBig - &UBig is the exact difference; a negative result panics (sub_req)
impl<'b> SubSpecImpl<&'b UBig> for UBig {
    open spec fn obeys_sub_spec() -> bool { true }
    open spec fn sub_req(self, rhs: &'b UBig) -> bool { self.v() >= rhs.v() }
    open spec fn sub_spec(self, rhs: &'b UBig) -> UBig { ubig_of(self.v() - rhs.v()) }
}
impl<'b> Sub<&'b UBig> for UBig { type Output = UBig;
    #[verifier::external_body]
    fn sub(self, rhs: &'b UBig) -> UBig { unimplemented!() }
}
// (the by-value form also exists in the real API; with a single `Sub` impl for UBig this Verus build crashes on the
// operator form `x - &y`: "codegen_select_candidate failed", probed)
impl SubSpecImpl<UBig> for UBig {
    open spec fn obeys_sub_spec() -> bool { true }
    open spec fn sub_req(self, rhs: UBig) -> bool { self.v() >= rhs.v() }
    open spec fn sub_spec(self, rhs: UBig) -> UBig { ubig_of(self.v() - rhs.v()) }
}
impl Sub<UBig> for UBig { type Output = UBig;
    #[verifier::external_body]
    fn sub(self, rhs: UBig) -> UBig { unimplemented!() }
}
// TRUSTED (integer/src/add_ops.rs forward_ibig_ubig / forward_ubig_ibig_binop_to_repr): mixed-sign + and - are exact,
// the result is an IBig (never panics)
impl AddSpecImpl<UBig> for IBig {
    open spec fn obeys_add_spec() -> bool { true }
    open spec fn add_req(self, rhs: UBig) -> bool { true }
    open spec fn add_spec(self, rhs: UBig) -> IBig { ibig_of(self.v() + rhs.v()) }
}
impl Add<UBig> for IBig { type Output = IBig;
    #[verifier::external_body]
    fn add(self, rhs: UBig) -> IBig { unimplemented!() }
}
impl SubSpecImpl<UBig> for IBig {
    open spec fn obeys_sub_spec() -> bool { true }
    open spec fn sub_req(self, rhs: UBig) -> bool { true }
    open spec fn sub_spec(self, rhs: UBig) -> IBig { ibig_of(self.v() - rhs.v()) }
}
impl Sub<UBig> for IBig { type Output = IBig;
    #[verifier::external_body]
    fn sub(self, rhs: UBig) -> IBig { unimplemented!() }
}
impl SubSpecImpl<IBig> for UBig {
    open spec fn obeys_sub_spec() -> bool { true }
    open spec fn sub_req(self, rhs: IBig) -> bool { true }
    open spec fn sub_spec(self, rhs: IBig) -> IBig { ibig_of(self.v() - rhs.v()) }
}
impl Sub<IBig> for UBig { type Output = IBig;
    #[verifier::external_body]
    fn sub(self, rhs: IBig) -> IBig { unimplemented!() }
}
// TRUSTED (integer/src/sign.rs `impl Mul<Sign> for UBig`): attaches the sign, result IBig
impl MulSpecImpl<Sign> for UBig {
    open spec fn obeys_mul_spec() -> bool { true }
    open spec fn mul_req(self, rhs: Sign) -> bool { true }
    open spec fn mul_spec(self, rhs: Sign) -> IBig { ibig_of(self.v() * sgn(rhs)) }
}
impl Mul<Sign> for UBig { type Output = IBig;
    #[verifier::external_body]
    fn mul(self, rhs: Sign) -> IBig { unimplemented!() }
}
// TRUSTED (integer/src/convert.rs): From<UBig> for IBig keeps the value
impl FromSpecImpl<UBig> for IBig {
    open spec fn obeys_from_spec() -> bool { true }
    open spec fn from_spec(u: UBig) -> IBig { ibig_of(u.v()) }
}
impl From<UBig> for IBig {
    #[verifier::external_body]
    fn from(u: UBig) -> IBig { unimplemented!() }
}

// TRUSTED (core::convert `impl<T> From<T> for T`): `.into()` from a type to itself is the identity; used by
// `let (q, r) = left.div_rem_euclid(right).into();` in rational/src/div.rs
#[verifier::external_body]
pub proof fn ax_from_self_pair()
    ensures <(IBig, UBig) as FromSpec<(IBig, UBig)>>::obeys_from_spec(),
        forall|x: (IBig, UBig)| #[trigger] <(IBig, UBig) as FromSpec<(IBig, UBig)>>::from_spec(x) == x
{}

// dashu_base::{DivEuclid, RemEuclid, DivRemEuclid} (traits mirrored from base/src/ring/mod.rs).
// TRUSTED (integer/src/div_ops.rs impl_ibig_{div,rem,divrem}_euclid): for IBig operands x == q*y + r with
// 0 <= r < |y|; q is an IBig, r a UBig; a zero divisor panics (the *_req).
pub trait DivEuclid<Rhs = Self> {
    type Output;
    spec fn div_euclid_req(self, rhs: Rhs) -> bool;
    spec fn div_euclid_post(self, rhs: Rhs, r: Self::Output) -> bool;
    fn div_euclid(self, rhs: Rhs) -> (r: Self::Output) requires self.div_euclid_req(rhs) ensures self.div_euclid_post(rhs, r);
}
pub trait RemEuclid<Rhs = Self> {
    type Output;
    spec fn rem_euclid_req(self, rhs: Rhs) -> bool;
    spec fn rem_euclid_post(self, rhs: Rhs, r: Self::Output) -> bool;
    fn rem_euclid(self, rhs: Rhs) -> (r: Self::Output) requires self.rem_euclid_req(rhs) ensures self.rem_euclid_post(rhs, r);
}
pub trait DivRemEuclid<Rhs = Self> {
    type OutputDiv;
    type OutputRem;
    spec fn div_rem_euclid_req(self, rhs: Rhs) -> bool;
    spec fn div_rem_euclid_post(self, rhs: Rhs, r: (Self::OutputDiv, Self::OutputRem)) -> bool;
    fn div_rem_euclid(self, rhs: Rhs) -> (r: (Self::OutputDiv, Self::OutputRem))
        requires self.div_rem_euclid_req(rhs) ensures self.div_rem_euclid_post(rhs, r);
}
impl DivEuclid<IBig> for IBig {
    type Output = IBig;
    open spec fn div_euclid_req(self, rhs: IBig) -> bool { rhs.v() != 0 }
    open spec fn div_euclid_post(self, rhs: IBig, r: IBig) -> bool { r.v() == ediv(self.v(), rhs.v()) }
    #[verifier::external_body]
    fn div_euclid(self, rhs: IBig) -> (r: IBig) { unimplemented!() }
}
impl RemEuclid<IBig> for IBig {
    type Output = UBig;
    open spec fn rem_euclid_req(self, rhs: IBig) -> bool { rhs.v() != 0 }
    open spec fn rem_euclid_post(self, rhs: IBig, r: UBig) -> bool { r.v() == erem(self.v(), rhs.v()) }
    #[verifier::external_body]
    fn rem_euclid(self, rhs: IBig) -> (r: UBig) { unimplemented!() }
}
impl DivRemEuclid<IBig> for IBig {
    type OutputDiv = IBig;
    type OutputRem = UBig;
    open spec fn div_rem_euclid_req(self, rhs: IBig) -> bool { rhs.v() != 0 }
    open spec fn div_rem_euclid_post(self, rhs: IBig, r: (IBig, UBig)) -> bool {
        r.0.v() == ediv(self.v(), rhs.v()) && r.1.v() == erem(self.v(), rhs.v())
    }
    #[verifier::external_body]
    fn div_rem_euclid(self, rhs: IBig) -> (r: (IBig, UBig)) { unimplemented!() }
}

} // mod ratio2_stubs
pub use ratio2_stubs::*;
