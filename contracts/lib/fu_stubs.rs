// ---- fu_stubs.rs: what float/src/utils.rs `shr_ref`, `shr_digits`, `shl_digits`, `shl_digits_in_place`, `digit_len` call in
// dashu-int beyond round_int_stubs.rs / df_float_utils.rs.  Needs round_prelude.rs, round_int_stubs.rs, df_float_utils.rs.
//
// EVERY external_body contract below is a TRUSTED ASSUMPTION about dashu-int (value level), read off the real implementation:
//   &IBig << usize          shift_ops.rs `impl Shl<usize> for &IBig` (helper: sign kept, magnitude shl; repr-level << PROVED in
//                           unit int_shift_ops): value * 2^s
//   IBig <<= usize          shift_ops.rs `impl ShlAssign<usize> for IBig` (`*self = mem::take(self) << rhs`): value * 2^s
//   &IBig * IBig            mul_ops.rs forward_ibig_binop_to_repr!(impl Mul ..) (repr-level product PROVED in unit int_mul_ops):
//                           exact product
//   IBig *= IBig            mul_ops.rs `impl MulAssign<IBig> for IBig` (`*self = mem::take(self) * rhs`): exact product
//   IBig / IBig, &IBig / IBig   div_ops.rs forward_ibig_binop_to_repr!(impl Div, div, .. impl_ibig_div) (arm PROVED in unit
//                           int_div_sign): quotient truncated TOWARDS ZERO; a zero divisor panics (precondition)
//   &IBig >> usize          shift_ops.rs `impl Shr<usize> for &IBig` (two's complement: rounds towards -infinity; sign arm
//                           PROVED in unit int_bits_signed): floor(value / 2^s).  NOT used by the unchanged code: present so
//                           that a changed function that shifts a signed value right is judged by its contract.
//   IBig::ilog              log.rs:55 `self.as_sign_repr().1.log(base.repr()).0`: floor logarithm of the magnitude
//                           (TypedReprRef::log returns (log, base^log) with base^log <= |self| < base^(log+1); only log_dword is proved, unit int_log); "Panics if the
//                           number is 0, or the base is 0 or 1".  `r < usize::MAX`: base^r <= |self| < 2^bits and
//                           Buffer::MAX_CAPACITY = usize::MAX / WORD_BITS ("ensures that the number of bits fits in usize",
//                           buffer.rs:48) give r < bits <= usize::MAX - 63.

/// quotient truncated towards zero, by cases on the signs (Verus `/` on int is the floor quotient for a positive divisor)
pub open spec fn fu_tq(a: int, b: int) -> int {
    if a >= 0 { if b > 0 { a / b } else { -(a / (-b)) } } else { if b > 0 { -((-a) / b) } else { (-a) / (-b) } }
}
/// the matching remainder (sign of the dividend)
pub open spec fn fu_tr(a: int, b: int) -> int {
    if a >= 0 { if b > 0 { a % b } else { a % (-b) } } else { if b > 0 { -((-a) % b) } else { -((-a) % (-b)) } }
}
/// magnitude shifted right by s bits, sign kept: sign(v) * floor(|v| / 2^s)
pub open spec fn fu_tshr(v: int, s: nat) -> int { if v >= 0 { v / ipow(2, s) } else { -((-v) / ipow(2, s)) } }
/// k is the floor logarithm of |v| in base b: b^k <= |v| < b^(k+1)
pub open spec fn fu_ilog_is(b: int, v: int, k: nat) -> bool { ipow(b, k) <= iabs(v) && iabs(v) < ipow(b, k + 1) }

impl IBig {
    #[verifier::external_body]
    pub fn ilog(&self, base: &UBig) -> (r: usize)
        requires self.v() != 0, base.v() >= 2
        ensures fu_ilog_is(base.v(), self.v(), r as nat), r < usize::MAX
    { unimplemented!() }
}

impl<'a> Shl<usize> for &'a IBig { type Output = IBig; #[verifier::external_body] fn shl(self, rhs: usize) -> IBig { unimplemented!() } }
impl<'a> ShlSpecImpl<usize> for &'a IBig {
    open spec fn obeys_shl_spec() -> bool { true }
    open spec fn shl_req(self, rhs: usize) -> bool { true }
    open spec fn shl_spec(self, rhs: usize) -> IBig { ibig_of(self.v() * ipow(2, rhs as nat)) }
}
impl core::ops::ShlAssign<usize> for IBig {
    #[verifier::external_body]
    fn shl_assign(&mut self, rhs: usize) { unimplemented!() }
}
impl ShlAssignSpecImpl<usize> for IBig {
    open spec fn obeys_shl_assign_spec() -> bool { true }
    open spec fn shl_assign_req(&self, rhs: usize) -> bool { true }
    open spec fn shl_assign_spec(&self, rhs: usize) -> &IBig { &ibig_of(self.v() * ipow(2, rhs as nat)) }
}
impl<'a> Mul<IBig> for &'a IBig { type Output = IBig; #[verifier::external_body] fn mul(self, rhs: IBig) -> IBig { unimplemented!() } }
impl<'a> MulSpecImpl<IBig> for &'a IBig {
    open spec fn obeys_mul_spec() -> bool { true }
    open spec fn mul_req(self, rhs: IBig) -> bool { true }
    open spec fn mul_spec(self, rhs: IBig) -> IBig { ibig_of(self.v() * rhs.v()) }
}
impl core::ops::MulAssign<IBig> for IBig {
    #[verifier::external_body]
    fn mul_assign(&mut self, rhs: IBig) { unimplemented!() }
}
impl MulAssignSpecImpl<IBig> for IBig {
    open spec fn obeys_mul_assign_spec() -> bool { true }
    open spec fn mul_assign_req(&self, rhs: IBig) -> bool { true }
    open spec fn mul_assign_spec(&self, rhs: IBig) -> &IBig { &ibig_of(self.v() * rhs.v()) }
}
impl Div<IBig> for IBig { type Output = IBig; #[verifier::external_body] fn div(self, rhs: IBig) -> IBig { unimplemented!() } }
impl DivSpecImpl<IBig> for IBig {
    open spec fn obeys_div_spec() -> bool { true }
    open spec fn div_req(self, rhs: IBig) -> bool { rhs.v() != 0 }
    open spec fn div_spec(self, rhs: IBig) -> IBig { ibig_of(fu_tq(self.v(), rhs.v())) }
}
impl<'a> Div<IBig> for &'a IBig { type Output = IBig; #[verifier::external_body] fn div(self, rhs: IBig) -> IBig { unimplemented!() } }
impl<'a> DivSpecImpl<IBig> for &'a IBig {
    open spec fn obeys_div_spec() -> bool { true }
    open spec fn div_req(self, rhs: IBig) -> bool { rhs.v() != 0 }
    open spec fn div_spec(self, rhs: IBig) -> IBig { ibig_of(fu_tq(self.v(), rhs.v())) }
}
// (not used by the unchanged code, see the header)
impl<'a> Shr<usize> for &'a IBig { type Output = IBig; #[verifier::external_body] fn shr(self, rhs: usize) -> IBig { unimplemented!() } }
impl<'a> ShrSpecImpl<usize> for &'a IBig {
    open spec fn obeys_shr_spec() -> bool { true }
    open spec fn shr_req(self, rhs: usize) -> bool { true }
    open spec fn shr_spec(self, rhs: usize) -> IBig { ibig_of(self.v() / ipow(2, rhs as nat)) }
}
impl Shr<usize> for IBig { type Output = IBig; #[verifier::external_body] fn shr(self, rhs: usize) -> IBig { unimplemented!() } }
impl ShrSpecImpl<usize> for IBig {
    open spec fn obeys_shr_spec() -> bool { true }
    open spec fn shr_req(self, rhs: usize) -> bool { true }
    open spec fn shr_spec(self, rhs: usize) -> IBig { ibig_of(self.v() / ipow(2, rhs as nat)) }
}
