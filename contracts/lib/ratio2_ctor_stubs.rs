// ---- ratio2_ctor_stubs.rs: what the constructors of rational/src/rbig.rs need beyond lib/bigstub.rs, and the common-
// divisor vocabulary for the const gcd loop of RBig::from_parts_const.  Include after lib/ratio_lemmas.rs, lib/bigstub.rs,
// lib/ratio_types.rs.  Every external_body item is a TRUSTED ASSUMPTION.
pub mod ratio2_ctor_stubs {
use super::*;
pub type DoubleWord = u128;   // dashu_int::DoubleWord on 64-bit targets
impl IBig {
    // TRUSTED (integer/src/ibig.rs): `Repr::from_dword(dword).with_sign(sign)` (a zero magnitude is +0)
    #[verifier::external_body]
    pub fn from_parts_const(sign: Sign, dword: DoubleWord) -> (r: IBig) ensures r.v() == sgn(sign) * (dword as int) { unimplemented!() }
}
impl UBig {
    // TRUSTED (integer/src/ubig.rs)
    #[verifier::external_body]
    pub fn from_dword(dword: DoubleWord) -> (r: UBig) ensures r.v() == dword as int { unimplemented!() }
}
impl RBig {
    // TRUSTED: rational/src/rbig.rs `pub const ZERO: Self = Self(Repr::zero());` (Repr::zero is proved in unit ratio_reduce)
    #[verifier::external_body]
    pub exec const ZERO: RBig ensures Self::ZERO.0.numerator.v() == 0, Self::ZERO.0.denominator.v() == 1 { RBig(Repr { numerator: IBig::ZERO, denominator: UBig::ONE }) }
}
impl Relaxed {
    #[verifier::external_body]
    pub exec const ZERO: Relaxed ensures Self::ZERO.0.numerator.v() == 0, Self::ZERO.0.denominator.v() == 1 { Relaxed(Repr { numerator: IBig::ZERO, denominator: UBig::ONE }) }
}

// TRUSTED (core): u128::trailing_zeros -- 128 for zero, otherwise the low r bits are zero (2^r divides n); maximality is
// not needed here
pub assume_specification [u128::trailing_zeros] (n: u128) -> (r: u32)
    ensures n == 0 ==> r == 128, n != 0 ==> r < 128 && (n as int) % (pow2(r as nat) as int) == 0;
pub proof fn lemma_shr128_is_div(x: u128, z: u32)
    requires z < 128
    ensures (x >> z) as int == (x as int) / (pow2(z as nat) as int)
{
    vstd::bits::lemma_u128_shr_is_div(x, z as u128);
    assert(x >> z == x >> (z as u128)) by (bit_vector);
}

// e divides both x and y
pub open spec fn cdiv(e: int, x: int, y: int) -> bool { divides(e, x) && divides(e, y) }
// (y, r) has the same common divisors as (n, d)
pub open spec fn same_cd(y: int, r: int, n: int, d: int) -> bool {
    forall|e: int| e > 0 ==> (#[trigger] cdiv(e, y, r) == cdiv(e, d, n))
}
// one Euclid step keeps the common divisors: (y, r) -> (r, y % r)
pub proof fn lemma_cd_step(e: int, y: int, r: int)
    requires e > 0, r > 0, y >= 0
    ensures cdiv(e, r, y % r) == cdiv(e, y, r)
{
    vstd::arithmetic::div_mod::lemma_fundamental_div_mod(y, r);
    let q = y / r;
    let m = y % r;
    assert(r * q == q * r) by (nonlinear_arith);
    if divides(e, r) && divides(e, m) {
        lemma_divides_lincomb(e, r, m, q);
    }
    if divides(e, y) && divides(e, r) {
        lemma_divides_lincomb(e, r, y, -q);
        assert((-q) * r + y == m) by (nonlinear_arith) requires y == q * r + m;
    }
}
pub proof fn lemma_same_cd_step(y: int, r: int, n: int, d: int)
    requires r > 0, y >= 0, same_cd(y, r, n, d)
    ensures same_cd(r, y % r, n, d)
{
    assert forall|e: int| e > 0 implies (#[trigger] cdiv(e, r, y % r) == cdiv(e, d, n)) by {
        lemma_cd_step(e, y, r);
        assert(cdiv(e, y, r) == cdiv(e, d, n));
    }
}
pub proof fn lemma_same_cd_init(n: int, d: int)
    requires d > 0, n >= 0
    ensures same_cd(d, n % d, n, d)
{
    assert forall|e: int| e > 0 implies (#[trigger] cdiv(e, d, n % d) == cdiv(e, d, n)) by {
        lemma_cd_step(e, n, d);
        assert(cdiv(e, n, d) == cdiv(e, d, n));
    }
}
// the loop ends with r == 0 (y is the gcd) or r == 1 (the gcd is 1)
pub proof fn lemma_same_cd_exit(y: int, r: int, n: int, d: int)
    requires y > 0, n > 0, d > 0, same_cd(y, r, n, d), r == 0 || r == 1
    ensures r == 0 ==> is_gcd(y, n, d), r == 1 ==> is_gcd(1, n, d)
{
    lemma_one_divides(n);
    lemma_one_divides(d);
    if r == 0 {
        lemma_divides_intro(y, 1, y);
        lemma_divides_intro(y, 0, 0);
        assert(cdiv(y, y, r));
        assert(cdiv(y, d, n));
        assert forall|e: int| e > 0 && #[trigger] divides(e, n) && divides(e, d) implies divides(e, y) by {
            assert(cdiv(e, d, n));
            assert(cdiv(e, y, r));
        }
    } else {
        assert forall|e: int| e > 0 && #[trigger] divides(e, n) && divides(e, d) implies divides(e, 1) by {
            assert(cdiv(e, d, n));
            assert(cdiv(e, y, r));
        }
    }
}
pub proof fn lemma_gcd_with_one(x: int)
    requires x >= 0
    ensures is_gcd(1, 1, x), is_gcd(1, x, 1)
{
    lemma_one_divides(x);
    lemma_one_divides(1);
}
} // mod ratio2_ctor_stubs
pub use ratio2_ctor_stubs::*;
