// ---- shared vocabulary of the multi-word division kernels (units int_div_ops, int_div_const, int_div_dc) --------------
// Needs lib/prelude.rs, lib/div_dword_stubs.rs (FastDivideNormalized2).

/// integer/src/memory.rs: scratch memory handed down to the divide-and-conquer branch / the multiplication. Opaque.
#[verifier::external_body]
pub struct Memory<'a> { _p: &'a u8 }

/// "rhs is normalized and fd is the reciprocal of its two top words": the precondition shared by the division kernels
pub open spec fn div_prepared(rhs: Seq<Word>, fd: FastDivideNormalized2) -> bool {
    rhs.len() >= 2 && fd.wf() && fd.divisor() == rhs[rhs.len() - 2] as int + (rhs[rhs.len() - 1] as int) * B()
}

/// the contract shared by every `div_rem_in_place` flavour (the one PROVED for simple::div_rem_in_place):
/// l1 = [a % b (n words), a / b], carry `ret` on top of the quotient.
/// Opaque: callers that only pass it on (the block loop of divide_conquer::div_rem_in_place) never see the non-linear
/// arithmetic; proofs that need the body say `reveal(div_post)`.
#[verifier::opaque]
pub open spec fn div_post(l0: Seq<Word>, l1: Seq<Word>, rhs: Seq<Word>, ret: bool) -> bool {
    let n = rhs.len() as int;
    let len = l0.len() as int;
    l1.len() == l0.len()
    && val(l0) == (val(l1.subrange(n, len)) + b2i(ret) * pw(len - n)) * val(rhs) + val(l1.subrange(0, n))
    && val(l1.subrange(0, n)) < val(rhs)
    && ret == (val(l0.subrange(len - n, len)) >= val(rhs))
}
