// ---- df_int_prim_stubs.rs: what the primitive-operand forwarding overloads of integer/src/div_ops.rs
// (`impl_divrem_with_primitive!`, `impl_div_by_primitive!`) and of integer/src/helper_macros.rs
// (`impl_binop_with_primitive!` arm 1, `impl_binop_assign_with_primitive!` arms 0 and 1, as instantiated for Div / Rem /
// DivAssign / DivRemAssign in div_ops.rs:261-285) see of the big-integer level.
//
// UBig / IBig are ABSTRACT (value v()).  EVERY contract in this file is a TRUSTED ASSUMPTION:
//   * big `/`, `%`, div_rem, `/=`, div_rem_assign between two UBig resp. two IBig in the operand forms used here: the
//     TRUNCATING quotient tdiv(a, b) and remainder trem(a, b) (for UBig: floor quotient / remainder); a zero divisor panics
//     (precondition).  The sign arms behind them are PROVED in unit int_div_sign, the Repr-level division in int_div_ops; the
//     forwarding macros forward_ubig/ibig_binop_to_repr!, impl_binop_assign_by_taking! themselves are not under contract.
//   * UBig::from(u64), IBig::from(i64), IBig::from(u64) (convert.rs): exact.
//   * TryFrom<UBig> for u64, TryFrom<IBig> for i64 / u64 (convert.rs): Ok(v) iff the value fits, else Err.
use core::ops::{Div, Rem, DivAssign};
use core::convert::{TryFrom, TryInto};
use vstd::std_specs::ops::*;
use vstd::std_specs::convert::*;

#[verifier::external_body]
pub struct UBig { _p: u8 }
#[verifier::external_body]
pub struct IBig { _p: u8 }
impl UBig { pub uninterp spec fn v(&self) -> int; }
impl IBig { pub uninterp spec fn v(&self) -> int; }
pub uninterp spec fn ubig_of(i: int) -> UBig;
pub uninterp spec fn ibig_of(i: int) -> IBig;
pub broadcast axiom fn ubig_of_v(i: int) requires i >= 0 ensures (#[trigger] ubig_of(i)).v() == i;
pub broadcast axiom fn ibig_of_v(i: int) ensures (#[trigger] ibig_of(i)).v() == i;
pub broadcast axiom fn ubig_nonneg(u: UBig) ensures #[trigger] u.v() >= 0;
pub broadcast group dp_axioms { ubig_of_v, ibig_of_v, ubig_nonneg }
// dashu_base::ConversionError (base/src/error.rs) -- transcription
#[derive(Clone, Copy, PartialEq, Eq, Debug)]
pub enum ConversionError { OutOfBounds, LossOfPrecision }

/// the mathematical value of an operand (primitive or big)
pub trait PrimVal { spec fn pv(&self) -> int; }
impl PrimVal for UBig { open spec fn pv(&self) -> int { self.v() } }
impl PrimVal for IBig { open spec fn pv(&self) -> int { self.v() } }
impl PrimVal for u64 { open spec fn pv(&self) -> int { *self as int } }
impl PrimVal for i64 { open spec fn pv(&self) -> int { *self as int } }

pub open spec fn iabs(x: int) -> int { if x >= 0 { x } else { -x } }
/// the property's own sentence for `/`, `%`, div_rem (C02): a == q*b + r, |r| < |b|, r == 0 or r has the sign of a
pub open spec fn trunc_ok(a: int, b: int, q: int, r: int) -> bool {
    a == q * b + r && iabs(r) < iabs(b) && (r == 0 || (r > 0 && a > 0) || (r < 0 && a < 0))
}
/// the same sentence for a remainder alone: b divides a - r (i.e. a == q*b + r for some q), |r| < |b|, sign of a
pub open spec fn trunc_rem_ok(a: int, b: int, r: int) -> bool {
    (a - r) % b == 0 && iabs(r) < iabs(b) && (r == 0 || (r > 0 && a > 0) || (r < 0 && a < 0))
}
/// truncating quotient / remainder as functions (what the big-integer operators return)
pub open spec fn tdiv(a: int, b: int) -> int { if (a >= 0) == (b > 0) { iabs(a) / iabs(b) } else { -(iabs(a) / iabs(b)) } }
pub open spec fn trem(a: int, b: int) -> int { if a >= 0 { iabs(a) % iabs(b) } else { -(iabs(a) % iabs(b)) } }

pub proof fn lemma_dp_trunc(a: int, b: int)
    requires b != 0
    ensures trunc_ok(a, b, tdiv(a, b), trem(a, b)), iabs(tdiv(a, b)) <= iabs(a), iabs(trem(a, b)) < iabs(b),
        a - tdiv(a, b) * b == trem(a, b),
        a >= 0 && b > 0 ==> tdiv(a, b) >= 0 && trem(a, b) >= 0,
        trunc_rem_ok(a, b, trem(a, b)),
{
    lemma_dp_mult_mod0(tdiv(a, b), b);
    let (x, y) = (iabs(a), iabs(b));
    vstd::arithmetic::div_mod::lemma_fundamental_div_mod(x, y);
    vstd::arithmetic::div_mod::lemma_mod_pos_bound(x, y);
    vstd::arithmetic::div_mod::lemma_div_pos_is_pos(x, y);
    let (q0, r0) = (x / y, x % y);
    assert(q0 <= x) by (nonlinear_arith) requires x == y * q0 + r0, y >= 1, q0 >= 0, r0 >= 0;
    let (q, r) = (tdiv(a, b), trem(a, b));
    assert(a == q * b + r) by (nonlinear_arith)
        requires x == y * q0 + r0,
            (a == x && r == r0 && ((b == y && q == q0) || (b == -y && q == -q0)))
            || (a == -x && r == -r0 && ((b == y && q == -q0) || (b == -y && q == q0)));
}
/// (k * b) mod b == 0 for every non-zero b (negative b included)
pub proof fn lemma_dp_mult_mod0(k: int, b: int)
    requires b != 0
    ensures (k * b) % b == 0
{
    if b > 0 {
        vstd::arithmetic::div_mod::lemma_mod_multiples_basic(k, b);
    } else {
        let c = -b;
        let a = k * b;
        vstd::arithmetic::div_mod::lemma_fundamental_div_mod(a, b);
        let r = a % b;
        let q2 = a / b;
        assert(0 <= r < c) by (nonlinear_arith) requires b < 0, c == -b, r == a % b;
        let d = k - q2;
        assert(r == d * b) by (nonlinear_arith) requires a == k * b, a == b * q2 + r, d == k - q2;
        assert(r == 0) by (nonlinear_arith) requires r == d * b, 0 <= r, r < -b, b < 0;
    }
}
/// the truncating quotient of an i64 by a non-zero integer fits i64, except for i64::MIN / -1
pub proof fn lemma_dp_i64_quot(a: int, b: int)
    requires i64::MIN <= a <= i64::MAX, b != 0, !(a == i64::MIN && b == -1)
    ensures i64::MIN <= tdiv(a, b) <= i64::MAX
{
    let (x, y) = (iabs(a), iabs(b));
    vstd::arithmetic::div_mod::lemma_fundamental_div_mod(x, y);
    vstd::arithmetic::div_mod::lemma_mod_pos_bound(x, y);
    vstd::arithmetic::div_mod::lemma_div_pos_is_pos(x, y);
    let (q0, r0) = (x / y, x % y);
    if y == 1 {
        assert(q0 == x) by (nonlinear_arith) requires x == y * q0 + r0, y == 1, 0 <= r0 < y;
    } else {
        assert(2 * q0 <= x) by (nonlinear_arith) requires x == y * q0 + r0, y >= 2, q0 >= 0, r0 >= 0;
    }
}
/// trunc_ok determines q and r
pub proof fn lemma_dp_trunc_unique(a: int, b: int, q: int, r: int)
    requires b != 0, trunc_ok(a, b, q, r)
    ensures q == tdiv(a, b), r == trem(a, b)
{
    lemma_dp_trunc(a, b);
    let (q2, r2) = (tdiv(a, b), trem(a, b));
    let d = q - q2;
    assert(r2 - r == d * b) by (nonlinear_arith) requires a == q * b + r, a == q2 * b + r2, d == q - q2;
    // r and r2 have the same sign (or are zero), so |r2 - r| < |b|
    assert(-iabs(b) < r2 - r < iabs(b));
    assert(d == 0) by (nonlinear_arith) requires r2 - r == d * b, -iabs(b) < r2 - r < iabs(b), b != 0;
}

impl From<u64> for UBig {
    #[verifier::external_body]
    fn from(x: u64) -> (r: UBig) ensures r.v() == x as int { unimplemented!() }
}
impl From<i64> for IBig {
    #[verifier::external_body]
    fn from(x: i64) -> (r: IBig) ensures r.v() == x as int { unimplemented!() }
}
impl From<u64> for IBig {
    #[verifier::external_body]
    fn from(x: u64) -> (r: IBig) ensures r.v() == x as int { unimplemented!() }
}
impl TryFrom<UBig> for u64 {
    type Error = ConversionError;
    #[verifier::external_body]
    fn try_from(x: UBig) -> Result<u64, ConversionError> { unimplemented!() }
}
impl TryFromSpecImpl<UBig> for u64 {
    open spec fn obeys_try_from_spec() -> bool { true }
    open spec fn try_from_spec(x: UBig) -> Result<u64, ConversionError> {
        if 0 <= x.v() <= u64::MAX { Ok(x.v() as u64) } else { Err(ConversionError::OutOfBounds) }
    }
}
impl TryFrom<IBig> for u64 {
    type Error = ConversionError;
    #[verifier::external_body]
    fn try_from(x: IBig) -> Result<u64, ConversionError> { unimplemented!() }
}
impl TryFromSpecImpl<IBig> for u64 {
    open spec fn obeys_try_from_spec() -> bool { true }
    open spec fn try_from_spec(x: IBig) -> Result<u64, ConversionError> {
        if 0 <= x.v() <= u64::MAX { Ok(x.v() as u64) } else { Err(ConversionError::OutOfBounds) }
    }
}
impl TryFrom<IBig> for i64 {
    type Error = ConversionError;
    #[verifier::external_body]
    fn try_from(x: IBig) -> Result<i64, ConversionError> { unimplemented!() }
}
impl TryFromSpecImpl<IBig> for i64 {
    open spec fn obeys_try_from_spec() -> bool { true }
    open spec fn try_from_spec(x: IBig) -> Result<i64, ConversionError> {
        if i64::MIN <= x.v() <= i64::MAX { Ok(x.v() as i64) } else { Err(ConversionError::OutOfBounds) }
    }
}

// dashu_base::{DivRem, DivRemAssign} (traits mirrored)
pub trait DivRem<Rhs = Self> {
    type OutputDiv;
    type OutputRem;
    spec fn div_rem_req(self, rhs: Rhs) -> bool;
    spec fn div_rem_post(self, rhs: Rhs, q: Self::OutputDiv, r: Self::OutputRem) -> bool;
    fn div_rem(self, rhs: Rhs) -> (qr: (Self::OutputDiv, Self::OutputRem))
        requires self.div_rem_req(rhs) ensures self.div_rem_post(rhs, qr.0, qr.1);
}
pub trait DivRemAssign<Rhs = Self>: Sized {
    type OutputRem;
    spec fn dra_req(&self, rhs: Rhs) -> bool;
    spec fn dra_post(&self, rhs: Rhs, new: &Self, r: Self::OutputRem) -> bool;
    fn div_rem_assign(&mut self, rhs: Rhs) -> (r: Self::OutputRem)
        requires old(self).dra_req(rhs) ensures old(self).dra_post(rhs, final(self), r);
}

impl DivRem<UBig> for UBig {
    type OutputDiv = UBig;
    type OutputRem = UBig;
    open spec fn div_rem_req(self, rhs: UBig) -> bool { rhs.v() != 0 }
    open spec fn div_rem_post(self, rhs: UBig, q: UBig, r: UBig) -> bool { q.v() == tdiv(self.v(), rhs.v()) && r.v() == trem(self.v(), rhs.v()) }
    #[verifier::external_body]
    fn div_rem(self, rhs: UBig) -> (qr: (UBig, UBig)) { unimplemented!() }
}
impl<'a> DivRem<UBig> for &'a UBig {
    type OutputDiv = UBig;
    type OutputRem = UBig;
    open spec fn div_rem_req(self, rhs: UBig) -> bool { rhs.v() != 0 }
    open spec fn div_rem_post(self, rhs: UBig, q: UBig, r: UBig) -> bool { q.v() == tdiv(self.v(), rhs.v()) && r.v() == trem(self.v(), rhs.v()) }
    #[verifier::external_body]
    fn div_rem(self, rhs: UBig) -> (qr: (UBig, UBig)) { unimplemented!() }
}
impl DivSpecImpl<UBig> for UBig {
    open spec fn obeys_div_spec() -> bool { true }
    open spec fn div_req(self, rhs: UBig) -> bool { rhs.v() != 0 }
    open spec fn div_spec(self, rhs: UBig) -> UBig { ubig_of(tdiv(self.v(), rhs.v())) }
}
impl Div<UBig> for UBig { type Output = UBig;
    #[verifier::external_body]
    fn div(self, rhs: UBig) -> UBig { unimplemented!() }
}
impl<'b> DivSpecImpl<&'b UBig> for UBig {
    open spec fn obeys_div_spec() -> bool { true }
    open spec fn div_req(self, rhs: &'b UBig) -> bool { rhs.v() != 0 }
    open spec fn div_spec(self, rhs: &'b UBig) -> UBig { ubig_of(tdiv(self.v(), rhs.v())) }
}
impl<'b> Div<&'b UBig> for UBig { type Output = UBig;
    #[verifier::external_body]
    fn div(self, rhs: &'b UBig) -> UBig { unimplemented!() }
}
impl RemSpecImpl<UBig> for UBig {
    open spec fn obeys_rem_spec() -> bool { true }
    open spec fn rem_req(self, rhs: UBig) -> bool { rhs.v() != 0 }
    open spec fn rem_spec(self, rhs: UBig) -> UBig { ubig_of(trem(self.v(), rhs.v())) }
}
impl Rem<UBig> for UBig { type Output = UBig;
    #[verifier::external_body]
    fn rem(self, rhs: UBig) -> UBig { unimplemented!() }
}
impl<'a> RemSpecImpl<UBig> for &'a UBig {
    open spec fn obeys_rem_spec() -> bool { true }
    open spec fn rem_req(self, rhs: UBig) -> bool { rhs.v() != 0 }
    open spec fn rem_spec(self, rhs: UBig) -> UBig { ubig_of(trem(self.v(), rhs.v())) }
}
impl<'a> Rem<UBig> for &'a UBig { type Output = UBig;
    #[verifier::external_body]
    fn rem(self, rhs: UBig) -> UBig { unimplemented!() }
}
impl DivAssignSpecImpl<UBig> for UBig {
    open spec fn obeys_div_assign_spec() -> bool { true }
    open spec fn div_assign_req(&self, rhs: UBig) -> bool { rhs.v() != 0 }
    open spec fn div_assign_spec(&self, rhs: UBig) -> &UBig { &ubig_of(tdiv(self.v(), rhs.v())) }
}
impl DivAssign<UBig> for UBig {
    #[verifier::external_body]
    fn div_assign(&mut self, rhs: UBig) { unimplemented!() }
}
impl DivRemAssign<UBig> for UBig {
    type OutputRem = UBig;
    open spec fn dra_req(&self, rhs: UBig) -> bool { rhs.v() != 0 }
    open spec fn dra_post(&self, rhs: UBig, new: &UBig, r: UBig) -> bool { new.v() == tdiv(self.v(), rhs.v()) && r.v() == trem(self.v(), rhs.v()) }
    #[verifier::external_body]
    fn div_rem_assign(&mut self, rhs: UBig) -> (r: UBig) { unimplemented!() }
}
impl DivRem<IBig> for IBig {
    type OutputDiv = IBig;
    type OutputRem = IBig;
    open spec fn div_rem_req(self, rhs: IBig) -> bool { rhs.v() != 0 }
    open spec fn div_rem_post(self, rhs: IBig, q: IBig, r: IBig) -> bool { q.v() == tdiv(self.v(), rhs.v()) && r.v() == trem(self.v(), rhs.v()) }
    #[verifier::external_body]
    fn div_rem(self, rhs: IBig) -> (qr: (IBig, IBig)) { unimplemented!() }
}
impl<'a> DivRem<IBig> for &'a IBig {
    type OutputDiv = IBig;
    type OutputRem = IBig;
    open spec fn div_rem_req(self, rhs: IBig) -> bool { rhs.v() != 0 }
    open spec fn div_rem_post(self, rhs: IBig, q: IBig, r: IBig) -> bool { q.v() == tdiv(self.v(), rhs.v()) && r.v() == trem(self.v(), rhs.v()) }
    #[verifier::external_body]
    fn div_rem(self, rhs: IBig) -> (qr: (IBig, IBig)) { unimplemented!() }
}
impl DivSpecImpl<IBig> for IBig {
    open spec fn obeys_div_spec() -> bool { true }
    open spec fn div_req(self, rhs: IBig) -> bool { rhs.v() != 0 }
    open spec fn div_spec(self, rhs: IBig) -> IBig { ibig_of(tdiv(self.v(), rhs.v())) }
}
impl Div<IBig> for IBig { type Output = IBig;
    #[verifier::external_body]
    fn div(self, rhs: IBig) -> IBig { unimplemented!() }
}
impl<'b> DivSpecImpl<&'b IBig> for IBig {
    open spec fn obeys_div_spec() -> bool { true }
    open spec fn div_req(self, rhs: &'b IBig) -> bool { rhs.v() != 0 }
    open spec fn div_spec(self, rhs: &'b IBig) -> IBig { ibig_of(tdiv(self.v(), rhs.v())) }
}
impl<'b> Div<&'b IBig> for IBig { type Output = IBig;
    #[verifier::external_body]
    fn div(self, rhs: &'b IBig) -> IBig { unimplemented!() }
}
impl RemSpecImpl<IBig> for IBig {
    open spec fn obeys_rem_spec() -> bool { true }
    open spec fn rem_req(self, rhs: IBig) -> bool { rhs.v() != 0 }
    open spec fn rem_spec(self, rhs: IBig) -> IBig { ibig_of(trem(self.v(), rhs.v())) }
}
impl Rem<IBig> for IBig { type Output = IBig;
    #[verifier::external_body]
    fn rem(self, rhs: IBig) -> IBig { unimplemented!() }
}
impl<'a> RemSpecImpl<IBig> for &'a IBig {
    open spec fn obeys_rem_spec() -> bool { true }
    open spec fn rem_req(self, rhs: IBig) -> bool { rhs.v() != 0 }
    open spec fn rem_spec(self, rhs: IBig) -> IBig { ibig_of(trem(self.v(), rhs.v())) }
}
impl<'a> Rem<IBig> for &'a IBig { type Output = IBig;
    #[verifier::external_body]
    fn rem(self, rhs: IBig) -> IBig { unimplemented!() }
}
impl DivAssignSpecImpl<IBig> for IBig {
    open spec fn obeys_div_assign_spec() -> bool { true }
    open spec fn div_assign_req(&self, rhs: IBig) -> bool { rhs.v() != 0 }
    open spec fn div_assign_spec(&self, rhs: IBig) -> &IBig { &ibig_of(tdiv(self.v(), rhs.v())) }
}
impl DivAssign<IBig> for IBig {
    #[verifier::external_body]
    fn div_assign(&mut self, rhs: IBig) { unimplemented!() }
}
impl DivRemAssign<IBig> for IBig {
    type OutputRem = IBig;
    open spec fn dra_req(&self, rhs: IBig) -> bool { rhs.v() != 0 }
    open spec fn dra_post(&self, rhs: IBig, new: &IBig, r: IBig) -> bool { new.v() == tdiv(self.v(), rhs.v()) && r.v() == trem(self.v(), rhs.v()) }
    #[verifier::external_body]
    fn div_rem_assign(&mut self, rhs: IBig) -> (r: IBig) { unimplemented!() }
}
// (the remaining operand forms: not used by the unchanged code; present so that a changed overload that swaps operands
//  still type-checks and is judged by its contract)
impl<'a> DivSpecImpl<UBig> for &'a UBig {
    open spec fn obeys_div_spec() -> bool { true }
    open spec fn div_req(self, rhs: UBig) -> bool { rhs.v() != 0 }
    open spec fn div_spec(self, rhs: UBig) -> UBig { ubig_of(tdiv(self.v(), rhs.v())) }
}
impl<'a> Div<UBig> for &'a UBig { type Output = UBig;
    #[verifier::external_body]
    fn div(self, rhs: UBig) -> UBig { unimplemented!() }
}
impl<'a, 'b> DivSpecImpl<&'b UBig> for &'a UBig {
    open spec fn obeys_div_spec() -> bool { true }
    open spec fn div_req(self, rhs: &'b UBig) -> bool { rhs.v() != 0 }
    open spec fn div_spec(self, rhs: &'b UBig) -> UBig { ubig_of(tdiv(self.v(), rhs.v())) }
}
impl<'a, 'b> Div<&'b UBig> for &'a UBig { type Output = UBig;
    #[verifier::external_body]
    fn div(self, rhs: &'b UBig) -> UBig { unimplemented!() }
}
impl<'a, 'b> RemSpecImpl<&'b UBig> for &'a UBig {
    open spec fn obeys_rem_spec() -> bool { true }
    open spec fn rem_req(self, rhs: &'b UBig) -> bool { rhs.v() != 0 }
    open spec fn rem_spec(self, rhs: &'b UBig) -> UBig { ubig_of(trem(self.v(), rhs.v())) }
}
impl<'a, 'b> Rem<&'b UBig> for &'a UBig { type Output = UBig;
    #[verifier::external_body]
    fn rem(self, rhs: &'b UBig) -> UBig { unimplemented!() }
}
impl<'b> RemSpecImpl<&'b UBig> for UBig {
    open spec fn obeys_rem_spec() -> bool { true }
    open spec fn rem_req(self, rhs: &'b UBig) -> bool { rhs.v() != 0 }
    open spec fn rem_spec(self, rhs: &'b UBig) -> UBig { ubig_of(trem(self.v(), rhs.v())) }
}
impl<'b> Rem<&'b UBig> for UBig { type Output = UBig;
    #[verifier::external_body]
    fn rem(self, rhs: &'b UBig) -> UBig { unimplemented!() }
}
// (the remaining operand forms: not used by the unchanged code; present so that a changed overload that swaps operands
//  still type-checks and is judged by its contract)
impl<'a> DivSpecImpl<IBig> for &'a IBig {
    open spec fn obeys_div_spec() -> bool { true }
    open spec fn div_req(self, rhs: IBig) -> bool { rhs.v() != 0 }
    open spec fn div_spec(self, rhs: IBig) -> IBig { ibig_of(tdiv(self.v(), rhs.v())) }
}
impl<'a> Div<IBig> for &'a IBig { type Output = IBig;
    #[verifier::external_body]
    fn div(self, rhs: IBig) -> IBig { unimplemented!() }
}
impl<'a, 'b> DivSpecImpl<&'b IBig> for &'a IBig {
    open spec fn obeys_div_spec() -> bool { true }
    open spec fn div_req(self, rhs: &'b IBig) -> bool { rhs.v() != 0 }
    open spec fn div_spec(self, rhs: &'b IBig) -> IBig { ibig_of(tdiv(self.v(), rhs.v())) }
}
impl<'a, 'b> Div<&'b IBig> for &'a IBig { type Output = IBig;
    #[verifier::external_body]
    fn div(self, rhs: &'b IBig) -> IBig { unimplemented!() }
}
impl<'a, 'b> RemSpecImpl<&'b IBig> for &'a IBig {
    open spec fn obeys_rem_spec() -> bool { true }
    open spec fn rem_req(self, rhs: &'b IBig) -> bool { rhs.v() != 0 }
    open spec fn rem_spec(self, rhs: &'b IBig) -> IBig { ibig_of(trem(self.v(), rhs.v())) }
}
impl<'a, 'b> Rem<&'b IBig> for &'a IBig { type Output = IBig;
    #[verifier::external_body]
    fn rem(self, rhs: &'b IBig) -> IBig { unimplemented!() }
}
impl<'b> RemSpecImpl<&'b IBig> for IBig {
    open spec fn obeys_rem_spec() -> bool { true }
    open spec fn rem_req(self, rhs: &'b IBig) -> bool { rhs.v() != 0 }
    open spec fn rem_spec(self, rhs: &'b IBig) -> IBig { ibig_of(trem(self.v(), rhs.v())) }
}
impl<'b> Rem<&'b IBig> for IBig { type Output = IBig;
    #[verifier::external_body]
    fn rem(self, rhs: &'b IBig) -> IBig { unimplemented!() }
}
