// ---- mem_kern_lemmas.rs: the few VALUE facts that the resource-only (int_memsize_*) copies of the multiplication kernels
// still need, because Verus checks machine-integer overflow of `x[i] += callee(..)`.  Needs lib/prelude.rs.
/// carry of `words += mult * rhs` (mul::add_mul_word_same_len_in_place / add_mul_word_in_place): at most `mult`
pub proof fn lemma_mk_carry(w0: Seq<Word>, w1: Seq<Word>, rhs: Seq<Word>, r: int, mult: int)
    requires w0.len() == w1.len(), rhs.len() <= w0.len(), 0 <= mult, 0 <= r,
        val(w1) + r * pw(w0.len() as int) == val(w0) + mult * val(rhs),
    ensures r <= mult,
{
    let l = w0.len() as int;
    let p = pw(l);
    lemma_valn_bound(w0, l);
    lemma_valn_bound(w1, l);
    lemma_valn_bound(rhs, rhs.len() as int);
    lemma_mk_pw_le(rhs.len() as int, l);
    let v0 = val(w0); let v1 = val(w1); let vr = val(rhs);
    assert(r <= mult) by (nonlinear_arith)
        requires 0 <= v1, 0 <= v0 < p, 0 <= vr < p, v1 + r * p == v0 + mult * vr, 0 <= mult, 0 <= r, p >= 1;
}
pub proof fn lemma_mk_pw_le(a: int, b: int)
    requires 0 <= a <= b,
    ensures 1 <= pw(a) <= pw(b),
    decreases b
{
    lemma_pw_pos(a);
    if a < b {
        lemma_mk_pw_le(a, b - 1);
        assert(pw(b) == B() * pw(b - 1));
        assert(pw(b - 1) <= B() * pw(b - 1)) by (nonlinear_arith) requires pw(b - 1) >= 1, B() >= 1;
    }
}
/// rule D4a `#[assert_guard]`: a failing run-time `assert!` / `assert_eq!` never returns (it panics).  The int_memsize_*
/// units use it for value assertions whose unreachability is proved in the FUNCTIONAL units (int_mul_toom3 ...).
#[verifier::external_body]
pub fn __assert_failed() -> ! { unimplemented!() }
