// ---- farith_div_lemmas.rs: stubs, specification and lemmas of the float division unit (float/src/div.rs repr_div).
// Needs round_prelude.rs, round_int_stubs.rs, round_int_addsub_stubs.rs, round_float_repr.rs, farith_lemmas.rs.

// ---- TRUSTED stub: dashu_base::DivRem<&IBig> for IBig (integer/src/div_ops.rs impl_ibig_divrem): quotient truncated
// towards zero, remainder with the sign of the dividend; division by zero panics (=> `requires` non-zero divisor)
pub trait DivRem<Rhs = Self> {
    type OutputDiv;
    type OutputRem;
    spec fn div_rem_req(self, rhs: Rhs) -> bool;
    fn div_rem(self, rhs: Rhs) -> (Self::OutputDiv, Self::OutputRem)
        requires self.div_rem_req(rhs);
}
impl<'r> DivRem<&'r IBig> for IBig {
    type OutputDiv = IBig;
    type OutputRem = IBig;
    open spec fn div_rem_req(self, rhs: &'r IBig) -> bool { rhs.v() != 0 }
    #[verifier::external_body]
    fn div_rem(self, rhs: &'r IBig) -> (ret: (IBig, IBig))
        ensures is_trunc_divrem(self.v(), rhs.v(), ret.0.v(), ret.1.v())
    { unimplemented!() }
}

// ---- specification
/// the numerator over the POSITIVE denominator |D|
pub open spec fn over_pos(N: int, D: int) -> int { if D > 0 { N } else { -N } }
/// C03 for division: the exact quotient is x = (N / D) * b^e0.  For some scaling j >= 0 the truncated quotient q of
/// N*b^j by D is the part of x at or above the unit u = b^(e0 - j):
///   Exact(res)        iff that division leaves no remainder, and then res == x, at most p+1 digits;
///   Inexact(res, adj) otherwise: res = (q + adj) * u is the neighbour of x prescribed by the mode (|res - x| < u, side by
///                     mode, <= u/2 for the Half modes), adj = res/u - trunc(x/u) truthful, and q has p or p+1 digits:
///                     u is the unit in the last place of x at precision p or one digit finer.
pub open spec fn div_post<const B: Word>(m: Mode, b: int, p: nat, N: int, D: int, e0: int, ret: Rounded<Repr<B>>) -> bool {
    exists|j: nat, q: int, r: int| #[trigger] is_trunc_divrem(N * ipow(b, j), D, q, r) && match ret {
        Approximation::Exact(res) => r == 0 && same_value(b, res.significand.v(), res.exponent as int, q, e0 - j)
            && iabs(q) < ipow(b, p + 1),
        Approximation::Inexact(res, adj) => r != 0
            && round_def(m, over_pos(N * ipow(b, j), D), iabs(D), q + adj_int(adj))
            && same_value(b, res.significand.v(), res.exponent as int, q + adj_int(adj), e0 - j)
            && ipow(b, (p - 1) as nat) <= iabs(q) && iabs(q) < ipow(b, p + 1),
    }
}

// ---- lemmas
/// |a| < |c|  ==>  a has no more digits than c
pub proof fn lemma_ndigits_lt(b: int, a: int, c: int)
    requires b >= 2, iabs(a) < iabs(c)
    ensures ndigits(b, a) <= ndigits(b, c)
{
    lemma_ndigits_ub(b, c);
    lemma_ndigits_le(b, a, ndigits(b, c));
}
/// size of a truncated quotient: b^(x-1) <= |n| < b^x, b^(y-1) <= |d| < b^y, n = q d + r  ==>  b^(x-y-1) <= |q| < b^(x-y+1)
pub proof fn lemma_quot_size(b: int, n: int, d: int, q: int, r: int, x: nat, y: nat)
    requires b >= 2, y >= 1, x >= y, is_trunc_divrem(n, d, q, r),
        ipow(b, (y - 1) as nat) <= iabs(d), iabs(d) < ipow(b, y), iabs(n) < ipow(b, x),
    ensures iabs(q) < ipow(b, (x - y + 1) as nat),
        x > y && ipow(b, (x - 1) as nat) <= iabs(n) ==> ipow(b, (x - y - 1) as nat) <= iabs(q),
{
    let (an, ad, aq, ar) = (iabs(n), iabs(d), iabs(q), iabs(r));
    // |n| == |q| |d| + |r|
    let qd = q * d;
    assert(iabs(qd) == aq * ad) by (nonlinear_arith)
        requires qd == q * d, aq == (if q < 0 { -q } else { q }), ad == (if d < 0 { -d } else { d });
    let aqd = aq * ad;
    assert(aqd >= 0) by (nonlinear_arith) requires aqd == aq * ad, aq >= 0, ad >= 0;
    // r == 0 or sign(r) == sign(n); |r| < |d|; n = qd + r  ==> |n| = |qd| + |r|
    assert(an == aqd + ar) by {
        if r != 0 {
            // qd = n - r lies between 0 and n (exclusive of sign change) because |r| < |d| <= |qd| or qd == 0
            if qd != 0 {
                assert(aq >= 1 && aqd >= ad) by (nonlinear_arith) requires aqd == aq * ad, aq >= 0, ad >= 1, aqd != 0;
            }
        }
    }
    let lo = ipow(b, (y - 1) as nat);
    lemma_ipow_pos(b, (y - 1) as nat);
    let k = (x - y + 1) as nat;
    lemma_ipow_add(b, k, (y - 1) as nat);
    assert((k + (y - 1) as nat) as nat == x);
    let hk = ipow(b, k);
    lemma_ipow_pos(b, k);
    if aq >= hk {
        assert(aqd >= hk * lo) by (nonlinear_arith) requires aqd == aq * ad, aq >= hk, ad >= lo, lo >= 1, hk >= 1;
    }
    if x > y && ipow(b, (x - 1) as nat) <= an {
        let t = (x - y - 1) as nat;
        let ht = ipow(b, t);
        lemma_ipow_add(b, t, y);
        assert((t + y) as nat == (x - 1) as nat);
        let hy = ipow(b, y);
        if aq < ht {
            // |n| = |q||d| + |r| < (|q| + 1) |d| <= ht * |d| < ht * b^y
            assert(aqd + ad <= ht * ad) by (nonlinear_arith) requires aqd == aq * ad, aq + 1 <= ht, ad >= 0;
            lemma_ipow_pos(b, t);
            assert(ht * ad < ht * hy) by (nonlinear_arith) requires ad < hy, ht >= 1;
        }
    }
}
/// refining a truncated division by `shift` more digits: N = q D + r, (r b^s) = q0 D + r0  ==>  N b^s = (q b^s + q0) D + r0,
/// and the new quotient digits q0 extend q without carry
pub proof fn lemma_div_scale(N: int, D: int, q: int, r: int, bs: int, q0: int, r0: int)
    requires D != 0, bs >= 1, is_trunc_divrem(N, D, q, r), is_trunc_divrem(r * bs, D, q0, r0)
    ensures is_trunc_divrem(N * bs, D, q * bs + q0, r0),
        iabs(q * bs + q0) >= iabs(q) * bs, iabs(q * bs + q0) < (iabs(q) + 1) * bs,
{
    let (Q, rs, Ns) = (q * bs + q0, r * bs, N * bs);
    assert(Ns == Q * D + r0) by (nonlinear_arith) requires N == q * D + r, rs == q0 * D + r0, Q == q * bs + q0, rs == r * bs, Ns == N * bs;
    assert((rs > 0) == (r > 0) && (rs < 0) == (r < 0)) by (nonlinear_arith) requires rs == r * bs, bs >= 1;
    assert((Ns > 0) == (N > 0) && (Ns < 0) == (N < 0)) by (nonlinear_arith) requires Ns == N * bs, bs >= 1;
    // |q0| < bs: |q0| |D| <= |r bs| < |D| bs
    let (aq0, ad, ar) = (iabs(q0), iabs(D), iabs(r));
    let q0d = q0 * D;
    assert(iabs(q0d) == aq0 * ad) by (nonlinear_arith)
        requires q0d == q0 * D, aq0 == (if q0 < 0 { -q0 } else { q0 }), ad == (if D < 0 { -D } else { D });
    assert(iabs(rs) == ar * bs) by (nonlinear_arith) requires rs == r * bs, bs >= 1, ar == (if r < 0 { -r } else { r });
    let (p1, p2) = (aq0 * ad, ar * bs);
    assert(p1 >= 0) by (nonlinear_arith) requires p1 == aq0 * ad, aq0 >= 0, ad >= 0;
    // q0 D lies between 0 and r bs (r0 has the sign of r bs and |r0| < |D|)
    assert(p1 <= p2) by {
        if r0 != 0 && q0d != 0 {
            assert(aq0 >= 1 && p1 >= ad) by (nonlinear_arith) requires p1 == aq0 * ad, aq0 >= 0, ad >= 1, p1 != 0;
        }
    }
    assert(p2 < ad * bs) by (nonlinear_arith) requires p2 == ar * bs, ar < ad, bs >= 1;
    assert(aq0 < bs) by (nonlinear_arith) requires aq0 * ad < ad * bs, ad >= 1, aq0 >= 0;
    // sign of q0 agrees with the sign of q (both are sign(N) * sign(D)) unless one of them is zero
    let qd = q * D;
    let aq = iabs(q);
    assert((q > 0 && D > 0 || q < 0 && D < 0) ==> qd > 0) by (nonlinear_arith) requires qd == q * D;
    assert((q > 0 && D < 0 || q < 0 && D > 0) ==> qd < 0) by (nonlinear_arith) requires qd == q * D;
    assert(iabs(qd) == aq * ad) by (nonlinear_arith) requires qd == q * D, aq == (if q < 0 { -q } else { q }), ad == (if D < 0 { -D } else { D });
    let p3 = aq * ad;
    assert(q != 0 ==> p3 >= ad) by (nonlinear_arith) requires p3 == aq * ad, aq >= 0, ad >= 1, (q != 0 ==> aq >= 1);
    assert((q0 > 0 && D > 0 || q0 < 0 && D < 0) ==> q0d > 0) by (nonlinear_arith) requires q0d == q0 * D;
    assert((q0 > 0 && D < 0 || q0 < 0 && D > 0) ==> q0d < 0) by (nonlinear_arith) requires q0d == q0 * D;
    assert(q0 != 0 ==> p1 >= ad) by (nonlinear_arith) requires p1 == aq0 * ad, aq0 >= 0, ad >= 1, (q0 != 0 ==> aq0 >= 1);
    // hence q and q0 are not of opposite sign
    assert(!(q > 0 && q0 < 0) && !(q < 0 && q0 > 0));
    let qb = q * bs;
    assert(iabs(qb) == aq * bs) by (nonlinear_arith) requires qb == q * bs, bs >= 1, aq == (if q < 0 { -q } else { q });
    assert((qb > 0) == (q > 0) && (qb < 0) == (q < 0)) by (nonlinear_arith) requires qb == q * bs, bs >= 1;
    assert((aq + 1) * bs == aq * bs + bs) by (nonlinear_arith);
}

// ---- TRUSTED stubs of float/src/repr.rs used by Context::{div, inv}
impl<const B: Word> Repr<B> {
    // (`Repr::digits_lb`: the stub lives in lib/round_float_repr.rs next to digits_ub)
    /// repr.rs `Repr::one`: `Self { significand: IBig::ONE, exponent: 0 }`
    #[verifier::external_body]
    pub fn one() -> (r: Self) ensures r.significand.v() == 1, r.exponent == 0 { unimplemented!() }
}
