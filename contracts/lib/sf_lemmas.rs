// ---- sf_lemmas.rs: lemmas of unit ratio_simplest_from_float (C18).  Needs round_prelude.rs, round_float_repr.rs,
// ebounds_lemmas.rs, ratio_lemmas.rs, ratio2_unique_lemmas.rs, farey_lemmas.rs, simplest_lemmas.rs, sf_spec.rs, sf_stubs.rs.

// ------------------------------------------------------------------------------------------------
// numbers s * b^e compared at a common exponent G below both

/// b^0, b^1, b^2 spelled out (ipow is recursive: unfolding it inside a large proof is unreliable)
pub proof fn lemma_ipow_012(b: int)
    ensures ipow(b, 0) == 1, ipow(b, 1) == b, ipow(b, 2) == b * b
{
    reveal_with_fuel(ipow, 3);
    assert(ipow(b, 0) == 1);
    assert(ipow(b, 1) == b * ipow(b, 0));
    assert(ipow(b, 2) == b * ipow(b, 1));
    assert(b * 1 == b);
}
/// moving the reference exponent down from G to H multiplies by b^(G-H)
pub proof fn lemma_va_shift(b: int, s: int, e: int, G: int, H: int)
    requires b >= 1, H <= G <= e
    ensures s * ipow(b, (e - H) as nat) == (s * ipow(b, (e - G) as nat)) * ipow(b, (G - H) as nat)
{
    lemma_ipow_add(b, (e - G) as nat, (G - H) as nat);
    assert(((e - G) as nat + (G - H) as nat) as nat == (e - H) as nat);
    let (x, y) = (ipow(b, (e - G) as nat), ipow(b, (G - H) as nat));
    assert(s * (x * y) == (s * x) * y) by (nonlinear_arith);
}
/// u * k == v * k with k > 0  <=>  u == v
pub proof fn lemma_cancel_pos(u: int, v: int, k: int)
    requires k > 0
    ensures (u * k == v * k) == (u == v), (u * k <= v * k) == (u <= v), (u * k < v * k) == (u < v)
{
    assert((u * k == v * k) == (u == v)) by (nonlinear_arith) requires k > 0;
    assert((u * k <= v * k) == (u <= v)) by (nonlinear_arith) requires k > 0;
    assert((u * k < v * k) == (u < v)) by (nonlinear_arith) requires k > 0;
}
/// same_value, seen at any exponent G below both
pub proof fn lemma_sv_at(b: int, s1: int, e1: int, s2: int, e2: int, G: int)
    requires b >= 2, G <= e1, G <= e2
    ensures same_value(b, s1, e1, s2, e2) == (s1 * ipow(b, (e1 - G) as nat) == s2 * ipow(b, (e2 - G) as nat))
{
    let M = if e1 <= e2 { e1 } else { e2 };
    lemma_va_shift(b, s1, e1, M, G);
    lemma_va_shift(b, s2, e2, M, G);
    let k = ipow(b, (M - G) as nat);
    lemma_ipow_pos(b, (M - G) as nat);
    let (u, v) = (s1 * ipow(b, (e1 - M) as nat), s2 * ipow(b, (e2 - M) as nat));
    lemma_cancel_pos(u, v, k);
    assert(ipow(b, 0) == 1);
    if e1 <= e2 { assert(u == s1) by (nonlinear_arith) requires u == s1 * 1; } else { assert(v == s2) by (nonlinear_arith) requires v == s2 * 1; }
}
/// fv, with both sides scaled by b^(-G) so that no exponent is negative (G <= e, G <= 0)
pub proof fn lemma_fv_at(b: int, s: int, e: int, n: int, d: int, G: int)
    requires b >= 2, G <= e, G <= 0
    ensures fv(b, s, e, n, d) == (n * ipow(b, (-G) as nat) == (s * ipow(b, (e - G) as nat)) * d)
{
    let k = ipow(b, (-G) as nat);
    lemma_ipow_pos(b, (-G) as nat);
    if e >= 0 {
        // n == (s b^e) d  <=>  n b^-G == (s b^e b^-G) d
        lemma_va_shift(b, s, e, 0, G);
        let x = s * ipow(b, e as nat);
        assert((e - 0) as nat == e as nat && (0 - G) as nat == (-G) as nat);
        lemma_cancel_pos(n, x * d, k);
        assert((x * d) * k == (x * k) * d) by (nonlinear_arith);
    } else {
        // n b^-e == s d  <=>  n b^-e b^(e-G) == s b^(e-G) d
        let q = ipow(b, (-e) as nat);
        let r = ipow(b, (e - G) as nat);
        lemma_ipow_pos(b, (e - G) as nat);
        lemma_ipow_add(b, (-e) as nat, (e - G) as nat);
        assert(((-e) as nat + (e - G) as nat) as nat == (-G) as nat);
        lemma_cancel_pos(n * q, s * d, r);
        assert((n * q) * r == n * (q * r)) by (nonlinear_arith);
        assert((s * d) * r == (s * r) * d) by (nonlinear_arith);
    }
}
/// a fraction that is one representation of a float value is every representation
pub proof fn lemma_fv_same(b: int, s1: int, e1: int, s2: int, e2: int, n: int, d: int)
    requires b >= 2, same_value(b, s1, e1, s2, e2), fv(b, s1, e1, n, d)
    ensures fv(b, s2, e2, n, d)
{
    let m = if e1 <= e2 { e1 } else { e2 };
    let G = if m <= 0 { m } else { 0 };
    lemma_sv_at(b, s1, e1, s2, e2, G);
    lemma_fv_at(b, s1, e1, n, d, G);
    lemma_fv_at(b, s2, e2, n, d, G);
}
/// doubling: n/d == s b^e  ==>  2n/d == 2s b^e
pub proof fn lemma_fv_double(b: int, s: int, e: int, n: int, d: int)
    requires fv(b, s, e, n, d)
    ensures fv(b, 2 * s, e, 2 * n, d)
{
    if e >= 0 {
        let x = ipow(b, e as nat);
        assert(2 * n == ((2 * s) * x) * d) by (nonlinear_arith) requires n == (s * x) * d;
    } else {
        let x = ipow(b, (-e) as nat);
        assert((2 * n) * x == (2 * s) * d) by (nonlinear_arith) requires n * x == s * d;
    }
}
/// fdiff, seen at any exponent G below the three
pub proof fn lemma_fdiff_at(b: int, s1: int, e1: int, s2: int, e2: int, s3: int, e3: int, G: int)
    requires b >= 2, G <= e1, G <= e2, G <= e3
    ensures fdiff(b, s1, e1, s2, e2, s3, e3)
        == (s1 * ipow(b, (e1 - G) as nat) - s2 * ipow(b, (e2 - G) as nat) == s3 * ipow(b, (e3 - G) as nat))
{
    let F = if e1 <= e2 { if e1 <= e3 { e1 } else { e3 } } else { if e2 <= e3 { e2 } else { e3 } };
    lemma_va_shift(b, s1, e1, F, G);
    lemma_va_shift(b, s2, e2, F, G);
    lemma_va_shift(b, s3, e3, F, G);
    let k = ipow(b, (F - G) as nat);
    lemma_ipow_pos(b, (F - G) as nat);
    let (u1, u2, u3) = (s1 * ipow(b, (e1 - F) as nat), s2 * ipow(b, (e2 - F) as nat), s3 * ipow(b, (e3 - F) as nat));
    lemma_cancel_pos(u1 - u2, u3, k);
    assert((u1 - u2) * k == u1 * k - u2 * k) by (nonlinear_arith);
}

// ------------------------------------------------------------------------------------------------
// the grid of f (MODEL of ebounds_lemmas.rs)

/// exponent of the fine step and the p-digit significand of f, as in eb_post / in_round_set
pub open spec fn sf_eu(b: int, sig: int, exp: int, p: int) -> int { exp + ndigits(b, sig) - p - (if eb_pow(sig) { 1int } else { 0int }) }
pub open spec fn sf_m(b: int, sig: int, p: int) -> int { sig * ipow(b, (p - ndigits(b, sig)) as nat) }

/// f = sig * b^exp = (m * g) * b^eu with b^(p-1) <= |m| < b^p, and |m| = b^(p-1) exactly for a power of the base
pub proof fn lemma_f_grid(b: int, sig: int, exp: int, p: int)
    requires eb_domain(b, sig, exp, p)
    ensures ({
        let (eu, m, g) = (sf_eu(b, sig, exp, p), sf_m(b, sig, p), eb_g(b, sig));
        &&& eu <= exp && 1 <= ndigits(b, sig) <= p
        &&& sig * ipow(b, (exp - eu) as nat) == m * g
        &&& ipow(b, (p - 1) as nat) <= iabs(m) < ipow(b, p as nat)
        &&& (sig > 0 ==> m > 0) && (sig < 0 ==> m < 0)
        &&& (eb_pow(sig) ==> g == b && iabs(m) == ipow(b, (p - 1) as nat))
        &&& (!eb_pow(sig) ==> g == 1)
        &&& iabs(m * g) <= ipow(b, p as nat) && iabs(m * g) >= 1
    })
{
    broadcast use ax_ndigits;
    let d = ndigits(b, sig);
    let (eu, m, g) = (sf_eu(b, sig, exp, p), sf_m(b, sig, p), eb_g(b, sig));
    let k = (p - d) as nat;
    let q = ipow(b, k);
    lemma_ipow_pos(b, k);
    lemma_grid_sig(b, sig, k);
    let a = iabs(sig);
    assert(iabs(m) == a * q) by (nonlinear_arith) requires m == sig * q, a == (if sig < 0 { -sig } else { sig }), q >= 1;
    let lo = ipow(b, (d - 1) as nat);
    let hi = ipow(b, d);
    lemma_ipow_add(b, (d - 1) as nat, k);
    lemma_ipow_add(b, d, k);
    assert(((d - 1) as nat + k) as nat == (p - 1) as nat && (d + k) as nat == p as nat);
    let aq = a * q;
    assert(lo * q <= aq) by (nonlinear_arith) requires lo <= a, q >= 1, aq == a * q;
    assert(aq < hi * q) by (nonlinear_arith) requires a < hi, q >= 1, aq == a * q;
    let bp = ipow(b, p as nat);
    let bp1 = ipow(b, (p - 1) as nat);
    assert(bp == b * bp1);
    lemma_ipow_pos(b, (p - 1) as nat);
    if eb_pow(sig) {
        lemma_pow_digits(b, sig);
        assert(d == 1);
        assert(ipow(b, 0) == 1);
        assert(aq == q) by (nonlinear_arith) requires aq == a * q, a == 1;
        assert(exp - eu == k + 1);
        assert(ipow(b, (k + 1) as nat) == b * q);
        assert(sig * (b * q) == (sig * q) * b) by (nonlinear_arith);
        let mg = m * g;
        let am = iabs(m);
        assert(iabs(mg) == am * b) by (nonlinear_arith) requires mg == m * b, am == (if m < 0 { -m } else { m }), b >= 2;
        assert(am * b == bp) by (nonlinear_arith) requires am == bp1, bp == b * bp1;
    } else {
        assert(exp - eu == k);
        assert(m * 1 == m);
    }
    lemma_ipow_pos(b, p as nat);
}

/// two descriptions (a, c, fa, fc) and (a2, c2, ..) of the SAME set of rationals X/D by eb_in have the same bounds
/// (a point strictly between two different candidate ends tells them apart)
pub proof fn lemma_eb_in_unique(a: int, c: int, fa: bool, fc: bool, a2: int, c2: int, fa2: bool, fc2: bool)
    requires 0 <= a, 0 <= c, 0 <= a2, 0 <= c2,
        eb_in(-(a + a2), 4, a, c, fa, fc) == eb_in(-(a + a2), 4, a2, c2, fa2, fc2),
        eb_in(c + c2, 4, a, c, fa, fc) == eb_in(c + c2, 4, a2, c2, fa2, fc2),
    ensures a == a2, c == c2
{
    if a < a2 {
        let X = -(a + a2);
        assert(-(a * 4) > 2 * X && -(a2 * 4) < 2 * X && 2 * X < c * 4 && 2 * X < c2 * 4);
        assert(!eb_in(X, 4, a, c, fa, fc) && eb_in(X, 4, a2, c2, fa2, fc2));
    } else if a2 < a {
        let X = -(a + a2);
        assert(-(a2 * 4) > 2 * X && -(a * 4) < 2 * X && 2 * X < c * 4 && 2 * X < c2 * 4);
        assert(eb_in(X, 4, a, c, fa, fc) && !eb_in(X, 4, a2, c2, fa2, fc2));
    }
    if c < c2 {
        let X = c + c2;
        assert(2 * X > c * 4 && 2 * X < c2 * 4 && -(a * 4) < 2 * X && -(a2 * 4) < 2 * X);
        assert(!eb_in(X, 4, a, c, fa, fc) && eb_in(X, 4, a2, c2, fa2, fc2));
    } else if c2 < c {
        let X = c + c2;
        assert(2 * X > c2 * 4 && 2 * X < c * 4 && -(a * 4) < 2 * X && -(a2 * 4) < 2 * X);
        assert(eb_in(X, 4, a, c, fa, fc) && !eb_in(X, 4, a2, c2, fa2, fc2));
    }
}
/// the two bounds of the rounding interval are determined by the set they describe: they are the table values
pub proof fn lemma_eb_unique(md: Mode, m: int, g: int, l2: int, r2: int, il: bool, ir: bool)
    requires m != 0, g >= 1, 0 <= l2, 0 <= r2, eb_exact(md, m, g, l2, r2, il, ir)
    ensures l2 == eb_table(md, m, g).0, r2 == eb_table(md, m, g).1
{
    let t = eb_table(md, m, g);
    lemma_eb_table(md, m, g);
    assert(t.0 >= 0 && t.1 >= 0);
    let X1 = -(l2 + t.0);
    let X2 = r2 + t.1;
    assert(rounds_on_grid(md, m, g, X1, 4) == eb_in(X1, 4, l2, r2, il, ir));
    assert(rounds_on_grid(md, m, g, X1, 4) == eb_in(X1, 4, t.0, t.1, t.2, t.3));
    assert(rounds_on_grid(md, m, g, X2, 4) == eb_in(X2, 4, l2, r2, il, ir));
    assert(rounds_on_grid(md, m, g, X2, 4) == eb_in(X2, 4, t.0, t.1, t.2, t.3));
    lemma_eb_in_unique(l2, r2, il, ir, t.0, t.1, t.2, t.3);
}

/// a one-digit number
pub proof fn lemma_one_digit(b: int, v: int)
    requires b >= 2, 0 <= v < b
    ensures ndigits(b, v) <= 1
{
    broadcast use ax_ndigits;
    if v != 0 {
        lemma_ipow_012(b);
        lemma_nd_unique(b, v, 1);
    }
}

/// a non-zero one-digit bound worth k half fine steps (1 <= k <= 2g) sits at exponent eu - 1, eu or eu + 1
pub proof fn lemma_bound_exp(b: int, bsig: int, bexp: int, eu: int, k: int, g: int)
    requires b >= 2, 0 <= bsig < b, 0 <= k <= 2 * g, g == 1 || g == b, half_units(b, bsig, bexp, eu, k)
    ensures (bsig == 0) == (k == 0), bsig != 0 ==> eu - 1 <= bexp <= eu + 1 && (bexp == eu + 1 ==> g == b)
{
    lemma_ipow_012(b);
    let bb = b * b;
    assert(bb >= 2 * b) by (nonlinear_arith) requires bb == b * b, b >= 2;
    if bexp <= eu {
        let n = (eu - bexp) as nat;
        let q = ipow(b, n);
        lemma_ipow_pos(b, n);
        assert(2 * bsig == k * q);
        assert(k == 0 ==> k * q == 0) by (nonlinear_arith);
        assert(k >= 1 ==> k * q >= q) by (nonlinear_arith) requires q >= 1;
        if n >= 2 {
            lemma_ipow_le(b, 2, n);
        }
    } else {
        let n = (bexp - eu) as nat;
        let q = ipow(b, n);
        lemma_ipow_pos(b, n);
        let x = 2 * bsig;
        assert(k == x * q);
        assert(x == 0 ==> x * q == 0) by (nonlinear_arith);
        assert(x >= 2 ==> x * q >= 2 * q) by (nonlinear_arith) requires q >= 1;
        if n >= 2 {
            lemma_ipow_le(b, 2, n);
        }
        if n == 1 { assert(q == b); }
    }
}

// ------------------------------------------------------------------------------------------------
// the end points f - l and f + r

/// twice the end point, counted in fine steps b^eu: 2 m g - l2 (lower) resp. 2 m g + r2 (upper)
pub open spec fn sf_K(b: int, sig: int, p: int, minus: bool, k: int) -> int {
    2 * (sf_m(b, sig, p) * eb_g(b, sig)) + (if minus { -k } else { k })
}
/// the witness (S, E) of "f -/+ bound is representable with p + 1 digits": S * b^E is the end point, |S| <= b^(p+1)
pub open spec fn sf_wit(b: int, sig: int, exp: int, p: int, minus: bool, k: int) -> (int, int) {
    let K = sf_K(b, sig, p, minus, k);
    if k == 0 { (sig, exp) } else if k % 2 == 0 { (K / 2, sf_eu(b, sig, exp, p)) } else { (K * (b / 2), sf_eu(b, sig, exp, p) - 1) }
}

/// the three numbers f, bound, f -/+ bound at the exponent G = eu - 1; k = 2h even: the result is (mg -/+ h) * b^eu
pub proof fn lemma_ep_fdiff_even(b: int, sig: int, exp: int, eu: int, mg: int, bsig: int, bexp: int, h: int, minus: bool)
    requires b >= 2, eu <= exp, sig * ipow(b, (exp - eu) as nat) == mg, eu - 1 <= bexp, same_value(b, 2 * bsig, bexp, 2 * h, eu)
    ensures fdiff(b, sig, exp, if minus { bsig } else { -bsig }, bexp, mg + (if minus { -h } else { h }), eu)
{
    let G = eu - 1;
    let s2 = if minus { bsig } else { -bsig };
    let S = mg + (if minus { -h } else { h });
    lemma_ipow_012(b);
    lemma_va_shift(b, sig, exp, eu, G);
    lemma_sv_at(b, 2 * bsig, bexp, 2 * h, eu, G);
    let y = ipow(b, (bexp - G) as nat);
    let z2 = bsig * y;
    assert((2 * bsig) * y == 2 * z2) by (nonlinear_arith) requires z2 == bsig * y;
    assert((2 * h) * b == 2 * (h * b)) by (nonlinear_arith);
    assert(s2 * y == (if minus { z2 } else { -z2 })) by (nonlinear_arith) requires z2 == bsig * y, s2 == (if minus { bsig } else { -bsig });
    assert(S * b == mg * b + (if minus { -(h * b) } else { h * b })) by (nonlinear_arith) requires S == mg + (if minus { -h } else { h });
    lemma_fdiff_at(b, sig, exp, s2, bexp, S, eu, G);
}
/// k odd: the result is ((2 mg -/+ k) * b/2) * b^(eu-1)
pub proof fn lemma_ep_fdiff_odd(b: int, sig: int, exp: int, eu: int, mg: int, bsig: int, bexp: int, k: int, minus: bool)
    requires b >= 2, b % 2 == 0, eu <= exp, sig * ipow(b, (exp - eu) as nat) == mg, eu - 1 <= bexp, same_value(b, 2 * bsig, bexp, k, eu)
    ensures fdiff(b, sig, exp, if minus { bsig } else { -bsig }, bexp, (2 * mg + (if minus { -k } else { k })) * (b / 2), eu - 1)
{
    let G = eu - 1;
    let s2 = if minus { bsig } else { -bsig };
    let hb = b / 2;
    let K = 2 * mg + (if minus { -k } else { k });
    let S = K * hb;
    lemma_ipow_012(b);
    lemma_va_shift(b, sig, exp, eu, G);
    lemma_sv_at(b, 2 * bsig, bexp, k, eu, G);
    let y = ipow(b, (bexp - G) as nat);
    let z2 = bsig * y;
    assert((2 * bsig) * y == 2 * z2) by (nonlinear_arith) requires z2 == bsig * y;
    assert(z2 == k * hb) by (nonlinear_arith) requires 2 * z2 == k * b, b == 2 * hb;
    assert(s2 * y == (if minus { z2 } else { -z2 })) by (nonlinear_arith) requires z2 == bsig * y, s2 == (if minus { bsig } else { -bsig });
    assert(mg * b == (2 * mg) * hb) by (nonlinear_arith) requires b == 2 * hb;
    assert(S == (2 * mg) * hb + (if minus { -(k * hb) } else { k * hb })) by (nonlinear_arith)
        requires S == K * hb, K == 2 * mg + (if minus { -k } else { k });
    assert(S * 1 == S);
    lemma_fdiff_at(b, sig, exp, s2, bexp, S, G, G);
}
/// |mg -/+ h| <= b^(p+1) for h <= g <= b, |mg| = |m| g, |m| < b^p
pub proof fn lemma_ep_bound_even(b: int, bp: int, m: int, g: int, h: int, S: int)
    requires b >= 2, bp >= 1, iabs(m) + 1 <= bp, 1 <= g <= b, 0 <= h <= g, S == m * g + h || S == m * g - h
    ensures iabs(S) <= b * bp
{
    let am = iabs(m);
    let mg = m * g;
    assert(iabs(mg) == am * g) by (nonlinear_arith) requires mg == m * g, g >= 1, am == (if m < 0 { -m } else { m });
    assert((am + 1) * g <= b * bp) by (nonlinear_arith) requires am + 1 <= bp, 1 <= g <= b, am >= 0;
    assert((am + 1) * g == am * g + g) by (nonlinear_arith);
}
/// |K * b/2| <= b^(p+1) for |K| <= 2 b^p
pub proof fn lemma_ep_bound_odd(b: int, bp: int, K: int, S: int)
    requires b >= 2, b % 2 == 0, bp >= 1, iabs(K) <= 2 * bp, S == K * (b / 2)
    ensures iabs(S) <= b * bp, 2 * S == K * b
{
    let hb = b / 2;
    let aK = iabs(K);
    assert(iabs(S) == aK * hb) by (nonlinear_arith) requires S == K * hb, hb >= 1, aK == (if K < 0 { -K } else { K });
    assert(aK * hb <= b * bp) by (nonlinear_arith) requires aK <= 2 * bp, b == 2 * hb, hb >= 1, aK >= 0;
    assert(2 * S == K * b) by (nonlinear_arith) requires S == K * hb, b == 2 * hb;
}

/// f -/+ bound: the exact result equals S * b^E for the witness, which has room in p + 1 digits, and is K/2 fine steps.
/// The possible sizes k of the bound are taken from the DEFINITION of the modes (lemma_eb_unique / eb_table), not from the
/// code: towards zero 0, 1 or 2 half fine steps, away from zero 0, g or 2g.
pub proof fn lemma_endpoint(md: Mode, b: int, sig: int, exp: int, p: int, l2: int, r2: int, il: bool, ir: bool, minus: bool, bsig: int, bexp: int)
    requires
        eb_domain(b, sig, exp, p),
        0 <= l2 <= 2 * eb_g(b, sig), 0 <= r2 <= 2 * eb_g(b, sig),
        eb_exact(md, sf_m(b, sig, p), eb_g(b, sig), l2, r2, il, ir),
        0 <= bsig < b,
        half_units(b, bsig, bexp, sf_eu(b, sig, exp, p), if minus { l2 } else { r2 }),
    ensures ({
        let k = if minus { l2 } else { r2 };
        let w = sf_wit(b, sig, exp, p, minus, k);
        &&& fdiff(b, sig, exp, if minus { bsig } else { -bsig }, bexp, w.0, w.1)
        &&& iabs(w.0) <= ipow(b, (p + 1) as nat)
        &&& same_value(b, 2 * w.0, w.1, sf_K(b, sig, p, minus, k), sf_eu(b, sig, exp, p))
        &&& (bsig != 0 ==> sf_eu(b, sig, exp, p) - 1 <= bexp <= exp)
        &&& (bsig == 0) == (k == 0)
    })
{
    let (eu, m, g) = (sf_eu(b, sig, exp, p), sf_m(b, sig, p), eb_g(b, sig));
    let k = if minus { l2 } else { r2 };
    let K = sf_K(b, sig, p, minus, k);
    let w = sf_wit(b, sig, exp, p, minus, k);
    let mg = m * g;
    lemma_f_grid(b, sig, exp, p);
    lemma_eb_unique(md, m, g, l2, r2, il, ir);
    lemma_bound_exp(b, bsig, bexp, eu, k, g);
    let bp = ipow(b, p as nat);
    assert(ipow(b, (p + 1) as nat) == b * bp);
    lemma_ipow_pos(b, p as nat);
    let s2 = if minus { bsig } else { -bsig };
    lemma_ipow_012(b);
    assert((m > 0 ==> mg >= 1) && (m < 0 ==> mg <= -1)) by (nonlinear_arith) requires mg == m * g, g >= 1;
    let fe = ipow(b, (exp - eu) as nat);
    if k == 0 {
        // the bound is zero: f itself
        broadcast use ax_ndigits;
        let G = if exp <= bexp { exp } else { bexp };
        lemma_fdiff_at(b, sig, exp, s2, bexp, sig, exp, G);
        let y = ipow(b, (bexp - G) as nat);
        assert(s2 * y == 0) by (nonlinear_arith) requires s2 == 0;
        // |sig| < b^d <= b^p <= b^(p+1)
        lemma_ipow_le(b, ndigits(b, sig), p as nat);
        assert(b * bp >= bp) by (nonlinear_arith) requires b >= 2, bp >= 1;
        assert((2 * sig) * fe == 2 * mg) by (nonlinear_arith) requires sig * fe == mg;
    } else {
        let away = (sig > 0) != minus;
        assert(away ==> (k == g || k == 2 * g));
        assert(!away ==> k <= 2);
        if k % 2 == 0 {
            let h = k / 2;
            assert(w.0 == mg + (if minus { -h } else { h }) && w.1 == eu);
            lemma_ep_fdiff_even(b, sig, exp, eu, mg, bsig, bexp, h, minus);
            lemma_ep_bound_even(b, bp, m, g, h, w.0);
            assert((2 * w.0) * 1 == K * 1);
        } else {
            assert(k == 1);
            assert(w.0 == K * (b / 2) && w.1 == eu - 1);
            lemma_ep_fdiff_odd(b, sig, exp, eu, mg, bsig, bexp, k, minus);
            assert(iabs(K) <= 2 * bp) by {
                if away {
                    assert(g == 1);
                    assert(mg == m) by (nonlinear_arith) requires mg == m * g, g == 1;
                }
            }
            lemma_ep_bound_odd(b, bp, K, w.0);
        }
    }
}

/// from the float end point to the fraction: the value of `TryFrom<FBig> for RBig` on the exact difference / sum
pub proof fn lemma_endpoint_fv(b: int, zs: int, ze: int, S: int, E: int, K: int, eu: int, n: int, d: int)
    requires b >= 2, same_value(b, zs, ze, S, E), same_value(b, 2 * S, E, K, eu), fv(b, zs, ze, n, d)
    ensures fv(b, K, eu, 2 * n, d)
{
    lemma_fv_same(b, zs, ze, S, E, n, d);
    lemma_fv_double(b, S, E, n, d);
    lemma_fv_same(b, 2 * S, E, K, eu, 2 * n, d);
}

// ------------------------------------------------------------------------------------------------
// membership: "rounds to f"  <=>  "lies in the interval from left to right with the inclusion flags"

/// n/d == (K * Pn) / (2 * Pd) (cross-multiplied) compared with y/s: the sign of W = 2 y Pd - K Pn s decides
pub proof fn lemma_side(n: int, d: int, y: int, s: int, KP: int, Pd: int, W: int)
    requires d > 0, Pd > 0, (2 * n) * Pd == KP * d, W == (2 * y) * Pd - KP * s
    ensures (n * s <= y * d) == (0 <= W), (n * s < y * d) == (0 < W), (y * d <= n * s) == (W <= 0), (y * d < n * s) == (W < 0)
{
    let A = y * d - n * s;
    let c = 2 * Pd;
    // W * d == A * c, term by term
    let t1 = (2 * y) * Pd;
    let t2 = KP * s;
    let u = (2 * n) * Pd;
    assert(W * d == t1 * d - t2 * d) by (nonlinear_arith) requires W == t1 - t2;
    assert(t2 * d == u * s) by (nonlinear_arith) requires t2 == KP * s, u == KP * d;
    assert(A * c == (y * d) * c - (n * s) * c) by (nonlinear_arith) requires A == y * d - n * s;
    assert((y * d) * c == t1 * d) by (nonlinear_arith) requires c == 2 * Pd, t1 == (2 * y) * Pd;
    assert((n * s) * c == u * s) by (nonlinear_arith) requires c == 2 * Pd, u == (2 * n) * Pd;
    lemma_sign_prod(W, d);
    lemma_sign_prod(A, c);
}

/// the fraction y/s rounds to f = (m g) b^eu  <=>  it lies between the end points left = ln/ld (2 left == (2mg - l2) b^eu) and
/// right = un/ud (2 right == (2mg + r2) b^eu), an end point counting iff its flag is set
pub proof fn lemma_member_grid(md: Mode, b: int, m: int, g: int, eu: int, l2: int, r2: int, il: bool, ir: bool,
                               ln: int, ld: int, un: int, ud: int, yn: int, yd: int)
    requires
        b >= 2, ld >= 1, ud >= 1, yd >= 1,
        eb_exact(md, m, g, l2, r2, il, ir),
        fv(b, 2 * (m * g) - l2, eu, 2 * ln, ld),
        fv(b, 2 * (m * g) + r2, eu, 2 * un, ud),
    ensures in_round_grid(md, b, m, g, eu, yn, yd) == in_flag(ln, ld, un, ud, il, ir, yn, yd)
{
    let mg = m * g;
    let (KL, KR) = (2 * mg - l2, 2 * mg + r2);
    if eu >= 0 {
        let P = ipow(b, eu as nat);
        lemma_ipow_pos(b, eu as nat);
        let X = yn - (mg * P) * yd;
        let D = yd * P;
        assert(D > 0) by (nonlinear_arith) requires D == yd * P, yd >= 1, P >= 1;
        assert(in_round_grid(md, b, m, g, eu, yn, yd) == rounds_on_grid(md, m, g, X, D));
        assert(rounds_on_grid(md, m, g, X, D) == eb_in(X, D, l2, r2, il, ir));
        let (KLP, KRP) = (KL * P, KR * P);
        let WL = (2 * yn) * 1 - KLP * yd;
        let WR = (2 * yn) * 1 - KRP * yd;
        assert(2 * X + l2 * D == WL) by (nonlinear_arith)
            requires X == yn - (mg * P) * yd, D == yd * P, WL == (2 * yn) * 1 - KLP * yd, KLP == KL * P, KL == 2 * mg - l2;
        assert(2 * X - r2 * D == WR) by (nonlinear_arith)
            requires X == yn - (mg * P) * yd, D == yd * P, WR == (2 * yn) * 1 - KRP * yd, KRP == KR * P, KR == 2 * mg + r2;
        assert((2 * ln) * 1 == KLP * ld && (2 * un) * 1 == KRP * ud);
        lemma_side(ln, ld, yn, yd, KLP, 1, WL);
        lemma_side(un, ud, yn, yd, KRP, 1, WR);
    } else {
        let P = ipow(b, (-eu) as nat);
        lemma_ipow_pos(b, (-eu) as nat);
        let X = yn * P - mg * yd;
        let D = yd;
        assert(in_round_grid(md, b, m, g, eu, yn, yd) == rounds_on_grid(md, m, g, X, D));
        assert(rounds_on_grid(md, m, g, X, D) == eb_in(X, D, l2, r2, il, ir));
        let WL = (2 * yn) * P - KL * yd;
        let WR = (2 * yn) * P - KR * yd;
        assert(2 * X + l2 * D == WL) by (nonlinear_arith)
            requires X == yn * P - mg * yd, D == yd, WL == (2 * yn) * P - KL * yd, KL == 2 * mg - l2;
        assert(2 * X - r2 * D == WR) by (nonlinear_arith)
            requires X == yn * P - mg * yd, D == yd, WR == (2 * yn) * P - KR * yd, KR == 2 * mg + r2;
        lemma_side(ln, ld, yn, yd, KL, P, WL);
        lemma_side(un, ud, yn, yd, KR, P, WR);
    }
}
/// the same for a float sig * b^exp of precision p
pub proof fn lemma_member(md: Mode, b: int, sig: int, exp: int, p: int, l2: int, r2: int, il: bool, ir: bool,
                          ln: int, ld: int, un: int, ud: int, yn: int, yd: int)
    requires
        eb_domain(b, sig, exp, p), ld >= 1, ud >= 1, yd >= 1,
        eb_exact(md, sf_m(b, sig, p), eb_g(b, sig), l2, r2, il, ir),
        fv(b, sf_K(b, sig, p, true, l2), sf_eu(b, sig, exp, p), 2 * ln, ld),
        fv(b, sf_K(b, sig, p, false, r2), sf_eu(b, sig, exp, p), 2 * un, ud),
    ensures in_round_set(md, b, sig, exp, p, yn, yd) == in_flag(ln, ld, un, ud, il, ir, yn, yd)
{
    lemma_member_grid(md, b, sf_m(b, sig, p), eb_g(b, sig), sf_eu(b, sig, exp, p), l2, r2, il, ir, ln, ld, un, ud, yn, yd);
}

/// left < right: the rounding interval of a float of limited precision is not a single point
pub proof fn lemma_left_lt_right(b: int, K1: int, K2: int, eu: int, ln: int, ld: int, un: int, ud: int)
    requires b >= 2, ld >= 1, ud >= 1, K1 < K2, fv(b, K1, eu, 2 * ln, ld), fv(b, K2, eu, 2 * un, ud)
    ensures qlt(ln, ld, un, ud)
{
    if eu >= 0 {
        let P = ipow(b, eu as nat);
        lemma_ipow_pos(b, eu as nat);
        let (KLP, KRP) = (K1 * P, K2 * P);
        assert(KLP < KRP) by (nonlinear_arith) requires KLP == K1 * P, KRP == K2 * P, K1 < K2, P >= 1;
        let W = (2 * un) * 1 - KLP * ud;
        assert(W == (KRP - KLP) * ud) by (nonlinear_arith) requires W == (2 * un) * 1 - KLP * ud, 2 * un == KRP * ud;
        assert(W > 0) by (nonlinear_arith) requires W == (KRP - KLP) * ud, KLP < KRP, ud >= 1;
        assert((2 * ln) * 1 == KLP * ld);
        lemma_side(ln, ld, un, ud, KLP, 1, W);
    } else {
        let P = ipow(b, (-eu) as nat);
        lemma_ipow_pos(b, (-eu) as nat);
        let W = (2 * un) * P - K1 * ud;
        assert(W == (K2 - K1) * ud) by (nonlinear_arith) requires W == (2 * un) * P - K1 * ud, (2 * un) * P == K2 * ud;
        assert(W > 0) by (nonlinear_arith) requires W == (K2 - K1) * ud, K1 < K2, ud >= 1;
        lemma_side(ln, ld, un, ud, K1, P, W);
    }
}

// ------------------------------------------------------------------------------------------------
// the selection: interior candidate of simplest_in, then the inclusive end points

/// what the two `if`s of simplest_from_float compute from the interior candidate s0
pub open spec fn sf_pick(ln: int, ld: int, un: int, ud: int, il: bool, ir: bool, s0n: int, s0d: int) -> (int, int) {
    let s1 = if il && simpler(ld, ln, s0d, s0n) { (ln, ld) } else { (s0n, s0d) };
    if ir && simpler(ud, un, s1.1, s1.0) { (un, ud) } else { s1 }
}
/// a fraction equal to a canonical one is not simpler than it
pub proof fn lemma_equal_not_simpler(p: int, s: int, n: int, d: int)
    requires s >= 1, wf_ratio(n, d), p * d == n * s
    ensures !simpler(s, p, d, n)
{
    lemma_reduced_le(p, s, n, d);
    lemma_sign_prod(p, d);
    lemma_sign_prod(n, s);
}
/// for left < right "strictly between in either order" is left < x < right
pub proof fn lemma_between_oriented(ln: int, ld: int, un: int, ud: int, p: int, s: int)
    requires ld >= 1, ud >= 1, s >= 1, qlt(ln, ld, un, ud), strictly_between(ln, ld, un, ud, p, s)
    ensures qlt(ln, ld, p, s), qlt(p, s, un, ud)
{
    if qlt(un, ud, p, s) && qlt(p, s, ln, ld) {
        lemma_cf_between(un, ud, ln, ld, p, s);
        lemma_q_irrefl(ln, ld, un, ud);
    }
}
/// a fraction strictly inside is not simpler than the interior candidate
pub proof fn lemma_inside_not_simpler(ln: int, ld: int, un: int, ud: int, s0n: int, s0d: int, p: int, s: int)
    requires ld >= 1, ud >= 1, s >= 1, qlt(ln, ld, un, ud), is_simplest_in(ln, ld, un, ud, s0n, s0d), qlt(ln, ld, p, s), qlt(p, s, un, ud)
    ensures !simpler(s, p, s0d, s0n)
{
    assert(strictly_between(ln, ld, un, ud, p, s));
    assert(s >= s0d && rabs(p) >= rabs(s0n));
    if s == s0d && rabs(p) == rabs(s0n) && p >= 0 && s0n < 0 {
        // left < s0 < 0 <= p/s < right: 0 = 0/1 is strictly inside, so s0 would be 0
        lemma_between_oriented(ln, ld, un, ud, s0n, s0d);
        lemma_sign_prod(s0n, ld);
        lemma_sign_prod(ln, s0d);
        lemma_sign_prod(p, ud);
        lemma_sign_prod(un, s);
        assert(ln < 0);
        assert(un > 0);
        assert(ln * 1 == ln && un * 1 == un && 0 * ld == 0 && 0 * ud == 0) by (nonlinear_arith);
        assert(strictly_between(ln, ld, un, ud, 0, 1));
        assert(rabs(0) >= rabs(s0n));
    }
}

/// membership and optimality of the selected fraction in the flagged interval
pub proof fn lemma_pick(ln: int, ld: int, un: int, ud: int, il: bool, ir: bool, s0n: int, s0d: int)
    requires wf_ratio(ln, ld), wf_ratio(un, ud), wf_ratio(s0n, s0d), qlt(ln, ld, un, ud), is_simplest_in(ln, ld, un, ud, s0n, s0d)
    ensures ({
        let r = sf_pick(ln, ld, un, ud, il, ir, s0n, s0d);
        &&& wf_ratio(r.0, r.1)
        &&& in_flag(ln, ld, un, ud, il, ir, r.0, r.1)
        &&& forall|p: int, s: int| s >= 1 && #[trigger] in_flag(ln, ld, un, ud, il, ir, p, s) ==> !simpler(s, p, r.1, r.0)
    })
{
    let r = sf_pick(ln, ld, un, ud, il, ir, s0n, s0d);
    lemma_between_oriented(ln, ld, un, ud, s0n, s0d);
    assert forall|p: int, s: int| s >= 1 && #[trigger] in_flag(ln, ld, un, ud, il, ir, p, s) implies !simpler(s, p, r.1, r.0) by {
        if il && p * ld == ln * s {
            lemma_equal_not_simpler(p, s, ln, ld);
        } else if ir && p * ud == un * s {
            lemma_equal_not_simpler(p, s, un, ud);
        } else {
            lemma_inside_not_simpler(ln, ld, un, ud, s0n, s0d, p, s);
        }
    }
}

/// the domain of the contract of simplest_from_float: an infinity, zero, or a float of LIMITED precision p >= 1 in an EVEN
/// base whose significand is normalized (not divisible by the base: invariant of float Repr) and fits the precision
/// (invariant of FBig) -- the domain eb_domain of the error_bounds contract -- with precision and exponents inside the
/// resource limits of FBig + / - (2^56; exponent overflow is a documented panic, C16).
/// ODD bases are EXCLUDED: known finding (engine/registry_d/findings.py, kani/harness/float_findings.rs): half an ulp has
/// no finite expansion in an odd base, error_bounds rounds it up and simplest_from_float(0.1 base 3, 1 digit) = 1/2.
pub open spec fn sf_domain<R: Round, const B: Word>(f: FBig<R, B>) -> bool {
    let (b, sig, exp, p) = (B as int, f.repr.significand.v(), f.repr.exponent as int, f.context.precision as int);
    let lim = 0x100_0000_0000_0000int;
    sig == 0 || (eb_domain(b, sig, exp, p) && p + 1 < lim && exp < lim && -lim + 3 < exp + ndigits(b, sig) - p)
}

/// what is known about `f - y` / `f + y` for EVERY y with the representation (bsig, bexp) and precision p + 1 (the bound
/// after `.with_precision(p + 1).unwrap()`, an intermediate value without a name): from the TRUSTED ax_fbig_sub / _add
pub open spec fn sf_res_ok<R: Round, const B: Word>(f: FBig<R, B>, z: FBig<R, B>, S: int, E: int) -> bool {
    &&& z.context.precision == f.context.precision + 1
    &&& !(z.repr.significand.v() == 0 && z.repr.exponent != 0)
    &&& z.repr.exponent > isize::MIN
    &&& same_value(B as int, z.repr.significand.v(), z.repr.exponent as int, S, E)
}
pub open spec fn sf_is_bound<R: Round, const B: Word>(y: FBig<R, B>, bsig: int, bexp: int, p1: int) -> bool {
    y.repr.significand.v() == bsig && y.repr.exponent == bexp && y.context.precision == p1
}

/// everything simplest_from_float needs after `R::error_bounds(f)`: the sizes (l2, r2) of the two bounds in half fine
/// steps, the preconditions of with_precision / unwrap / - / +, and the value of lb, rb (quantified over the unnamed bound)
pub proof fn lemma_sf_pre<R: Round, const B: Word>(md: Mode, f: FBig<R, B>, l: FBig<R, B>, r: FBig<R, B>, il: bool, ir: bool) -> (k: (int, int))
    requires
        B >= 2, f.repr.significand.v() != 0, sf_domain(f),
        eb_post(md, B as int, f.repr.significand.v(), f.repr.exponent as int, f.context.precision as int,
            l.repr.significand.v(), l.repr.exponent as int, r.repr.significand.v(), r.repr.exponent as int, il, ir),
        eb_shape(f.context.precision, l), eb_shape(f.context.precision, r),
    ensures ({
        let (b, sig, exp, p) = (B as int, f.repr.significand.v(), f.repr.exponent as int, f.context.precision as int);
        let (eu, m, g) = (sf_eu(b, sig, exp, p), sf_m(b, sig, p), eb_g(b, sig));
        let lim = 0x100_0000_0000_0000int;
        let (wl, wr) = (sf_wit(b, sig, exp, p, true, k.0), sf_wit(b, sig, exp, p, false, k.1));
        &&& 0 <= k.0 <= 2 * g && 0 <= k.1 <= 2 * g && k.0 + k.1 > 0
        &&& eb_exact(md, m, g, k.0, k.1, il, ir)
        // with_precision(p + 1) is exact, `-` / `+` are inside their limits
        &&& ndigits(b, l.repr.significand.v()) <= 1 && ndigits(b, r.repr.significand.v()) <= 1
        &&& fbig_wf(l) && fbig_wf(r)
        &&& -lim < l.repr.exponent < lim && -lim < r.repr.exponent < lim && -lim < exp < lim
        &&& ndigits(b, sig) <= p
        // the end points
        &&& same_value(b, 2 * wl.0, wl.1, sf_K(b, sig, p, true, k.0), eu)
        &&& same_value(b, 2 * wr.0, wr.1, sf_K(b, sig, p, false, k.1), eu)
        &&& forall|y: FBig<R, B>| sf_is_bound(y, l.repr.significand.v(), l.repr.exponent as int, p + 1) ==> sf_res_ok(f, #[trigger] fbig_sub(f, y), wl.0, wl.1)
        &&& forall|y: FBig<R, B>| sf_is_bound(y, r.repr.significand.v(), r.repr.exponent as int, p + 1) ==> sf_res_ok(f, #[trigger] fbig_add(f, y), wr.0, wr.1)
    })
{
    let (b, sig, exp, p) = (B as int, f.repr.significand.v(), f.repr.exponent as int, f.context.precision as int);
    let (eu, m, g) = (sf_eu(b, sig, exp, p), sf_m(b, sig, p), eb_g(b, sig));
    let (lsig, lexp, rsig, rexp) = (l.repr.significand.v(), l.repr.exponent as int, r.repr.significand.v(), r.repr.exponent as int);
    let k = choose|l2: int, r2: int| 0 <= l2 <= 2 * g && 0 <= r2 <= 2 * g && half_units(b, lsig, lexp, eu, l2) && half_units(b, rsig, rexp, eu, r2)
        && #[trigger] eb_exact(md, m, g, l2, r2, il, ir);
    let (l2, r2) = k;
    lemma_f_grid(b, sig, exp, p);
    lemma_eb_unique(md, m, g, l2, r2, il, ir);
    lemma_one_digit(b, lsig);
    lemma_one_digit(b, rsig);
    lemma_endpoint(md, b, sig, exp, p, l2, r2, il, ir, true, lsig, lexp);
    lemma_endpoint(md, b, sig, exp, p, l2, r2, il, ir, false, rsig, rexp);
    let (wl, wr) = (sf_wit(b, sig, exp, p, true, l2), sf_wit(b, sig, exp, p, false, r2));
    assert forall|y: FBig<R, B>| sf_is_bound(y, lsig, lexp, p + 1) implies sf_res_ok(f, #[trigger] fbig_sub(f, y), wl.0, wl.1) by {
        ax_fbig_sub(f, y, wl.0, wl.1);
    }
    assert forall|y: FBig<R, B>| sf_is_bound(y, rsig, rexp, p + 1) implies sf_res_ok(f, #[trigger] fbig_add(f, y), wr.0, wr.1) by {
        ax_fbig_add(f, y, wr.0, wr.1);
    }
    k
}

/// the end of simplest_from_float: from the two converted end points and the interior candidate to the contract
pub proof fn lemma_sf_final(md: Mode, b: int, sig: int, exp: int, p: int, l2: int, r2: int, il: bool, ir: bool,
                            lbs: int, lbe: int, rbs: int, rbe: int, ln: int, ld: int, un: int, ud: int, s0n: int, s0d: int)
    requires
        eb_domain(b, sig, exp, p), 0 <= l2, 0 <= r2, l2 + r2 > 0,
        eb_exact(md, sf_m(b, sig, p), eb_g(b, sig), l2, r2, il, ir),
        same_value(b, lbs, lbe, sf_wit(b, sig, exp, p, true, l2).0, sf_wit(b, sig, exp, p, true, l2).1),
        same_value(b, rbs, rbe, sf_wit(b, sig, exp, p, false, r2).0, sf_wit(b, sig, exp, p, false, r2).1),
        same_value(b, 2 * sf_wit(b, sig, exp, p, true, l2).0, sf_wit(b, sig, exp, p, true, l2).1, sf_K(b, sig, p, true, l2), sf_eu(b, sig, exp, p)),
        same_value(b, 2 * sf_wit(b, sig, exp, p, false, r2).0, sf_wit(b, sig, exp, p, false, r2).1, sf_K(b, sig, p, false, r2), sf_eu(b, sig, exp, p)),
        fv(b, lbs, lbe, ln, ld), fv(b, rbs, rbe, un, ud),
        wf_ratio(ln, ld), wf_ratio(un, ud), wf_ratio(s0n, s0d),
        !(ln == un && ld == ud) ==> is_simplest_in(ln, ld, un, ud, s0n, s0d),
    ensures
        sf_post(md, b, sig, exp, p, sf_pick(ln, ld, un, ud, il, ir, s0n, s0d).0, sf_pick(ln, ld, un, ud, il, ir, s0n, s0d).1)
{
    let eu = sf_eu(b, sig, exp, p);
    let (wl, wr) = (sf_wit(b, sig, exp, p, true, l2), sf_wit(b, sig, exp, p, false, r2));
    let (KL, KR) = (sf_K(b, sig, p, true, l2), sf_K(b, sig, p, false, r2));
    lemma_endpoint_fv(b, lbs, lbe, wl.0, wl.1, KL, eu, ln, ld);
    lemma_endpoint_fv(b, rbs, rbe, wr.0, wr.1, KR, eu, un, ud);
    assert(KL < KR);
    lemma_left_lt_right(b, KL, KR, eu, ln, ld, un, ud);
    assert(!(ln == un && ld == ud));
    lemma_pick(ln, ld, un, ud, il, ir, s0n, s0d);
    let r = sf_pick(ln, ld, un, ud, il, ir, s0n, s0d);
    lemma_member(md, b, sig, exp, p, l2, r2, il, ir, ln, ld, un, ud, r.0, r.1);
    assert forall|qn: int, qd: int| qd >= 1 && #[trigger] in_round_set(md, b, sig, exp, p, qn, qd) implies !simpler(qd, qn, r.1, r.0) by {
        lemma_member(md, b, sig, exp, p, l2, r2, il, ir, ln, ld, un, ud, qn, qd);
        assert(in_flag(ln, ld, un, ud, il, ir, qn, qd));
    }
}
