// ---- fp_once_stub.rs: `Context::convert_to_binary_once` (float/src/convert.rs) as seen by the units float_to_prim_repr /
// float_to_prim_fbig.  NOT an assumption about unverified code: the contract is, by construction, the one the function is
// VERIFIED against in unit float_to_prim_once (the annotated copy contracts/annot/float/to_prim/convert_to_binary_once.rs
// has exactly `requires fp_once_pre::<B>(self.precision, repr), ensures fp_once_post::<B>(R::md(), self.precision, repr,
// ret)`; both spec functions live in fp_spec.rs).  A library stub instead of `//@@ SIG` so that the units still build
// on a tree where the helper does not exist (the revert of the repair eabe4cf must be judged, not lost).
impl<R: Round> Context<R> {
    #[verifier::external_body]
    pub fn convert_to_binary_once<const B: Word>(&self, repr: Repr<B>) -> (ret: Rounded<Repr<2>>)
        requires fp_once_pre::<B>(self.precision, repr),
        ensures fp_once_post::<B>(R::md(), self.precision, repr, ret),
    { unimplemented!() }
}
