// ---- im_pow_stubs.rs: further READ-ONLY views / constants that a change of UBig::pow / IBig::pow (integer/src/pow.rs)
// may reach besides lib/pow_api_stubs.rs.  Needs lib/prelude.rs, lib/sign.rs, lib/repr_stubs.rs, lib/pow_api_stubs.rs.
// TRUSTED (each states what the real item does on the mathematical value):
//   bits.rs:351 TypedReprRef::is_power_of_two: the value is 2^k for some k >= 0 (false for zero);
//   ubig.rs / ibig.rs constants ZERO / ONE / NEG_ONE;  shift_ops.rs `UBig << usize`, `IBig << usize` = value * 2^s
//   (multiplication by 2^s keeps the sign), `UBig >> usize` = floor(value / 2^s);
//   bits.rs:200 `PowerOfTwo for UBig`, bits.rs IBig::trailing_zeros (of the magnitude).
pub mod im_pow_stub {
use super::*;
/// v == 2^k for some k >= 0
pub open spec fn im_is_pow2(v: int) -> bool { exists|k: int| k >= 0 && #[trigger] pow2(k) == v }

impl<'a> TypedReprRef<'a> {
    #[verifier::external_body]
    pub fn is_power_of_two(self) -> (r: bool)
        requires self.wf(),
        ensures r == im_is_pow2(self.v()),
    { unimplemented!() }
}
impl UBig {
    #[verifier::external_body] pub exec const ZERO: UBig ensures Self::ZERO.0.v() == 0 { unsafe { core::mem::zeroed() } }
    #[verifier::external_body] pub exec const ONE: UBig ensures Self::ONE.0.v() == 1 { unsafe { core::mem::zeroed() } }
    #[verifier::external_body]
    pub fn is_power_of_two(&self) -> (r: bool)
        requires self.0.v() >= 0,
        ensures r == im_is_pow2(self.0.v()),
    { unimplemented!() }
}
impl IBig {
    #[verifier::external_body] pub exec const ZERO: IBig ensures Self::ZERO.0.v() == 0 { unsafe { core::mem::zeroed() } }
    #[verifier::external_body] pub exec const ONE: IBig ensures Self::ONE.0.v() == 1 { unsafe { core::mem::zeroed() } }
    #[verifier::external_body] pub exec const NEG_ONE: IBig ensures Self::NEG_ONE.0.v() == -1 { unsafe { core::mem::zeroed() } }
    #[verifier::external_body]
    pub fn trailing_zeros(&self) -> (r: Option<usize>)
        ensures tz_post(iabs(self.0.v()), r),
    { unimplemented!() }
}
// (a UBig / IBig is determined by its value: repr_of, lib/repr_stubs.rs)
pub open spec fn im_ubig_of(i: int) -> UBig { UBig(repr_of(i)) }
pub open spec fn im_ibig_of(i: int) -> IBig { IBig(repr_of(i)) }

impl vstd::std_specs::ops::ShlSpecImpl<usize> for IBig {
    open spec fn obeys_shl_spec() -> bool { true }
    open spec fn shl_req(self, rhs: usize) -> bool { true }
    open spec fn shl_spec(self, rhs: usize) -> IBig { im_ibig_of(self.0.v() * pow2(rhs as int)) }
}
impl core::ops::Shl<usize> for IBig { type Output = IBig;
    #[verifier::external_body]
    fn shl(self, rhs: usize) -> IBig { unimplemented!() }
}
impl vstd::std_specs::ops::ShlSpecImpl<usize> for UBig {
    open spec fn obeys_shl_spec() -> bool { true }
    open spec fn shl_req(self, rhs: usize) -> bool { self.0.v() >= 0 }
    open spec fn shl_spec(self, rhs: usize) -> UBig { im_ubig_of(self.0.v() * pow2(rhs as int)) }
}
impl core::ops::Shl<usize> for UBig { type Output = UBig;
    #[verifier::external_body]
    fn shl(self, rhs: usize) -> UBig { unimplemented!() }
}
} // mod im_pow_stub
pub use im_pow_stub::*;
