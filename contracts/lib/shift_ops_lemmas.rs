// ---- shift_ops_lemmas.rs: value lemmas for the buffer-level shifts of integer/src/shift_ops.rs (mod repr).
// Needs prelude.rs, shift_bv.rs, bits_repr_lemmas.rs (lemma_br_pw_pow2).  Word = @W@.

/// appending a word adds it at weight B^len
pub proof fn lemma_so_val_push(s: Seq<Word>, c: Word)
    ensures val(s.push(c)) == val(s) + (c as int) * pw(s.len() as int),
{
    let t = s.push(c);
    lemma_valn_ext(t, s, s.len() as int);
    assert(val(t) == valn(t, s.len() as int) + (t[s.len() as int] as int) * pw(s.len() as int));
}

/// value of a concatenation
pub proof fn lemma_so_val_concat(a: Seq<Word>, b: Seq<Word>)
    ensures val(a + b) == val(a) + pw(a.len() as int) * val(b),
{
    let s = a + b;
    let k = a.len() as int;
    lemma_valn_split(s, k, s.len() as int);
    assert(s.subrange(k, s.len() as int) =~= b);
    lemma_valn_ext(s, a, k);
}

/// value of an all-zero sequence
pub proof fn lemma_so_val_zeros(z: Seq<Word>)
    requires forall|j: int| 0 <= j < z.len() ==> z[j] == 0,
    ensures val(z) == 0,
{
    lemma_valn_zero(z, 0, z.len() as int);
}

/// zero words in front multiply by B^k
pub proof fn lemma_so_val_zeros_front(z: Seq<Word>, s: Seq<Word>)
    requires forall|j: int| 0 <= j < z.len() ==> z[j] == 0,
    ensures val(z + s) == pw(z.len() as int) * val(s),
{
    lemma_so_val_concat(z, s);
    lemma_so_val_zeros(z);
}

/// 2^(k·BITS + b) = B^k · 2^b
pub proof fn lemma_so_pow2_split(k: int, b: int)
    requires k >= 0, b >= 0,
    ensures pow2(k * @BITS@ + b) == pw(k) * pow2(b), pw(k) >= 1, pow2(b) >= 1,
{
    lemma_br_pw_pow2(k);
    lemma_sh_pow2_add(k * @BITS@, b);
    lemma_pw_pos(k);
    lemma_sh_pow2_pos(b);
}

/// left shift by whole words and bits:  B^k · (v · 2^b) = v · 2^(k·BITS + b)
pub proof fn lemma_so_shl_total(v: int, shifted: int, k: int, b: int)
    requires k >= 0, b >= 0, shifted == v * pow2(b),
    ensures pw(k) * shifted == v * pow2(k * @BITS@ + b),
{
    lemma_so_pow2_split(k, b);
    assert(pw(k) * (v * pow2(b)) == v * (pw(k) * pow2(b))) by (nonlinear_arith);
}

/// dropping k low words then b bits is floor division by 2^(k·BITS + b)
pub proof fn lemma_so_shr_total(a: Seq<Word>, k: int, b: int)
    requires 0 <= k <= a.len(), b >= 0,
    ensures val(a) / pow2(k * @BITS@ + b) == val(a.subrange(k, a.len() as int)) / pow2(b),
{
    let len = a.len() as int;
    let hi = a.subrange(k, len);
    lemma_valn_split(a, k, len);
    assert(val(a) == valn(a, k) + pw(k) * val(hi));
    lemma_valn_bound(a, k);
    lemma_so_pow2_split(k, b);
    assert(pw(k) * val(hi) == val(hi) * pw(k)) by (nonlinear_arith);
    vstd::arithmetic::div_mod::lemma_fundamental_div_mod_converse(val(a), pw(k), val(hi), valn(a, k));
    lemma_valn_bound(a, len);
    vstd::arithmetic::div_mod::lemma_div_denominator(val(a), pw(k), pow2(b));
}

/// shifting out everything: a number below 2^n divided by 2^n is 0
pub proof fn lemma_so_shr_all(a: Seq<Word>, n: int)
    requires n >= a.len() * @BITS@,
    ensures val(a) / pow2(n) == 0,
{
    lemma_valn_bound(a, a.len() as int);
    lemma_br_pw_pow2(a.len() as int);
    lemma_sh_pow2_mono((a.len() * @BITS@) as int, n);
    vstd::arithmetic::div_mod::lemma_fundamental_div_mod_converse(val(a), pow2(n), 0, val(a));
}

/// x >> s == floor(x / 2^s) on double words
pub proof fn lemma_so_shr_div_d(x: @D@, s: u32)
    requires s < 2 * @BITS@,
    ensures (x >> s) as int == (x as int) / pow2(s as int),
    decreases s
{
    if s == 0 {
        assert(x >> 0u32 == x) by (bit_vector);
    } else {
        let t = (s - 1) as u32;
        lemma_so_shr_div_d(x, t);
        lemma_sh_pow2_pos(t as int);
        let y = x >> t;
        assert(x >> s == (x >> t) >> 1u32) by (bit_vector) requires 0 < s < 2 * @BITS@, t == s - 1;
        assert((y >> 1u32) == y / (2 as @D@)) by (bit_vector);
        let p = pow2(t as int);
        let xi = x as int;
        assert((xi / p) / 2 == xi / (p * 2)) by {
            vstd::arithmetic::div_mod::lemma_div_denominator(xi, p, 2);
        }
    }
}
