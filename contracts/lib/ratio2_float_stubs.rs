// ---- ratio2_float_stubs.rs: dashu-float's `Repr<B>` (alias FBigRepr in rational/src/third_party/dashu_float.rs),
// dashu_base::ConversionError and UBig::{from_word, pow} as seen from dashu-ratio; the value vocabulary of the
// float -> rational conversions.  Include after lib/ratio_lemmas.rs, lib/bigstub.rs, lib/ratio_types.rs.
// Every external_body item is a TRUSTED ASSUMPTION.
pub mod ratio2_float_stubs {
use super::*;

pub type Word = u64;   // dashu_int::Word on 64-bit targets

// b^e
pub open spec fn rpow(b: int, e: nat) -> int decreases e { if e == 0 { 1 } else { b * rpow(b, (e - 1) as nat) } }
pub proof fn lemma_rpow_pos(b: int, e: nat)
    requires b >= 1
    ensures rpow(b, e) >= 1
    decreases e
{
    if e > 0 {
        lemma_rpow_pos(b, (e - 1) as nat);
        let p = rpow(b, (e - 1) as nat);
        assert(b * p >= 1) by (nonlinear_arith) requires b >= 1, p >= 1;
    }
}

// base/src/error.rs (enum mirrored)
#[derive(Clone, Copy, Debug, Eq, PartialEq)]
pub enum ConversionError { OutOfBounds, LossOfPrecision }

// float/src/repr.rs `pub struct Repr<const BASE: Word> { significand: IBig, exponent: isize }`: abstract, observed
// through sig() / exp(); value = sig * B^exp, "infinite" = zero significand with non-zero exponent.
#[verifier::external_body]
pub struct FBigRepr<const B: Word> { _p: u8 }
impl<const B: Word> FBigRepr<B> {
    pub uninterp spec fn sig(&self) -> int;
    pub uninterp spec fn exp(&self) -> int;
    pub open spec fn infinite(&self) -> bool { self.sig() == 0 && self.exp() != 0 }
    // TRUSTED (float/src/repr.rs): `self.significand.is_zero() && self.exponent != 0`
    #[verifier::external_body]
    pub fn is_infinite(&self) -> (r: bool) ensures r == self.infinite() { unimplemented!() }
    // TRUSTED (float/src/repr.rs): `(self.significand, self.exponent)`
    #[verifier::external_body]
    pub fn into_parts(self) -> (r: (IBig, isize)) ensures r.0.v() == self.sig(), r.1 as int == self.exp() { unimplemented!() }
}
impl UBig {
    // TRUSTED (integer/src/ubig.rs, integer/src/pow.rs): the word as a number; exact power
    #[verifier::external_body]
    pub fn from_word(word: Word) -> (r: UBig) ensures r.v() == word as int { unimplemented!() }
    #[verifier::external_body]
    pub fn pow(&self, exp: usize) -> (r: UBig) ensures r.v() == rpow(self.v(), exp as nat) { unimplemented!() }
}

// n/d == sig * base^e  (d > 0), cross-multiplied
pub open spec fn float_val_eq(sig: int, base: int, e: int, n: int, d: int) -> bool {
    if e >= 0 { n == (sig * rpow(base, e as nat)) * d } else { n * rpow(base, (-e) as nat) == sig * d }
}
// contract of `TryFrom<FBigRepr<B>> for Repr`: infinities are rejected, everything else converts exactly
pub open spec fn float_to_repr_post<const B: Word>(v: FBigRepr<B>, r: Result<Repr, ConversionError>) -> bool {
    if v.infinite() {
        r matches Err(e) && e == ConversionError::OutOfBounds
    } else {
        r matches Ok(x) && x.denominator.v() >= 1 && float_val_eq(v.sig(), B as int, v.exp(), x.numerator.v(), x.denominator.v())
    }
}
// same value, other representation: y/yd == x/xd
pub open spec fn red_rel(x: Repr, y: Repr) -> bool {
    y.numerator.v() * x.denominator.v() == x.numerator.v() * y.denominator.v()
}
pub proof fn lemma_float_val_red(sig: int, base: int, e: int, n: int, d: int, n1: int, d1: int)
    requires d >= 1, d1 >= 1, float_val_eq(sig, base, e, n, d), n1 * d == n * d1
    ensures float_val_eq(sig, base, e, n1, d1)
{
    if e >= 0 {
        let vv = sig * rpow(base, e as nat);
        assert(n1 == vv * d1) by (nonlinear_arith) requires n == vv * d, n1 * d == n * d1, d >= 1;
    } else {
        let p = rpow(base, (-e) as nat);
        assert(n1 * p == sig * d1) by (nonlinear_arith) requires n * p == sig * d, n1 * d == n * d1, d >= 1;
    }
}

// rational/src/third_party/dashu_float.rs `impl<const B: Word> TryFrom<FBigRepr<B>> for Repr` as seen by its callers
// (`Repr::try_from(value)` in forward_conversion_to_repr!).  The contract is the predicate `float_to_repr_post` that
// the real function body is PROVED against in unit ratio_from_float (hoisted copy `repr_try_from_float`); the
// precondition (base >= 2, exponent > isize::MIN) is repeated by the callers' contracts.
impl<const B: Word> TryFrom<FBigRepr<B>> for Repr {
    type Error = ConversionError;
    #[verifier::external_body]
    fn try_from(value: FBigRepr<B>) -> (r: Result<Repr, ConversionError>)
        ensures B >= 2 && value.exp() > isize::MIN as int ==> float_to_repr_post(value, r)
    { unimplemented!() }
}

} // mod ratio2_float_stubs
pub use ratio2_float_stubs::*;
