// ---- parse_stubs.rs: what integer/src/parse/{mod,power_two,non_power_two}.rs call outside themselves (C07 parsing half)
// Needs lib/prelude.rs, lib/sign.rs, lib/repr_stubs.rs (Buffer, Repr), lib/pow_lemmas.rs (ipow), lib/pow_api_stubs.rs
// (the mirrors `pub struct UBig(pub Repr)` / `pub struct IBig(pub Repr)`).
//
// TRUSTED (every contract states what the real function does; the ones marked K are exactly what a COMPLETE Kani harness
// of group int_radix proves on the real code):
//   ParseError                       transcription of base/src/error.rs:27-37
//   radix::is_radix_valid        K   vk_int_radix_is_radix_valid: ret == (2 <= radix <= 36)
//   radix::digit_from_ascii_byte K   vk_int_radix_digit_from_ascii_byte (all 256 bytes x all 35 radices): Some(d) iff the byte
//                                    is a character of the alphabet 0-9, a-z / A-Z whose value d is below the radix
//                                    (+ vk_int_radix_digit_from_ascii_byte_bad_radix: the `assert!` on the radix => requires)
//   radix::radix_info            K   vk_int_radix_info_tables (every non-power-of-two radix 3..=36; 64-bit words):
//                                    digits_per_word >= 1, radix^digits_per_word == range_per_word <= Word::MAX,
//                                    range_per_word * radix > Word::MAX.  RadixInfo is mirrored with the two fields the
//                                    parsers read (radix.rs:60-76 has two more: precomputed dividers).
//   `Word -> UBig` (convert.rs:704 `UBig::from_unsigned` -> Repr::from_unsigned): the value of the word
//   `&UBig * &UBig`, `UBig * &UBig`, `UBig + UBig` (mul_ops.rs / add_ops.rs): exact product / sum of non-negative values
//                                    (C01: units int_mul_ops / int_add_ops prove the representation-level dispatch)

#[derive(Debug, Clone, Copy, PartialEq, Eq, Structural)]
pub enum ParseError { NoDigits, InvalidDigit, UnsupportedRadix, InconsistentRadix }

pub mod radix {
    use super::*;
    pub type Digit = u32;

    pub open spec fn spec_is_radix_valid(radix: Digit) -> bool { 2 <= radix <= 36 }
    // radix.rs:22-24
    #[verifier::external_body]
    #[verifier::when_used_as_spec(spec_is_radix_valid)]
    pub const fn is_radix_valid(radix: Digit) -> (r: bool) ensures r == spec_is_radix_valid(radix) { unimplemented!() }

    /// "a valid radix that is not a power of two" (what every function of parse/non_power_two.rs debug-asserts)
    pub open spec fn radix_ok(radix: Digit) -> bool {
        2 <= radix <= 36 && radix != 2 && radix != 4 && radix != 8 && radix != 16 && radix != 32
    }
    /// "a valid radix that is a power of two" (parse/power_two.rs)
    pub open spec fn radix_p2(radix: Digit) -> bool { radix == 2 || radix == 4 || radix == 8 || radix == 16 || radix == 32 }
    /// log2 of a power-of-two radix
    pub open spec fn log_radix(radix: Digit) -> int {
        if radix == 2 { 1 } else if radix == 4 { 2 } else if radix == 8 { 3 } else if radix == 16 { 4 } else { 5 }
    }

    // radix.rs:42-56
    #[verifier::external_body]
    pub const fn digit_from_ascii_byte(byte: u8, radix: Digit) -> (r: Option<Digit>)
        requires 2 <= radix <= 36,
        ensures is_dig(byte, radix as int) ==> r == Some(dig_of(byte) as Digit),
            !is_dig(byte, radix as int) ==> r is None,
    { unimplemented!() }

    /// radix.rs:60-76 (the two fields read by the parsers)
    #[derive(Clone, Copy)]
    pub struct RadixInfo {
        pub digits_per_word: usize,
        pub range_per_word: Word,
    }

    /// the largest k with radix^k <= Word::MAX
    pub uninterp spec fn dpw(radix: Digit) -> int;
    /// radix^dpw(radix)
    pub uninterp spec fn rpw(radix: Digit) -> int;
    pub uninterp spec fn spec_radix_info(radix: Digit) -> RadixInfo;

    #[verifier::external_body]
    pub broadcast proof fn ax_radix_info(radix: Digit)
        requires radix_ok(radix),
        ensures #![trigger dpw(radix)] #![trigger rpw(radix)] #![trigger spec_radix_info(radix)]
            1 <= dpw(radix), 3 <= rpw(radix) < B(),
            rpw(radix) == ipow(radix as int, dpw(radix)),
            rpw(radix) * (radix as int) >= B(),
            spec_radix_info(radix).digits_per_word as int == dpw(radix),
            spec_radix_info(radix).range_per_word as int == rpw(radix),
    {}

    // radix.rs:90-97
    #[verifier::external_body]
    #[verifier::when_used_as_spec(spec_radix_info)]
    pub fn radix_info(radix: Digit) -> (r: RadixInfo)
        requires 2 <= radix <= 36,
        ensures r == spec_radix_info(radix),
    { unimplemented!() }
}
pub use radix::{Digit, radix_ok, radix_p2, log_radix, dpw, rpw};

/// modelling assumption as for `repr_of` (lib/repr_stubs.rs): a UBig is determined by its value
pub open spec fn ubig_of(i: int) -> UBig { UBig(repr_of(i)) }

// convert.rs:700-707 (macro ubig_unsigned_conversions): `UBig::from_unsigned(value)`
impl vstd::std_specs::convert::FromSpecImpl<Word> for UBig {
    open spec fn obeys_from_spec() -> bool { true }
    open spec fn from_spec(w: Word) -> UBig { ubig_of(w as int) }
}
impl From<Word> for UBig {
    #[verifier::external_body]
    fn from(w: Word) -> UBig { unimplemented!() }
}

// mul_ops.rs (helper_macros forward_ubig_binop_to_repr): the product; add_ops.rs: the sum.  Non-negative operands
// (invariant of UBig) are a precondition: the mirrored tuple struct does not carry the invariant.
impl<'a, 'b> vstd::std_specs::ops::MulSpecImpl<&'b UBig> for &'a UBig {
    open spec fn obeys_mul_spec() -> bool { true }
    open spec fn mul_req(self, rhs: &'b UBig) -> bool { self.0.v() >= 0 && rhs.0.v() >= 0 }
    open spec fn mul_spec(self, rhs: &'b UBig) -> UBig { ubig_of(self.0.v() * rhs.0.v()) }
}
impl<'a, 'b> core::ops::Mul<&'b UBig> for &'a UBig { type Output = UBig;
    #[verifier::external_body]
    fn mul(self, rhs: &'b UBig) -> UBig { unimplemented!() }
}
impl<'b> vstd::std_specs::ops::MulSpecImpl<&'b UBig> for UBig {
    open spec fn obeys_mul_spec() -> bool { true }
    open spec fn mul_req(self, rhs: &'b UBig) -> bool { self.0.v() >= 0 && rhs.0.v() >= 0 }
    open spec fn mul_spec(self, rhs: &'b UBig) -> UBig { ubig_of(self.0.v() * rhs.0.v()) }
}
impl<'b> core::ops::Mul<&'b UBig> for UBig { type Output = UBig;
    #[verifier::external_body]
    fn mul(self, rhs: &'b UBig) -> UBig { unimplemented!() }
}
impl vstd::std_specs::ops::AddSpecImpl<UBig> for UBig {
    open spec fn obeys_add_spec() -> bool { true }
    open spec fn add_req(self, rhs: UBig) -> bool { self.0.v() >= 0 && rhs.0.v() >= 0 }
    open spec fn add_spec(self, rhs: UBig) -> UBig { ubig_of(self.0.v() + rhs.0.v()) }
}
impl core::ops::Add<UBig> for UBig { type Output = UBig;
    #[verifier::external_body]
    fn add(self, rhs: UBig) -> UBig { unimplemented!() }
}

// core: `<[T]>::split_last` -- "Returns the last and all the rest of the elements of the slice, or None if it is empty"
pub assume_specification<'a, T> [<[T]>::split_last] (s: &'a [T]) -> (r: Option<(&'a T, &'a [T])>)
    ensures s@.len() == 0 ==> r is None,
        s@.len() > 0 ==> r is Some && *r.unwrap().0 == s@[s@.len() - 1] && r.unwrap().1@ == s@.subrange(0, s@.len() - 1);

// core: `<[u8]>::contains` -- "Returns true if the slice contains an element with the given value"
pub assume_specification<T: core::cmp::PartialEq> [<[T]>::contains] (s: &[T], x: &T) -> (r: bool)
    ensures <T as vstd::std_specs::cmp::PartialEqSpec>::obeys_eq_spec()
        ==> r == (exists|i: int| 0 <= i < s@.len() && vstd::std_specs::cmp::PartialEqSpec::eq_spec(#[trigger] &s@[i], x));
