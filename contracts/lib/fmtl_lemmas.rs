// ---- fmtl_lemmas.rs: proved arithmetic of the divide-and-conquer printer (fmt/non_power_two.rs PreparedLarge) ---------
// Needs lib/fmtl_stubs.rs and what it needs.  Everything here is PROVED.

pub proof fn lemma_fl_pow2_pos(n: int)
    ensures pow2(n) >= 1,
    decreases n
{
    if n > 0 { lemma_fl_pow2_pos(n - 1); }
}

/// (b^x)^y == b^(x*y)
pub proof fn lemma_fl_ipow_pow(b: int, x: int, y: int)
    requires x >= 0, y >= 0,
    ensures ipow(ipow(b, x), y) == ipow(b, x * y), x * y >= 0,
    decreases y
{
    assert(x * y >= 0) by (nonlinear_arith) requires x >= 0, y >= 0;
    if y > 0 {
        lemma_fl_ipow_pow(b, x, y - 1);
        assert(x * y == x * (y - 1) + x) by (nonlinear_arith);
        lemma_ipow_add(b, x * (y - 1), x);
        let (p, q) = (ipow(b, x * (y - 1)), ipow(b, x));
        assert(q * p == p * q) by (nonlinear_arith);
    } else {
        assert(x * 0 == 0);
    }
}

/// 3 <= chunk_base, chunk_base == radix^(dpw * CHUNK_LEN) < B^CHUNK_LEN
pub proof fn lemma_fl_chunk_base(radix: Digit)
    requires radix_ok(radix),
    ensures chunk_base(radix) >= 3, chunk_base(radix) == ipow(radix as int, dpw(radix) * (CHUNK_LEN as int)),
        chunk_base(radix) < pw(CHUNK_LEN as int),
        level_digits(radix, 0) == dpw(radix) * (CHUNK_LEN as int),
{
    broadcast use radix::ax_dpw;
    let b = rpw(radix);
    lemma_ipow_base_mono(3, b, CHUNK_LEN as int);
    assert(ipow(3, 16) >= 3) by (compute);
    lemma_fl_ipow_pow(radix as int, dpw(radix), CHUNK_LEN as int);
    lemma_fl_ipow_lt_pw(b, CHUNK_LEN as int);
    assert(pow2(0) == 1);
    assert((dpw(radix) * (CHUNK_LEN as int)) * 1 == dpw(radix) * (CHUNK_LEN as int));
}

/// c < B, n >= 1  ==>  c^n < B^n
pub proof fn lemma_fl_ipow_lt_pw(c: int, n: int)
    requires 1 <= c < B(), n >= 1,
    ensures ipow(c, n) < pw(n),
    decreases n
{
    if n > 1 {
        lemma_fl_ipow_lt_pw(c, n - 1);
        lemma_ipow_pos(c, n - 1);
        let (p, q) = (ipow(c, n - 1), pw(n - 1));
        assert(c * p < B() * q) by (nonlinear_arith) requires 1 <= c < B(), 1 <= p < q;
    } else {
        assert(ipow(c, 1) == c * ipow(c, 0));
        assert(ipow(c, 0) == 1);
        assert(pw(1) == B() * pw(0));
        assert(pw(0) == 1);
    }
}

/// level_pow(k) >= 3, and it is radix^level_digits(k): one big chunk of level k is exactly level_digits(k) digits wide
pub proof fn lemma_fl_level(radix: Digit, k: int)
    requires radix_ok(radix), k >= 0,
    ensures level_pow(radix, k) >= 3, level_digits(radix, k) >= 1,
        level_pow(radix, k) == ipow(radix as int, level_digits(radix, k)),
{
    broadcast use radix::ax_dpw;
    lemma_fl_chunk_base(radix);
    lemma_fl_pow2_pos(k);
    let c = chunk_base(radix);
    lemma_ipow_exp_mono(c, 1, pow2(k));
    assert(ipow(c, 1) == c * ipow(c, 0));
    assert(ipow(c, 0) == 1);
    let d = dpw(radix) * (CHUNK_LEN as int);
    assert(d >= 1);
    lemma_fl_ipow_pow(radix as int, d, pow2(k));
    let p = pow2(k);
    assert(d * p >= 1) by (nonlinear_arith) requires d >= 1, p >= 1;
}

/// the next table entry is the square of the previous one; level widths double
pub proof fn lemma_fl_level_step(radix: Digit, k: int)
    requires radix_ok(radix), k >= 0,
    ensures level_pow(radix, k + 1) == level_pow(radix, k) * level_pow(radix, k),
        level_digits(radix, k + 1) == level_digits(radix, k) + level_digits(radix, k),
{
    lemma_fl_pow2_pos(k);
    assert(pow2(k + 1) == 2 * pow2(k));
    lemma_ipow_add(chunk_base(radix), pow2(k), pow2(k));
    let d = dpw(radix) * (CHUNK_LEN as int);
    let p = pow2(k);
    assert(d * (2 * p) == d * p + d * p) by (nonlinear_arith);
}

pub proof fn lemma_fl_level0(radix: Digit)
    ensures level_pow(radix, 0) == chunk_base(radix),
{
    let c = chunk_base(radix);
    assert(pow2(0) == 1);
    assert(ipow(c, 1) == c * ipow(c, 0));
    assert(ipow(c, 0) == 1);
}

// ---- emitted(): composition ----------------------------------------------------------------------------------------

pub proof fn lemma_fl_emit_nothing(pre: Seq<u8>, r: int)
    ensures emitted(pre, pre, 0, r, 0),
{
    assert(pre.subrange(0, pre.len() as int) =~= pre);
}

/// n1 digits of value v1 followed by n2 digits of value v2: n1 + n2 digits of value v1 * r^n2 + v2
pub proof fn lemma_fl_emit_compose(pre: Seq<u8>, mid: Seq<u8>, out: Seq<u8>, n1: int, n2: int, r: int, v1: int, v2: int)
    requires r >= 2, emitted(pre, mid, n1, r, v1), emitted(mid, out, n2, r, v2),
    ensures emitted(pre, out, n1 + n2, r, v1 * ipow(r, n2) + v2),
{
    let a = pre.len() as int;
    let m = mid.len() as int;
    assert forall|k: int| 0 <= k < m implies out[k] == mid[k] by {
        assert(out.subrange(0, m)[k] == out[k]);
    }
    assert forall|k: int| 0 <= k < a implies mid[k] == pre[k] by {
        assert(mid.subrange(0, a)[k] == mid[k]);
    }
    assert(out.subrange(0, a) =~= pre);
    assert forall|k: int| a <= k < out.len() implies (#[trigger] out[k] as int) < r by {
        if k < m { assert(out[k] == mid[k]); assert((mid[k] as int) < r); }
    }
    lemma_dval_split(out, a, m, out.len() as int, r);
    lemma_dval_ext(out, mid, a, m, r);
}

/// what PreparedWord::write appends: the digits pd[ps..ps+n) of value g
pub proof fn lemma_fl_emit_word(out0: Seq<u8>, out: Seq<u8>, pd: Seq<u8>, ps: int, n: int, r: int)
    requires r >= 2, 0 <= ps, n >= 0, ps + n <= pd.len(), out == out0 + pd.subrange(ps, ps + n), digits_ok(pd, ps, ps + n, r),
    ensures emitted(out0, out, n, r, dval(pd, ps, ps + n, r)),
{
    let m = out0.len() as int;
    assert(out.subrange(0, m) =~= out0);
    assert forall|p: int| m <= p < m + n implies #[trigger] out[p] == pd[p - m + ps] by {
        assert(pd.subrange(ps, ps + n)[p - m] == pd[p - m + ps]);
    }
    lemma_dval_shift(out, m, pd, ps, n, r);
    assert forall|k: int| m <= k < out.len() implies (#[trigger] out[k] as int) < r by {
        assert(out[k] == pd[k - m + ps]);
    }
}

/// a word below r^n prepared with min_digits = n has exactly n digits (a longer string starts with a non-zero digit)
pub proof fn lemma_fl_group_width(pd: Seq<u8>, ps: int, mx: int, r: int, n: int)
    requires r >= 2, 0 <= n, mx - ps >= n, digits_ok(pd, ps, mx, r), dval(pd, ps, mx, r) < ipow(r, n),
        mx - ps > n ==> pd[ps] != 0,
    ensures mx - ps == n,
{
    if mx - ps > n {
        lemma_dval_leading(pd, ps, mx, r);
        lemma_ipow_exp_mono(r, n, mx - ps - 1);
    }
}

// ---- write_chunk: CHUNK_LEN groups base range_per_word ---------------------------------------------------------------

/// cur * base^n + (groups) == x < base^n  with cur >= 0  ==>  cur == 0
pub proof fn lemma_fl_all_divided(cur: int, base: int, n: int, low: int, x: int)
    requires base >= 1, n >= 0, cur >= 0, low >= 0, x == cur * ipow(base, n) + low, x < ipow(base, n),
    ensures cur == 0,
{
    let p = ipow(base, n);
    lemma_ipow_pos(base, n);
    if cur >= 1 { assert(cur * p >= p) by (nonlinear_arith) requires cur >= 1, p >= 1; }
}

/// one more group: (q * base + rem) * base^n + low == q * base^(n+1) + (low + rem * base^n)
pub proof fn lemma_fl_group_step(q: int, base: int, rem: int, n: int, low: int)
    requires n >= 0,
    ensures (q * base + rem) * ipow(base, n) + low == q * ipow(base, n + 1) + (low + rem * ipow(base, n)),
{
    let p = ipow(base, n);
    assert(ipow(base, n + 1) == base * p);
    assert((q * base + rem) * p == q * (base * p) + rem * p) by (nonlinear_arith);
}

/// Horner step of the group printer: hv(j+1) = hv(j) * base + g[k-j-1]
pub proof fn lemma_fl_hv_step(g: Seq<Word>, k: int, j: int, base: int)
    requires 0 <= j < k,
    ensures hv(g, k, j + 1, base) == hv(g, k, j, base) * base + (g[k - j - 1] as int),
{}

/// a normalized slice below B^CHUNK_LEN has at most CHUNK_LEN words
pub proof fn lemma_fl_len_le(s: Seq<Word>, n: int)
    requires s.len() >= 1, s[s.len() - 1] != 0, n >= 0, val(s) < pw(n),
    ensures s.len() <= n,
{
    lemma_val_top(s);
    if s.len() > n { lemma_fl_pw_mono(n, s.len() - 1); }
}

pub proof fn lemma_fl_pw_mono(a: int, b: int)
    requires 0 <= a <= b,
    ensures pw(a) <= pw(b),
{
    lemma_pw_add(a, b - a);
    lemma_pw_pos(a);
    lemma_pw_pos(b - a);
    let (p, q) = (pw(a), pw(b - a));
    assert(p * q >= p) by (nonlinear_arith) requires p >= 1, q >= 1;
}

// ---- chunks_value ---------------------------------------------------------------------------------------------------

/// the chunks s[j..) only: chunks_value ignores entries below j and depends on the rest pointwise
pub proof fn lemma_fl_cv_ext(radix: Digit, top: int, s: Seq<(usize, Repr)>, t: Seq<(usize, Repr)>, j: int)
    requires s.len() == t.len(), forall|i: int| j <= i < s.len() ==> s[i] == t[i],
    ensures chunks_value(radix, top, s, j) == chunks_value(radix, top, t, j),
    decreases s.len() - j
{
    if j < s.len() { lemma_fl_cv_ext(radix, top, s, t, j + 1); }
}

/// new() pushes (level, remainder) and continues with the quotient: x == q * level_pow(level) + remainder keeps the value
pub proof fn lemma_fl_cv_push(radix: Digit, s: Seq<(usize, Repr)>, e: (usize, Repr), x: int, q: int, j: int)
    requires 0 <= j <= s.len(), x == q * level_pow(radix, e.0 as int) + e.1.v(),
    ensures chunks_value(radix, q, s.push(e), j) == chunks_value(radix, x, s, j),
    decreases s.len() - j
{
    let t = s.push(e);
    if j < s.len() {
        lemma_fl_cv_push(radix, s, e, x, q, j + 1);
        assert(t[j] == s[j]);
    } else {
        assert(t[j] == e);
        assert(chunks_value(radix, q, t, j + 1) == q);
    }
}

/// write() pops the chunks from the back: with the last m..n chunks written the value is chunks_value(.., m); one more
/// (index m-1) multiplies by its level power and adds its value -- unfold only
pub proof fn lemma_fl_cv_step(radix: Digit, top: int, s: Seq<(usize, Repr)>, m: int)
    requires 1 <= m <= s.len(),
    ensures chunks_value(radix, top, s, m - 1)
        == chunks_value(radix, top, s, m) * level_pow(radix, s[m - 1].0 as int) + s[m - 1].1.v(),
{}

/// digits of the chunks m-1..n = digits of m..n + level_digits(level of m-1)
pub proof fn lemma_fl_cd_step(radix: Digit, s: Seq<(usize, Repr)>, m: int)
    requires 1 <= m,
    ensures chunks_digits(radix, s, m) == chunks_digits(radix, s, m - 1) + level_digits(radix, s[m - 1].0 as int),
{}

/// chunks_digits only looks at the first n entries
pub proof fn lemma_fl_cd_ext(radix: Digit, s: Seq<(usize, Repr)>, t: Seq<(usize, Repr)>, n: int)
    requires forall|i: int| 0 <= i < n ==> s[i] == t[i],
    ensures chunks_digits(radix, s, n) == chunks_digits(radix, t, n),
    decreases n
{
    if n > 0 { lemma_fl_cd_ext(radix, s, t, n - 1); }
}

// ---- new(): the length shortcut ---------------------------------------------------------------------------------------

/// `2 * prev.len() - 1 > number.len()`: prev has lp words (prev >= B^(lp-1)), number < B^ln  ==>  prev * prev > number
pub proof fn lemma_fl_len_shortcut(prev: int, lp: int, number: int, ln: int)
    requires lp >= 1, ln >= 0, pw(lp - 1) <= prev, number < pw(ln), 2 * lp - 1 > ln,
    ensures prev * prev > number,
{
    let p = pw(lp - 1);
    lemma_pw_pos(lp - 1);
    lemma_pw_add(lp - 1, lp - 1);
    assert(prev * prev >= p * p) by (nonlinear_arith) requires prev >= p, p >= 1;
    lemma_fl_pw_mono(ln, 2 * lp - 2);
}

/// number < p * p, number == q * p + r, r >= 0  ==>  q < p
pub proof fn lemma_fl_quot_lt(number: int, p: int, q: int, r: int)
    requires p >= 1, number < p * p, number == q * p + r, r >= 0,
    ensures q < p,
{
    if q >= p { assert(q * p >= p * p) by (nonlinear_arith) requires q >= p, p >= 1; }
}

/// x >= p >= 1, x == q * p + r, r < p  ==>  q >= 1
pub proof fn lemma_fl_quot_pos(x: int, p: int, q: int, r: int)
    requires p >= 1, x >= p, x == q * p + r, r < p,
    ensures q >= 1,
{
    if q <= 0 { assert(q * p <= 0) by (nonlinear_arith) requires q <= 0, p >= 1; }
}

/// x < P(k+1) = P(k)^2, x == q * P(k) + r  ==>  q < P(k)      (q, r >= 0)
pub proof fn lemma_fl_quot_level(radix: Digit, k: int, x: int, q: int, r: int)
    requires radix_ok(radix), k >= 0, x < level_pow(radix, k + 1), x == q * level_pow(radix, k) + r, r >= 0,
    ensures q < level_pow(radix, k),
{
    lemma_fl_level(radix, k);
    lemma_fl_level_step(radix, k);
    lemma_fl_quot_lt(x, level_pow(radix, k), q, r);
}

/// a borrowed magnitude below B^CHUNK_LEN fits the chunk buffer
pub proof fn lemma_fl_typed_chunk_wf(t: TypedReprRef)
    requires t.wf(), t.v() < pw(CHUNK_LEN as int),
    ensures t.chunk_wf(),
{
    match t {
        TypedReprRef::RefLarge(w) => { lemma_fl_len_le(w@, CHUNK_LEN as int); }
        TypedReprRef::RefSmall(_) => {}
    }
}

/// a borrowed magnitude below B^k (k >= 1 ... ) occupies at most max(2, k) words
pub proof fn lemma_fl_typed_nwords(t: TypedReprRef, k: int)
    requires t.wf(), k >= 0, t.v() < pw(k),
    ensures t.nwords() == 2 || t.nwords() <= k,
{
    match t {
        TypedReprRef::RefLarge(w) => { lemma_fl_len_le(w@, k); }
        TypedReprRef::RefSmall(_) => {}
    }
}

/// number < B^nwords
pub proof fn lemma_fl_number_bound(t: TypedReprRef)
    requires t.wf(),
    ensures 0 <= t.v() < pw(t.nwords()),
{
    match t {
        TypedReprRef::RefLarge(w) => { lemma_valn_bound(w@, w@.len() as int); }
        TypedReprRef::RefSmall(d) => {
            assert(pw(2) == B() * pw(1));
            assert(pw(1) == B() * pw(0));
            assert(pw(0) == 1);
        }
    }
}

/// wl(v) is the word length: B^(wl-1) <= v < B^wl for v > 0
pub proof fn lemma_fl_wl(v: int)
    requires v > 0,
    ensures wl(v) >= 1, pw(wl(v) - 1) <= v < pw(wl(v)),
    decreases v
{
    let q = v / B();
    assert(v == B() * q + v % B() && 0 <= v % B() < B() && q >= 0 && q < v) by (nonlinear_arith)
        requires q == v / B(), v > 0, B() >= 2;
    if q > 0 {
        lemma_fl_wl(q);
        let n = wl(q);
        let (lo, hi) = (pw(n - 1), pw(n));
        assert(pw(n) == B() * pw(n - 1));
        assert(pw(n + 1) == B() * pw(n));
        assert(B() * lo <= v < B() * hi) by (nonlinear_arith)
            requires v == B() * q + v % B(), 0 <= v % B() < B(), lo <= q < hi;
    } else {
        assert(wl(q) == 0);
        assert(pw(0) == 1);
        assert(pw(1) == B() * pw(0));
    }
}

/// what TypedReprRef::len returns bounds the value, and is at most nwords
pub proof fn lemma_fl_number_len(t: TypedReprRef)
    requires t.wf(),
    ensures 0 <= t.v() < pw(tlen(t)), 0 <= tlen(t) <= t.nwords(),
{
    match t {
        TypedReprRef::RefLarge(w) => { lemma_valn_bound(w@, w@.len() as int); }
        TypedReprRef::RefSmall(d) => {
            assert(pw(2) == B() * pw(1));
            assert(pw(1) == B() * pw(0));
            assert(pw(0) == 1);
        }
    }
}

/// a non-zero PreparedMedium as PreparedMedium::new builds it starts with a non-zero digit
pub proof fn lemma_fl_medium_lead(p: PreparedMedium)
    requires medium_inv(p), word_digits(p.top_group) >= 1, medium_value(p) >= 1,
        word_digits(p.top_group) > 1 ==> p.top_group.digits@[p.top_group.start_index as int] != 0,
        p.num_low_groups > 0 ==> p.top_group.digits@[p.top_group.start_index as int] != 0,
    ensures p.top_group.digits@[p.top_group.start_index as int] != 0,
{
    let (td, ts) = (p.top_group.digits@, p.top_group.start_index as int);
    if word_digits(p.top_group) == 1 && p.num_low_groups == 0 {
        let r = p.radix as int;
        assert(dval(td, ts + 1, ts + 1, r) == 0);
        assert(ipow(r, 0) == 1);
        assert(ipow(rpw(p.radix), 0) == 1);
        assert(hv(p.low_groups@, 0, 0, rpw(p.radix)) == 0);
        let d = td[ts] as int;
        assert(d * 1 == d);
        assert(dval(td, ts, ts + 1, r) == d);
        assert(medium_value(p) == d * 1 + 0);
    }
}
