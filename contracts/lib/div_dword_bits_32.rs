// ---- DoubleWord = u64 bit counting: vstd specifies u64::{leading_zeros, trailing_zeros}; the bit-level
// statements used by the proofs are derived from the vstd axioms. u64::is_power_of_two is ASSUMED (trusted).
pub open spec fn dd_is_lz(x: u64, r: u32) -> bool {
    &&& r <= 64
    &&& (x == 0 <==> r == 64)
    &&& (r < 64 ==> ((x >> ((63 - r) as u64)) & 1) == 1)
    &&& (0 < r < 64 ==> (x >> ((64 - r) as u64)) == 0)
}
pub open spec fn dd_is_tz(x: u64, r: u32) -> bool {
    &&& r <= 64
    &&& (x == 0 <==> r == 64)
    &&& (r < 64 ==> ((x >> (r as u64)) & 1) == 1)
    &&& (r < 64 ==> ((x >> (r as u64)) << (r as u64)) == x)
}
pub open spec fn dd_lz(x: u64) -> u32 { vstd::std_specs::bits::u64_leading_zeros(x) as u32 }
pub open spec fn dd_tz(x: u64) -> u32 { vstd::std_specs::bits::u64_trailing_zeros(x) }

pub assume_specification [u64::is_power_of_two] (x: u64) -> (r: bool)
    ensures r <==> (x != 0 && (x & ((x - 1) as u64)) == 0);

pub proof fn axiom_dd_lz(x: u64)
    ensures dd_is_lz(x, dd_lz(x)),
{
    let r = dd_lz(x);
    vstd::std_specs::bits::axiom_u64_leading_zeros(x);
    let rw = r as u64;
    if r < 64 {
        let top = (63 - r) as u64;
        assert(sub(63u64, rw) == top);
        assert(((x >> top) & 1) != 0);
        assert(((x >> top) & 1) == 1) by (bit_vector) requires ((x >> top) & 1) != 0;
    }
    if 0 < r < 64 {
        let up = (64 - r) as u64;
        assert(sub(64u64, rw) == up);
    }
}
pub proof fn axiom_dd_tz(x: u64)
    ensures dd_is_tz(x, dd_tz(x)),
{
    let r = dd_tz(x);
    vstd::std_specs::bits::axiom_u64_trailing_zeros(x);
    if r < 64 {
        let rw = r as u64;
        let up = (64 - r) as u64;
        assert(sub(64u64, rw) == up);
        assert(x << up == 0);
        assert(((x >> rw) << rw) == x) by (bit_vector) requires rw < 64, up == 64 - rw, x << up == 0;
    }
}
