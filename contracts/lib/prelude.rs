// ---- prelude: specification vocabulary (DESIGN.md §4). Word = @W@ -------------------------
pub type Word = @W@;
pub type DoubleWord = @D@;
pub type SignedWord = @SW@;
pub type SignedDoubleWord = @SD@;
pub const WORD_BITS: u32 = @BITS@;
pub const DWORD_BITS: u32 = 2 * @BITS@;
pub const WORD_BITS_USIZE: usize = @BITS@;

pub open spec fn B() -> int { @B@ }

pub open spec fn pw(n: int) -> int
    decreases n
{
    if n <= 0 { 1 } else { B() * pw(n - 1) }
}

pub open spec fn valn(s: Seq<Word>, n: int) -> int
    decreases n
{
    if n <= 0 { 0 } else { valn(s, n - 1) + (s[n - 1] as int) * pw(n - 1) }
}

pub open spec fn val(s: Seq<Word>) -> int { valn(s, s.len() as int) }

pub open spec fn b2i(b: bool) -> int { if b { 1 } else { 0 } }

pub open spec fn pow2(n: int) -> int
    decreases n
{
    if n <= 0 { 1 } else { 2 * pow2(n - 1) }
}

// core functions without a vstd specification: trusted (listed in every evidence file)
pub assume_specification [@W@::overflowing_add] (a: @W@, b: @W@) -> (r: (@W@, bool))
    ensures r.0 as int + b2i(r.1) * B() == a as int + b as int;
pub assume_specification [@W@::overflowing_sub] (a: @W@, b: @W@) -> (r: (@W@, bool))
    ensures r.0 as int - b2i(r.1) * B() == a as int - b as int;
pub assume_specification [<@W@ as core::convert::From<bool>>::from] (b: bool) -> (r: @W@)
    ensures r as int == b2i(b);
pub assume_specification [<@SW@ as core::convert::From<bool>>::from] (b: bool) -> (r: @SW@)
    ensures r as int == b2i(b);

pub proof fn lemma_pw_pos(n: int)
    ensures pw(n) >= 1,
    decreases n
{
    if n > 0 {
        lemma_pw_pos(n - 1);
        assert(B() * pw(n - 1) >= 1) by (nonlinear_arith) requires pw(n - 1) >= 1, B() >= 1;
    }
}

pub proof fn lemma_pw_add(a: int, b: int)
    requires a >= 0, b >= 0,
    ensures pw(a + b) == pw(a) * pw(b),
    decreases a
{
    if a > 0 {
        lemma_pw_add(a - 1, b);
        assert(B() * (pw(a - 1) * pw(b)) == (B() * pw(a - 1)) * pw(b)) by (nonlinear_arith);
    }
}

pub proof fn lemma_valn_ext(s: Seq<Word>, t: Seq<Word>, n: int)
    requires forall|i: int| 0 <= i < n ==> s[i] == t[i],
    ensures valn(s, n) == valn(t, n),
    decreases n
{
    if n > 0 { lemma_valn_ext(s, t, n - 1); }
}

/// words k..n equal  ==>  the two values differ by the same amount below k
pub proof fn lemma_valn_tail(s: Seq<Word>, t: Seq<Word>, k: int, n: int)
    requires 0 <= k <= n, forall|j: int| k <= j < n ==> t[j] == s[j],
    ensures valn(t, n) - valn(t, k) == valn(s, n) - valn(s, k),
    decreases n
{
    if n > k { lemma_valn_tail(s, t, k, n - 1); }
}

pub proof fn lemma_valn_bound(s: Seq<Word>, n: int)
    requires 0 <= n <= s.len(),
    ensures 0 <= valn(s, n) < pw(n),
    decreases n
{
    if n > 0 {
        lemma_valn_bound(s, n - 1);
        lemma_pw_pos(n - 1);
        assert((s[n - 1] as int) * pw(n - 1) <= (B() - 1) * pw(n - 1)) by (nonlinear_arith)
            requires 0 <= s[n - 1] as int <= B() - 1, pw(n - 1) >= 1;
        assert((B() - 1) * pw(n - 1) == B() * pw(n - 1) - pw(n - 1)) by (nonlinear_arith);
        assert((s[n - 1] as int) * pw(n - 1) >= 0) by (nonlinear_arith)
            requires 0 <= s[n - 1] as int, pw(n - 1) >= 1;
    }
}

/// val of a concatenation / of a split sequence
pub proof fn lemma_valn_split(s: Seq<Word>, k: int, n: int)
    requires 0 <= k <= n <= s.len(),
    ensures valn(s, n) == valn(s, k) + pw(k) * valn(s.subrange(k, s.len() as int), n - k),
    decreases n
{
    let hi = s.subrange(k, s.len() as int);
    if n > k {
        lemma_valn_split(s, k, n - 1);
        assert(hi[n - 1 - k] == s[n - 1]);
        lemma_pw_add(k, n - 1 - k);
        assert(pw(k) * (valn(hi, n - 1 - k) + (s[n - 1] as int) * pw(n - 1 - k))
            == pw(k) * valn(hi, n - 1 - k) + (s[n - 1] as int) * (pw(k) * pw(n - 1 - k))) by (nonlinear_arith);
    } else {
        assert(pw(k) * 0 == 0);
    }
}

pub proof fn lemma_val_split(s: Seq<Word>, k: int)
    requires 0 <= k <= s.len(),
    ensures val(s) == val(s.subrange(0, k)) + pw(k) * val(s.subrange(k, s.len() as int)),
{
    lemma_valn_split(s, k, s.len() as int);
    lemma_valn_ext(s, s.subrange(0, k), k);
}

pub proof fn lemma_valn_zero(s: Seq<Word>, k: int, n: int)
    requires 0 <= k <= n, forall|j: int| k <= j < n ==> s[j] == 0,
    ensures valn(s, n) == valn(s, k),
    decreases n
{
    if n > k { lemma_valn_zero(s, k, n - 1); }
}

pub proof fn lemma_val1(s: Seq<Word>)
    requires s.len() == 1,
    ensures val(s) == s[0] as int,
{
    assert(valn(s, 1) == valn(s, 0) + (s[0] as int) * pw(0));
    assert(pw(0) == 1);
}

pub proof fn lemma_val2(s: Seq<Word>)
    requires s.len() == 2,
    ensures val(s) == s[0] as int + (s[1] as int) * B(),
{
    assert(valn(s, 2) == valn(s, 1) + (s[1] as int) * pw(1));
    assert(valn(s, 1) == valn(s, 0) + (s[0] as int) * pw(0));
    assert(pw(1) == B() * pw(0));
    assert(pw(0) == 1);
    assert(pw(1) == B());
    assert((s[0] as int) * pw(0) == s[0] as int) by (nonlinear_arith) requires pw(0) == 1;
    assert((s[1] as int) * pw(1) == (s[1] as int) * B()) by (nonlinear_arith) requires pw(1) == B();
}

/// carry propagation into the high part: hi' ± c_out·P == hi ± c_in  (c_out may be 0 when c_in is 0)
pub proof fn lemma_hi_carry(hi1: int, hi0: int, cin: int, cout: int, p: int)
    requires (cin == 0 && cout == 0 && hi1 == hi0) || (cin == 1 && hi1 + cout * p == hi0 + 1),
    ensures B() * hi1 + cout * (B() * p) == B() * hi0 + cin * B(),
{
    lemma_hi_carry_p(hi1, hi0, cin, cout, p, B());
}

/// as lemma_hi_carry with an arbitrary weight q
pub proof fn lemma_hi_carry_p(hi1: int, hi0: int, cin: int, cout: int, p: int, q: int)
    requires (cin == 0 && cout == 0 && hi1 == hi0) || (cin == 1 && hi1 + cout * p == hi0 + 1),
    ensures q * hi1 + cout * (q * p) == q * hi0 + cin * q,
{
    if cin == 0 {
        assert(cout * (q * p) == 0) by (nonlinear_arith) requires cout == 0;
        assert(cin * q == 0) by (nonlinear_arith) requires cin == 0;
    } else {
        assert(q * (hi1 + cout * p) == q * hi1 + cout * (q * p)) by (nonlinear_arith);
        assert(q * (hi0 + 1) == q * hi0 + cin * q) by (nonlinear_arith) requires cin == 1;
    }
}

/// low part updated with carry c at weight q, carry propagated into the high part:
/// (lo1 + q·hi1) + cout·(q·p) == (lo0 + q·hi0) + x
pub proof fn lemma_lo_hi(lo1: int, lo0: int, x: int, c: int, hi1: int, hi0: int, cout: int, q: int, p: int)
    requires lo1 + c * q == lo0 + x,
        (c == 0 && cout == 0 && hi1 == hi0) || (c == 1 && hi1 + cout * p == hi0 + 1),
    ensures (lo1 + q * hi1) + cout * (q * p) == (lo0 + q * hi0) + x,
{
    lemma_hi_carry_p(hi1, hi0, c, cout, p, q);
}

/// subtraction dual: (lo1 + q·hi1) − cout·(q·p) == (lo0 + q·hi0) − x
pub proof fn lemma_lo_hi_sub(lo1: int, lo0: int, x: int, c: int, hi1: int, hi0: int, cout: int, q: int, p: int)
    requires lo1 - c * q == lo0 - x,
        (c == 0 && cout == 0 && hi1 == hi0) || (c == 1 && hi1 - cout * p == hi0 - 1),
    ensures (lo1 + q * hi1) - cout * (q * p) == (lo0 + q * hi0) - x,
{
    lemma_hi_carry_p(hi0, hi1, c, cout, p, q);
}
