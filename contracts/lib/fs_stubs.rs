// ---- fs_stubs.rs: what float/src/sign.rs needs beyond round_int_stubs.rs / farith_add_stubs.rs / ebounds_stubs.rs.
// Needs fs_spec.rs.  Every external_body contract here is TRUSTED (read off the real function) unless stated otherwise.

// dashu_base::Abs (base/src/sign.rs `pub trait Abs { type Output; fn abs(self) -> Self::Output; }`) -- trait mirrored
pub trait Abs {
    type Output;
    fn abs(self) -> Self::Output;
}
// integer/src/sign.rs `impl Abs for IBig { fn abs(self) -> IBig { IBig(self.0.with_sign(Sign::Positive)) } }`: magnitude kept,
// sign Positive
impl Abs for IBig {
    type Output = IBig;
    #[verifier::external_body]
    fn abs(self) -> (r: IBig) ensures r.v() == iabs(self.v()) { unimplemented!() }
}

// ---- float/src/sign.rs `impl Neg for FBig` AS SEEN BY ITS CALLER `impl Neg for &FBig` (`self.clone().neg()`).  NOT an
// assumption: the real method is verified in unit float_shift_sign as the hoisted function `fbig_neg` against exactly
// this statement (`ret == fs_neg_spec(self)`); the operator form below repeats it for the call site.
pub open spec fn fs_neg_spec<R: Round, const B: Word>(f: FBig<R, B>) -> FBig<R, B> {
    FBig { repr: Repr { significand: ibig_of(-f.repr.significand.v()), exponent: f.repr.exponent }, context: f.context }
}
impl<R: Round, const B: Word> Neg for FBig<R, B> { type Output = FBig<R, B>;
    #[verifier::external_body] fn neg(self) -> FBig<R, B> { unimplemented!() } }
impl<R: Round, const B: Word> NegSpecImpl for FBig<R, B> {
    open spec fn obeys_neg_spec() -> bool { true }
    open spec fn neg_req(self) -> bool { true }
    open spec fn neg_spec(self) -> FBig<R, B> { fs_neg_spec(self) }
}
