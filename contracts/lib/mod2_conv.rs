// ---- mod2_conv.rs: trusted stubs + lemmas for unit int_modconv (modular/convert.rs, modular/repr.rs check_same_ring_*,
// div_const.rs ConstLargeDivisor::{rem_large, rem_repr}).  Word = @W@.
// Needs lib/prelude.rs, lib/div_dword_stubs.rs, lib/div_post_spec.rs, lib/mod2_ring.rs, lib/mod2_mem.rs.
//
// A self-contained mirror of the storage types (this unit does not include lib/repr_stubs.rs, whose `From<&[Word]> for
// Buffer` is deliberately unspecified for `.into()`).  EVERY contract below is a TRUSTED ASSUMPTION about the raw-pointer
// code of integer/src/buffer.rs / repr.rs (file:line next to each; the Kani groups on buffer.rs / repr.rs (C05, C17)
// bounded-check the same statements).  Run-time `assert!`s of the real methods are `requires` here.

pub mod conv_spec {
use super::*;
/// buffer.rs:48  `MAX_CAPACITY = usize::MAX / WORD_BITS_USIZE`
pub open spec fn max_capacity() -> int { (usize::MAX as int) / @BITS@ }
pub open spec fn zeros(n: int) -> Seq<Word> { Seq::new(n as nat, |i: int| 0 as Word) }
}
pub use conv_spec::*;

pub mod buffer_stub {
use super::*;
use core::ops::{Deref, DerefMut};
use vstd::std_specs::convert::*;

#[verifier::external_body]
pub struct Buffer { _p: u8 }

impl View for Buffer {
    type V = Seq<Word>;
    uninterp spec fn view(&self) -> Seq<Word>;
}

// TRUSTED type invariant of Buffer (buffer.rs:25-38: len <= capacity; allocate_raw (buffer.rs:94) refuses capacity 0 or
// > MAX_CAPACITY)
#[verifier::external_body]
pub broadcast proof fn ax_buffer_inv(b: Buffer)
    ensures #![trigger b.spec_capacity()] #![trigger b.view()]
        b@.len() <= b.spec_capacity() as int, 0 < b.spec_capacity() as int <= max_capacity(),
{}

impl Buffer {
    pub uninterp spec fn spec_capacity(&self) -> usize;
    pub open spec fn spec_len(&self) -> usize { self@.len() as usize }

    #[verifier::external_body]
    #[verifier::when_used_as_spec(spec_capacity)]
    pub fn capacity(&self) -> (r: usize) ensures r == self.spec_capacity() { unimplemented!() }

    #[verifier::external_body]
    #[verifier::when_used_as_spec(spec_len)]
    pub fn len(&self) -> (r: usize) ensures r as int == self@.len() { unimplemented!() }

    // buffer.rs:126-137: `if capacity > MAX_CAPACITY { panic }`, allocate_raw asserts capacity > 0
    #[verifier::external_body]
    pub fn allocate_exact(capacity: usize) -> (r: Buffer)
        requires 0 < capacity as int <= max_capacity(),
        ensures r@.len() == 0, r.capacity() == capacity,
    { unimplemented!() }

    // buffer.rs:185-189: `if capacity > self.capacity && capacity > 2 { self.reallocate_raw(capacity) }`;
    // reallocate_raw (buffer.rs:145) asserts `capacity > 0 && capacity >= self.len()`
    #[verifier::external_body]
    pub fn ensure_capacity_exact(&mut self, capacity: usize)
        requires (capacity > old(self).capacity() && capacity > 2) ==> (capacity as int >= old(self)@.len() && capacity as int <= max_capacity()),
        ensures final(self)@ == old(self)@,
            final(self).capacity() >= old(self).capacity(),
            capacity > 2 ==> final(self).capacity() >= capacity,
    { unimplemented!() }

    // buffer.rs:205-215: `assert!(self.len < self.capacity)`, write at the end
    #[verifier::external_body]
    pub fn push(&mut self, word: Word)
        requires old(self)@.len() < old(self).capacity(),
        ensures final(self)@ == old(self)@.push(word), final(self).capacity() == old(self).capacity(),
    { unimplemented!() }

    // buffer.rs:218-223: `if word != 0 { self.ensure_capacity(self.len + 1); self.push(word); }`
    #[verifier::external_body]
    pub fn push_resizing(&mut self, word: Word)
        requires word != 0 ==> (old(self)@.len() + 1 <= max_capacity()
            && (old(self)@.len() + 1 > 2 || old(self)@.len() < old(self).capacity())),
        ensures word != 0 ==> final(self)@ == old(self)@.push(word),
            word == 0 ==> final(self)@ == old(self)@,
            final(self).capacity() >= old(self).capacity(),
    { unimplemented!() }

    // buffer.rs:251-253 -> push_repeat::<0> (buffer.rs:230-247): `assert!(n <= self.capacity - self.len)`
    #[verifier::external_body]
    pub fn push_zeros(&mut self, n: usize)
        requires n as int <= old(self).capacity() as int - old(self)@.len(),
        ensures final(self)@ == old(self)@ + zeros(n as int), final(self).capacity() == old(self).capacity(),
    { unimplemented!() }

    // buffer.rs:327-330: `assert!(self.len >= len); self.len = len;`
    #[verifier::external_body]
    pub fn truncate(&mut self, len: usize)
        requires old(self)@.len() >= len,
        ensures final(self)@ == old(self)@.subrange(0, len as int), final(self).capacity() == old(self).capacity(),
    { unimplemented!() }

    // buffer.rs:400-428: shrink to `len` words, hand the allocation to a Box
    #[verifier::external_body]
    pub fn into_boxed_slice(self) -> (r: Box<[Word]>)
        ensures r@ == self@,
    { unimplemented!() }
}

impl Deref for Buffer {
    type Target = [Word];
    #[verifier::external_body]
    fn deref(&self) -> (r: &[Word]) ensures r@ == self@ { unimplemented!() }
}
impl DerefMut for Buffer {
    #[verifier::external_body]
    fn deref_mut(&mut self) -> (r: &mut [Word])
        ensures r@ == old(self)@, final(r)@ == final(self)@, final(self).capacity() == old(self).capacity(),
    { unimplemented!() }
}

// buffer.rs:515-521: `Buffer::allocate(words.len())` + `push_slice(words)`: a copy of the words.  More than MAX_CAPACITY
// words make the allocation PANIC (panic_allocate_too_much): the copy is specified below that limit only.
impl<'a> FromSpecImpl<&'a [Word]> for Buffer {
    open spec fn obeys_from_spec() -> bool { true }
    uninterp spec fn from_spec(w: &'a [Word]) -> Buffer;
}
#[verifier::external_body]
pub proof fn ax_buffer_from(w: &[Word])
    ensures w@.len() <= max_capacity() ==> (<Buffer as FromSpec<&[Word]>>::from_spec(w))@ == w@,
{}
impl<'a> From<&'a [Word]> for Buffer {
    #[verifier::external_body]
    fn from(words: &'a [Word]) -> (r: Buffer)
    { unimplemented!() }
}
} // mod buffer_stub
pub use buffer_stub::Buffer;
broadcast use buffer_stub::ax_buffer_inv;
pub use buffer_stub::ax_buffer_from;

// `<Box<T> as AsRef<T>>::as_ref` is `&**self` (alloc/boxed.rs)
pub assume_specification<'a, T: ?Sized, A: core::alloc::Allocator> [<Box<T, A> as core::convert::AsRef<T>>::as_ref] (b: &'a Box<T, A>) -> (r: &'a T)
    ensures r == &**b;

// repr.rs:69-72, mirrored; ubig.rs:  `pub struct UBig(pub(crate) Repr)` seen through its only use here
pub enum TypedRepr {
    Small(DoubleWord),
    Large(Buffer),
}
pub use TypedRepr::*;
impl TypedRepr {
    pub open spec fn v(&self) -> int {
        match self { TypedRepr::Small(d) => *d as int, TypedRepr::Large(b) => val(b@) }
    }
    /// a heap magnitude has at least 3 words (repr.rs:36-49)
    pub open spec fn wf(&self) -> bool {
        match self { TypedRepr::Small(d) => true, TypedRepr::Large(b) => b@.len() >= 3 }
    }
}
#[verifier::external_body]
pub struct UBig { _p: u8 }
impl UBig {
    /// the mathematical value (non-negative by the type's invariant)
    pub uninterp spec fn v(&self) -> int;
    /// number of words of a heap-allocated magnitude
    pub uninterp spec fn nwords(&self) -> int;
    // ubig.rs:83 `self.0.into_typed()`
    #[verifier::external_body]
    pub fn into_repr(self) -> (r: TypedRepr)
        ensures r.v() == self.v(), r.wf(), self.v() >= 0, r matches TypedRepr::Large(b) ==> b@.len() == self.nwords(),
    { unimplemented!() }
}

/// modular/repr.rs: `pub struct Reduced<'a>(ReducedRepr<'a>)`: only the associated functions check_same_ring_* are under
/// contract here, the type itself is opaque
#[verifier::external_body]
pub struct Reduced { _p: u8 }
#[verifier::external_body]
pub struct ConstSingleDivisor { _p: u8 }
#[verifier::external_body]
pub struct ConstDoubleDivisor { _p: u8 }

/// "the two references point to the same object": reference identity has no counterpart in Verus specifications, so it
/// is an uninterpreted relation that `core::ptr::eq` is ASSUMED to decide
pub uninterp spec fn same_object<T>(a: &T, b: &T) -> bool;
pub mod ptr {
use super::*;
/// core::ptr::eq(a as *const T, b as *const T) (the real code passes the references, which coerce to raw pointers)
#[verifier::external_body]
pub fn eq<T>(a: &T, b: &T) -> (r: bool) ensures r == same_object(a, b) { unimplemented!() }
}

/// what ConstLargeDivisor::new establishes (div_const.rs:145 via div::normalize, from a `Large` buffer: >= 3 words, top
/// word non-zero, length within Buffer::MAX_CAPACITY)
pub open spec fn ring_conv(ring: &ConstLargeDivisor) -> bool {
    let n = ring.normalized_divisor@.len() as int;
    ring_full(ring) && 3 <= n <= max_capacity() && modulus(ring) >= pw(n - 1)
}

// ---- lemmas ---------------------------------------------------------------------------------------------------------

/// fewer than n words are worth less than a normalized n-word modulus
pub proof fn lemma_short_lt(s: Seq<Word>, n: int, mv: int)
    requires s.len() < n, 2 * mv >= pw(n),
    ensures val(s) < mv,
{
    lemma_valn_bound(s, s.len() as int);
    lemma_pw_add(s.len() as int, n - 1 - s.len());
    lemma_pw_pos(n - 1 - s.len());
    lemma_pw_pos(s.len() as int);
    assert(pw(s.len() as int) * pw(n - 1 - s.len()) >= pw(s.len() as int)) by (nonlinear_arith)
        requires pw(n - 1 - s.len()) >= 1, pw(s.len() as int) >= 0;
    assert(pw(n) == B() * pw(n - 1));
    assert(B() * pw(n - 1) >= 2 * pw(n - 1)) by (nonlinear_arith) requires B() >= 2, pw(n - 1) >= 0;
}

/// appending zero words / an optional carry word
pub proof fn lemma_val_push(s: Seq<Word>, w: Word)
    ensures val(s.push(w)) == val(s) + (w as int) * pw(s.len() as int),
{
    lemma_valn_ext(s.push(w), s, s.len() as int);
}

pub proof fn lemma_val_zeros(s: Seq<Word>, k: int)
    requires k >= 0,
    ensures val(s + zeros(k)) == val(s),
{
    let t = s + zeros(k);
    lemma_valn_zero(t, s.len() as int, t.len() as int);
    lemma_valn_ext(t, s, s.len() as int);
}

/// C13 (conversion): the stored residue (x * 2^shift) mod M is aligned and its mathematical residue is x mod m
pub proof fn lemma_from_resid(x: int, mv: int, p: int, out: int)
    requires p >= 1, mv >= 1, mv % p == 0, out == (x * p) % mv,
    ensures out % p == 0, out / p == x % (mv / p),
{
    lemma_div_of_multiple(x, p);
    lemma_mod_scale_down(out, x * p, mv, p);
}

/// a double word shifted by `shift` is below the stored modulus of a ring with at least 3 words
pub proof fn lemma_small_lt(d: int, p: int, m: int, mv: int, n: int)
    requires 0 <= d < B() * B(), p >= 1, mv == m * p, m >= pw(n - 1), n >= 3,
    ensures d * p < mv,
{
    lemma_pw_add(2, n - 3);
    lemma_pw_pos(n - 3);
    assert(pw(2) == B() * pw(1) && pw(1) == B() * pw(0) && pw(0) == 1);
    assert(pw(2) == B() * B()) by (nonlinear_arith) requires pw(2) == B() * pw(1), pw(1) == B() * pw(0), pw(0) == 1;
    assert(pw(2) * pw(n - 3) >= pw(2)) by (nonlinear_arith) requires pw(n - 3) >= 1, pw(2) >= 0;
    assert(d * p < m * p) by (nonlinear_arith) requires 0 <= d < m, p >= 1;
}

/// three words
pub proof fn lemma_val3(s: Seq<Word>)
    requires s.len() == 3,
    ensures val(s) == s[0] as int + (s[1] as int) * B() + (s[2] as int) * (B() * B()),
{
    lemma_valn2(s);
    assert(valn(s, 3) == valn(s, 2) + (s[2] as int) * pw(2));
    assert(pw(2) == B() * pw(1) && pw(1) == B() * pw(0) && pw(0) == 1);
    assert(pw(2) == B() * B()) by (nonlinear_arith) requires pw(2) == B() * pw(1), pw(1) == B() * pw(0), pw(0) == 1;
}

pub mod div_mem_stub {
use super::*;
/// integer/src/div/mod.rs :: memory_requirement_exact: `assert!(lhs_len >= rhs_len && rhs_len >= 2)`, then a Layout
/// (opaque here: the scratch-memory sizing is not verified)
#[verifier::external_body]
pub fn memory_requirement_exact(lhs_len: usize, rhs_len: usize) -> (r: Layout)
    requires lhs_len >= rhs_len && rhs_len >= 2,
{ unimplemented!() }
}
