// ---- no_float_stubs.rs: dashu-float as seen by the cross-type comparisons of float/src/cmp.rs (repr_cmp_ubig / repr_cmp_ibig)
// and float/src/third_party/num_order.rs, over the UBig / IBig stubs of lib/bigstub.rs + lib/ratio2_cmp_stubs.rs (include after
// lib/ratio_lemmas.rs, lib/bigstub.rs, lib/ratio2_cmp_stubs.rs, lib/no_ipw.rs, lib/no_ord_stubs.rs).  Every external_body / assume_specification / external_body
// axiom is TRUSTED; each contract states what the real function does on the mathematical values (read off the real code).
pub mod no_float_stubs {
use super::*;
use vstd::std_specs::ops::*;
use vstd::std_specs::cmp::{gt_ensures, lt_ensures};
use vstd::std_specs::convert::*;
use vstd::arithmetic::power2::*;
use core::cmp::Ordering;

pub type Word = u64;

/// float/src/repr.rs:26 `pub struct Repr<const BASE: Word> { pub(crate) significand: IBig, pub(crate) exponent: isize }`
/// (mirrored; value = significand * B^exponent; "infinity" is the pair (0, e != 0), positive iff e > 0)
pub struct Repr<const B: Word> { pub significand: IBig, pub exponent: isize }
/// float/src/round/mod.rs `trait Round` (marker only here), float/src/repr.rs `Context`, float/src/fbig.rs `FBig` (mirrored)
pub trait Round: Copy {}
pub struct Context<R: Round> { pub precision: usize, pub _marker: core::marker::PhantomData<R> }
pub struct FBig<R: Round, const B: Word> { pub repr: Repr<B>, pub context: Context<R> }

pub open spec fn fl_inf(s: int, e: int) -> bool { s == 0 && e != 0 }

// ---- the f32 log2 filter (dashu_base::EstimatedLog2).  Verus cannot reason about f32 arithmetic (rule D10):
//  * log2_bounds returns floats about which only the uninterpreted enclosure predicates est_lo / est_hi are known
//    ("2^f <= num/den" resp. "num/den <= 2^f" over the reals, den > 0; for a zero value both bounds are -inf = "2^f == 0"),
//  * THE AGREEMENT OF THE FILTER WITH THE EXACT COMPARISON IS ASSUMED (ax_est_gt / ax_est_lt: monotonicity of 2^x over the
//    reals, the core comparison `a > b` on f32 taken as the comparison of the (extended) reals, false for NaN), NOT PROVED.
// (same axioms as lib/gcdo_cmpf_stubs.rs, which cannot be included here: it mirrors the RATIONAL crate's view of Repr)
pub uninterp spec fn est_lo(f: f32, num: int, den: int) -> bool;
pub uninterp spec fn est_hi(f: f32, num: int, den: int) -> bool;
#[verifier::external_body]
pub proof fn ax_est_gt(a: f32, b: f32, n1: int, d1: int, n2: int, d2: int)
    requires est_lo(a, n1, d1), est_hi(b, n2, d2), gt_ensures::<f32>(a, b, true), d1 > 0, d2 > 0,
    ensures n1 * d2 > n2 * d1,
{}
#[verifier::external_body]
pub proof fn ax_est_lt(a: f32, b: f32, n1: int, d1: int, n2: int, d2: int)
    requires est_hi(a, n1, d1), est_lo(b, n2, d2), lt_ensures::<f32>(a, b, true), d1 > 0, d2 > 0,
    ensures n1 * d2 < n2 * d1,
{}
/// |significand| * B^exponent as a fraction
pub open spec fn fl_num(s: int, b: int, e: int) -> int { if e >= 0 { rabs(s) * ipw(b, e as nat) } else { rabs(s) } }
pub open spec fn fl_den(b: int, e: int) -> int { if e >= 0 { 1 } else { ipw(b, (-e) as nat) } }

pub trait EstimatedLog2 {
    spec fn lb_ok(&self, f: f32) -> bool;
    spec fn ub_ok(&self, f: f32) -> bool;
    fn log2_bounds(&self) -> (r: (f32, f32)) ensures self.lb_ok(r.0), self.ub_ok(r.1);
}
// float/src/log.rs `impl EstimatedLog2 for Repr<B>`: bounds of log2 |significand * B^exponent|
impl<const B: Word> EstimatedLog2 for Repr<B> {
    open spec fn lb_ok(&self, f: f32) -> bool { est_lo(f, fl_num(self.significand.v(), B as int, self.exponent as int), fl_den(B as int, self.exponent as int)) }
    open spec fn ub_ok(&self, f: f32) -> bool { est_hi(f, fl_num(self.significand.v(), B as int, self.exponent as int), fl_den(B as int, self.exponent as int)) }
    #[verifier::external_body]
    fn log2_bounds(&self) -> (r: (f32, f32)) { unimplemented!() }
}
// integer/src/log.rs `impl EstimatedLog2 for UBig / IBig`: bounds of log2 of the magnitude
impl EstimatedLog2 for UBig {
    open spec fn lb_ok(&self, f: f32) -> bool { est_lo(f, self.v(), 1) }
    open spec fn ub_ok(&self, f: f32) -> bool { est_hi(f, self.v(), 1) }
    #[verifier::external_body]
    fn log2_bounds(&self) -> (r: (f32, f32)) { unimplemented!() }
}
impl EstimatedLog2 for IBig {
    open spec fn lb_ok(&self, f: f32) -> bool { est_lo(f, rabs(self.v()), 1) }
    open spec fn ub_ok(&self, f: f32) -> bool { est_hi(f, rabs(self.v()), 1) }
    #[verifier::external_body]
    fn log2_bounds(&self) -> (r: (f32, f32)) { unimplemented!() }
}

/// resource limit of the digit shifts: power-of-two bases shift by `exp * log2(B)` bits computed in usize (utils.rs:31 / :45);
/// a shift of 2^57 * 64 bits cannot exist in memory
pub open spec fn shl_room(exp: int) -> bool { 0 <= exp <= 0x0100_0000_0000_0000 }
/// float/src/utils.rs shl_digits: "Left shifting in given radix, i.e. multiply by a power of radix"
#[verifier::external_body]
pub fn shl_digits<const B: Word>(value: &IBig, exp: usize) -> (r: IBig)
    requires B >= 2, shl_room(exp as int),
    ensures r.v() == value.v() * ipw(B as int, exp as nat)
{ unimplemented!() }
/// float/src/utils.rs shl_digits_in_place: the same on `&mut IBig`
#[verifier::external_body]
pub fn shl_digits_in_place<const B: Word>(value: &mut IBig, exp: usize)
    requires B >= 2, shl_room(exp as int),
    ensures final(value).v() == old(value).v() * ipw(B as int, exp as nat)
{ unimplemented!() }

// ---- the property's sentence (C14): ordering of the exact values s * b^e (finite) and the integer x, cleared of the power
pub open spec fn cmp_float_int(s: int, b: int, e: int, x: int) -> Ordering {
    if e >= 0 { cmp_int(s * ipw(b, e as nat), x) } else { cmp_int(s, x * ipw(b, (-e) as nat)) }
}
/// a Repr (possibly infinite) against an integer; `abs`: of the magnitudes (|+-inf| is beyond every integer)
pub open spec fn cmp_repr_int(s: int, b: int, e: int, x: int, abs: bool) -> Ordering {
    if fl_inf(s, e) { if e > 0 || abs { Ordering::Greater } else { Ordering::Less } }
    else if abs { cmp_float_int(rabs(s), b, e, rabs(x)) }
    else { cmp_float_int(s, b, e, x) }
}

/// the log2 filter's verdict on the magnitudes turned into the comparison of float and integer:
/// same signs (both >= 0 or both < 0) unless `abs`;  gt: |s| B^e > |x|,  !gt: |s| B^e < |x|  (as fractions num/den)
/// the integer on the LEFT: ordering of x against s * b^e (or +-inf)
pub open spec fn cmp_int_repr(x: int, s: int, b: int, e: int, abs: bool) -> Ordering {
    if fl_inf(s, e) { if e > 0 || abs { Ordering::Less } else { Ordering::Greater } }
    else if abs { if e >= 0 { cmp_int(rabs(x), rabs(s) * ipw(b, e as nat)) } else { cmp_int(rabs(x) * ipw(b, (-e) as nat), rabs(s)) } }
    else { if e >= 0 { cmp_int(x, s * ipw(b, e as nat)) } else { cmp_int(x * ipw(b, (-e) as nat), s) } }
}
/// precondition of the comparisons of a Repr<B> with an integer: B >= 2 and the resource bound on the exponent (see the
/// annotated copy float/numorder2/repr_cmp_ubig.rs)
pub open spec fn fi_pre(b: int, e: int) -> bool { b >= 2 && -0x0100_0000_0000_0000 <= e <= 0x0100_0000_0000_0000 }
pub proof fn lemma_fi_filter(s: int, b: int, e: int, x: int, abs: bool, gt: bool)
    requires b >= 1, abs || (s >= 0 && x >= 0) || (s < 0 && x < 0),
        gt ==> fl_num(s, b, e) * 1 > rabs(x) * fl_den(b, e),
        !gt ==> fl_num(s, b, e) * 1 < rabs(x) * fl_den(b, e),
    ensures
        abs ==> cmp_float_int(rabs(s), b, e, rabs(x)) == (if gt { Ordering::Greater } else { Ordering::Less }),
        !abs && s >= 0 ==> cmp_float_int(s, b, e, x) == (if gt { Ordering::Greater } else { Ordering::Less }),
        !abs && s < 0 ==> cmp_float_int(s, b, e, x) == (if gt { Ordering::Less } else { Ordering::Greater }),
{
    let ae: nat = (if e >= 0 { e } else { -e }) as nat;
    let p = ipw(b, ae);
    lemma_ipw_pos(b, ae);
    lemma_scale_sign(s, p);
    lemma_scale_sign(x, p);
    if !abs && s < 0 {
        assert(rabs(s) == -s && rabs(x) == -x);
    }
}
} // mod no_float_stubs
pub use no_float_stubs::*;
