// ---- bits_signed_stubs.rs: what the sign-case macro arms of integer/src/bits.rs (impl_ibig_bitand / _bitor / _bitxor,
// `Not for IBig`) see of the magnitudes: abstract TypedRepr / TypedReprRef / Repr with a value v().
// Needs prelude.rs, bits_repr_lemmas.rs (nbit).  EVERY external_body item is a TRUSTED ASSUMPTION; the unsigned bit
// operations assumed here are what unit int_bits_large proves for the heap kernels (bitand_large, bitor_large, ...)
// -- the link is by identical spec text (digit-wise nbit statements), not machine-checked for the 16 dispatch impls.
pub mod stub {
use super::*;
use vstd::std_specs::ops::*;
use core::ops::Not;

// dashu_base::Sign (enum mirrored from base/src/sign.rs, trusted to match)
#[derive(Clone, Copy, PartialEq, Eq)]
pub enum Sign { Positive, Negative }
pub use Sign::*;
/// signed value of a sign-magnitude pair
pub open spec fn sv(s: Sign, m: int) -> int { match s { Sign::Positive => m, Sign::Negative => -m } }

#[verifier::external_body]
pub struct Repr { _p: u8 }
#[verifier::external_body]
pub struct TypedRepr { _p: u8 }
#[verifier::external_body]
#[derive(Clone, Copy)]
pub struct TypedReprRef<'a> { _p: &'a u8 }
impl Repr { pub uninterp spec fn v(&self) -> int; }
impl TypedRepr { pub uninterp spec fn v(&self) -> int; }
impl<'a> TypedReprRef<'a> { pub uninterp spec fn v(&self) -> int; }
// TRUSTED: magnitudes are never negative; a Repr is determined by its value (normalized sign-magnitude form) and
// every integer has one (needed only to give the overloaded `!` a spec function)
#[verifier::external_body]
pub broadcast proof fn ax_typed_nonneg(t: TypedRepr) ensures #[trigger] t.v() >= 0 {}
#[verifier::external_body]
pub broadcast proof fn ax_typedref_nonneg(t: TypedReprRef) ensures #[trigger] t.v() >= 0 {}
pub uninterp spec fn repr_of(i: int) -> Repr;
#[verifier::external_body]
pub broadcast proof fn ax_repr_of(i: int) ensures #[trigger] repr_of(i).v() == i {}
#[verifier::external_body]
pub proof fn ax_repr_ext(a: Repr, b: Repr) requires a.v() == b.v() ensures a == b {}

impl Repr {
    // repr.rs:129-139 with_sign: magnitude kept, sign replaced; "the sign will not be flipped if self is zero"
    #[verifier::external_body]
    pub fn with_sign(self, sign: Sign) -> (r: Repr)
        ensures r.v() == sv(sign, if self.v() >= 0 { self.v() } else { -self.v() }),
    { unimplemented!() }
    // repr.rs:186-202 into_typed: debug-asserts a positive capacity, i.e. a non-negative value
    #[verifier::external_body]
    pub fn into_typed(self) -> (r: TypedRepr) requires self.v() >= 0 ensures r.v() == self.v() { unimplemented!() }
}
// add_ops.rs mod repr: `add_one` = add_dword(dword, 1) / add_large_one; `sub_one` = from_dword(dword - 1) /
// sub_large_one: the latter underflows (debug overflow panic / wrong value) on zero, hence the precondition
impl TypedRepr {
    #[verifier::external_body]
    pub fn add_one(self) -> (r: Repr) ensures r.v() == self.v() + 1 { unimplemented!() }
    #[verifier::external_body]
    pub fn sub_one(self) -> (r: Repr) requires self.v() >= 1 ensures r.v() == self.v() - 1 { unimplemented!() }
}
impl<'a> TypedReprRef<'a> {
    #[verifier::external_body]
    pub fn add_one(self) -> (r: Repr) ensures r.v() == self.v() + 1 { unimplemented!() }
    #[verifier::external_body]
    pub fn sub_one(self) -> (r: Repr) requires self.v() >= 1 ensures r.v() == self.v() - 1 { unimplemented!() }
}

/// has a non-negative value whose binary digits are f(digit of x, digit of y)
pub open spec fn digits_and(r: int, x: int, y: int) -> bool {
    r >= 0 && forall|i: int| i >= 0 ==> #[trigger] nbit(r, i) == (nbit(x, i) && nbit(y, i))
}
pub open spec fn digits_or(r: int, x: int, y: int) -> bool {
    r >= 0 && forall|i: int| i >= 0 ==> #[trigger] nbit(r, i) == (nbit(x, i) || nbit(y, i))
}
pub open spec fn digits_xor(r: int, x: int, y: int) -> bool {
    r >= 0 && forall|i: int| i >= 0 ==> #[trigger] nbit(r, i) == (nbit(x, i) != nbit(y, i))
}
pub open spec fn digits_andnot(r: int, x: int, y: int) -> bool {
    r >= 0 && forall|i: int| i >= 0 ==> #[trigger] nbit(r, i) == (nbit(x, i) && !nbit(y, i))
}

// core::ops::{BitAnd, BitOr, BitXor} and bits.rs `trait AndNot` as implemented for the magnitudes in bits.rs mod repr
// (traits mirrored: Verus cannot attach `ensures` to impls of the core operator traits; the macro arms call them by
// method name).  TRUSTED: the UNSIGNED digit-wise contracts.
pub trait Mag { spec fn mv(&self) -> int; }
impl Mag for TypedRepr { open spec fn mv(&self) -> int { self.v() } }
impl<'a> Mag for TypedReprRef<'a> { open spec fn mv(&self) -> int { self.v() } }
pub trait BitAnd<Rhs: Mag>: Mag + Sized {
    fn bitand(self, rhs: Rhs) -> (r: Repr) ensures digits_and(r.v(), self.mv(), rhs.mv());
}
pub trait BitOr<Rhs: Mag>: Mag + Sized {
    fn bitor(self, rhs: Rhs) -> (r: Repr) ensures digits_or(r.v(), self.mv(), rhs.mv());
}
pub trait BitXor<Rhs: Mag>: Mag + Sized {
    fn bitxor(self, rhs: Rhs) -> (r: Repr) ensures digits_xor(r.v(), self.mv(), rhs.mv());
}
pub trait AndNot<Rhs: Mag>: Mag + Sized {
    fn and_not(self, rhs: Rhs) -> (r: Repr) ensures digits_andnot(r.v(), self.mv(), rhs.mv());
}
macro_rules! mag_ops {
    ($([$($g:tt)*] $l:ty, $r:ty;)*) => {$(
        verus! {
        impl<$($g)*> BitAnd<$r> for $l { #[verifier::external_body] fn bitand(self, rhs: $r) -> (r: Repr) { unimplemented!() } }
        impl<$($g)*> BitOr<$r> for $l { #[verifier::external_body] fn bitor(self, rhs: $r) -> (r: Repr) { unimplemented!() } }
        impl<$($g)*> BitXor<$r> for $l { #[verifier::external_body] fn bitxor(self, rhs: $r) -> (r: Repr) { unimplemented!() } }
        impl<$($g)*> AndNot<$r> for $l { #[verifier::external_body] fn and_not(self, rhs: $r) -> (r: Repr) { unimplemented!() } }
        }
    )*};
}
mag_ops! {
    [] TypedRepr, TypedRepr;
    ['r] TypedRepr, TypedReprRef<'r>;
    ['l] TypedReprRef<'l>, TypedRepr;
    ['l, 'r] TypedReprRef<'l>, TypedReprRef<'r>;
}

// integer/src/ibig.rs: `pub struct IBig(pub(crate) Repr)`, ubig.rs `pub struct UBig(pub(crate) Repr)` (mirrored)
pub struct IBig(pub Repr);
pub struct UBig(pub Repr);
impl IBig {
    // ibig.rs:73-80 -> repr.rs as_sign_typed / into_sign_typed: sign + magnitude; zero is Positive
    #[verifier::external_body]
    pub fn into_sign_repr(self) -> (r: (Sign, TypedRepr))
        ensures self.0.v() == sv(r.0, r.1.v()), r.0 == Sign::Negative ==> r.1.v() >= 1,
    { unimplemented!() }
    #[verifier::external_body]
    pub fn as_sign_repr(&self) -> (r: (Sign, TypedReprRef<'_>))
        ensures self.0.v() == sv(r.0, r.1.v()), r.0 == Sign::Negative ==> r.1.v() >= 1,
    { unimplemented!() }
}
} // mod stub
pub use stub::*;

// ---- additions for `Shr<usize> for IBig` / `Shr<usize> for &IBig` (shift_ops.rs) -------------------------------
pub mod stub_shr {
use super::*;
use vstd::std_specs::ops::*;
use vstd::std_specs::convert::*;
use core::ops::{Shr, Neg, Sub};

// shift_ops.rs mod repr `Shr<usize> for TypedRepr / TypedReprRef`: floor division of the magnitude by 2^rhs
// (proved for the real code in units int_shift_ops / int_shift_ops_dword); TRUSTED here
impl ShrSpecImpl<usize> for TypedRepr {
    open spec fn obeys_shr_spec() -> bool { true }
    open spec fn shr_req(self, rhs: usize) -> bool { true }
    open spec fn shr_spec(self, rhs: usize) -> Repr { repr_of(self.v() / pow2(rhs as int)) }
}
impl Shr<usize> for TypedRepr { type Output = Repr;
    #[verifier::external_body]
    fn shr(self, rhs: usize) -> Repr { unimplemented!() }
}
impl<'a> ShrSpecImpl<usize> for TypedReprRef<'a> {
    open spec fn obeys_shr_spec() -> bool { true }
    open spec fn shr_req(self, rhs: usize) -> bool { true }
    open spec fn shr_spec(self, rhs: usize) -> Repr { repr_of(self.v() / pow2(rhs as int)) }
}
impl<'a> Shr<usize> for TypedReprRef<'a> { type Output = Repr;
    #[verifier::external_body]
    fn shr(self, rhs: usize) -> Repr { unimplemented!() }
}
impl TypedRepr {
    // repr.rs as_ref
    #[verifier::external_body]
    pub fn as_ref(&self) -> (r: TypedReprRef<'_>) ensures r.v() == self.v() { unimplemented!() }
}
impl<'a> TypedReprRef<'a> {
    // bits.rs mod repr `are_low_bits_nonzero`: "Check if low n-bits are not all zeros" = the value is not a multiple
    // of 2^n (complete Kani proof for the double-word case, bounded for slices: group int_bits); TRUSTED here
    #[verifier::external_body]
    pub fn are_low_bits_nonzero(self, n: usize) -> (r: bool) ensures r == (self.v() % pow2(n as int) != 0) { unimplemented!() }
}
// sign.rs `Neg for IBig` (Repr::neg), add_ops.rs `Sub<IBig> for IBig`, convert.rs `From<bool> for IBig`: TRUSTED
// (exact integer arithmetic: C01 / C06 units)
impl NegSpecImpl for IBig {
    open spec fn obeys_neg_spec() -> bool { true }
    open spec fn neg_req(self) -> bool { true }
    open spec fn neg_spec(self) -> IBig { IBig(repr_of(-self.0.v())) }
}
impl Neg for IBig { type Output = IBig;
    #[verifier::external_body]
    fn neg(self) -> IBig { unimplemented!() }
}
impl SubSpecImpl<IBig> for IBig {
    open spec fn obeys_sub_spec() -> bool { true }
    open spec fn sub_req(self, rhs: IBig) -> bool { true }
    open spec fn sub_spec(self, rhs: IBig) -> IBig { IBig(repr_of(self.0.v() - rhs.0.v())) }
}
impl Sub<IBig> for IBig { type Output = IBig;
    #[verifier::external_body]
    fn sub(self, rhs: IBig) -> IBig { unimplemented!() }
}
impl FromSpecImpl<bool> for IBig {
    open spec fn obeys_from_spec() -> bool { true }
    open spec fn from_spec(b: bool) -> IBig { IBig(repr_of(if b { 1 } else { 0 })) }
}
impl From<bool> for IBig {
    #[verifier::external_body]
    fn from(b: bool) -> IBig { unimplemented!() }
}
} // mod stub_shr

// (not used by the unchanged code: present so that a changed function using them is judged by its contract instead
//  of being rejected as unsupported) bits.rs `bit_len`: 0 for 0, else the k with 2^(k-1) <= v < 2^k
impl<'a> TypedReprRef<'a> {
    #[verifier::external_body]
    pub fn bit_len(self) -> (r: usize)
        ensures self.v() == 0 ==> r == 0, self.v() > 0 ==> r >= 1 && pow2(r as int - 1) <= self.v() < pow2(r as int)
    { unimplemented!() }
}
