// ---- sf_stubs.rs: what `RBig::simplest_from_float` (rational/src/third_party/dashu_float.rs) calls outside the unit.
// Needs round_prelude.rs, round_int_stubs.rs, round_float_repr.rs, conv_fbig_stubs.rs, ebounds_lemmas.rs, sf_shape.rs,
// ratio_lemmas.rs (wf_ratio), sf_spec.rs (fv).  Every external_body item / axiom is a TRUSTED ASSUMPTION.
global size_of usize == 8;   // DESIGN.md section 6: usize is 64-bit in all proofs

/// resource limits of FBig + / - (float/src/add.rs: precisions, digit counts and exponents far inside isize; the units
/// float_add / float_add_ops carry the same limit `add_ranges`): exponent overflow is a documented panic (C16), not modelled
pub open spec fn sf_add_ranges<R: Round, const B: Word>(x: FBig<R, B>, y: FBig<R, B>) -> bool {
    let lim = 0x100_0000_0000_0000int;
    &&& x.context.precision < lim && y.context.precision < lim
    &&& ndigits(B as int, x.repr.significand.v()) < lim && ndigits(B as int, y.repr.significand.v()) < lim
    &&& -lim < x.repr.exponent < lim && -lim < y.repr.exponent < lim
}
/// x - y == z as numbers, x = s1 * b^e1 etc.: compared at the smallest of the three exponents
pub open spec fn fdiff(b: int, s1: int, e1: int, s2: int, e2: int, s3: int, e3: int) -> bool {
    let F = if e1 <= e2 { if e1 <= e3 { e1 } else { e3 } } else { if e2 <= e3 { e2 } else { e3 } };
    s1 * ipow(b, (e1 - F) as nat) - s2 * ipow(b, (e2 - F) as nat) == s3 * ipow(b, (e3 - F) as nat)
}
pub open spec fn umax2(a: usize, b: usize) -> usize { if a > b { a } else { b } }

// float/src/add.rs `impl Sub<FBig<R, B>> for &FBig<R, B>` (= add_ref_val(self, rhs, Negative)) and
// `impl Add<FBig<R, B>> for &FBig<R, B>` (= add_ref_val(self, rhs, Positive)).
// TRUSTED, from the PROPERTY STATEMENT C03 ("the result of + / - is the exact result correctly rounded to the precision
// max(p_lhs, p_rhs)", precision 0 = unlimited counting as the larger): the result carries that precision, and WHEN THE
// EXACT DIFFERENCE / SUM IS REPRESENTABLE with that many digits -- it equals S * B^E for some integer |S| <= B^P: either
// |S| < B^P (at most P digits) or S = +-B^P = +-1 * B^(E+P) -- the result IS that number.  Nothing is said about results that
// need a rounding.  (Units float_add / float_add_ops prove "correctly rounded at SOME unit B^u" only and list "representable
// in p digits => Exact" as not proved; exactness for the operands that occur here -- f with at most p digits and a
// one-digit bound at precision p + 1 -- was confirmed natively on a sweep over six modes, bases 2/4/6/10/16, p <= 4.)
// sub_req / add_req: finite operands (documented panic otherwise, C16) + the resource limits.
pub uninterp spec fn fbig_sub<R: Round, const B: Word>(x: FBig<R, B>, y: FBig<R, B>) -> FBig<R, B>;
pub uninterp spec fn fbig_add<R: Round, const B: Word>(x: FBig<R, B>, y: FBig<R, B>) -> FBig<R, B>;
impl<'l, R: Round, const B: Word> Sub<FBig<R, B>> for &'l FBig<R, B> {
    type Output = FBig<R, B>;
    #[verifier::external_body]
    fn sub(self, rhs: FBig<R, B>) -> FBig<R, B> { unimplemented!() }
}
impl<'l, R: Round, const B: Word> SubSpecImpl<FBig<R, B>> for &'l FBig<R, B> {
    open spec fn obeys_sub_spec() -> bool { true }
    open spec fn sub_req(self, rhs: FBig<R, B>) -> bool {
        B >= 2 && !(self.repr.significand.v() == 0 && self.repr.exponent != 0) && !(rhs.repr.significand.v() == 0 && rhs.repr.exponent != 0)
            && sf_add_ranges(*self, rhs)
    }
    open spec fn sub_spec(self, rhs: FBig<R, B>) -> FBig<R, B> { fbig_sub(*self, rhs) }
}
impl<'l, R: Round, const B: Word> Add<FBig<R, B>> for &'l FBig<R, B> {
    type Output = FBig<R, B>;
    #[verifier::external_body]
    fn add(self, rhs: FBig<R, B>) -> FBig<R, B> { unimplemented!() }
}
impl<'l, R: Round, const B: Word> AddSpecImpl<FBig<R, B>> for &'l FBig<R, B> {
    open spec fn obeys_add_spec() -> bool { true }
    open spec fn add_req(self, rhs: FBig<R, B>) -> bool {
        B >= 2 && !(self.repr.significand.v() == 0 && self.repr.exponent != 0) && !(rhs.repr.significand.v() == 0 && rhs.repr.exponent != 0)
            && sf_add_ranges(*self, rhs)
    }
    open spec fn add_spec(self, rhs: FBig<R, B>) -> FBig<R, B> { fbig_add(*self, rhs) }
}
/// the result is finite and normalized (`Repr::new`: zero is (0, 0); trailing zero digits are moved INTO the exponent), and
/// the sum is a multiple of B^min(e_x, e_y): its exponent is not below the exponents of both operands.  TRUSTED with the rest.
pub open spec fn fbig_exp_lb<R: Round, const B: Word>(x: FBig<R, B>, y: FBig<R, B>, z: FBig<R, B>) -> bool {
    (z.repr.significand.v() == 0 && z.repr.exponent == 0) || z.repr.exponent >= x.repr.exponent || z.repr.exponent >= y.repr.exponent
}
/// the value clause of the two operators (see above); S, E: the witness of representability
pub open spec fn fbig_exact_diff<R: Round, const B: Word>(x: FBig<R, B>, y: FBig<R, B>, z: FBig<R, B>, S: int, E: int) -> bool {
    fdiff(B as int, x.repr.significand.v(), x.repr.exponent as int, y.repr.significand.v(), y.repr.exponent as int, S, E)
        && iabs(S) <= ipow(B as int, umax2(x.context.precision, y.context.precision) as nat)
    ==> same_value(B as int, z.repr.significand.v(), z.repr.exponent as int, S, E)
}
#[verifier::external_body]
pub proof fn ax_fbig_sub<R: Round, const B: Word>(x: FBig<R, B>, y: FBig<R, B>, S: int, E: int)
    requires B >= 2, x.context.precision != 0, y.context.precision != 0,
    ensures fbig_sub(x, y).context.precision == umax2(x.context.precision, y.context.precision),
        !(fbig_sub(x, y).repr.significand.v() == 0 && fbig_sub(x, y).repr.exponent != 0),
        fbig_exp_lb(x, y, fbig_sub(x, y)),
        fbig_exact_diff(x, y, fbig_sub(x, y), S, E),
{}
#[verifier::external_body]
pub proof fn ax_fbig_add<R: Round, const B: Word>(x: FBig<R, B>, y: FBig<R, B>, S: int, E: int)
    requires B >= 2, x.context.precision != 0, y.context.precision != 0,
    ensures fbig_add(x, y).context.precision == umax2(x.context.precision, y.context.precision),
        !(fbig_add(x, y).repr.significand.v() == 0 && fbig_add(x, y).repr.exponent != 0),
        fbig_exp_lb(x, y, fbig_add(x, y)),
        // x + y == S * B^E  <=>  x - (-y) == S * B^E
        fdiff(B as int, x.repr.significand.v(), x.repr.exponent as int, -y.repr.significand.v(), y.repr.exponent as int, S, E)
            && iabs(S) <= ipow(B as int, umax2(x.context.precision, y.context.precision) as nat)
        ==> same_value(B as int, fbig_add(x, y).repr.significand.v(), fbig_add(x, y).repr.exponent as int, S, E),
{}
