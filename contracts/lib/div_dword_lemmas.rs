// ---- lemmas for the double-word divisor kernels of integer/src/div/mod.rs. DoubleWord = @D@ ---------------

/// x << s == x·2^s when the shift loses nothing (stated on the machine word: shifting back restores x)
pub proof fn lemma_dd_shl_mul_bv(x: @D@, s: u32)
    requires s < 2 * @BITS@, (x << s) >> s == x,
    ensures (x << s) as int == (x as int) * pow2(s as int),
    decreases s
{
    if s == 0 {
        assert(x << 0u32 == x) by (bit_vector);
    } else {
        let t = (s - 1) as u32;
        assert((x << t) >> t == x && (x << t) <= (@D@::MAX >> 1u32) && x << s == (x << t) << 1u32) by (bit_vector)
            requires 0 < s < 2 * @BITS@, t == s - 1, (x << s) >> s == x;
        lemma_dd_shl_mul_bv(x, t);
        let y = x << t;
        assert(y <= (@D@::MAX >> 1u32) ==> (y << 1u32) == (2 as @D@) * y) by (bit_vector);
        assert((x as int) * pow2(s as int) == 2 * ((x as int) * pow2(t as int))) by (nonlinear_arith)
            requires pow2(s as int) == 2 * pow2(t as int);
    }
}

/// x >> s == floor(x / 2^s) on double words
pub proof fn lemma_dd_shr_div(x: @D@, s: u32)
    requires s < 2 * @BITS@,
    ensures (x >> s) as int == (x as int) / pow2(s as int),
    decreases s
{
    if s == 0 {
        assert(x >> 0u32 == x) by (bit_vector);
    } else {
        let t = (s - 1) as u32;
        lemma_dd_shr_div(x, t);
        lemma_sh_pow2_pos(t as int);
        let y = x >> t;
        assert(x >> s == (x >> t) >> 1u32) by (bit_vector) requires 0 < s < 2 * @BITS@, t == s - 1;
        assert((y >> 1u32) == y / (2 as @D@)) by (bit_vector);
        let p = pow2(t as int);
        let xi = x as int;
        assert((xi / p) / 2 == xi / (p * 2)) by {
            vstd::arithmetic::div_mod::lemma_div_denominator(xi, p, 2);
        }
    }
}

pub proof fn lemma_dd_pow2_2bits()
    ensures pow2(2 * @BITS@ as int) == B() * B(), pow2(2 * @BITS@ - 1) == @HALFB@ * B(),
{
    lemma_sh_pow2_add(@BITS@, @BITS@);
    lemma_sh_pow2_bits();
    assert(pow2(2 * @BITS@ as int) == 2 * pow2(2 * @BITS@ - 1));
    assert(B() * B() == 2 * (@HALFB@ * B())) by (nonlinear_arith) requires B() == 2 * @HALFB@;
}

/// normalisation of a double word: x << leading_zeros(x) loses nothing and has its top bit set
pub proof fn lemma_dd_normalize(x: @D@, s: u32)
    requires x != 0, dd_is_lz(x, s),
    ensures s < 2 * @BITS@, (x << s) as int == (x as int) * pow2(s as int), (x << s) as int >= @HALFB@ * B(),
        x > @W@::MAX ==> s < @BITS@,
{
    let top = (2 * @BITS@ - 1 - s) as @D@;
    let up = (2 * @BITS@ - s) as @D@;
    let one_top = (1 as @D@) << ((2 * @BITS@ - 1) as u32);
    assert((x << s) >> s == x && (x << s) >= one_top && (x > (@W@::MAX as @D@) ==> s < @BITS@)) by (bit_vector)
        requires s < 2 * @BITS@, top == 2 * @BITS@ - 1 - s, up == 2 * @BITS@ - s, ((x >> top) & 1) == 1,
            0 < s ==> (x >> up) == 0, one_top == (1 as @D@) << ((2 * @BITS@ - 1) as u32);
    lemma_dd_shl_mul_bv(x, s);
    lemma_sh_one_shl_d((2 * @BITS@ - 1) as u32);
    lemma_dd_pow2_2bits();
}

/// a double word with exactly one bit set is 2^t; the exponent is returned
pub proof fn lemma_dd_pow2_exp(p: @D@) -> (t: u32)
    requires p != 0, (p & ((p - 1) as @D@)) == 0,
    ensures t < 2 * @BITS@, p == (1 as @D@) << t, p as int == pow2(t as int),
    decreases p
{
    if p == 1 {
        assert((1 as @D@) << 0u32 == 1) by (bit_vector);
        assert(pow2(0) == 1);
        0
    } else {
        let h = p / 2;
        assert(h != 0 && (h & ((h - 1) as @D@)) == 0 && p == h << 1u32 && h < p) by (bit_vector)
            requires p != 0, p != 1, (p & ((p - 1) as @D@)) == 0, h == p / 2;
        let t1 = lemma_dd_pow2_exp(h);
        let t = (t1 + 1) as u32;
        assert(t1 + 1 < 2 * @BITS@ && ((1 as @D@) << t1) << 1u32 == (1 as @D@) << t) by (bit_vector)
            requires t1 < 2 * @BITS@, t == t1 + 1, (((1 as @D@) << t1) << 1u32) != 0;
        lemma_sh_one_shl_d(t);
        t
    }
}

/// x & (p - 1) == x mod p for p = 1 << t
pub proof fn lemma_dd_mask_mod(x: @D@, p: @D@, t: u32)
    requires t < 2 * @BITS@, p == (1 as @D@) << t,
    ensures (x & ((p - 1) as @D@)) as int == (x as int) % (p as int),
{
    let m = x & ((p - 1) as @D@);
    let h = x >> t;
    assert(m < p && (h << t) + m == x && (h << t) >> t == h) by (bit_vector)
        requires t < 2 * @BITS@, p == (1 as @D@) << t, m == x & ((p - 1) as @D@), h == x >> t;
    lemma_sh_one_shl_d(t);
    lemma_dd_shl_mul_bv(h, t);
    vstd::arithmetic::div_mod::lemma_fundamental_div_mod_converse(x as int, pow2(t as int), h as int, m as int);
}

/// V mod p == (lowest double word) mod p when p = 2^k divides B^2
pub proof fn lemma_dd_low_dword_mod(s: Seq<Word>, p: int, k: int)
    requires s.len() >= 2, p == pow2(k), 0 <= k <= 2 * @BITS@,
    ensures val(s) % p == (s[0] as int + (s[1] as int) * B()) % p,
{
    lemma_val_split(s, 2);
    lemma_val2(s.subrange(0, 2));
    assert(pw(2) == B() * B()) by { assert(pw(2) == B() * pw(1)); assert(pw(1) == B() * pw(0)); assert(pw(0) == 1); }
    let hi = val(s.subrange(2, s.len() as int));
    lemma_sh_pow2_add(k, 2 * @BITS@ - k);
    lemma_dd_pow2_2bits();
    lemma_sh_pow2_pos(k);
    let c = pow2(2 * @BITS@ - k);
    assert((B() * B()) * hi == (c * hi) * p) by (nonlinear_arith) requires B() * B() == p * c;
    let w0 = s[0] as int + (s[1] as int) * B();
    assert(val(s) == w0 + (c * hi) * p);
    vstd::arithmetic::div_mod::lemma_mod_multiples_vanish(c * hi, w0, p);
    assert((p * (c * hi) + w0) == val(s)) by (nonlinear_arith) requires val(s) == w0 + (c * hi) * p;
}

/// remainder from the top with an arbitrary step `base` (B or B^2):
///   h == qa·d + rem, a == wv + rem·base  ==>  h·base + wv == (qa·base + a/d)·d + a%d
pub proof fn lemma_dd_rem_step(h: int, qa: int, d: int, rem: int, wv: int, a: int, base: int)
    requires h == qa * d + rem, a == wv + rem * base, d > 0,
    ensures h * base + wv == (qa * base + a / d) * d + a % d,
{
    vstd::arithmetic::div_mod::lemma_fundamental_div_mod(a, d);
    assert((qa * d + rem) * base == (qa * base) * d + rem * base) by (nonlinear_arith);
    assert((qa * base + a / d) * d == (qa * base) * d + d * (a / d)) by (nonlinear_arith);
}

/// weights: (h·q2)·… helper for the valn bookkeeping:  h·(base·q) + t·q == (h·base + t)·q
pub proof fn lemma_dd_weight(h: int, t: int, base: int, q: int)
    ensures h * (base * q) + t * q == (h * base + t) * q,
{
    assert(h * (base * q) + t * q == (h * base + t) * q) by (nonlinear_arith);
}

/// math::shl_dword, second half: (hi << s) | carry is an addition when carry is the part of (lo << s)
/// shifted out of the low word
pub proof fn lemma_dd_shl_dword(lo: @W@, hi: @W@, s: u32, n0: @W@, carry: @W@, x1: @D@)
    requires s <= @BITS@, n0 as int + (carry as int) * B() == ((lo as @D@) << s) as int,
        x1 == ((hi as @D@) << s) | (carry as @D@),
    ensures n0 as int + (x1 as int) * B() == (lo as int + (hi as int) * B()) * pow2(s as int),
{
    lemma_sh_split_unique((lo as @D@) << s, n0, carry);
    assert(x1 == ((hi as @D@) << s) + (carry as @D@)
        && (((lo as @D@) << s) >> s) == (lo as @D@) && (((hi as @D@) << s) >> s) == (hi as @D@)) by (bit_vector)
        requires s <= @BITS@, carry == (((lo as @D@) << s) >> @BITS@u32) as @W@,
            x1 == ((hi as @D@) << s) | (carry as @D@);
    lemma_dd_shl_mul_bv(lo as @D@, s);
    lemma_dd_shl_mul_bv(hi as @D@, s);
    let p = pow2(s as int);
    let l = lo as int;
    let h = hi as int;
    assert((l + h * B()) * p == l * p + (h * p) * B()) by (nonlinear_arith);
    assert((((hi as @D@) << s) as int + carry as int) * B() == (h * p) * B() + (carry as int) * B()) by (nonlinear_arith)
        requires ((hi as @D@) << s) as int == h * p;
}

/// a three-word number below d·B has its upper double word below d
pub proof fn lemma_dd_3by2_pre(a0: int, ahi: int, d: int, x: int)
    requires a0 + ahi * B() == x, 0 <= a0, x < d * B(),
    ensures ahi < d,
{
    assert(ahi < d) by (nonlinear_arith) requires ahi * B() < d * B(), B() > 0;
}

/// a power-of-two double word above Word::MAX is B·2^s with s = trailing_zeros − BITS
pub proof fn lemma_dd_pow2_big(p: @D@, t: u32)
    requires p != 0, (p & ((p - 1) as @D@)) == 0, p > @W@::MAX, dd_is_tz(p, t),
    ensures @BITS@ <= t < 2 * @BITS@, p as int == B() * pow2(t as int - @BITS@),
{
    let tw = t as @D@;
    assert(t < 2 * @BITS@);
    assert(p == (1 as @D@) << t && t >= @BITS@) by (bit_vector)
        requires p != 0, (p & ((p - 1) as @D@)) == 0, p > (@W@::MAX as @D@), t < 2 * @BITS@, tw == t as @D@,
            ((p >> tw) & 1) == 1;
    lemma_sh_one_shl_d(t);
    lemma_sh_pow2_add(@BITS@, t as int - @BITS@);
    lemma_sh_pow2_bits();
}

/// power-of-two double-word divisor B·2^s, remainder assembly of div_by_dword_in_place:
///   n1·B + n0 == first·2^k, n2 == m·2^k (k = BITS − s)   ==>   n0 + (n1 + n2)·B == (first + m·B)·2^k
pub proof fn lemma_dd_pow2_rem(first: int, m: int, n0: int, n1: int, n2: int, pk: int, ps: int)
    requires n1 * B() + n0 == first * pk, n2 == m * pk, 0 <= m < ps, 0 <= first < B(), pk * ps == B(), pk >= 1,
    ensures n0 + (n1 + n2) * B() == (first + m * B()) * pk, 0 <= first + m * B() < B() * ps,
        (first + m * B()) * pk < B() * B(),
{
    assert((n1 + n2) * B() == n1 * B() + (m * pk) * B()) by (nonlinear_arith) requires n2 == m * pk;
    assert((first + m * B()) * pk == first * pk + (m * pk) * B()) by (nonlinear_arith);
    assert(m * B() <= (ps - 1) * B()) by (nonlinear_arith) requires m <= ps - 1;
    assert((ps - 1) * B() == B() * ps - B()) by (nonlinear_arith);
    assert(m * B() >= 0) by (nonlinear_arith) requires m >= 0;
    let r = first + m * B();
    assert(r * pk < (B() * ps) * pk) by (nonlinear_arith) requires r < B() * ps, pk >= 1;
    assert((B() * ps) * pk == B() * (pk * ps)) by (nonlinear_arith);
}

/// division identity for the divisor B·P:  V == V1·B + first, V1 == V2·P + m  ==>  V == V2·(B·P) + (first + m·B)
pub proof fn lemma_dd_pow2_ident(v: int, v1: int, first: int, v2: int, m: int, p: int)
    requires v == v1 * B() + first, v1 == v2 * p + m,
    ensures v == v2 * (B() * p) + (first + m * B()),
{
    assert((v2 * p + m) * B() == v2 * (B() * p) + m * B()) by (nonlinear_arith);
}
