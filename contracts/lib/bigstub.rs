// ---- bigstub.rs: dashu-int as seen from dashu-ratio (UBig / IBig / Sign / Gcd / AbsOrd) ----------------------
// Every item marked external_body below is a TRUSTED ASSUMPTION about dashu-int: it states what the real
// operator does on the mathematical value `v()`.  Nothing here is verified against integer/src.
// (generated once by a script; edit by hand from now on)
pub mod bigstub {
use super::*;
use vstd::std_specs::ops::*;
use vstd::std_specs::cmp::{OrdSpecImpl, PartialOrdSpecImpl, PartialEqSpecImpl};
use core::ops::{Add, Sub, Mul, Div, Shr, Neg};
use core::cmp::Ordering;

// dashu_base::Sign: the enum is mirrored from base/src/sign.rs (trusted to match).  The bodies of its operators
// (`Mul<Sign> for Sign::mul`, `Neg::neg`, `Ord::cmp`) are the REAL functions, extracted by the unit template as
// inherent methods `Sign::{mul, neg, cmp}` (//@@ FN .../base_sign_*.rs inside `impl Sign {}`); the trait impls
// below only forward to them.
#[derive(Clone, Copy, PartialEq, Eq)]
pub enum Sign { Positive, Negative }
pub use Sign::*;
pub open spec fn sgn(s: Sign) -> int { match s { Sign::Positive => 1, Sign::Negative => -1 } }
pub open spec fn sign_mul(a: Sign, b: Sign) -> Sign { if a == b { Sign::Positive } else { Sign::Negative } }
pub open spec fn sign_neg(a: Sign) -> Sign { match a { Sign::Positive => Sign::Negative, Sign::Negative => Sign::Positive } }
pub open spec fn sign_cmp(a: Sign, b: Sign) -> Ordering {
    match (a, b) {
        (Sign::Positive, Sign::Negative) => Ordering::Greater,
        (Sign::Negative, Sign::Positive) => Ordering::Less,
        _ => Ordering::Equal,
    }
}
impl PartialEqSpecImpl for Sign {
    open spec fn obeys_eq_spec() -> bool { true }
    open spec fn eq_spec(&self, other: &Sign) -> bool { *self == *other }
}
impl PartialOrdSpecImpl for Sign {
    open spec fn obeys_partial_cmp_spec() -> bool { true }
    open spec fn partial_cmp_spec(&self, other: &Sign) -> Option<Ordering> { Some(sign_cmp(*self, *other)) }
}
impl OrdSpecImpl for Sign {
    open spec fn obeys_cmp_spec() -> bool { true }
    open spec fn cmp_spec(&self, other: &Sign) -> Ordering { sign_cmp(*self, *other) }
}
impl PartialOrd for Sign {
    fn partial_cmp(&self, other: &Self) -> Option<Ordering> { Some(self.cmp(other)) }
}
impl Ord for Sign {
    fn cmp(&self, other: &Self) -> Ordering { Sign::cmp(self, other) }
}
impl NegSpecImpl for Sign {
    open spec fn obeys_neg_spec() -> bool { true }
    open spec fn neg_req(self) -> bool { true }
    open spec fn neg_spec(self) -> Sign { sign_neg(self) }
}
impl Neg for Sign { type Output = Sign;
    fn neg(self) -> Sign { Sign::neg(self) }
}
impl MulSpecImpl<Sign> for Sign {
    open spec fn obeys_mul_spec() -> bool { true }
    open spec fn mul_req(self, rhs: Sign) -> bool { true }
    open spec fn mul_spec(self, rhs: Sign) -> Sign { sign_mul(self, rhs) }
}
impl Mul<Sign> for Sign { type Output = Sign;
    fn mul(self, rhs: Sign) -> Sign { Sign::mul(self, rhs) }
}

// ---- the two big-integer types: abstract, value = v() ------------------------------------------------------
#[verifier::external_body]
pub struct UBig { _p: u8 }
#[verifier::external_body]
pub struct IBig { _p: u8 }
impl UBig { pub uninterp spec fn v(&self) -> int; }
impl IBig { pub uninterp spec fn v(&self) -> int; }
pub uninterp spec fn ubig_of(i: int) -> UBig;
pub uninterp spec fn ibig_of(i: int) -> IBig;
// TRUSTED: every natural number / integer is the value of some UBig / IBig; a UBig is never negative
#[verifier::external_body]
pub broadcast proof fn ax_ubig_of(i: int) requires i >= 0 ensures #[trigger] ubig_of(i).v() == i {}
#[verifier::external_body]
pub broadcast proof fn ax_ibig_of(i: int) ensures #[trigger] ibig_of(i).v() == i {}
#[verifier::external_body]
pub broadcast proof fn ax_ubig_nonneg(u: UBig) ensures #[trigger] u.v() >= 0 {}

pub open spec fn cmp_int(a: int, b: int) -> Ordering {
    if a < b { Ordering::Less } else if a == b { Ordering::Equal } else { Ordering::Greater }
}
// 2^k divides x exactly k times (x != 0)
pub open spec fn is_tz(x: int, k: int) -> bool { k >= 0 && x % pow2(k as nat) as int == 0 && x % pow2((k + 1) as nat) as int != 0 }

impl PartialEqSpecImpl for UBig {
    open spec fn obeys_eq_spec() -> bool { false }
    open spec fn eq_spec(&self, other: &UBig) -> bool { self.v() == other.v() }
}
impl PartialOrdSpecImpl for UBig {
    open spec fn obeys_partial_cmp_spec() -> bool { true }
    open spec fn partial_cmp_spec(&self, other: &UBig) -> Option<Ordering> { Some(cmp_int(self.v(), other.v())) }
}
impl OrdSpecImpl for UBig {
    open spec fn obeys_cmp_spec() -> bool { true }
    open spec fn cmp_spec(&self, other: &UBig) -> Ordering { cmp_int(self.v(), other.v()) }
}
impl PartialEq for UBig { #[verifier::external_body] fn eq(&self, other: &Self) -> bool { unimplemented!() } }
impl Eq for UBig {}
impl PartialOrd for UBig { #[verifier::external_body] fn partial_cmp(&self, other: &Self) -> Option<Ordering> { unimplemented!() } }
// TRUSTED: Ord for UBig compares the values (integer/src/cmp.rs)
impl Ord for UBig { #[verifier::external_body] fn cmp(&self, other: &Self) -> Ordering { unimplemented!() } }

impl UBig {
    // TRUSTED (integer/src/ubig.rs): the constants, is_zero / is_one test the value
    #[verifier::external_body] pub exec const ZERO: UBig ensures Self::ZERO.v() == 0 { UBig { _p: 0 } }
    #[verifier::external_body] pub exec const ONE: UBig ensures Self::ONE.v() == 1 { UBig { _p: 0 } }
    #[verifier::external_body]
    pub fn is_zero(&self) -> (r: bool) ensures r == (self.v() == 0) { unimplemented!() }
    #[verifier::external_body]
    pub fn is_one(&self) -> (r: bool) ensures r == (self.v() == 1) { unimplemented!() }
    // TRUSTED (integer/src/bits.rs): None for zero, otherwise the multiplicity of 2
    #[verifier::external_body]
    pub fn trailing_zeros(&self) -> (r: Option<usize>)
        ensures self.v() == 0 ==> r.is_none(), self.v() != 0 ==> r.is_some() && is_tz(self.v(), r.unwrap() as int)
    { unimplemented!() }
}
impl IBig {
    #[verifier::external_body] pub exec const ZERO: IBig ensures Self::ZERO.v() == 0 { IBig { _p: 0 } }
    #[verifier::external_body] pub exec const ONE: IBig ensures Self::ONE.v() == 1 { IBig { _p: 0 } }
    #[verifier::external_body] pub exec const NEG_ONE: IBig ensures Self::NEG_ONE.v() == -1 { IBig { _p: 0 } }
    #[verifier::external_body]
    pub fn is_zero(&self) -> (r: bool) ensures r == (self.v() == 0) { unimplemented!() }
    // TRUSTED (integer/src/ibig.rs): true only for +1
    #[verifier::external_body]
    pub fn is_one(&self) -> (r: bool) ensures r == (self.v() == 1) { unimplemented!() }
    // TRUSTED (integer/src/sign.rs): zero is Positive
    #[verifier::external_body]
    pub fn sign(&self) -> (r: Sign) ensures r == (if self.v() < 0 { Sign::Negative } else { Sign::Positive }) { unimplemented!() }
    // TRUSTED (integer/src/ibig.rs): sign-magnitude split and join (a zero magnitude is stored as +0)
    #[verifier::external_body]
    pub fn into_parts(self) -> (r: (Sign, UBig))
        ensures r.1.v() == rabs(self.v()), r.0 == (if self.v() < 0 { Sign::Negative } else { Sign::Positive }) { unimplemented!() }
    #[verifier::external_body]
    pub fn from_parts(sign: Sign, magnitude: UBig) -> (r: IBig) ensures r.v() == sgn(sign) * magnitude.v() { unimplemented!() }
    #[verifier::external_body]
    pub fn unsigned_abs(self) -> (r: UBig) ensures r.v() == rabs(self.v()) { unimplemented!() }
    // TRUSTED (integer/src/bits.rs): trailing zeros of the magnitude
    #[verifier::external_body]
    pub fn trailing_zeros(&self) -> (r: Option<usize>)
        ensures self.v() == 0 ==> r.is_none(), self.v() != 0 ==> r.is_some() && is_tz(rabs(self.v()), r.unwrap() as int)
    { unimplemented!() }
}

// dashu_base::AbsOrd (trait mirrored); TRUSTED: IBig::abs_cmp compares magnitudes (integer/src/cmp.rs)
pub trait AbsOrd<Rhs = Self> {
    spec fn abs_cmp_spec(&self, rhs: &Rhs) -> Ordering;
    fn abs_cmp(&self, rhs: &Rhs) -> (r: Ordering) ensures r == self.abs_cmp_spec(rhs);
}
impl AbsOrd for IBig {
    open spec fn abs_cmp_spec(&self, rhs: &IBig) -> Ordering { cmp_int(rabs(self.v()), rabs(rhs.v())) }
    #[verifier::external_body]
    fn abs_cmp(&self, rhs: &IBig) -> (r: Ordering) { unimplemented!() }
}

// dashu_base::Gcd (trait mirrored).  TRUSTED: gcd of the magnitudes, specified by divisibility only;
// the real gcd panics when both operands are zero (gcd_req).
pub trait Gcd<Rhs = Self> {
    type Output;
    spec fn gcd_req(self, rhs: Rhs) -> bool;
    spec fn gcd_post(self, rhs: Rhs, r: Self::Output) -> bool;
    fn gcd(self, rhs: Rhs) -> (r: Self::Output) requires self.gcd_req(rhs) ensures self.gcd_post(rhs, r);
}

impl<'a, 'b> Gcd<&'b UBig> for &'a UBig {
    type Output = UBig;
    open spec fn gcd_req(self, rhs: &'b UBig) -> bool { self.v() != 0 || rhs.v() != 0 }
    open spec fn gcd_post(self, rhs: &'b UBig, r: UBig) -> bool { is_gcd(r.v(), rabs(self.v()), rabs(rhs.v())) }
    #[verifier::external_body]
    fn gcd(self, rhs: &'b UBig) -> (r: UBig) { unimplemented!() }
}
impl<'a, 'b> Gcd<&'b UBig> for &'a IBig {
    type Output = UBig;
    open spec fn gcd_req(self, rhs: &'b UBig) -> bool { self.v() != 0 || rhs.v() != 0 }
    open spec fn gcd_post(self, rhs: &'b UBig, r: UBig) -> bool { is_gcd(r.v(), rabs(self.v()), rabs(rhs.v())) }
    #[verifier::external_body]
    fn gcd(self, rhs: &'b UBig) -> (r: UBig) { unimplemented!() }
}
impl<'a, 'b> Gcd<&'b IBig> for &'a UBig {
    type Output = UBig;
    open spec fn gcd_req(self, rhs: &'b IBig) -> bool { self.v() != 0 || rhs.v() != 0 }
    open spec fn gcd_post(self, rhs: &'b IBig, r: UBig) -> bool { is_gcd(r.v(), rabs(self.v()), rabs(rhs.v())) }
    #[verifier::external_body]
    fn gcd(self, rhs: &'b IBig) -> (r: UBig) { unimplemented!() }
}
impl<'b> Gcd<&'b IBig> for UBig {
    type Output = UBig;
    open spec fn gcd_req(self, rhs: &'b IBig) -> bool { self.v() != 0 || rhs.v() != 0 }
    open spec fn gcd_post(self, rhs: &'b IBig, r: UBig) -> bool { is_gcd(r.v(), rabs(self.v()), rabs(rhs.v())) }
    #[verifier::external_body]
    fn gcd(self, rhs: &'b IBig) -> (r: UBig) { unimplemented!() }
}
impl<'b> Gcd<&'b UBig> for UBig {
    type Output = UBig;
    open spec fn gcd_req(self, rhs: &'b UBig) -> bool { self.v() != 0 || rhs.v() != 0 }
    open spec fn gcd_post(self, rhs: &'b UBig, r: UBig) -> bool { is_gcd(r.v(), rabs(self.v()), rabs(rhs.v())) }
    #[verifier::external_body]
    fn gcd(self, rhs: &'b UBig) -> (r: UBig) { unimplemented!() }
}
impl<'a, 'b> Gcd<&'b IBig> for &'a IBig {
    type Output = UBig;
    open spec fn gcd_req(self, rhs: &'b IBig) -> bool { self.v() != 0 || rhs.v() != 0 }
    open spec fn gcd_post(self, rhs: &'b IBig, r: UBig) -> bool { is_gcd(r.v(), rabs(self.v()), rabs(rhs.v())) }
    #[verifier::external_body]
    fn gcd(self, rhs: &'b IBig) -> (r: UBig) { unimplemented!() }
}

// ---- operators.  TRUSTED: each computes the stated mathematical value (integer/src/{add,mul,div,shift}_ops.rs);
//      `/` on UBig is floor division, IBig / UBig truncates toward zero, both panic on a zero divisor (div_req);
//      `>>` on IBig rounds toward -infinity.
impl DivSpecImpl<UBig> for UBig {
    open spec fn obeys_div_spec() -> bool { true }
    open spec fn div_req(self, rhs: UBig) -> bool { rhs.v() != 0 }
    open spec fn div_spec(self, rhs: UBig) -> UBig { ubig_of(self.v() / rhs.v()) }
}
impl Div<UBig> for UBig { type Output = UBig;
    #[verifier::external_body]
    fn div(self, rhs: UBig) -> UBig { unimplemented!() }
}
impl<'b> DivSpecImpl<&'b UBig> for UBig {
    open spec fn obeys_div_spec() -> bool { true }
    open spec fn div_req(self, rhs: &'b UBig) -> bool { rhs.v() != 0 }
    open spec fn div_spec(self, rhs: &'b UBig) -> UBig { ubig_of(self.v() / rhs.v()) }
}
impl<'b> Div<&'b UBig> for UBig { type Output = UBig;
    #[verifier::external_body]
    fn div(self, rhs: &'b UBig) -> UBig { unimplemented!() }
}
impl<'a, 'b> DivSpecImpl<&'b UBig> for &'a UBig {
    open spec fn obeys_div_spec() -> bool { true }
    open spec fn div_req(self, rhs: &'b UBig) -> bool { rhs.v() != 0 }
    open spec fn div_spec(self, rhs: &'b UBig) -> UBig { ubig_of(self.v() / rhs.v()) }
}
impl<'a, 'b> Div<&'b UBig> for &'a UBig { type Output = UBig;
    #[verifier::external_body]
    fn div(self, rhs: &'b UBig) -> UBig { unimplemented!() }
}
impl<'a> DivSpecImpl<UBig> for &'a UBig {
    open spec fn obeys_div_spec() -> bool { true }
    open spec fn div_req(self, rhs: UBig) -> bool { rhs.v() != 0 }
    open spec fn div_spec(self, rhs: UBig) -> UBig { ubig_of(self.v() / rhs.v()) }
}
impl<'a> Div<UBig> for &'a UBig { type Output = UBig;
    #[verifier::external_body]
    fn div(self, rhs: UBig) -> UBig { unimplemented!() }
}
impl<'b> DivSpecImpl<&'b UBig> for IBig {
    open spec fn obeys_div_spec() -> bool { true }
    open spec fn div_req(self, rhs: &'b UBig) -> bool { rhs.v() != 0 }
    open spec fn div_spec(self, rhs: &'b UBig) -> IBig { ibig_of(tdiv(self.v(), rhs.v())) }
}
impl<'b> Div<&'b UBig> for IBig { type Output = IBig;
    #[verifier::external_body]
    fn div(self, rhs: &'b UBig) -> IBig { unimplemented!() }
}
impl DivSpecImpl<UBig> for IBig {
    open spec fn obeys_div_spec() -> bool { true }
    open spec fn div_req(self, rhs: UBig) -> bool { rhs.v() != 0 }
    open spec fn div_spec(self, rhs: UBig) -> IBig { ibig_of(tdiv(self.v(), rhs.v())) }
}
impl Div<UBig> for IBig { type Output = IBig;
    #[verifier::external_body]
    fn div(self, rhs: UBig) -> IBig { unimplemented!() }
}
impl MulSpecImpl<UBig> for UBig {
    open spec fn obeys_mul_spec() -> bool { true }
    open spec fn mul_req(self, rhs: UBig) -> bool { true }
    open spec fn mul_spec(self, rhs: UBig) -> UBig { ubig_of(self.v() * rhs.v()) }
}
impl Mul<UBig> for UBig { type Output = UBig;
    #[verifier::external_body]
    fn mul(self, rhs: UBig) -> UBig { unimplemented!() }
}
impl<'b> MulSpecImpl<&'b UBig> for UBig {
    open spec fn obeys_mul_spec() -> bool { true }
    open spec fn mul_req(self, rhs: &'b UBig) -> bool { true }
    open spec fn mul_spec(self, rhs: &'b UBig) -> UBig { ubig_of(self.v() * rhs.v()) }
}
impl<'b> Mul<&'b UBig> for UBig { type Output = UBig;
    #[verifier::external_body]
    fn mul(self, rhs: &'b UBig) -> UBig { unimplemented!() }
}
impl<'a> MulSpecImpl<UBig> for &'a UBig {
    open spec fn obeys_mul_spec() -> bool { true }
    open spec fn mul_req(self, rhs: UBig) -> bool { true }
    open spec fn mul_spec(self, rhs: UBig) -> UBig { ubig_of(self.v() * rhs.v()) }
}
impl<'a> Mul<UBig> for &'a UBig { type Output = UBig;
    #[verifier::external_body]
    fn mul(self, rhs: UBig) -> UBig { unimplemented!() }
}
impl MulSpecImpl<IBig> for IBig {
    open spec fn obeys_mul_spec() -> bool { true }
    open spec fn mul_req(self, rhs: IBig) -> bool { true }
    open spec fn mul_spec(self, rhs: IBig) -> IBig { ibig_of(self.v() * rhs.v()) }
}
impl Mul<IBig> for IBig { type Output = IBig;
    #[verifier::external_body]
    fn mul(self, rhs: IBig) -> IBig { unimplemented!() }
}
impl<'b> MulSpecImpl<&'b UBig> for IBig {
    open spec fn obeys_mul_spec() -> bool { true }
    open spec fn mul_req(self, rhs: &'b UBig) -> bool { true }
    open spec fn mul_spec(self, rhs: &'b UBig) -> IBig { ibig_of(self.v() * rhs.v()) }
}
impl<'b> Mul<&'b UBig> for IBig { type Output = IBig;
    #[verifier::external_body]
    fn mul(self, rhs: &'b UBig) -> IBig { unimplemented!() }
}
impl MulSpecImpl<UBig> for IBig {
    open spec fn obeys_mul_spec() -> bool { true }
    open spec fn mul_req(self, rhs: UBig) -> bool { true }
    open spec fn mul_spec(self, rhs: UBig) -> IBig { ibig_of(self.v() * rhs.v()) }
}
impl Mul<UBig> for IBig { type Output = IBig;
    #[verifier::external_body]
    fn mul(self, rhs: UBig) -> IBig { unimplemented!() }
}
impl<'a> MulSpecImpl<IBig> for &'a UBig {
    open spec fn obeys_mul_spec() -> bool { true }
    open spec fn mul_req(self, rhs: IBig) -> bool { true }
    open spec fn mul_spec(self, rhs: IBig) -> IBig { ibig_of(self.v() * rhs.v()) }
}
impl<'a> Mul<IBig> for &'a UBig { type Output = IBig;
    #[verifier::external_body]
    fn mul(self, rhs: IBig) -> IBig { unimplemented!() }
}
impl MulSpecImpl<IBig> for UBig {
    open spec fn obeys_mul_spec() -> bool { true }
    open spec fn mul_req(self, rhs: IBig) -> bool { true }
    open spec fn mul_spec(self, rhs: IBig) -> IBig { ibig_of(self.v() * rhs.v()) }
}
impl Mul<IBig> for UBig { type Output = IBig;
    #[verifier::external_body]
    fn mul(self, rhs: IBig) -> IBig { unimplemented!() }
}
impl MulSpecImpl<Sign> for IBig {
    open spec fn obeys_mul_spec() -> bool { true }
    open spec fn mul_req(self, rhs: Sign) -> bool { true }
    open spec fn mul_spec(self, rhs: Sign) -> IBig { ibig_of(self.v() * sgn(rhs)) }
}
impl Mul<Sign> for IBig { type Output = IBig;
    #[verifier::external_body]
    fn mul(self, rhs: Sign) -> IBig { unimplemented!() }
}
impl AddSpecImpl<IBig> for IBig {
    open spec fn obeys_add_spec() -> bool { true }
    open spec fn add_req(self, rhs: IBig) -> bool { true }
    open spec fn add_spec(self, rhs: IBig) -> IBig { ibig_of(self.v() + rhs.v()) }
}
impl Add<IBig> for IBig { type Output = IBig;
    #[verifier::external_body]
    fn add(self, rhs: IBig) -> IBig { unimplemented!() }
}
impl SubSpecImpl<IBig> for IBig {
    open spec fn obeys_sub_spec() -> bool { true }
    open spec fn sub_req(self, rhs: IBig) -> bool { true }
    open spec fn sub_spec(self, rhs: IBig) -> IBig { ibig_of(self.v() - rhs.v()) }
}
impl Sub<IBig> for IBig { type Output = IBig;
    #[verifier::external_body]
    fn sub(self, rhs: IBig) -> IBig { unimplemented!() }
}
impl ShrSpecImpl<usize> for UBig {
    open spec fn obeys_shr_spec() -> bool { true }
    open spec fn shr_req(self, rhs: usize) -> bool { true }
    open spec fn shr_spec(self, rhs: usize) -> UBig { ubig_of(self.v() / pow2(rhs as nat) as int) }
}
impl Shr<usize> for UBig { type Output = UBig;
    #[verifier::external_body]
    fn shr(self, rhs: usize) -> UBig { unimplemented!() }
}
impl ShrSpecImpl<usize> for IBig {
    open spec fn obeys_shr_spec() -> bool { true }
    open spec fn shr_req(self, rhs: usize) -> bool { true }
    open spec fn shr_spec(self, rhs: usize) -> IBig { ibig_of(self.v() / pow2(rhs as nat) as int) }
}
impl Shr<usize> for IBig { type Output = IBig;
    #[verifier::external_body]
    fn shr(self, rhs: usize) -> IBig { unimplemented!() }
}

} // mod bigstub
pub use bigstub::*;
broadcast use {bigstub::ax_ubig_of, bigstub::ax_ibig_of, bigstub::ax_ubig_nonneg};
