// ---- lemmas for integer/src/div_const.rs ------------------------------------------------------------------------

/// (word as DoubleWord) << s == word·2^s for s < WORD_BITS, and the result is a valid 2by1 dividend for a
/// normalized divisor d (high word < 2^s <= B/2 <= d)
pub proof fn lemma_dc_shl_word(word: @W@, s: u32, d: int)
    requires s < @BITS@, d >= @HALFB@,
    ensures ((word as @D@) << s) as int == (word as int) * pow2(s as int),
        (word as int) * pow2(s as int) < d * B(),
{
    let p = pow2(s as int);
    lemma_sh_pow2_mono(s as int, @BITS@ - 1);
    lemma_sh_pow2_bits();
    assert(pow2(@BITS@) == 2 * pow2(@BITS@ - 1));
    assert((word as int) * p < B() * @HALFB@) by (nonlinear_arith) requires 0 <= word as int, (word as int) < B(), 1 <= p <= @HALFB@;
    assert(B() * @HALFB@ <= d * B()) by (nonlinear_arith) requires d >= @HALFB@;
    assert(B() * @HALFB@ < B() * B()) by (nonlinear_arith) requires B() > @HALFB@, B() > 0;
    lemma_sh_shl_mul_d(word as @D@, s);
}

/// the three words of dword << s (0 <= s < WORD_BITS): the top word is < 2^s <= B/2 <= d (0 when s == 0)
pub proof fn lemma_dc_single_pre(dw: int, n0: int, n1: int, n2: int, p: int, s: u32, d: int)
    requires s < @BITS@, p == pow2(s as int), d >= @HALFB@, 0 <= dw < B() * B(),
        0 <= n0 < B(), 0 <= n1 < B(), 0 <= n2 < B(),
        n0 + n1 * B() + n2 * (B() * B()) == dw * p,
    ensures n1 + n2 * B() < d * B(), n0 + (n1 + n2 * B()) * B() == dw * p,
{
    lemma_sh_pow2_mono(s as int, @BITS@ - 1);
    lemma_sh_pow2_bits();
    assert(pow2(@BITS@) == 2 * pow2(@BITS@ - 1));
    assert(dw * p < (B() * B()) * p) by (nonlinear_arith) requires dw < B() * B(), p >= 1;
    assert(n2 < p) by (nonlinear_arith)
        requires n0 + n1 * B() + n2 * (B() * B()) < (B() * B()) * p, n0 >= 0, n1 >= 0, B() > 0;
    assert(n1 + n2 * B() < d * B()) by (nonlinear_arith) requires n1 < B(), n2 + 1 <= d;
    assert((n1 + n2 * B()) * B() == n1 * B() + n2 * (B() * B())) by (nonlinear_arith);
}

/// two chained 2by1 steps: ((hi % d)·B + lo) % d == (hi·B + lo) % d, and the second dividend is valid
pub proof fn lemma_dc_two_steps(lo: int, hi: int, r1: int, d: int)
    requires d > 0, 0 <= lo < B(), hi >= 0, r1 == hi % d,
    ensures lo + r1 * B() < d * B(), (lo + r1 * B()) % d == (lo + hi * B()) % d,
{
    vstd::arithmetic::div_mod::lemma_fundamental_div_mod(hi, d);
    vstd::arithmetic::div_mod::lemma_mod_bound(hi, d);
    let q = hi / d;
    assert(lo + r1 * B() < d * B()) by (nonlinear_arith) requires lo < B(), r1 + 1 <= d;
    assert(lo + hi * B() == (q * B()) * d + (lo + r1 * B())) by (nonlinear_arith) requires hi == d * q + r1;
    vstd::arithmetic::div_mod::lemma_mod_multiples_vanish(q * B(), lo + r1 * B(), d);
    assert((q * B()) * d == d * (q * B())) by (nonlinear_arith);
}

/// the three words of dword << s (0 < s < WORD_BITS) as a 3by2 dividend: the two top words are < B·2^s <= B²/2 <= d
pub proof fn lemma_dc_double_pre(dw: int, n0: int, n1: int, n2: int, p: int, s: u32, d: int)
    requires 0 < s < @BITS@, p == pow2(s as int), d >= @HALFB@ * B(), 0 <= dw < B() * B(),
        0 <= n0 < B(), 0 <= n1 < B(), 0 <= n2 < B(),
        n0 + n1 * B() + n2 * (B() * B()) == dw * p,
    ensures n1 + n2 * B() < d, n0 + (n1 + n2 * B()) * B() == dw * p,
{
    lemma_sh_pow2_mono(s as int, @BITS@ - 1);
    lemma_sh_pow2_bits();
    assert(pow2(@BITS@) == 2 * pow2(@BITS@ - 1));
    assert(dw * p < (B() * B()) * p) by (nonlinear_arith) requires dw < B() * B(), p >= 1;
    assert(n2 < p) by (nonlinear_arith)
        requires n0 + n1 * B() + n2 * (B() * B()) < (B() * B()) * p, n0 >= 0, n1 >= 0, B() > 0;
    assert(n1 + n2 * B() < @HALFB@ * B()) by (nonlinear_arith) requires n1 < B(), n2 + 1 <= @HALFB@;
    assert((n1 + n2 * B()) * B() == n1 * B() + n2 * (B() * B())) by (nonlinear_arith);
}

/// as lemma_dc_double_pre, also for s == 0
pub proof fn lemma_dc_double_pre0(dw: int, n0: int, n1: int, n2: int, p: int, s: u32, d: int)
    requires s < @BITS@, p == pow2(s as int), d >= @HALFB@ * B(), 0 <= dw < B() * B(),
        0 <= n0 < B(), 0 <= n1 < B(), 0 <= n2 < B(),
        n0 + n1 * B() + n2 * (B() * B()) == dw * p,
    ensures n1 + n2 * B() < d, n0 + (n1 + n2 * B()) * B() == dw * p,
{
    lemma_sh_pow2_mono(s as int, @BITS@ - 1);
    lemma_sh_pow2_bits();
    assert(pow2(@BITS@) == 2 * pow2(@BITS@ - 1));
    assert(dw * p < (B() * B()) * p) by (nonlinear_arith) requires dw < B() * B(), p >= 1;
    assert(n2 < p) by (nonlinear_arith)
        requires n0 + n1 * B() + n2 * (B() * B()) < (B() * B()) * p, n0 >= 0, n1 >= 0, B() > 0;
    assert(n1 + n2 * B() < @HALFB@ * B()) by (nonlinear_arith) requires n1 < B(), n2 + 1 <= @HALFB@;
    assert((n1 + n2 * B()) * B() == n1 * B() + n2 * (B() * B())) by (nonlinear_arith);
}

/// two chained 2by1 steps with their quotients: lo + hi·B == (q0 + q1·B)·d + r0
pub proof fn lemma_dc_two_quotients(lo: int, hi: int, q1: int, r1: int, q0: int, r0: int, d: int)
    requires d > 0, hi >= 0, q1 == hi / d, r1 == hi % d, q0 == (lo + r1 * B()) / d, r0 == (lo + r1 * B()) % d,
        lo + r1 * B() >= 0,
    ensures lo + hi * B() == (q0 + q1 * B()) * d + r0, 0 <= r0 < d,
{
    vstd::arithmetic::div_mod::lemma_fundamental_div_mod(hi, d);
    vstd::arithmetic::div_mod::lemma_fundamental_div_mod(lo + r1 * B(), d);
    vstd::arithmetic::div_mod::lemma_mod_bound(lo + r1 * B(), d);
    assert((q0 + q1 * B()) * d == d * q0 + (d * q1) * B()) by (nonlinear_arith);
    assert((d * q1 + r1) * B() == (d * q1) * B() + r1 * B()) by (nonlinear_arith);
}
