// ---- lemmas for integer/src/div_const.rs ------------------------------------------------------------------------

/// (word as DoubleWord) << s == word·2^s for s < WORD_BITS, and the result is a valid 2by1 dividend for a
/// normalized divisor d (high word < 2^s <= B/2 <= d)
pub proof fn lemma_dc_shl_word(word: @W@, s: u32, d: int)
    requires s < @BITS@, d >= @HALFB@,
    ensures ((word as @D@) << s) as int == (word as int) * pow2(s as int),
        (word as int) * pow2(s as int) < d * B(),
{
    let p = pow2(s as int);
    lemma_sh_pow2_mono(s as int, @BITS@ - 1);
    lemma_sh_pow2_bits();
    assert(pow2(@BITS@) == 2 * pow2(@BITS@ - 1));
    assert((word as int) * p < B() * @HALFB@) by (nonlinear_arith) requires 0 <= word as int, (word as int) < B(), 1 <= p <= @HALFB@;
    assert(B() * @HALFB@ <= d * B()) by (nonlinear_arith) requires d >= @HALFB@;
    assert(B() * @HALFB@ < B() * B()) by (nonlinear_arith) requires B() > @HALFB@, B() > 0;
    lemma_sh_shl_mul_d(word as @D@, s);
}

/// the three words of dword << s (0 <= s < WORD_BITS): the top word is < 2^s <= B/2 <= d (0 when s == 0)
pub proof fn lemma_dc_single_pre(dw: int, n0: int, n1: int, n2: int, p: int, s: u32, d: int)
    requires s < @BITS@, p == pow2(s as int), d >= @HALFB@, 0 <= dw < B() * B(),
        0 <= n0 < B(), 0 <= n1 < B(), 0 <= n2 < B(),
        n0 + n1 * B() + n2 * (B() * B()) == dw * p,
    ensures n1 + n2 * B() < d * B(), n0 + (n1 + n2 * B()) * B() == dw * p,
{
    lemma_sh_pow2_mono(s as int, @BITS@ - 1);
    lemma_sh_pow2_bits();
    assert(pow2(@BITS@) == 2 * pow2(@BITS@ - 1));
    assert(dw * p < (B() * B()) * p) by (nonlinear_arith) requires dw < B() * B(), p >= 1;
    assert(n2 < p) by (nonlinear_arith)
        requires n0 + n1 * B() + n2 * (B() * B()) < (B() * B()) * p, n0 >= 0, n1 >= 0, B() > 0;
    assert(n1 + n2 * B() < d * B()) by (nonlinear_arith) requires n1 < B(), n2 + 1 <= d;
    assert((n1 + n2 * B()) * B() == n1 * B() + n2 * (B() * B())) by (nonlinear_arith);
}

/// two chained 2by1 steps: ((hi % d)·B + lo) % d == (hi·B + lo) % d, and the second dividend is valid
pub proof fn lemma_dc_two_steps(lo: int, hi: int, r1: int, d: int)
    requires d > 0, 0 <= lo < B(), hi >= 0, r1 == hi % d,
    ensures lo + r1 * B() < d * B(), (lo + r1 * B()) % d == (lo + hi * B()) % d,
{
    vstd::arithmetic::div_mod::lemma_fundamental_div_mod(hi, d);
    vstd::arithmetic::div_mod::lemma_mod_bound(hi, d);
    let q = hi / d;
    assert(lo + r1 * B() < d * B()) by (nonlinear_arith) requires lo < B(), r1 + 1 <= d;
    assert(lo + hi * B() == (q * B()) * d + (lo + r1 * B())) by (nonlinear_arith) requires hi == d * q + r1;
    vstd::arithmetic::div_mod::lemma_mod_multiples_vanish(q * B(), lo + r1 * B(), d);
    assert((q * B()) * d == d * (q * B())) by (nonlinear_arith);
}

/// the three words of dword << s (0 < s < WORD_BITS) as a 3by2 dividend: the two top words are < B·2^s <= B²/2 <= d
pub proof fn lemma_dc_double_pre(dw: int, n0: int, n1: int, n2: int, p: int, s: u32, d: int)
    requires 0 < s < @BITS@, p == pow2(s as int), d >= @HALFB@ * B(), 0 <= dw < B() * B(),
        0 <= n0 < B(), 0 <= n1 < B(), 0 <= n2 < B(),
        n0 + n1 * B() + n2 * (B() * B()) == dw * p,
    ensures n1 + n2 * B() < d, n0 + (n1 + n2 * B()) * B() == dw * p,
{
    lemma_sh_pow2_mono(s as int, @BITS@ - 1);
    lemma_sh_pow2_bits();
    assert(pow2(@BITS@) == 2 * pow2(@BITS@ - 1));
    assert(dw * p < (B() * B()) * p) by (nonlinear_arith) requires dw < B() * B(), p >= 1;
    assert(n2 < p) by (nonlinear_arith)
        requires n0 + n1 * B() + n2 * (B() * B()) < (B() * B()) * p, n0 >= 0, n1 >= 0, B() > 0;
    assert(n1 + n2 * B() < @HALFB@ * B()) by (nonlinear_arith) requires n1 < B(), n2 + 1 <= @HALFB@;
    assert((n1 + n2 * B()) * B() == n1 * B() + n2 * (B() * B())) by (nonlinear_arith);
}

/// as lemma_dc_double_pre, also for s == 0
pub proof fn lemma_dc_double_pre0(dw: int, n0: int, n1: int, n2: int, p: int, s: u32, d: int)
    requires s < @BITS@, p == pow2(s as int), d >= @HALFB@ * B(), 0 <= dw < B() * B(),
        0 <= n0 < B(), 0 <= n1 < B(), 0 <= n2 < B(),
        n0 + n1 * B() + n2 * (B() * B()) == dw * p,
    ensures n1 + n2 * B() < d, n0 + (n1 + n2 * B()) * B() == dw * p,
{
    lemma_sh_pow2_mono(s as int, @BITS@ - 1);
    lemma_sh_pow2_bits();
    assert(pow2(@BITS@) == 2 * pow2(@BITS@ - 1));
    assert(dw * p < (B() * B()) * p) by (nonlinear_arith) requires dw < B() * B(), p >= 1;
    assert(n2 < p) by (nonlinear_arith)
        requires n0 + n1 * B() + n2 * (B() * B()) < (B() * B()) * p, n0 >= 0, n1 >= 0, B() > 0;
    assert(n1 + n2 * B() < @HALFB@ * B()) by (nonlinear_arith) requires n1 < B(), n2 + 1 <= @HALFB@;
    assert((n1 + n2 * B()) * B() == n1 * B() + n2 * (B() * B())) by (nonlinear_arith);
}

/// two chained 2by1 steps with their quotients: lo + hi·B == (q0 + q1·B)·d + r0
pub proof fn lemma_dc_two_quotients(lo: int, hi: int, q1: int, r1: int, q0: int, r0: int, d: int)
    requires d > 0, hi >= 0, q1 == hi / d, r1 == hi % d, q0 == (lo + r1 * B()) / d, r0 == (lo + r1 * B()) % d,
        lo + r1 * B() >= 0,
    ensures lo + hi * B() == (q0 + q1 * B()) * d + r0, 0 <= r0 < d,
{
    vstd::arithmetic::div_mod::lemma_fundamental_div_mod(hi, d);
    vstd::arithmetic::div_mod::lemma_fundamental_div_mod(lo + r1 * B(), d);
    vstd::arithmetic::div_mod::lemma_mod_bound(lo + r1 * B(), d);
    assert((q0 + q1 * B()) * d == d * q0 + (d * q1) * B()) by (nonlinear_arith);
    assert((d * q1 + r1) * B() == (d * q1) * B() + r1 * B()) by (nonlinear_arith);
}

/// undo the normalization of a remainder: rs == (x·p) % (o·p)  ==>  p | rs and rs / p is the remainder of x by o
pub proof fn lemma_dc_rem_unshift(x: int, o: int, p: int, dn: int, rs: int)
    requires x >= 0, p >= 1, dn > 0, dn % p == 0, o == dn / p, rs == (x * p) % dn,
    ensures rs % p == 0, is_remainder(x, o, rs / p), 0 <= rs < dn,
{
    vstd::arithmetic::div_mod::lemma_fundamental_div_mod(dn, p);
    assert(p * o == o * p) by (nonlinear_arith);
    assert(x * p >= 0) by (nonlinear_arith) requires x >= 0, p >= 1;
    vstd::arithmetic::div_mod::lemma_fundamental_div_mod(x * p, dn);
    vstd::arithmetic::div_mod::lemma_mod_bound(x * p, dn);
    let q = (x * p) / dn;
    assert(dn * q == q * (o * p)) by (nonlinear_arith) requires dn == o * p;
    lemma_dg_unshift_rem(x, o, q, rs, p);
}

/// everything the arms of `x % &ConstDivisorRepr` need, for a dividend of value x occupying nw words
/// (Small: nw == 2, x < B²; Large: x < B^nw), stated on the results the callee contracts promise
pub proof fn lemma_dc_rem_arms(x: int, nw: int, c: ConstDivisorRepr)
    requires c.wf(), x >= 0, nw >= 2, x < pw(nw),
    ensures
        match c {
            ConstDivisorRepr::Single(d) => {
                let p = pow2(d.0.spec_shift() as int);
                let rs = (x * p) % d.0.dn();
                0 <= rs < B() && is_remainder(x, c.value(), ((rs as Word) >> d.0.spec_shift()) as int)
            },
            ConstDivisorRepr::Double(d) => {
                let p = pow2(d.0.spec_shift() as int);
                let rs = (x * p) % d.0.dn();
                0 <= rs < B() * B() && is_remainder(x, c.value(), ((rs as DoubleWord) >> d.0.spec_shift()) as int)
            },
            ConstDivisorRepr::Large(d) => nw == 2 ==> is_div_rem(x, c.value(), 0, x),
        },
{
    match c {
        ConstDivisorRepr::Single(d) => {
            let s = d.0.spec_shift();
            let p = pow2(s as int);
            let rs = (x * p) % d.0.dn();
            lemma_sh_pow2_pos(s as int);
            lemma_dc_rem_unshift(x, d.0.orig(), p, d.0.dn(), rs);
            lemma_sh_shr_div_w(rs as Word, s);
        },
        ConstDivisorRepr::Double(d) => {
            let s = d.0.spec_shift();
            let p = pow2(s as int);
            let rs = (x * p) % d.0.dn();
            lemma_sh_pow2_pos(s as int);
            lemma_dc_rem_unshift(x, d.0.orig(), p, d.0.dn(), rs);
            lemma_dd_shr_div(rs as DoubleWord, s);
        },
        ConstDivisorRepr::Large(d) => {
            if nw == 2 {
                // x < B² <= B^(n-1) <= divisor
                let n = d.normalized_divisor@.len() as int;
                lemma_pw_add(2, n - 3);
                lemma_pw_pos(n - 3);
                assert(pw(2) * pw(n - 3) >= pw(2)) by (nonlinear_arith) requires pw(n - 3) >= 1, pw(2) >= 0;
                assert(is_div_rem(x, d.orig(), 0, x));
            }
        },
    }
}

/// a well-formed magnitude of nw words (Small counts as 2) is below B^nw
pub proof fn lemma_dc_typed_bound(t: TypedRepr)
    requires t.wf(),
    ensures 0 <= t.v() < pw(t.nwords()), t.nwords() >= 2,
{
    assert(pw(2) == B() * pw(1) && pw(1) == B() * pw(0) && pw(0) == 1);
    match t {
        TypedRepr::Small(d) => {}
        TypedRepr::Large(b) => { lemma_valn_bound(b@, b@.len() as int); }
    }
}
pub proof fn lemma_dc_typedref_bound(t: TypedReprRef)
    requires t.wf(),
    ensures 0 <= t.v() < pw(t.nwords()), t.nwords() >= 2,
{
    assert(pw(2) == B() * pw(1) && pw(1) == B() * pw(0) && pw(0) == 1);
    match t {
        TypedReprRef::RefSmall(d) => {}
        TypedReprRef::RefLarge(w) => { lemma_valn_bound(w@, w@.len() as int); }
    }
}

/// a dividend with fewer words than the (n-word, top word non-zero) divisor is its own remainder
pub proof fn lemma_dc_shorter(s: Seq<Word>, n: int, o: int)
    requires s.len() < n, o >= pw(n - 1),
    ensures is_div_rem(val(s), o, 0, val(s)), is_quotient(val(s), o, 0), is_remainder(val(s), o, val(s)),
{
    let len = s.len() as int;
    lemma_valn_bound(s, len);
    lemma_pw_add(len, n - 1 - len);
    lemma_pw_pos(n - 1 - len);
    assert(pw(len) * pw(n - 1 - len) >= pw(len)) by (nonlinear_arith) requires pw(n - 1 - len) >= 1, pw(len) >= 0;
    assert(is_div_rem(val(s), o, 0, val(s)));
}

/// Large / Large through a ConstDivisor: after div_rem_unshifted_in_place (l1 = [r_s (n words), Q]) the quotient
/// buffer qb = Q ++ [q_top unless 0] holds the quotient of a by o, and r_s is a multiple of p with r_s / p the remainder
pub proof fn lemma_dc_large_quotient(a: int, o: int, p: int, m: int, l1: Seq<Word>, n: int, q_top: Word, qb: Seq<Word>)
    requires
        p >= 1, m % p == 0, o == m / p, 0 <= n <= l1.len(),
        a * p == (val(l1.subrange(n, l1.len() as int)) + (q_top as int) * pw(l1.len() - n)) * m + val(l1.subrange(0, n)),
        val(l1.subrange(0, n)) < m,
        q_top != 0 ==> qb == l1.subrange(n, l1.len() as int).push(q_top),
        q_top == 0 ==> qb == l1.subrange(n, l1.len() as int),
    ensures
        val(l1.subrange(0, n)) % p == 0,
        is_div_rem(a, o, val(qb), val(l1.subrange(0, n)) / p),
        is_quotient(a, o, val(qb)),
{
    let hi = l1.subrange(n, l1.len() as int);
    let k = l1.len() - n;
    if q_top != 0 {
        lemma_ds_top1(qb);
        lemma_valn_ext(qb, hi, k);
    } else {
        assert((q_top as int) * pw(k) == 0) by (nonlinear_arith) requires q_top as int == 0;
    }
    assert(val(qb) == val(hi) + (q_top as int) * pw(k));
    vstd::arithmetic::div_mod::lemma_fundamental_div_mod(m, p);
    assert(p * (m / p) == o * p) by (nonlinear_arith) requires o == m / p;
    lemma_valn_bound(l1.subrange(0, n), n);
    lemma_dg_unshift_rem(a, o, val(qb), val(l1.subrange(0, n)), p);
}
