// ---- mulalg_toom_lemmas.rs: Toom-Cook-3 (mul/toom_3.rs).  Needs prelude, sign, mul_lemmas, mulalg_stubs, mulalg_lemmas.
// Notation: A(x) = a0 + a1 x + a2 x^2, B(x) likewise, V(x) = A(x) B(x) = c0 + c1 x + c2 x^2 + c3 x^3 + c4 x^4.

pub open spec fn tc0(a0: int, a1: int, a2: int, b0: int, b1: int, b2: int) -> int { a0 * b0 }
pub open spec fn tc1(a0: int, a1: int, a2: int, b0: int, b1: int, b2: int) -> int { a0 * b1 + a1 * b0 }
pub open spec fn tc2(a0: int, a1: int, a2: int, b0: int, b1: int, b2: int) -> int { a0 * b2 + a1 * b1 + a2 * b0 }
pub open spec fn tc3(a0: int, a1: int, a2: int, b0: int, b1: int, b2: int) -> int { a1 * b2 + a2 * b1 }
pub open spec fn tc4(a0: int, a1: int, a2: int, b0: int, b1: int, b2: int) -> int { a2 * b2 }

/// (u + v + w)(p + q + r), nine terms
pub proof fn lemma_mul33(u: int, v: int, w: int, p: int, q: int, r: int)
    ensures (u + v + w) * (p + q + r) == u * p + u * q + u * r + v * p + v * q + v * r + w * p + w * q + w * r,
{
    let t = p + q + r;
    assert((u + v + w) * t == u * t + v * t + w * t) by (nonlinear_arith);
    assert(u * (p + q + r) == u * p + u * q + u * r) by (nonlinear_arith);
    assert(v * (p + q + r) == v * p + v * q + v * r) by (nonlinear_arith);
    assert(w * (p + q + r) == w * p + w * q + w * r) by (nonlinear_arith);
}

/// (a·x)(b·y) = (a·b)·z  when z = x·y
pub proof fn lemma_mul_xy(a: int, x: int, b: int, y: int, z: int)
    requires z == x * y,
    ensures (a * x) * (b * y) == (a * b) * z,
{
    assert((a * x) * (b * y) == (a * b) * (x * y)) by (nonlinear_arith);
}

/// the product polynomial at a point x (x2 = x², x3 = x³, x4 = x⁴)
pub proof fn lemma_poly3(a0: int, a1: int, a2: int, b0: int, b1: int, b2: int, x: int, x2: int, x3: int, x4: int)
    requires x2 == x * x, x3 == x2 * x, x4 == x2 * x2,
    ensures (a0 + a1 * x + a2 * x2) * (b0 + b1 * x + b2 * x2)
        == tc0(a0, a1, a2, b0, b1, b2) + tc1(a0, a1, a2, b0, b1, b2) * x + tc2(a0, a1, a2, b0, b1, b2) * x2
            + tc3(a0, a1, a2, b0, b1, b2) * x3 + tc4(a0, a1, a2, b0, b1, b2) * x4,
{
    let u = a0; let v = a1 * x; let w = a2 * x2;
    let p = b0; let q = b1 * x; let r = b2 * x2;
    lemma_mul33(u, v, w, p, q, r);
    assert(u * q == (a0 * b1) * x) by (nonlinear_arith) requires q == b1 * x, u == a0;
    assert(u * r == (a0 * b2) * x2) by (nonlinear_arith) requires r == b2 * x2, u == a0;
    assert(v * p == (a1 * b0) * x) by (nonlinear_arith) requires v == a1 * x, p == b0;
    assert(w * p == (a2 * b0) * x2) by (nonlinear_arith) requires w == a2 * x2, p == b0;
    lemma_mul_xy(a1, x, b1, x, x2);
    lemma_mul_xy(a1, x, b2, x2, x3);
    assert(x2 * x == x * x2) by (nonlinear_arith);
    lemma_mul_xy(a2, x2, b1, x, x3);
    lemma_mul_xy(a2, x2, b2, x2, x4);
    let c1a = a0 * b1; let c1b = a1 * b0;
    assert((c1a + c1b) * x == c1a * x + c1b * x) by (nonlinear_arith);
    let c2a = a0 * b2; let c2b = a1 * b1; let c2c = a2 * b0;
    assert((c2a + c2b + c2c) * x2 == c2a * x2 + c2b * x2 + c2c * x2) by (nonlinear_arith);
    let c3a = a1 * b2; let c3b = a2 * b1;
    assert((c3a + c3b) * x3 == c3a * x3 + c3b * x3) by (nonlinear_arith);
}

/// the four evaluations used by the algorithm, in terms of the coefficients (all LINEAR in c0..c4 afterwards)
pub proof fn lemma_toom_evals(a0: int, a1: int, a2: int, b0: int, b1: int, b2: int)
    ensures
        (a0 + a1 + a2) * (b0 + b1 + b2)
            == tc0(a0, a1, a2, b0, b1, b2) + tc1(a0, a1, a2, b0, b1, b2) + tc2(a0, a1, a2, b0, b1, b2)
                + tc3(a0, a1, a2, b0, b1, b2) + tc4(a0, a1, a2, b0, b1, b2),
        (a0 - a1 + a2) * (b0 - b1 + b2)
            == tc0(a0, a1, a2, b0, b1, b2) - tc1(a0, a1, a2, b0, b1, b2) + tc2(a0, a1, a2, b0, b1, b2)
                - tc3(a0, a1, a2, b0, b1, b2) + tc4(a0, a1, a2, b0, b1, b2),
        (a0 + 2 * a1 + 4 * a2) * (b0 + 2 * b1 + 4 * b2)
            == tc0(a0, a1, a2, b0, b1, b2) + 2 * tc1(a0, a1, a2, b0, b1, b2) + 4 * tc2(a0, a1, a2, b0, b1, b2)
                + 8 * tc3(a0, a1, a2, b0, b1, b2) + 16 * tc4(a0, a1, a2, b0, b1, b2),
{
    lemma_poly3(a0, a1, a2, b0, b1, b2, 1, 1, 1, 1);
    lemma_poly3(a0, a1, a2, b0, b1, b2, -1, 1, -1, 1);
    lemma_poly3(a0, a1, a2, b0, b1, b2, 2, 4, 8, 16);
    assert(a1 * (-1) == -a1 && b1 * (-1) == -b1);
}

pub proof fn lemma_toom_coeff_nonneg(a0: int, a1: int, a2: int, b0: int, b1: int, b2: int)
    requires 0 <= a0, 0 <= a1, 0 <= a2, 0 <= b0, 0 <= b1, 0 <= b2,
    ensures 0 <= tc0(a0, a1, a2, b0, b1, b2), 0 <= tc1(a0, a1, a2, b0, b1, b2), 0 <= tc2(a0, a1, a2, b0, b1, b2),
        0 <= tc3(a0, a1, a2, b0, b1, b2), 0 <= tc4(a0, a1, a2, b0, b1, b2),
{
    assert(0 <= a0 * b0) by (nonlinear_arith) requires 0 <= a0, 0 <= b0;
    assert(0 <= a0 * b1) by (nonlinear_arith) requires 0 <= a0, 0 <= b1;
    assert(0 <= a1 * b0) by (nonlinear_arith) requires 0 <= a1, 0 <= b0;
    assert(0 <= a0 * b2) by (nonlinear_arith) requires 0 <= a0, 0 <= b2;
    assert(0 <= a1 * b1) by (nonlinear_arith) requires 0 <= a1, 0 <= b1;
    assert(0 <= a2 * b0) by (nonlinear_arith) requires 0 <= a2, 0 <= b0;
    assert(0 <= a1 * b2) by (nonlinear_arith) requires 0 <= a1, 0 <= b2;
    assert(0 <= a2 * b1) by (nonlinear_arith) requires 0 <= a2, 0 <= b1;
    assert(0 <= a2 * b2) by (nonlinear_arith) requires 0 <= a2, 0 <= b2;
}

/// a·b for a = a0 + P a1 + P² a2 (value of a three-way split) in terms of the coefficients
pub proof fn lemma_toom_product(a: int, b: int, a0: int, a1: int, a2: int, b0: int, b1: int, b2: int,
    w1: int, w2: int, w3: int, w4: int)
    requires a == a0 + w1 * (a1 + w1 * a2), b == b0 + w1 * (b1 + w1 * b2), w2 == w1 * w1, w3 == w2 * w1, w4 == w2 * w2,
    ensures a * b == tc0(a0, a1, a2, b0, b1, b2) + tc1(a0, a1, a2, b0, b1, b2) * w1 + tc2(a0, a1, a2, b0, b1, b2) * w2
        + tc3(a0, a1, a2, b0, b1, b2) * w3 + tc4(a0, a1, a2, b0, b1, b2) * w4,
{
    lemma_poly3(a0, a1, a2, b0, b1, b2, w1, w2, w3, w4);
    assert(w1 * (a1 + w1 * a2) == a1 * w1 + a2 * (w1 * w1)) by (nonlinear_arith);
    assert(w1 * (b1 + w1 * b2) == b1 * w1 + b2 * (w1 * w1)) by (nonlinear_arith);
}

// ---- sequence-level helpers -----------------------------------------------------------------------------------

/// three-way split of a factor: a = a0 ++ a1 ++ a2 with |a0| == |a1| == k
pub proof fn lemma_split3(a: Seq<Word>, k: int)
    requires 0 <= k, 2 * k <= a.len(),
    ensures val(a) == val(a.subrange(0, k)) + pw(k) * (val(a.subrange(k, 2 * k)) + pw(k) * val(a.subrange(2 * k, a.len() as int))),
{
    let len = a.len() as int;
    lemma_val_split(a, k);
    let t = a.subrange(k, len);
    lemma_val_split(t, k);
    assert(t.subrange(0, k) =~= a.subrange(k, 2 * k));
    assert(t.subrange(k, t.len() as int) =~= a.subrange(2 * k, len));
}

/// value of a sequence whose last word is singled out
pub proof fn lemma_top_word(s: Seq<Word>, n: int)
    requires s.len() == n + 1, n >= 0,
    ensures val(s) == val(s.subrange(0, n)) + (s[n] as int) * pw(n),
{
    lemma_valn_ext(s, s.subrange(0, n), n);
}

/// the word at position n (the last one) replaced: e2 = e1 with top word t2
pub proof fn lemma_set_top(e1: Seq<Word>, e2: Seq<Word>, n: int)
    requires e1.len() == n + 1, e2.len() == n + 1, n >= 0, e2.subrange(0, n) =~= e1.subrange(0, n),
    ensures val(e2) == val(e1) + (e2[n] as int - e1[n] as int) * pw(n),
{
    lemma_top_word(e1, n);
    lemma_top_word(e2, n);
    let d = e2[n] as int - e1[n] as int;
    assert((e1[n] as int + d) * pw(n) == (e1[n] as int) * pw(n) + d * pw(n)) by (nonlinear_arith);
}

/// `r = kernel(&mut e[..n], ..); e[n] (+)= r`: the low n words absorbed x with carry r (e0 -> e1), then the top word
/// was increased by r (e1 -> e2): the (n+1)-word value grew by exactly x
pub proof fn lemma_eval_step(e0: Seq<Word>, e1: Seq<Word>, e2: Seq<Word>, n: int, r: int, x: int)
    requires e0.len() == n + 1, e1.len() == n + 1, e2.len() == n + 1, n >= 0,
        e1[n] == e0[n],
        val(e1.subrange(0, n)) + r * pw(n) == val(e0.subrange(0, n)) + x,
        e2.subrange(0, n) =~= e1.subrange(0, n),
        e2[n] as int == e1[n] as int + r,
    ensures val(e2) == val(e0) + x,
{
    lemma_top_word(e0, n);
    lemma_top_word(e1, n);
    lemma_top_word(e2, n);
    assert((e1[n] as int + r) * pw(n) == (e1[n] as int) * pw(n) + r * pw(n)) by (nonlinear_arith);
}

/// carry of `lo += x` for 0 <= x < k·P is at most k
pub proof fn lemma_carry_le(lo1: int, lo0: int, x: int, r: int, p: int, k: int)
    requires lo1 + r * p == lo0 + x, 0 <= lo1, 0 <= lo0 < p, x < k * p, 0 <= r, 0 <= k,
    ensures r <= k,
{
    assert(r * p < (k + 1) * p) by (nonlinear_arith) requires r * p < p + k * p;
    assert(r < k + 1) by (nonlinear_arith) requires r * p < (k + 1) * p, p > 0, r >= 0, k >= 0;
}

/// copy of a0 followed by a zero word
pub proof fn lemma_val_copy_fill(e: Seq<Word>, a0: Seq<Word>)
    requires e.len() == a0.len() + 1, e[a0.len() as int] == 0,
        forall|i: int| 0 <= i < a0.len() ==> e[i] == a0[i],
    ensures val(e) == val(a0), e.subrange(0, a0.len() as int) =~= a0,
{
    lemma_top_word(e, a0.len() as int);
    assert(e.subrange(0, a0.len() as int) =~= a0);
    assert(0 * pw(a0.len() as int) == 0);
}

/// pw(n + 2) = B·B·pw(n); any constant up to B·B - 1 times a value below pw(n) stays below pw(n + 2)
pub proof fn lemma_pw_plus2(n: int)
    requires n >= 0,
    ensures pw(n + 2) == B() * B() * pw(n), pw(n) >= 1,
{
    lemma_pw_pos(n);
    assert(pw(n + 2) == B() * pw(n + 1));
    assert(pw(n + 1) == B() * pw(n));
    assert(B() * (B() * pw(n)) == B() * B() * pw(n)) by (nonlinear_arith);
}

/// k·x < pw(n + 2) for x < pw(n) and a small constant k (k <= 64 is all Toom-3 needs)
pub proof fn lemma_small_multiple_fits(x: int, k: int, n: int)
    requires 0 <= x, x < k * pw(n), 0 <= k <= 64, n >= 0,
    ensures x < pw(n + 2),
{
    lemma_pw_plus2(n);
    let p = pw(n);
    assert(k * p <= 64 * p) by (nonlinear_arith) requires k <= 64, p >= 1;
    assert(64 * p <= B() * B() * p) by (nonlinear_arith) requires p >= 1, B() * B() >= 64;
}

/// the product of two (n+1)-word evaluations bounded by ka·P resp. kb·P is below ka·kb·P²
pub proof fn lemma_eval_prod_bound(x: int, y: int, ka: int, kb: int, p: int, p2: int)
    requires 0 <= x < ka * p, 0 <= y < kb * p, p2 == p * p, 0 <= ka, 0 <= kb, p >= 1,
    ensures 0 <= x * y, x * y < (ka * kb) * p2,
{
    assert(0 <= x * y) by (nonlinear_arith) requires 0 <= x, 0 <= y;
    if ka == 0 || kb == 0 {
        assert(ka * p == 0 || kb * p == 0) by (nonlinear_arith) requires ka == 0 || kb == 0;
    } else {
        lemma_prod_bound(x, y, ka * p, kb * p);
        assert((ka * p) * (kb * p) == (ka * kb) * (p * p)) by (nonlinear_arith);
    }
}

pub proof fn lemma_pow2_1()
    ensures pow2(1) == 2, pow2(0) == 1,
{
    assert(pow2(1) == 2 * pow2(0));
}

/// sgn(-s)·x = -(sgn(s)·x)
pub proof fn lemma_sgn_neg(s: Sign, x: int)
    ensures sgn(sign_neg(s)) * x == -(sgn(s) * x),
{
    lemma_sgn(s, x);
    lemma_sgn(sign_neg(s), x);
}

/// (sgn(s)·c)·w = sgn(s)·(c·w)
pub proof fn lemma_sgn_assoc(s: Sign, c: int, w: int)
    ensures (sgn(s) * c) * w == sgn(s) * (c * w),
{
    lemma_sgn(s, c);
    lemma_sgn(s, c * w);
    assert((-c) * w == -(c * w)) by (nonlinear_arith);
}

// ---- recombination ------------------------------------------------------------------------------------------------

/// bookkeeping of the thirteen in-place updates of Toom-3's recombination.  v0..v13: value of the whole buffer c after
/// each update.  Weights: W1..W4 = B^(n3), B^(2 n3), B^(3 n3), B^(4 n3); carry positions C1 = B^(3 n3 + 2),
/// C2 = B^(4 n3 + 2), C3 = B^(5 n3 + 2), CN = B^(2n).  Carries r1 (carry_c0, at W2), r5 r6 k1 (carry_c1, at C1),
/// r2 r3 r8 k2 (carry_c2, at C2), r7 r9 k3 (carry_c3, at C3), r4 k4 (carry, at CN).
pub proof fn lemma_toom_carries(
    v0: int, v1: int, v2: int, v3: int, v4: int, v5: int, v6: int, v7: int, v8: int, v9: int, v10: int, v11: int,
    v12: int, v13: int,
    r1: int, r2: int, r3: int, r4: int, r5: int, r6: int, r7: int, r8: int, r9: int, k1: int, k2: int, k3: int, k4: int,
    x0: int, xi: int, x1: int, xt1: int, xt2: int,
    w1: int, w2: int, w3: int, w4: int, c1: int, c2: int, c3: int, cn: int)
    requires
        v1 + r1 * w2 == v0 + x0,
        v2 + r2 * c2 == v1 + (-x0) * w2,
        v3 + r3 * c2 == v2 + (-xi) * w2,
        v4 + r4 * cn == v3 + xi * w4,
        v5 + r5 * c1 == v4 + x1 * w1,
        v6 + r6 * c1 == v5 + (-xt1) * w1,
        v7 + r7 * c3 == v6 + xt1 * w3,
        v8 + r8 * c2 == v7 + xt2 * w2,
        v9 + r9 * c3 == v8 + (-xt2) * w3,
        v10 + k1 * c1 == v9 + r1 * w2,
        v11 + k2 * c2 == v10 + (r5 + r6 + k1) * c1,
        v12 + k3 * c3 == v11 + (r2 + r3 + r8 + k2) * c2,
        v13 + k4 * cn == v12 + (r7 + r9 + k3) * c3,
    ensures v13 + (r4 + k4) * cn
        == v0 + x0 + (x1 - xt1) * w1 + (xt2 - x0 - xi) * w2 + (xt1 - xt2) * w3 + xi * w4,
{
    assert((r5 + r6 + k1) * c1 == r5 * c1 + r6 * c1 + k1 * c1) by (nonlinear_arith);
    assert((r2 + r3 + r8 + k2) * c2 == r2 * c2 + r3 * c2 + r8 * c2 + k2 * c2) by (nonlinear_arith);
    assert((r7 + r9 + k3) * c3 == r7 * c3 + r9 * c3 + k3 * c3) by (nonlinear_arith);
    assert((r4 + k4) * cn == r4 * cn + k4 * cn) by (nonlinear_arith);
    assert((x1 - xt1) * w1 == x1 * w1 + (-xt1) * w1) by (nonlinear_arith);
    assert((xt2 - x0 - xi) * w2 == xt2 * w2 + (-x0) * w2 + (-xi) * w2) by (nonlinear_arith);
    assert((xt1 - xt2) * w3 == xt1 * w3 + (-xt2) * w3) by (nonlinear_arith);
}

/// from the interpolated coefficients to sgn(s)·(a·b)
pub proof fn lemma_toom_final(s: Sign, ab: int, q0: int, q1: int, q2: int, q3: int, q4: int,
    v0: int, vi: int, v1: int, t1: int, t2: int, x0: int, xi: int, x1: int, xt1: int, xt2: int,
    w1: int, w2: int, w3: int, w4: int)
    requires x0 == sgn(s) * v0, xi == sgn(s) * vi, x1 == sgn(s) * v1, xt1 == sgn(s) * t1, xt2 == sgn(s) * t2,
        v0 == q0, v1 - t1 == q1, t2 - v0 - vi == q2, t1 - t2 == q3, vi == q4,
        ab == q0 + q1 * w1 + q2 * w2 + q3 * w3 + q4 * w4,
    ensures x0 + (x1 - xt1) * w1 + (xt2 - x0 - xi) * w2 + (xt1 - xt2) * w3 + xi * w4 == sgn(s) * ab,
{
    lemma_sgn(s, v0); lemma_sgn(s, vi); lemma_sgn(s, v1); lemma_sgn(s, t1); lemma_sgn(s, t2);
    lemma_sgn(s, q1); lemma_sgn(s, q2); lemma_sgn(s, q3); lemma_sgn(s, q4);
    assert(x1 - xt1 == sgn(s) * q1);
    assert(xt2 - x0 - xi == sgn(s) * q2);
    assert(xt1 - xt2 == sgn(s) * q3);
    lemma_sgn_assoc(s, q1, w1);
    lemma_sgn_assoc(s, q2, w2);
    lemma_sgn_assoc(s, q3, w3);
    lemma_sgn_assoc(s, q4, w4);
    lemma_sgn(s, q0);
    lemma_sgn(s, q1 * w1); lemma_sgn(s, q2 * w2); lemma_sgn(s, q3 * w3); lemma_sgn(s, q4 * w4);
    lemma_sgn(s, ab);
}

/// value of a sequence whose two top words are singled out
pub proof fn lemma_top2(s: Seq<Word>, m: int)
    requires s.len() == m + 2, m >= 0,
    ensures val(s) == val(s.subrange(0, m)) + (s[m] as int) * pw(m) + (s[m + 1] as int) * pw(m + 1),
{
    lemma_top_word(s, m + 1);
    let t = s.subrange(0, m + 1);
    lemma_top_word(t, m);
    assert(t.subrange(0, m) =~= s.subrange(0, m));
}

/// t = [low m words | carry word | 0] after `low *= k` with carry: val(t) = k·x
pub proof fn lemma_scaled_top2(t: Seq<Word>, m: int, x: int, k: int)
    requires t.len() == m + 2, m >= 0, t[m + 1] == 0,
        val(t.subrange(0, m)) + (t[m] as int) * pw(m) == x * k,
    ensures val(t) == k * x,
{
    lemma_top2(t, m);
    assert(0 * pw(m + 1) == 0);
    assert(x * k == k * x) by (nonlinear_arith);
}

/// `e[n] (+)= kernel(&mut e[..n], ..)` in one statement (e0 -> e2): the low n words absorbed x with carry r, the top word
/// grew by r: the (n+1)-word value grew by exactly x
pub proof fn lemma_eval_direct(e0: Seq<Word>, e2: Seq<Word>, n: int, r: int, x: int)
    requires e0.len() == n + 1, e2.len() == n + 1, n >= 0,
        val(e2.subrange(0, n)) + r * pw(n) == val(e0.subrange(0, n)) + x,
        e2[n] as int == e0[n] as int + r,
    ensures val(e2) == val(e0) + x,
{
    lemma_top_word(e0, n);
    lemma_top_word(e2, n);
    assert((e0[n] as int + r) * pw(n) == (e0[n] as int) * pw(n) + r * pw(n)) by (nonlinear_arith);
}

/// 0 <= val(m) < B^n for every sequence of length n (n fixed: the quantifier only fires on sequences of that length;
/// used for results that only exist after the next call)
pub proof fn lemma_val_bound_len(n: int)
    ensures forall|m: Seq<Word>| m.len() == n ==> 0 <= #[trigger] valn(m, n) < pw(n),
{
    assert forall|m: Seq<Word>| m.len() == n implies 0 <= #[trigger] valn(m, n) < pw(n) by { lemma_val_bound(m); }
}

/// storing into a word at or above n does not change the low n words (stated once for all sequences: it lets the
/// prover identify `e[..n]` after `e[n] = kernel(&mut e[..n], ..)` with the slice the kernel returned)
pub proof fn lemma_update_keeps_low()
    ensures forall|s: Seq<Word>, i: int, v: Word, n: int| 0 <= n <= i < s.len()
        ==> #[trigger] s.update(i, v).subrange(0, n) == s.subrange(0, n),
{
    assert forall|s: Seq<Word>, i: int, v: Word, n: int| 0 <= n <= i < s.len()
        implies #[trigger] s.update(i, v).subrange(0, n) == s.subrange(0, n) by {
        assert(s.update(i, v).subrange(0, n) =~= s.subrange(0, n));
    }
}

/// a non-negative multiple of p below p is zero (stated for all r: used for carries that only exist after the next call)
pub proof fn lemma_small_multiple_zero(p: int)
    requires p >= 1,
    ensures forall|r: int| 0 <= r && #[trigger] (r * p) < p ==> r == 0,
{
    assert forall|r: int| 0 <= r && #[trigger] (r * p) < p implies r == 0 by {
        assert(r < 1) by (nonlinear_arith) requires r * p < p, p >= 1, r >= 0;
    }
}

/// `t -= y` cannot borrow when the exact difference is non-negative
pub proof fn lemma_no_borrow(v1: int, d: int, b: bool, p: int)
    requires 0 <= v1 < p, 0 <= d, v1 - b2i(b) * p == d,
    ensures !b, v1 == d,
{
    if b {
        assert(b2i(b) * p == p) by (nonlinear_arith) requires b2i(b) == 1;
    } else {
        assert(b2i(b) * p == 0) by (nonlinear_arith) requires b2i(b) == 0;
    }
}

/// `t -= y` with a word borrow r >= 0 cannot borrow when the exact difference is non-negative
pub proof fn lemma_no_borrow_word(v1: int, d: int, r: int, p: int)
    requires 0 <= v1 < p, 0 <= d, 0 <= r, v1 - r * p == d,
    ensures r == 0, v1 == d,
{
    assert(r < 1) by (nonlinear_arith) requires r * p < p, p >= 1, r >= 0;
}

pub proof fn lemma_val_nonneg_all()
    ensures forall|s: Seq<Word>| 0 <= #[trigger] valn(s, s.len() as int),
{
    assert forall|s: Seq<Word>| 0 <= #[trigger] valn(s, s.len() as int) by { lemma_val_bound(s); }
}

/// carry bound of `e[..n] += x` seen on sequences (e0 -> mid): 0 <= x < kk·B^n  ==>  carry <= kk
pub proof fn lemma_eval_carry_bound(e0: Seq<Word>, mid: Seq<Word>, n: int, r: int, x: int, kk: int)
    requires 0 <= n <= e0.len(), mid.len() == e0.len(), 0 <= r, 0 <= kk, x < kk * pw(n),
        val(mid.subrange(0, n)) + r * pw(n) == val(e0.subrange(0, n)) + x,
    ensures r <= kk,
{
    lemma_val_bound(mid.subrange(0, n));
    lemma_val_bound(e0.subrange(0, n));
    lemma_carry_le(val(mid.subrange(0, n)), val(e0.subrange(0, n)), x, r, pw(n), kk);
}
