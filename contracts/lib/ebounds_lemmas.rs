// ---- ebounds_lemmas.rs: the rounding interval of a float on its own grid (C18: `ErrorBounds::error_bounds`).
// Needs round_prelude.rs (round_def, Mode, ipow), round_float_repr.rs (same_value, ndigits).
//
// MODEL.  f = sig * b^exp with d = ndigits(sig) <= p = precision, so f = m * ulp with ulp = b^(exp + d - p) (FBig::ulp) and
// m = sig * b^(p - d) an integer with exactly p digits.  When |m| is not the smallest p-digit number b^(p-1) (f is not a
// power of the base), every real y with |y - f| < ulp lies in the binade of f, is rounded on the grid of spacing ulp,
// and "y rounds to f under mode M at precision p" is round_def(M, y/ulp, m).  With y = (m + X/D) * ulp (X/D any rational)
// this is `rounds_on_grid(M, m, X, D)`; reals further than one ulp away never round to f (first conjunct of round_def).

/// y = (m + X/D) * ulp rounds to m * ulp on the grid of spacing ulp
pub open spec fn rounds_on_grid(md: Mode, m: int, X: int, D: int) -> bool { round_def(md, m * D + X, D, m) }

/// -l2/2 <(=) X/D <(=) r2/2: y - f lies in the interval from -L to +R with L = l2 half-ulps, R = r2 half-ulps and the
/// inclusion flags
pub open spec fn eb_in(X: int, D: int, l2: int, r2: int, il: bool, ir: bool) -> bool {
    (if il { -(l2 * D) <= 2 * X } else { -(l2 * D) < 2 * X }) && (if ir { 2 * X <= r2 * D } else { 2 * X < r2 * D })
}
/// the bounds describe EXACTLY the reals that round to f
pub open spec fn eb_exact(md: Mode, m: int, l2: int, r2: int, il: bool, ir: bool) -> bool {
    forall|X: int, D: int| D > 0 ==> (#[trigger] rounds_on_grid(md, m, X, D) == eb_in(X, D, l2, r2, il, ir))
}
/// 2 * (lsig * b^lexp) == k * b^eu: the bound is k half-ulps
pub open spec fn half_units(b: int, lsig: int, lexp: int, eu: int, k: int) -> bool { same_value(b, 2 * lsig, lexp, k, eu) }

/// the postcondition of error_bounds for a limited-precision float (see MODEL)
pub open spec fn eb_post(md: Mode, b: int, sig: int, exp: int, p: int, lsig: int, lexp: int, rsig: int, rexp: int, il: bool, ir: bool) -> bool {
    let d = ndigits(b, sig) as int;
    let eu = exp + d - p;
    let m = sig * ipow(b, (p - d) as nat);
    exists|l2: int, r2: int| 0 <= l2 <= 2 && 0 <= r2 <= 2 && half_units(b, lsig, lexp, eu, l2) && half_units(b, rsig, rexp, eu, r2)
        && #[trigger] eb_exact(md, m, l2, r2, il, ir)
}
/// the domain on which the MODEL holds: limited precision, non-zero, fits its precision, not a power of the base
/// (|sig| != b^(d-1)), even base (half an ulp is representable), exponent arithmetic inside isize
pub open spec fn eb_domain(b: int, sig: int, exp: int, p: int) -> bool {
    let d = ndigits(b, sig) as int;
    &&& b >= 2 && b % 2 == 0
    &&& p != 0 && sig != 0 && d <= p
    &&& iabs(sig) != ipow(b, (d - 1) as nat)
    &&& isize::MIN + 1 < exp + d - p <= isize::MAX && d <= isize::MAX && p <= isize::MAX && exp + d <= isize::MAX
}

/// the table that follows from the definition of the modes (used by the proofs only, never by a contract)
pub open spec fn eb_table(md: Mode, m: int) -> (int, int, bool, bool) {
    match md {
        Mode::Zero => if m > 0 { (0, 2, true, false) } else { (2, 0, false, true) },
        Mode::Away => if m > 0 { (2, 0, false, true) } else { (0, 2, true, false) },
        Mode::Up => (2, 0, false, true),
        Mode::Down => (0, 2, true, false),
        Mode::HalfAway => if m > 0 { (1, 1, true, false) } else { (1, 1, false, true) },
        Mode::HalfEven => (1, 1, m % 2 == 0, m % 2 == 0),
    }
}
pub proof fn lemma_eb_table(md: Mode, m: int)
    requires m != 0
    ensures eb_exact(md, m, eb_table(md, m).0, eb_table(md, m).1, eb_table(md, m).2, eb_table(md, m).3)
{
    let t = eb_table(md, m);
    assert forall|X: int, D: int| D > 0 implies (#[trigger] rounds_on_grid(md, m, X, D) == eb_in(X, D, t.0, t.1, t.2, t.3)) by {
        let R = m * D;
        assert(m > 0 ==> R >= D) by (nonlinear_arith) requires R == m * D, D > 0;
        assert(m < 0 ==> R <= -D) by (nonlinear_arith) requires R == m * D, D > 0;
        assert(t.0 * D == (if t.0 == 0 { 0 } else if t.0 == 1 { D } else { 2 * D })) by (nonlinear_arith) requires 0 <= t.0 <= 2;
        assert(t.1 * D == (if t.1 == 0 { 0 } else if t.1 == 1 { D } else { 2 * D })) by (nonlinear_arith) requires 0 <= t.1 <= 2;
        assert((R + X) - R == X);
    }
}

/// m = sig * b^k has the sign of sig and is non-zero
pub proof fn lemma_grid_sig(b: int, sig: int, k: nat)
    requires b >= 2, sig != 0
    ensures sig > 0 ==> sig * ipow(b, k) > 0, sig < 0 ==> sig * ipow(b, k) < 0
{
    lemma_ipow_pos(b, k);
    let q = ipow(b, k);
    assert(sig > 0 ==> sig * q > 0) by (nonlinear_arith) requires q >= 1;
    assert(sig < 0 ==> sig * q < 0) by (nonlinear_arith) requires q >= 1;
}
/// 0, one ulp, and half an ulp (even base) in half-ulps
pub proof fn lemma_half_units(b: int, eu: int)
    requires b >= 2, b % 2 == 0
    ensures half_units(b, 0, 0, eu, 0), half_units(b, 1, eu, eu, 2), half_units(b, (b + 1) / 2, eu - 1, eu, 1)
{
    reveal_with_fuel(ipow, 2);
    if 0 <= eu { assert(0 == 0 * ipow(b, (eu - 0) as nat)) by (nonlinear_arith); } else { assert(0 == 0 * ipow(b, (0 - eu) as nat)) by (nonlinear_arith); }
    assert(ipow(b, 0) == 1);
    assert(ipow(b, 1) == b);
    let h = (b + 1) / 2;
    assert(2 * h == b);
    assert(2 * h == 1 * ipow(b, 1));
}
