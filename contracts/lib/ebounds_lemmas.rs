// ---- ebounds_lemmas.rs: the rounding interval of a float (C18: `ErrorBounds::error_bounds`).
// Needs round_prelude.rs (round_def, Mode, ipow), round_float_repr.rs (same_value, ndigits).
//
// MODEL.  f = sig * b^exp with d = ndigits(sig) <= p = precision, so f = m * ulp with ulp = b^(exp + d - p) (FBig::ulp) and
// m = sig * b^(p - d) an integer with exactly p digits.  A real y with |y - f| < ulp is rounded on the grid of its OWN
// binade: the grid of spacing ulp when |y| >= |f| or when |m| is not the smallest p-digit number b^(p-1); the finer grid
// of spacing ulp/b when f is a power of the base (|m| == b^(p-1); for a normalized significand: |sig| == 1) and |y| < |f|.
// With the refinement factor g (b for a power of the base, 1 otherwise) and y = f + (X/D) * (ulp/g), X/D any rational,
// "y rounds to f under mode M at precision p" is `rounds_on_grid(M, m, g, X, D)`; reals further away than one grid step
// never round to f (first conjunct of round_def).  All bounds are counted in halves of the FINE step ulp/g.

/// y = f + (X/D) * (ulp/g), f = m * ulp, rounds to f
pub open spec fn rounds_on_grid(md: Mode, m: int, g: int, X: int, D: int) -> bool {
    if (m > 0 && X >= 0) || (m < 0 && X <= 0) {
        round_def(md, m * (g * D) + X, g * D, m)            // binade of f: y / ulp rounds to m
    } else {
        round_def(md, (m * g) * D + X, D, m * g)            // binade below: y / (ulp/g) rounds to m * g
    }
}

/// -l2/2 <(=) X/D <(=) r2/2: y - f lies in the interval from -L to +R with L = l2, R = r2 half fine steps and the
/// inclusion flags
pub open spec fn eb_in(X: int, D: int, l2: int, r2: int, il: bool, ir: bool) -> bool {
    (if il { -(l2 * D) <= 2 * X } else { -(l2 * D) < 2 * X }) && (if ir { 2 * X <= r2 * D } else { 2 * X < r2 * D })
}
/// the bounds describe EXACTLY the reals that round to f
pub open spec fn eb_exact(md: Mode, m: int, g: int, l2: int, r2: int, il: bool, ir: bool) -> bool {
    forall|X: int, D: int| D > 0 ==> (#[trigger] rounds_on_grid(md, m, g, X, D) == eb_in(X, D, l2, r2, il, ir))
}
/// 2 * (lsig * b^lexp) == k * b^eu: the bound is k halves of b^eu
pub open spec fn half_units(b: int, lsig: int, lexp: int, eu: int, k: int) -> bool { same_value(b, 2 * lsig, lexp, k, eu) }

/// f is a power of the base (normalized significand: +-1)
pub open spec fn eb_pow(sig: int) -> bool { iabs(sig) == 1 }

/// refinement factor of the grid below f: the base for a power of the base, 1 otherwise (a function, not an if/else:
/// it occurs inside a trigger)
pub open spec fn eb_g(b: int, sig: int) -> int { if eb_pow(sig) { b } else { 1 } }

/// the postcondition of error_bounds for a limited-precision float (see MODEL)
pub open spec fn eb_post(md: Mode, b: int, sig: int, exp: int, p: int, lsig: int, lexp: int, rsig: int, rexp: int, il: bool, ir: bool) -> bool {
    let d = ndigits(b, sig) as int;
    let g = eb_g(b, sig);
    let eu = exp + d - p - (if eb_pow(sig) { 1int } else { 0int });       // exponent of the fine step ulp/g
    let m = sig * ipow(b, (p - d) as nat);
    exists|l2: int, r2: int| 0 <= l2 <= 2 * g && 0 <= r2 <= 2 * g && half_units(b, lsig, lexp, eu, l2) && half_units(b, rsig, rexp, eu, r2)
        && #[trigger] eb_exact(md, m, g, l2, r2, il, ir)
}
/// the domain on which the MODEL holds: limited precision, non-zero normalized significand (invariant of float Repr:
/// "not divisible by the base") that fits the precision, even base (half a step is representable), exponent
/// arithmetic inside isize
pub open spec fn eb_domain(b: int, sig: int, exp: int, p: int) -> bool {
    let d = ndigits(b, sig) as int;
    &&& b >= 2 && b % 2 == 0
    &&& p != 0 && sig != 0 && d <= p
    &&& sig % b != 0
    &&& isize::MIN + 2 < exp + d - p <= isize::MAX && d <= isize::MAX && p <= isize::MAX && exp + d <= isize::MAX
}

/// the table that follows from the definition of the modes (used by the proofs only, never by a contract)
pub open spec fn eb_table(md: Mode, m: int, g: int) -> (int, int, bool, bool) {
    match md {
        Mode::Zero => if m > 0 { (0, 2 * g, true, false) } else { (2 * g, 0, false, true) },
        Mode::Away => if m > 0 { (2, 0, false, true) } else { (0, 2, true, false) },
        Mode::Up => if m > 0 { (2, 0, false, true) } else { (2 * g, 0, false, true) },
        Mode::Down => if m > 0 { (0, 2 * g, true, false) } else { (0, 2, true, false) },
        Mode::HalfAway => if m > 0 { (1, g, true, false) } else { (g, 1, false, true) },
        Mode::HalfEven => if m > 0 { (1, g, (m * g) % 2 == 0, m % 2 == 0) } else { (g, 1, m % 2 == 0, (m * g) % 2 == 0) },
    }
}
pub proof fn lemma_eb_table(md: Mode, m: int, g: int)
    requires m != 0, g >= 1
    ensures eb_exact(md, m, g, eb_table(md, m, g).0, eb_table(md, m, g).1, eb_table(md, m, g).2, eb_table(md, m, g).3)
{
    let t = eb_table(md, m, g);
    let mg = m * g;
    assert(m > 0 ==> mg >= g) by (nonlinear_arith) requires mg == m * g, g >= 1;
    assert(m < 0 ==> mg <= -g) by (nonlinear_arith) requires mg == m * g, g >= 1;
    assert forall|X: int, D: int| D > 0 implies (#[trigger] rounds_on_grid(md, m, g, X, D) == eb_in(X, D, t.0, t.1, t.2, t.3)) by {
        let gd = g * D;
        assert(gd >= D) by (nonlinear_arith) requires gd == g * D, g >= 1, D > 0;
        let ro = m * gd;       // f on the coarse grid
        let ri = mg * D;       // f on the fine grid
        assert(m > 0 ==> ro >= gd) by (nonlinear_arith) requires ro == m * gd, gd > 0;
        assert(m < 0 ==> ro <= -gd) by (nonlinear_arith) requires ro == m * gd, gd > 0;
        assert(mg > 0 ==> ri >= D) by (nonlinear_arith) requires ri == mg * D, D > 0;
        assert(mg < 0 ==> ri <= -D) by (nonlinear_arith) requires ri == mg * D, D > 0;
        assert((2 * g) * D == 2 * gd) by (nonlinear_arith) requires gd == g * D;
        assert(0 * D == 0 && 1 * D == D && 2 * D == D + D) by (nonlinear_arith);
        assert(t.0 == 0 || t.0 == 1 || t.0 == 2 || t.0 == g || t.0 == 2 * g);
        assert(t.1 == 0 || t.1 == 1 || t.1 == 2 || t.1 == g || t.1 == 2 * g);
        assert((ro + X) - ro == X && (ri + X) - ri == X);
    }
}

/// m = sig * b^k has the sign of sig and is non-zero
pub proof fn lemma_grid_sig(b: int, sig: int, k: nat)
    requires b >= 2, sig != 0
    ensures sig > 0 ==> sig * ipow(b, k) > 0, sig < 0 ==> sig * ipow(b, k) < 0
{
    lemma_ipow_pos(b, k);
    let q = ipow(b, k);
    assert(sig > 0 ==> sig * q > 0) by (nonlinear_arith) requires q >= 1;
    assert(sig < 0 ==> sig * q < 0) by (nonlinear_arith) requires q >= 1;
}
/// 0, one coarse / fine step and their halves (even base), counted in halves of the fine step b^eu_fine;
/// eu is the exponent of f.ulp(), pw says whether the fine step is ulp/b
pub proof fn lemma_half_units(b: int, eu: int, pw: bool)
    requires b >= 2, b % 2 == 0
    ensures ({
        let ef = eu - (if pw { 1int } else { 0int });
        let g = if pw { b } else { 1 };
        &&& half_units(b, 0, 0, ef, 0)
        &&& half_units(b, 1, eu, ef, 2 * g)                     // f.ulp()
        &&& half_units(b, 1, ef, ef, 2)                         // the fine step
        &&& half_units(b, (b + 1) / 2, eu - 1, ef, g)           // half of f.ulp()
        &&& half_units(b, (b + 1) / 2, ef - 1, ef, 1)           // half of the fine step
    })
{
    reveal_with_fuel(ipow, 3);
    let ef = eu - (if pw { 1int } else { 0int });
    if 0 <= ef { assert(0 == 0 * ipow(b, (ef - 0) as nat)) by (nonlinear_arith); } else { assert(0 == 0 * ipow(b, (0 - ef) as nat)) by (nonlinear_arith); }
    assert(ipow(b, 0) == 1);
    assert(ipow(b, 1) == b);
    let h = (b + 1) / 2;
    assert(2 * h == b);
    assert(2 * h == 1 * ipow(b, 1));
    assert(2 * 1 == 2 * ipow(b, 0));
    if pw {
        assert(2 * b == 2 * ipow(b, 1));
        assert(2 * h == b * ipow(b, 0));
    }
}

/// a normalized significand +-1 has one digit
pub proof fn lemma_pow_digits(b: int, sig: int)
    requires b >= 2, iabs(sig) == 1
    ensures ndigits(b, sig) == 1
{
    broadcast use ax_ndigits;
    let d = ndigits(b, sig);
    if d >= 2 {
        lemma_ipow_pos(b, (d - 2) as nat);
        let q = ipow(b, (d - 2) as nat);
        assert(ipow(b, (d - 1) as nat) == b * q);
        assert(b * q >= 2) by (nonlinear_arith) requires b >= 2, q >= 1;
    }
}

/// parity of the significand at full precision, m = sig * b^k for an even base: even as soon as k >= 1
pub proof fn lemma_grid_parity(b: int, sig: int, k: nat)
    requires b >= 2, b % 2 == 0
    ensures (sig * ipow(b, k)) % 2 == (if k == 0 { sig % 2 } else { 0 })
{
    if k == 0 {
        assert(ipow(b, 0) == 1);
        assert(sig * 1 == sig);
    } else {
        let q = ipow(b, (k - 1) as nat);
        assert(ipow(b, k) == b * q);
        let h = b / 2;
        assert(b == 2 * h);
        let t = h * (sig * q);
        assert(sig * (b * q) == t * 2) by (nonlinear_arith) requires b == 2 * h, t == h * (sig * q);
        vstd::arithmetic::div_mod::lemma_mod_multiples_basic(t, 2);
    }
}

/// parity on the fine grid: m * g for the refinement factor g (the even base, or 1)
pub proof fn lemma_fine_parity(b: int, m: int, pw: bool)
    requires b >= 2, b % 2 == 0
    ensures (m * (if pw { b } else { 1 })) % 2 == (if pw { 0 } else { m % 2 })
{
    if pw {
        let h = b / 2;
        let t = m * h;
        assert(m * b == t * 2) by (nonlinear_arith) requires b == 2 * h, t == m * h;
        vstd::arithmetic::div_mod::lemma_mod_multiples_basic(t, 2);
    } else {
        assert(m * 1 == m);
    }
}
