// ---- DoubleWord = u128 bit counting: vstd has no specifications for u128::{leading_zeros, trailing_zeros,
// is_power_of_two}; their documented meaning is ASSUMED here (trusted, bit-level statements).
pub open spec fn dd_is_lz(x: u128, r: u32) -> bool {
    &&& r <= 128
    &&& (x == 0 <==> r == 128)
    &&& (r < 128 ==> ((x >> ((127 - r) as u128)) & 1) == 1)          // the highest set bit
    &&& (0 < r < 128 ==> (x >> ((128 - r) as u128)) == 0)            // nothing above it
}
pub open spec fn dd_is_tz(x: u128, r: u32) -> bool {
    &&& r <= 128
    &&& (x == 0 <==> r == 128)
    &&& (r < 128 ==> ((x >> (r as u128)) & 1) == 1)                  // the lowest set bit
    &&& (r < 128 ==> ((x >> (r as u128)) << (r as u128)) == x)       // nothing below it
}
pub uninterp spec fn dd_lz(x: u128) -> u32;
pub uninterp spec fn dd_tz(x: u128) -> u32;

pub assume_specification [u128::leading_zeros] (x: u128) -> (r: u32)
    ensures r == dd_lz(x);
pub assume_specification [u128::trailing_zeros] (x: u128) -> (r: u32)
    ensures r == dd_tz(x);
pub assume_specification [u128::is_power_of_two] (x: u128) -> (r: bool)
    ensures r <==> (x != 0 && (x & ((x - 1) as u128)) == 0);

/// ASSUMED: the documented meaning of u128::leading_zeros
#[verifier::external_body]
pub proof fn axiom_dd_lz(x: u128)
    ensures dd_is_lz(x, dd_lz(x)),
{
}
/// ASSUMED: the documented meaning of u128::trailing_zeros
#[verifier::external_body]
pub proof fn axiom_dd_tz(x: u128)
    ensures dd_is_tz(x, dd_tz(x)),
{
}
