// ---- cl_int_types.rs: dashu-int's number types as seen by their own `Clone` wrappers (integer/src/ubig.rs, ibig.rs).
// `pub struct UBig(pub(crate) Repr)` / `pub struct IBig(pub(crate) Repr)` are mirrored (ubig.rs:70 / ibig.rs:67); `Repr`
// (integer/src/repr.rs: union of inline words / heap pointer + signed capacity) is opaque with an abstract signed value
//     repr.v() : int
// the same view as lib/repr_stubs.rs.  The value of a UBig / IBig is the value of its Repr.
#[verifier::external_body]
pub struct Repr { _p: u8 }
impl Repr {
    pub uninterp spec fn v(&self) -> int;
}
// TRUSTED (integer/src/repr.rs:463 `impl Clone for Repr`, union / raw-pointer / transmute code outside Verus):
//   clone: "inline the data if the length is less than 3", else allocate a buffer of the source length and push the source
//          words, then `with_sign(sign)`: a Repr with the value (magnitude words and sign) of the source;
//   clone_from: inline source => release the old buffer, copy the inline words and the capacity field; heap source =>
//          reallocate when the capacity is too small or above `max_compact_capacity`, `ptr::copy_nonoverlapping` the words,
//          set the length and the sign: the destination has the value of the source afterwards, whatever it held.
// These two statements are what the Kani groups int_repr / int_buffer (clone harnesses) check on the real storage code.
// (Verus rejects calls of the trait method `clone_from`: inherent method of the same name and signature, see
// lib/cl_int_clone_from.rs.)
impl Clone for Repr {
    #[verifier::external_body]
    fn clone(&self) -> (r: Repr) ensures r.v() == self.v() { unimplemented!() }
}
impl Repr {
    #[verifier::external_body]
    pub fn clone_from(&mut self, src: &Repr) ensures final(self).v() == src.v() { unimplemented!() }
}
pub struct UBig(pub Repr);
pub struct IBig(pub Repr);
impl UBig { pub open spec fn v(&self) -> int { self.0.v() } }
impl IBig { pub open spec fn v(&self) -> int { self.0.v() } }
