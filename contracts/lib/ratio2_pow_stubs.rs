// ---- ratio2_pow_stubs.rs: IBig / UBig sqr, cubic, pow as seen from rational/src/mul.rs, and coprimality of powers.
// Include after lib/ratio_lemmas.rs, lib/bigstub.rs, lib/ratio_types.rs, lib/ratio2_stubs.rs (From<UBig> for IBig),
// lib/ratio2_float_stubs.rs (rpow, UBig::pow).  Every external_body item is a TRUSTED ASSUMPTION.
pub mod ratio2_pow_stubs {
use super::*;
impl UBig {
    // TRUSTED (integer/src/mul_ops.rs): exact square / cube
    #[verifier::external_body]
    pub fn sqr(&self) -> (r: UBig) ensures r.v() == self.v() * self.v() { unimplemented!() }
    #[verifier::external_body]
    pub fn cubic(&self) -> (r: UBig) ensures r.v() == self.v() * self.v() * self.v() { unimplemented!() }
}
impl IBig {
    // TRUSTED (integer/src/mul_ops.rs, pow.rs): the square is returned as a UBig; cube and power keep the sign
    #[verifier::external_body]
    pub fn sqr(&self) -> (r: UBig) ensures r.v() == self.v() * self.v() { unimplemented!() }
    #[verifier::external_body]
    pub fn cubic(&self) -> (r: IBig) ensures r.v() == self.v() * self.v() * self.v() { unimplemented!() }
    #[verifier::external_body]
    pub fn pow(&self, exp: usize) -> (r: IBig) ensures r.v() == rpow(self.v(), exp as nat) { unimplemented!() }
}

pub proof fn lemma_rpow_abs(a: int, k: nat)
    ensures rabs(rpow(a, k)) == rpow(rabs(a), k), rpow(rabs(a), k) >= 0, (a != 0 ==> rpow(a, k) != 0)
    decreases k
{
    if k > 0 {
        lemma_rpow_abs(a, (k - 1) as nat);
        lemma_rabs_mul(a, rpow(a, (k - 1) as nat));
        let p = rpow(rabs(a), (k - 1) as nat);
        assert(rabs(a) * p >= 0) by (nonlinear_arith) requires rabs(a) >= 0, p >= 0;
    }
}
// gcd(x, m) = 1  ==>  gcd(x^k, m) = 1
pub proof fn lemma_coprime_pow_left(x: int, m: int, k: nat)
    requires x >= 0, m >= 1, is_gcd(1, x, m)
    ensures is_gcd(1, rpow(x, k), m), rpow(x, k) >= 0
    decreases k
{
    if k == 0 {
        lemma_one_divides(1);
        lemma_one_divides(m);
    } else {
        lemma_coprime_pow_left(x, m, (k - 1) as nat);
        lemma_coprime_mul(x, rpow(x, (k - 1) as nat), m);
        let p = rpow(x, (k - 1) as nat);
        assert(x * p >= 0) by (nonlinear_arith) requires x >= 0, p >= 0;
    }
}
// a/b in lowest terms  ==>  a^k / b^k in lowest terms
pub proof fn lemma_pow_canonical(a: int, b: int, k: nat)
    requires wf_ratio(a, b)
    ensures wf_ratio(rpow(a, k), rpow(b, k))
{
    let x = rabs(a);
    lemma_rpow_abs(a, k);
    lemma_rpow_pos(b, k);
    lemma_coprime_pow_left(x, b, k);                 // (x^k, b)
    let xk = rpow(x, k);
    lemma_gcd_sym(1, xk, b);                         // (b, x^k)
    if xk >= 1 {
        lemma_coprime_pow_left(b, xk, k);            // (b^k, x^k)
        lemma_gcd_sym(1, rpow(b, k), xk);
    } else {
        // x^k == 0: then a == 0, b == 1
        assert(a == 0);
        lemma_rpow_one(k);
        lemma_wf_zero();
    }
}
pub proof fn lemma_rpow_one(k: nat)
    ensures rpow(1, k) == 1
    decreases k
{
    if k > 0 { lemma_rpow_one((k - 1) as nat); }
}
pub proof fn lemma_rpow_small(a: int)
    ensures rpow(a, 2) == a * a, rpow(a, 3) == a * a * a
{
    assert(rpow(a, 0) == 1);
    assert(rpow(a, 1) == a * rpow(a, 0));
    assert(rpow(a, 2) == a * rpow(a, 1));
    assert(rpow(a, 3) == a * rpow(a, 2));
    assert(a * (a * 1) == a * a) by (nonlinear_arith);
    assert(a * (a * (a * 1)) == a * a * a) by (nonlinear_arith);
}
} // mod ratio2_pow_stubs
pub use ratio2_pow_stubs::*;
