// ---- gcdo_stubs.rs: vocabulary + trusted stubs for the units int_gcd_small / int_gcd_ops (C12). Word = @W@ ----------
// Needs lib/prelude.rs and lib/sign.rs (Sign, sgn, PrimitiveSigned for SignedWord) and, inside `impl Sign { .. }` of the
// unit, `//@@ FN|SIG rational/sign/base_sign_neg.rs` (the REAL base/src/sign.rs `Neg for Sign::neg`).
//
// TRUSTED (unchecked assumptions, listed in the evidence):
//  * (NO LONGER TRUSTED) dashu_base::ExtendedGcd::gcd_ext for Word / DoubleWord (base/src/ring/gcd.rs, one macro body for every
//    width): the contract (g > 0, g | a, g | b, s*a + t*b == g, the cofactor bounds |s| <= b, |t| <= a for a, b > 0 and |t| < a for
//    a > b > 0) is PROVED unbounded for the u32 / u64 / u128 instances in unit base_gcd and imported here with //@@ SIG; the impls
//    below only forward to it (Verus checks that the proved contract implies prim_gcd_ext_post).
//    gcd_ext(0, 0) panics (documented; vk_base_gcd_ext_zero_zero_*): precondition.
//  * crate::primitive::PrimitiveSigned::to_sign_magnitude for SignedDoubleWord (same macro body as the SignedWord impl
//    of lib/sign.rs; proved for all widths by the Kani group int_primitive).
use vstd::std_specs::ops::NegSpecImpl;
use core::ops::Neg;

pub open spec fn sign_neg(a: Sign) -> Sign { match a { Sign::Positive => Sign::Negative, Sign::Negative => Sign::Positive } }
impl NegSpecImpl for Sign {
    open spec fn obeys_neg_spec() -> bool { true }
    open spec fn neg_req(self) -> bool { true }
    open spec fn neg_spec(self) -> Sign { sign_neg(self) }
}
// forwards to the real body (extracted as the inherent method Sign::neg by the unit template)
impl Neg for Sign { type Output = Sign;
    fn neg(self) -> Sign { Sign::neg(self) }
}

impl PrimitiveSigned for SignedDoubleWord {
    type Unsigned = DoubleWord;
    open spec fn sv(self) -> int { self as int }
    open spec fn uv(u: DoubleWord) -> int { u as int }
    #[verifier::external_body]
    fn to_sign_magnitude(self) -> (Sign, DoubleWord) { unimplemented!() }
}

/// d divides a (d != 0)
pub open spec fn gdivides(d: int, a: int) -> bool { d != 0 && a % d == 0 }

/// C12 for the primitive extended gcd: g is a positive common divisor that is the integer combination s*x + t*y
/// (hence the greatest one), plus the size of the cofactors the Euclidean scheme delivers
pub open spec fn prim_gcd_ext_post(x: int, y: int, g: int, s: int, t: int) -> bool {
    &&& g >= 1
    &&& x % g == 0
    &&& y % g == 0
    &&& s * x + t * y == g
    &&& (x > 0 && y > 0 ==> -y <= s <= y && -x <= t <= x)
    &&& (x > y && y > 0 ==> -x < t < x)
}

pub trait ExtendedGcd<Rhs = Self>: Sized {
    type OutputGcd;
    type OutputCoeff;
    spec fn gcd_ext_req(self, rhs: Rhs) -> bool;
    spec fn gcd_ext_post(self, rhs: Rhs, r: (Self::OutputGcd, Self::OutputCoeff, Self::OutputCoeff)) -> bool;
    fn gcd_ext(self, rhs: Rhs) -> (r: (Self::OutputGcd, Self::OutputCoeff, Self::OutputCoeff))
        requires self.gcd_ext_req(rhs),
        ensures self.gcd_ext_post(rhs, r);
}
// base/src/ring/gcd.rs `impl_gcd_ops_prim` :: `ExtendedGcd::gcd_ext` instantiated for Word and DoubleWord: contracts generated from
// the annotated copy PROVED (unbounded) in unit base_gcd (hoisted free functions gcd_ext_@W@ / gcd_ext_@D@)
//@@ SIG base/ring_gcd/gcd_ext.rs variant=@W@ msubst=U:@W@,I:@SW@
//@@ SIG base/ring_gcd/gcd_ext.rs variant=@D@ msubst=U:@D@,I:@SD@
impl ExtendedGcd for Word {
    type OutputGcd = Word;
    type OutputCoeff = SignedWord;
    open spec fn gcd_ext_req(self, rhs: Word) -> bool { self != 0 || rhs != 0 }
    open spec fn gcd_ext_post(self, rhs: Word, r: (Word, SignedWord, SignedWord)) -> bool {
        prim_gcd_ext_post(self as int, rhs as int, r.0 as int, r.1 as int, r.2 as int)
    }
    // NOT trusted any more: forwards to the contract PROVED on the real macro body in unit base_gcd (//@@ SIG above)
    fn gcd_ext(self, rhs: Word) -> (r: (Word, SignedWord, SignedWord)) { gcd_ext_@W@(self, rhs) }
}
impl ExtendedGcd for DoubleWord {
    type OutputGcd = DoubleWord;
    type OutputCoeff = SignedDoubleWord;
    open spec fn gcd_ext_req(self, rhs: DoubleWord) -> bool { self != 0 || rhs != 0 }
    open spec fn gcd_ext_post(self, rhs: DoubleWord, r: (DoubleWord, SignedDoubleWord, SignedDoubleWord)) -> bool {
        prim_gcd_ext_post(self as int, rhs as int, r.0 as int, r.1 as int, r.2 as int)
    }
    // NOT trusted any more: forwards to the contract PROVED on the real macro body in unit base_gcd (//@@ SIG above)
    fn gcd_ext(self, rhs: DoubleWord) -> (r: (DoubleWord, SignedDoubleWord, SignedDoubleWord)) { gcd_ext_@D@(self, rhs) }
}

/// C12 for "large number (value l) against a small one (value x)": returned (g, a, sign of b) with |b| = bm left in
/// the large operand's words:   g = gcd(l, x)  and  a*l + b*x == g   (b = +bm or -bm by cases: no sgn() product)
pub open spec fn small_gcd_ext_post(l: int, x: int, g: int, a: int, bs: Sign, bm: int) -> bool {
    &&& g >= 1
    &&& l % g == 0
    &&& x % g == 0
    &&& bm >= 0
    &&& (bs == Sign::Positive ==> a * l + bm * x == g)
    &&& (bs == Sign::Negative ==> a * l - bm * x == g)
    &&& (l > x ==> bm < l)
}

// ---- lemmas ---------------------------------------------------------------------------------------------------------

/// g | x, g | y  ==>  g | q*x + y
pub proof fn lemma_gcdo_div_comb(g: int, q: int, x: int, y: int)
    requires g >= 1, x % g == 0, y % g == 0,
    ensures (q * x + y) % g == 0,
{
    let xq = x / g; let yq = y / g;
    vstd::arithmetic::div_mod::lemma_fundamental_div_mod(x, g);
    vstd::arithmetic::div_mod::lemma_fundamental_div_mod(y, g);
    assert(q * x + y == (q * xq + yq) * g) by (nonlinear_arith) requires x == g * xq, y == g * yq;
    vstd::arithmetic::div_mod::lemma_mod_multiples_basic(q * xq + yq, g);
}

/// a positive divisor of a positive number is at most that number
pub proof fn lemma_gcdo_div_le(g: int, y: int)
    requires g >= 1, y >= 1, y % g == 0,
    ensures g <= y,
{
    let k = y / g;
    vstd::arithmetic::div_mod::lemma_fundamental_div_mod(y, g);
    assert(k >= 1) by (nonlinear_arith) requires y == g * k, y >= 1, g >= 1;
    assert(g * k >= g) by (nonlinear_arith) requires k >= 1, g >= 1;
}

/// the cofactors of x > y > 0 have opposite signs and t != 0:  (t > 0 and s <= 0)  or  (t < 0 and s > 0)
pub proof fn lemma_gcdo_signs(x: int, y: int, g: int, s: int, t: int)
    requires x > y, y > 0, g >= 1, y % g == 0, s * x + t * y == g,
    ensures (t > 0 && s <= 0) || (t < 0 && s > 0),
{
    lemma_gcdo_div_le(g, y);
    if t == 0 {
        assert(t * y == 0) by (nonlinear_arith) requires t == 0;
        // s*x == g with 1 <= g <= y < x: impossible
        assert(false) by (nonlinear_arith) requires s * x == g, 1 <= g, g <= y, y < x;
    } else if t > 0 {
        if s >= 1 {
            assert(s * x + t * y >= x + y) by (nonlinear_arith) requires s >= 1, t >= 1, x > 0, y > 0;
        }
    } else {
        if s <= 0 {
            assert(s * x + t * y <= 0) by (nonlinear_arith) requires s <= 0, t <= -1, x > 0, y > 0;
        }
    }
}

/// the rebuilt cofactor:  l = q*x + y,  s*x + t*y == g,  f = q*|t| + |s|  is |s - t*q| and fits below l
/// (tm, sm: magnitudes of t and s)
pub proof fn lemma_gcdo_rebuild(l: int, q: int, x: int, y: int, g: int, s: int, t: int, tm: int, sm: int, f: int)
    requires l == q * x + y, q >= 0, x > y, y > 0, g >= 1, y % g == 0, s * x + t * y == g,
        -y <= s <= y, -x < t < x,
        tm == (if t >= 0 { t } else { -t }), sm == (if s >= 0 { s } else { -s }),
        f == q * tm + sm,
    ensures 0 <= f <= l, q >= 1 ==> f < l,
        t > 0 ==> s <= 0 && t * l - f * x == g,
        t < 0 ==> s > 0 && t * l + f * x == g,
        t != 0,
{
    lemma_gcdo_signs(x, y, g, s, t);
    assert(q * tm >= 0) by (nonlinear_arith) requires q >= 0, tm >= 0;
    assert(q * tm <= q * x) by (nonlinear_arith) requires q >= 0, tm <= x;
    if q >= 1 {
        assert(q * tm < q * x) by (nonlinear_arith) requires q >= 1, tm < x;
    }
    if t > 0 {
        assert(t * (q * x + y) - (q * t + (-s)) * x == s * x + t * y) by (nonlinear_arith);
    } else {
        assert(t * (q * x + y) + (q * (-t) + s) * x == s * x + t * y) by (nonlinear_arith);
    }
}

/// nothing is carried out of the n words:  v + (c1 + c2) * P == f with 0 <= f < P
pub proof fn lemma_gcdo_no_carry(v: int, c1: int, c2: int, p: int, f: int)
    requires v + c1 * p + c2 * p == f, 0 <= v, 0 <= c1, 0 <= c2, 0 <= f < p,
    ensures c1 == 0, c2 == 0, v == f,
{
    assert(c1 == 0 && c2 == 0) by (nonlinear_arith)
        requires v + c1 * p + c2 * p == f, 0 <= v, 0 <= c1, 0 <= c2, 0 <= f, f < p;
    assert(c1 * p == 0) by (nonlinear_arith) requires c1 == 0;
    assert(c2 * p == 0) by (nonlinear_arith) requires c2 == 0;
}

/// the words [1, 0, 0, ..] are worth one
pub proof fn lemma_gcdo_val_one(s: Seq<Word>)
    requires s.len() >= 1, s[0] == 1, forall|i: int| 1 <= i < s.len() ==> s[i] == 0,
    ensures val(s) == 1,
{
    lemma_valn_zero(s, 1, s.len() as int);
    assert(valn(s, 1) == valn(s, 0) + (s[0] as int) * pw(0));
    assert(pw(0) == 1);
}
