// ---- lemmas for integer/src/div/mod.rs (single-word divisor kernels). Word = @W@ --------------------------

pub open spec fn dw_tz(w: Word) -> u32 { vstd::std_specs::bits::@W@_trailing_zeros(w) }

/// a non-zero word with exactly one bit set equals 1 << trailing_zeros
pub proof fn lemma_dw_pow2_word(w: @W@)
    requires w != 0, (w & ((w - 1) as @W@)) == 0,
    ensures vstd::std_specs::bits::@W@_trailing_zeros(w) < @BITS@,
        w as int == pow2(vstd::std_specs::bits::@W@_trailing_zeros(w) as int),
        w == (1 as @W@) << vstd::std_specs::bits::@W@_trailing_zeros(w),
{
    let t = vstd::std_specs::bits::@W@_trailing_zeros(w);
    vstd::std_specs::bits::axiom_@W@_trailing_zeros(w);
    let tw = t as @W@;
    assert(w == (1 as @W@) << tw) by (bit_vector)
        requires w != 0, (w & ((w - 1) as @W@)) == 0, tw < @BITS@, ((w >> tw) & 1) == 1;
    lemma_sh_one_shl_w(t);
    assert((1 as @W@) << tw == (1 as @W@) << t) by (bit_vector) requires tw == t as @W@, t < @BITS@;
}

/// w & (p - 1) == w mod p for a power of two p = 1 << t
pub proof fn lemma_dw_mask_mod(w: @W@, p: @W@, t: u32)
    requires t < @BITS@, p == (1 as @W@) << t,
    ensures (w & ((p - 1) as @W@)) as int == (w as int) % (p as int),
{
    let m = w & ((p - 1) as @W@);
    let h = w >> t;
    assert(m < p && ((h as @D@) << t) + (m as @D@) == (w as @D@)) by (bit_vector)
        requires t < @BITS@, p == (1 as @W@) << t, m == w & ((p - 1) as @W@), h == w >> t;
    lemma_sh_one_shl_w(t);
    lemma_sh_pow2_mono(t as int, @BITS@);
    lemma_sh_pow2_bits();
    let pp = pow2(t as int);
    let hi = h as int;
    assert(hi * pp < B() * B()) by (nonlinear_arith) requires 0 <= hi < B(), 1 <= pp <= B();
    lemma_sh_shl_mul_d(h as @D@, t);
    vstd::arithmetic::div_mod::lemma_fundamental_div_mod_converse(w as int, pp, hi, m as int);
}

/// normalisation: w << leading_zeros(w) loses nothing and has its top bit set
pub proof fn lemma_dw_normalize(w: @W@)
    requires w != 0,
    ensures vstd::std_specs::bits::@W@_leading_zeros(w) < @BITS@,
        (w << vstd::std_specs::bits::@W@_leading_zeros(w)) as int
            == (w as int) * pow2(vstd::std_specs::bits::@W@_leading_zeros(w) as int),
        (w << vstd::std_specs::bits::@W@_leading_zeros(w)) >= @HALFB@,
{
    let s = vstd::std_specs::bits::@W@_leading_zeros(w) as u32;
    vstd::std_specs::bits::axiom_@W@_leading_zeros(w);
    let sw = s as @W@;
    let top = (@BITS@ - 1 - s) as @W@;
    assert(sub((@BITS@ - 1) as @W@, sw) == top);
    assert(((w >> top) & 1) != 0);
    let up = (@BITS@ - s) as @W@;
    assert(sub(@BITS@ as @W@, sw) == up);
    assert(w >> up == 0);
    assert((w << s) >= @HALFB@ && ((w << s) as @D@) == ((w as @D@) << s)) by (bit_vector)
        requires s < @BITS@, top == @BITS@ - 1 - s, ((w >> top) & 1) != 0, up == @BITS@ - s, s > 0 ==> (w >> up) == 0;
    lemma_sh_pow2_mono(s as int, @BITS@);
    lemma_sh_pow2_bits();
    let p = pow2(s as int);
    let wi = w as int;
    assert(wi * p < B() * B()) by (nonlinear_arith) requires 0 <= wi < B(), 1 <= p <= B();
    lemma_sh_shl_mul_d(w as @D@, s);
}

/// one step of the word-by-word division from the top (quotient written in place)
///   ho + k == hn·d + rem·(B·q)        (processed high parts; q = pw(j))
///   wv + rem·B == qd·d + r
///   ==>  (ho + wv·q) + k == (hn + qd·q)·d + r·q
pub proof fn lemma_dw_div_acc(ho: int, hn: int, k: int, d: int, rem: int, wv: int, qd: int, r: int, q: int)
    requires ho + k == hn * d + rem * (B() * q), wv + rem * B() == qd * d + r,
    ensures (ho + wv * q) + k == (hn + qd * q) * d + r * q,
{
    assert(rem * (B() * q) == (rem * B()) * q) by (nonlinear_arith);
    assert((wv + rem * B()) * q == wv * q + (rem * B()) * q) by (nonlinear_arith);
    assert((qd * d + r) * q == (qd * q) * d + r * q) by (nonlinear_arith);
    assert((hn + qd * q) * d == hn * d + (qd * q) * d) by (nonlinear_arith);
}

/// the double word [wv, rem] with rem < d is below d·B (so its quotient by d fits a word)
pub proof fn lemma_dw_2by1_pre(wv: int, rem: int, d: int)
    requires 0 <= wv < B(), 0 <= rem < d,
    ensures wv + rem * B() < d * B(),
{
    assert(rem * B() <= (d - 1) * B()) by (nonlinear_arith) requires rem <= d - 1;
    assert((d - 1) * B() == d * B() - B()) by (nonlinear_arith);
}

/// undo the normalisation shift:  V·P == Q·d + rem, rem < d, d == rhs·P  ==>  V == Q·rhs + rem/P, rem/P < rhs
pub proof fn lemma_dw_unshift(v: int, q: int, rem: int, d: int, p: int)
    requires v * p == q * d + rem, 0 <= rem < d, p >= 1, d % p == 0,
    ensures v == q * (d / p) + rem / p, 0 <= rem / p < d / p, rem % p == 0,
{
    let rhs = d / p;
    vstd::arithmetic::div_mod::lemma_fundamental_div_mod(d, p);
    assert(d == p * rhs);
    let t = v - q * rhs;
    assert(q * (p * rhs) == (q * rhs) * p) by (nonlinear_arith);
    assert(rem == t * p) by (nonlinear_arith) requires v * p == (q * rhs) * p + rem, t == v - q * rhs;
    vstd::arithmetic::div_mod::lemma_fundamental_div_mod_converse(rem, p, t, 0);
    assert(t < rhs) by (nonlinear_arith) requires t * p < p * rhs, p >= 1;
    assert(t >= 0) by (nonlinear_arith) requires t * p >= 0, p >= 1;
}

/// remainder of a multi-word number from the top:  h == qa·d + rem  ==>  h·B + wv == (qa·B + a/d)·d + a%d
/// where a == wv + rem·B
pub proof fn lemma_dw_rem_step(h: int, qa: int, d: int, rem: int, wv: int, a: int)
    requires h == qa * d + rem, a == wv + rem * B(), d > 0,
    ensures h * B() + wv == (qa * B() + a / d) * d + a % d,
{
    vstd::arithmetic::div_mod::lemma_fundamental_div_mod(a, d);
    assert((qa * d + rem) * B() == (qa * B()) * d + rem * B()) by (nonlinear_arith);
    assert((qa * B() + a / d) * d == (qa * B()) * d + d * (a / d)) by (nonlinear_arith);
}

/// final step of rem_by_word: V == q1·d + r1 (r1 < d), r1·P == q2·d + r2 (r2 < d), d == rhs·P
///   ==>  r2 / P == V mod rhs
pub proof fn lemma_dw_rem_unshift(v: int, q1: int, r1: int, q2: int, r2: int, d: int, p: int, rhs: int)
    requires v == q1 * d + r1, 0 <= r1 < d, r1 * p == q2 * d + r2, 0 <= r2 < d, d == rhs * p, p >= 1, rhs >= 1,
    ensures r2 / p == v % rhs, r2 % p == 0,
{
    vstd::arithmetic::div_mod::lemma_mod_multiples_basic(rhs, p);
    lemma_dw_unshift(r1, q2, r2, d, p);
    vstd::arithmetic::div_mod::lemma_div_multiples_vanish(rhs, p);
    assert(rhs * p == p * rhs) by (nonlinear_arith);
    assert(d / p == rhs);
    let t = r2 / p;
    assert(r1 == q2 * rhs + t);
    assert(q1 * (rhs * p) == (q1 * p) * rhs) by (nonlinear_arith);
    assert((q1 * p) * rhs + q2 * rhs == (q1 * p + q2) * rhs) by (nonlinear_arith);
    vstd::arithmetic::div_mod::lemma_fundamental_div_mod_converse(v, rhs, q1 * p + q2, t);
}

/// V mod p == (lowest word) mod p when p divides B
pub proof fn lemma_dw_low_word_mod(s: Seq<Word>, p: int, k: int)
    requires s.len() >= 1, p == pow2(k), 0 <= k <= @BITS@,
    ensures val(s) % p == (s[0] as int) % p,
{
    lemma_val_split(s, 1);
    lemma_val1(s.subrange(0, 1));
    assert(pw(1) == B()) by { assert(pw(1) == B() * pw(0)); assert(pw(0) == 1); }
    let hi = val(s.subrange(1, s.len() as int));
    lemma_sh_pow2_add(k, @BITS@ - k);
    lemma_sh_pow2_bits();
    lemma_sh_pow2_pos(k);
    let c = pow2(@BITS@ - k);
    assert(B() * hi == (c * hi) * p) by (nonlinear_arith) requires B() == p * c;
    let w0 = s[0] as int;
    assert(val(s) == w0 + (c * hi) * p);
    vstd::arithmetic::div_mod::lemma_mod_multiples_vanish(c * hi, w0, p);
    assert((p * (c * hi) + w0) == val(s)) by (nonlinear_arith) requires val(s) == w0 + (c * hi) * p;
}
