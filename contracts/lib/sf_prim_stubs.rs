// ---- sf_prim_stubs.rs: what the macro `impl_simplest_from_float` (rational/src/simplify.rs: simplest_from_f32 / _f64) uses on
// primitive floats and big integers beyond conv_float.rs / conv_from_prim_stubs.rs (bit fields, `decode`) and
// round_int_stubs.rs / round_int_addsub_stubs.rs.  EVERY assume_specification / external_body item is a TRUSTED ASSUMPTION:
// the documented meaning of the core float operations on IEEE-754 bit patterns (`vstd::float::to_bits_spec`).
use vstd::std_specs::cmp::{eq_ensures, ne_ensures, gt_ensures};
use core::ops::ShlAssign;

pub assume_specification [<f32>::to_bits] (x: f32) -> (r: u32) ensures r == x.to_bits_spec();
pub assume_specification [<f64>::to_bits] (x: f64) -> (r: u64) ensures r == x.to_bits_spec();
// core: is_nan = exponent field all ones and a non-zero fraction; is_infinite = all ones and a zero fraction
pub assume_specification [<f32>::is_nan] (x: f32) -> (r: bool) ensures r == is_nan_f(fmt32(), fields32(x));
pub assume_specification [<f64>::is_nan] (x: f64) -> (r: bool) ensures r == is_nan_f(fmt64(), fields64(x));
pub assume_specification [<f32>::is_infinite] (x: f32) -> (r: bool) ensures r == is_inf_f(fmt32(), fields32(x));
pub assume_specification [<f64>::is_infinite] (x: f64) -> (r: bool) ensures r == is_inf_f(fmt64(), fields64(x));
// core: MANTISSA_DIGITS = 24 / 53; MIN_POSITIVE = the smallest positive NORMAL value 2^-126 / 2^-1022: biased exponent 1, fraction 0
pub assume_specification [<f32>::MANTISSA_DIGITS] -> (r: u32) ensures r == 24;
pub assume_specification [<f64>::MANTISSA_DIGITS] -> (r: u32) ensures r == 53;
pub assume_specification [<f32>::MIN_POSITIVE] -> (r: f32) ensures r.to_bits_spec() == 0x0080_0000u32;
pub assume_specification [<f64>::MIN_POSITIVE] -> (r: f64) ensures r.to_bits_spec() == 0x0010_0000_0000_0000u64;
/// IEEE negation (lowering rule D28 maps `-<f32>::MIN_POSITIVE` onto this stub): the sign bit is flipped
#[verifier::external_body]
pub fn __fneg_f32(x: f32) -> (r: f32)
    ensures r.to_bits_spec() as int == (if x.to_bits_spec() >= 0x8000_0000u32 { x.to_bits_spec() - 0x8000_0000 } else { x.to_bits_spec() + 0x8000_0000 })
{ unimplemented!() }
#[verifier::external_body]
pub fn __fneg_f64(x: f64) -> (r: f64)
    ensures r.to_bits_spec() as int == (if x.to_bits_spec() >= 0x8000_0000_0000_0000u64 { x.to_bits_spec() - 0x8000_0000_0000_0000 } else { x.to_bits_spec() + 0x8000_0000_0000_0000 })
{ unimplemented!() }

/// IEEE comparison of two bit patterns that are not NaN: equal iff the same pattern or both zeros (+0 == -0)
pub open spec fn fields_zero(r: Fields) -> bool { r.eb == 0 && r.frac == 0 }
pub open spec fn ieee_eq(f: Fmt, a: Fields, b: Fields) -> bool {
    !is_nan_f(f, a) && !is_nan_f(f, b) && ((a.sbit == b.sbit && a.eb == b.eb && a.frac == b.frac) || (fields_zero(a) && fields_zero(b)))
}
/// x > 0: not NaN, not a zero, sign bit clear
pub open spec fn ieee_pos(f: Fmt, a: Fields) -> bool { !is_nan_f(f, a) && !fields_zero(a) && !a.sbit }
// `==`, `!=`, `>` on f32 / f64 (core: IEEE-754 comparison predicates; vstd leaves their result uninterpreted).  TRUSTED.
#[verifier::external_body]
pub broadcast proof fn ax_f32_eq(x: f32, y: f32, r: bool)
    requires #[trigger] eq_ensures::<f32>(x, y, r) ensures r == ieee_eq(fmt32(), fields32(x), fields32(y)) {}
#[verifier::external_body]
pub broadcast proof fn ax_f32_ne(x: f32, y: f32, r: bool)
    requires #[trigger] ne_ensures::<f32>(x, y, r) ensures r == !ieee_eq(fmt32(), fields32(x), fields32(y)) {}
#[verifier::external_body]
pub broadcast proof fn ax_f32_gt(x: f32, y: f32, r: bool)
    requires #[trigger] gt_ensures::<f32>(x, y, r), fields_zero(fields32(y)) ensures r == ieee_pos(fmt32(), fields32(x)) {}
#[verifier::external_body]
pub broadcast proof fn ax_f64_eq(x: f64, y: f64, r: bool)
    requires #[trigger] eq_ensures::<f64>(x, y, r) ensures r == ieee_eq(fmt64(), fields64(x), fields64(y)) {}
#[verifier::external_body]
pub broadcast proof fn ax_f64_ne(x: f64, y: f64, r: bool)
    requires #[trigger] ne_ensures::<f64>(x, y, r) ensures r == !ieee_eq(fmt64(), fields64(x), fields64(y)) {}
#[verifier::external_body]
pub broadcast proof fn ax_f64_gt(x: f64, y: f64, r: bool)
    requires #[trigger] gt_ensures::<f64>(x, y, r), fields_zero(fields64(y)) ensures r == ieee_pos(fmt64(), fields64(x)) {}
pub broadcast group sf_float_cmp_axioms { ax_f32_eq, ax_f32_ne, ax_f32_gt, ax_f64_eq, ax_f64_ne, ax_f64_gt }

// integer/src/shift_ops.rs `impl ShlAssign<usize> for IBig / UBig`: multiplication by 2^rhs (sign kept).  TRUSTED.
impl ShlAssign<usize> for IBig {
    #[verifier::external_body]
    fn shl_assign(&mut self, rhs: usize) { unimplemented!() }
}
impl ShlAssignSpecImpl<usize> for IBig {
    open spec fn obeys_shl_assign_spec() -> bool { true }
    open spec fn shl_assign_req(&self, rhs: usize) -> bool { true }
    open spec fn shl_assign_spec(&self, rhs: usize) -> &IBig { &ibig_of(self.v() * ipow(2, rhs as nat)) }
}
impl ShlAssign<usize> for UBig {
    #[verifier::external_body]
    fn shl_assign(&mut self, rhs: usize) { unimplemented!() }
}
impl ShlAssignSpecImpl<usize> for UBig {
    open spec fn obeys_shl_assign_spec() -> bool { true }
    open spec fn shl_assign_req(&self, rhs: usize) -> bool { true }
    open spec fn shl_assign_spec(&self, rhs: usize) -> &UBig { &ubig_of(self.v() * ipow(2, rhs as nat)) }
}
// integer/src/shift_ops.rs `impl Shl<usize> for &IBig`, `impl Shl<usize> for IBig` (as lib/tf_stubs.rs): multiplication by 2^rhs
impl<'a> Shl<usize> for &'a IBig { type Output = IBig; #[verifier::external_body] fn shl(self, rhs: usize) -> IBig { unimplemented!() } }
impl<'a> ShlSpecImpl<usize> for &'a IBig {
    open spec fn obeys_shl_spec() -> bool { true }
    open spec fn shl_req(self, rhs: usize) -> bool { true }
    open spec fn shl_spec(self, rhs: usize) -> IBig { ibig_of(self.v() * ipow(2, rhs as nat)) }
}
impl Shl<usize> for IBig { type Output = IBig; #[verifier::external_body] fn shl(self, rhs: usize) -> IBig { unimplemented!() } }
impl ShlSpecImpl<usize> for IBig {
    open spec fn obeys_shl_spec() -> bool { true }
    open spec fn shl_req(self, rhs: usize) -> bool { true }
    open spec fn shl_spec(self, rhs: usize) -> IBig { ibig_of(self.v() * ipow(2, rhs as nat)) }
}
