// ---- no_ratio_hash_stubs.rs: what rational/src/third_party/num_order.rs `NumHash for Repr` needs beyond lib/gcdo_numhash_stubs.rs
// (FixedMersenneInt, `&IBig % i128`, NumHash for i128, fed) and lib/no_int_hash_stubs.rs (`&UBig % u128`).  Include after them and
// after lib/ratio_types.rs.  Every external_body is TRUSTED.
pub mod no_ratio_hash_stubs {
use super::*;
use vstd::std_specs::ops::*;
use core::ops::Mul;

// base/src/sign.rs `impl Mul<i128> for Sign` (impl_sign_ops_for_primitives): Positive => rhs, Negative => -rhs
// (`-rhs` overflows for i128::MIN: precondition)
impl MulSpecImpl<i128> for Sign {
    open spec fn obeys_mul_spec() -> bool { true }
    open spec fn mul_req(self, rhs: i128) -> bool { rhs > i128::MIN }
    open spec fn mul_spec(self, rhs: i128) -> i128 { if self == Sign::Positive { rhs } else { (-rhs) as i128 } }
}
impl Mul<i128> for Sign { type Output = i128;
    #[verifier::external_body]
    fn mul(self, rhs: i128) -> i128 { unimplemented!() }
}
// base/src/sign.rs `Signed::is_positive` (default method: `self.sign() == Sign::Positive`; zero is positive)
impl IBig {
    #[verifier::external_body]
    pub fn is_positive(&self) -> (r: bool) ensures r == (self.v() >= 0) { unimplemented!() }
}

// ---- the property's sentence (C14): the hash of n/d (d > 0) is num-order's hash of that rational number (src/hash.rs:
// sgn(n) * (|n| * d^-1 mod M), M = 2^127 - 1, stated without the inverse; when M divides d there is no inverse and num-order
// feeds the hash of HASH_INF / HASH_NEGINF, which is 0).  Same shape as float_hash_ok for s * b^e with e < 0 (d = b^-e).
pub open spec fn ratio_hash_ok(n: int, d: int, h: int) -> bool {
    let ha = if n < 0 { -h } else { h };
    &&& (d % m127() == 0 ==> h == 0)
    &&& (d % m127() != 0 ==> 0 <= ha < m127() && (ha * d) % m127() == rabs(n) % m127())
}
} // mod no_ratio_hash_stubs
pub use no_ratio_hash_stubs::*;
