// ---- ebounds_stubs.rs: the few FBig items `ErrorBounds::error_bounds` (float/src/round.rs) uses that are not verified in
// the unit itself.  Needs round_prelude.rs, round_int_stubs.rs, round_float_repr.rs, conv_fbig_stubs.rs.  TRUSTED.
impl<R: Round, const B: Word> FBig<R, B> {
    /// float/src/fbig.rs `pub const ZERO: Self = Self::new(Repr::zero(), Context::new(0))`: significand 0, exponent 0,
    /// unlimited precision (axiom fbig_zero_const)
    #[verifier::external_body]
    pub const ZERO: Self = FBig { repr: Repr { significand: IBig::ZERO, exponent: 0 }, context: Context { precision: 0, _marker: core::marker::PhantomData } };
}
pub broadcast axiom fn fbig_zero_const<R: Round, const B: Word>()
    ensures #![trigger FBig::<R, B>::ZERO]
        FBig::<R, B>::ZERO.repr.significand.v() == 0 && FBig::<R, B>::ZERO.repr.exponent == 0 && FBig::<R, B>::ZERO.context.precision == 0;
/// derive(Clone)-like `impl Clone for FBig` (float/src/fbig.rs): a field-wise copy
impl<R: Round, const B: Word> Clone for FBig<R, B> {
    #[verifier::external_body]
    fn clone(&self) -> (r: Self)
        ensures r.repr.significand.v() == self.repr.significand.v(), r.repr.exponent == self.repr.exponent,
            r.context.precision == self.context.precision
    { unimplemented!() }
}
/// float/src/error.rs: `total` reading, unreachable under the precondition precision != 0
#[verifier::external_body]
pub fn panic_unlimited_precision() -> ! requires false { unimplemented!() }
/// float/src/repr.rs `#[derive(Clone, Copy)] pub struct Context`: the transcription in round_float_repr.rs omits the derive
impl<R: Round> Clone for Context<R> {
    #[verifier::external_body]
    fn clone(&self) -> (r: Self) ensures r == *self { unimplemented!() }
}
impl<R: Round> Copy for Context<R> {}
impl IBig {
    /// integer/src/ibig.rs `IBig::is_one`, `IBig::NEG_ONE` (axiom ibig_neg_one_const)
    #[verifier::external_body]
    pub fn is_one(&self) -> (r: bool) ensures r == (self.v() == 1) { unimplemented!() }
    #[verifier::external_body]
    pub const NEG_ONE: IBig = IBig { _p: 0 };
}
pub broadcast axiom fn ibig_neg_one_const() ensures #![trigger IBig::NEG_ONE.v()] IBig::NEG_ONE.v() == -1;
