// ---- round_prelude.rs: specification vocabulary of the rounding units (C03 / C10).
// Only mathematical integers and small enums; nothing here depends on the word size.
use core::cmp::Ordering;
use core::ops::{Add, AddAssign, Sub, SubAssign, Mul, Neg, Shl, Div, Rem};
use vstd::std_specs::ops::*;
use vstd::std_specs::cmp::*;

pub type Word = u64;

// dashu_base::Sign (base/src/sign.rs) -- transcription of the two-variant enum
#[derive(Clone, Copy, PartialEq, Eq, Debug, Structural)]
pub enum Sign { Positive, Negative }

// float/src/round.rs `pub enum Rounding` -- transcription of the three-variant enum
#[derive(Debug, Clone, Copy, PartialEq, Eq, Structural)]
pub enum Rounding { NoOp, AddOne, SubOne }

pub open spec fn int_cmp(a: int, b: int) -> Ordering {
    if a < b { Ordering::Less } else if a == b { Ordering::Equal } else { Ordering::Greater }
}
pub open spec fn iabs(a: int) -> int { if a < 0 { -a } else { a } }
/// sign of a NON-ZERO integer (for 0 the library's convention is Positive)
pub open spec fn sign_of(a: int) -> Sign { if a < 0 { Sign::Negative } else { Sign::Positive } }
pub open spec fn sign_mul(a: Sign, b: Sign) -> Sign { if a == b { Sign::Positive } else { Sign::Negative } }
pub open spec fn adj_int(r: Rounding) -> int {
    match r { Rounding::NoOp => 0, Rounding::AddOne => 1, Rounding::SubOne => -1 }
}
pub open spec fn ipow(b: int, e: nat) -> int decreases e { if e == 0 { 1 } else { b * ipow(b, (e - 1) as nat) } }

pub proof fn lemma_ipow_pos(b: int, e: nat)
    requires b >= 1
    ensures ipow(b, e) >= 1
    decreases e
{
    if e > 0 {
        lemma_ipow_pos(b, (e - 1) as nat);
        let t = ipow(b, (e - 1) as nat);
        assert(b * t >= 1) by (nonlinear_arith) requires b >= 1, t >= 1;
    }
}
pub proof fn lemma_ipow2_1()
    ensures ipow(2, 1) == 2
{
    reveal_with_fuel(ipow, 3);
}

// ------------------------------------------------------------------------------------------------
// The DEFINITION of the six rounding modes (property statements C03/C10), on exact rationals.

pub enum Mode { Zero, Away, Up, Down, HalfEven, HalfAway }

/// x lies in the closed interval spanned by a and b (in either order)
pub open spec fn between(a: int, x: int, b: int) -> bool { (a <= x && x <= b) || (b <= x && x <= a) }

/// The integer `r` is the rounding under mode `m` of the exact rational x = X / D  (D > 0).
/// With R = r*D (r written over the same denominator):
///   |r - x| < 1             r is x itself or one of its two integer neighbours     (all modes)
///   Zero      r between 0 and x          (towards zero)
///   Away      x between 0 and r          (away from zero)
///   Up        r >= x                     (towards +inf)
///   Down      r <= x                     (towards -inf)
///   HalfEven  |r - x| <= 1/2, and if |r - x| == 1/2 then r is even
///   HalfAway  |r - x| <= 1/2, and if |r - x| == 1/2 then x between 0 and r
/// For every mode and every x exactly one r satisfies this.
pub open spec fn round_def(m: Mode, X: int, D: int, r: int) -> bool {
    let R = r * D;
    &&& -D < R - X && R - X < D
    &&& match m {
        Mode::Zero => between(0, R, X),
        Mode::Away => between(0, X, R),
        Mode::Up => R >= X,
        Mode::Down => R <= X,
        Mode::HalfEven => 2 * iabs(R - X) <= D && (2 * iabs(R - X) == D ==> r % 2 == 0),
        Mode::HalfAway => 2 * iabs(R - X) <= D && (2 * iabs(R - X) == D ==> between(0, X, R)),
    }
}

/// numerator over 4 of a representative of the class (sign(l), |l| cmp 1/2) of a remainder 0 < |l| < 1:
/// +-1/4, +-1/2, +-3/4
pub open spec fn rep4(s: Sign, o: Ordering) -> int {
    let k: int = match o { Ordering::Less => 1, Ordering::Equal => 2, Ordering::Greater => 3 };
    match s { Sign::Positive => k, Sign::Negative => -k }
}

/// mode_ok(m, i, s, o, adj): for the exact value x = i + l, where l has sign `s`, 0 < |l| < 1 and |l| compares to
/// 1/2 as `o`, the integer i + adj is the rounding of x under mode m.  Stated on the representative
/// l = rep4(s, o)/4 (lemma_mode_rep proves that the definition depends on l only through (s, o)).
pub open spec fn mode_ok(m: Mode, i: int, s: Sign, o: Ordering, adj: Rounding) -> bool {
    round_def(m, 4 * i + rep4(s, o), 4, i + adj_int(adj))
}

/// The representative is faithful: for ANY remainder l = n/d with 0 < |n| < d,
/// round_def on x = i + n/d coincides with mode_ok on (sign n, 2|n| cmp d).
pub proof fn lemma_mode_rep(m: Mode, i: int, n: int, d: int, adj: Rounding)
    requires d > 0, n != 0, -d < n, n < d
    ensures round_def(m, i * d + n, d, i + adj_int(adj))
        == mode_ok(m, i, sign_of(n), int_cmp(2 * iabs(n), d), adj)
{
    let id = i * d;
    let a = adj_int(adj);
    let r = i + a;
    let R = r * d;
    assert(R == id + a * d) by (nonlinear_arith) requires R == (i + a) * d, id == i * d;
    assert(a == 0 || a == 1 || a == -1);
    assert(a * d == (if a == 0 { 0 } else if a == 1 { d } else { -d })) by (nonlinear_arith)
        requires a == 0 || a == 1 || a == -1;
    assert(i >= 1 ==> id >= d) by (nonlinear_arith) requires id == i * d, d > 0;
    assert(i <= -1 ==> id <= -d) by (nonlinear_arith) requires id == i * d, d > 0;
    assert(i == 0 ==> id == 0) by (nonlinear_arith) requires id == i * d;
    let r4 = (i + a) * 4;
    assert(r4 == 4 * i + 4 * a);
}

/// exact case: x = i (remainder 0) is its own rounding under every mode
pub proof fn lemma_round_exact(m: Mode, i: int, d: int)
    requires d > 0
    ensures round_def(m, i * d, d, i + adj_int(Rounding::NoOp))
{
}
