// ---- round_prelude.rs: specification vocabulary of the rounding units (C03 / C10).
// Only mathematical integers and small enums; nothing here depends on the word size.
use core::cmp::Ordering;
use core::ops::{Add, AddAssign, Sub, SubAssign, Mul, Neg, Shl, Shr, Div, Rem};
use vstd::std_specs::ops::*;
use vstd::std_specs::cmp::*;

pub type Word = u64;

// dashu_base::Sign (base/src/sign.rs) -- transcription of the two-variant enum
#[derive(Clone, Copy, PartialEq, Eq, Debug, Structural)]
pub enum Sign { Positive, Negative }

// float/src/round.rs `pub enum Rounding` -- transcription of the three-variant enum
#[derive(Debug, Clone, Copy, PartialEq, Eq, Structural)]
pub enum Rounding { NoOp, AddOne, SubOne }

pub open spec fn int_cmp(a: int, b: int) -> Ordering {
    if a < b { Ordering::Less } else if a == b { Ordering::Equal } else { Ordering::Greater }
}
pub open spec fn iabs(a: int) -> int { if a < 0 { -a } else { a } }
/// sign of a NON-ZERO integer (for 0 the library's convention is Positive)
pub open spec fn sign_of(a: int) -> Sign { if a < 0 { Sign::Negative } else { Sign::Positive } }
pub open spec fn sign_mul(a: Sign, b: Sign) -> Sign { if a == b { Sign::Positive } else { Sign::Negative } }
pub open spec fn adj_int(r: Rounding) -> int {
    match r { Rounding::NoOp => 0, Rounding::AddOne => 1, Rounding::SubOne => -1 }
}
pub open spec fn ipow(b: int, e: nat) -> int decreases e { if e == 0 { 1 } else { b * ipow(b, (e - 1) as nat) } }

pub proof fn lemma_ipow_pos(b: int, e: nat)
    requires b >= 1
    ensures ipow(b, e) >= 1
    decreases e
{
    if e > 0 {
        lemma_ipow_pos(b, (e - 1) as nat);
        let t = ipow(b, (e - 1) as nat);
        assert(b * t >= 1) by (nonlinear_arith) requires b >= 1, t >= 1;
    }
}
pub proof fn lemma_ipow2_1()
    ensures ipow(2, 1) == 2
{
    reveal_with_fuel(ipow, 3);
}

// ------------------------------------------------------------------------------------------------
// The DEFINITION of the six rounding modes (property statements C03/C10), on exact rationals.

pub enum Mode { Zero, Away, Up, Down, HalfEven, HalfAway }

/// x lies in the closed interval spanned by a and b (in either order)
pub open spec fn between(a: int, x: int, b: int) -> bool { (a <= x && x <= b) || (b <= x && x <= a) }

/// The integer `r` is the rounding under mode `m` of the exact rational x = X / D  (D > 0).
/// With R = r*D (r written over the same denominator):
///   |r - x| < 1             r is x itself or one of its two integer neighbours     (all modes)
///   Zero      r between 0 and x          (towards zero)
///   Away      x between 0 and r          (away from zero)
///   Up        r >= x                     (towards +inf)
///   Down      r <= x                     (towards -inf)
///   HalfEven  |r - x| <= 1/2, and if |r - x| == 1/2 then r is even
///   HalfAway  |r - x| <= 1/2, and if |r - x| == 1/2 then x between 0 and r
/// For every mode and every x exactly one r satisfies this.
pub open spec fn round_def(m: Mode, X: int, D: int, r: int) -> bool {
    let R = r * D;
    &&& -D < R - X && R - X < D
    &&& match m {
        Mode::Zero => between(0, R, X),
        Mode::Away => between(0, X, R),
        Mode::Up => R >= X,
        Mode::Down => R <= X,
        Mode::HalfEven => 2 * iabs(R - X) <= D && (2 * iabs(R - X) == D ==> r % 2 == 0),
        Mode::HalfAway => 2 * iabs(R - X) <= D && (2 * iabs(R - X) == D ==> between(0, X, R)),
    }
}

/// sanity of the definition: under every mode an exact value has at most one rounding
pub proof fn lemma_round_def_unique(m: Mode, X: int, D: int, r1: int, r2: int)
    requires D > 0, round_def(m, X, D, r1), round_def(m, X, D, r2)
    ensures r1 == r2
{
    let k = r1 - r2;
    let kd = k * D;
    assert(kd == r1 * D - r2 * D) by (nonlinear_arith) requires kd == (r1 - r2) * D;
    assert(-2 * D < kd && kd < 2 * D);
    assert(k == 0 || k == 1 || k == -1) by (nonlinear_arith) requires kd == k * D, -2 * D < kd, kd < 2 * D, D > 0;
    assert(k == 1 ==> kd == D) by (nonlinear_arith) requires kd == k * D;
    assert(k == -1 ==> kd == -D) by (nonlinear_arith) requires kd == k * D;
    // x == 0: the only multiple of D strictly inside (-D, D) is 0
    let (R1, R2) = (r1 * D, r2 * D);
    assert(-D < R1 && R1 < D ==> r1 == 0) by (nonlinear_arith) requires R1 == r1 * D, D > 0;
    assert(-D < R2 && R2 < D ==> r2 == 0) by (nonlinear_arith) requires R2 == r2 * D, D > 0;
}

/// numerator over 4 of a representative of the class (sign(l), |l| cmp 1/2) of a remainder 0 < |l| < 1:
/// +-1/4, +-1/2, +-3/4
pub open spec fn rep4(s: Sign, o: Ordering) -> int {
    let k: int = match o { Ordering::Less => 1, Ordering::Equal => 2, Ordering::Greater => 3 };
    match s { Sign::Positive => k, Sign::Negative => -k }
}

/// mode_ok(m, i, s, o, adj): for the exact value x = i + l, where l has sign `s`, 0 < |l| < 1 and |l| compares to
/// 1/2 as `o`, the integer i + adj is the rounding of x under mode m.  Stated on the representative
/// l = rep4(s, o)/4 (lemma_mode_rep proves that the definition depends on l only through (s, o)).
pub open spec fn mode_ok(m: Mode, i: int, s: Sign, o: Ordering, adj: Rounding) -> bool {
    round_def(m, 4 * i + rep4(s, o), 4, i + adj_int(adj))
}

/// The representative is faithful: for ANY remainder l = n/d with 0 < |n| < d,
/// round_def on x = i + n/d coincides with mode_ok on (sign n, 2|n| cmp d).
pub proof fn lemma_mode_rep(m: Mode, i: int, n: int, d: int, adj: Rounding)
    requires d > 0, n != 0, -d < n, n < d
    ensures round_def(m, i * d + n, d, i + adj_int(adj))
        == mode_ok(m, i, sign_of(n), int_cmp(2 * iabs(n), d), adj)
{
    let id = i * d;
    let a = adj_int(adj);
    let r = i + a;
    let R = r * d;
    assert(R == id + a * d) by (nonlinear_arith) requires R == (i + a) * d, id == i * d;
    assert(a == 0 || a == 1 || a == -1);
    assert(a * d == (if a == 0 { 0 } else if a == 1 { d } else { -d })) by (nonlinear_arith)
        requires a == 0 || a == 1 || a == -1;
    assert(i >= 1 ==> id >= d) by (nonlinear_arith) requires id == i * d, d > 0;
    assert(i <= -1 ==> id <= -d) by (nonlinear_arith) requires id == i * d, d > 0;
    assert(i == 0 ==> id == 0) by (nonlinear_arith) requires id == i * d;
    let r4 = (i + a) * 4;
    assert(r4 == 4 * i + 4 * a);
}

/// exact case: x = i (remainder 0) is its own rounding under every mode
pub proof fn lemma_round_exact(m: Mode, i: int, d: int)
    requires d > 0
    ensures round_def(m, i * d, d, i + adj_int(Rounding::NoOp))
{
}

// ------------------------------------------------------------------------------------------------
// truncating division (quotient towards zero, remainder with the sign of the dividend)

/// truncating division: a == q*b + r, |r| < |b|, r == 0 or sign(r) == sign(a)
pub open spec fn is_trunc_divrem(a: int, b: int, q: int, r: int) -> bool {
    a == q * b + r && iabs(r) < iabs(b) && (r == 0 || (r > 0) == (a > 0))
}

/// (q+1)*d and (q-1)*d spelled out
pub proof fn lemma_qd(q: int, d: int)
    ensures (q + 1) * d == q * d + d, (q - 1) * d == q * d - d
{
    assert((q + 1) * d == q * d + d) by (nonlinear_arith);
    assert((q - 1) * d == q * d - d) by (nonlinear_arith);
}

/// consequences of the truncating-division contract for a positive divisor
pub proof fn lemma_divrem_facts(num: int, den: int, q: int, r: int)
    requires den > 0, is_trunc_divrem(num, den, q, r)
    ensures
        (q + 1) * den == q * den + den, (q - 1) * den == q * den - den,
        num == 0 ==> r == 0,
        round_def(Mode::Zero, num, den, q),          // the truncated quotient is the rounding towards zero
{
    lemma_qd(q, den);
    let qd = q * den;
    assert(q >= 1 ==> qd >= den) by (nonlinear_arith) requires qd == q * den, den > 0;
    assert(q <= -1 ==> qd <= -den) by (nonlinear_arith) requires qd == q * den, den > 0;
    assert(q == 0 ==> qd == 0) by (nonlinear_arith) requires qd == q * den;
}

/// the rounding towards zero is unique: any t satisfying the definition is the library's quotient
pub proof fn lemma_trunc_unique(num: int, den: int, q: int, r: int, t: int)
    requires den > 0, is_trunc_divrem(num, den, q, r), round_def(Mode::Zero, num, den, t)
    ensures t == q
{
    lemma_divrem_facts(num, den, q, r);
    let k = t - q;
    let kd = k * den;
    assert(kd == t * den - q * den) by (nonlinear_arith) requires kd == (t - q) * den;
    assert(-den < kd && kd < den);
    assert(k == 0) by (nonlinear_arith) requires kd == k * den, -den < kd, kd < den, den > 0;
}

