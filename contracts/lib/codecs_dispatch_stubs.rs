// ---- codecs_dispatch_stubs.rs: what InRadixWriter::fmt_non_power_two (fmt/non_power_two.rs:29-53) hands over -------
// Needs lib/codecs_fmt_stubs.rs, lib/codecs_digit_lemmas.rs, lib/codecs_writer_stub.rs.
//
// `PreparedSpec` is the specification side of the crate's trait PreparedForFormatting (fmt/mod.rs:434-440): the
// invariant of a number prepared for a radix and the number it stands for.  For PreparedWord / PreparedMedium both are DEFINED on
// the structure and PROVED for the constructors (unit int_fmt_digits).  TRUSTED: PreparedDword::new and
// PreparedLarge::new "stand for their argument" (not verified: closure capturing `&mut prepared`, big-integer pow / sqr /
// div_rem), the mirror of InRadixWriter / DigitCase (fmt/mod.rs:293-299, radix.rs:31-35), and `format_prepared`
// (fmt/mod.rs:318-382, core::fmt::Formatter layout code) which is only a SINK here: its precondition is the
// statement proved about every call site.
pub trait PreparedSpec {
    spec fn inv(&self, radix: Digit) -> bool;
    spec fn value(&self, radix: Digit) -> int;
}
impl PreparedSpec for PreparedWord {
    open spec fn inv(&self, radix: Digit) -> bool {
        word_wf(*self) && word_digits(*self) >= 1
        && digits_ok(self.digits@, self.start_index as int, radix::MAX_WORD_DIGITS_NON_POW_2 as int, radix as int)
    }
    open spec fn value(&self, radix: Digit) -> int {
        dval(self.digits@, self.start_index as int, radix::MAX_WORD_DIGITS_NON_POW_2 as int, radix as int)
    }
}
impl PreparedSpec for PreparedMedium {
    open spec fn inv(&self, radix: Digit) -> bool { medium_inv(*self) && self.radix == radix }
    open spec fn value(&self, radix: Digit) -> int { medium_value(*self) }
}
impl PreparedSpec for PreparedDword {
    uninterp spec fn inv(&self, radix: Digit) -> bool;
    uninterp spec fn value(&self, radix: Digit) -> int;
}
impl PreparedSpec for PreparedLarge {
    uninterp spec fn inv(&self, radix: Digit) -> bool;
    uninterp spec fn value(&self, radix: Digit) -> int;
}
impl PreparedDword {
    // non_power_two.rs:162-210 (NOT verified)
    #[verifier::external_body]
    pub fn new(dword: DoubleWord, radix: Digit) -> (r: PreparedDword)
        requires radix_ok(radix), dword as int >= B(),     // debug_assert!(dword > Word::MAX)
        ensures r.inv(radix), r.value(radix) == dword as int,
    { unimplemented!() }
}
impl PreparedLarge {
    // non_power_two.rs:301-356 (NOT verified)
    #[verifier::external_body]
    pub fn new(number: TypedReprRef<'_>, radix: Digit) -> (r: PreparedLarge)
        requires radix_ok(radix),
        ensures r.inv(radix), r.value(radix) == number.v(),
    { unimplemented!() }
}

// radix.rs:31-35
#[derive(Clone, Copy)]
pub enum DigitCase { NoLetters, Lower, Upper }

pub use dashu_sign::Sign;
pub mod dashu_sign {
    // dashu_base::Sign
    #[derive(Clone, Copy)]
    pub enum Sign { Positive, Negative }
}

// fmt/mod.rs:293-299
pub struct InRadixWriter<'a> {
    pub sign: Sign,
    pub magnitude: TypedReprRef<'a>,
    pub radix: Digit,
    pub prefix: &'static str,
    pub digit_case: DigitCase,
}

pub use core::fmt::Formatter;

impl<'a> InRadixWriter<'a> {
    // fmt/mod.rs:318-382 (sink: see file header).  `&mut dyn PreparedForFormatting` of the real signature is a
    // generic parameter here (Verus has no trait objects); every call passes `&mut <concrete prepared type>`.
    #[verifier::external_body]
    pub fn format_prepared<P: PreparedSpec>(&self, f: &mut Formatter, prepared: &mut P) -> (r: fmt::Result)
        requires old(prepared).inv(self.radix), old(prepared).value(self.radix) == self.magnitude.v(),
    { unimplemented!() }
}

/// a magnitude as the formatter receives it: a large one is normalized (repr.rs:36-49) and fits in memory
pub open spec fn mag_wf(m: TypedReprRef) -> bool {
    match m {
        TypedReprRef::RefSmall(d) => true,
        TypedReprRef::RefLarge(w) => 1 <= w@.len() && w@.len() * 64 <= usize::MAX && w@[w@.len() - 1] != 0,
    }
}

// ---- arithmetic of the dispatch condition ------------------------------------------------------------------------------

pub proof fn lemma_ipow_pow(b: int, x: int, y: int)
    requires x >= 0, y >= 0,
    ensures ipow(ipow(b, x), y) == ipow(b, x * y),
    decreases y
{
    if y > 0 {
        lemma_ipow_pow(b, x, y - 1);
        assert(x * y == x * (y - 1) + x) by (nonlinear_arith);
        assert(x * (y - 1) >= 0) by (nonlinear_arith) requires x >= 0, y >= 1;
        lemma_ipow_add(b, x * (y - 1), x);
        let (p, q) = (ipow(b, x * (y - 1)), ipow(b, x));
        assert(q * p == p * q) by (nonlinear_arith);
    } else {
        assert(x * 0 == 0);
    }
}

/// B^n <= c^n-fold: pw(n) <= ipow(c, n) for B <= c
pub proof fn lemma_pw_le_ipow(c: int, n: int)
    requires B() <= c, n >= 0,
    ensures pw(n) <= ipow(c, n),
    decreases n
{
    if n > 0 {
        lemma_pw_le_ipow(c, n - 1);
        lemma_pw_pos(n - 1);
        let (p, q) = (pw(n - 1), ipow(c, n - 1));
        assert(B() * p <= c * q) by (nonlinear_arith) requires 1 <= B() <= c, 1 <= p <= q;
    }
}

/// `len * (dpw + 1) <= CHUNK_LEN * dpw` (the test in fmt_non_power_two) implies that a len-word number is below
/// range_per_word^CHUNK_LEN and that len < CHUNK_LEN
pub proof fn lemma_medium_dispatch(radix: Digit, v: int, len: int)
    requires radix_ok(radix), len >= 0, 0 <= v < pw(len), len * (dpw(radix) + 1) <= (CHUNK_LEN as int) * dpw(radix),
    ensures v < ipow(rpw(radix), CHUNK_LEN as int), len < CHUNK_LEN,
{
    broadcast use radix::ax_dpw;
    let (r, d) = (radix as int, dpw(radix));
    // B <= r^(d+1)
    assert(ipow(r, d + 1) == r * ipow(r, d));
    assert(r * rpw(radix) == rpw(radix) * r) by (nonlinear_arith);
    lemma_pw_le_ipow(ipow(r, d + 1), len);
    lemma_ipow_pow(r, d + 1, len);
    assert((d + 1) * len == len * (d + 1)) by (nonlinear_arith);
    assert(len * (d + 1) >= 0) by (nonlinear_arith) requires len >= 0, d >= 1;
    lemma_ipow_exp_mono(r, len * (d + 1), (CHUNK_LEN as int) * d);
    lemma_ipow_pow(r, d, CHUNK_LEN as int);
    assert(d * (CHUNK_LEN as int) == (CHUNK_LEN as int) * d) by (nonlinear_arith);
    assert(len < CHUNK_LEN) by (nonlinear_arith) requires len * (d + 1) <= 16 * d, d >= 1, len >= 0;
}

