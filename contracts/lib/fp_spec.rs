// ---- fp_spec.rs: specification vocabulary of the units float_to_prim_* (float/src/convert.rs: `Context::convert_to_binary_once`,
// `FBig::{to_f32, to_f64}`, `Repr::{to_f32, to_f64}`; property C06).  Mathematical integers only; nothing trusted here.
// Needs round_prelude.rs, round_int_stubs.rs, round_float_repr.rs, conv_float.rs, conv_float_stubs.rs.

/// base/src/approx.rs `Approximation::value` as a spec function
pub open spec fn rd_val0<T, E>(r: Approximation<T, E>) -> T { match r { Approximation::Exact(v) => v, Approximation::Inexact(v, _) => v } }
/// base/src/approx.rs `Approximation::and_then` as a spec function: the second value; the second flag wins, an exact
/// second stage keeps the first flag (used by the annotated copy base/approx/and_then.rs)
pub open spec fn and_then_spec<T, U, E>(s: Approximation<T, E>, o: Approximation<U, E>) -> Approximation<U, E> {
    match s {
        Approximation::Exact(_) => o,
        Approximation::Inexact(_, e) => match o {
            Approximation::Exact(v2) => Approximation::Inexact(v2, e),
            Approximation::Inexact(v2, e2) => Approximation::Inexact(v2, e2),
        },
    }
}

// ------------------------------------------------------------------------------------------------------------------
// the exact value of a float sig * b^e as a fraction fx_num / fx_den  (fx_den > 0)
pub open spec fn fx_num(b: int, sig: int, e: int) -> int { if e >= 0 { sig * ipow(b, e as nat) } else { sig } }
pub open spec fn fx_den(b: int, e: int) -> int { if e >= 0 { 1 } else { ipow(b, (-e) as nat) } }
/// documented normal form of Repr: a non-zero significand is not divisible by the base
pub open spec fn fp_normal(b: int, s: int) -> bool { s == 0 || s % b != 0 }
pub open spec fn fp_finite<const BB: Word>(r: Repr<BB>) -> bool { !(r.significand.v() == 0 && r.exponent != 0) }

// ------------------------------------------------------------------------------------------------------------------
// A rounded binary float seen as integers: value s * 2^e, flag None = Exact, Some(adj) = Inexact(adj).
// (`Repr<2>` and `Repr<B>` under the path condition B == 2 are different types for the verifier; the contracts of
// the four to_f32 / to_f64 functions therefore speak about this view.)
pub ghost struct Mid { pub s: int, pub e: int, pub adj: Option<Rounding> }
pub open spec fn mid_of<const BB: Word>(r: Rounded<Repr<BB>>) -> Mid {
    match r {
        Approximation::Exact(v) => Mid { s: v.significand.v(), e: v.exponent as int, adj: None },
        Approximation::Inexact(v, a) => Mid { s: v.significand.v(), e: v.exponent as int, adj: Some(a) },
    }
}
/// `Approximation::and_then` on the flag of the first stage
pub open spec fn fp_then<U>(first: Option<Rounding>, o: Rounded<U>) -> Rounded<U> {
    match first {
        None => o,
        Some(e) => match o {
            Approximation::Exact(v2) => Approximation::Inexact(v2, e),
            Approximation::Inexact(v2, e2) => Approximation::Inexact(v2, e2),
        },
    }
}

// ------------------------------------------------------------------------------------------------------------------
// C06, first stage: "the exact value x = N / D (D > 0) rounded ONCE to p binary digits under mode m, with a truthful
// flag".  Same definition as lib/tf_lemmas.rs `ratio_round_wit` / `ratio_round_once` (the contract of RBig::to_float)
// for base 2.  For nat s, k the number x / 2^(k - s) is the fraction X / Dn with X = N * 2^s, Dn = D * 2^k.
// (s, k, mm) witnesses "mid is x rounded once to p bits" when
//   * 2^(p-1) <= |X / Dn| < 2^p : 2^(k - s) is the unit in the last place of x at precision p (this fixes k - s),
//   * mm is THE rounding of X / Dn to an integer under the mode (lib/round_prelude.rs round_def: error < 1 unit on the
//     side the mode prescribes, <= 1/2 unit with the mode's tie rule for the Half modes),
//   * the returned float is mm * 2^(k - s)   (|mm| <= 2^p: p digits, or exactly 2^p after a carry),
//   * the flag tells the truth: Exact means the float equals x; Inexact(adj) means it differs and adj = mm - trunc(X / Dn).
pub open spec fn once_wit(m: Mode, p: nat, N: int, D: int, s: nat, k: nat, mm: int, mid: Mid) -> bool {
    let X = N * ipow(2, s);
    let Dn = D * ipow(2, k);
    &&& ipow(2, (p - 1) as nat) * Dn <= iabs(X) && iabs(X) < ipow(2, p) * Dn
    &&& round_def(m, X, Dn, mm)
    &&& same_value(2, mid.s, mid.e, mm, k - s)
    &&& match mid.adj {
            None => mm * Dn == X,
            Some(adj) => mm * Dn != X && round_def(Mode::Zero, X, Dn, mm - adj_int(adj)),
        }
}
pub open spec fn bin_once(m: Mode, p: nat, N: int, D: int, mid: Mid) -> bool {
    if N == 0 {
        mid.adj is None && mid.s == 0 && mid.e == 0
    } else {
        exists|s: nat, k: nat, mm: int| #[trigger] once_wit(m, p, N, D, s, k, mm, mid)
    }
}
/// the strengthened postcondition of `repr_round(_ref)` (unit float_to_prim_round): an Inexact result is in normal form
pub open spec fn fp_inexact_normal<const BB: Word>(b: int, rr: Rounded<Repr<BB>>) -> bool {
    rr matches Approximation::Inexact(r, _) ==> fp_normal(b, r.significand.v())
}
/// the far-range stand-in of convert_to_binary_once: a value beyond 2^4096 (below 2^-4096) in magnitude is not converted
/// digit by digit; +-1 * 2^4096 (+-1 * 2^-4096) with the sign of the value and the flag Inexact(NoOp) is handed on instead
/// (far outside the range of f32 and f64: the second stage turns it into +-inf resp. +-0)
pub open spec fn fp_far(N: int, D: int, mid: Mid) -> bool {
    &&& mid.adj == Some(Rounding::NoOp) && N != 0 && mid.s == (if N < 0 { -1int } else { 1int })
    &&& ((mid.e == 4096 && iabs(N) > ipow(2, 4096) * D) || (mid.e == -4096 && iabs(N) * ipow(2, 4096) < D))
}
/// first stage of to_f32 / to_f64: the exact value N / D rounded ONCE to p bits under mode m, or the far-range stand-in
pub open spec fn fp_first(m: Mode, p: nat, N: int, D: int, mid: Mid) -> bool {
    bin_once(m, p, N, D, mid) || fp_far(N, D, mid)
}
/// what the second stage (`into_f32_internal` / `into_f64_internal`) needs of the first: a finite value with at most p bits
pub open spec fn fp_mid_ok(m: Mode, p: nat, N: int, D: int, mid: Mid) -> bool {
    fp_first(m, p, N, D, mid) && !(mid.s == 0 && mid.e != 0) && blen(mid.s) <= p
}

// ------------------------------------------------------------------------------------------------------------------
// C06, second stage: the contract of `Repr::<2>::into_f32_internal` / `into_f64_internal` (unit float_to_f) on a
// value s * 2^e of at most 24 / 53 bits: the IEEE round-to-nearest-even encoding (exact inside the normal range: the
// value has no more bits than the format; +-inf at / above 2^128 / 2^1024; rounded again in the subnormal range),
// `Exact` exactly when nothing was lost, otherwise a flag with the true sign of the error.
pub open spec fn fp_enc32(s: int, e: int, o: Rounded<f32>) -> bool {
    rr32_val_ok(o, s < 0, sc_num(absi(s), e), sc_den(e)) && rr32_flag_ok(o, s < 0, sc_num(absi(s), e), sc_den(e))
}
pub open spec fn fp_enc64(s: int, e: int, o: Rounded<f64>) -> bool {
    rr64_val_ok(o, s < 0, sc_num(absi(s), e), sc_den(e)) && rr64_flag_ok(o, s < 0, sc_num(absi(s), e), sc_den(e))
}
pub open spec fn fp_into32_post<const BB: Word>(v: Repr<BB>, o: Rounded<f32>) -> bool { fp_enc32(v.significand.v(), v.exponent as int, o) }
pub open spec fn fp_into64_post<const BB: Word>(v: Repr<BB>, o: Rounded<f64>) -> bool { fp_enc64(v.significand.v(), v.exponent as int, o) }
pub open spec fn fp_into_pre<const BB: Word>(v: Repr<BB>, p: nat) -> bool { BB == 2 && fp_finite(v) && blen(v.significand.v()) <= p }

/// the composition `first.and_then(|v| v.into_f32_internal())`: mid = the first stage, ret = the final result
pub open spec fn fp_two_stage32(m: Mode, N: int, D: int, mid: Mid, ret: Rounded<f32>) -> bool {
    fp_first(m, 24, N, D, mid) && exists|o: Rounded<f32>| #[trigger] fp_enc32(mid.s, mid.e, o) && ret == fp_then(mid.adj, o)
}
pub open spec fn fp_two_stage64(m: Mode, N: int, D: int, mid: Mid, ret: Rounded<f64>) -> bool {
    fp_first(m, 53, N, D, mid) && exists|o: Rounded<f64>| #[trigger] fp_enc64(mid.s, mid.e, o) && ret == fp_then(mid.adj, o)
}

// ------------------------------------------------------------------------------------------------------------------
// C06 for the conversion of a float of any base to f32 / f64 (float/src/convert.rs FBig::to_f32 / to_f64, Repr::to_f32 /
// to_f64), with the documented rounding rule of each function (mode m: the mode of the type for FBig::to_f32, HalfEven
// for the other three):
//   * an infinity gives Inexact(+-inf, NoOp)   ("the conversion is inexact even if the number is infinite");
//   * a finite x = sig * B^e is rounded ONCE to 24 / 53 bits under m with a truthful flag (bin_once), and that value
//     is encoded (fp_enc32 / fp_enc64: exact in the normal range, +-inf beyond the largest finite float); the flags are
//     combined as `Approximation::and_then` does.  For |x| > 2^4096 resp. |x| < 2^-4096 the first stage may be the
//     stand-in +-2^4096 resp. +-2^-4096 with flag NoOp (fp_far) -- far beyond what either format holds.
// The second stage rounds AGAIN (to nearest even) when the result is subnormal: this is the recorded observation D2
// (proposed_fixes/D2/NOTES.txt, Repr::<2>::new(2^65 + 1, -1140).to_f64() = 0.0); the contract states the two stages
// as they are and does not claim a single rounding there.
pub open spec fn fp_to_f32_post<const B: Word>(m: Mode, repr: Repr<B>, ret: Rounded<f32>) -> bool {
    let (sig, e) = (repr.significand.v(), repr.exponent as int);
    if sig == 0 && e != 0 {
        ret matches Approximation::Inexact(v, a) && a == Rounding::NoOp && fields32(v) == f_inf(fmt32(), e < 0)
    } else {
        exists|mid: Mid| #[trigger] fp_two_stage32(m, fx_num(B as int, sig, e), fx_den(B as int, e), mid, ret)
    }
}
pub open spec fn fp_to_f64_post<const B: Word>(m: Mode, repr: Repr<B>, ret: Rounded<f64>) -> bool {
    let (sig, e) = (repr.significand.v(), repr.exponent as int);
    if sig == 0 && e != 0 {
        ret matches Approximation::Inexact(v, a) && a == Rounding::NoOp && fields64(v) == f_inf(fmt64(), e < 0)
    } else {
        exists|mid: Mid| #[trigger] fp_two_stage64(m, fx_num(B as int, sig, e), fx_den(B as int, e), mid, ret)
    }
}

// ------------------------------------------------------------------------------------------------------------------
// `Context::convert_to_binary_once` and the four to_f32 / to_f64 functions

/// precondition shared by convert_to_binary_once and the four to_f32 / to_f64 functions
pub open spec fn fp_src_ok<const B: Word>(repr: Repr<B>) -> bool {
    let (sig, e) = (repr.significand.v(), repr.exponent as int);
    &&& B >= 2
    // documented normal form of the operand (Repr invariant)
    &&& fp_normal(B as int, sig)
    // resource limit: exponent overflow is a documented panic (C16), not modelled: a significand of at most 2^54 bits and
    // an exponent below 2^48 keep every bit count, shift amount and exponent of the conversion inside usize / isize
    &&& blen(sig) <= 0x40_0000_0000_0000 && -0x1_0000_0000_0000 < e && e < 0x1_0000_0000_0000
}
pub open spec fn fp_once_pre<const B: Word>(precision: usize, repr: Repr<B>) -> bool {
    &&& fp_src_ok(repr) && fp_finite(repr)
    &&& 0 < precision && precision < 0x1_0000_0000_0000
}
/// contract of `Context::convert_to_binary_once`: x = repr rounded ONCE to `precision` bits under the mode of the context,
/// truthful flag (or the far-range stand-in); the result is in normal form, finite, and has at most `precision` bits
pub open spec fn fp_once_post<const B: Word>(m: Mode, precision: usize, repr: Repr<B>, ret: Rounded<Repr<2>>) -> bool {
    let (sig, e) = (repr.significand.v(), repr.exponent as int);
    fp_mid_ok(m, precision as nat, fx_num(B as int, sig, e), fx_den(B as int, e), mid_of(ret))
        && fp_normal(2, rd_val0(ret).significand.v())
}
/// precondition of the four to_f32 / to_f64 functions (any float, finite or not, of any base)
pub open spec fn fp_to_f_pre<const B: Word>(repr: Repr<B>) -> bool { fp_src_ok(repr) }

// ------------------------------------------------------------------------------------------------------------------
// ASSUMED (f32 arithmetic is not modelled): the enclosure `EstimatedLog2::log2_bounds` is supposed to give and the meaning
// of the two float tests of convert_to_binary_once (lowering rule D10 turns the first into __f32_guard0, declared in unit
// float_to_prim_once; the second, `log2_lb > 0.`, is a native f32 comparison read through ax_fp_gt_zero).  Only the far-range shortcut depends on them; the correctly rounded path does not.
/// "2^f <= num / den" resp. "num / den <= 2^f" over the reals (den > 0)
pub uninterp spec fn fp_est_lo(f: f32, num: int, den: int) -> bool;
pub uninterp spec fn fp_est_hi(f: f32, num: int, den: int) -> bool;
/// the real number denoted by the f32 is > k resp. < k (false for NaN)
pub uninterp spec fn fp_f32_gt(f: f32, k: int) -> bool;
pub uninterp spec fn fp_f32_lt(f: f32, k: int) -> bool;
/// k < f and 2^f <= num/den  ==>  2^k < num/den        (k >= 0; monotonicity of 2^x over the reals)
#[verifier::external_body]
pub proof fn ax_fp_est_gt(f: f32, k: nat, num: int, den: int)
    requires fp_est_lo(f, num, den), fp_f32_gt(f, k as int), den > 0
    ensures num > ipow(2, k) * den
{}
/// f < -k and num/den <= 2^f  ==>  num/den < 2^-k
#[verifier::external_body]
pub proof fn ax_fp_est_lt(f: f32, k: nat, num: int, den: int)
    requires fp_est_hi(f, num, den), fp_f32_lt(f, -(k as int)), den > 0
    ensures num * ipow(2, k) < den
{}
/// the core comparison `f > 0.` on f32 (Verus: gt_ensures) taken as the comparison of the real number with 0
#[verifier::external_body]
pub proof fn ax_fp_gt_zero(f: f32, z: f32, r: bool)
    requires gt_ensures::<f32>(f, z, r), z.to_bits_spec() == 0
    ensures r == fp_f32_gt(f, 0)
{}
/// f > k and j <= k  ==>  f > j
#[verifier::external_body]
pub proof fn ax_fp_gt_mono(f: f32, k: int, j: int)
    requires fp_f32_gt(f, k), j <= k
    ensures fp_f32_gt(f, j)
{}
