// ---- sf_shape.rs (unit ratio_sf_ebounds / ratio_simplest_from_float, C18): what `RBig::simplest_from_float` needs to know
// about the two bounds returned by `ErrorBounds::error_bounds` BESIDES their value (eb_post): each bound is ZERO, one ulp
// (significand 1) or half an ulp (significand B/2), i.e. a ONE-digit significand, and carries the precision of f (the
// constant FBig::ZERO: precision 0).  With it `bound.with_precision(p + 1)` is Exact and `f -/+ bound` has at most p + 1
// digits.  Needs round_float_repr.rs, conv_fbig_stubs.rs.
pub open spec fn eb_shape<R: Round, const B: Word>(p: usize, x: FBig<R, B>) -> bool {
    &&& 0 <= x.repr.significand.v() < B as int
    &&& (x.context.precision == p || (x.context.precision == 0 && x.repr.significand.v() == 0))
    &&& (x.repr.significand.v() == 0 ==> x.repr.exponent == 0)          // finite (a zero, not an infinity)
}
