// ---- basering_cbrt_lemmas.rs: arithmetic of the PRIMITIVE cube-root algorithms of dashu-base (base/src/ring/root.rs), unit base_cbrt.
// Needs lib/div_dword_bits_64.rs, lib/basering_bits.rs, lib/basering_root_lemmas.rs.  Everything here is proved.
// C12 for cbrt_rem: (c, r) with c^3 + r == n and 0 <= r <= 3c^2 + 3c, i.e. c^3 <= n < (c+1)^3: c is the root truncated toward zero.

pub open spec fn br_cube(x: int) -> int { x * x * x }

pub proof fn lemma_br_cube_succ(c: int)
    ensures br_cube(c + 1) == br_cube(c) + 3 * (c * c) + 3 * c + 1, br_cube(c - 1) == br_cube(c) - (3 * (c - 1) * c + 1),
{
    assert((c + 1) * (c + 1) * (c + 1) == c * c * c + 3 * (c * c) + 3 * c + 1) by (nonlinear_arith);
    assert((c - 1) * (c - 1) * (c - 1) == c * c * c - (3 * (c - 1) * c + 1)) by (nonlinear_arith);
}

pub proof fn lemma_br_cube_mono(a: int, b: int)
    requires 0 <= a, 0 <= b,
    ensures a <= b ==> br_cube(a) <= br_cube(b), br_cube(a) < br_cube(b) ==> a < b, a < b ==> br_cube(a) < br_cube(b), br_cube(a) >= 0,
{
    assert(a * a * a >= 0) by (nonlinear_arith) requires a >= 0;
    if a <= b {
        assert(a * a <= b * b) by (nonlinear_arith) requires 0 <= a <= b;
        assert(a * a * a <= b * b * b) by (nonlinear_arith) requires 0 <= a <= b, 0 <= a * a <= b * b;
    }
    if a >= b {
        assert(a * a >= b * b) by (nonlinear_arith) requires 0 <= b <= a;
        assert(a * a * a >= b * b * b) by (nonlinear_arith) requires 0 <= b <= a, 0 <= b * b <= a * a;
    }
    if a < b {
        assert(a * a <= b * b) by (nonlinear_arith) requires 0 <= a <= b;
        assert(b * b >= 1) by (nonlinear_arith) requires b >= 1;
        assert(a * a * a < b * b * b) by (nonlinear_arith) requires 0 <= a < b, 0 <= a * a <= b * b, b * b >= 1;
    }
}

/// c^3 <= n < cap^3  ==>  c < cap
pub proof fn lemma_br_cbrt_lt(c: int, n: int, cap: int)
    requires 0 <= c, 0 <= cap, br_cube(c) <= n, n < br_cube(cap),
    ensures c < cap,
{
    lemma_br_cube_mono(c, cap);
}

/// 2^(ceil(BITS/3)) for the value range of the operand type: the cube root of an n < cap^3 is below cap
pub open spec fn br_cbrt_cap(n: int) -> int {
    if n < 0x1_0000 { 0x40 } else if n < 0x1_0000_0000 { 0x800 } else if n < 0x1_0000_0000_0000_0000 { 0x40_0000 } else { 0x800_0000_0000 }
}
pub proof fn lemma_br_cbrt_cap(n: int)
    requires 0 <= n < 0x1_0000_0000_0000_0000_0000_0000_0000_0000,
    ensures n < br_cube(br_cbrt_cap(n)),
{
    assert(br_cube(0x40) == 0x4_0000 && br_cube(0x800) == 0x2_0000_0000 && br_cube(0x40_0000) == 0x4_0000_0000_0000_0000
           && br_cube(0x800_0000_0000) == 0x2_0000_0000_0000_0000_0000_0000_0000_0000) by (compute);
}

/// one turn of `fix_cbrt_error`:  e + c^3 == n, elim == 3c^2 + 3c + 1, e >= elim
pub proof fn lemma_br_cfix_step(n: int, c: int, e: int, elim: int)
    requires e + br_cube(c) == n, elim == 3 * (c * c) + 3 * c + 1, e >= elim, c >= 0, n < 0x1_0000_0000_0000_0000_0000_0000_0000_0000,
    ensures (e - elim) + br_cube(c + 1) == n, elim + 6 * (c + 1) == 3 * ((c + 1) * (c + 1)) + 3 * (c + 1) + 1,
        br_cube(c + 1) <= n, c + 1 < br_cbrt_cap(n),
{
    lemma_br_cube_succ(c);
    assert((c + 1) * (c + 1) == c * c + 2 * c + 1) by (nonlinear_arith);
    lemma_br_cbrt_cap(n);
    lemma_br_cbrt_lt(c + 1, n, br_cbrt_cap(n));
}

/// entry of `fix_cbrt_error`: the machine products are the mathematical ones and fit
pub proof fn lemma_br_cfix_init(n: int, c: int)
    requires 0 <= c, br_cube(c) <= n, n < 0x1_0000_0000_0000_0000_0000_0000_0000_0000,
    ensures c < br_cbrt_cap(n), br_ipow(c, 2) == c * c, (c * c) * c == br_cube(c), 0 <= c * c, c * c < br_cbrt_cap(n) * br_cbrt_cap(n),
        3 * (c * c + c) + 1 == 3 * (c * c) + 3 * c + 1,
{
    lemma_br_cbrt_cap(n);
    lemma_br_cbrt_lt(c, n, br_cbrt_cap(n));
    lemma_br_ipow2(c);
    let cap = br_cbrt_cap(n);
    assert(c * c < cap * cap && 0 <= c * c) by (nonlinear_arith) requires 0 <= c < cap;
}

/// root of x from the root of xs == x * 8^k:  rs^3 <= xs < (rs+1)^3, rt == rs div 2^k  ==>  rt^3 <= x < (rt+1)^3
pub proof fn lemma_br_cbrt_unshift(x: int, xs: int, k: nat, rs: int, rt: int)
    requires x >= 0, xs == x * (pow2(k) * pow2(k) * pow2(k)), rs >= 0, br_cube(rs) <= xs, xs < br_cube(rs + 1), rt == rs / (pow2(k) as int),
    ensures rt >= 0, br_cube(rt) <= x, x < br_cube(rt + 1),
{
    vstd::arithmetic::power2::lemma_pow2_pos(k);
    let p = pow2(k) as int;
    vstd::arithmetic::div_mod::lemma_fundamental_div_mod(rs, p);
    vstd::arithmetic::div_mod::lemma_mod_bound(rs, p);
    vstd::arithmetic::div_mod::lemma_div_pos_is_pos(rs, p);
    let ppp = p * p * p;
    assert(ppp >= 1) by (nonlinear_arith) requires p >= 1, ppp == p * p * p;
    assert(xs == x * ppp) by (nonlinear_arith) requires xs == x * (pow2(k) * pow2(k) * pow2(k)), p == pow2(k), ppp == p * p * p;
    let lo = rt * p;
    assert(p * rt == rt * p) by (nonlinear_arith);
    assert(lo >= 0) by (nonlinear_arith) requires rt >= 0, p >= 1, lo == rt * p;
    lemma_br_cube_mono(lo, rs);
    let a3 = br_cube(rt);
    assert(br_cube(lo) == a3 * ppp) by (nonlinear_arith) requires lo == rt * p, ppp == p * p * p, a3 == rt * rt * rt, br_cube(lo) == lo * lo * lo;
    assert(a3 * ppp <= x * ppp);
    assert(a3 <= x) by (nonlinear_arith) requires a3 * ppp <= x * ppp, ppp >= 1;
    let hi = (rt + 1) * p;
    assert(hi == rt * p + p) by (nonlinear_arith) requires hi == (rt + 1) * p;
    assert(rs + 1 <= hi);
    lemma_br_cube_mono(rs + 1, hi);
    let b3 = br_cube(rt + 1);
    assert(br_cube(hi) == b3 * ppp) by (nonlinear_arith)
        requires hi == (rt + 1) * p, ppp == p * p * p, b3 == (rt + 1) * (rt + 1) * (rt + 1), br_cube(hi) == hi * hi * hi;
    assert(x * ppp < b3 * ppp);
    assert(x < b3) by (nonlinear_arith) requires x * ppp < b3 * ppp, ppp >= 1;
}

/// the normalising shift of cbrt_rem / cbrt: x in [2^(w-1-z), 2^(w-z)), sh divisible by 3, sh <= z <= sh + 2:
///   x * 2^sh in [2^(w-3), 2^w)  and  2^sh == (2^(sh/3))^3
pub proof fn lemma_br_cbrt_norm(x: int, z: nat, sh: nat, w: nat)
    requires w >= 3, z < w, pow2((w - 1 - z) as nat) <= x < pow2((w - z) as nat), sh % 3 == 0, sh <= z <= sh + 2,
    ensures pow2((w - 3) as nat) <= x * pow2(sh) < pow2(w), pow2(sh) == pow2(sh / 3) * pow2(sh / 3) * pow2(sh / 3),
        x * pow2(sh) == x * (pow2(sh / 3) * pow2(sh / 3) * pow2(sh / 3)),
{
    let m = (w - z) as nat;
    vstd::arithmetic::power2::lemma_pow2_pos(sh);
    vstd::arithmetic::power2::lemma_pow2_adds((m - 1) as nat, sh);
    vstd::arithmetic::power2::lemma_pow2_adds(m, sh);
    let p = pow2(sh) as int;
    assert(pow2((m - 1) as nat) * p <= x * p) by (nonlinear_arith) requires pow2((m - 1) as nat) <= x, p >= 1;
    assert(x * p < pow2(m) * p) by (nonlinear_arith) requires x < pow2(m), p >= 1;
    lemma_br_pow2_mono((w - 3) as nat, (m - 1 + sh) as nat);
    lemma_br_pow2_mono((m + sh) as nat, w);
    let k = sh / 3;
    assert(3 * k == sh);
    vstd::arithmetic::power2::lemma_pow2_adds(k, k);
    vstd::arithmetic::power2::lemma_pow2_adds(2 * k, k);
}

/// c^3 + r == n  ==>  (0 <= r <= 3c^2 + 3c) == (c^3 <= n < (c+1)^3)
pub proof fn lemma_br_cbrt_rem_iff(n: int, c: int, r: int)
    requires br_cube(c) + r == n,
    ensures (0 <= r <= 3 * (c * c) + 3 * c) == (br_cube(c) <= n && n < br_cube(c + 1)),
{
    lemma_br_cube_succ(c);
}

// ---- <u128 as NormalizedRootRem>::normalized_cbrt_rem ------------------------------------------------------------------------------

/// root of floor(a / 8) from the root of a:  rs^3 <= a < (rs+1)^3  ==>  (rs/2)^3 <= a/8 < (rs/2 + 1)^3
pub proof fn lemma_br_cbrt_half(a: int, rs: int)
    requires a >= 0, rs >= 0, br_cube(rs) <= a, a < br_cube(rs + 1),
    ensures br_cube(rs / 2) <= a / 8, a / 8 < br_cube(rs / 2 + 1), rs / 2 >= 0,
{
    let rt = rs / 2;
    let lo = 2 * rt;
    lemma_br_cube_mono(lo, rs);
    assert(br_cube(lo) == 8 * br_cube(rt)) by (nonlinear_arith) requires lo == 2 * rt, br_cube(lo) == lo * lo * lo, br_cube(rt) == rt * rt * rt;
    let hi = 2 * (rt + 1);
    lemma_br_cube_mono(rs + 1, hi);
    assert(br_cube(hi) == 8 * br_cube(rt + 1)) by (nonlinear_arith)
        requires hi == 2 * (rt + 1), br_cube(hi) == hi * hi * hi, br_cube(rt + 1) == (rt + 1) * (rt + 1) * (rt + 1);
}

/// size of the high-part root:  c1^3 <= a < (c1+1)^3, 2^59 <= a < 2^62  ==>  2^19 <= c1 < 2^21
pub proof fn lemma_br_cb128_c1(a: int, c1: int)
    requires c1 >= 0, br_cube(c1) <= a, a < br_cube(c1 + 1), 0x800_0000_0000_0000 <= a < 0x4000_0000_0000_0000,
    ensures 0x8_0000 <= c1 < 0x20_0000,
{
    assert(br_cube(0x8_0000) == 0x200_0000_0000_0000 && br_cube(0x20_0000) == 0x8000_0000_0000_0000) by (compute);
    lemma_br_cube_mono(c1 + 1, 0x8_0000);
    lemma_br_cube_mono(0x20_0000, c1);
}

/// the quotient of the Karatsuba-like step: r0 = r1*B + b2 divided by 3 c1^2  (B = 2^22)
pub proof fn lemma_br_cb128_q(c1: int, r1: int, b2: int, r0: int, q: int, u: int)
    requires 0x8_0000 <= c1 < 0x20_0000, 0 <= r1 <= 3 * (c1 * c1) + 3 * c1, 0 <= b2 < 0x40_0000, r0 == r1 * 0x40_0000 + b2,
        q == r0 / (3 * (c1 * c1)), u == r0 % (3 * (c1 * c1)),
    ensures 0 <= q <= 0x40_0000 + 8, 0 <= u < 3 * (c1 * c1), r0 == q * (3 * (c1 * c1)) + u, 3 * (c1 * c1) >= 1,
        3 * (c1 * c1) < 0x3000_0000_0000, r0 < 0x1_0000_0000_0000_0000_0000,
{
    let d = 3 * (c1 * c1);
    let bb = 0x40_0000int;
    assert(c1 * c1 >= 0x8_0000 * 0x8_0000 && c1 * c1 < 0x20_0000 * 0x20_0000) by (nonlinear_arith) requires 0x8_0000 <= c1 < 0x20_0000;
    vstd::arithmetic::div_mod::lemma_fundamental_div_mod(r0, d);
    vstd::arithmetic::div_mod::lemma_mod_bound(r0, d);
    assert(r1 * bb >= 0) by (nonlinear_arith) requires r1 >= 0, bb == 0x40_0000int;
    vstd::arithmetic::div_mod::lemma_div_pos_is_pos(r0, d);
    assert(d * q == q * d) by (nonlinear_arith);
    // r0 < (d + 3 c1 + 1) * B  and  (3 c1 + 1) * B <= 9 * d   (c1 >= 2^19: 3 c1^2 * 9 >= (3 c1 + 1) * 2^22)
    assert(r1 * bb <= (d + 3 * c1) * bb) by (nonlinear_arith) requires r1 <= d + 3 * c1, bb == 0x40_0000int;
    assert((d + 3 * c1) * bb == d * bb + (3 * c1) * bb) by (nonlinear_arith);
    assert((3 * c1 + 1) * bb <= 9 * d) by (nonlinear_arith) requires d == 3 * (c1 * c1), c1 >= 0x8_0000, bb == 0x40_0000int;
    assert((3 * c1 + 1) * bb == (3 * c1) * bb + bb) by (nonlinear_arith);
    assert(r0 < d * bb + 9 * d);
    if q >= bb + 9 {
        assert(q * d >= (bb + 9) * d) by (nonlinear_arith) requires q >= bb + 9, d >= 0;
        assert((bb + 9) * d == d * bb + 9 * d) by (nonlinear_arith);
        assert(false);
    }
    assert(d * bb < 0x3000_0000_0000 * 0x40_0000) by (nonlinear_arith) requires d < 0x3000_0000_0000, bb == 0x40_0000int, d >= 0;
}

/// n = a*B^3 + b2*B^2 + low (low < B^2), a = c1^3 + r1, r1*B + b2 = q*(3 c1^2) + u, c = c1*B + q:
///   n - c^3 == u*B^2 + low - (3 c1 B + q) * q^2   and   n < (c+1)^3
pub proof fn lemma_br_cb128_identity(n: int, a: int, b2: int, low: int, c1: int, r1: int, q: int, u: int, c: int)
    requires n == a * 0x4_0000_0000_0000_0000 + b2 * 0x1000_0000_0000 + low, 0 <= low < 0x1000_0000_0000, a == br_cube(c1) + r1,
        r1 * 0x40_0000 + b2 == q * (3 * (c1 * c1)) + u, 0 <= u < 3 * (c1 * c1), q >= 0, c1 >= 0, c == c1 * 0x40_0000 + q,
    ensures n - br_cube(c) == u * 0x1000_0000_0000 + low - (3 * c1 * 0x40_0000 + q) * (q * q), n < br_cube(c + 1), c >= 0,
        (3 * c1 * 0x40_0000 + q) * (q * q) >= 0,
{
    let bb = 0x40_0000int;
    let c3 = br_cube(c);
    let b2_ = bb * bb; let b3_ = bb * bb * bb;
    assert(b2_ == 0x1000_0000_0000 && b3_ == 0x4_0000_0000_0000_0000) by (nonlinear_arith) requires bb == 0x40_0000int, b2_ == bb * bb, b3_ == bb * bb * bb;
    let x = c1 * bb;
    assert(c == x + q);
    assert(c3 == x * x * x + 3 * (x * x) * q + 3 * x * (q * q) + q * q * q) by (nonlinear_arith) requires c == x + q, c3 == c * c * c;
    assert(x * x == (c1 * c1) * b2_) by (nonlinear_arith) requires x == c1 * bb, b2_ == bb * bb;
    assert(x * x * x == (c1 * c1 * c1) * b3_) by (nonlinear_arith) requires x == c1 * bb, b3_ == bb * bb * bb;
    assert(3 * (x * x) * q == (q * (3 * (c1 * c1))) * b2_) by (nonlinear_arith) requires x * x == (c1 * c1) * b2_;
    assert(3 * x * (q * q) + q * q * q == (3 * c1 * bb + q) * (q * q)) by (nonlinear_arith) requires x == c1 * bb;
    assert(c3 == (c1 * c1 * c1) * b3_ + (q * (3 * (c1 * c1))) * b2_ + (3 * c1 * bb + q) * (q * q));
    assert((c1 * c1 * c1 + r1) * b3_ == (c1 * c1 * c1) * b3_ + (r1 * bb) * b2_) by (nonlinear_arith) requires b3_ == bb * bb * bb, b2_ == bb * bb;
    assert((r1 * bb + b2) * b2_ == (r1 * bb) * b2_ + b2 * b2_) by (nonlinear_arith);
    assert((q * (3 * (c1 * c1)) + u) * b2_ == (q * (3 * (c1 * c1))) * b2_ + u * b2_) by (nonlinear_arith);
    let t2 = (3 * c1 * bb + q) * (q * q);
    assert(t2 >= 0) by (nonlinear_arith) requires c1 >= 0, q >= 0, bb == 0x40_0000int, t2 == (3 * c1 * bb + q) * (q * q);
    assert(n - c3 == u * b2_ + low - t2);
    // n - c^3 < (u + 1) B^2 <= 3 c1^2 B^2 <= 3 c^2 < (c+1)^3 - c^3
    assert((u + 1) * b2_ <= (3 * (c1 * c1)) * b2_) by (nonlinear_arith) requires u + 1 <= 3 * (c1 * c1), b2_ >= 0;
    assert(x >= 0) by (nonlinear_arith) requires x == c1 * bb, c1 >= 0, bb >= 0;
    assert(c * c >= x * x) by (nonlinear_arith) requires c == x + q, x >= 0, q >= 0;
    assert((3 * (c1 * c1)) * b2_ == 3 * (x * x)) by (nonlinear_arith) requires x * x == (c1 * c1) * b2_;
    assert((u + 1) * b2_ == u * b2_ + b2_) by (nonlinear_arith);
    lemma_br_cube_succ(c);
}

/// one turn of the final adjustment loop: r == n - c^3 < 0  ==>  c >= 1 and the step keeps r == n - c^3
pub proof fn lemma_br_cb128_adjust(n: int, c: int, r: int)
    requires r == n - br_cube(c), r < 0, n >= 0, c >= 0,
    ensures c >= 1, r + (3 * (c - 1) * c + 1) == n - br_cube(c - 1), n < br_cube((c - 1) + 1),
{
    if c == 0 { assert(br_cube(0) == 0) by (compute); }
    lemma_br_cube_succ(c);
}
