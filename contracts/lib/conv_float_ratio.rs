// ---- conv_float_ratio.rs: lemmas for rational inputs x = xn/xd (rescaling, the two-stage lemma, value equality,
// overflow / underflow, quotient range from bit lengths).  Needs conv_float.rs.
// ------------------------------------------------------------------------------------------------
// two-stage rounding whose second stage is exact (rational -> float: integer quotient, then `encode`)

/// sign(k * u) == sign(k) for u > 0
pub proof fn lemma_sgn_scale(k: int, u: int)
    requires u > 0
    ensures sgn3(k * u) == sgn3(k)
{
    assert(k > 0 ==> k * u > 0) by (nonlinear_arith) requires u > 0;
    assert(k < 0 ==> k * u < 0) by (nonlinear_arith) requires u > 0;
    assert(k == 0 ==> k * u == 0) by (nonlinear_arith);
}

/// x = xn/xd rescaled by 2^-e:  x / 2^e = rs_num / rs_den
pub open spec fn rs_num(xn: int, e: int) -> int { if e >= 0 { xn } else { xn * pow2((-e) as nat) } }
pub open spec fn rs_den(xd: int, e: int) -> int { if e >= 0 { xd * pow2(e as nat) } else { xd } }

/// comparing x with M * 2^Q (Q >= e) is comparing x / 2^e with M * 2^(Q-e)
pub proof fn lemma_cmp_rescale(xn: int, xd: int, e: int, M: int, Q: int)
    requires xd > 0, Q >= e
    ensures cmp_q(xn, xd, M, Q) == sgn3(rs_num(xn, e) - M * pow2((Q - e) as nat) * rs_den(xd, e))
{
    let d = (Q - e) as nat;
    let pd = pow2(d) as int;
    lemma_pow2_pos(d);
    if e >= 0 {
        // Q >= e >= 0: 2^Q = 2^d * 2^e
        let pe = pow2(e as nat) as int;
        lemma_pow2_pos(e as nat);
        lemma_pow2_adds(d, e as nat);
        assert(d + e as nat == Q as nat);
        let pq = pow2(Q as nat) as int;
        assert(M * pq * xd == M * pd * (xd * pe)) by (nonlinear_arith) requires pq == pd * pe;
    } else if Q >= 0 {
        // e < 0 <= Q: 2^d = 2^Q * 2^-e
        let pne = pow2((-e) as nat) as int;
        let pq = pow2(Q as nat) as int;
        lemma_pow2_pos((-e) as nat);
        lemma_pow2_adds(Q as nat, (-e) as nat);
        assert(Q as nat + (-e) as nat == d);
        let k = xn - M * pq * xd;
        lemma_sgn_scale(k, pne);
        assert(k * pne == xn * pne - M * pd * xd) by (nonlinear_arith) requires k == xn - M * pq * xd, pd == pq * pne;
    } else {
        // e <= Q < 0: 2^-e = 2^d * 2^-Q
        let pne = pow2((-e) as nat) as int;
        let pnq = pow2((-Q) as nat) as int;
        lemma_pow2_pos((-Q) as nat);
        lemma_pow2_adds(d, (-Q) as nat);
        assert(d + (-Q) as nat == (-e) as nat);
        let k = xn * pnq - M * xd;
        lemma_sgn_scale(k, pd);
        assert(k * pd == xn * pne - M * pd * xd) by (nonlinear_arith) requires k == xn * pnq - M * xd, pne == pd * pnq;
    }
}

/// the same for the exact value a * 2^e, in both directions
pub proof fn lemma_cmp_scaled_int(a: int, e: int, M: int, Q: int)
    ensures cmp_q(sc_num(a, e), sc_den(e), M, Q)
        == (if Q >= e { sgn3(a - M * pow2((Q - e) as nat)) } else { sgn3(a * pow2((e - Q) as nat) - M) })
{
    let xn = sc_num(a, e);
    let xd = sc_den(e);
    if e >= 0 { lemma_pow2_pos(e as nat); } else { lemma_pow2_pos((-e) as nat); }
    if Q >= e {
        lemma_cmp_rescale(xn, xd, e, M, Q);
        let d = (Q - e) as nat;
        let pd = pow2(d) as int;
        let u = if e >= 0 { pow2(e as nat) as int } else { pow2((-e) as nat) as int };
        // rs_num = a * u, rs_den = u
        assert(rs_num(xn, e) == a * u);
        assert(rs_den(xd, e) == u) by {
            assert(1 * u == u);
        }
        let k = a - M * pd;
        lemma_sgn_scale(k, u);
        assert(k * u == a * u - M * pd * u) by (nonlinear_arith) requires k == a - M * pd;
    } else {
        let d = (e - Q) as nat;
        let pd = pow2(d) as int;
        lemma_pow2_pos(d);
        let k = a * pd - M;
        if Q >= 0 {
            // e > Q >= 0: 2^e = 2^d * 2^Q;  cmp = sgn(a*2^e - M*2^Q*1)
            let pq = pow2(Q as nat) as int;
            let pe = pow2(e as nat) as int;
            lemma_pow2_pos(Q as nat);
            lemma_pow2_adds(d, Q as nat);
            assert(d + Q as nat == e as nat);
            lemma_sgn_scale(k, pq);
            assert(k * pq == a * pe - M * pq * 1) by (nonlinear_arith) requires k == a * pd - M, pe == pd * pq;
        } else if e >= 0 {
            // e >= 0 > Q: cmp = sgn(a*2^e*2^-Q - M*1), 2^d = 2^e * 2^-Q
            let pe = pow2(e as nat) as int;
            let pnq = pow2((-Q) as nat) as int;
            lemma_pow2_adds(e as nat, (-Q) as nat);
            assert(e as nat + (-Q) as nat == d);
            assert(a * pe * pnq - M * 1 == k) by (nonlinear_arith) requires k == a * pd - M, pd == pe * pnq;
        } else {
            // 0 > e > Q: cmp = sgn(a*2^-Q - M*2^-e), 2^-Q = 2^d * 2^-e
            let pne = pow2((-e) as nat) as int;
            let pnq = pow2((-Q) as nat) as int;
            lemma_pow2_pos((-e) as nat);
            lemma_pow2_adds(d, (-e) as nat);
            assert(d + (-e) as nat == (-Q) as nat);
            lemma_sgn_scale(k, pne);
            assert(k * pne == a * pnq - M * pne) by (nonlinear_arith) requires k == a * pd - M, pnq == pd * pne;
        }
    }
}

/// "a is the round-to-nearest-even integer of N/D (D > 0)"
pub open spec fn rne_int(N: int, D: int, a: int) -> bool {
    let t = 2 * N - 2 * a * D;       // 2D * (N/D - a)
    -D <= t <= D && ((t == D || t == -D) ==> a % 2 == 0)
}

/// comparing x with M * 2^(Q-1) is comparing 2x with M * 2^Q
pub proof fn lemma_cmp_halve(xn: int, xd: int, M: int, Q: int)
    ensures cmp_q(xn, xd, M, Q - 1) == cmp_q(2 * xn, xd, M, Q)
{
    if Q - 1 >= 0 {
        let ph = pow2((Q - 1) as nat) as int;
        lemma_pow2_succ((Q - 1) as nat);
        assert((Q - 1) as nat + 1 == Q as nat);
        let pq = pow2(Q as nat) as int;
        assert(pq == 2 * ph);
        let k = xn - M * ph * xd;
        lemma_sgn_scale(k, 2);
        assert(k * 2 == 2 * xn - M * pq * xd) by (nonlinear_arith) requires k == xn - M * ph * xd, pq == 2 * ph;
        assert(cmp_q(xn, xd, M, Q - 1) == sgn3(k));
        assert(cmp_q(2 * xn, xd, M, Q) == sgn3(2 * xn - M * pq * xd));
    } else if Q == 0 {
        lemma2_to64();
        assert(M * 1 * xd == M * xd) by (nonlinear_arith);
        assert(pow2((-(Q - 1)) as nat) == 2);
        assert(cmp_q(xn, xd, M, Q - 1) == sgn3(xn * 2 - M * xd));
        assert(cmp_q(2 * xn, xd, M, Q) == sgn3(2 * xn - M * 1 * xd));
    } else {
        let pn = pow2((-Q) as nat) as int;
        lemma_pow2_succ((-Q) as nat);
        assert((-(Q - 1)) as nat == (-Q) as nat + 1);
        let pn1 = pow2((-(Q - 1)) as nat) as int;
        assert(pn1 == 2 * pn);
        assert(xn * pn1 == 2 * xn * pn) by (nonlinear_arith) requires pn1 == 2 * pn;
        assert(cmp_q(xn, xd, M, Q - 1) == sgn3(xn * pn1 - M * xd));
        assert(cmp_q(2 * xn, xd, M, Q) == sgn3(2 * xn * pn - M * xd));
    }
}

/// THE TWO-STAGE LEMMA.  x = xn/xd > 0; x / 2^e = N/D has at least p+1 integer bits (N/D >= 2^p); a is the
/// nearest-even integer of N/D; the second stage is exact: a * 2^e is the float r.  Then r is the correct RNE
/// rounding of x itself, exact iff N/D == a, with the error sign of a - N/D.
pub proof fn lemma_two_stage(f: Fmt, neg: bool, xn: int, xd: int, e: int, a: int, r: Fields, ep: bool)
    requires
        xd > 0, xn > 0, f.p >= 1,
        fields_wf(f, r),
        rs_num(xn, e) >= pow2(f.p) * rs_den(xd, e),
        rne_int(rs_num(xn, e), rs_den(xd, e), a),
        rne_ok(f, neg, sc_num(a, e), sc_den(e), r, true, ep),
    ensures
        rne_ok(f, neg, xn, xd, r, 2 * rs_num(xn, e) - 2 * a * rs_den(xd, e) == 0,
               (2 * rs_num(xn, e) - 2 * a * rs_den(xd, e) < 0) != neg),
{
    let N = rs_num(xn, e);
    let D = rs_den(xd, e);
    let P = pow2(f.p) as int;
    let aD = a * D;
    let t = 2 * N - 2 * aD;
    assert(2 * a * D == 2 * aD) by (nonlinear_arith) requires aD == a * D;
    lemma_pow2_pos(f.p);
    lemma_pow2_succ(f.p);
    if e >= 0 { lemma_pow2_pos(e as nat); } else { lemma_pow2_pos((-e) as nat); }
    assert(D > 0) by (nonlinear_arith) requires D == rs_den(xd, e), xd > 0, (e >= 0 ==> pow2(e as nat) > 0),
        D == (if e >= 0 { xd * pow2(e as nat) } else { xd });
    let PD = P * D;
    assert(PD >= D) by (nonlinear_arith) requires PD == P * D, P >= 1, D > 0;
    // a >= 2^p
    assert(a >= P) by (nonlinear_arith) requires aD == a * D, PD == P * D, 2 * aD >= 2 * PD - D, D > 0;
    assert(a > 0);
    // the exact second stage: finite candidate with m * 2^q == a * 2^e
    let yn = sc_num(a, e);
    let yd = sc_den(e);
    assert(yn != 0) by {
        if e >= 0 {
            let pe = pow2(e as nat) as int;
            assert(a * pe > 0) by (nonlinear_arith) requires a > 0, pe > 0;
        }
    }
    assert(r.sbit == neg && r.eb != f.emaxb);
    let m = if r.eb == 0 { r.frac } else { r.frac + P };
    let q = (if r.eb == 0 { 1 } else { r.eb }) - f.bias - f.p;
    assert(0 <= m < 2 * P);
    assert(cmp_q(yn, yd, m, q) == 0);
    lemma_cmp_scaled_int(a, e, m, q);
    if q < e {
        let pd = pow2((e - q) as nat) as int;
        lemma_pow2_mono(1, (e - q) as nat);
        lemma2_to64();
        assert(a * pd >= 2 * a) by (nonlinear_arith) requires a > 0, pd >= 2;
        assert(false);
    }
    let d = (q - e) as nat;
    let pd = pow2(d) as int;
    lemma_pow2_pos(d);
    assert(a == m * pd);
    let pdD = pd * D;
    assert(pdD >= D) by (nonlinear_arith) requires pdD == pd * D, pd >= 1, D > 0;
    assert(d == 0 ==> pdD == D) by { lemma2_to64(); assert(1 * D == D); }
    assert(m * pd * D == aD) by (nonlinear_arith) requires a == m * pd, aD == a * D;
    // c = sign(x - y) = sign(N - a*D)
    lemma_cmp_rescale(xn, xd, e, m, q);
    let c = cmp_q(xn, xd, m, q);
    assert(c == sgn3(N - aD));
    assert(xn != 0);
    if t == 0 {
        assert(c == 0);
    } else if t > 0 {
        assert(c > 0);
        // upper midpoint (2m+1) * 2^(q-1):  sign(2N - (2m+1) * 2^d * D) = sign(t - 2^d * D)
        lemma_cmp_halve(xn, xd, 2 * m + 1, q);
        lemma_cmp_rescale(2 * xn, xd, e, 2 * m + 1, q);
        assert(rs_num(2 * xn, e) == 2 * N) by (nonlinear_arith)
            requires N == rs_num(xn, e), rs_num(2 * xn, e) == (if e >= 0 { 2 * xn } else { 2 * xn * pow2((-e) as nat) }),
                N == (if e >= 0 { xn } else { xn * pow2((-e) as nat) });
        assert((2 * m + 1) * pd * D == 2 * aD + pdD) by (nonlinear_arith)
            requires m * pd * D == aD, pdD == pd * D;
        let tu = cmp_q(xn, xd, 2 * m + 1, q - 1);
        assert(tu == sgn3(t - pdD));
        if tu == 0 {
            // t == D == 2^d * D: tie and d == 0, so m == a is even
            assert(pdD == D);
            assert(d == 0) by {
                if d >= 1 {
                    lemma_pow2_mono(1, d);
                    lemma2_to64();
                    assert(pdD >= 2 * D) by (nonlinear_arith) requires pdD == pd * D, pd >= 2, D > 0;
                }
            }
            lemma2_to64();
            assert(m * 1 == m);
        }
    } else {
        assert(c < 0);
        if r.eb > 1 && r.frac == 0 {
            // bottom of a binade: m == 2^p, lower midpoint (4m-1) * 2^(q-2): sign(4N - (4m-1) * 2^d * D) = sign(2t + 2^d * D)
            lemma_cmp_halve(xn, xd, 4 * m - 1, q - 1);
            lemma_cmp_halve(2 * xn, xd, 4 * m - 1, q);
            lemma_cmp_rescale(4 * xn, xd, e, 4 * m - 1, q);
            assert(2 * (2 * xn) == 4 * xn);
            assert(rs_num(4 * xn, e) == 4 * N) by (nonlinear_arith)
                requires N == (if e >= 0 { xn } else { xn * pow2((-e) as nat) }),
                    rs_num(4 * xn, e) == (if e >= 0 { 4 * xn } else { 4 * xn * pow2((-e) as nat) });
            assert((4 * m - 1) * pd * D == 4 * aD - pdD) by (nonlinear_arith)
                requires m * pd * D == aD, pdD == pd * D;
            let tl = cmp_q(xn, xd, 4 * m - 1, q - 2);
            assert(tl == sgn3(2 * t + pdD));
            // d == 0 is impossible here: a == 2^p, N >= 2^p * D = a * D contradicts t < 0
            if d == 0 {
                lemma2_to64();
                assert(m * 1 == m);
                assert(aD == PD);
                assert(false);
            }
            lemma_pow2_mono(1, d);
            lemma2_to64();
            assert(pdD >= 2 * D) by (nonlinear_arith) requires pdD == pd * D, pd >= 2, D > 0;
            assert(tl >= 0);
            // m == 2^p is even (p >= 1)
            lemma_pow2_succ((f.p - 1) as nat);
            assert(m % 2 == 0);
        } else {
            // lower midpoint (2m-1) * 2^(q-1):  sign(2N - (2m-1) * 2^d * D) = sign(t + 2^d * D)
            lemma_cmp_halve(xn, xd, 2 * m - 1, q);
            lemma_cmp_rescale(2 * xn, xd, e, 2 * m - 1, q);
            assert(rs_num(2 * xn, e) == 2 * N) by (nonlinear_arith)
                requires N == (if e >= 0 { xn } else { xn * pow2((-e) as nat) }),
                    rs_num(2 * xn, e) == (if e >= 0 { 2 * xn } else { 2 * xn * pow2((-e) as nat) });
            assert((2 * m - 1) * pd * D == 2 * aD - pdD) by (nonlinear_arith)
                requires m * pd * D == aD, pdD == pd * D;
            let tl = cmp_q(xn, xd, 2 * m - 1, q - 1);
            assert(tl == sgn3(t + pdD));
            if tl == 0 {
                assert(pdD == D);
                assert(d == 0) by {
                    if d >= 1 {
                        lemma_pow2_mono(1, d);
                        lemma2_to64();
                        assert(pdD >= 2 * D) by (nonlinear_arith) requires pdD == pd * D, pd >= 2, D > 0;
                    }
                }
                lemma2_to64();
                assert(m * 1 == m);
            }
        }
    }
}

// ------------------------------------------------------------------------------------------------
// rational inputs: value equality, overflow / underflow on x = xn/xd, quotient range from bit lengths

/// cmp_q depends on xn/xd only
pub proof fn lemma_cmp_same_value(xn: int, xd: int, yn: int, yd: int, M: int, Q: int)
    requires xd > 0, yd > 0, xn * yd == yn * xd
    ensures cmp_q(xn, xd, M, Q) == cmp_q(yn, yd, M, Q)
{
    if Q >= 0 {
        let g = M * pow2(Q as nat);
        let kx = xn - g * xd;
        let ky = yn - g * yd;
        // kx * yd == ky * xd
        assert(kx * yd == ky * xd) by (nonlinear_arith) requires kx == xn - g * xd, ky == yn - g * yd, xn * yd == yn * xd;
        lemma_sgn_scale(kx, yd);
        lemma_sgn_scale(ky, xd);
    } else {
        let g = pow2((-Q) as nat) as int;
        let kx = xn * g - M * xd;
        let ky = yn * g - M * yd;
        assert(kx * yd == ky * xd) by (nonlinear_arith) requires kx == xn * g - M * xd, ky == yn * g - M * yd, xn * yd == yn * xd;
        lemma_sgn_scale(kx, yd);
        lemma_sgn_scale(ky, xd);
    }
}
/// ... and so does rne_ok
pub proof fn lemma_rne_same_value(f: Fmt, neg: bool, xn: int, xd: int, yn: int, yd: int, r: Fields, exact: bool, ep: bool)
    requires xd > 0, yd > 0, xn * yd == yn * xd, rne_ok(f, neg, xn, xd, r, exact, ep)
    ensures rne_ok(f, neg, yn, yd, r, exact, ep)
{
    let P = pow2(f.p) as int;
    let q_top = f.emaxb - 1 - f.bias - f.p;
    assert(xn == 0 <==> yn == 0) by (nonlinear_arith) requires xd > 0, yd > 0, xn * yd == yn * xd;
    let m = if r.eb == 0 { r.frac } else { r.frac + P };
    let q = (if r.eb == 0 { 1 } else { r.eb }) - f.bias - f.p;
    lemma_cmp_same_value(xn, xd, yn, yd, 4 * P - 1, q_top - 1);
    lemma_cmp_same_value(xn, xd, yn, yd, m, q);
    lemma_cmp_same_value(xn, xd, yn, yd, 2 * m + 1, q - 1);
    lemma_cmp_same_value(xn, xd, yn, yd, 2 * m - 1, q - 1);
    lemma_cmp_same_value(xn, xd, yn, yd, 4 * m - 1, q - 2);
}

/// x = xn/xd >= 2^(emax+1): infinity (cf. lemma_overflow)
pub proof fn lemma_overflow_q(f: Fmt, neg: bool, xn: int, xd: int, e: nat)
    requires
        e == f.emaxb - f.bias, f.emaxb - 1 - f.bias - f.p - 1 >= 0, xd > 0,
        xn >= pow2(e) * xd,
    ensures rne_ok(f, neg, xn, xd, f_inf(f, neg), false, !neg)
{
    let P = pow2(f.p) as int;
    let Q = (f.emaxb - 1 - f.bias - f.p - 1) as nat;
    let pq = pow2(Q) as int;
    let pe = pow2(e) as int;
    lemma_pow2_pos(e);
    lemma_pow2_pos(Q);
    lemma_pow2_pos(f.p);
    lemma_pow2_succ(f.p);
    lemma_pow2_succ(f.p + 1);
    lemma_pow2_adds(f.p + 2, Q);
    assert(f.p + 2 + Q == e);
    let b = (4 * P - 1) * pq;
    assert(b < pe) by (nonlinear_arith) requires b == (4 * P - 1) * pq, pe == (4 * P) * pq, pq > 0;
    assert(b * xd < pe * xd) by (nonlinear_arith) requires b < pe, xd > 0;
    assert(pe * xd > 0) by (nonlinear_arith) requires pe > 0, xd > 0;
    assert(xn > 0);
}

/// 0 < x = xn/xd <= 2^(qmin - 1) (half the smallest subnormal): zero of the right sign, error towards zero
pub proof fn lemma_underflow_q(f: Fmt, neg: bool, xn: int, xd: int)
    requires
        xn > 0, xd > 0, f.bias + f.p >= 2, f.emaxb > 0,
        xn * pow2((f.bias + f.p) as nat) <= xd,          // the tie 2^(qmin-1) itself goes to zero (even)
    ensures rne_ok(f, neg, xn, xd, f_zero(neg), false, neg)
{
    let q = 1 - f.bias - f.p;
    let pq = pow2((-q) as nat) as int;
    lemma_pow2_pos((-q) as nat);
    assert(xn * pq > 0) by (nonlinear_arith) requires xn > 0, pq > 0;
    assert(0 * xd == 0);
    assert((-(q - 1)) as nat == (f.bias + f.p) as nat);
    assert(1 * xd == xd);
    assert(2 * 0 + 1 == 1);
}

/// bit lengths nb, db of numerator and denominator, e = nb - db - (p+1):  2^p <= (xn/xd) / 2^e < 2^(p+2)
pub proof fn lemma_quot_bounds(xn: int, xd: int, nb: nat, db: nat, p: nat, e: int)
    requires
        nb >= 1, db >= 1, pow2((nb - 1) as nat) <= xn < pow2(nb), pow2((db - 1) as nat) <= xd < pow2(db),
        e == nb - db - (p + 1),
    ensures
        rs_den(xd, e) > 0,
        pow2(p) * rs_den(xd, e) <= rs_num(xn, e),
        rs_num(xn, e) < pow2(p + 2) * rs_den(xd, e),
{
    let pp = pow2(p) as int;
    let pp2 = pow2(p + 2) as int;
    lemma_pow2_pos(p);
    lemma_pow2_pos((nb - 1) as nat);
    lemma_pow2_pos((db - 1) as nat);
    lemma_pow2_succ((nb - 1) as nat);
    lemma_pow2_succ((db - 1) as nat);
    assert((nb - 1) as nat + 1 == nb && (db - 1) as nat + 1 == db);
    if e >= 0 {
        // N = xn, D = xd * 2^e;   2^p * 2^db * 2^e == 2^(nb-1),  2^(p+2) * 2^(db-1) * 2^e == 2^nb
        let pe = pow2(e as nat) as int;
        let D = xd * pe;
        lemma_pow2_pos(e as nat);
        lemma_pow2_adds(p, db);
        lemma_pow2_adds(p + db, e as nat);
        assert(p + db + e as nat == (nb - 1) as nat);
        lemma_pow2_adds(p + 2, (db - 1) as nat);
        lemma_pow2_adds(p + 2 + (db - 1) as nat, e as nat);
        assert(p + 2 + (db - 1) as nat + e as nat == nb);
        let pdb = pow2(db) as int;
        let pdb1 = pow2((db - 1) as nat) as int;
        assert(D > 0) by (nonlinear_arith) requires D == xd * pe, xd > 0, pe > 0;
        assert(pp * D <= pp * pdb * pe) by (nonlinear_arith) requires D == xd * pe, xd < pdb, pe > 0, pp > 0;
        assert(pp2 * D >= pp2 * pdb1 * pe) by (nonlinear_arith) requires D == xd * pe, xd >= pdb1, pe > 0, pp2 >= 0;
        lemma_pow2_pos(p + 2);
    } else {
        // N = xn * 2^-e, D = xd;   2^(nb-1) * 2^-e == 2^p * 2^db,  2^nb * 2^-e == 2^(p+2) * 2^(db-1)
        let pne = pow2((-e) as nat) as int;
        let N = xn * pne;
        lemma_pow2_pos((-e) as nat);
        lemma_pow2_adds((nb - 1) as nat, (-e) as nat);
        lemma_pow2_adds(p, db);
        assert((nb - 1) as nat + (-e) as nat == p + db);
        lemma_pow2_adds(nb, (-e) as nat);
        lemma_pow2_adds(p + 2, (db - 1) as nat);
        assert(nb + (-e) as nat == p + 2 + (db - 1) as nat);
        let pnb1 = pow2((nb - 1) as nat) as int;
        let pnb = pow2(nb) as int;
        let pdb = pow2(db) as int;
        let pdb1 = pow2((db - 1) as nat) as int;
        lemma_pow2_pos(p + 2);
        assert(N >= pnb1 * pne) by (nonlinear_arith) requires N == xn * pne, xn >= pnb1, pne > 0;
        assert(N < pnb * pne) by (nonlinear_arith) requires N == xn * pne, xn < pnb, pne > 0;
        assert(pp * xd <= pp * pdb) by (nonlinear_arith) requires xd < pdb, pp > 0;
        assert(pp2 * xd >= pp2 * pdb1) by (nonlinear_arith) requires xd >= pdb1, pp2 > 0;
    }
}

/// x / 2^e = N/D <= 2^k with e + k <= qmin - 1 (e < 0): x <= half the smallest subnormal, the result is zero
pub proof fn lemma_underflow_from_quot(f: Fmt, neg: bool, xn: int, xd: int, e: int, k: nat)
    requires
        xn > 0, xd > 0, f.bias + f.p >= 2, f.emaxb > 0,
        e < 0, e + k <= -(f.bias + f.p),
        rs_num(xn, e) <= pow2(k) * rs_den(xd, e),
    ensures rne_ok(f, neg, xn, xd, f_zero(neg), false, neg)
{
    let b = (f.bias + f.p) as nat;
    let u = ((-e) - k - b) as nat;        // 2^-e = 2^b * 2^k * 2^u
    let pb = pow2(b) as int;
    let pk = pow2(k) as int;
    let pu = pow2(u) as int;
    let pne = pow2((-e) as nat) as int;
    lemma_pow2_pos(b); lemma_pow2_pos(k); lemma_pow2_pos(u);
    lemma_pow2_adds(b, k);
    lemma_pow2_adds(b + k, u);
    assert(b + k + u == (-e) as nat);
    let A = xn * pb;
    // A * pk * pu == xn * pne <= pk * xd  ==>  A <= xd
    assert(A * (pk * pu) == xn * pne) by (nonlinear_arith) requires A == xn * pb, pne == pb * pk * pu;
    let g = pk * pu;
    assert(g >= pk) by (nonlinear_arith) requires g == pk * pu, pu >= 1, pk > 0;
    assert(A * g <= pk * xd);
    assert(A >= 0) by (nonlinear_arith) requires A == xn * pb, xn > 0, pb > 0;
    assert(A <= xd) by (nonlinear_arith) requires A * g <= pk * xd, g >= pk, pk > 0, xd > 0, A >= 0;
    lemma_underflow_q(f, neg, xn, xd);
}

/// N == a * D at scale e means xn/xd == a * 2^e
pub proof fn lemma_value_from_quot(xn: int, xd: int, e: int, a: int)
    requires xd > 0, rs_num(xn, e) == a * rs_den(xd, e)
    ensures sc_num(a, e) * xd == xn * sc_den(e), sc_den(e) > 0
{
    if e >= 0 {
        let pe = pow2(e as nat) as int;
        lemma_pow2_pos(e as nat);
        assert(a * (xd * pe) == (a * pe) * xd) by (nonlinear_arith);
    } else {
        lemma_pow2_pos((-e) as nat);
    }
}

/// the integer the rational code rounds the quotient N/D to (nearest, ties to even), and that it is `rne_int`
pub open spec fn rq_man(N: int, D: int) -> int {
    let q = N / D;
    let r = N % D;
    if 2 * r > D || (2 * r == D && q % 2 != 0) { q + 1 } else { q }
}
pub proof fn lemma_rq_man(N: int, D: int)
    requires D > 0, N >= 0
    ensures rne_int(N, D, rq_man(N, D)),
        N % D == 0 ==> N == rq_man(N, D) * D,
        N % D != 0 ==> 2 * N - 2 * rq_man(N, D) * D != 0,
        (2 * N - 2 * rq_man(N, D) * D < 0) == (rq_man(N, D) == N / D + 1),
        0 <= N % D < D, N == D * (N / D) + N % D,
{
    let q = N / D;
    let r = N % D;
    vstd::arithmetic::div_mod::lemma_fundamental_div_mod(N, D);
    vstd::arithmetic::div_mod::lemma_mod_bound(N, D);
    let a = rq_man(N, D);
    let qD = q * D;
    assert(D * q == qD) by (nonlinear_arith) requires qD == q * D;
    assert((q + 1) * D == qD + D) by (nonlinear_arith) requires qD == q * D;
    assert(2 * a * D == 2 * (a * D)) by (nonlinear_arith);
}

/// "r is an INEXACT RNE rounding of (-1)^neg * a * 2^e"
pub open spec fn enc_inexact_w(f: Fmt, neg: bool, a: int, e: int, r: Fields, ep: bool) -> bool {
    rne_ok(f, neg, sc_num(a, e), sc_den(e), r, false, ep)
}
/// "encode(a, e) loses something": a * 2^e is not representable
pub open spec fn enc_inexact(f: Fmt, neg: bool, a: int, e: int) -> bool {
    exists|r: Fields, ep: bool| #[trigger] enc_inexact_w(f, neg, a, e, r, ep)
}

/// The last step of `Repr::to_f32 / to_f64` (rational/src/convert.rs) in one lemma.  N/D = x / 2^e with N/D >= 2^p,
/// a = the nearest-even integer of N/D, `fr` the float that came back with flags (ret_exact, ret_pos):
///  - remainder zero: the float is `encode(a, e)` with encode's own flags;
///  - remainder non-zero: the result is flagged inexact, and either encode was exact (then the flag is the direction of
///    the integer rounding) or encode was inexact too and its flag was passed on -- which the caller excludes
///    (`enc_inexact`: the double-rounding region).
/// Then `fr` with these flags is the correct RNE rounding of x itself.
pub proof fn lemma_ratio_final(f: Fmt, neg: bool, xn: int, xd: int, e: int, fr: Fields, ret_exact: bool, ret_pos: bool)
    requires
        xn > 0, xd > 0, f.p >= 1, fields_wf(f, fr),
        rs_den(xd, e) > 0,
        rs_num(xn, e) >= pow2(f.p) * rs_den(xd, e),
        ({
            let n = rs_num(xn, e);
            let d = rs_den(xd, e);
            let a = rq_man(n, d);
            &&& n % d == 0 ==> rne_ok(f, neg, sc_num(a, e), sc_den(e), fr, ret_exact, ret_pos)
            &&& n % d != 0 ==> !ret_exact && (
                    (rne_ok(f, neg, sc_num(a, e), sc_den(e), fr, true, false) && ret_pos == ((a == n / d + 1) != neg))
                    || rne_ok(f, neg, sc_num(a, e), sc_den(e), fr, false, ret_pos))
            &&& !(n % d != 0 && enc_inexact(f, neg, a, e))
        }),
    ensures
        rne_ok(f, neg, xn, xd, fr, ret_exact, ret_pos),
{
    let n = rs_num(xn, e);
    let d = rs_den(xd, e);
    let a = rq_man(n, d);
    if e >= 0 { lemma_pow2_pos(e as nat); } else { lemma_pow2_pos((-e) as nat); }
    assert(n >= 0) by (nonlinear_arith) requires n == (if e >= 0 { xn } else { xn * pow2((-e) as nat) }), xn > 0, (e < 0 ==> pow2((-e) as nat) > 0);
    lemma_rq_man(n, d);
    if n % d == 0 {
        // single rounding of the exact quotient a * 2^e == x
        lemma_value_from_quot(xn, xd, e, a);
        lemma_rne_same_value(f, neg, sc_num(a, e), sc_den(e), xn, xd, fr, ret_exact, ret_pos);
    } else {
        if rne_ok(f, neg, sc_num(a, e), sc_den(e), fr, false, ret_pos) {
            assert(enc_inexact_w(f, neg, a, e, fr, ret_pos));       // the excluded region
            assert(false);
        }
        lemma_two_stage(f, neg, xn, xd, e, a, fr, false);
    }
}

/// the few concrete powers of two the rational conversions need (keeps the 64 equations of lemma2_to64 out of the
/// function bodies)
pub proof fn lemma_pow2_consts()
    ensures pow2(0) == 1, pow2(1) == 2, pow2(23) == 0x800000, pow2(25) == 0x2000000, pow2(27) == 0x8000000,
        pow2(52) == 0x10000000000000, pow2(53) == 0x20000000000000, pow2(54) == 0x40000000000000,
        pow2(56) == 0x100000000000000,
{
    lemma2_to64();
    lemma2_to64_rest();
}
/// the floor quotient of N/D lies in [0, 2^k) when 0 <= N < 2^k * D
pub proof fn lemma_quot_fits(n: int, d: int, k: nat)
    requires d > 0, 0 <= n < pow2(k) * d
    ensures 0 <= n / d < pow2(k), n / d * d <= n, n % d == n - (n / d) * d, 0 <= n % d < d
{
    let q = n / d;
    let pk = pow2(k) as int;
    vstd::arithmetic::div_mod::lemma_fundamental_div_mod(n, d);
    vstd::arithmetic::div_mod::lemma_mod_bound(n, d);
    let qd = q * d;
    assert(d * q == qd) by (nonlinear_arith) requires qd == q * d;
    assert(q < pk) by (nonlinear_arith) requires qd == q * d, qd <= n, n < pk * d, d > 0;
    assert(q >= 0) by (nonlinear_arith) requires qd == q * d, qd + d > n, n >= 0, d > 0;
}
/// overflow branch of the rational conversions: e >= emax + 1 and N/D >= 2^p  ==>  x >= 2^(emax+1): infinity
pub proof fn lemma_ratio_overflow(f: Fmt, neg: bool, xn: int, xd: int, e: int)
    requires
        xd > 0, e >= f.emaxb - f.bias, f.emaxb - f.bias >= 0, f.emaxb - 1 - f.bias - f.p - 1 >= 0,
        rs_num(xn, e) >= pow2(f.p) * rs_den(xd, e),
    ensures rne_ok(f, neg, xn, xd, f_inf(f, neg), false, !neg)
{
    let top = (f.emaxb - f.bias) as nat;
    let pe = pow2(e as nat) as int;
    let pp = pow2(f.p) as int;
    let pt = pow2(top) as int;
    lemma_pow2_pos(f.p);
    lemma_pow2_pos(top);
    lemma_pow2_mono(top, e as nat);
    // xn >= 2^p * xd * 2^e >= 2^top * xd
    let g = xd * pe;
    assert(g >= xd * pt) by (nonlinear_arith) requires g == xd * pe, pe >= pt, xd > 0;
    assert(pp * g >= g) by (nonlinear_arith) requires pp >= 1, g >= 0;
    assert(pt * xd == xd * pt) by (nonlinear_arith);
    lemma_overflow_q(f, neg, xn, xd, top);
}

/// comparing x with M * 2^Q (Q <= e) is comparing (x / 2^e) * 2^(e-Q) with M
pub proof fn lemma_cmp_rescale_down(xn: int, xd: int, e: int, M: int, Q: int)
    requires xd > 0, Q <= e
    ensures cmp_q(xn, xd, M, Q) == sgn3(rs_num(xn, e) * pow2((e - Q) as nat) - M * rs_den(xd, e))
{
    let d = (e - Q) as nat;
    let pd = pow2(d) as int;
    lemma_pow2_pos(d);
    if Q >= 0 {
        // e >= Q >= 0: 2^e = 2^d * 2^Q;  cmp = sgn(xn - M*2^Q*xd); target sgn(xn*2^d - M*xd*2^e)
        let pq = pow2(Q as nat) as int;
        let pe = pow2(e as nat) as int;
        lemma_pow2_pos(Q as nat);
        lemma_pow2_adds(d, Q as nat);
        assert(d + Q as nat == e as nat);
        let k = xn - M * pq * xd;
        lemma_sgn_scale(k, pd);
        assert(k * pd == xn * pd - M * (xd * pe)) by (nonlinear_arith) requires k == xn - M * pq * xd, pe == pd * pq;
    } else if e >= 0 {
        // e >= 0 > Q: cmp = sgn(xn*2^-Q - M*xd); 2^d = 2^e * 2^-Q; target sgn(xn*2^d - M*xd*2^e)
        let pnq = pow2((-Q) as nat) as int;
        let pe = pow2(e as nat) as int;
        lemma_pow2_pos((-Q) as nat);
        lemma_pow2_pos(e as nat);
        lemma_pow2_adds(e as nat, (-Q) as nat);
        assert(e as nat + (-Q) as nat == d);
        let k = xn * pnq - M * xd;
        lemma_sgn_scale(k, pe);
        assert(k * pe == xn * pd - M * (xd * pe)) by (nonlinear_arith) requires k == xn * pnq - M * xd, pd == pe * pnq;
    } else {
        // 0 > e >= Q: cmp = sgn(xn*2^-Q - M*xd); 2^-Q = 2^-e * 2^d; target sgn(xn*2^-e*2^d - M*xd)
        let pnq = pow2((-Q) as nat) as int;
        let pne = pow2((-e) as nat) as int;
        lemma_pow2_adds((-e) as nat, d);
        assert((-e) as nat + d == (-Q) as nat);
        assert(xn * pnq == xn * pne * pd) by (nonlinear_arith) requires pnq == pne * pd;
    }
}

// ------------------------------------------------------------------------------------------------
// single rounding through a sticky bit: x / 2^e = q + r/D (0 <= r < D), a = 2q + [r != 0], rounding a * 2^(e-1)

/// lemma_q_lower for a scaled integer: a >= 2^n1 and a * 2^e1 <= M * 2^Q with M < 2^j (or < with M <= 2^j): Q + j > n1 + e1
pub proof fn lemma_q_lower_sc(a: int, e1: int, n1: nat, M: int, j: nat, Q: int)
    requires
        a >= pow2(n1), M >= 0,
        (cmp_q(sc_num(a, e1), sc_den(e1), M, Q) <= 0 && M < pow2(j)) || (cmp_q(sc_num(a, e1), sc_den(e1), M, Q) < 0 && M <= pow2(j)),
    ensures Q + j > n1 + e1
{
    lemma_cmp_scaled_int(a, e1, M, Q);
    lemma_pow2_pos(n1);
    lemma_pow2_pos(j);
    let pj = pow2(j) as int;
    let pn = pow2(n1) as int;
    if Q >= e1 {
        let d = (Q - e1) as nat;
        let pd = pow2(d) as int;
        lemma_pow2_pos(d);
        lemma_pow2_adds(j, d);
        let b = M * pd;
        assert(b <= pj * pd) by (nonlinear_arith) requires b == M * pd, M <= pj, pd > 0;
        assert(M < pj ==> b < pj * pd) by (nonlinear_arith) requires b == M * pd, pd > 0;
        assert(pow2(n1) < pow2(j + d));
        lemma_pow2_lt_exp(n1, j + d);
    } else {
        let d = (e1 - Q) as nat;
        let pd = pow2(d) as int;
        lemma_pow2_pos(d);
        lemma_pow2_adds(n1, d);
        let g = a * pd;
        assert(g >= pn * pd) by (nonlinear_arith) requires g == a * pd, a >= pn, pd > 0;
        assert(pow2(n1 + d) < pow2(j));
        lemma_pow2_lt_exp(n1 + d, j);
    }
}

/// every breakpoint M * 2^Q with Q >= e separates x (x / 2^e = N/D = q + r/D) exactly as it separates (2q + sticky) * 2^(e-1)
pub proof fn lemma_sticky_cmp_q(xn: int, xd: int, e: int, q: int, r: int, M: int, Q: int)
    requires
        xd > 0, rs_den(xd, e) > 0, rs_num(xn, e) == q * rs_den(xd, e) + r, 0 <= r < rs_den(xd, e), Q >= e,
    ensures
        cmp_q(xn, xd, M, Q) == cmp_q(sc_num(2 * q + (if r != 0 { 1int } else { 0int }), e - 1), sc_den(e - 1), M, Q)
{
    let n = rs_num(xn, e);
    let d = rs_den(xd, e);
    let s: int = if r != 0 { 1 } else { 0 };
    let a = 2 * q + s;
    lemma_cmp_rescale(xn, xd, e, M, Q);
    lemma_cmp_scaled_int(a, e - 1, M, Q);
    let g = M * pow2((Q - e) as nat);
    lemma_pow2_succ((Q - e) as nat);
    assert((Q - (e - 1)) as nat == (Q - e) as nat + 1);
    assert(M * (2 * pow2((Q - e) as nat)) == 2 * g) by (nonlinear_arith) requires g == M * pow2((Q - e) as nat);
    let gd = g * d;
    assert(M * pow2((Q - e) as nat) * d == gd);
    let qd = q * d;
    // n - g*d == (q - g)*d + r
    if q < g {
        assert(qd <= gd - d) by (nonlinear_arith) requires qd == q * d, gd == g * d, q <= g - 1, d > 0;
    } else if q == g {
        assert(qd == gd);
    } else {
        assert(qd >= gd + d) by (nonlinear_arith) requires qd == q * d, gd == g * d, q >= g + 1, d > 0;
    }
}

/// THE STICKY LEMMA FOR QUOTIENTS.  q >= 2^(k-1) with k >= p + 3 (at least p + 3 quotient bits), a = 2q + sticky:
/// whatever is a correct RNE rounding (value, exactness, error sign) of a * 2^(e-1) is a correct RNE rounding of x.
pub proof fn lemma_sticky_rne_q(f: Fmt, neg: bool, xn: int, xd: int, e: int, q: int, r: int, k: nat, fr: Fields, exact: bool, ep: bool)
    requires
        xd > 0, xn > 0, rs_den(xd, e) > 0, rs_num(xn, e) == q * rs_den(xd, e) + r, 0 <= r < rs_den(xd, e),
        k >= f.p + 3, q >= pow2((k - 1) as nat),
        fields_wf(f, fr),
        rne_ok(f, neg, sc_num(2 * q + (if r != 0 { 1int } else { 0int }), e - 1), sc_den(e - 1), fr, exact, ep),
    ensures
        rne_ok(f, neg, xn, xd, fr, exact, ep)
{
    let s: int = if r != 0 { 1 } else { 0 };
    let a = 2 * q + s;
    let P = pow2(f.p) as int;
    let yn = sc_num(a, e - 1);
    let yd = sc_den(e - 1);
    lemma_pow2_pos((k - 1) as nat);
    lemma_pow2_succ((k - 1) as nat);
    assert((k - 1) as nat + 1 == k);
    assert(a >= pow2(k));
    lemma_pow2_pos(f.p);
    lemma_pow2_succ(f.p);
    lemma_pow2_succ(f.p + 1);
    if e - 1 >= 0 { lemma_pow2_pos((e - 1) as nat); } else { lemma_pow2_pos((-(e - 1)) as nat); }
    assert(yn != 0) by {
        if e - 1 >= 0 {
            let pe = pow2((e - 1) as nat) as int;
            assert(a * pe > 0) by (nonlinear_arith) requires a > 0, pe > 0;
        }
    }
    let q_top = f.emaxb - 1 - f.bias - f.p;
    if fr.sbit != neg {
    } else if fr.eb == f.emaxb {
        if q_top - 1 >= e {
            lemma_sticky_cmp_q(xn, xd, e, q, r, 4 * P - 1, q_top - 1);
        } else {
            // the overflow threshold lies below 2^e: x >= q * 2^e >= 2^(p+2) * 2^e is above it
            lemma_cmp_rescale_down(xn, xd, e, 4 * P - 1, q_top - 1);
            let n = rs_num(xn, e);
            let d = rs_den(xd, e);
            let u = pow2((e - (q_top - 1)) as nat) as int;
            lemma_pow2_mono(1, (e - (q_top - 1)) as nat);
            lemma2_to64();
            lemma_pow2_mono(f.p + 2, (k - 1) as nat);
            let qd = q * d;
            assert(qd >= (4 * P) * d) by (nonlinear_arith) requires qd == q * d, q >= 4 * P, d > 0;
            assert(n * u >= 2 * n) by (nonlinear_arith) requires u >= 2, n >= 0;
            assert((4 * P - 1) * d <= (4 * P) * d) by (nonlinear_arith) requires d > 0;
        }
    } else {
        let m = if fr.eb == 0 { fr.frac } else { fr.frac + P };
        let qf = (if fr.eb == 0 { 1 } else { fr.eb }) - f.bias - f.p;
        let c2 = cmp_q(yn, yd, m, qf);
        assert(0 <= m < 2 * P);
        if c2 <= 0 {
            lemma_q_lower_sc(a, e - 1, k, m, f.p + 1, qf);
        } else {
            let t2 = cmp_q(yn, yd, 2 * m + 1, qf - 1);
            assert(t2 <= 0);
            lemma_q_lower_sc(a, e - 1, k, 2 * m + 1, f.p + 2, qf - 1);
        }
        assert(qf >= e + 1);
        lemma_sticky_cmp_q(xn, xd, e, q, r, m, qf);
        lemma_sticky_cmp_q(xn, xd, e, q, r, 2 * m + 1, qf - 1);
        if c2 < 0 {
            assert(m >= 1) by {
                if m == 0 {
                    lemma_cmp_scaled_int(a, e - 1, 0, qf);
                    assert(0 * pow2((qf - (e - 1)) as nat) == 0) by (nonlinear_arith);
                }
            }
            lemma_sticky_cmp_q(xn, xd, e, q, r, 2 * m - 1, qf - 1);
            if fr.eb > 1 && fr.frac == 0 {
                lemma_q_lower_sc(a, e - 1, k, m, f.p, qf);
                assert(qf >= e + 2);
                lemma_sticky_cmp_q(xn, xd, e, q, r, 4 * m - 1, qf - 2);
            }
        }
    }
}
/// floor quotient bounds: c * D <= N < 2^k * D  ==>  c <= N / D < 2^k
pub proof fn lemma_quot_range(n: int, d: int, c: int, k: nat)
    requires d > 0, c >= 0, c * d <= n, n < pow2(k) * d
    ensures c <= n / d < pow2(k), n == (n / d) * d + n % d, 0 <= n % d < d
{
    assert(c * d >= 0) by (nonlinear_arith) requires c >= 0, d > 0;
    lemma_quot_fits(n, d, k);
    let q = n / d;
    let qd = q * d;
    let cd = c * d;
    assert(q >= c) by (nonlinear_arith) requires qd == q * d, cd == c * d, cd <= n, n < qd + d, d > 0;
}
