// ---- codecs_fmt_lemmas.rs: arithmetic behind the digit counts of fmt/non_power_two.rs (proved) -------------------

pub proof fn lemma_cf_pow2_pos(n: int)
    ensures pow2(n) >= 1,
    decreases n
{
    if n > 0 { lemma_cf_pow2_pos(n - 1); }
}

/// the prelude's pow2 is vstd's
pub proof fn lemma_cf_pow2_vstd(n: nat)
    ensures pow2(n as int) == vstd::arithmetic::power2::pow2(n) as int,
    decreases n
{
    if n == 0 {
        vstd::arithmetic::power2::lemma2_to64();
    } else {
        lemma_cf_pow2_vstd((n - 1) as nat);
        vstd::arithmetic::power2::lemma_pow2_unfold(n);
    }
}

/// 2^n >= 2^64 for n >= 64
pub proof fn lemma_cf_pow2_big(n: int)
    requires n >= 64,
    ensures pow2(n) >= 0x1_0000_0000_0000_0000,
    decreases n
{
    if n == 64 {
        lemma_cf_pow2_vstd(64);
        vstd::arithmetic::power2::lemma2_to64_rest();
    } else {
        lemma_cf_pow2_big(n - 1);
    }
}

/// x << s == x * 2^s on usize when the product fits
pub proof fn lemma_cf_shl_mul(x: usize, s: usize)
    requires x >= 1, (x as int) * pow2(s as int) <= usize::MAX,
    ensures s < usize::BITS, (x << s) as int == (x as int) * pow2(s as int),
{
    if s >= 64 {
        lemma_cf_pow2_big(s as int);
        let p = pow2(s as int);
        assert((x as int) * p >= p) by (nonlinear_arith) requires x >= 1, p >= 1;
    }
    assert(usize::BITS == 32 || usize::BITS == 64);
    if usize::BITS == 32 && s >= 32 {
        // 2^s >= 2^32 > usize::MAX
        lemma_cf_pow2_ge32(s as int);
        let p = pow2(s as int);
        assert((x as int) * p >= p) by (nonlinear_arith) requires x >= 1, p >= 1;
    }
    lemma_cf_pow2_vstd(s as nat);
    vstd::bits::lemma_usize_shl_is_mul(x, s);
}

pub proof fn lemma_cf_pow2_ge32(n: int)
    requires n >= 32,
    ensures pow2(n) >= 0x1_0000_0000,
    decreases n
{
    if n == 32 {
        lemma_cf_pow2_vstd(32);
        vstd::arithmetic::power2::lemma2_to64();
    } else {
        lemma_cf_pow2_ge32(n - 1);
    }
}

/// every summand is non-negative: partial sums grow
pub proof fn lemma_cf_chunks_mono(radix: Digit, s: Seq<(usize, Repr)>, k: int, n: int)
    requires radix_ok(radix), 0 <= k <= n,
    ensures 0 <= chunks_digits(radix, s, k) <= chunks_digits(radix, s, n),
    decreases n
{
    broadcast use radix::ax_dpw;
    if n > 0 {
        let l = s[n - 1].0 as int;
        lemma_cf_pow2_pos(l);
        let d = dpw(radix) * (CHUNK_LEN as int);
        let p = pow2(l);
        assert(d * p >= 0) by (nonlinear_arith) requires d >= 0, p >= 1;
        if k < n { lemma_cf_chunks_mono(radix, s, k, n - 1); } else { lemma_cf_chunks_mono(radix, s, n - 1, n - 1); }
    }
}
