// ---- fmtl_fmt_types.rs: mirrors of the writer structs of integer/src/fmt/mod.rs (TRUSTED to match) -------------------
// Needs lib/prelude.rs, lib/fmtl_fmt_stubs.rs.
pub type Digit = u32;

// repr.rs:76-79 (only carried along by the layout code)
#[derive(Clone, Copy)]
pub enum TypedReprRef<'a> {
    RefSmall(DoubleWord),
    RefLarge(&'a [Word]),
}

// fmt/mod.rs:293-299
pub struct InRadixWriter<'a> {
    pub sign: Sign,
    pub magnitude: TypedReprRef<'a>,
    pub radix: Digit,
    pub prefix: &'static str,
    pub digit_case: DigitCase,
}

// fmt/mod.rs:302-306
pub struct DoubleEnd<'a> {
    pub sign: Sign,
    pub magnitude: TypedReprRef<'a>,
    pub verbose: bool,
}

// ---- DoubleEnd (Debug output) ------------------------------------------------------------------------------------------
/// the prepared number inside `Some(..)` (any value for None)
pub open spec fn low_of<'a>(p: Option<&'a mut dyn PreparedForFormatting>) -> &'a mut dyn PreparedForFormatting
    recommends p is Some
{ p->Some_0 }

/// `ls` is what the low part prints (nothing is said without a low part)
pub open spec fn low_ok(p: Option<&mut dyn PreparedForFormatting>, ls: Seq<u8>) -> bool {
    p is Some ==> low_of(p).emits(ls) && ls.len() == low_of(p).ndigits()
}

/// the decimal digits of u, most significant first (what fmt/non_power_two.rs write_usize_decimals emits:
/// PreparedWord::new(u, 10, 1) -- proved in unit int_fmt_digits to be the positional digits of u, no leading zero --
/// written through a DigitWriter)
pub uninterp spec fn dec_digits(u: usize) -> Seq<u8>;

/// bit length of the magnitude (bits.rs TypedReprRef::bit_len, proved in unit int_bits)
pub uninterp spec fn bit_len_spec(m: TypedReprRef) -> usize;

impl<'a> TypedReprRef<'a> {
    // TRUSTED stub: only the name of the value is needed here
    #[verifier::external_body]
    pub fn bit_len(self) -> (r: usize) ensures r == bit_len_spec(self) { unimplemented!() }
}

pub mod non_power_two {
    use super::*;
    // TRUSTED stub of fmt/non_power_two.rs:440-446 (see dec_digits)
    #[verifier::external_body]
    pub fn write_usize_decimals(f: &mut fmt::Formatter, u: usize) -> (r: fmt::Result)
        ensures final(f).opts() == old(f).opts(), r is Ok ==> final(f)@ == old(f)@ + digs(dec_digits(u)),
    { unimplemented!() }
}

pub open spec fn double_end_layout(sg: Seq<char>, hs: Seq<u8>, has_low: bool, ls: Seq<u8>, verbose: bool, digits: usize, bits: usize) -> Seq<Tok> {
    let head = chars(sg) + digs(hs);
    let body = if has_low { head + chars(".."@) + digs(ls) } else { head };
    if verbose {
        body + chars(" (digits: "@) + digs(dec_digits(digits)) + chars(", bits: "@) + digs(dec_digits(bits)) + chars(")"@)
    } else { body }
}
