// ---- trusted stubs for the multi-word division glue (integer/src/div/mod.rs, div_ops.rs::repr). Word = @W@ --------
// Needs lib/prelude.rs, lib/repr_stubs.rs (Buffer), lib/div_dword_stubs.rs, lib/div_post_spec.rs (Memory).

/// integer/src/primitive.rs :: highest_dword reads the two top words through `get_unchecked` (unsafe, outside
/// Verus' reach). ASSUMED contract (same text as lib/div_simple_stubs.rs); checked on the real code by the Kani
/// harness vk_int_primitive_slice_accessors (group int_primitive, slices of <= 4 words).
#[verifier::external_body]
pub fn highest_dword(words: &[Word]) -> (ret: DoubleWord)
    requires words@.len() >= 2,
    ensures ret as int == words@[words@.len() - 2] as int + (words@[words@.len() - 1] as int) * B(),
{ unimplemented!() }

// integer/src/memory.rs: scratch memory for the divide-and-conquer branch.  Opaque: no contract beyond existence.
// `MemoryAllocation::new` aborts / panics (panic_allocate_too_much, handle_alloc_error) when the request cannot be
// served: a RESOURCE failure, not covered by any contract here.
#[verifier::external_body]
pub struct Layout { _p: u8 }
#[verifier::external_body]
pub struct MemoryAllocation { _p: u8 }
impl MemoryAllocation {
    #[verifier::external_body]
    pub fn new(layout: Layout) -> (r: MemoryAllocation) { unimplemented!() }
    #[verifier::external_body]
    pub fn memory(&mut self) -> (r: Memory<'_>) { unimplemented!() }
}

impl Buffer {
    // buffer.rs:334-346 `assert!(self.len >= n)`, then the words n.. are moved to the front (ptr::copy), len -= n
    #[verifier::external_body]
    pub fn erase_front(&mut self, n: usize)
        requires old(self)@.len() >= n,
        ensures final(self)@ == old(self)@.subrange(n as int, old(self)@.len() as int),
            final(self).capacity() == old(self).capacity(),
    { unimplemented!() }
}

pub mod div_dc_stub {
use super::*;
/// integer/src/div/mod.rs :: memory_requirement_exact: `assert!(lhs_len >= rhs_len && rhs_len >= 2)`, then a Layout
/// (opaque here)
#[verifier::external_body]
pub fn memory_requirement_exact(lhs_len: usize, rhs_len: usize) -> (r: Layout)
    requires lhs_len >= rhs_len && rhs_len >= 2,
{ unimplemented!() }

}
