// ---- dashu_base::Sign as seen by the kernels (enum mirrored verbatim: trusted to match base/src/sign.rs) ----
#[derive(Clone, Copy, PartialEq, Eq, Debug)]
pub enum Sign { Positive, Negative }
pub use Sign::*;
pub open spec fn sgn(s: Sign) -> int { match s { Sign::Positive => 1, Sign::Negative => -1 } }

// crate::primitive::PrimitiveSigned as seen by the kernels. The contract of to_sign_magnitude is ASSUMED here;
// the real implementation (a macro-generated impl in integer/src/primitive.rs) is proved for all widths by the
// Kani group int_primitive.
pub trait PrimitiveSigned: Sized {
    type Unsigned;
    spec fn sv(self) -> int;
    spec fn uv(u: Self::Unsigned) -> int;
    fn to_sign_magnitude(self) -> (ret: (Sign, Self::Unsigned))
        ensures self.sv() >= 0 ==> ret.0 == Sign::Positive && Self::uv(ret.1) == self.sv(),
            self.sv() < 0 ==> ret.0 == Sign::Negative && Self::uv(ret.1) == -self.sv();
}
impl PrimitiveSigned for SignedWord {
    type Unsigned = Word;
    open spec fn sv(self) -> int { self as int }
    open spec fn uv(u: Word) -> int { u as int }
    #[verifier::external_body]
    fn to_sign_magnitude(self) -> (Sign, Word) { unimplemented!() }
}
