// ---- dashu_base::Sign as seen by the kernels (enum mirrored verbatim: trusted to match base/src/sign.rs) ----
#[derive(Clone, Copy, PartialEq, Eq, Debug)]
pub enum Sign { Positive, Negative }
pub use Sign::*;
pub open spec fn sgn(s: Sign) -> int { match s { Sign::Positive => 1, Sign::Negative => -1 } }
