// float/src/round.rs `pub mod mode` -- transcription of the six unit structs
pub mod mode {
    #[derive(Clone, Copy)]
    pub struct Zero;
    #[derive(Clone, Copy)]
    pub struct Away;
    #[derive(Clone, Copy)]
    pub struct Up;
    #[derive(Clone, Copy)]
    pub struct Down;
    #[derive(Clone, Copy)]
    pub struct HalfEven;
    #[derive(Clone, Copy)]
    pub struct HalfAway;
}
