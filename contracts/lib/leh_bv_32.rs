// ---- leh_bv_32.rs: bit-level facts for integer/src/gcd/lehmer.rs with Word = u32 --------------------------------------
pub proof fn lemma_leh_split_signed_bv(dw: i64)
    ensures (dw as u32) as int + (((dw >> 32u32) as i32) as int) * B() == dw as int,
{
    assert((dw as u32) as i64 + (((dw >> 32u32) as i32) as i64) * 0x1_0000_0000i64 == dw) by (bit_vector);
}
