// ---- farith_add_stubs.rs: helpers of float/src/add.rs that are seen through TRUSTED contracts (each read off the real
// function).  Needs round_prelude.rs, round_int_stubs.rs, round_int_addsub_stubs.rs, round_float_repr.rs, conv_fbig_stubs.rs.

// utils::shl_digits_in_place: PROVED in unit float_digit_utils; contract from its annotated copy
//@@ SIG float/utils3/shl_digits_in_place.rs

impl IBig {
    /// integer/src/sign.rs `IBig::signum`: ONE / ZERO / NEG_ONE
    #[verifier::external_body]
    pub fn signum(&self) -> (r: IBig)
        ensures self.v() > 0 ==> r.v() == 1, self.v() == 0 ==> r.v() == 0, self.v() < 0 ==> r.v() == -1
    { unimplemented!() }
}
/// sign applied to a value (base/src/sign.rs, integer/src/sign.rs): Positive keeps, Negative negates
pub open spec fn sgn_apply(s: Sign, v: int) -> int { match s { Sign::Positive => v, Sign::Negative => -v } }
// integer/src/sign.rs `impl Mul<IBig> for Sign`, `impl Mul<Sign> for IBig`, `impl MulAssign<Sign> for IBig`:
// the sign of the result is the product of the signs, the magnitude is kept
impl Mul<IBig> for Sign { type Output = IBig; #[verifier::external_body] fn mul(self, rhs: IBig) -> IBig { unimplemented!() } }
impl MulSpecImpl<IBig> for Sign {
    open spec fn obeys_mul_spec() -> bool { true }
    open spec fn mul_req(self, rhs: IBig) -> bool { true }
    open spec fn mul_spec(self, rhs: IBig) -> IBig { ibig_of(sgn_apply(self, rhs.v())) }
}
impl Mul<Sign> for IBig { type Output = IBig; #[verifier::external_body] fn mul(self, rhs: Sign) -> IBig { unimplemented!() } }
impl MulSpecImpl<Sign> for IBig {
    open spec fn obeys_mul_spec() -> bool { true }
    open spec fn mul_req(self, rhs: Sign) -> bool { true }
    open spec fn mul_spec(self, rhs: Sign) -> IBig { ibig_of(sgn_apply(rhs, self.v())) }
}
impl core::ops::MulAssign<Sign> for IBig {
    #[verifier::external_body]
    fn mul_assign(&mut self, rhs: Sign) { unimplemented!() }
}
impl MulAssignSpecImpl<Sign> for IBig {
    open spec fn obeys_mul_assign_spec() -> bool { true }
    open spec fn mul_assign_req(&self, rhs: Sign) -> bool { true }
    open spec fn mul_assign_spec(&self, rhs: Sign) -> &IBig { &ibig_of(sgn_apply(rhs, self.v())) }
}
// integer/src/add_ops.rs: the reference forms of IBig +/- IBig used by add.rs (value-exact; C01 lower layer)
impl<'b> Add<&'b IBig> for IBig { type Output = IBig; #[verifier::external_body] fn add(self, rhs: &'b IBig) -> IBig { unimplemented!() } }
impl<'b> AddSpecImpl<&'b IBig> for IBig {
    open spec fn obeys_add_spec() -> bool { true }
    open spec fn add_req(self, rhs: &'b IBig) -> bool { true }
    open spec fn add_spec(self, rhs: &'b IBig) -> IBig { ibig_of(self.v() + rhs.v()) }
}
impl<'b> Sub<&'b IBig> for IBig { type Output = IBig; #[verifier::external_body] fn sub(self, rhs: &'b IBig) -> IBig { unimplemented!() } }
impl<'b> SubSpecImpl<&'b IBig> for IBig {
    open spec fn obeys_sub_spec() -> bool { true }
    open spec fn sub_req(self, rhs: &'b IBig) -> bool { true }
    open spec fn sub_spec(self, rhs: &'b IBig) -> IBig { ibig_of(self.v() - rhs.v()) }
}
impl<'a, 'b> Add<&'b IBig> for &'a IBig { type Output = IBig; #[verifier::external_body] fn add(self, rhs: &'b IBig) -> IBig { unimplemented!() } }
impl<'a, 'b> AddSpecImpl<&'b IBig> for &'a IBig {
    open spec fn obeys_add_spec() -> bool { true }
    open spec fn add_req(self, rhs: &'b IBig) -> bool { true }
    open spec fn add_spec(self, rhs: &'b IBig) -> IBig { ibig_of(self.v() + rhs.v()) }
}
impl<'a, 'b> Sub<&'b IBig> for &'a IBig { type Output = IBig; #[verifier::external_body] fn sub(self, rhs: &'b IBig) -> IBig { unimplemented!() } }
impl<'a, 'b> SubSpecImpl<&'b IBig> for &'a IBig {
    open spec fn obeys_sub_spec() -> bool { true }
    open spec fn sub_req(self, rhs: &'b IBig) -> bool { true }
    open spec fn sub_spec(self, rhs: &'b IBig) -> IBig { ibig_of(self.v() - rhs.v()) }
}
// integer/src/sign.rs `impl Neg for IBig`
impl Neg for IBig { type Output = IBig; #[verifier::external_body] fn neg(self) -> IBig { unimplemented!() } }
impl NegSpecImpl for IBig {
    open spec fn obeys_neg_spec() -> bool { true }
    open spec fn neg_req(self) -> bool { true }
    open spec fn neg_spec(self) -> IBig { ibig_of(-self.v()) }
}
// float/src/sign.rs `impl Neg for Repr<B>`: `self.significand = -self.significand; self`
impl<const B: Word> Neg for Repr<B> { type Output = Repr<B>; #[verifier::external_body] fn neg(self) -> Repr<B> { unimplemented!() } }
impl<const B: Word> NegSpecImpl for Repr<B> {
    open spec fn obeys_neg_spec() -> bool { true }
    open spec fn neg_req(self) -> bool { true }
    open spec fn neg_spec(self) -> Repr<B> { Repr { significand: ibig_of(-self.significand.v()), exponent: self.exponent } }
}
