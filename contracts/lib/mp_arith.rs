// ---- mp_arith.rs: integer / bit-vector lemmas for modular exponentiation (units int_modpow_large, int_modpow_single,
// int_modpow_double).  Word = @W@.  Needs lib/prelude.rs and lib/shift_bv.rs only.
// `ipow` and its basic lemmas are the same text as in lib/pow_lemmas.rs (that file drags in the Buffer stubs of the
// integer pow units and cannot be included here).

/// x = (x / p) * p for exact multiples
pub proof fn lemma_mp_exact_div(x: int, p: int)
    requires p >= 1, x % p == 0,
    ensures x == (x / p) * p,
{
    vstd::arithmetic::div_mod::lemma_fundamental_div_mod(x, p);
    assert(p * (x / p) == (x / p) * p) by (nonlinear_arith);
}

pub proof fn lemma_mp_div_of_multiple(q: int, p: int)
    requires p >= 1,
    ensures (q * p) % p == 0, (q * p) / p == q,
{
    vstd::arithmetic::div_mod::lemma_fundamental_div_mod_converse(q * p, p, q, 0);
}

/// b^e for e >= 0 (1 for e <= 0): the mathematical power of the property statement
pub open spec fn ipow(b: int, e: int) -> int
    decreases e
{
    if e <= 0 { 1 } else { b * ipow(b, e - 1) }
}

pub proof fn lemma_ipow_add(b: int, m: int, n: int)
    requires m >= 0, n >= 0,
    ensures ipow(b, m + n) == ipow(b, m) * ipow(b, n),
    decreases m
{
    if m > 0 {
        lemma_ipow_add(b, m - 1, n);
        let x = ipow(b, m - 1); let y = ipow(b, n);
        assert(b * (x * y) == (b * x) * y) by (nonlinear_arith);
    } else {
        assert(1 * ipow(b, n) == ipow(b, n));
    }
}

pub proof fn lemma_ipow_1(b: int)
    ensures ipow(b, 1) == b, ipow(b, 0) == 1,
{
    assert(ipow(b, 1) == b * ipow(b, 0));
    assert(b * 1 == b);
}

pub proof fn lemma_ipow_2(b: int)
    ensures ipow(b, 2) == b * b,
{
    lemma_ipow_1(b);
    assert(ipow(b, 2) == b * ipow(b, 1));
}

/// squaring doubles the exponent
pub proof fn lemma_ipow_double(b: int, k: int)
    requires k >= 0,
    ensures ipow(b, 2 * k) == ipow(b, k) * ipow(b, k),
{
    lemma_ipow_add(b, k, k);
}

/// one more factor
pub proof fn lemma_ipow_succ(b: int, k: int)
    requires k >= 0,
    ensures ipow(b, k + 1) == ipow(b, k) * b,
{
    lemma_ipow_add(b, k, 1);
    lemma_ipow_1(b);
}

/// (b^m)^n == b^(m*n)
pub proof fn lemma_ipow_mul(b: int, m: int, n: int)
    requires m >= 0, n >= 0,
    ensures ipow(ipow(b, m), n) == ipow(b, m * n), m * n >= 0,
    decreases n
{
    assert(m * n >= 0) by (nonlinear_arith) requires m >= 0, n >= 0;
    if n > 0 {
        lemma_ipow_mul(b, m, n - 1);
        assert(m * n == m + m * (n - 1)) by (nonlinear_arith);
        assert(m * (n - 1) >= 0) by (nonlinear_arith) requires m >= 0, n >= 1;
        lemma_ipow_add(b, m, m * (n - 1));
    } else {
        assert(m * 0 == 0);
    }
}

// ---- residues of powers -------------------------------------------------------------------------------------------

/// (b^k1 mod m) * (b^k2 mod m) mod m == b^(k1+k2) mod m
pub proof fn lemma_mp_mul(r: int, m: int, k1: int, k2: int, x: int, y: int, z: int)
    requires m >= 1, k1 >= 0, k2 >= 0, x == ipow(r, k1) % m, y == ipow(r, k2) % m, z == (x * y) % m,
    ensures z == ipow(r, k1 + k2) % m,
{
    lemma_ipow_add(r, k1, k2);
    vstd::arithmetic::div_mod::lemma_mul_mod_noop(ipow(r, k1), ipow(r, k2), m);
}

// ---- powers of two ------------------------------------------------------------------------------------------------

/// B^k == 2^(BITS*k)
pub proof fn lemma_mp_pw_pow2(k: int)
    requires k >= 0,
    ensures pw(k) == pow2(@BITS@ * k),
    decreases k
{
    if k > 0 {
        lemma_mp_pw_pow2(k - 1);
        lemma_sh_pow2_bits();
        lemma_sh_pow2_add(@BITS@, @BITS@ * (k - 1));
    }
}

/// (d*y + c) / d == y + c/d,  (d*y + c) % d == c % d
pub proof fn lemma_mp_div_add_mult(c: int, d: int, y: int)
    requires d >= 1,
    ensures (d * y + c) / d == y + c / d, (d * y + c) % d == c % d,
{
    vstd::arithmetic::div_mod::lemma_fundamental_div_mod(c, d);
    vstd::arithmetic::div_mod::lemma_mod_bound(c, d);
    let q = c / d;
    let r = c % d;
    assert(d * y + c == (y + q) * d + r) by (nonlinear_arith) requires c == d * q + r;
    vstd::arithmetic::div_mod::lemma_fundamental_div_mod_converse(d * y + c, d, y + q, r);
}

/// (x / a) / b == x / (a*b)
pub proof fn lemma_mp_divdiv(x: int, a: int, b: int)
    requires x >= 0, a >= 1, b >= 1,
    ensures a * b >= 1, (x / a) / b == x / (a * b),
{
    assert(a * b >= 1) by (nonlinear_arith) requires a >= 1, b >= 1;
    vstd::arithmetic::div_mod::lemma_fundamental_div_mod(x, a);
    vstd::arithmetic::div_mod::lemma_mod_bound(x, a);
    let q1 = x / a;
    let r1 = x % a;
    vstd::arithmetic::div_mod::lemma_fundamental_div_mod(q1, b);
    vstd::arithmetic::div_mod::lemma_mod_bound(q1, b);
    let q2 = q1 / b;
    let r2 = q1 % b;
    // x = a*(b*q2 + r2) + r1 = (a*b)*q2 + (a*r2 + r1),  0 <= a*r2 + r1 < a*b
    assert(x == q2 * (a * b) + (a * r2 + r1)) by (nonlinear_arith) requires x == a * q1 + r1, q1 == b * q2 + r2;
    assert(0 <= a * r2 + r1 < a * b) by (nonlinear_arith) requires 0 <= r1 < a, 0 <= r2 < b, a >= 1;
    vstd::arithmetic::div_mod::lemma_fundamental_div_mod_converse(x, a * b, q2, a * r2 + r1);
}

/// (x % (a*b)) / a == (x / a) % b
pub proof fn lemma_mp_mod_div(x: int, a: int, b: int)
    requires x >= 0, a >= 1, b >= 1,
    ensures a * b >= 1, (x % (a * b)) / a == (x / a) % b,
{
    assert(a * b >= 1) by (nonlinear_arith) requires a >= 1, b >= 1;
    vstd::arithmetic::div_mod::lemma_fundamental_div_mod(x, a);
    vstd::arithmetic::div_mod::lemma_mod_bound(x, a);
    let q1 = x / a;
    let r1 = x % a;
    vstd::arithmetic::div_mod::lemma_fundamental_div_mod(q1, b);
    vstd::arithmetic::div_mod::lemma_mod_bound(q1, b);
    let q2 = q1 / b;
    let r2 = q1 % b;
    assert(x == q2 * (a * b) + (a * r2 + r1)) by (nonlinear_arith) requires x == a * q1 + r1, q1 == b * q2 + r2;
    assert(0 <= a * r2 + r1 < a * b) by (nonlinear_arith) requires 0 <= r1 < a, 0 <= r2 < b, a >= 1;
    vstd::arithmetic::div_mod::lemma_fundamental_div_mod_converse(x, a * b, q2, a * r2 + r1);
    // (a*r2 + r1) / a == r2
    lemma_mp_div_add_mult(r1, a, r2);
    assert(r1 / a == 0) by { vstd::arithmetic::div_mod::lemma_fundamental_div_mod_converse(r1, a, 0, r1); }
}

/// (x*g) / (d*g) == x / d
pub proof fn lemma_mp_div_cancel(x: int, d: int, g: int)
    requires x >= 0, d >= 1, g >= 1,
    ensures d * g >= 1, (x * g) / (d * g) == x / d,
{
    assert(x * g >= 0) by (nonlinear_arith) requires x >= 0, g >= 1;
    lemma_mp_divdiv(x * g, g, d);
    lemma_mp_div_of_multiple(x, g);
    assert(g * d == d * g) by (nonlinear_arith);
}

/// exponents: 0 <= a <= b  ==>  2^b == 2^a * 2^(b-a)
pub proof fn lemma_mp_pow2_split(a: int, b: int)
    requires 0 <= a <= b,
    ensures pow2(b) == pow2(a) * pow2(b - a), pow2(a) >= 1, pow2(b - a) >= 1,
{
    lemma_sh_pow2_add(a, b - a);
    lemma_sh_pow2_pos(a);
    lemma_sh_pow2_pos(b - a);
}

/// a < b ==> 2^(b-a) is even
pub proof fn lemma_mp_pow2_even(k: int)
    requires k >= 1,
    ensures pow2(k) == 2 * pow2(k - 1), pow2(k - 1) >= 1,
{
    lemma_sh_pow2_pos(k - 1);
}

// ---- bit `bit` of the exponent, read from its words ----------------------------------------------------------------

/// X = low + c*P + h*B*P with low < P:  bit (bi) of c is bit (log2(P) + bi) of X
pub proof fn lemma_mp_bit_pure(x: int, low: int, c: int, h: int, p: int, bi: int)
    requires 0 <= low < p, 0 <= c < B(), h >= 0, 0 <= bi < @BITS@, x == low + c * p + (h * B()) * p,
    ensures p * pow2(bi) >= 1, x >= 0, (x / (p * pow2(bi))) % 2 == (c / pow2(bi)) % 2,
{
    let e = pow2(bi);
    lemma_sh_pow2_pos(bi);
    let y = c + h * B();
    assert(h * B() >= 0) by (nonlinear_arith) requires h >= 0, B() >= 1;
    assert(x == p * y + low) by (nonlinear_arith) requires x == low + c * p + (h * B()) * p, y == c + h * B();
    assert(p * y >= 0) by (nonlinear_arith) requires p >= 1, y >= 0;
    lemma_mp_div_add_mult(low, p, y);
    vstd::arithmetic::div_mod::lemma_fundamental_div_mod_converse(low, p, 0, low);
    assert(x / p == y);
    lemma_mp_divdiv(x, p, e);
    // y / e == h * 2^(BITS-bi) + c / e
    lemma_mp_pow2_split(bi, @BITS@);
    lemma_sh_pow2_bits();
    let g = pow2(@BITS@ - bi);
    lemma_mp_pow2_even(@BITS@ - bi);
    let g2 = pow2(@BITS@ - bi - 1);
    assert(y == e * (h * g) + c) by (nonlinear_arith) requires y == c + h * B(), B() == e * g;
    lemma_mp_div_add_mult(c, e, h * g);
    // h*g is even
    assert(h * g + c / e == 2 * (h * g2) + c / e) by (nonlinear_arith) requires g == 2 * g2;
    lemma_mp_div_add_mult(c / e, 2, h * g2);
}

/// bit `BITS*idx + bi` of val(w) is bit bi of the word w[idx]
pub proof fn lemma_mp_bit_of_word(w: Seq<Word>, idx: int, bi: int)
    requires 0 <= idx < w.len(), 0 <= bi < @BITS@,
    ensures val(w) >= 0, (val(w) / pow2(@BITS@ * idx + bi)) % 2 == ((w[idx] as int) / pow2(bi)) % 2,
{
    let len = w.len() as int;
    lemma_valn_split(w, idx + 1, len);
    let hi = w.subrange(idx + 1, len);
    lemma_valn_bound(hi, len - idx - 1);
    lemma_valn_bound(w, idx);
    lemma_pw_pos(idx);
    let h = valn(hi, len - idx - 1);
    let p = pw(idx);
    assert(pw(idx + 1) == B() * pw(idx));
    assert(pw(idx + 1) * h == (h * B()) * p) by (nonlinear_arith) requires pw(idx + 1) == B() * p;
    assert(valn(w, idx + 1) == valn(w, idx) + (w[idx] as int) * p);
    lemma_mp_bit_pure(val(w), valn(w, idx), w[idx] as int, h, p, bi);
    lemma_mp_pw_pow2(idx);
    assert(@BITS@ * idx >= 0) by (nonlinear_arith) requires idx >= 0;
    lemma_sh_pow2_add(@BITS@ * idx, bi);
}

/// the bit test of the code: `w & (1 << bi) != 0`  <==>  bit bi of w is set
pub proof fn lemma_mp_bit_test(w: @W@, bi: u32)
    requires bi < @BITS@,
    ensures ((w & ((1 as @W@) << bi)) != 0) == (((w as int) / pow2(bi as int)) % 2 == 1),
{
    let t = w >> bi;
    assert(((w & ((1 as @W@) << bi)) != 0) == (t % 2 == 1)) by (bit_vector) requires bi < @BITS@, t == w >> bi;
    lemma_sh_shr_div_w(w, bi);
}

// ---- the window of the sliding-window method ------------------------------------------------------------------------

/// The two exponent words around bit position BITS*idx + bi, as a double word at word position idx of E*B
/// (`next` = the word below `cur` = w[idx], 0 when there is none).  Returns (low, h):
///     val(w) * B == low + (next + cur*B) * B^idx + h * B^2 * B^idx,   0 <= low < B^idx,  h >= 0
pub proof fn lemma_mp_dword_at(w: Seq<Word>, idx: int, next: int) -> (lh: (int, int))
    requires 0 <= idx < w.len(), next == (if idx == 0 { 0 } else { w[idx - 1] as int }),
    ensures 0 <= lh.0 < pw(idx), lh.1 >= 0,
        val(w) * B() == lh.0 + (next + (w[idx] as int) * B()) * pw(idx) + (lh.1 * (B() * B())) * pw(idx),
{
    let len = w.len() as int;
    let cur = w[idx] as int;
    lemma_valn_split(w, idx + 1, len);
    let hi = w.subrange(idx + 1, len);
    lemma_valn_bound(hi, len - idx - 1);
    let h = valn(hi, len - idx - 1);
    let p = pw(idx);
    lemma_pw_pos(idx);
    assert(pw(idx + 1) == B() * p);
    assert(valn(w, idx + 1) == valn(w, idx) + cur * p);
    if idx == 0 {
        assert(valn(w, 0) == 0);
        assert(p == 1);
        assert(val(w) * B() == 0 + (0 + cur * B()) * p + (h * (B() * B())) * p) by (nonlinear_arith)
            requires val(w) == 0 + cur * p + pw(idx + 1) * h, pw(idx + 1) == B() * p, p == 1;
        (0, h)
    } else {
        let q = pw(idx - 1);
        lemma_valn_bound(w, idx - 1);
        assert(p == B() * q);
        assert(valn(w, idx) == valn(w, idx - 1) + next * q);
        let low = valn(w, idx - 1) * B();
        assert(0 <= low < p) by (nonlinear_arith) requires 0 <= valn(w, idx - 1) < q, p == B() * q, low == valn(w, idx - 1) * B(), B() >= 1;
        assert(val(w) * B() == low + (next + cur * B()) * p + (h * (B() * B())) * p) by (nonlinear_arith)
            requires val(w) == valn(w, idx - 1) + next * q + cur * p + pw(idx + 1) * h, pw(idx + 1) == B() * p, p == B() * q,
                low == valn(w, idx - 1) * B();
        (low, h)
    }
}

/// The `window_len` bits of E = val(exp_words) from bit position `bit` = BITS*idx + bi DOWNWARDS (zero-padded below bit 0),
/// as the code extracts them from the double word D = next + cur*B:    (D >> s) mod 2^wl,  s = bi + 1 + BITS - wl.
pub proof fn lemma_mp_window_dword(e: int, low: int, d: int, h: int, idx: int, bi: int, wl: int)
    requires e >= 0, idx >= 0, 0 <= low < pw(idx), 0 <= d < B() * B(), h >= 0, 0 <= bi < @BITS@, 1 <= wl < @BITS@,
        e * B() == low + d * pw(idx) + (h * (B() * B())) * pw(idx),
    ensures pow2(@BITS@ * idx + bi) >= 1, pow2(wl) >= 1, pow2(bi + 1 + @BITS@ - wl) >= 1, pow2(wl - 1) >= 1,
        (d / pow2(bi + 1 + @BITS@ - wl)) % pow2(wl) == ((e * pow2(wl - 1)) / pow2(@BITS@ * idx + bi)) % pow2(wl),
{
    let s = bi + 1 + @BITS@ - wl;
    let bit = @BITS@ * idx + bi;
    let p = pw(idx);
    let bb = B() * B();
    assert(@BITS@ * idx >= 0) by (nonlinear_arith) requires idx >= 0;
    lemma_pw_pos(idx);
    lemma_sh_pow2_pos(bit); lemma_sh_pow2_pos(wl); lemma_sh_pow2_pos(s); lemma_sh_pow2_pos(wl - 1);
    lemma_sh_pow2_bits();
    lemma_mp_pw_pow2(idx);
    let y = e * B();
    assert(y >= 0) by (nonlinear_arith) requires e >= 0, B() >= 1, y == e * B();
    // y / p == d + h*B^2
    let z = d + h * bb;
    assert(h * bb >= 0) by (nonlinear_arith) requires h >= 0, bb >= 1;
    assert(y == p * z + low) by (nonlinear_arith) requires y == low + d * p + (h * bb) * p, z == d + h * bb;
    lemma_mp_div_add_mult(low, p, z);
    vstd::arithmetic::div_mod::lemma_fundamental_div_mod_converse(low, p, 0, low);
    assert(y / p == z);
    // (y / p) / 2^s == y / 2^(BITS*idx + s)
    lemma_mp_divdiv(y, p, pow2(s));
    lemma_sh_pow2_add(@BITS@ * idx, s);
    // y = F * 2^g, 2^(BITS*idx + s) = 2^bit * 2^g  with g = BITS - wl + 1, F = e * 2^(wl-1)
    let g = @BITS@ - wl + 1;
    let f = e * pow2(wl - 1);
    lemma_sh_pow2_pos(g);
    lemma_sh_pow2_add(wl - 1, g);
    lemma_sh_pow2_add(bit, g);
    assert(f >= 0) by (nonlinear_arith) requires e >= 0, pow2(wl - 1) >= 1, f == e * pow2(wl - 1);
    assert(y == f * pow2(g)) by (nonlinear_arith) requires y == e * B(), B() == pow2(wl - 1) * pow2(g), f == e * pow2(wl - 1);
    lemma_mp_div_cancel(f, pow2(bit), pow2(g));
    assert(@BITS@ * idx + s == bit + g);
    let t = f / pow2(bit);
    assert(z / pow2(s) == t);
    // z / 2^s == d / 2^s + h * 2^(2*BITS - s),   2*BITS - s >= wl
    let u = 2 * @BITS@ - s;
    lemma_sh_pow2_add(@BITS@, @BITS@);
    lemma_sh_pow2_add(s, u);
    lemma_sh_pow2_pos(u);
    assert(z == pow2(s) * (h * pow2(u)) + d) by (nonlinear_arith) requires z == d + h * bb, bb == pow2(s) * pow2(u);
    lemma_mp_div_add_mult(d, pow2(s), h * pow2(u));
    lemma_mp_pow2_split(wl, u);
    let v = pow2(u - wl);
    assert(h * pow2(u) + d / pow2(s) == pow2(wl) * (h * v) + d / pow2(s)) by (nonlinear_arith) requires pow2(u) == pow2(wl) * v;
    lemma_mp_div_add_mult(d / pow2(s), pow2(wl), h * v);
}

/// Shrinking the window to its odd part.  wd = the wl bits of E from `bit` downwards (zero-padded), bit `bit` of E set,
/// tz = trailing zeros of wd.  With nb = wl - tz (the code's num_bits) and bit2 = bit - (nb - 1) (the new `bit`):
/// win = wd >> tz is odd, it is the nb bits of E from `bit` down to `bit2`, and
///     E >> bit2  ==  (E >> (bit+1)) * 2^nb + win.
pub proof fn lemma_mp_window(e: int, bit: int, wl: int, wd: int, tz: int)
    requires e >= 0, bit >= 0, wl >= 1, tz >= 0, (e / pow2(bit)) % 2 == 1,
        wd == ((e * pow2(wl - 1)) / pow2(bit)) % pow2(wl),
        wd != 0 ==> wd % pow2(tz) == 0 && (wd / pow2(tz)) % 2 == 1,
    ensures wd >= 1, tz <= wl - 1, wl - tz - 1 <= bit,
        (wd / pow2(tz)) % 2 == 1, 1 <= wd / pow2(tz) < pow2(wl - tz),
        e / pow2(bit - (wl - tz - 1)) == (e / pow2(bit + 1)) * pow2(wl - tz) + wd / pow2(tz),
{
    let f = e * pow2(wl - 1);
    let pb = pow2(bit);
    let t = f / pb;
    lemma_sh_pow2_pos(bit); lemma_sh_pow2_pos(wl); lemma_sh_pow2_pos(wl - 1); lemma_sh_pow2_pos(tz);
    assert(f >= 0) by (nonlinear_arith) requires e >= 0, pow2(wl - 1) >= 1, f == e * pow2(wl - 1);
    vstd::arithmetic::div_mod::lemma_div_pos_is_pos(f, pb);
    // (1) the top bit of the window is bit `bit` of E:  wd / 2^(wl-1) == (E / 2^bit) % 2 == 1, so wd >= 2^(wl-1) >= 1
    lemma_mp_pow2_even(wl);
    lemma_mp_mod_div(t, pow2(wl - 1), 2);
    assert(pow2(wl - 1) * 2 == pow2(wl));
    lemma_mp_divdiv(f, pb, pow2(wl - 1));
    lemma_mp_div_cancel(e, pb, pow2(wl - 1));
    assert(pb * pow2(wl - 1) >= 1);
    assert(t / pow2(wl - 1) == e / pb);
    assert(wd / pow2(wl - 1) == 1);
    vstd::arithmetic::div_mod::lemma_fundamental_div_mod(wd, pow2(wl - 1));
    vstd::arithmetic::div_mod::lemma_mod_bound(wd, pow2(wl - 1));
    assert(wd >= pow2(wl - 1)) by (nonlinear_arith)
        requires wd == pow2(wl - 1) * (wd / pow2(wl - 1)) + wd % pow2(wl - 1), wd / pow2(wl - 1) == 1, wd % pow2(wl - 1) >= 0;
    vstd::arithmetic::div_mod::lemma_mod_bound(t, pow2(wl));
    // (2) tz <= wl - 1
    let win = wd / pow2(tz);
    vstd::arithmetic::div_mod::lemma_fundamental_div_mod(wd, pow2(tz));
    assert(wd == pow2(tz) * win);
    if tz >= wl {
        lemma_sh_pow2_mono(wl, tz);
        assert(win >= 1);
        assert(pow2(tz) * win >= pow2(tz)) by (nonlinear_arith) requires win >= 1, pow2(tz) >= 1;
        assert(false);
    }
    let nb = wl - tz;
    // (3) nb - 1 <= bit:  for bit < wl - 1 the window is zero-padded with a = wl-1-bit low bits, so tz >= a
    if bit < wl - 1 {
        let a = wl - 1 - bit;
        lemma_sh_pow2_add(a, bit);
        assert(f == (e * pow2(a)) * pb) by (nonlinear_arith) requires f == e * pow2(wl - 1), pow2(wl - 1) == pow2(a) * pb;
        lemma_mp_div_of_multiple(e * pow2(a), pb);
        assert(t == e * pow2(a));
        if tz < a {
            // t = 2^(tz+1) * c, 2^wl = 2^(tz+1) * c2  ==> wd = t % 2^wl is a multiple of 2^(tz+1): win even
            lemma_mp_pow2_split(tz + 1, a);
            lemma_mp_pow2_split(tz + 1, wl);
            let c = e * pow2(a - tz - 1);
            assert(t == pow2(tz + 1) * c) by (nonlinear_arith) requires t == e * pow2(a), pow2(a) == pow2(tz + 1) * pow2(a - tz - 1), c == e * pow2(a - tz - 1);
            assert(c >= 0) by (nonlinear_arith) requires e >= 0, pow2(a - tz - 1) >= 1, c == e * pow2(a - tz - 1);
            assert(t == c * pow2(tz + 1)) by (nonlinear_arith) requires t == pow2(tz + 1) * c;
            lemma_mp_mod_div(t, pow2(tz + 1), pow2(wl - tz - 1));
            vstd::arithmetic::div_mod::lemma_fundamental_div_mod(wd, pow2(tz + 1));
            vstd::arithmetic::div_mod::lemma_mod_mod(t, pow2(tz + 1), pow2(wl - tz - 1));
            lemma_mp_div_of_multiple(c, pow2(tz + 1));
            assert(wd % pow2(tz + 1) == 0);
            let k = wd / pow2(tz + 1);
            lemma_mp_pow2_even(tz + 1);
            assert(wd == pow2(tz) * (2 * k)) by (nonlinear_arith) requires wd == pow2(tz + 1) * k, pow2(tz + 1) == 2 * pow2(tz);
            assert(wd == (2 * k) * pow2(tz)) by (nonlinear_arith) requires wd == pow2(tz) * (2 * k);
            lemma_mp_div_of_multiple(2 * k, pow2(tz));
            assert(win == 2 * k);
            lemma_mp_div_add_mult(0, 2, k);
            assert(false);
        }
    }
    let bit2 = bit - (nb - 1);
    // (4) t / 2^tz == E / 2^bit2
    lemma_mp_divdiv(f, pb, pow2(tz));
    lemma_sh_pow2_add(bit, tz);
    lemma_sh_pow2_add(bit2, wl - 1);
    lemma_sh_pow2_pos(bit2);
    lemma_mp_div_cancel(e, pow2(bit2), pow2(wl - 1));
    assert(bit + tz == bit2 + (wl - 1));
    let x = e / pow2(bit2);
    assert(t / pow2(tz) == x);
    // (5) win == (t / 2^tz) % 2^nb
    lemma_mp_pow2_split(tz, wl);
    lemma_mp_mod_div(t, pow2(tz), pow2(nb));
    assert(win == x % pow2(nb));
    // (6) x == (E / 2^(bit+1)) * 2^nb + win
    lemma_mp_divdiv(e, pow2(bit2), pow2(nb));
    lemma_sh_pow2_add(bit2, nb);
    assert(bit2 + nb == bit + 1);
    vstd::arithmetic::div_mod::lemma_fundamental_div_mod(x, pow2(nb));
    vstd::arithmetic::div_mod::lemma_mod_bound(x, pow2(nb));
    assert(pow2(nb) * (x / pow2(nb)) == (x / pow2(nb)) * pow2(nb)) by (nonlinear_arith);
}

// ---- machine words ----------------------------------------------------------------------------------------------------

pub open spec fn mp_tz(w: @W@) -> u32 { vstd::std_specs::bits::@W@_trailing_zeros(w) }

/// trailing_zeros of a non-zero word: the low tz bits are zero and the next one is set
pub proof fn lemma_mp_tz(w: @W@)
    ensures mp_tz(w) <= @BITS@, (w == 0) == (mp_tz(w) == @BITS@),
        w != 0 ==> (w as int) % pow2(mp_tz(w) as int) == 0 && ((w as int) / pow2(mp_tz(w) as int)) % 2 == 1
            && (w >> mp_tz(w)) as int == (w as int) / pow2(mp_tz(w) as int),
{
    let r = mp_tz(w);
    vstd::std_specs::bits::axiom_@W@_trailing_zeros(w);
    if r < @BITS@ {
        let rw = r as @W@;
        let up = (@BITS@ - r) as @W@;
        assert(sub(@BITS@ as @W@, rw) == up);
        assert(w << up == 0);
        assert(((w >> rw) & 1) == 1);
        let t = w >> r;
        assert(t % 2 == 1 && (t << r) == w) by (bit_vector)
            requires r < @BITS@, rw == r as @W@, up == @BITS@ - rw, w << up == 0, ((w >> rw) & 1) == 1, t == w >> r;
        lemma_sh_low_clear(w, r);
        lemma_sh_shr_div_w(w, r);
    }
}

/// (x >> s) == x / 2^s for double words
pub proof fn lemma_mp_shr_div_d(x: @D@, s: u32)
    requires s < 2 * @BITS@,
    ensures (x >> s) as int == (x as int) / pow2(s as int),
    decreases s
{
    if s == 0 {
        assert(x >> 0u32 == x) by (bit_vector);
        vstd::arithmetic::div_mod::lemma_fundamental_div_mod_converse(x as int, 1, x as int, 0);
    } else {
        let s1 = (s - 1) as u32;
        lemma_mp_shr_div_d(x, s1);
        let y = x >> s1;
        assert(x >> s == y >> 1u32) by (bit_vector) requires 0 < s < 2 * @BITS@, s1 == s - 1, y == x >> s1;
        assert(y >> 1u32 == y / 2) by (bit_vector);
        lemma_sh_pow2_pos(s1 as int);
        lemma_mp_divdiv(x as int, pow2(s1 as int), 2);
        assert(pow2(s as int) == 2 * pow2(s1 as int));
        assert(pow2(s1 as int) * 2 == pow2(s as int));
    }
}

/// `1usize << s` is 2^s
pub proof fn lemma_mp_one_shl_usize(s: u32)
    requires s < 64,
    ensures (1usize << s) as int == pow2(s as int), 1 <= pow2(s as int) <= usize::MAX,
{
    lemma_sh_one_shl_d(s);
    lemma_sh_pow2_pos(s as int);
    assert((1usize << s) as @D@ == ((1 as @D@) << s)) by (bit_vector) requires s < 64;
}

/// the masked low word of the shifted double word:  (split_dword(dw >> s).0 & ones_word(wl))  ==  (dw / 2^s) mod 2^wl
pub proof fn lemma_mp_window_words(dw: @D@, s: u32, w0: @W@, hi: @W@, ones: @W@, wl: u32)
    requires s < 2 * @BITS@, 1 <= wl < @BITS@, w0 as int + (hi as int) * B() == (dw >> s) as int,
        ones as int == pow2(wl as int) - 1,
    ensures ((w0 & ones) as int) == ((dw as int) / pow2(s as int)) % pow2(wl as int),
{
    let x = (dw as int) / pow2(s as int);
    let pl = pow2(wl as int);
    lemma_mp_shr_div_d(dw, s);
    lemma_sh_pow2_pos(wl as int);
    vstd::arithmetic::div_mod::lemma_fundamental_div_mod_converse(x, B(), hi as int, w0 as int);
    assert(w0 as int == x % B());
    // r = w0 & ones == w0 % 2^wl
    let m1 = (1 as @W@) << wl;
    lemma_sh_one_shl_w(wl);
    assert(ones == (m1 - 1) as @W@);
    let r = w0 & ones;
    let d = (w0 - r) as @W@;
    assert(r <= ones && r <= w0 && ((d >> wl) << wl) == d) by (bit_vector)
        requires wl < @BITS@, m1 == (1 as @W@) << wl, ones == (m1 - 1) as @W@, r == w0 & ones, d == (w0 - r) as @W@;
    lemma_sh_low_clear(d, wl);
    lemma_mp_exact_div(d as int, pl);
    let q = (d as int) / pl;
    assert(w0 as int == q * pl + r as int);
    vstd::arithmetic::div_mod::lemma_fundamental_div_mod_converse(w0 as int, pl, q, r as int);
    // (x % B) % 2^wl == x % 2^wl
    lemma_mp_pow2_split(wl as int, @BITS@);
    lemma_sh_pow2_bits();
    vstd::arithmetic::div_mod::lemma_mod_mod(x, pl, pow2(@BITS@ - wl as int));
}

pub proof fn lemma_mp_odd_and1(w: @W@)
    requires (w as int) % 2 == 1,
    ensures w & 1 == 1, (w >> 1u32) as int == (w as int) / 2, w as int == 2 * ((w >> 1u32) as int) + 1,
{
    assert((w % 2 == 1) ==> (w & 1 == 1 && w == 2 * (w >> 1u32) + 1 && (w >> 1u32) == w / 2)) by (bit_vector);
}

// ---- exponent bookkeeping of the main loop ------------------------------------------------------------------------------

/// 2^(bit+1) <= val(w)  ==>  the word holding bit `bit` exists
pub proof fn lemma_mp_bit_in_range(w: Seq<Word>, bit: int)
    requires bit >= 0, pow2(bit + 1) <= val(w),
    ensures bit / @BITS@ < w.len(),
{
    let len = w.len() as int;
    lemma_valn_bound(w, len);
    lemma_mp_pw_pow2(len);
    if bit + 1 >= @BITS@ * len {
        assert(@BITS@ * len >= 0) by (nonlinear_arith) requires len >= 0;
        lemma_sh_pow2_mono(@BITS@ * len, bit + 1);
        assert(false);
    }
}

/// E >> bit == 2 * (E >> (bit+1)) + [bit `bit` of E]
pub proof fn lemma_mp_bit_step(e: int, bit: int)
    requires e >= 0, bit >= 0,
    ensures e / pow2(bit) == 2 * (e / pow2(bit + 1)) + (e / pow2(bit)) % 2, e / pow2(bit + 1) >= 0, e / pow2(bit) >= 0,
{
    lemma_sh_pow2_pos(bit);
    lemma_mp_divdiv(e, pow2(bit), 2);
    assert(pow2(bit) * 2 == pow2(bit + 1));
    let x = e / pow2(bit);
    vstd::arithmetic::div_mod::lemma_fundamental_div_mod(x, 2);
    vstd::arithmetic::div_mod::lemma_div_pos_is_pos(e, pow2(bit));
    vstd::arithmetic::div_mod::lemma_div_pos_is_pos(x, 2);
}

/// the leading bit: 2^(l-1) <= E < 2^l  ==>  E >> (l-1) == 1
pub proof fn lemma_mp_top_bit(e: int, l: int)
    requires l >= 1, pow2(l - 1) <= e < pow2(l),
    ensures e / pow2(l - 1) == 1,
{
    lemma_sh_pow2_pos(l - 1);
    vstd::arithmetic::div_mod::lemma_fundamental_div_mod_converse(e, pow2(l - 1), 1, e - pow2(l - 1));
}

/// K * 2^(i-1) doubled
pub proof fn lemma_mp_sqr_exp(k: int, i: int)
    requires i >= 1, k >= 0,
    ensures k * pow2(i - 1) + k * pow2(i - 1) == k * pow2(i), k * pow2(i - 1) >= 0,
{
    lemma_sh_pow2_pos(i - 1);
    assert(k * pow2(i - 1) + k * pow2(i - 1) == k * pow2(i)) by (nonlinear_arith) requires pow2(i) == 2 * pow2(i - 1);
    assert(k * pow2(i - 1) >= 0) by (nonlinear_arith) requires k >= 0, pow2(i - 1) >= 1;
}

/// (2*k0) * 2^(nb-1) + win == k0 * 2^nb + win
pub proof fn lemma_mp_window_exp(k0: int, nb: int, win: int, x: int)
    requires nb >= 1, x == k0 * pow2(nb) + win,
    ensures (2 * k0) * pow2(nb - 1) + win == x,
{
    assert((2 * k0) * pow2(nb - 1) == k0 * pow2(nb)) by (nonlinear_arith) requires pow2(nb) == 2 * pow2(nb - 1);
}

/// the table index of an odd window of at most wl bits
pub proof fn lemma_mp_entry_idx(win: int, nb: int, wl: int, idx: int)
    requires 1 <= nb <= wl, 1 <= win < pow2(nb), win % 2 == 1, idx == win / 2,
    ensures 0 <= idx < pow2(wl - 1), win == 2 * idx + 1,
{
    vstd::arithmetic::div_mod::lemma_fundamental_div_mod(win, 2);
    lemma_sh_pow2_mono(nb, wl);
    assert(pow2(wl) == 2 * pow2(wl - 1));
}

pub proof fn lemma_mp_div1(e: int)
    ensures e / pow2(0) == e,
{
    assert(pow2(0) == 1);
    vstd::arithmetic::div_mod::lemma_fundamental_div_mod_converse(e, 1, e, 0);
}

pub proof fn lemma_mp_div_nonneg(e: int, k: int)
    requires e >= 0,
    ensures e / pow2(k) >= 0,
{
    lemma_sh_pow2_pos(k);
    vstd::arithmetic::div_mod::lemma_div_pos_is_pos(e, pow2(k));
}

/// choose_pow_window_len: the cost expression `(1 << (w-1)) - 1 + n / (w+1)` of a window width w < 64 does not overflow
pub open spec fn mp_cost_ok(n: usize, w: u32) -> bool {
    1 <= w < 64 && (1usize << ((w - 1) as u32)) >= 1
        && (1usize << ((w - 1) as u32)) as int - 1 + (n as int) / (w as int + 1) <= usize::MAX
}

pub proof fn lemma_mp_cost_ok(n: usize, w: u32)
    requires 1 <= w < 64,
    ensures mp_cost_ok(n, w),
{
    lemma_mp_one_shl_usize((w - 1) as u32);
    lemma_sh_pow2_mono(w as int - 1, 62);
    assert(pow2(62) == 0x4000_0000_0000_0000) by (compute);
    let k = w as int + 1;
    let q = (n as int) / k;
    vstd::arithmetic::div_mod::lemma_fundamental_div_mod(n as int, k);
    vstd::arithmetic::div_mod::lemma_mod_bound(n as int, k);
    vstd::arithmetic::div_mod::lemma_div_pos_is_pos(n as int, k);
    assert(2 * q <= n as int) by (nonlinear_arith) requires n as int == k * q + (n as int) % k, (n as int) % k >= 0, k >= 2, q >= 0;
}
