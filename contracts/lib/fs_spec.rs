// ---- fs_spec.rs: ONE statement per operation for all call forms of the FBig digit shifts (float/src/shift.rs) and of the
// sign operations (float/src/sign.rs).  C15: every form is proved against the SAME predicate, so agreement of the forms
// is immediate.  Needs round_prelude.rs, round_int_stubs.rs, round_float_repr.rs, conv_fbig_stubs.rs, farith_add_stubs.rs
// (sgn_apply).  Only mathematical integers; nothing here is taken from the code.

/// finite operand: not (significand 0, exponent != 0)   (float/src/repr.rs: a zero significand with a non-zero exponent
/// encodes an infinity, its sign is the sign of the exponent)
pub open spec fn fs_finite<R: Round, const B: Word>(f: FBig<R, B>) -> bool {
    !(f.repr.significand.v() == 0 && f.repr.exponent != 0)
}
/// precondition of `x << n` / `x >> -n` in every form: finite operand ("arithmetic on infinities" is a documented
/// panic), and the new exponent is an isize (resource limit: exponent overflow is a documented panic (C16), not modelled)
pub open spec fn fs_shift_req<R: Round, const B: Word>(f: FBig<R, B>, n: int) -> bool {
    &&& fs_finite(f)
    &&& (f.repr.significand.v() != 0 ==> isize::MIN <= f.repr.exponent + n <= isize::MAX)
}
/// r is x * B^n, exactly: same significand, same context, exponent + n; the number zero stays (0, 0)
/// (`<<` by rhs is n = rhs, `>>` by rhs is n = -rhs)
pub open spec fn fs_shift_post<R: Round, const B: Word>(x: FBig<R, B>, n: int, r: FBig<R, B>) -> bool {
    &&& r.repr.significand.v() == x.repr.significand.v()
    &&& r.context.precision == x.context.precision
    &&& (x.repr.significand.v() == 0 ==> r.repr.exponent == 0)
    &&& (x.repr.significand.v() != 0 ==> r.repr.exponent == x.repr.exponent + n)
}
/// value level: rs * b^re == (xs * b^xe) * b^n, for n of either sign (integers only: the negative power goes to the other side)
pub open spec fn fs_scaled(b: int, xs: int, xe: int, n: int, rs: int, re: int) -> bool {
    if n >= 0 { same_value(b, rs, re, xs * ipow(b, n as nat), xe) } else { same_value(b, rs * ipow(b, (-n) as nat), re, xs, xe) }
}
/// the representation-level statement is the value-level one (x finite), and the result is finite again
pub proof fn lemma_fs_shift_value<R: Round, const B: Word>(x: FBig<R, B>, n: int, r: FBig<R, B>)
    requires fs_shift_req(x, n), fs_shift_post(x, n, r)
    ensures fs_finite(r),
        fs_scaled(B as int, x.repr.significand.v(), x.repr.exponent as int, n, r.repr.significand.v(), r.repr.exponent as int),
{
    let b = B as int;
    let xs = x.repr.significand.v();
    let xe = x.repr.exponent as int;
    let re = r.repr.exponent as int;
    reveal_with_fuel(ipow, 2);
    if xs == 0 {
        // 0 * anything
        assert(xe == 0 && re == 0);
        if n >= 0 {
            let p = ipow(b, n as nat);
            assert(0 * p == 0) by (nonlinear_arith);
            assert(ipow(b, 0) == 1);
        } else {
            let p = ipow(b, (-n) as nat);
            assert(0 * p == 0) by (nonlinear_arith);
            assert(ipow(b, 0) == 1);
        }
    } else {
        assert(re == xe + n);
        if n > 0 {
            // re > xe: xs * b^n == rs * b^(re - xe)
            assert((re - xe) as nat == n as nat);
        } else if n == 0 {
            assert(ipow(b, 0) == 1);
            let t = xs * ipow(b, 0);
            assert(t == xs);
        } else {
            assert((xe - re) as nat == (-n) as nat);
        }
    }
}
/// both shift directions undo each other on the representation (sanity of the statement: `(x << n) >> n == x`)
pub proof fn lemma_fs_shift_inverse<R: Round, const B: Word>(x: FBig<R, B>, n: int, y: FBig<R, B>, z: FBig<R, B>)
    requires fs_shift_req(x, n), fs_shift_post(x, n, y), fs_shift_post(y, -n, z)
    ensures z.repr.significand.v() == x.repr.significand.v(), z.repr.exponent == x.repr.exponent, z.context.precision == x.context.precision
{
}

/// r is x with the sign `s` applied (Positive keeps, Negative negates): significand s * x.significand, same exponent,
/// same context.  `-x` (owned and borrowed), `Sign::Negative * x`, `x * Sign::Negative`, `x *= Sign::Negative` are all
/// s = Negative.  For a finite x this is the value s * x; for an infinity (significand 0) it is x itself: see the
/// observation in the unit header.
pub open spec fn fs_sign_post<R: Round, const B: Word>(x: FBig<R, B>, s: Sign, r: FBig<R, B>) -> bool {
    &&& r.repr.significand.v() == sgn_apply(s, x.repr.significand.v())
    &&& r.repr.exponent == x.repr.exponent
    &&& r.context.precision == x.context.precision
}
/// |x|: magnitude of the significand, same exponent and context
pub open spec fn fs_abs_post<R: Round, const B: Word>(x: FBig<R, B>, r: FBig<R, B>) -> bool {
    &&& r.repr.significand.v() == iabs(x.repr.significand.v())
    &&& r.repr.exponent == x.repr.exponent
    &&& r.context.precision == x.context.precision
}
/// the sign of the VALUE of a float: Positive for zero (library convention) and +inf, Negative for -inf
pub open spec fn fs_sign_of<const B: Word>(x: Repr<B>) -> Sign {
    if x.significand.v() != 0 { sign_of(x.significand.v()) } else if x.exponent >= 0 { Sign::Positive } else { Sign::Negative }
}
/// -1 / 0 / 1 according to the value (infinities included, float/src/sign.rs doc of `signum`)
pub open spec fn fs_signum_of<const B: Word>(x: Repr<B>) -> int {
    if x.significand.v() > 0 { 1 } else if x.significand.v() < 0 { -1 } else if x.exponent > 0 { 1 } else if x.exponent < 0 { -1 } else { 0 }
}
/// value-level reading of fs_sign_post for the scaled-integer pair: (s*m) * b^e == s * (m * b^e) needs no lemma; what
/// is worth a check is that negation is an involution and that abs is sign-application by the operand's own sign
pub proof fn lemma_fs_sign_sanity<R: Round, const B: Word>(x: FBig<R, B>, y: FBig<R, B>, z: FBig<R, B>)
    requires fs_sign_post(x, Sign::Negative, y), fs_sign_post(y, Sign::Negative, z)
    ensures z.repr.significand.v() == x.repr.significand.v(), z.repr.exponent == x.repr.exponent, z.context.precision == x.context.precision,
        fs_abs_post(x, y) <==> x.repr.significand.v() <= 0,
{
}
