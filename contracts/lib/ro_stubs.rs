// ---- ro_stubs.rs: the items of float/src/fbig.rs and float/src/utils.rs that float/src/round_ops.rs and
// `FBig::to_int` (float/src/convert.rs) use and that are not verified inside unit float_round_ops.
// Needs round_prelude.rs, round_int_stubs.rs, round_float_repr.rs.  Followed by lib/ebounds_stubs.rs (FBig::ZERO, Clone for
// FBig, Copy for Context).  `Repr::smaller_than_one` is deliberately NOT stubbed here (lib/conv_fbig_stubs.rs assumes its
// enclosure): unit float_round_ops PROVES it from the contract of `digits_ub`.  Everything below is TRUSTED.

// float/src/fbig.rs `pub struct FBig<RoundingMode: Round, const BASE: Word>` -- transcription (two fields)
// (same text as in lib/conv_fbig_stubs.rs)
pub struct FBig<RoundingMode: Round, const BASE: Word> {
    pub repr: Repr<BASE>,
    pub context: Context<RoundingMode>,
}

/// utils::shl_digits: "Left shifting in given radix, i.e. multiply by a power of radix"
/// (same contract as in lib/conv_fbig_stubs.rs)
#[verifier::external_body]
pub fn shl_digits<const B: Word>(value: &IBig, exp: usize) -> (r: IBig)
    requires B >= 2,
        pos_room(exp as int),        // resource limit: exponent overflow is a documented panic (C16), not modelled
    ensures r.v() == value.v() * ipow(B as int, exp as nat)
{ unimplemented!() }
/// utils::shr_digits: "Right shifting in given radix, i.e. divide by a power of radix"; the MAGNITUDE is shifted
/// (shr_ref) resp. IBig `/` is used, both truncate towards zero  (same contract as in lib/conv_fbig_stubs.rs)
#[verifier::external_body]
pub fn shr_digits<const B: Word>(value: &IBig, exp: usize) -> (r: IBig)
    requires B >= 2,
        pos_room(exp as int),        // resource limit: exponent overflow is a documented panic (C16), not modelled
    ensures exists|lo: int| #[trigger] is_trunc_divrem(value.v(), ipow(B as int, exp as nat), r.v(), lo)
{ unimplemented!() }

impl<R: Round, const B: Word> FBig<R, B> {
    /// float/src/fbig.rs `pub const ONE: Self = Self::new(Repr::one(), Context::new(0))`, Repr::one() = { IBig::ONE, 0 }
    #[verifier::external_body]
    pub const ONE: Self = FBig { repr: Repr { significand: IBig::ZERO, exponent: 0 }, context: Context { precision: 0, _marker: core::marker::PhantomData } };
    /// float/src/fbig.rs `pub const NEG_ONE: Self = Self::new(Repr::neg_one(), Context::new(0))`, Repr::neg_one() = { IBig::NEG_ONE, 0 }
    #[verifier::external_body]
    pub const NEG_ONE: Self = FBig { repr: Repr { significand: IBig::ZERO, exponent: 0 }, context: Context { precision: 0, _marker: core::marker::PhantomData } };
}
pub broadcast axiom fn ro_fbig_one_const<R: Round, const B: Word>()
    ensures #![trigger FBig::<R, B>::ONE]
        FBig::<R, B>::ONE.repr.significand.v() == 1 && FBig::<R, B>::ONE.repr.exponent == 0 && FBig::<R, B>::ONE.context.precision == 0;
pub broadcast axiom fn ro_fbig_neg_one_const<R: Round, const B: Word>()
    ensures #![trigger FBig::<R, B>::NEG_ONE]
        FBig::<R, B>::NEG_ONE.repr.significand.v() == -1 && FBig::<R, B>::NEG_ONE.repr.exponent == 0 && FBig::<R, B>::NEG_ONE.context.precision == 0;
