// ---- leh_gcd_lemmas.rs: lemmas for integer/src/gcd/lehmer.rs gcd_in_place / gcd_ext_in_place (C12). Word = @W@ ---------
// Needs lib/prelude.rs, lib/gcdo_stubs.rs (lemma_gcdo_div_comb), lib/gcdo_ops_stubs.rs (gcdo_is_gcd), lib/leh_guess_lemmas.rs.

pub assume_specification [core::cmp::Ordering::is_le] (o: core::cmp::Ordering) -> (r: bool)
    ensures r == (o != core::cmp::Ordering::Greater);
pub assume_specification [core::cmp::Ordering::is_ge] (o: core::cmp::Ordering) -> (r: bool)
    ensures r == (o != core::cmp::Ordering::Less);
/// core::mem::replace: "Moves src into the referenced dest, returning the previous dest value"
pub assume_specification<T> [core::mem::replace] (dest: &mut T, src: T) -> (r: T)
    ensures r == *old(dest), *final(dest) == src;

/// d is a common divisor of x and y
pub open spec fn leh_cd(x: int, y: int, d: int) -> bool { d >= 1 && x % d == 0 && y % d == 0 }

/// (x, y) and (l, r) have the same common divisors (hence the same gcd)
pub open spec fn leh_same_cd(x: int, y: int, l: int, r: int) -> bool {
    forall|d: int| #[trigger] leh_cd(x, y, d) == leh_cd(l, r, d)
}

pub proof fn lemma_leh_cd_refl(l: int, r: int)
    ensures leh_same_cd(l, r, l, r),
{
}

pub proof fn lemma_leh_cd_swap(x: int, y: int, l: int, r: int)
    requires leh_same_cd(x, y, l, r),
    ensures leh_same_cd(y, x, l, r),
{
    assert forall|d: int| #[trigger] leh_cd(y, x, d) == leh_cd(l, r, d) by {
        assert(leh_cd(y, x, d) == leh_cd(x, y, d));
    }
}

/// d | u, d | v  ==>  d | p*u + q*v
pub proof fn lemma_leh_div_lin(d: int, p: int, u: int, q: int, v: int)
    requires d >= 1, u % d == 0, v % d == 0,
    ensures (p * u + q * v) % d == 0,
{
    vstd::arithmetic::div_mod::lemma_small_mod(0, d as nat);
    lemma_gcdo_div_comb(d, q, v, 0);
    lemma_gcdo_div_comb(d, p, u, q * v);
}

/// an invertible integer change of the pair keeps the common divisors
pub proof fn lemma_leh_cd_lin(x: int, y: int, x1: int, y1: int, p1: int, q1: int, p2: int, q2: int,
    s1: int, t1: int, s2: int, t2: int, l: int, r: int)
    requires leh_same_cd(x, y, l, r),
        x1 == p1 * x + q1 * y, y1 == p2 * x + q2 * y, x == s1 * x1 + t1 * y1, y == s2 * x1 + t2 * y1,
    ensures leh_same_cd(x1, y1, l, r),
{
    assert forall|d: int| #[trigger] leh_cd(x1, y1, d) == leh_cd(l, r, d) by {
        assert(leh_cd(x, y, d) == leh_cd(l, r, d));
        if leh_cd(x, y, d) { lemma_leh_div_lin(d, p1, x, q1, y); lemma_leh_div_lin(d, p2, x, q2, y); }
        if leh_cd(x1, y1, d) { lemma_leh_div_lin(d, s1, x1, t1, y1); lemma_leh_div_lin(d, s2, x1, t2, y1); }
    }
}

/// Lehmer step: (x1, y1) == (a x - b y, d y - c x) with the inverse relations of a unimodular matrix
pub proof fn lemma_leh_cd_unimod(x: int, y: int, a: int, b: int, c: int, d: int, x1: int, y1: int, l: int, r: int)
    requires leh_same_cd(x, y, l, r), x1 == a * x - b * y, y1 == d * y - c * x, x == d * x1 + b * y1, y == c * x1 + a * y1,
    ensures leh_same_cd(x1, y1, l, r),
{
    assert((-b) * y == -(b * y)) by (nonlinear_arith);
    assert((-c) * x == -(c * x)) by (nonlinear_arith);
    lemma_leh_cd_lin(x, y, x1, y1, a, -b, -c, d, d, b, c, a, l, r);
}

/// Euclidean step: x == q*y + r1  ==>  (y, r1) has the common divisors of (x, y)
pub proof fn lemma_leh_cd_euclid(x: int, y: int, q: int, r1: int, l: int, r: int)
    requires leh_same_cd(x, y, l, r), x == q * y + r1,
    ensures leh_same_cd(y, r1, l, r),
{
    assert(0 * x + 1 * y == y);
    assert(1 * x + (-q) * y == r1) by (nonlinear_arith) requires x == q * y + r1;
    assert(q * y + 1 * r1 == x);
    assert(1 * y + 0 * r1 == y);
    lemma_leh_cd_lin(x, y, y, r1, 0, 1, 1, -q, q, 1, 1, 0, l, r);
}

/// the gcd of a pair with the same common divisors
pub proof fn lemma_leh_cd_gcd(g: int, x: int, y: int, l: int, r: int)
    requires leh_same_cd(x, y, l, r), gcdo_is_gcd(g, x, y),
    ensures gcdo_is_gcd(g, l, r),
{
    assert(leh_cd(x, y, g) == leh_cd(l, r, g));
    assert forall|d: int| d >= 1 && #[trigger] (l % d) == 0 && r % d == 0 implies g % d == 0 by {
        assert(leh_cd(x, y, d) == leh_cd(l, r, d));
    }
}

/// the division of the normalised operands:  x*P == Q*(y*P) + R, R < y*P   ==>   R == r1*P with x == Q*y + r1, 0 <= r1 < y,
/// and the two un-normalising right shifts are exact
pub proof fn lemma_leh_euclid_norm(x: int, y: int, P: int, Q: int, R: int) -> (r1: int)
    requires x * P == Q * (y * P) + R, 0 <= R < y * P, P >= 1, y >= 1,
    ensures x == Q * y + r1, 0 <= r1 < y, R == r1 * P, R % P == 0, R / P == r1, (y * P) % P == 0, (y * P) / P == y,
{
    let r1 = x - Q * y;
    assert(Q * (y * P) == (Q * y) * P) by (nonlinear_arith);
    assert(r1 * P == x * P - (Q * y) * P) by (nonlinear_arith) requires r1 == x - Q * y;
    assert(r1 >= 0) by (nonlinear_arith) requires r1 * P >= 0, P >= 1;
    assert(r1 < y) by (nonlinear_arith) requires r1 * P < y * P, P >= 1;
    vstd::arithmetic::div_mod::lemma_mod_multiples_basic(r1, P);
    vstd::arithmetic::div_mod::lemma_div_multiples_vanish(r1, P);
    vstd::arithmetic::div_mod::lemma_mod_multiples_basic(y, P);
    vstd::arithmetic::div_mod::lemma_div_multiples_vanish(y, P);
    assert(P * r1 == r1 * P) by (nonlinear_arith);
    assert(P * y == y * P) by (nonlinear_arith);
    r1
}

/// a successful guess (b > 0) needs operands of (almost) the same length:  X < (lim + 1) * Y
pub proof fn lemma_leh_guess_len(X: int, Y: int, a: int, b: int, c: int, d: int, lim: int)
    requires leh_guess_post(X, Y, a, b, c, d, lim), b > 0, X >= 0, Y >= 0,
    ensures X < (lim + 1) * Y,
{
    assert(a * X >= X) by (nonlinear_arith) requires a >= 1, X >= 0;
    assert(b * Y <= lim * Y) by (nonlinear_arith) requires b <= lim, Y >= 0;
    assert((lim + 1) * Y == lim * Y + Y) by (nonlinear_arith);
}

/// after a Lehmer step on x >= B^2 (three words) one of the results still has two words; the sum decreases
pub proof fn lemma_leh_step_size(x: int, y: int, x1: int, y1: int, b: int, d: int)
    requires x == d * x1 + b * y1, 1 <= b <= leh_lim(), 1 <= d <= leh_lim(), x >= B() * B(), x1 >= 0, y1 >= 0, y >= 1,
    ensures x1 >= B() || y1 >= B(), x1 + y1 < x + y,
{
    assert(d * x1 >= x1) by (nonlinear_arith) requires d >= 1, x1 >= 0;
    assert(b * y1 >= y1) by (nonlinear_arith) requires b >= 1, y1 >= 0;
    if x1 < B() && y1 < B() {
        assert(d * x1 <= leh_lim() * B()) by (nonlinear_arith) requires 0 <= d <= leh_lim(), 0 <= x1 <= B();
        assert(b * y1 <= leh_lim() * B()) by (nonlinear_arith) requires 0 <= b <= leh_lim(), 0 <= y1 <= B();
        assert(2 * (leh_lim() * B()) < B() * B()) by (nonlinear_arith) requires leh_lim() == @HALFB@ - 1, B() == 2 * @HALFB@;
    }
}

/// a normalized sequence: value at least B^(len-1); so the longer of two normalized sequences is the larger one
pub proof fn lemma_leh_len_le(x: Seq<Word>, y: Seq<Word>)
    requires x.len() >= 1, x[x.len() - 1] != 0, y.len() >= 1 ==> y[y.len() - 1] != 0, val(x) >= val(y),
    ensures y.len() <= x.len(),
{
    if y.len() > x.len() {
        lemma_gcdo_top_ge(y);
        lemma_valn_bound(x, x.len() as int);
        lemma_leh_pw_mono2(x.len() as int, y.len() - 1);
    }
}
pub proof fn lemma_leh_pw_mono2(a: int, b: int)
    requires a <= b,
    ensures pw(a) <= pw(b),
    decreases b - a
{
    if a < b {
        lemma_leh_pw_mono2(a, b - 1);
        lemma_pw_pos(b - 1);
        if b > 0 { assert(B() * pw(b - 1) >= pw(b - 1)) by (nonlinear_arith) requires pw(b - 1) >= 1, B() >= 1; }
    }
}

/// same length, same value, and the old top word non-zero  ==>  the new top word is non-zero
pub proof fn lemma_leh_top_keeps(s0: Seq<Word>, s1: Seq<Word>)
    requires s0.len() >= 1, s1.len() == s0.len(), s0[s0.len() - 1] != 0, val(s1) == val(s0),
    ensures s1[s1.len() - 1] != 0,
{
    lemma_gcdo_top_ge(s0);
    if s1[s1.len() - 1] == 0 {
        lemma_valn_bound(s1, s1.len() - 1);
        assert(0 * pw(s1.len() - 1) == 0);
    }
}

/// value >= B  ==>  at least two words
pub proof fn lemma_leh_two_words(s: Seq<Word>)
    requires val(s) >= B(),
    ensures s.len() >= 2,
{
    lemma_valn_bound(s, s.len() as int);
    if s.len() <= 1 { assert(pw(1) == B() * pw(0)); assert(pw(0) == 1); assert(pw(1) == B()); lemma_leh_pw_mono2(s.len() as int, 1); }
}

/// three words, normalized: value >= B^2
pub proof fn lemma_leh_three_words(s: Seq<Word>)
    requires s.len() >= 3, s[s.len() - 1] != 0,
    ensures val(s) >= B() * B(),
{
    lemma_gcdo_top_ge(s);
    lemma_leh_pw_mono2(2, s.len() - 1);
    assert(pw(2) == B() * pw(1)); assert(pw(1) == B() * pw(0)); assert(pw(0) == 1);
    assert(pw(1) == B());
}

/// the empty / all-zero slice has value 0 (trim_leading_zeros returns the empty slice for zero)
pub proof fn lemma_leh_val_empty(s: Seq<Word>)
    requires s.len() == 0,
    ensures val(s) == 0,
{
}
