// ---- ratio2_cmp_lemmas.rs: soundness of the bit-length shortcuts of rational/src/cmp.rs (C05), from the enclosure
// `bits_encl` alone.  Needs lib/ratio_lemmas.rs, lib/bigstub.rs (cmp_int), lib/ratio2_cmp_stubs.rs (bits_encl).

// the order / equality of two fractions with positive denominators, cross-multiplied
pub open spec fn ratio_cmp_spec(abs: bool, a: int, b: int, c: int, d: int) -> Ordering {
    if abs { cmp_int(rabs(a) * d, rabs(c) * b) } else { cmp_int(a * d, c * b) }
}
pub open spec fn ratio_eq_spec(abs: bool, a: int, b: int, c: int, d: int) -> bool {
    if abs { rabs(a) * d == rabs(c) * b } else { a * d == c * b }
}

// x with p bits times y with q bits (both non-zero) lies in [2^(p+q-2), 2^(p+q))
pub proof fn lemma_bits_prod(x: int, p: int, y: int, q: int)
    requires x > 0, y > 0, bits_encl(x, p), bits_encl(y, q)
    ensures pow2((p + q - 2) as nat) <= x * y < pow2((p + q) as nat)
{
    let lx = pow2((p - 1) as nat) as int; let ux = pow2(p as nat) as int;
    let ly = pow2((q - 1) as nat) as int; let uy = pow2(q as nat) as int;
    vstd::arithmetic::power2::lemma_pow2_adds((p - 1) as nat, (q - 1) as nat);
    vstd::arithmetic::power2::lemma_pow2_adds(p as nat, q as nat);
    vstd::arithmetic::power2::lemma_pow2_pos((p - 1) as nat);
    vstd::arithmetic::power2::lemma_pow2_pos((q - 1) as nat);
    assert(lx * ly <= x * y) by (nonlinear_arith) requires 0 < lx <= x, 0 < ly <= y;
    assert(x * y < ux * uy) by (nonlinear_arith) requires 0 < x < ux, 0 < y < uy;
}

// s1 >= s2 + 2 bits apart: the product with the larger bit sum is strictly larger
pub proof fn lemma_bits_gap(x1: int, p1: int, y1: int, q1: int, x2: int, p2: int, y2: int, q2: int)
    requires x1 > 0, y1 > 0, x2 >= 0, y2 > 0, bits_encl(x1, p1), bits_encl(y1, q1), bits_encl(x2, p2), bits_encl(y2, q2),
        p1 + q1 >= p2 + q2 + 2
    ensures x1 * y1 > x2 * y2
{
    lemma_bits_prod(x1, p1, y1, q1);
    if x2 == 0 {
        vstd::arithmetic::power2::lemma_pow2_pos((p1 + q1 - 2) as nat);
        assert(x2 * y2 == 0) by (nonlinear_arith) requires x2 == 0;
    } else {
        lemma_bits_prod(x2, p2, y2, q2);
        if p1 + q1 - 2 > p2 + q2 {
            vstd::arithmetic::power2::lemma_pow2_strictly_increases((p2 + q2) as nat, (p1 + q1 - 2) as nat);
        }
    }
}
