// ---- no_int_ord_stubs.rs: what integer/src/third_party/num_order.rs (NumOrd arms between UBig / IBig, primitive integers and
// f32 / f64) needs beyond lib/bigstub.rs, lib/ratio2_cmp_stubs.rs, lib/gcdo_numord_stubs.rs, lib/no_ord_stubs.rs, lib/no_prim_stubs.rs
// (include after them).  Every external_body is TRUSTED and states what the real function does on the values.
pub mod no_int_ord_stubs {
use super::*;
use vstd::std_specs::ops::*;
use vstd::std_specs::cmp::{OrdSpecImpl, PartialOrdSpecImpl, PartialEqSpecImpl};
use vstd::arithmetic::power2::*;
use core::ops::Shl;
use core::cmp::Ordering;

// integer/src/primitive.rs PrimitiveUnsigned / PrimitiveSigned: here only "a primitive integer with a value"
pub trait PrimVal: Copy { spec fn pv(self) -> int; }
impl PrimVal for u8 { open spec fn pv(self) -> int { self as int } }
impl PrimVal for u16 { open spec fn pv(self) -> int { self as int } }
impl PrimVal for u32 { open spec fn pv(self) -> int { self as int } }
impl PrimVal for u64 { open spec fn pv(self) -> int { self as int } }
impl PrimVal for u128 { open spec fn pv(self) -> int { self as int } }
impl PrimVal for usize { open spec fn pv(self) -> int { self as int } }
impl PrimVal for i8 { open spec fn pv(self) -> int { self as int } }
impl PrimVal for i16 { open spec fn pv(self) -> int { self as int } }
impl PrimVal for i32 { open spec fn pv(self) -> int { self as int } }
impl PrimVal for i64 { open spec fn pv(self) -> int { self as int } }
impl PrimVal for i128 { open spec fn pv(self) -> int { self as int } }
impl PrimVal for isize { open spec fn pv(self) -> int { self as int } }
// integer/src/convert.rs UBig::from_unsigned / IBig::from_unsigned / IBig::from_signed: value-exact (C06)
impl UBig {
    #[verifier::external_body]
    pub fn from_unsigned<T: PrimVal>(x: T) -> (r: UBig) requires x.pv() >= 0 ensures r.v() == x.pv() { unimplemented!() }
}
impl IBig {
    #[verifier::external_body]
    pub fn from_unsigned<T: PrimVal>(x: T) -> (r: IBig) requires x.pv() >= 0 ensures r.v() == x.pv() { unimplemented!() }
    #[verifier::external_body]
    pub fn from_signed<T: PrimVal>(x: T) -> (r: IBig) ensures r.v() == x.pv() { unimplemented!() }
}
// integer/src/repr.rs TypedReprRef (magnitude view) -- opaque, value tv(); `impl Ord for TypedReprRef` (integer/src/cmp.rs)
// compares the values; IBig::as_sign_repr splits into sign (zero is Positive) and magnitude, UBig::repr is the magnitude
#[verifier::external_body]
pub struct TypedReprRef<'a> { _p: &'a u8 }
impl<'a> TypedReprRef<'a> { pub uninterp spec fn tv(&self) -> int; }
impl<'a> PartialEqSpecImpl for TypedReprRef<'a> {
    open spec fn obeys_eq_spec() -> bool { false }
    open spec fn eq_spec(&self, other: &TypedReprRef<'a>) -> bool { self.tv() == other.tv() }
}
impl<'a> PartialOrdSpecImpl for TypedReprRef<'a> {
    open spec fn obeys_partial_cmp_spec() -> bool { true }
    open spec fn partial_cmp_spec(&self, other: &TypedReprRef<'a>) -> Option<Ordering> { Some(cmp_int(self.tv(), other.tv())) }
}
impl<'a> OrdSpecImpl for TypedReprRef<'a> {
    open spec fn obeys_cmp_spec() -> bool { true }
    open spec fn cmp_spec(&self, other: &TypedReprRef<'a>) -> Ordering { cmp_int(self.tv(), other.tv()) }
}
impl<'a> PartialEq for TypedReprRef<'a> { #[verifier::external_body] fn eq(&self, other: &Self) -> bool { unimplemented!() } }
impl<'a> Eq for TypedReprRef<'a> {}
impl<'a> PartialOrd for TypedReprRef<'a> { #[verifier::external_body] fn partial_cmp(&self, other: &Self) -> Option<Ordering> { unimplemented!() } }
impl<'a> Ord for TypedReprRef<'a> { #[verifier::external_body] fn cmp(&self, other: &Self) -> Ordering { unimplemented!() } }
impl IBig {
    #[verifier::external_body]
    pub fn as_sign_repr(&self) -> (r: (Sign, TypedReprRef<'_>))
        ensures r.0 == (if self.v() < 0 { Sign::Negative } else { Sign::Positive }), r.1.tv() == rabs(self.v())
    { unimplemented!() }
}
impl UBig {
    #[verifier::external_body]
    pub fn repr(&self) -> (r: TypedReprRef<'_>) ensures r.tv() == self.v() { unimplemented!() }
}
// integer/src/shift_ops.rs: `IBig << usize`, `&IBig << usize`: exact multiplication by 2^n (C09)
impl ShlSpecImpl<usize> for IBig {
    open spec fn obeys_shl_spec() -> bool { true }
    open spec fn shl_req(self, rhs: usize) -> bool { true }
    open spec fn shl_spec(self, rhs: usize) -> IBig { ibig_of(self.v() * pow2(rhs as nat)) }
}
impl Shl<usize> for IBig { type Output = IBig;
    #[verifier::external_body]
    fn shl(self, rhs: usize) -> IBig { unimplemented!() }
}
impl<'a> ShlSpecImpl<usize> for &'a IBig {
    open spec fn obeys_shl_spec() -> bool { true }
    open spec fn shl_req(self, rhs: usize) -> bool { true }
    open spec fn shl_spec(self, rhs: usize) -> IBig { ibig_of(self.v() * pow2(rhs as nat)) }
}
impl<'a> Shl<usize> for &'a IBig { type Output = IBig;
    #[verifier::external_body]
    fn shl(self, rhs: usize) -> IBig { unimplemented!() }
}

// ---- the property's sentence with the float on the LEFT (cmp_int_float of lib/gcdo_numord_stubs.rs has it on the right; both
// are stated for any integer x)
pub open spec fn cmp_float_int_l(nan: bool, inf: bool, neg: bool, man: int, ex: int, x: int) -> Option<Ordering> {
    if nan { None }
    else if inf { if neg { Some(Ordering::Less) } else { Some(Ordering::Greater) } }
    else if ex >= 0 { Some(cmp_int(man * pow2(ex as nat), x)) }
    else { Some(cmp_int(man, x * pow2((-ex) as nat))) }
}

/// verdict on the magnitudes of an integer and a finite float of the same sign turned into the signed comparison
pub proof fn lemma_if_decide(x: int, m: int, ex: int, neg: bool, gt: bool)
    requires neg ==> x <= 0 && m <= 0, !neg ==> x >= 0 && m >= 0,
        gt && ex >= 0 ==> rabs(x) > rabs(m) * pow2(ex as nat),
        gt && ex < 0 ==> rabs(x) * pow2((-ex) as nat) > rabs(m),
        !gt && ex >= 0 ==> rabs(x) < rabs(m) * pow2(ex as nat),
        !gt && ex < 0 ==> rabs(x) * pow2((-ex) as nat) < rabs(m),
    ensures
        ex >= 0 ==> cmp_int(x, m * pow2(ex as nat)) == (if gt != neg { Ordering::Greater } else { Ordering::Less }),
        ex < 0 ==> cmp_int(x * pow2((-ex) as nat), m) == (if gt != neg { Ordering::Greater } else { Ordering::Less }),
{
    let ae: nat = (if ex >= 0 { ex } else { -ex }) as nat;
    lemma_pow2_pos(ae);
    let p = pow2(ae) as int;
    lemma_scale_sign(m, p);
    lemma_scale_sign(x, p);
}
} // mod no_int_ord_stubs
pub use no_int_ord_stubs::*;
