// ---- dc2_lemmas.rs: lemmas for the constructors / accessors / operator wrappers of integer/src/div_const.rs -----------
// Needs lib/prelude.rs, lib/shift_bv.rs, lib/repr_stubs.rs, lib/div_const_stubs.rs, lib/div_ops_lemmas.rs,
// lib/div_simple_lemmas.rs, lib/dc2_stubs.rs.  Word = @W@.

/// x is a multiple of 2^s: x == (x / 2^s) * 2^s
pub proof fn lemma_dc2_exact(x: int, s: int)
    requires x % pow2(s) == 0,
    ensures x == (x / pow2(s)) * pow2(s),
{
    let p = pow2(s);
    lemma_sh_pow2_pos(s);
    vstd::arithmetic::div_mod::lemma_fundamental_div_mod(x, p);
    assert(p * (x / p) == (x / p) * p) by (nonlinear_arith);
}

/// division with remainder is unique: the (q, r) of `a == q*d + r, 0 <= r < d` are the machine `a / d`, `a % d`
pub proof fn lemma_dc2_unique(a: int, d: int, q: int, r: int)
    requires is_div_rem(a, d, q, r),
    ensures q == a / d, r == a % d,
{
    assert(a == q * d + r);
    vstd::arithmetic::div_mod::lemma_fundamental_div_mod_converse(a, d, q, r);
}
pub proof fn lemma_dc2_unique_q(a: int, d: int, q: int)
    requires is_quotient(a, d, q),
    ensures q == a / d,
{
    let r = choose|r: int| #[trigger] is_div_rem(a, d, q, r);
    lemma_dc2_unique(a, d, q, r);
}
pub proof fn lemma_dc2_unique_r(a: int, d: int, r: int)
    requires is_remainder(a, d, r),
    ensures r == a % d,
{
    let q = choose|q: int| #[trigger] is_div_rem(a, d, q, r);
    lemma_dc2_unique(a, d, q, r);
}

/// MAX_CAPACITY words can be indexed twice over (what ConstLargeDivisor::wf wants of a Buffer's length)
pub proof fn lemma_dc2_maxcap()
    ensures 2 * max_capacity() <= usize::MAX,
{
    assert(2 * ((usize::MAX as int) / @BITS@) <= usize::MAX as int) by (nonlinear_arith);
}

pub proof fn lemma_dc2_pw2()
    ensures pw(2) == B() * B(), pw(1) == B(), pw(0) == 1,
{
    assert(pw(2) == B() * pw(1) && pw(1) == B() * pw(0) && pw(0) == 1);
}

/// a `Large` magnitude (>= 3 words, top word non-zero) is at least B^(len-1) >= B²
pub proof fn lemma_dc2_large_ge(s: Seq<Word>)
    requires repr_stub::large_wf(s),
    ensures val(s) >= pw(s.len() - 1), val(s) >= B() * B(),
{
    let n = s.len() as int;
    lemma_ds_top1(s);
    lemma_pw_pos(n - 1);
    assert((s[n - 1] as int) * pw(n - 1) >= pw(n - 1)) by (nonlinear_arith) requires s[n - 1] as int >= 1, pw(n - 1) >= 1;
    lemma_dc2_pw2();
    lemma_pw_add(2, n - 3);
    lemma_pw_pos(n - 3);
    assert(pw(2) * pw(n - 3) >= pw(2)) by (nonlinear_arith) requires pw(n - 3) >= 1, pw(2) >= 0;
}
pub proof fn lemma_dc2_large_ge_all()
    ensures forall|s: Seq<Word>| #[trigger] repr_stub::large_wf(s) ==> val(s) >= B() * B(),
{
    assert forall|s: Seq<Word>| #[trigger] repr_stub::large_wf(s) implies val(s) >= B() * B() by { lemma_dc2_large_ge(s); }
}

/// what ConstLargeDivisor::new has built once div::normalize returned: n1 = n0 << sh
pub proof fn lemma_dc2_large_new(n0: Seq<Word>, n1: Seq<Word>, sh: int)
    requires repr_stub::large_wf(n0), n1.len() == n0.len(), 0 <= sh, val(n1) == val(n0) * pow2(sh),
    ensures val(n1) % pow2(sh) == 0, val(n1) / pow2(sh) == val(n0), val(n0) >= pw(n1.len() - 1),
{
    let p = pow2(sh);
    lemma_sh_pow2_pos(sh);
    lemma_dc2_large_ge(n0);
    vstd::arithmetic::div_mod::lemma_mod_multiples_basic(val(n0), p);
    vstd::arithmetic::div_mod::lemma_div_multiples_vanish(val(n0), p);
    assert(val(n0) * p == p * val(n0)) by (nonlinear_arith);
}

/// the divisor a well-formed ConstDivisorRepr stands for is positive
pub proof fn lemma_dc2_value_pos(c: ConstDivisorRepr)
    requires c.wf(),
    ensures c.value() >= 1,
{
    match c {
        ConstDivisorRepr::Single(d) => {
            let s = d.0.spec_shift() as int;
            lemma_sh_pow2_pos(s);
            lemma_sh_pow2_mono(s, @BITS@ - 1);
            lemma_sh_pow2_bits();
            assert(pow2(@BITS@) == 2 * pow2(@BITS@ - 1));
            lemma_dc2_exact(d.0.dn(), s);
            let o = d.0.orig();
            let p = pow2(s);
            assert(o >= 1) by (nonlinear_arith) requires o * p >= 1, p >= 1;
        },
        ConstDivisorRepr::Double(d) => {
            let s = d.0.spec_shift() as int;
            lemma_sh_pow2_pos(s);
            lemma_dc2_exact(d.0.dn(), s);
            let o = d.0.orig();
            let p = pow2(s);
            assert(d.0.dn() >= 1) by (nonlinear_arith) requires d.0.dn() >= @HALFB@ * B(), B() >= 1;
            assert(o >= 1) by (nonlinear_arith) requires o * p >= 1, p >= 1;
        },
        ConstDivisorRepr::Large(d) => {
            lemma_pw_pos(d.normalized_divisor@.len() - 1);
        },
    }
}

/// C02 for a signed dividend a = s·m (m = |a|) and a positive divisor: q = s·(m / d), r = s·(m % d) is the truncating
/// division: a == q·d + r, |r| < d, r == 0 or sign(r) == sign(a)
pub proof fn lemma_dc2_trunc(a: int, d: int)
    requires d >= 1,
    ensures dc2_trunc_ok(a, d, dc2_tq(a, d), dc2_tr(a, d)),
{
    let m = iabs(a);
    vstd::arithmetic::div_mod::lemma_fundamental_div_mod(m, d);
    vstd::arithmetic::div_mod::lemma_mod_bound(m, d);
    let q = m / d;
    let r = m % d;
    assert(d * q == q * d) by (nonlinear_arith);
    assert((-q) * d == -(q * d)) by (nonlinear_arith);
}

/// floor division and remainder of a non-negative number by a positive one are non-negative / below the divisor
pub proof fn lemma_dc2_nonneg(m: int, d: int)
    requires m >= 0, d >= 1,
    ensures m / d >= 0, 0 <= m % d < d,
{
    vstd::arithmetic::div_mod::lemma_div_pos_is_pos(m, d);
    vstd::arithmetic::div_mod::lemma_mod_bound(m, d);
}

/// a number below twice the divisor needs at most one subtraction (what div_rem_1by1 / div_rem_2by2 do for a
/// normalized divisor): hints that let a hand-written compare-and-subtract be judged by the contract
pub proof fn lemma_dc2_one_sub(x: int, d: int)
    requires 0 <= x, d >= 1,
    ensures x < d ==> x % d == x, d <= x < 2 * d ==> x % d == x - d,
{
    if x < d {
        vstd::arithmetic::div_mod::lemma_small_mod(x as nat, d as nat);
    } else if x < 2 * d {
        vstd::arithmetic::div_mod::lemma_fundamental_div_mod_converse(x, d, 1, x - d);
    }
}
pub proof fn lemma_dc2_one_sub_lo(x: int, d: int)
    requires 0 <= x, d >= 1,
    ensures x < d ==> x % d == x,
{
    lemma_dc2_one_sub(x, d);
}
