// ---- pow_lemmas.rs: integer powers and the bit walk of left-to-right square-and-multiply (pow.rs) -------------------

/// b^e for e >= 0 (1 for e <= 0): the mathematical power of the property statement
pub open spec fn ipow(b: int, e: int) -> int
    decreases e
{
    if e <= 0 { 1 } else { b * ipow(b, e - 1) }
}

pub proof fn lemma_ipow_add(b: int, m: int, n: int)
    requires m >= 0, n >= 0,
    ensures ipow(b, m + n) == ipow(b, m) * ipow(b, n),
    decreases m
{
    if m > 0 {
        lemma_ipow_add(b, m - 1, n);
        let x = ipow(b, m - 1); let y = ipow(b, n);
        assert(b * (x * y) == (b * x) * y) by (nonlinear_arith);
    } else {
        assert(1 * ipow(b, n) == ipow(b, n));
    }
}

pub proof fn lemma_ipow_1(b: int)
    ensures ipow(b, 1) == b, ipow(b, 0) == 1,
{
    assert(ipow(b, 1) == b * ipow(b, 0));
    assert(b * 1 == b);
}

pub proof fn lemma_ipow_2(b: int)
    ensures ipow(b, 2) == b * b,
{
    lemma_ipow_1(b);
    assert(ipow(b, 2) == b * ipow(b, 1));
}

/// squaring doubles the exponent
pub proof fn lemma_ipow_double(b: int, k: int)
    requires k >= 0,
    ensures ipow(b, 2 * k) == ipow(b, k) * ipow(b, k),
{
    lemma_ipow_add(b, k, k);
}

/// one more factor
pub proof fn lemma_ipow_succ(b: int, k: int)
    requires k >= 0,
    ensures ipow(b, k + 1) == ipow(b, k) * b,
{
    lemma_ipow_add(b, k, 1);
    lemma_ipow_1(b);
}

pub proof fn lemma_ipow_pos(b: int, e: int)
    requires b >= 1,
    ensures ipow(b, e) >= 1,
    decreases e
{
    if e > 0 {
        lemma_ipow_pos(b, e - 1);
        let x = ipow(b, e - 1);
        assert(b * x >= 1) by (nonlinear_arith) requires b >= 1, x >= 1;
    }
}

/// lower bound: b >= m >= 1  ==>  b^e >= m^e ... only the instance needed: b >= q >= 1, e >= 1 ==> b^e >= q
pub proof fn lemma_ipow_ge_base(b: int, q: int, e: int)
    requires b >= q, q >= 1, e >= 1,
    ensures ipow(b, e) >= q,
{
    lemma_ipow_pos(b, e - 1);
    let x = ipow(b, e - 1);
    assert(b * x >= q) by (nonlinear_arith) requires b >= q, q >= 1, x >= 1;
}

/// 0 <= b < B^n  ==>  b^e < B^(n*e)   (length bound of a power)
pub proof fn lemma_ipow_bound(b: int, n: int, e: int)
    requires 0 <= b < pw(n), n >= 0, e >= 0,
    ensures 0 <= ipow(b, e) < pw(n * e) || (e == 0 && ipow(b, e) == 1),
    decreases e
{
    if e > 0 {
        lemma_ipow_bound(b, n, e - 1);
        let x = ipow(b, e - 1);
        assert(n * e == n * (e - 1) + n) by (nonlinear_arith);
        assert(n * (e - 1) >= 0) by (nonlinear_arith) requires n >= 0, e >= 1;
        lemma_pw_add(n * (e - 1), n);
        lemma_pw_pos(n * (e - 1));
        let q = pw(n * (e - 1));
        if e == 1 {
            assert(x == 1);
            assert(n * 0 == 0);
            assert(q == 1);
        }
        assert(b * x < pw(n) * q) by (nonlinear_arith) requires 0 <= b < pw(n), 0 <= x, (x < q || (x == 1 && q == 1)), q >= 1;
        assert(b * x >= 0) by (nonlinear_arith) requires 0 <= b, 0 <= x;
        assert(pw(n) * q == q * pw(n)) by (nonlinear_arith);
    }
}

/// the bit walk: y = x >> p, k = x >> (p+1):  y == 2k + [bit p of x],  y <= x
pub proof fn lemma_pow_bits(x: usize, p: u32)
    requires p + 1 < usize::BITS,
    ensures
        (x >> p) as int == 2 * ((x >> ((p + 1) as u32)) as int) + (if x & (1usize << p) != 0 { 1int } else { 0int }),
        (x >> p) <= x, p >= 1 ==> 2 * ((x >> p) as int) <= x as int,
{
    let p1 = (p + 1) as u32;
    let y = x >> p;
    let k = x >> p1;
    let bit: usize = if x & (1usize << p) != 0 { 1 } else { 0 };
    assert(y / 2 == k && y % 2 == bit && y <= x && (p >= 1 ==> y <= x / 2)) by (bit_vector)
        requires p + 1 < usize::BITS, p1 == p + 1, y == x >> p, k == x >> p1,
            bit == (if x & (1usize << p) != 0 { 1usize } else { 0usize });
}

pub proof fn lemma_shr0(x: usize)
    ensures (x >> 0u32) == x,
{
    assert((x >> 0u32) == x) by (bit_vector);
}

/// exp > 1  ==>  bit_len(exp) >= 2 and, with p = bit_len - 2:  exp >> (p + 1) == 1
pub proof fn lemma_bit_len_ge2(x: usize, r: u32)
    requires x > 1, 1 <= r <= usize::BITS, (x >> ((r - 1) as u32)) == 1,
    ensures r >= 2,
{
    if r == 1 {
        lemma_shr0(x);
    }
}

/// the two-word carry of `res *= base` appended as [c0] or [c0, c1] (c1 only when non-zero)
pub proof fn lemma_pow_carry2(r1: Seq<Word>, r2: Seq<Word>, r3: Seq<Word>, c0: Word, c1: Word)
    requires r2 == r1.push(c0), c1 != 0 ==> r3 == r2.push(c1), c1 == 0 ==> r3 == r2,
    ensures val(r3) == val(r1) + (c0 as int + (c1 as int) * B()) * pw(r1.len() as int),
        r1.len() + 1 <= r3.len() <= r1.len() + 2,
{
    lemma_val_push(r1, c0);
    let n = r1.len() as int;
    assert(pw(n + 1) == B() * pw(n));
    if c1 != 0 {
        lemma_val_push(r2, c1);
    }
    assert((c1 as int) * (B() * pw(n)) + (c0 as int) * pw(n) == (c0 as int + (c1 as int) * B()) * pw(n)) by (nonlinear_arith);
    if c1 == 0 { assert((c1 as int) * (B() * pw(n)) == 0) by (nonlinear_arith) requires c1 as int == 0; }
}

pub proof fn lemma_mul_mono(n: int, j: int, e: int)
    requires n >= 0, 0 <= j <= e,
    ensures 0 <= n * j <= n * e,
{
    assert(n * j <= n * e) by (nonlinear_arith) requires n >= 0, 0 <= j <= e;
    assert(n * j >= 0) by (nonlinear_arith) requires n >= 0, 0 <= j;
}

/// length of the normalized representation of base^j  (base normalized, n >= 2 words, j >= 1):  2 <= len <= n*j
pub proof fn lemma_pow_len(base: Seq<Word>, s: Seq<Word>, j: int)
    requires base.len() >= 2, normalized(base), normalized(s), j >= 1, val(s) == ipow(val(base), j),
    ensures 2 <= s.len() <= base.len() * j,
{
    let n = base.len() as int;
    let b = val(base);
    lemma_valn_bound(base, n);
    lemma_normalized_lower(base);
    lemma_pw_mono(1, n - 1);
    lemma_pw2();
    assert(b >= B());
    lemma_ipow_ge_base(b, B(), j);
    lemma_ipow_bound(b, n, j);
    lemma_mul_mono(n, 1, j);
    lemma_valn_bound(s, s.len() as int);
    // len >= 2: otherwise val(s) < B
    if s.len() < 2 {
        lemma_pw_mono(s.len() as int, 1);
    }
    // len <= n*j: otherwise val(s) >= B^(len-1) >= B^(n*j)
    if s.len() > n * j {
        lemma_normalized_lower(s);
        lemma_pw_mono(n * j, s.len() as int - 1);
    }
}

// ---- pow_word_base ----------------------------------------------------------------------------------------------
pub proof fn lemma_ipow_zero(e: int)
    requires e >= 1,
    ensures ipow(0, e) == 0,
{
    assert(ipow(0, e) == 0 * ipow(0, e - 1));
    assert(0 * ipow(0, e - 1) == 0);
}

pub proof fn lemma_ipow_one(e: int)
    ensures ipow(1, e) == 1,
    decreases e
{
    if e > 0 { lemma_ipow_one(e - 1); assert(1 * ipow(1, e - 1) == ipow(1, e - 1)); }
}

pub proof fn lemma_pow2_ipow(n: int)
    ensures pow2(n) == ipow(2, n),
    decreases n
{
    if n > 0 { lemma_pow2_ipow(n - 1); }
}

/// (b^m)^n == b^(m*n)
pub proof fn lemma_ipow_mul(b: int, m: int, n: int)
    requires m >= 0, n >= 0,
    ensures ipow(ipow(b, m), n) == ipow(b, m * n), m * n >= 0,
    decreases n
{
    assert(m * n >= 0) by (nonlinear_arith) requires m >= 0, n >= 0;
    if n > 0 {
        lemma_ipow_mul(b, m, n - 1);
        assert(m * n == m + m * (n - 1)) by (nonlinear_arith);
        assert(m * (n - 1) >= 0) by (nonlinear_arith) requires m >= 0, n >= 1;
        lemma_ipow_add(b, m, m * (n - 1));
    } else {
        assert(m * 0 == 0);
    }
}

/// b >= 1, r <= w  ==>  b^r <= b^w
pub proof fn lemma_ipow_mono(b: int, r: int, w: int)
    requires b >= 1, 0 <= r <= w,
    ensures 1 <= ipow(b, r) <= ipow(b, w),
{
    lemma_ipow_add(b, r, w - r);
    lemma_ipow_pos(b, r);
    lemma_ipow_pos(b, w - r);
    let x = ipow(b, r); let y = ipow(b, w - r);
    assert(x * y >= x) by (nonlinear_arith) requires x >= 1, y >= 1;
}

pub open spec fn pow_word_tz(w: Word) -> u32 { vstd::std_specs::bits::@W@_trailing_zeros(w) }

/// a word with exactly one bit set is 2^trailing_zeros
pub proof fn lemma_word_pow2_tz(w: @W@)
    requires w != 0, (w & ((w - 1) as @W@)) == 0,
    ensures vstd::std_specs::bits::@W@_trailing_zeros(w) < @BITS@,
        w as int == pow2(vstd::std_specs::bits::@W@_trailing_zeros(w) as int),
{
    let r = vstd::std_specs::bits::@W@_trailing_zeros(w);
    vstd::std_specs::bits::axiom_@W@_trailing_zeros(w);
    let rw = r as @W@;
    assert(r < @BITS@);
    assert(((w >> rw) & 1) == 1);
    assert(w == (1 as @W@) << r) by (bit_vector)
        requires w != 0, (w & ((w - 1) as @W@)) == 0, r < @BITS@, rw == r as @W@, ((w >> rw) & 1) == 1;
    lemma_sh_one_shl_w(r);
}

/// exponent arithmetic of the shortcut for a power-of-two base: no usize overflow, bit index within the resource limit
pub proof fn lemma_pow2_base_exp(e: int, t: int)
    requires 0 <= e < max_capacity(), 0 <= t < @BITS@,
    ensures 0 <= e * t <= usize::MAX, (e * t) / @BITS@ < max_capacity(),
{
    assert(e * t >= 0) by (nonlinear_arith) requires e >= 0, t >= 0;
    assert(e * t <= e * @BITS@) by (nonlinear_arith) requires e >= 0, t <= @BITS@;
    assert((e * t) / @BITS@ <= e) by (nonlinear_arith) requires 0 <= e * t <= e * @BITS@;
}

/// the split exp = E*we + R with exp >= 2*we
pub proof fn lemma_pow_split(e0: int, we: int, q: int, r: int)
    requires q * we + r == e0, 0 <= r < we, e0 >= 2 * we, q >= 0,
    ensures 2 <= q <= e0, we * q + r == e0,
{
    assert(q >= 2) by (nonlinear_arith) requires q * we + r == e0, 0 <= r < we, e0 >= 2 * we, q >= 0;
    assert(q * we >= q) by (nonlinear_arith) requires q >= 0, we >= 1;
    assert(q * we == we * q) by (nonlinear_arith);
}
