// ---- gcdo_cmpf_stubs.rs: what rational/src/cmp.rs `with_float::repr_cmp_fbig` needs beyond lib/bigstub.rs, lib/ratio_types.rs,
// lib/ratio2_cmp_stubs.rs (include after them).  Every external_body / assume_specification / external_body axiom is TRUSTED.
pub mod gcdo_cmpf_stubs {
use super::*;
use vstd::std_specs::ops::*;
use vstd::std_specs::cmp::{gt_ensures, lt_ensures};
use core::ops::{Mul, ShlAssign, MulAssign};
use core::cmp::Ordering;

pub type Word = u64;

/// b^e
pub open spec fn ipw(b: int, e: nat) -> int decreases e { if e == 0 { 1 } else { b * ipw(b, (e - 1) as nat) } }

// dashu_float::Repr<B> (float/src/repr.rs:26: `significand: IBig`, `exponent: isize`): value = significand * B^exponent;
// "infinity" is the pair (0, e != 0), positive iff e > 0 (repr.rs:165).  Opaque here; TRUSTED accessors (repr.rs:369, 375).
#[verifier::external_body]
pub struct FloatRepr<const B: Word> { _p: u8 }
impl<const B: Word> FloatRepr<B> {
    pub uninterp spec fn sig(&self) -> int;
    pub uninterp spec fn ex(&self) -> int;
    #[verifier::external_body]
    pub fn is_infinite(&self) -> (r: bool) ensures r == (self.sig() == 0 && self.ex() != 0) { unimplemented!() }
    #[verifier::external_body]
    pub fn significand(&self) -> (r: &IBig) ensures r.v() == self.sig() { unimplemented!() }
    #[verifier::external_body]
    pub fn exponent(&self) -> (r: isize) ensures r as int == self.ex() { unimplemented!() }
}

// ---- the f32 log2 filter (dashu_base::EstimatedLog2).  Verus cannot reason about f32 arithmetic:
//  * log2_bounds returns floats about which only the uninterpreted enclosure predicates est_lo / est_hi are known
//    ("2^f <= num/den" resp. "num/den <= 2^f" over the reals, den > 0),
//  * THE AGREEMENT OF THE FILTER WITH THE EXACT COMPARISON IS ASSUMED (ax_est_gt / ax_est_lt: monotonicity of 2^x over the
//    reals, with the core comparison `a > b` on f32 taken as the comparison of the reals), NOT PROVED.
// What is proved is everything around the filter: infinities, signs, and the exact comparison.
pub uninterp spec fn est_lo(f: f32, num: int, den: int) -> bool;
pub uninterp spec fn est_hi(f: f32, num: int, den: int) -> bool;
#[verifier::external_body]
pub proof fn ax_est_gt(a: f32, b: f32, n1: int, d1: int, n2: int, d2: int)
    requires est_lo(a, n1, d1), est_hi(b, n2, d2), gt_ensures::<f32>(a, b, true), d1 > 0, d2 > 0,
    ensures n1 * d2 > n2 * d1,
{}
#[verifier::external_body]
pub proof fn ax_est_lt(a: f32, b: f32, n1: int, d1: int, n2: int, d2: int)
    requires est_hi(a, n1, d1), est_lo(b, n2, d2), lt_ensures::<f32>(a, b, true), d1 > 0, d2 > 0,
    ensures n1 * d2 < n2 * d1,
{}
/// |significand| * B^exponent as a fraction
pub open spec fn fl_num(s: int, b: int, e: int) -> int { if e >= 0 { rabs(s) * ipw(b, e as nat) } else { rabs(s) } }
pub open spec fn fl_den(b: int, e: int) -> int { if e >= 0 { 1 } else { ipw(b, (-e) as nat) } }

pub trait EstimatedLog2 {
    spec fn lb_ok(&self, f: f32) -> bool;
    spec fn ub_ok(&self, f: f32) -> bool;
    fn log2_bounds(&self) -> (r: (f32, f32)) ensures self.lb_ok(r.0), self.ub_ok(r.1);
}
// rational/src/repr.rs `impl EstimatedLog2 for Repr`: bounds of log2 |numerator / denominator|
impl EstimatedLog2 for Repr {
    open spec fn lb_ok(&self, f: f32) -> bool { est_lo(f, rabs(self.numerator.v()), self.denominator.v()) }
    open spec fn ub_ok(&self, f: f32) -> bool { est_hi(f, rabs(self.numerator.v()), self.denominator.v()) }
    #[verifier::external_body]
    fn log2_bounds(&self) -> (r: (f32, f32)) { unimplemented!() }
}
// float/src/repr.rs `impl EstimatedLog2 for Repr<B>`: bounds of log2 |significand * B^exponent|
impl<const B: Word> EstimatedLog2 for FloatRepr<B> {
    open spec fn lb_ok(&self, f: f32) -> bool { est_lo(f, fl_num(self.sig(), B as int, self.ex()), fl_den(B as int, self.ex())) }
    open spec fn ub_ok(&self, f: f32) -> bool { est_hi(f, fl_num(self.sig(), B as int, self.ex()), fl_den(B as int, self.ex())) }
    #[verifier::external_body]
    fn log2_bounds(&self) -> (r: (f32, f32)) { unimplemented!() }
}

// base/src/sign.rs:187 `impl Mul<Ordering> for Sign`: Positive keeps, Negative reverses (transcribed contract, TRUSTED)
pub open spec fn ord_rev(o: Ordering) -> Ordering {
    match o { Ordering::Less => Ordering::Greater, Ordering::Equal => Ordering::Equal, Ordering::Greater => Ordering::Less }
}
impl MulSpecImpl<Ordering> for Sign {
    open spec fn obeys_mul_spec() -> bool { true }
    open spec fn mul_req(self, rhs: Ordering) -> bool { true }
    open spec fn mul_spec(self, rhs: Ordering) -> Ordering { if self == Sign::Positive { rhs } else { ord_rev(rhs) } }
}
impl Mul<Ordering> for Sign { type Output = Ordering;
    #[verifier::external_body]
    fn mul(self, rhs: Ordering) -> Ordering { unimplemented!() }
}

// integer: IBig::clone, `IBig <<= usize` (shift_ops.rs: exact multiplication by 2^n), `IBig *= UBig` (mul_ops.rs: exact
// product), UBig::from_word, UBig::pow (pow.rs: exact power; C01)
impl Clone for IBig {
    #[verifier::external_body]
    fn clone(&self) -> (r: IBig) ensures r.v() == self.v() { unimplemented!() }
}
impl ShlAssign<usize> for IBig {
    #[verifier::external_body]
    fn shl_assign(&mut self, rhs: usize) { unimplemented!() }
}
impl ShlAssignSpecImpl<usize> for IBig {
    open spec fn obeys_shl_assign_spec() -> bool { true }
    open spec fn shl_assign_req(&self, rhs: usize) -> bool { true }
    open spec fn shl_assign_spec(&self, rhs: usize) -> &IBig { &ibig_of(self.v() * ipw(2, rhs as nat)) }
}
impl MulAssign<UBig> for IBig {
    #[verifier::external_body]
    fn mul_assign(&mut self, rhs: UBig) { unimplemented!() }
}
impl MulAssignSpecImpl<UBig> for IBig {
    open spec fn obeys_mul_assign_spec() -> bool { true }
    open spec fn mul_assign_req(&self, rhs: UBig) -> bool { true }
    open spec fn mul_assign_spec(&self, rhs: UBig) -> &IBig { &ibig_of(self.v() * rhs.v()) }
}
impl UBig {
    #[verifier::external_body]
    pub fn from_word(w: Word) -> (r: UBig) ensures r.v() == w as int { unimplemented!() }
    #[verifier::external_body]
    pub fn pow(&self, exp: usize) -> (r: UBig) ensures r.v() == ipw(self.v(), exp as nat) { unimplemented!() }
}
// core: u64::is_power_of_two (exactly one bit set) and its consequence w == 2^trailing_zeros(w), stated through ipw (TRUSTED;
// the bit-level derivation is proved for the word kernels in lib/div_word_lemmas.rs lemma_dw_pow2_word); trailing_zeros
// itself has a vstd specification
pub uninterp spec fn is_pot(w: Word) -> bool;
pub open spec fn tz_of(w: Word) -> int { vstd::std_specs::bits::u64_trailing_zeros(w) as int }
pub assume_specification [u64::is_power_of_two] (w: u64) -> (r: bool)
    ensures r == is_pot(w);
#[verifier::external_body]
pub proof fn ax_pot(w: Word)
    requires is_pot(w),
    ensures 0 <= tz_of(w) < 64, w as int == ipw(2, tz_of(w) as nat),
{}

// ---- the property's sentence (C14): ordering of the exact values n/d (d > 0) and s * b^e ------------------------------
pub open spec fn cmp_ratio_float(n: int, d: int, s: int, b: int, e: int) -> Ordering {
    if e >= 0 { cmp_int(n, s * d * ipw(b, e as nat)) } else { cmp_int(n * ipw(b, (-e) as nat), s * d) }
}

pub proof fn lemma_ipw_pos(b: int, e: nat)
    requires b >= 1,
    ensures ipw(b, e) >= 1,
    decreases e
{
    if e > 0 {
        lemma_ipw_pos(b, (e - 1) as nat);
        assert(b * ipw(b, (e - 1) as nat) >= 1) by (nonlinear_arith) requires b >= 1, ipw(b, (e - 1) as nat) >= 1;
    }
}
pub proof fn lemma_ipw_add(b: int, x: nat, y: nat)
    ensures ipw(b, x + y) == ipw(b, x) * ipw(b, y),
    decreases x
{
    if x > 0 {
        lemma_ipw_add(b, (x - 1) as nat, y);
        assert(ipw(b, x + y) == b * ipw(b, ((x - 1) as nat) + y));
        assert(b * (ipw(b, (x - 1) as nat) * ipw(b, y)) == (b * ipw(b, (x - 1) as nat)) * ipw(b, y)) by (nonlinear_arith);
    } else {
        assert(ipw(b, 0) == 1);
        assert(1 * ipw(b, y) == ipw(b, y));
    }
}
/// (2^t)^e == 2^(e*t)
pub proof fn lemma_ipw_pot(t: nat, e: nat)
    ensures ipw(ipw(2, t), e) == ipw(2, e * t),
    decreases e
{
    if e > 0 {
        lemma_ipw_pot(t, (e - 1) as nat);
        assert(e * t == t + (e - 1) * t) by (nonlinear_arith) requires e >= 1;
        lemma_ipw_add(2, t, ((e - 1) as nat) * t);
    } else {
        assert(0 * t == 0);
    }
}
} // mod gcdo_cmpf_stubs
pub use gcdo_cmpf_stubs::*;

pub proof fn lemma_cmpf_shift_fits(ae: int, tz: int)
    requires 0 <= ae <= 0x0100_0000_0000_0000, 0 <= tz < 64,
    ensures 0 <= ae * tz < 0x4000_0000_0000_0000,
{
    assert(0 <= ae * tz < 0x4000_0000_0000_0000) by (nonlinear_arith) requires 0 <= ae <= 0x0100_0000_0000_0000, 0 <= tz < 64;
}

// ---- lemmas for repr_cmp_fbig (p = B^|e| >= 1) ------------------------------------------------------------------------
/// operands of different sign: the non-negative one is the greater, whatever the scaling
pub proof fn lemma_cmpf_signs(n: int, d: int, s: int, p: int)
    requires d >= 1, p >= 1,
    ensures n >= 0 && s < 0 ==> n > s * d * p && n * p > s * d,
        n < 0 && s >= 0 ==> n < s * d * p && n * p < s * d,
{
    if n >= 0 && s < 0 {
        assert(s * d < 0) by (nonlinear_arith) requires s < 0, d >= 1;
        assert(s * d * p < 0) by (nonlinear_arith) requires s * d < 0, p >= 1;
        assert(n * p >= 0) by (nonlinear_arith) requires n >= 0, p >= 1;
    }
    if n < 0 && s >= 0 {
        assert(s * d >= 0) by (nonlinear_arith) requires s >= 0, d >= 1;
        assert(s * d * p >= 0) by (nonlinear_arith) requires s * d >= 0, p >= 1;
        assert(n * p < 0) by (nonlinear_arith) requires n < 0, p >= 1;
    }
}

/// |x*y| == |x|*|y| instances used by the magnitude comparison
pub proof fn lemma_cmpf_abs(n: int, d: int, s: int, p: int)
    requires d >= 1, p >= 1,
    ensures rabs((s * d) * p) == rabs(s) * d * p, rabs(s * d) == rabs(s) * d, rabs(n * p) == rabs(n) * p,
{
    if s >= 0 {
        assert(s * d >= 0) by (nonlinear_arith) requires s >= 0, d >= 1;
        assert((s * d) * p >= 0) by (nonlinear_arith) requires s * d >= 0, p >= 1;
    } else {
        assert(s * d < 0) by (nonlinear_arith) requires s < 0, d >= 1;
        assert((s * d) * p < 0) by (nonlinear_arith) requires s * d < 0, p >= 1;
        assert((-s) * d == -(s * d)) by (nonlinear_arith);
        assert(((-s) * d) * p == -((s * d) * p)) by (nonlinear_arith);
    }
    if n >= 0 {
        assert(n * p >= 0) by (nonlinear_arith) requires n >= 0, p >= 1;
    } else {
        assert(n * p < 0) by (nonlinear_arith) requires n < 0, p >= 1;
        assert((-n) * p == -(n * p)) by (nonlinear_arith);
    }
}

/// the filter's verdict on the magnitudes (|n| * den > num * d resp. <) turned into the signed comparison:
/// same signs (both >= 0 or both < 0) unless `abs`
pub proof fn lemma_cmpf_filter(n: int, d: int, s: int, p: int, epos: bool, abs: bool, gt: bool)
    requires d >= 1, p >= 1, abs || (n >= 0 && s >= 0) || (n < 0 && s < 0),
        epos && gt ==> rabs(n) * 1 > (rabs(s) * p) * d,
        epos && !gt ==> rabs(n) * 1 < (rabs(s) * p) * d,
        !epos && gt ==> rabs(n) * p > rabs(s) * d,
        !epos && !gt ==> rabs(n) * p < rabs(s) * d,
    ensures
        epos && abs ==> cmp_int(rabs(n), rabs(s) * d * p) == (if gt { Ordering::Greater } else { Ordering::Less }),
        !epos && abs ==> cmp_int(rabs(n) * p, rabs(s) * d) == (if gt { Ordering::Greater } else { Ordering::Less }),
        epos && !abs && n >= 0 ==> cmp_int(n, s * d * p) == (if gt { Ordering::Greater } else { Ordering::Less }),
        !epos && !abs && n >= 0 ==> cmp_int(n * p, s * d) == (if gt { Ordering::Greater } else { Ordering::Less }),
        epos && !abs && n < 0 ==> cmp_int(n, s * d * p) == (if gt { Ordering::Less } else { Ordering::Greater }),
        !epos && !abs && n < 0 ==> cmp_int(n * p, s * d) == (if gt { Ordering::Less } else { Ordering::Greater }),
{
    assert((rabs(s) * p) * d == rabs(s) * d * p) by (nonlinear_arith);
    lemma_cmpf_abs(n, d, s, p);
    assert(s * d * p == (s * d) * p);
    if !abs && n < 0 {
        // both negative: |n| = -n, |s| = -s
        assert((-s) * d * p == -(s * d * p)) by (nonlinear_arith);
        assert((-s) * d == -(s * d)) by (nonlinear_arith);
        assert((-n) * p == -(n * p)) by (nonlinear_arith);
    }
}
