// ---- mem_div_spec.rs: vocabulary of the multi-word division kernels for the RESOURCE units int_memsize_div*.
// `div_prepared` / `div_post` are VERBATIM copies of lib/div_post_spec.rs (that file also declares the opaque `Memory`,
// which the int_memsize_* units replace by the capacity-tracking lib/mem_model.rs: it cannot be included).
// Needs lib/prelude.rs, lib/div_dword_stubs.rs (FastDivideNormalized2), lib/mem_need.rs.

/// "rhs is normalized and fd is the reciprocal of its two top words": the precondition shared by the division kernels
pub open spec fn div_prepared(rhs: Seq<Word>, fd: FastDivideNormalized2) -> bool {
    rhs.len() >= 2 && fd.wf() && fd.divisor() == rhs[rhs.len() - 2] as int + (rhs[rhs.len() - 1] as int) * B()
}

/// the contract shared by every `div_rem_in_place` flavour (see lib/div_post_spec.rs)
#[verifier::opaque]
pub open spec fn div_post(l0: Seq<Word>, l1: Seq<Word>, rhs: Seq<Word>, ret: bool) -> bool {
    let n = rhs.len() as int;
    let len = l0.len() as int;
    l1.len() == l0.len()
    && val(l0) == (val(l1.subrange(n, len)) + b2i(ret) * pw(len - n)) * val(rhs) + val(l1.subrange(0, n))
    && val(l1.subrange(0, n)) < val(rhs)
    && ret == (val(l0.subrange(len - n, len)) >= val(rhs))
}

/// scratch Words of divide_conquer::div_rem_in_place on l / n words: every product inside has a smaller factor of at most
/// min(floor(n / 2), l - n) words  (divide_conquer.rs:18-22; mirrored threshold div/mod.rs:20 THRESHOLD_SIMPLE = 32)
pub open spec fn dc_need(l: int, n: int) -> int { gneed(imin(n / 2, l - n)) }
/// scratch Words of div::div_rem_in_place: schoolbook division (none) when the divisor or the quotient is short
pub open spec fn div_need(l: int, n: int) -> int { if n <= 32 || l - n <= 32 { 0 } else { dc_need(l, n) } }

/// rule D20 `#[cut_tail]` / D20u `#[cut_tail_unused(memory)]`: stands for the value-dependent tail of a function that is
/// not verified in the resource units (arbitrary value, no contract; the tail does not mention `memory`: checked by D20u)
#[verifier::external_body]
pub fn __cut_tail<T>() -> T { unimplemented!() }

/// scratch Words of gcd/lehmer.rs gcd_ext_in_place on an lhs of nl words: the cofactor buffers t0, t1 (nl + 1 words each) and,
/// from the rest, the Euclidean divisions and the cofactor products (smaller factor <= ceil(nl / 2) words)
pub open spec fn ext_need(nl: int) -> int { 2 * (nl + 1) + gneed((nl + 1) / 2) }
