// ---- conv_try_float_stubs.rs: stubs and lemmas for rational/src/convert.rs `impl_conversion_to_float`
// (`TryFrom<RBig> for f32/f64`).  EVERY external_body / assume_specification contract is a TRUSTED ASSUMPTION (source
// named at the stub).  Needs bigstub.rs, conv_approx.rs, conv_float.rs, conv_float_ratio.rs, conv_enc.rs, conv_ratio_stubs.rs.

pub open spec fn is_pow2_int(v: int) -> bool { exists|j: nat| v == #[trigger] pow2(j) }
impl UBig {
    /// integer/src/bits.rs `impl PowerOfTwo for UBig`: "Test if self is a power of two (2^k)"
    #[verifier::external_body]
    pub fn is_power_of_two(&self) -> (r: bool) ensures r == is_pow2_int(self.v()) { unimplemented!() }
}
/// integer/src/convert.rs `impl TryFrom<IBig> for i32 / i64`: Ok(v) iff the value fits, else Err(OutOfBounds)
impl TryFrom<IBig> for i32 {
    type Error = ConversionError;
    #[verifier::external_body]
    fn try_from(x: IBig) -> Result<i32, ConversionError> { unimplemented!() }
}
impl TryFromSpecImpl<IBig> for i32 {
    open spec fn obeys_try_from_spec() -> bool { true }
    open spec fn try_from_spec(x: IBig) -> Result<i32, ConversionError> {
        if i32::MIN <= x.v() <= i32::MAX { Ok(x.v() as i32) } else { Err(ConversionError::OutOfBounds) }
    }
}
impl TryFrom<IBig> for i64 {
    type Error = ConversionError;
    #[verifier::external_body]
    fn try_from(x: IBig) -> Result<i64, ConversionError> { unimplemented!() }
}
impl TryFromSpecImpl<IBig> for i64 {
    open spec fn obeys_try_from_spec() -> bool { true }
    open spec fn try_from_spec(x: IBig) -> Result<i64, ConversionError> {
        if i64::MIN <= x.v() <= i64::MAX { Ok(x.v() as i64) } else { Err(ConversionError::OutOfBounds) }
    }
}
// core: f32::is_infinite / f64::is_infinite (IEEE: all-ones exponent, zero fraction)
pub assume_specification [core::primitive::f32::is_infinite] (x: f32) -> (r: bool)
    ensures r == (fields32(x).eb == 0xff && fields32(x).frac == 0);
pub assume_specification [core::primitive::f64::is_infinite] (x: f64) -> (r: bool)
    ensures r == (fields64(x).eb == 0x7ff && fields64(x).frac == 0);

/// 2^k divides x > 0 exactly k times: 2^k <= x, hence k < bit length
pub proof fn lemma_tz_bound(x: int, k: int)
    requires x > 0, is_tz(x, k)
    ensures pow2(k as nat) <= x
{
    let d = pow2(k as nat) as int;
    lemma_pow2_pos(k as nat);
    if x < d { vstd::arithmetic::div_mod::lemma_small_mod(x as nat, d as nat); }
}
/// the multiplicity of 2 in 2^j is j
pub proof fn lemma_pow2_tz(j: nat, k: int)
    requires is_tz(pow2(j) as int, k)
    ensures k == j
{
    let x = pow2(j) as int;
    lemma_pow2_pos(j);
    if k > j {
        lemma_pow2_strictly_increases(j, k as nat);
        vstd::arithmetic::div_mod::lemma_small_mod(x as nat, pow2(k as nat));
    } else if k < j {
        // 2^(k+1) divides 2^j
        let d = pow2((k + 1) as nat) as int;
        lemma_pow2_pos((k + 1) as nat);
        lemma_pow2_adds((j - k - 1) as nat, (k + 1) as nat);
        assert((j - k - 1) as nat + (k + 1) as nat == j);
        let c = pow2((j - k - 1) as nat) as int;
        assert(x == c * d);
        vstd::arithmetic::div_mod::lemma_mod_multiples_basic(c, d);
    }
}
/// an odd number has no trailing zeros
pub proof fn lemma_odd_tz(x: int, k: int)
    requires x % 2 != 0, is_tz(x, k)
    ensures k == 0
{
    if k >= 1 {
        let d = pow2(k as nat) as int;
        let h = pow2((k - 1) as nat) as int;
        lemma_pow2_pos(k as nat);
        lemma_pow2_succ((k - 1) as nat);
        assert((k - 1) as nat + 1 == k as nat);
        vstd::arithmetic::div_mod::lemma_fundamental_div_mod(x, d);
        let q = x / d;
        assert(x == (q * h) * 2) by (nonlinear_arith) requires x == d * q, d == 2 * h;
        vstd::arithmetic::div_mod::lemma_mod_multiples_basic(q * h, 2);
    }
}
/// shifting out exactly the trailing zeros is an exact division (also for negative numbers, where `>>` floors)
pub proof fn lemma_exact_shift(num: int, k: int)
    requires num != 0, is_tz(absi(num), k)
    ensures ({
        let d = pow2(k as nat) as int;
        let m = num / d;
        &&& m * d == num && absi(m) * d == absi(num) && (m < 0) == (num < 0) && m != 0
    })
{
    let d = pow2(k as nat) as int;
    lemma_pow2_pos(k as nat);
    let a = absi(num);
    vstd::arithmetic::div_mod::lemma_fundamental_div_mod(a, d);
    let q = a / d;
    let qd = q * d;
    assert(d * q == qd) by (nonlinear_arith) requires qd == q * d;
    assert(q > 0) by (nonlinear_arith) requires qd == q * d, qd == a, a > 0, d > 0;
    if num > 0 {
        assert(num / d == q);
    } else {
        let nq = -q;
        assert(nq * d == -qd) by (nonlinear_arith) requires nq == -q, qd == q * d;
        vstd::arithmetic::div_mod::lemma_fundamental_div_mod_converse(num, d, nq, 0);
    }
}
/// a value with at most `mb` bits: bit length bound
pub proof fn lemma_blen_le(v: int, mb: nat)
    requires absi(v) < pow2(mb)
    ensures blen(v) <= mb
{
    broadcast use ax_blen;
    if v != 0 && blen(v) > mb {
        lemma_pow2_mono(mb, (blen(v) - 1) as nat);
    }
}
/// value bookkeeping of the conversion: m = num / 2^tz (exact), den = 2^db, and (tz == 0 or db == 0):
/// |m| * 2^(tz - db) == |num| / den
pub proof fn lemma_try_float_value(num: int, den: int, tz: int, db: int)
    requires num != 0, is_tz(absi(num), tz), db >= 0, den == pow2(db as nat), tz == 0 || db == 0
    ensures ({
        let m = num / (pow2(tz as nat) as int);
        let e = tz - db;
        &&& sc_num(absi(m), e) * den == absi(num) * sc_den(e)
        &&& sc_den(e) > 0 && den > 0
        &&& (m < 0) == (num < 0)
    })
{
    lemma_exact_shift(num, tz);
    lemma_pow2_pos(db as nat);
    lemma_pow2_pos(tz as nat);
    lemma2_to64();
    let m = num / (pow2(tz as nat) as int);
    let e = tz - db;
    if db == 0 {
        assert(den == 1);
        assert(absi(m) * pow2(tz as nat) * 1 == absi(num) * 1) by (nonlinear_arith)
            requires absi(m) * pow2(tz as nat) == absi(num);
    } else {
        assert(tz == 0);
        let d = pow2(tz as nat) as int;
        assert(d == 1);
        assert(m * d == m) by (nonlinear_arith) requires d == 1;
        assert(m == num);
        assert(e < 0);
    }
}

// dashu_base::FloatEncoding (base/src/bit.rs) -- only `encode`, reached here as `<$t>::encode(..)` (a qualified type
// path, which the module trick of conv_enc.rs cannot serve).  Same contract as conv_enc.rs: TRUSTED here, PROVED by
// the Kani group base_bit (vk_base_bit_encode_f32 / _f64).
pub trait FloatEncoding: Sized {
    type Mantissa;
    type Exponent;
    spec fn enc_post(m: Self::Mantissa, e: Self::Exponent, r: Approximation<Self, Sign>) -> bool;
    fn encode(mantissa: Self::Mantissa, exponent: Self::Exponent) -> (r: Approximation<Self, Sign>)
        ensures Self::enc_post(mantissa, exponent, r);
}
impl FloatEncoding for f32 {
    type Mantissa = i32;
    type Exponent = i16;
    open spec fn enc_post(m: i32, e: i16, r: Approximation<f32, Sign>) -> bool {
        ap32_ok(r, m < 0, sc_num(absi(m as int), e as int), sc_den(e as int))
    }
    #[verifier::external_body]
    fn encode(mantissa: i32, exponent: i16) -> (r: Approximation<f32, Sign>) { unimplemented!() }
}
impl FloatEncoding for f64 {
    type Mantissa = i64;
    type Exponent = i16;
    open spec fn enc_post(m: i64, e: i16, r: Approximation<f64, Sign>) -> bool {
        ap64_ok(r, m < 0, sc_num(absi(m as int), e as int), sc_den(e as int))
    }
    #[verifier::external_body]
    fn encode(mantissa: i64, exponent: i16) -> (r: Approximation<f64, Sign>) { unimplemented!() }
}
