// ---- conv_float_int.rs: lemmas for integer / scaled-integer inputs (sticky bit, top bits, overflow, underflow,
// mirror image).  Needs conv_float.rs.
// ------------------------------------------------------------------------------------------------
// the sticky-bit lemma: rounding (top bits | sticky) * 2^s equals rounding the full integer

/// t | sticky on integers
pub open spec fn or_sticky(t: int, lo: int) -> int { if lo == 0 { t } else if t % 2 == 0 { t + 1 } else { t } }

/// every breakpoint M * 2^Q that is a multiple of 2^(s+1) separates the integer t*2^s + lo exactly as it separates
/// (t | sticky) * 2^s
pub proof fn lemma_sticky_cmp(t: int, s: nat, lo: int, M: int, Q: int)
    requires t >= 0, 0 <= lo < pow2(s), M >= 0, Q >= s + 1
    ensures cmp_q(t * pow2(s) + lo, 1, M, Q) == cmp_q(or_sticky(t, lo) * pow2(s), 1, M, Q)
{
    let ps = pow2(s) as int;
    let d = (Q - s - 1) as nat;
    let pd = pow2(d) as int;
    lemma_pow2_pos(s);
    lemma_pow2_pos(d);
    lemma_pow2_succ(s);
    lemma_pow2_adds(d, s + 1);
    assert(d + (s + 1) == Q as nat);
    let pq = pow2(Q as nat) as int;
    assert(pq == pd * (2 * ps));
    let K = M * pd;
    let b = M * pq;
    assert(b == (2 * K) * ps) by (nonlinear_arith) requires b == M * pq, pq == pd * (2 * ps), K == M * pd;
    assert(M * pq * 1 == b) by (nonlinear_arith) requires b == M * pq;
    let t2 = or_sticky(t, lo);
    let x = t * ps + lo;
    let x2 = t2 * ps;
    if t < 2 * K {
        assert(t2 <= 2 * K - 1);
        assert(x < b) by (nonlinear_arith) requires x == t * ps + lo, lo < ps, t <= 2 * K - 1, b == (2 * K) * ps, ps > 0;
        assert(x2 < b) by (nonlinear_arith) requires x2 == t2 * ps, t2 <= 2 * K - 1, b == (2 * K) * ps, ps > 0;
    } else if t == 2 * K {
        assert(x == b + lo) by (nonlinear_arith) requires x == t * ps + lo, t == 2 * K, b == (2 * K) * ps;
        assert(x2 - b == (t2 - t) * ps) by (nonlinear_arith) requires x2 == t2 * ps, t == 2 * K, b == (2 * K) * ps;
        if lo != 0 {
            assert(t2 - t == 1);
            assert((t2 - t) * ps == ps) by (nonlinear_arith) requires t2 - t == 1;
        } else {
            assert((t2 - t) * ps == 0) by (nonlinear_arith) requires t2 - t == 0;
        }
    } else {
        assert(x > b) by (nonlinear_arith) requires x == t * ps + lo, lo >= 0, t >= 2 * K + 1, b == (2 * K) * ps, ps > 0;
        assert(x2 > b) by (nonlinear_arith) requires x2 == t2 * ps, t2 >= 2 * K + 1, b == (2 * K) * ps, ps > 0;
    }
}

/// THE LEMMA.  t has exactly k >= p + 3 bits, the overflow threshold of the format is a multiple of 2^(s+1):
/// whatever is a correct RNE rounding (value, exactness flag, error sign) of (t | sticky) * 2^s is a correct RNE
/// rounding of the integer t * 2^s + lo itself.
pub proof fn lemma_sticky_rne(f: Fmt, neg: bool, t: int, s: nat, lo: int, k: nat, r: Fields, exact: bool, err_pos: bool)
    requires
        k >= f.p + 3, pow2((k - 1) as nat) <= t < pow2(k), 0 <= lo < pow2(s),
        f.emaxb - 1 - f.bias - f.p - 1 >= s + 1,
        fields_wf(f, r),
        rne_ok(f, neg, or_sticky(t, lo) * pow2(s), 1, r, exact, err_pos),
    ensures
        rne_ok(f, neg, t * pow2(s) + lo, 1, r, exact, err_pos)
{
    let ps = pow2(s) as int;
    let P = pow2(f.p) as int;
    let t2 = or_sticky(t, lo);
    let x2 = t2 * ps;
    let x = t * ps + lo;
    let n1 = (k - 1 + s) as nat;
    lemma_pow2_pos(s);
    lemma_pow2_pos(f.p);
    lemma_pow2_pos((k - 1) as nat);
    lemma_pow2_adds((k - 1) as nat, s);
    let pk1 = pow2((k - 1) as nat) as int;
    assert(x2 >= pk1 * ps) by (nonlinear_arith) requires x2 == t2 * ps, t2 >= pk1, ps > 0;
    assert(x2 >= pow2(n1));
    assert(x >= pk1 * ps) by (nonlinear_arith) requires x == t * ps + lo, t >= pk1, ps > 0, lo >= 0;
    assert(pk1 * ps > 0) by (nonlinear_arith) requires pk1 > 0, ps > 0;
    assert(x > 0 && x2 > 0);
    lemma_pow2_succ(f.p);
    lemma_pow2_succ(f.p + 1);
    let q_top = f.emaxb - 1 - f.bias - f.p;
    if r.sbit != neg {
    } else if r.eb == f.emaxb {
        lemma_sticky_cmp(t, s, lo, 4 * P - 1, q_top - 1);
    } else {
        let m = if r.eb == 0 { r.frac } else { r.frac + P };
        let q = (if r.eb == 0 { 1 } else { r.eb }) - f.bias - f.p;
        let c2 = cmp_q(x2, 1, m, q);
        assert(0 <= m < 2 * P);
        if c2 <= 0 {
            lemma_q_lower(x2, n1, m, f.p + 1, q);
        } else {
            let t2c = cmp_q(x2, 1, 2 * m + 1, q - 1);
            assert(t2c <= 0);
            lemma_q_lower(x2, n1, 2 * m + 1, f.p + 2, q - 1);
        }
        assert(q >= s + 2);
        lemma_sticky_cmp(t, s, lo, m, q);
        lemma_sticky_cmp(t, s, lo, 2 * m + 1, q - 1);
        if c2 < 0 {
            assert(m >= 1) by {
                if m == 0 {
                    assert(0 * pow2(q as nat) * 1 == 0) by (nonlinear_arith);
                }
            }
            lemma_sticky_cmp(t, s, lo, 2 * m - 1, q - 1);
            if r.eb > 1 && r.frac == 0 {
                lemma_q_lower(x2, n1, m, f.p, q);
                assert(q >= s + 3);
                lemma_sticky_cmp(t, s, lo, 4 * m - 1, q - 2);
            }
        }
    }
}

// ------------------------------------------------------------------------------------------------
// splitting an n-bit integer into its top k bits and the rest; overflow

/// v has n > k bits: t = v div 2^(n-k) has exactly k bits and v = t * 2^(n-k) + (v mod 2^(n-k))
pub proof fn lemma_top_bits(v: int, n: nat, k: nat)
    requires n > k, k >= 1, pow2((n - 1) as nat) <= v < pow2(n)
    ensures ({
        let s = (n - k) as nat;
        let t = v / (pow2(s) as int);
        let lo = v % (pow2(s) as int);
        &&& pow2((k - 1) as nat) <= t < pow2(k)
        &&& v == t * pow2(s) + lo
        &&& 0 <= lo < pow2(s)
    })
{
    let s = (n - k) as nat;
    let ps = pow2(s) as int;
    lemma_pow2_pos(s);
    let t = v / ps;
    let lo = v % ps;
    vstd::arithmetic::div_mod::lemma_fundamental_div_mod(v, ps);
    vstd::arithmetic::div_mod::lemma_mod_bound(v, ps);
    assert(ps * t == t * ps) by (nonlinear_arith);
    lemma_pow2_adds((k - 1) as nat, s);
    lemma_pow2_adds(k, s);
    assert((k - 1) as nat + s == (n - 1) as nat);
    assert(k + s == n);
    let pk1 = pow2((k - 1) as nat) as int;
    let pk = pow2(k) as int;
    let tp = t * ps;
    // pk1*ps <= t*ps + lo < pk*ps, 0 <= lo < ps
    assert(t < pk) by (nonlinear_arith) requires tp == t * ps, tp + lo < pk * ps, lo >= 0, ps > 0;
    assert(t >= pk1) by (nonlinear_arith) requires tp == t * ps, tp + lo >= pk1 * ps, lo < ps, ps > 0;
}

/// at or above 2^(emax+1) (= 2^(emaxb - bias)) the RNE result is the infinity of the right sign, inexact, error
/// pointing away from zero
pub proof fn lemma_overflow(f: Fmt, neg: bool, xn: int, e: nat)
    requires
        e == f.emaxb - f.bias, f.emaxb - 1 - f.bias - f.p - 1 >= 0,
        xn >= pow2(e),
    ensures rne_ok(f, neg, xn, 1, f_inf(f, neg), false, !neg)
{
    let P = pow2(f.p) as int;
    let Q = (f.emaxb - 1 - f.bias - f.p - 1) as nat;
    let pq = pow2(Q) as int;
    lemma_pow2_pos(e);
    lemma_pow2_pos(Q);
    lemma_pow2_pos(f.p);
    lemma_pow2_succ(f.p);
    lemma_pow2_succ(f.p + 1);
    lemma_pow2_adds(f.p + 2, Q);
    assert(f.p + 2 + Q == e);
    let b = (4 * P - 1) * pq;
    assert(b < (4 * P) * pq) by (nonlinear_arith) requires b == (4 * P - 1) * pq, pq > 0;
    assert((4 * P - 1) * pq * 1 == b) by (nonlinear_arith) requires b == (4 * P - 1) * pq;
    assert(xn > 0);
}

/// a value that is exactly m * 2^q for the candidate's own (m, q) is reported exact: used for results such as +-0
pub proof fn lemma_or_sticky_u64(t: u64, e: u64)
    requires t < 0x8000_0000_0000_0000u64, e == 0 || e == 1
    ensures (t | e) < 0x8000_0000_0000_0000u64, (t | e) as int == (if e == 0 { t as int } else if t % 2 == 0 { t + 1 } else { t as int })
{
    assert((t | e) < 0x8000_0000_0000_0000u64) by (bit_vector) requires t < 0x8000_0000_0000_0000u64, e == 0 || e == 1;
    assert(e == 0 ==> (t | e) == t) by (bit_vector);
    assert(e == 1 && t % 2 == 0 ==> (t | e) == t + 1) by (bit_vector) requires t < 0x8000_0000_0000_0000u64;
    assert(e == 1 && t % 2 != 0 ==> (t | e) == t) by (bit_vector);
}
pub proof fn lemma_or_sticky_u32(t: u32, e: u32)
    requires t < 0x8000_0000u32, e == 0 || e == 1
    ensures (t | e) < 0x8000_0000u32, (t | e) as int == (if e == 0 { t as int } else if t % 2 == 0 { t + 1 } else { t as int })
{
    assert((t | e) < 0x8000_0000u32) by (bit_vector) requires t < 0x8000_0000u32, e == 0 || e == 1;
    assert(e == 0 ==> (t | e) == t) by (bit_vector);
    assert(e == 1 && t % 2 == 0 ==> (t | e) == t + 1) by (bit_vector) requires t < 0x8000_0000u32;
    assert(e == 1 && t % 2 != 0 ==> (t | e) == t) by (bit_vector);
}

/// mirror image: a correct rounding of +x, with the sign bit flipped, is a correct rounding of -x and the error
/// sign flips (x != 0)
pub proof fn lemma_rne_negate(f: Fmt, xn: int, xd: int, r: Fields, exact: bool, err_pos: bool)
    requires xn != 0, rne_ok(f, false, xn, xd, r, exact, err_pos)
    ensures rne_ok(f, true, xn, xd, Fields { sbit: !r.sbit, eb: r.eb, frac: r.frac }, exact, !err_pos)
{
}
/// the error sign is irrelevant for an exact result
pub proof fn lemma_rne_exact_pos(f: Fmt, neg: bool, xn: int, xd: int, r: Fields, p1: bool, p2: bool)
    requires rne_ok(f, neg, xn, xd, r, true, p1)
    ensures rne_ok(f, neg, xn, xd, r, true, p2)
{
}

// ------------------------------------------------------------------------------------------------
// underflow to zero

/// 0 < x = a * 2^e with a < 2^k and e + k <= 1 - bias - p - 1 (i.e. x < half the smallest subnormal): the RNE result
/// is the zero of the right sign, inexact, error pointing towards zero
pub proof fn lemma_underflow(f: Fmt, neg: bool, a: int, e: int, k: nat)
    requires
        0 < a < pow2(k), e + k <= 1 - f.bias - f.p - 1, e < 0, f.bias + f.p >= 2, f.emaxb > 0,
    ensures rne_ok(f, neg, sc_num(a, e), sc_den(e), f_zero(neg), false, neg)
{
    let xn = a;
    let xd = pow2((-e) as nat) as int;
    let q = 1 - f.bias - f.p;          // quantum exponent of the subnormals (negative)
    lemma_pow2_pos((-e) as nat);
    lemma_pow2_pos((-q) as nat);
    // c = cmp_q(xn, xd, 0, q) > 0
    let pq = pow2((-q) as nat) as int;
    assert(xn * pq > 0) by (nonlinear_arith) requires xn > 0, pq > 0;
    assert(0 * xd == 0);
    // t = cmp_q(xn, xd, 1, q - 1) < 0:  a * 2^(-(q-1)) < 2^k * 2^(1-q) <= 2^(-e)
    let pq1 = pow2((-(q - 1)) as nat) as int;
    let pk = pow2(k) as int;
    lemma_pow2_pos((-(q - 1)) as nat);
    lemma_pow2_adds(k, (-(q - 1)) as nat);
    lemma_pow2_mono(k + (-(q - 1)) as nat, (-e) as nat);
    assert(xn * pq1 < pk * pq1) by (nonlinear_arith) requires xn < pk, pq1 > 0;
    assert(1 * xd == xd);
    assert(2 * 0 + 1 == 1);
}

