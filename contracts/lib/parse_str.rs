// ---- parse_str.rs: the string model of integer/src/parse (C07).  Needs lib/parse_spec.rs.
// TRUSTED.  Inside the unit the primitive type name `str` is SHADOWED by the opaque struct below (a user type named `str`
// takes precedence over the primitive in type position; string literals keep the primitive type
// `core::primitive::str`).  Its abstract content is the sequence of its UTF-8 BYTES -- the parsers only ever look at
// bytes (`as_bytes`, `bytes`, `len`), and a digit text is well-formed only if every byte is ASCII.  Every contract
// states what the `core::str` method of the same name does:
//   len()                     number of bytes
//   as_bytes()                the bytes
//   strip_prefix(P)           P an ASCII char or an ASCII string literal: Some(rest) iff the bytes start with the
//                             (one-byte-per-character) encoding of P.  (For an ASCII pattern "starts with the pattern
//                             as a string" and "starts with its bytes" coincide: an ASCII byte never occurs inside a
//                             multi-byte UTF-8 sequence.)
//   language invariant        a str / slice occupies at most isize::MAX bytes

#[allow(non_camel_case_types)]
#[verifier::external_body]
pub struct str { _p: u8 }

/// core::str::pattern::Pattern for the two pattern types the parsers use
pub trait Pat: Sized {
    /// the UTF-8 encoding of the pattern (one byte per character: the pattern must be ASCII)
    spec fn enc(self) -> Seq<u8>;
    spec fn ascii(self) -> bool;
}
impl Pat for char {
    open spec fn enc(self) -> Seq<u8> { seq![self as u8] }
    open spec fn ascii(self) -> bool { (self as u32) < 128 }
}
impl<'a> Pat for &'a core::primitive::str {
    open spec fn enc(self) -> Seq<u8> { Seq::new(self@.len(), |i: int| self@[i] as u8) }
    open spec fn ascii(self) -> bool { forall|i: int| 0 <= i < self@.len() ==> (#[trigger] self@[i] as u32) < 128 }
}

/// s starts with p
pub open spec fn starts_with(s: Seq<u8>, p: Seq<u8>) -> bool { p.len() <= s.len() && s.subrange(0, p.len() as int) == p }

impl str {
    /// the UTF-8 bytes
    pub uninterp spec fn b(&self) -> Seq<u8>;

    pub open spec fn spec_len(&self) -> usize { self.b().len() as usize }
    #[verifier::external_body]
    #[verifier::when_used_as_spec(spec_len)]
    pub fn len(&self) -> (r: usize) ensures r as int == self.b().len(), r <= isize::MAX, r == self.spec_len() { unimplemented!() }

    #[verifier::external_body]
    pub fn as_bytes(&self) -> (r: &[u8]) ensures r@ == self.b(), r@.len() <= isize::MAX { unimplemented!() }

    #[verifier::external_body]
    pub fn strip_prefix<'a, P: Pat>(&'a self, p: P) -> (r: Option<&'a str>)
        requires p.ascii(),
        ensures
            match r {
                Some(t) => starts_with(self.b(), p.enc()) && t.b() == self.b().subrange(p.enc().len() as int, self.b().len() as int),
                None => !starts_with(self.b(), p.enc()),
            },
    { unimplemented!() }
}
