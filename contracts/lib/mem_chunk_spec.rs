// ---- mem_chunk_spec.rs: RESOURCE contract of the chunk kernel that mul/helpers.rs add_signed_mul_split_into_chunks
// receives as a function value (the functional one is chunk_fn_ok in lib/mulalg_lemmas.rs).
// Needs lib/prelude.rs, lib/sign.rs, lib/mem_model.rs.
/// `f` may be called on every chunk-sized instance with a scratch chunk that is the region [s0, e0), it leaves that chunk
/// as it was, keeps the length of `c` and returns a small carry
#[verifier::prophetic]
pub open spec fn mchunk_fn_ok<F: Fn(&mut [Word], Sign, &[Word], &[Word], &mut Memory) -> SignedWord>(f: F, chunk_len: int, n: int,
    s0: nat, e0: nat) -> bool
{
    &&& forall|cc: &mut [Word], s: Sign, aa: &[Word], bb: &[Word], mm: &mut Memory|
            aa@.len() == chunk_len && bb@.len() == n && cc@.len() == aa@.len() + bb@.len() && cc@.len() <= usize::MAX
            && mm.start() == s0 && mm.end() == e0
                ==> #[trigger] f.requires((cc, s, aa, bb, mm))
    &&& forall|cc: &mut [Word], s: Sign, aa: &[Word], bb: &[Word], mm: &mut Memory, r: SignedWord|
            #[trigger] f.ensures((cc, s, aa, bb, mm), r) ==> final(cc)@.len() == cc@.len() && -2 <= r <= 2
                && final(mm).start() == mm.start() && final(mm).end() == mm.end()
}

/// STRUCTURAL bound of the carry returned by the unequal-length entries (mul::add_signed_mul, {simple,karatsuba,toom_3}::
/// add_signed_mul, helpers::add_signed_mul_split_into_chunks) on a result buffer of `total` words.  The true bound is 1
/// (proved with the values in int_mul_dispatch); the resource-only units do not see values and only need SOME bound that
/// excludes SignedWord overflow in `carry += ..`: every level of the chunking recursion adds at most one (three when the
/// remainder window is empty), and consumes at least one word of the buffer.
pub open spec fn rbnd(total: int) -> int { 3 * total + 2 }
