// ---- mem_mod2_gcd.rs = lib/mod2_gcd.rs with RESOURCE clauses added to the two stubs that handle scratch memory
// (gcd::gcd_ext_in_place, gcd::memory_requirement_ext_exact; marked below), everything else unchanged (derived mechanically;
// keep in step).  Needs lib/mem_model.rs, lib/mem_need.rs, lib/mem_req_stubs.rs, lib/mem_div_spec.rs.  Original header:
// ---- mod2_gcd.rs: trusted stubs + lemmas for unit int_moddiv (integer/src/modular/div.rs inv_large). Word = @W@ ------
// Needs lib/prelude.rs, lib/mod2_sign.rs (Sign, sgn), lib/repr_stubs.rs (Buffer), lib/div_dword_stubs.rs,
// lib/div_post_spec.rs, lib/mod2_ring.rs, lib/mod2_mem.rs.
//
// TRUSTED (unchecked assumptions, listed in the evidence):
//  * integer/src/gcd/mod.rs gcd_ext_word / gcd_ext_dword / gcd_ext_in_place (Lehmer): the meaning their doc comments
//    give -- "g = gcd(lhs, rhs), lhs * a + rhs * b = g, b (unsigned) is stored in lhs [g in rhs], returns .. sign of b" --
//    plus the bound |b| < lhs on the Bezout coefficient and "the returned lengths are exact (top word non-zero)",
//    which inv_large relies on (`g_len == 1 && g[0] == 1`, `debug_assert!(inv.is_valid(ring))`).
//  * primitive::lowest_dword (get_unchecked), Buffer::into_boxed_slice (buffer.rs:400), <[T]>::fill (core).

/// d divides a
pub open spec fn divides(d: int, a: int) -> bool { d != 0 && a % d == 0 }
/// gcd(a, m) == 1, by divisibility (no executable gcd in specifications)
pub open spec fn coprime(a: int, m: int) -> bool {
    forall|d: int| d >= 1 && #[trigger] divides(d, a) && divides(d, m) ==> d == 1
}
pub open spec fn bez(a: int, x: int, b: int, y: int) -> int { a * x + b * y }
/// "g = gcd(a, b) and a*x + b*y == g for some x": g is a common divisor that is an integer combination (hence the
/// greatest one); y is the (signed) coefficient of b
pub open spec fn gcd_ext_post(g: int, a: int, b: int, y: int) -> bool {
    g >= 1 && divides(g, a) && divides(g, b) && exists|x: int| #[trigger] bez(a, x, b, y) == g
}

/// what ConstLargeDivisor::new establishes from a `Large` buffer (div_const.rs:145; >= 3 words, top word non-zero, length
/// within Buffer::MAX_CAPACITY) as far as inv_large needs it
pub open spec fn ring_built(ring: &ConstLargeDivisor) -> bool {
    let n = ring.normalized_divisor@.len() as int;
    ring_al(ring) && 2 <= n <= max_capacity() && modulus(ring) >= pw(n - 1)
}

pub assume_specification<T: Clone> [<[T]>::fill] (s: &mut [T], value: T)
    ensures final(s)@.len() == old(s)@.len(), forall|i: int| 0 <= i < old(s)@.len() ==> final(s)@[i] == value;

#[verifier::external_body]
pub fn lowest_dword(words: &[Word]) -> (ret: DoubleWord)
    requires words@.len() >= 2,
    ensures ret as int == words@[0] as int + (words@[1] as int) * B(),
{ unimplemented!() }

impl Buffer {
    // buffer.rs:400-428: shrink to `len` words, hand the allocation to a Box
    #[verifier::external_body]
    pub fn into_boxed_slice(self) -> (r: Box<[Word]>)
        ensures r@ == self@,
    { unimplemented!() }
}

pub mod gcd {
use super::*;
/// gcd/mod.rs:68 (debug_assert!(rhs != 0); `lhs.first_mut().unwrap()`); `val(lhs) > rhs` from the call site (r < m)
#[verifier::external_body]
pub fn gcd_ext_word(lhs: &mut [Word], rhs: Word) -> (ret: (Word, SignedWord, Sign))
    requires rhs != 0, old(lhs)@.len() >= 1, val(old(lhs)@) > rhs as int,
    ensures final(lhs)@.len() == old(lhs)@.len(),
        gcd_ext_post(ret.0 as int, val(old(lhs)@), rhs as int, sgn(ret.2) * val(final(lhs)@)),
        val(final(lhs)@) < val(old(lhs)@),
{ unimplemented!() }

/// gcd/mod.rs:96 (debug_assert!(rhs > Word::MAX))
#[verifier::external_body]
pub fn gcd_ext_dword(lhs: &mut [Word], rhs: DoubleWord) -> (ret: (DoubleWord, SignedDoubleWord, Sign))
    requires rhs as int >= B(), old(lhs)@.len() >= 2, val(old(lhs)@) > rhs as int,
    ensures final(lhs)@.len() == old(lhs)@.len(),
        gcd_ext_post(ret.0 as int, val(old(lhs)@), rhs as int, sgn(ret.2) * val(final(lhs)@)),
        val(final(lhs)@) < val(old(lhs)@),
{ unimplemented!() }

/// gcd/mod.rs:36-52 -> lehmer.rs:346: "assumes lhs > rhs" (debug_assert!(cmp_in_place(lhs, rhs).is_ge()), which itself
/// needs both top words non-zero); g is left in rhs[..g_len], |b| in lhs[..b_len] (words above are scratch garbage)
#[verifier::external_body]
pub fn gcd_ext_in_place(lhs: &mut [Word], rhs: &mut [Word], memory: &mut Memory) -> (ret: (usize, usize, Sign))
    requires 1 <= old(rhs)@.len() <= old(lhs)@.len(),
        old(lhs)@[old(lhs)@.len() - 1] != 0, old(rhs)@[old(rhs)@.len() - 1] != 0,
        val(old(lhs)@) > val(old(rhs)@),
        // RESOURCE clauses (mem_mod2_gcd.rs only): PROVED for lehmer::gcd_ext_in_place in unit int_memsize_gcd_ext and for this
        // forwarder in unit int_memsize_gcd_ext_ops (there with 2 <= |rhs|, which is the call site's `_ =>` arm: raw_len >= 3)
        3 * (old(lhs)@.len() + 1) + 4 <= SignedWord::MAX,
        old(memory).capw() >= ext_need(old(lhs)@.len() as int),
    ensures mem_same(*final(memory), *old(memory)),
        final(lhs)@.len() == old(lhs)@.len(), final(rhs)@.len() == old(rhs)@.len(),
        1 <= ret.0 <= old(rhs)@.len(), ret.1 <= old(lhs)@.len(),
        final(rhs)@[ret.0 - 1] != 0,
        gcd_ext_post(valn(final(rhs)@, ret.0 as int), val(old(lhs)@), val(old(rhs)@), sgn(ret.2) * valn(final(lhs)@, ret.1 as int)),
        valn(final(lhs)@, ret.1 as int) < val(old(lhs)@),
{ unimplemented!() }

/// gcd/mod.rs:55 -> lehmer::memory_requirement_ext_up_to -> div::memory_requirement_exact
/// (`assert!(lhs_len >= rhs_len && rhs_len >= 2)`); the Layout itself is opaque (sizing not verified)
#[verifier::external_body]
pub fn memory_requirement_ext_exact(lhs_len: usize, rhs_len: usize) -> (r: Layout)
    requires lhs_len >= rhs_len && rhs_len >= 2,
        lhs_len <= usize::MAX / 16,
    // RESOURCE clause (mem_mod2_gcd.rs only): PROVED in unit int_memsize_gcd_ext_ops
    ensures lay_ok(r, ext_need(lhs_len as int)), lay_wordish(r),
{ unimplemented!() }
}

// ---- lemmas ---------------------------------------------------------------------------------------------------------

/// a value of at least B^(n-1) in n words has a non-zero top word
pub proof fn lemma_top_nonzero(s: Seq<Word>)
    requires s.len() >= 1, val(s) >= pw(s.len() - 1),
    ensures s[s.len() - 1] != 0,
{
    let n = s.len() as int;
    lemma_valn_bound(s, n - 1);
    if s[n - 1] == 0 {
        assert((s[n - 1] as int) * pw(n - 1) == 0) by (nonlinear_arith) requires s[n - 1] as int == 0;
    }
}

/// k words with a non-zero top word are worth at least B^(k-1)
pub proof fn lemma_valn_top_ge(s: Seq<Word>, k: int)
    requires 1 <= k <= s.len(), s[k - 1] != 0,
    ensures valn(s, k) >= pw(k - 1),
{
    lemma_valn_bound(s, k - 1);
    lemma_pw_pos(k - 1);
    assert((s[k - 1] as int) * pw(k - 1) >= pw(k - 1)) by (nonlinear_arith) requires s[k - 1] as int >= 1, pw(k - 1) >= 1;
}

pub proof fn lemma_pw_ge_B(k: int)
    requires k >= 1,
    ensures pw(k) >= B(),
{
    lemma_pw_pos(k - 1);
    assert(B() * pw(k - 1) >= B()) by (nonlinear_arith) requires pw(k - 1) >= 1, B() >= 1;
}

/// the zero bits a right shift by `shift` drops from an aligned number
pub proof fn lemma_aligned_shr(x: int, p: int, q: int)
    requires p >= 1, x % p == 0,
    ensures (x % p) * q == 0,
{
    assert((x % p) * q == 0) by (nonlinear_arith) requires x % p == 0;
}

/// m*x + r*y == 1 with m > 1  ==>  r*y == 1 (mod m)
pub proof fn lemma_bezout_inv(m: int, r: int, y: int)
    requires m > 1, exists|x: int| #[trigger] bez(m, x, r, y) == 1,
    ensures (r * y) % m == 1,
{
    let x = choose|x: int| #[trigger] bez(m, x, r, y) == 1;
    assert(m * (-x) + 1 == r * y) by (nonlinear_arith) requires m * x + r * y == 1;
    vstd::arithmetic::div_mod::lemma_mod_multiples_vanish(-x, 1, m);
    vstd::arithmetic::div_mod::lemma_small_mod(1, m as nat);
}

/// common divisor g >= 2  ==>  not coprime
pub proof fn lemma_not_coprime(g: int, a: int, m: int)
    requires g >= 2, divides(g, a), divides(g, m),
    ensures !coprime(a, m),
{
}

/// the inverse element from the signed Bezout coefficient y = sign * bb:  z = bb or z = (-bb) mod m
pub proof fn lemma_inv_elem(m: int, r: int, bb: int, neg: bool, z: int)
    requires m > 1, (r * (if neg { -bb } else { bb })) % m == 1,
        z == (if neg { (-bb) % m } else { bb }),
    ensures (r * z) % m == 1,
{
    if neg {
        vstd::arithmetic::div_mod::lemma_mul_mod_noop_right(r, -bb, m);
    }
}

/// val(buf') + c*B^n == bb * p with bb < m, m*p == M < B^n:  nothing is shifted out
pub proof fn lemma_shl_fits(v: int, c: int, pn: int, bb: int, p: int, m: int, mv: int)
    requires v + c * pn == bb * p, 0 <= v, 0 <= c, 0 <= bb < m, mv == m * p, mv < pn, p >= 1, pn >= 1,
    ensures c == 0, v == bb * p, v < mv,
{
    assert(bb * p < mv) by (nonlinear_arith) requires 0 <= bb < m, mv == m * p, p >= 1;
    assert(c == 0) by (nonlinear_arith) requires v + c * pn == bb * p, 0 <= v, 0 <= c, bb * p < pn, pn >= 1;
    assert(c * pn == 0) by (nonlinear_arith) requires c == 0;
}

/// 1 * x
pub proof fn lemma_sgn_mul(s: Sign, x: int)
    ensures sgn(s) * x == (if s == Sign::Negative { -x } else { x }),
{
    if s == Sign::Negative { assert((-1) * x == -x); } else { assert(1 * x == x); }
}

/// an element with an inverse is coprime to the modulus (the "exactly when gcd(a, m) = 1" direction that needs no gcd)
pub proof fn lemma_inv_coprime(r: int, z: int, m: int)
    requires m > 1, (r * z) % m == 1,
    ensures coprime(r, m),
{
    assert forall|d: int| d >= 1 && #[trigger] divides(d, r) && divides(d, m) implies d == 1 by {
        lemma_exact_div(r, d);
        lemma_exact_div(m, d);
        vstd::arithmetic::div_mod::lemma_fundamental_div_mod(r * z, m);
        let q = (r * z) / m;
        let r1 = r / d;
        let m1 = m / d;
        let t = r1 * z - m1 * q;
        assert(d * t == 1) by (nonlinear_arith)
            requires r * z == m * q + 1, r == r1 * d, m == m1 * d, t == r1 * z - m1 * q;
        assert(d == 1) by (nonlinear_arith) requires d * t == 1, d >= 1;
    }
}
