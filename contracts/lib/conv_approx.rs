// ---- conv_approx.rs: dashu_base enums as seen by the conversion units that do not include round_float_repr.rs
// dashu_base::Approximation (base/src/approx.rs) -- transcription of the two-variant enum
pub enum Approximation<T, E> {
    Exact(T),
    Inexact(T, E),
}
pub use Approximation::*;
// dashu_base::ConversionError (base/src/error.rs) -- transcription
#[derive(Clone, Copy, PartialEq, Eq, Debug)]
pub enum ConversionError { OutOfBounds, LossOfPrecision }
