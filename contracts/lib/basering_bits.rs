// ---- basering_bits.rs: shifts and trailing_zeros of u64 / u128 in mathematical integers (unit base_gcd, base_root; C12).
// Needs lib/div_dword_bits_64.rs (the ASSUMED documented meaning of u128::{leading_zeros, trailing_zeros}: vstd specifies these
// only up to u64) and `use vstd::arithmetic::power2::pow2`.  Everything in THIS file is proved (u64: from the vstd axioms).

pub open spec fn br_tz64(x: u64) -> u32 { vstd::std_specs::bits::u64_trailing_zeros(x) }
pub open spec fn br_tz128(x: u128) -> u32 { dd_tz(x) }

pub proof fn lemma_br_pow2_step(k: nat)
    requires k >= 1,
    ensures pow2(k) == 2 * pow2((k - 1) as nat), pow2(k) >= 1, pow2((k - 1) as nat) >= 1,
{
    vstd::arithmetic::power2::lemma_pow2_unfold(k);
    vstd::arithmetic::power2::lemma_pow2_pos(k);
    vstd::arithmetic::power2::lemma_pow2_pos((k - 1) as nat);
}

pub proof fn lemma_br_pow2_64()
    ensures pow2(64) == 0x1_0000_0000_0000_0000, pow2(32) == 0x1_0000_0000, pow2(0) == 1, pow2(1) == 2, pow2(63) == 0x8000_0000_0000_0000,
        pow2(127) == 0x8000_0000_0000_0000_0000_0000_0000_0000, pow2(128) == 0x1_0000_0000_0000_0000_0000_0000_0000_0000,
        pow2(62) == 0x4000_0000_0000_0000, pow2(126) == 0x4000_0000_0000_0000_0000_0000_0000_0000,
{
    vstd::arithmetic::power2::lemma2_to64();
    vstd::arithmetic::power2::lemma_pow2_adds(32, 31);
    vstd::arithmetic::power2::lemma_pow2_adds(32, 30);
    assert(pow2(63) == 0x8000_0000_0000_0000 && pow2(62) == 0x4000_0000_0000_0000);
    vstd::arithmetic::power2::lemma_pow2_adds(64, 63);
    vstd::arithmetic::power2::lemma_pow2_adds(64, 64);
    vstd::arithmetic::power2::lemma_pow2_adds(64, 62);
}

// ---- u64 ------------------------------------------------------------------------------------------------------------------

/// x << k  ==  x * 2^k  when nothing is shifted out
pub proof fn lemma_br_shl64(x: u64, k: u32)
    requires k < 64, (x as int) * pow2(k as nat) <= u64::MAX,
    ensures (x << k) as int == (x as int) * pow2(k as nat),
    decreases k,
{
    if k == 0 {
        assert(x << 0u32 == x) by (bit_vector);
        vstd::arithmetic::power2::lemma2_to64();
        assert((x as int) * 1 == x as int);
    } else {
        let k1 = (k - 1) as u32;
        lemma_br_pow2_step(k as nat);
        let p = pow2(k1 as nat) as int;
        let xi = x as int;
        assert(xi * p <= u64::MAX / 2) by (nonlinear_arith) requires xi * (2 * p) <= u64::MAX, xi >= 0, p >= 1;
        lemma_br_shl64(x, k1);
        let y = x << k1;
        assert(x << k == (y << 1u32)) by (bit_vector) requires y == x << k1, k1 == (k - 1) as u32, 0 < k < 64;
        assert((y << 1u32) == 2 * y) by (bit_vector) requires y <= 0x7fff_ffff_ffff_ffffu64;
        assert(2 * (xi * p) == xi * (2 * p)) by (nonlinear_arith);
    }
}

/// x >> k  ==  x div 2^k
pub proof fn lemma_br_shr64(x: u64, k: u32)
    requires k < 64,
    ensures (x >> k) as int == (x as int) / (pow2(k as nat) as int),
    decreases k,
{
    if k == 0 {
        assert(x >> 0u32 == x) by (bit_vector);
        vstd::arithmetic::power2::lemma2_to64();
    } else {
        let k1 = (k - 1) as u32;
        lemma_br_pow2_step(k as nat);
        let p = pow2(k1 as nat) as int;
        lemma_br_shr64(x, k1);
        let y = x >> k1;
        assert(x >> k == (y >> 1u32)) by (bit_vector) requires y == x >> k1, k1 == (k - 1) as u32, 0 < k < 64;
        assert((y >> 1u32) == y / 2) by (bit_vector);
        vstd::arithmetic::div_mod::lemma_div_denominator(x as int, p, 2);
        assert(p * 2 == 2 * p);
        assert(((x as int) / p) / 2 == (x as int) / (p * 2));
        assert((y >> 1u32) as int == (y as int) / 2);
    }
}

/// the vstd axioms of u64::trailing_zeros in the form used below (shift amounts of type u32, as in the code)
pub proof fn lemma_br_tz64_bits(x: u64)
    ensures br_tz64(x) <= 64, (x == 0) == (br_tz64(x) == 64),
        br_tz64(x) < 64 ==> ((x >> br_tz64(x)) & 1) == 1 && ((x >> br_tz64(x)) << br_tz64(x)) == x,
{
    let r = br_tz64(x);
    vstd::std_specs::bits::axiom_u64_trailing_zeros(x);
    if r < 64 {
        let rw = r as u64;
        let up = (64 - r) as u64;
        assert(sub(64u64, rw) == up);
        assert(x << up == 0);
        assert(((x >> rw) & 1) == 1);
        assert(((x >> r) & 1) == 1 && ((x >> r) << r) == x) by (bit_vector)
            requires r < 64, rw == r as u64, up == 64 - rw, x << up == 0, ((x >> rw) & 1) == 1;
    }
}

/// x != 0:  i = trailing_zeros(x) < 64,  x >> i is odd,  x == (x >> i) * 2^i
pub proof fn lemma_br_tz64(x: u64)
    requires x != 0,
    ensures br_tz64(x) < 64, ((x >> br_tz64(x)) as int) % 2 == 1, (x >> br_tz64(x)) >= 1,
        x as int == ((x >> br_tz64(x)) as int) * pow2(br_tz64(x) as nat),
{
    let i = br_tz64(x);
    lemma_br_tz64_bits(x);
    let xo = x >> i;
    assert(xo % 2 == 1) by (bit_vector) requires (xo & 1) == 1;
    lemma_br_shr64(x, i);
    vstd::arithmetic::power2::lemma_pow2_pos(i as nat);
    let p = pow2(i as nat) as int;
    vstd::arithmetic::div_mod::lemma_fundamental_div_mod(x as int, p);
    vstd::arithmetic::div_mod::lemma_mod_bound(x as int, p);
    assert((xo as int) * p == p * (xo as int)) by (nonlinear_arith);
    lemma_br_shl64(xo, i);
}

/// trailing_zeros(a | b) == min(trailing_zeros(a), trailing_zeros(b))
pub proof fn lemma_br_tz64_or(a: u64, b: u64)
    requires a != 0, b != 0,
    ensures br_tz64((a | b)) == (if br_tz64(a) <= br_tz64(b) { br_tz64(a) } else { br_tz64(b) }), (a | b) != 0,
{
    let c = a | b;
    let i = br_tz64(a); let j = br_tz64(b); let s = br_tz64(c);
    lemma_br_tz64_bits(a); lemma_br_tz64_bits(b); lemma_br_tz64_bits(c);
    assert(c != 0) by (bit_vector) requires c == a | b, a != 0;
    assert(s == (if i <= j { i } else { j })) by (bit_vector)
        requires c == a | b, i < 64, j < 64, s < 64,
            ((a >> i) & 1) == 1, ((a >> i) << i) == a, ((b >> j) & 1) == 1, ((b >> j) << j) == b,
            ((c >> s) & 1) == 1, ((c >> s) << s) == c;
}

pub proof fn lemma_br_or_zero64(a: u64, b: u64)
    ensures a == 0 ==> (a | b) == b, b == 0 ==> (a | b) == a, ((a | b) > 0) == (a != 0 || b != 0),
        ((a & b & 1) > 0) == ((a as int) % 2 == 1 && (b as int) % 2 == 1),
{
    assert(a == 0 ==> (a | b) == b) by (bit_vector);
    assert(b == 0 ==> (a | b) == a) by (bit_vector);
    assert(((a | b) > 0) == (a != 0 || b != 0)) by (bit_vector);
    assert(((a & b & 1) > 0) == (a % 2 == 1 && b % 2 == 1)) by (bit_vector);
}

// ---- u128 -----------------------------------------------------------------------------------------------------------------

pub proof fn lemma_br_shl128(x: u128, k: u32)
    requires k < 128, (x as int) * pow2(k as nat) <= u128::MAX,
    ensures (x << k) as int == (x as int) * pow2(k as nat),
    decreases k,
{
    if k == 0 {
        assert(x << 0u32 == x) by (bit_vector);
        vstd::arithmetic::power2::lemma2_to64();
        assert((x as int) * 1 == x as int);
    } else {
        let k1 = (k - 1) as u32;
        lemma_br_pow2_step(k as nat);
        let p = pow2(k1 as nat) as int;
        let xi = x as int;
        assert(xi * p <= u128::MAX / 2) by (nonlinear_arith) requires xi * (2 * p) <= u128::MAX, xi >= 0, p >= 1;
        lemma_br_shl128(x, k1);
        let y = x << k1;
        assert(x << k == (y << 1u32)) by (bit_vector) requires y == x << k1, k1 == (k - 1) as u32, 0 < k < 128;
        assert((y << 1u32) == 2 * y) by (bit_vector) requires y <= 0x7fff_ffff_ffff_ffff_ffff_ffff_ffff_ffffu128;
        assert(2 * (xi * p) == xi * (2 * p)) by (nonlinear_arith);
    }
}

pub proof fn lemma_br_shr128(x: u128, k: u32)
    requires k < 128,
    ensures (x >> k) as int == (x as int) / (pow2(k as nat) as int),
    decreases k,
{
    if k == 0 {
        assert(x >> 0u32 == x) by (bit_vector);
        vstd::arithmetic::power2::lemma2_to64();
    } else {
        let k1 = (k - 1) as u32;
        lemma_br_pow2_step(k as nat);
        let p = pow2(k1 as nat) as int;
        lemma_br_shr128(x, k1);
        let y = x >> k1;
        assert(x >> k == (y >> 1u32)) by (bit_vector) requires y == x >> k1, k1 == (k - 1) as u32, 0 < k < 128;
        assert((y >> 1u32) == y / 2) by (bit_vector);
        vstd::arithmetic::div_mod::lemma_div_denominator(x as int, p, 2);
        assert(p * 2 == 2 * p);
        assert(((x as int) / p) / 2 == (x as int) / (p * 2));
        assert((y >> 1u32) as int == (y as int) / 2);
    }
}

pub proof fn lemma_br_tz128_bits(x: u128)
    ensures br_tz128(x) <= 128, (x == 0) == (br_tz128(x) == 128),
        br_tz128(x) < 128 ==> ((x >> br_tz128(x)) & 1) == 1 && ((x >> br_tz128(x)) << br_tz128(x)) == x,
{
    let r = br_tz128(x);
    axiom_dd_tz(x);
    if r < 128 {
        let rw = r as u128;
        assert(((x >> r) & 1) == 1 && ((x >> r) << r) == x) by (bit_vector)
            requires r < 128, rw == r as u128, ((x >> rw) & 1) == 1, ((x >> rw) << rw) == x;
    }
}

pub proof fn lemma_br_tz128(x: u128)
    requires x != 0,
    ensures br_tz128(x) < 128, ((x >> br_tz128(x)) as int) % 2 == 1, (x >> br_tz128(x)) >= 1,
        x as int == ((x >> br_tz128(x)) as int) * pow2(br_tz128(x) as nat),
{
    let i = br_tz128(x);
    lemma_br_tz128_bits(x);
    let xo = x >> i;
    assert(xo % 2 == 1) by (bit_vector) requires (xo & 1) == 1;
    lemma_br_shr128(x, i);
    vstd::arithmetic::power2::lemma_pow2_pos(i as nat);
    let p = pow2(i as nat) as int;
    vstd::arithmetic::div_mod::lemma_fundamental_div_mod(x as int, p);
    vstd::arithmetic::div_mod::lemma_mod_bound(x as int, p);
    assert((xo as int) * p == p * (xo as int)) by (nonlinear_arith);
    lemma_br_shl128(xo, i);
}

pub proof fn lemma_br_tz128_or(a: u128, b: u128)
    requires a != 0, b != 0,
    ensures br_tz128((a | b)) == (if br_tz128(a) <= br_tz128(b) { br_tz128(a) } else { br_tz128(b) }), (a | b) != 0,
{
    let c = a | b;
    let i = br_tz128(a); let j = br_tz128(b); let s = br_tz128(c);
    lemma_br_tz128_bits(a); lemma_br_tz128_bits(b); lemma_br_tz128_bits(c);
    assert(c != 0) by (bit_vector) requires c == a | b, a != 0;
    assert(s == (if i <= j { i } else { j })) by (bit_vector)
        requires c == a | b, i < 128, j < 128, s < 128,
            ((a >> i) & 1) == 1, ((a >> i) << i) == a, ((b >> j) & 1) == 1, ((b >> j) << j) == b,
            ((c >> s) & 1) == 1, ((c >> s) << s) == c;
}

pub proof fn lemma_br_or_zero128(a: u128, b: u128)
    ensures a == 0 ==> (a | b) == b, b == 0 ==> (a | b) == a, ((a | b) > 0) == (a != 0 || b != 0),
        ((a & b & 1) > 0) == ((a as int) % 2 == 1 && (b as int) % 2 == 1),
{
    assert(a == 0 ==> (a | b) == b) by (bit_vector);
    assert(b == 0 ==> (a | b) == a) by (bit_vector);
    assert(((a | b) > 0) == (a != 0 || b != 0)) by (bit_vector);
    assert(((a & b & 1) > 0) == (a % 2 == 1 && b % 2 == 1)) by (bit_vector);
}

/// (a | b) >> 64 == 0  <==>  both fit in 64 bits
pub proof fn lemma_br_or_hi128(a: u128, b: u128)
    ensures (((a | b) >> 64u32) == 0) == (a <= 0xffff_ffff_ffff_ffffu128 && b <= 0xffff_ffff_ffff_ffffu128),
        ((a >> 64u32) > 0) == (a > 0xffff_ffff_ffff_ffffu128),
{
    assert((((a | b) >> 64u32) == 0) == (a <= 0xffff_ffff_ffff_ffffu128 && b <= 0xffff_ffff_ffff_ffffu128)) by (bit_vector);
    assert(((a >> 64u32) > 0) == (a > 0xffff_ffff_ffff_ffffu128)) by (bit_vector);
}
