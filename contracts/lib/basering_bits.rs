// ---- basering_bits.rs: shifts and trailing_zeros of u64 / u128 in mathematical integers (unit base_gcd, base_root; C12).
// Needs lib/div_dword_bits_64.rs (the ASSUMED documented meaning of u128::{leading_zeros, trailing_zeros}: vstd specifies these
// only up to u64) and `use vstd::arithmetic::power2::pow2`.  Everything in THIS file is proved (u64: from the vstd axioms).

pub open spec fn br_tz64(x: u64) -> u32 { vstd::std_specs::bits::u64_trailing_zeros(x) }
pub open spec fn br_tz128(x: u128) -> u32 { dd_tz(x) }
pub open spec fn br_tz32(x: u32) -> u32 { vstd::std_specs::bits::u32_trailing_zeros(x) }

pub proof fn lemma_br_pow2_step(k: nat)
    requires k >= 1,
    ensures pow2(k) == 2 * pow2((k - 1) as nat), pow2(k) >= 1, pow2((k - 1) as nat) >= 1,
{
    vstd::arithmetic::power2::lemma_pow2_unfold(k);
    vstd::arithmetic::power2::lemma_pow2_pos(k);
    vstd::arithmetic::power2::lemma_pow2_pos((k - 1) as nat);
}

pub proof fn lemma_br_pow2_64()
    ensures pow2(64) == 0x1_0000_0000_0000_0000, pow2(32) == 0x1_0000_0000, pow2(0) == 1, pow2(1) == 2, pow2(63) == 0x8000_0000_0000_0000,
        pow2(127) == 0x8000_0000_0000_0000_0000_0000_0000_0000, pow2(128) == 0x1_0000_0000_0000_0000_0000_0000_0000_0000,
        pow2(62) == 0x4000_0000_0000_0000, pow2(126) == 0x4000_0000_0000_0000_0000_0000_0000_0000,
{
    vstd::arithmetic::power2::lemma2_to64();
    vstd::arithmetic::power2::lemma_pow2_adds(32, 31);
    vstd::arithmetic::power2::lemma_pow2_adds(32, 30);
    assert(pow2(63) == 0x8000_0000_0000_0000 && pow2(62) == 0x4000_0000_0000_0000);
    vstd::arithmetic::power2::lemma_pow2_adds(64, 63);
    vstd::arithmetic::power2::lemma_pow2_adds(64, 64);
    vstd::arithmetic::power2::lemma_pow2_adds(64, 62);
}

// ---- u64 ------------------------------------------------------------------------------------------------------------------

/// x << k  ==  x * 2^k  when nothing is shifted out
pub proof fn lemma_br_shl64(x: u64, k: u32)
    requires k < 64, (x as int) * pow2(k as nat) <= u64::MAX,
    ensures (x << k) as int == (x as int) * pow2(k as nat),
    decreases k,
{
    if k == 0 {
        assert(x << 0u32 == x) by (bit_vector);
        vstd::arithmetic::power2::lemma2_to64();
        assert((x as int) * 1 == x as int);
    } else {
        let k1 = (k - 1) as u32;
        lemma_br_pow2_step(k as nat);
        let p = pow2(k1 as nat) as int;
        let xi = x as int;
        assert(xi * p <= u64::MAX / 2) by (nonlinear_arith) requires xi * (2 * p) <= u64::MAX, xi >= 0, p >= 1;
        lemma_br_shl64(x, k1);
        let y = x << k1;
        assert(x << k == (y << 1u32)) by (bit_vector) requires y == x << k1, k1 == (k - 1) as u32, 0 < k < 64;
        assert((y << 1u32) == 2 * y) by (bit_vector) requires y <= 0x7fff_ffff_ffff_ffffu64;
        assert(2 * (xi * p) == xi * (2 * p)) by (nonlinear_arith);
    }
}

/// x >> k  ==  x div 2^k
pub proof fn lemma_br_shr64(x: u64, k: u32)
    requires k < 64,
    ensures (x >> k) as int == (x as int) / (pow2(k as nat) as int),
    decreases k,
{
    if k == 0 {
        assert(x >> 0u32 == x) by (bit_vector);
        vstd::arithmetic::power2::lemma2_to64();
        assert((x as int) / 1 == x as int);
    } else {
        let k1 = (k - 1) as u32;
        lemma_br_pow2_step(k as nat);
        let p = pow2(k1 as nat) as int;
        assert(pow2(k as nat) as int == p * 2);
        lemma_br_shr64(x, k1);
        let y = x >> k1;
        assert(x >> k == (y >> 1u32)) by (bit_vector) requires y == x >> k1, k1 == (k - 1) as u32, 0 < k < 64;
        assert((y >> 1u32) == y / 2) by (bit_vector);
        vstd::arithmetic::div_mod::lemma_div_denominator(x as int, p, 2);
        assert(p * 2 == 2 * p);
        assert(((x as int) / p) / 2 == (x as int) / (p * 2));
        assert((y >> 1u32) as int == (y as int) / 2);
    }
}

/// the vstd axioms of u64::trailing_zeros in the form used below (shift amounts of type u32, as in the code)
pub proof fn lemma_br_tz64_bits(x: u64)
    ensures br_tz64(x) <= 64, (x == 0) == (br_tz64(x) == 64),
        br_tz64(x) < 64 ==> ((x >> br_tz64(x)) & 1) == 1 && ((x >> br_tz64(x)) << br_tz64(x)) == x,
{
    let r = br_tz64(x);
    vstd::std_specs::bits::axiom_u64_trailing_zeros(x);
    if r < 64 {
        let rw = r as u64;
        let up = (64 - r) as u64;
        assert(sub(64u64, rw) == up);
        assert(x << up == 0);
        assert(((x >> rw) & 1) == 1);
        assert(((x >> r) & 1) == 1 && ((x >> r) << r) == x) by (bit_vector)
            requires r < 64, rw == r as u64, up == 64 - rw, x << up == 0, ((x >> rw) & 1) == 1;
    }
}

/// x != 0:  i = trailing_zeros(x) < 64,  x >> i is odd,  x == (x >> i) * 2^i
pub proof fn lemma_br_tz64(x: u64)
    requires x != 0,
    ensures br_tz64(x) < 64, ((x >> br_tz64(x)) as int) % 2 == 1, (x >> br_tz64(x)) >= 1, (x >> br_tz64(x)) <= x,
        x as int == ((x >> br_tz64(x)) as int) * pow2(br_tz64(x) as nat),
{
    let i = br_tz64(x);
    lemma_br_tz64_bits(x);
    let xo = x >> i;
    assert(xo % 2 == 1) by (bit_vector) requires (xo & 1) == 1;
    lemma_br_shr64(x, i);
    vstd::arithmetic::power2::lemma_pow2_pos(i as nat);
    let p = pow2(i as nat) as int;
    vstd::arithmetic::div_mod::lemma_fundamental_div_mod(x as int, p);
    vstd::arithmetic::div_mod::lemma_mod_bound(x as int, p);
    assert((xo as int) * p == p * (xo as int)) by (nonlinear_arith);
    lemma_br_shl64(xo, i);
    assert((xo as int) <= (xo as int) * p) by (nonlinear_arith) requires p >= 1, xo >= 0;
}

/// trailing_zeros(a | b) == min(trailing_zeros(a), trailing_zeros(b))
pub proof fn lemma_br_tz64_or(a: u64, b: u64)
    requires a != 0, b != 0,
    ensures br_tz64((a | b)) == (if br_tz64(a) <= br_tz64(b) { br_tz64(a) } else { br_tz64(b) }), (a | b) != 0,
{
    let c = a | b;
    let i = br_tz64(a); let j = br_tz64(b); let s = br_tz64(c);
    lemma_br_tz64_bits(a); lemma_br_tz64_bits(b); lemma_br_tz64_bits(c);
    assert(c != 0) by (bit_vector) requires c == a | b, a != 0;
    assert(s == (if i <= j { i } else { j })) by (bit_vector)
        requires c == a | b, i < 64, j < 64, s < 64,
            ((a >> i) & 1) == 1, ((a >> i) << i) == a, ((b >> j) & 1) == 1, ((b >> j) << j) == b,
            ((c >> s) & 1) == 1, ((c >> s) << s) == c;
}

pub proof fn lemma_br_or_zero64(a: u64, b: u64)
    ensures a == 0 ==> (a | b) == b, b == 0 ==> (a | b) == a, ((a | b) > 0) == (a != 0 || b != 0),
        ((a & b & 1) > 0) == ((a as int) % 2 == 1 && (b as int) % 2 == 1),
{
    assert(a == 0 ==> (a | b) == b) by (bit_vector);
    assert(b == 0 ==> (a | b) == a) by (bit_vector);
    assert(((a | b) > 0) == (a != 0 || b != 0)) by (bit_vector);
    assert(((a & b & 1) > 0) == (a % 2 == 1 && b % 2 == 1)) by (bit_vector);
}

// ---- u32 ------------------------------------------------------------------------------------------------------------------

/// x << k  ==  x * 2^k  when nothing is shifted out
pub proof fn lemma_br_shl32(x: u32, k: u32)
    requires k < 32, (x as int) * pow2(k as nat) <= u32::MAX,
    ensures (x << k) as int == (x as int) * pow2(k as nat),
    decreases k,
{
    if k == 0 {
        assert(x << 0u32 == x) by (bit_vector);
        vstd::arithmetic::power2::lemma2_to64();
        assert((x as int) * 1 == x as int);
    } else {
        let k1 = (k - 1) as u32;
        lemma_br_pow2_step(k as nat);
        let p = pow2(k1 as nat) as int;
        let xi = x as int;
        assert(xi * p <= u32::MAX / 2) by (nonlinear_arith) requires xi * (2 * p) <= u32::MAX, xi >= 0, p >= 1;
        lemma_br_shl32(x, k1);
        let y = x << k1;
        assert(x << k == (y << 1u32)) by (bit_vector) requires y == x << k1, k1 == (k - 1) as u32, 0 < k < 32;
        assert((y << 1u32) == 2 * y) by (bit_vector) requires y <= 0x7fff_ffffu32;
        assert(2 * (xi * p) == xi * (2 * p)) by (nonlinear_arith);
    }
}

/// x >> k  ==  x div 2^k
pub proof fn lemma_br_shr32(x: u32, k: u32)
    requires k < 32,
    ensures (x >> k) as int == (x as int) / (pow2(k as nat) as int),
    decreases k,
{
    if k == 0 {
        assert(x >> 0u32 == x) by (bit_vector);
        vstd::arithmetic::power2::lemma2_to64();
        assert((x as int) / 1 == x as int);
    } else {
        let k1 = (k - 1) as u32;
        lemma_br_pow2_step(k as nat);
        let p = pow2(k1 as nat) as int;
        assert(pow2(k as nat) as int == p * 2);
        lemma_br_shr32(x, k1);
        let y = x >> k1;
        assert(x >> k == (y >> 1u32)) by (bit_vector) requires y == x >> k1, k1 == (k - 1) as u32, 0 < k < 32;
        assert((y >> 1u32) == y / 2) by (bit_vector);
        vstd::arithmetic::div_mod::lemma_div_denominator(x as int, p, 2);
        assert(p * 2 == 2 * p);
        assert(((x as int) / p) / 2 == (x as int) / (p * 2));
        assert((y >> 1u32) as int == (y as int) / 2);
    }
}

/// the vstd axioms of u32::trailing_zeros in the form used below (shift amounts of type u32, as in the code)
pub proof fn lemma_br_tz32_bits(x: u32)
    ensures br_tz32(x) <= 32, (x == 0) == (br_tz32(x) == 32),
        br_tz32(x) < 32 ==> ((x >> br_tz32(x)) & 1) == 1 && ((x >> br_tz32(x)) << br_tz32(x)) == x,
{
    let r = br_tz32(x);
    vstd::std_specs::bits::axiom_u32_trailing_zeros(x);
    if r < 32 {
        let rw = r as u32;
        let up = (32 - r) as u32;
        assert(sub(32u32, rw) == up);
        assert(x << up == 0);
        assert(((x >> rw) & 1) == 1);
        assert(((x >> r) & 1) == 1 && ((x >> r) << r) == x) by (bit_vector)
            requires r < 32, rw == r as u32, up == 32 - rw, x << up == 0, ((x >> rw) & 1) == 1;
    }
}

/// x != 0:  i = trailing_zeros(x) < 32,  x >> i is odd,  x == (x >> i) * 2^i
pub proof fn lemma_br_tz32(x: u32)
    requires x != 0,
    ensures br_tz32(x) < 32, ((x >> br_tz32(x)) as int) % 2 == 1, (x >> br_tz32(x)) >= 1, (x >> br_tz32(x)) <= x,
        x as int == ((x >> br_tz32(x)) as int) * pow2(br_tz32(x) as nat),
{
    let i = br_tz32(x);
    lemma_br_tz32_bits(x);
    let xo = x >> i;
    assert(xo % 2 == 1) by (bit_vector) requires (xo & 1) == 1;
    lemma_br_shr32(x, i);
    vstd::arithmetic::power2::lemma_pow2_pos(i as nat);
    let p = pow2(i as nat) as int;
    vstd::arithmetic::div_mod::lemma_fundamental_div_mod(x as int, p);
    vstd::arithmetic::div_mod::lemma_mod_bound(x as int, p);
    assert((xo as int) * p == p * (xo as int)) by (nonlinear_arith);
    lemma_br_shl32(xo, i);
    assert((xo as int) <= (xo as int) * p) by (nonlinear_arith) requires p >= 1, xo >= 0;
}

/// trailing_zeros(a | b) == min(trailing_zeros(a), trailing_zeros(b))
pub proof fn lemma_br_tz32_or(a: u32, b: u32)
    requires a != 0, b != 0,
    ensures br_tz32((a | b)) == (if br_tz32(a) <= br_tz32(b) { br_tz32(a) } else { br_tz32(b) }), (a | b) != 0,
{
    let c = a | b;
    let i = br_tz32(a); let j = br_tz32(b); let s = br_tz32(c);
    lemma_br_tz32_bits(a); lemma_br_tz32_bits(b); lemma_br_tz32_bits(c);
    assert(c != 0) by (bit_vector) requires c == a | b, a != 0;
    assert(s == (if i <= j { i } else { j })) by (bit_vector)
        requires c == a | b, i < 32, j < 32, s < 32,
            ((a >> i) & 1) == 1, ((a >> i) << i) == a, ((b >> j) & 1) == 1, ((b >> j) << j) == b,
            ((c >> s) & 1) == 1, ((c >> s) << s) == c;
}

pub proof fn lemma_br_or_zero32(a: u32, b: u32)
    ensures a == 0 ==> (a | b) == b, b == 0 ==> (a | b) == a, ((a | b) > 0) == (a != 0 || b != 0),
        ((a & b & 1) > 0) == ((a as int) % 2 == 1 && (b as int) % 2 == 1),
{
    assert(a == 0 ==> (a | b) == b) by (bit_vector);
    assert(b == 0 ==> (a | b) == a) by (bit_vector);
    assert(((a | b) > 0) == (a != 0 || b != 0)) by (bit_vector);
    assert(((a & b & 1) > 0) == (a % 2 == 1 && b % 2 == 1)) by (bit_vector);
}

// ---- u128 -----------------------------------------------------------------------------------------------------------------

pub proof fn lemma_br_shl128(x: u128, k: u32)
    requires k < 128, (x as int) * pow2(k as nat) <= u128::MAX,
    ensures (x << k) as int == (x as int) * pow2(k as nat),
    decreases k,
{
    if k == 0 {
        assert(x << 0u32 == x) by (bit_vector);
        vstd::arithmetic::power2::lemma2_to64();
        assert((x as int) * 1 == x as int);
    } else {
        let k1 = (k - 1) as u32;
        lemma_br_pow2_step(k as nat);
        let p = pow2(k1 as nat) as int;
        let xi = x as int;
        assert(xi * p <= u128::MAX / 2) by (nonlinear_arith) requires xi * (2 * p) <= u128::MAX, xi >= 0, p >= 1;
        lemma_br_shl128(x, k1);
        let y = x << k1;
        assert(x << k == (y << 1u32)) by (bit_vector) requires y == x << k1, k1 == (k - 1) as u32, 0 < k < 128;
        assert((y << 1u32) == 2 * y) by (bit_vector) requires y <= 0x7fff_ffff_ffff_ffff_ffff_ffff_ffff_ffffu128;
        assert(2 * (xi * p) == xi * (2 * p)) by (nonlinear_arith);
    }
}

pub proof fn lemma_br_shr128(x: u128, k: u32)
    requires k < 128,
    ensures (x >> k) as int == (x as int) / (pow2(k as nat) as int),
    decreases k,
{
    if k == 0 {
        assert(x >> 0u32 == x) by (bit_vector);
        vstd::arithmetic::power2::lemma2_to64();
        assert((x as int) / 1 == x as int);
    } else {
        let k1 = (k - 1) as u32;
        lemma_br_pow2_step(k as nat);
        let p = pow2(k1 as nat) as int;
        assert(pow2(k as nat) as int == p * 2);
        lemma_br_shr128(x, k1);
        let y = x >> k1;
        assert(x >> k == (y >> 1u32)) by (bit_vector) requires y == x >> k1, k1 == (k - 1) as u32, 0 < k < 128;
        assert((y >> 1u32) == y / 2) by (bit_vector);
        vstd::arithmetic::div_mod::lemma_div_denominator(x as int, p, 2);
        assert(p * 2 == 2 * p);
        assert(((x as int) / p) / 2 == (x as int) / (p * 2));
        assert((y >> 1u32) as int == (y as int) / 2);
    }
}

pub proof fn lemma_br_tz128_bits(x: u128)
    ensures br_tz128(x) <= 128, (x == 0) == (br_tz128(x) == 128),
        br_tz128(x) < 128 ==> ((x >> br_tz128(x)) & 1) == 1 && ((x >> br_tz128(x)) << br_tz128(x)) == x,
{
    let r = br_tz128(x);
    axiom_dd_tz(x);
    if r < 128 {
        let rw = r as u128;
        assert(((x >> r) & 1) == 1 && ((x >> r) << r) == x) by (bit_vector)
            requires r < 128, rw == r as u128, ((x >> rw) & 1) == 1, ((x >> rw) << rw) == x;
    }
}

pub proof fn lemma_br_tz128(x: u128)
    requires x != 0,
    ensures br_tz128(x) < 128, ((x >> br_tz128(x)) as int) % 2 == 1, (x >> br_tz128(x)) >= 1, (x >> br_tz128(x)) <= x,
        x as int == ((x >> br_tz128(x)) as int) * pow2(br_tz128(x) as nat),
{
    let i = br_tz128(x);
    lemma_br_tz128_bits(x);
    let xo = x >> i;
    assert(xo % 2 == 1) by (bit_vector) requires (xo & 1) == 1;
    lemma_br_shr128(x, i);
    vstd::arithmetic::power2::lemma_pow2_pos(i as nat);
    let p = pow2(i as nat) as int;
    vstd::arithmetic::div_mod::lemma_fundamental_div_mod(x as int, p);
    vstd::arithmetic::div_mod::lemma_mod_bound(x as int, p);
    assert((xo as int) * p == p * (xo as int)) by (nonlinear_arith);
    lemma_br_shl128(xo, i);
    assert((xo as int) <= (xo as int) * p) by (nonlinear_arith) requires p >= 1, xo >= 0;
}

pub proof fn lemma_br_tz128_or(a: u128, b: u128)
    requires a != 0, b != 0,
    ensures br_tz128((a | b)) == (if br_tz128(a) <= br_tz128(b) { br_tz128(a) } else { br_tz128(b) }), (a | b) != 0,
{
    let c = a | b;
    let i = br_tz128(a); let j = br_tz128(b); let s = br_tz128(c);
    lemma_br_tz128_bits(a); lemma_br_tz128_bits(b); lemma_br_tz128_bits(c);
    assert(c != 0) by (bit_vector) requires c == a | b, a != 0;
    assert(s == (if i <= j { i } else { j })) by (bit_vector)
        requires c == a | b, i < 128, j < 128, s < 128,
            ((a >> i) & 1) == 1, ((a >> i) << i) == a, ((b >> j) & 1) == 1, ((b >> j) << j) == b,
            ((c >> s) & 1) == 1, ((c >> s) << s) == c;
}

pub proof fn lemma_br_or_zero128(a: u128, b: u128)
    ensures a == 0 ==> (a | b) == b, b == 0 ==> (a | b) == a, ((a | b) > 0) == (a != 0 || b != 0),
        ((a & b & 1) > 0) == ((a as int) % 2 == 1 && (b as int) % 2 == 1),
{
    assert(a == 0 ==> (a | b) == b) by (bit_vector);
    assert(b == 0 ==> (a | b) == a) by (bit_vector);
    assert(((a | b) > 0) == (a != 0 || b != 0)) by (bit_vector);
    assert(((a & b & 1) > 0) == (a % 2 == 1 && b % 2 == 1)) by (bit_vector);
}

/// (a | b) >> 64 == 0  <==>  both fit in 64 bits
pub proof fn lemma_br_or_hi128(a: u128, b: u128)
    ensures (((a | b) >> 64u32) == 0) == (a <= 0xffff_ffff_ffff_ffffu128 && b <= 0xffff_ffff_ffff_ffffu128),
        ((a >> 64u32) > 0) == (a > 0xffff_ffff_ffff_ffffu128),
{
    assert((((a | b) >> 64u32) == 0) == (a <= 0xffff_ffff_ffff_ffffu128 && b <= 0xffff_ffff_ffff_ffffu128)) by (bit_vector);
    assert(((a >> 64u32) > 0) == (a > 0xffff_ffff_ffff_ffffu128)) by (bit_vector);
}

/// (a | b) >> 32 == 0  <==>  both fit in 32 bits   (u64 seen as two u32 halves: 32-bit targets)
pub proof fn lemma_br_or_hi64(a: u64, b: u64)
    ensures (((a | b) >> 32u32) == 0) == (a <= 0xffff_ffffu64 && b <= 0xffff_ffffu64),
        ((a >> 32u32) > 0) == (a > 0xffff_ffffu64),
{
    assert((((a | b) >> 32u32) == 0) == (a <= 0xffff_ffffu64 && b <= 0xffff_ffffu64)) by (bit_vector);
    assert(((a >> 32u32) > 0) == (a > 0xffff_ffffu64)) by (bit_vector);
}

/// s <= trailing_zeros(x):  x == (x >> s) * 2^s  (nothing is shifted out)
pub proof fn lemma_br_shr_exact64(x: u64, s: u32)
    requires x != 0, s <= br_tz64(x),
    ensures s < 64, x as int == ((x >> s) as int) * pow2(s as nat), (x >> s) >= 1, (x >> s) <= x, pow2(s as nat) >= 1,
{
    let i = br_tz64(x);
    lemma_br_tz64_bits(x);
    let xs = x >> s;
    assert(((x >> s) << s) == x && (x >> s) >= 1) by (bit_vector)
        requires s <= i, i < 64, ((x >> i) & 1) == 1, ((x >> i) << i) == x;
    lemma_br_shr64(x, s);
    vstd::arithmetic::power2::lemma_pow2_pos(s as nat);
    let p = pow2(s as nat) as int;
    vstd::arithmetic::div_mod::lemma_fundamental_div_mod(x as int, p);
    vstd::arithmetic::div_mod::lemma_mod_bound(x as int, p);
    assert((xs as int) * p == p * (xs as int)) by (nonlinear_arith);
    lemma_br_shl64(xs, s);
    assert((xs as int) <= (xs as int) * p) by (nonlinear_arith) requires p >= 1, xs >= 0;
}

/// g << s == g * 2^s when g * 2^s <= bound <= MAX
pub proof fn lemma_br_shl_le64(g: u64, s: u32, bound: u64)
    requires s < 64, (g as int) * pow2(s as nat) <= bound,
    ensures (g << s) as int == (g as int) * pow2(s as nat),
{
    lemma_br_shl64(g, s);
}

/// s <= trailing_zeros(x):  x == (x >> s) * 2^s  (nothing is shifted out)
pub proof fn lemma_br_shr_exact128(x: u128, s: u32)
    requires x != 0, s <= br_tz128(x),
    ensures s < 128, x as int == ((x >> s) as int) * pow2(s as nat), (x >> s) >= 1, (x >> s) <= x, pow2(s as nat) >= 1,
{
    let i = br_tz128(x);
    lemma_br_tz128_bits(x);
    let xs = x >> s;
    assert(((x >> s) << s) == x && (x >> s) >= 1) by (bit_vector)
        requires s <= i, i < 128, ((x >> i) & 1) == 1, ((x >> i) << i) == x;
    lemma_br_shr128(x, s);
    vstd::arithmetic::power2::lemma_pow2_pos(s as nat);
    let p = pow2(s as nat) as int;
    vstd::arithmetic::div_mod::lemma_fundamental_div_mod(x as int, p);
    vstd::arithmetic::div_mod::lemma_mod_bound(x as int, p);
    assert((xs as int) * p == p * (xs as int)) by (nonlinear_arith);
    lemma_br_shl128(xs, s);
    assert((xs as int) <= (xs as int) * p) by (nonlinear_arith) requires p >= 1, xs >= 0;
}

/// g << s == g * 2^s when g * 2^s <= bound <= MAX
pub proof fn lemma_br_shl_le128(g: u128, s: u32, bound: u128)
    requires s < 128, (g as int) * pow2(s as nat) <= bound,
    ensures (g << s) as int == (g as int) * pow2(s as nat),
{
    lemma_br_shl128(g, s);
}

/// s <= trailing_zeros(x):  x == (x >> s) * 2^s  (nothing is shifted out)
pub proof fn lemma_br_shr_exact32(x: u32, s: u32)
    requires x != 0, s <= br_tz32(x),
    ensures s < 32, x as int == ((x >> s) as int) * pow2(s as nat), (x >> s) >= 1, (x >> s) <= x, pow2(s as nat) >= 1,
{
    let i = br_tz32(x);
    lemma_br_tz32_bits(x);
    let xs = x >> s;
    assert(((x >> s) << s) == x && (x >> s) >= 1) by (bit_vector)
        requires s <= i, i < 32, ((x >> i) & 1) == 1, ((x >> i) << i) == x;
    lemma_br_shr32(x, s);
    vstd::arithmetic::power2::lemma_pow2_pos(s as nat);
    let p = pow2(s as nat) as int;
    vstd::arithmetic::div_mod::lemma_fundamental_div_mod(x as int, p);
    vstd::arithmetic::div_mod::lemma_mod_bound(x as int, p);
    assert((xs as int) * p == p * (xs as int)) by (nonlinear_arith);
    lemma_br_shl32(xs, s);
    assert((xs as int) <= (xs as int) * p) by (nonlinear_arith) requires p >= 1, xs >= 0;
}

/// g << s == g * 2^s when g * 2^s <= bound <= MAX
pub proof fn lemma_br_shl_le32(g: u32, s: u32, bound: u32)
    requires s < 32, (g as int) * pow2(s as nat) <= bound,
    ensures (g << s) as int == (g as int) * pow2(s as nat),
{
    lemma_br_shl32(g, s);
}


// ---- leading_zeros in integers (normalisation of the square-root wrappers) -------------------------------------------------------

pub open spec fn br_lz64(x: u64) -> u32 { vstd::std_specs::bits::u64_leading_zeros(x) as u32 }
pub open spec fn br_lz128(x: u128) -> u32 { dd_lz(x) }
pub open spec fn br_lz32(x: u32) -> u32 { vstd::std_specs::bits::u32_leading_zeros(x) as u32 }

/// x != 0:  lz < 64,  2^(63 - lz) <= x < 2^(64 - lz);   the even shift `lz & !1`
pub proof fn lemma_br_lz64(x: u64)
    requires x != 0,
    ensures br_lz64(x) < 64, pow2((63 - br_lz64(x)) as nat) <= x as int, (x as int) < pow2((64 - br_lz64(x)) as nat),
        (br_lz64(x) & !1u32) % 2 == 0, (br_lz64(x) & !1u32) <= br_lz64(x), br_lz64(x) <= (br_lz64(x) & !1u32) + 1,
{
    let z = br_lz64(x);
    vstd::std_specs::bits::axiom_u64_leading_zeros(x);
    let zw = z as u64;
    let top = (63 - z) as u32;
    assert(sub(63u64, zw) == top as u64);
    assert(((x >> (top as u64)) & 1) != 0);
    assert((x >> top) >= 1) by (bit_vector) requires ((x >> (top as u64)) & 1) != 0, top < 64;
    lemma_br_shr64(x, top);
    vstd::arithmetic::power2::lemma_pow2_pos(top as nat);
    vstd::arithmetic::div_mod::lemma_fundamental_div_mod(x as int, pow2(top as nat) as int);
    vstd::arithmetic::div_mod::lemma_mod_bound(x as int, pow2(top as nat) as int);
    assert(pow2(top as nat) <= x as int) by (nonlinear_arith)
        requires x as int == pow2(top as nat) * ((x as int) / (pow2(top as nat) as int)) + (x as int) % (pow2(top as nat) as int),
            (x as int) / (pow2(top as nat) as int) >= 1, (x as int) % (pow2(top as nat) as int) >= 0, pow2(top as nat) >= 1;
    if z >= 1 {
        let up = (64 - z) as u32;
        assert(sub(64u64, zw) == up as u64);
        assert(x >> (up as u64) == 0);
        assert((x >> up) == 0) by (bit_vector) requires x >> (up as u64) == 0, up < 64;
        lemma_br_shr64(x, up);
        vstd::arithmetic::power2::lemma_pow2_pos(up as nat);
        vstd::arithmetic::div_mod::lemma_fundamental_div_mod(x as int, pow2(up as nat) as int);
        vstd::arithmetic::div_mod::lemma_mod_bound(x as int, pow2(up as nat) as int);
        assert(pow2(up as nat) * 0 == 0);
    } else {
        lemma_br_pow2_64();
    }
    assert((z & !1u32) % 2 == 0 && (z & !1u32) <= z && z <= (z & !1u32) + 1) by (bit_vector) requires z < 64;
}

/// x != 0:  lz < 32,  2^(31 - lz) <= x < 2^(32 - lz);   the even shift `lz & !1`
pub proof fn lemma_br_lz32(x: u32)
    requires x != 0,
    ensures br_lz32(x) < 32, pow2((31 - br_lz32(x)) as nat) <= x as int, (x as int) < pow2((32 - br_lz32(x)) as nat),
        (br_lz32(x) & !1u32) % 2 == 0, (br_lz32(x) & !1u32) <= br_lz32(x), br_lz32(x) <= (br_lz32(x) & !1u32) + 1,
{
    let z = br_lz32(x);
    vstd::std_specs::bits::axiom_u32_leading_zeros(x);
    let zw = z as u32;
    let top = (31 - z) as u32;
    assert(sub(31u32, zw) == top as u32);
    assert(((x >> (top as u32)) & 1) != 0);
    assert((x >> top) >= 1) by (bit_vector) requires ((x >> (top as u32)) & 1) != 0, top < 32;
    lemma_br_shr32(x, top);
    vstd::arithmetic::power2::lemma_pow2_pos(top as nat);
    vstd::arithmetic::div_mod::lemma_fundamental_div_mod(x as int, pow2(top as nat) as int);
    vstd::arithmetic::div_mod::lemma_mod_bound(x as int, pow2(top as nat) as int);
    assert(pow2(top as nat) <= x as int) by (nonlinear_arith)
        requires x as int == pow2(top as nat) * ((x as int) / (pow2(top as nat) as int)) + (x as int) % (pow2(top as nat) as int),
            (x as int) / (pow2(top as nat) as int) >= 1, (x as int) % (pow2(top as nat) as int) >= 0, pow2(top as nat) >= 1;
    if z >= 1 {
        let up = (32 - z) as u32;
        assert(sub(32u32, zw) == up as u32);
        assert(x >> (up as u32) == 0);
        assert((x >> up) == 0) by (bit_vector) requires x >> (up as u32) == 0, up < 32;
        lemma_br_shr32(x, up);
        vstd::arithmetic::power2::lemma_pow2_pos(up as nat);
        vstd::arithmetic::div_mod::lemma_fundamental_div_mod(x as int, pow2(up as nat) as int);
        vstd::arithmetic::div_mod::lemma_mod_bound(x as int, pow2(up as nat) as int);
        assert(pow2(up as nat) * 0 == 0);
    } else {
        vstd::arithmetic::power2::lemma2_to64();
    }
    assert((z & !1u32) % 2 == 0 && (z & !1u32) <= z && z <= (z & !1u32) + 1) by (bit_vector) requires z < 32;
}

pub proof fn lemma_br_lz128(x: u128)
    requires x != 0,
    ensures br_lz128(x) < 128, pow2((127 - br_lz128(x)) as nat) <= x as int, (x as int) < pow2((128 - br_lz128(x)) as nat),
        (br_lz128(x) & !1u32) % 2 == 0, (br_lz128(x) & !1u32) <= br_lz128(x), br_lz128(x) <= (br_lz128(x) & !1u32) + 1,
{
    let z = br_lz128(x);
    axiom_dd_lz(x);
    let top = (127 - z) as u32;
    assert(((x >> (top as u128)) & 1) == 1);
    assert((x >> top) >= 1) by (bit_vector) requires ((x >> (top as u128)) & 1) == 1, top < 128;
    lemma_br_shr128(x, top);
    vstd::arithmetic::power2::lemma_pow2_pos(top as nat);
    vstd::arithmetic::div_mod::lemma_fundamental_div_mod(x as int, pow2(top as nat) as int);
    vstd::arithmetic::div_mod::lemma_mod_bound(x as int, pow2(top as nat) as int);
    assert(pow2(top as nat) <= x as int) by (nonlinear_arith)
        requires x as int == pow2(top as nat) * ((x as int) / (pow2(top as nat) as int)) + (x as int) % (pow2(top as nat) as int),
            (x as int) / (pow2(top as nat) as int) >= 1, (x as int) % (pow2(top as nat) as int) >= 0, pow2(top as nat) >= 1;
    if z >= 1 {
        let up = (128 - z) as u32;
        assert(x >> (up as u128) == 0);
        assert((x >> up) == 0) by (bit_vector) requires x >> (up as u128) == 0, up < 128;
        lemma_br_shr128(x, up);
        vstd::arithmetic::power2::lemma_pow2_pos(up as nat);
        vstd::arithmetic::div_mod::lemma_fundamental_div_mod(x as int, pow2(up as nat) as int);
        vstd::arithmetic::div_mod::lemma_mod_bound(x as int, pow2(up as nat) as int);
        assert(pow2(up as nat) * 0 == 0);
    } else {
        lemma_br_pow2_64();
    }
    assert((z & !1u32) % 2 == 0 && (z & !1u32) <= z && z <= (z & !1u32) + 1) by (bit_vector) requires z < 128;
}

/// x >> k  ==  x div 2^k   (u16: the root of a u32)
pub proof fn lemma_br_shr16(x: u16, k: u32)
    requires k < 16,
    ensures (x >> k) as int == (x as int) / (pow2(k as nat) as int),
    decreases k,
{
    if k == 0 {
        assert(x >> 0u32 == x) by (bit_vector);
        vstd::arithmetic::power2::lemma2_to64();
        assert((x as int) / 1 == x as int);
    } else {
        let k1 = (k - 1) as u32;
        lemma_br_pow2_step(k as nat);
        let p = pow2(k1 as nat) as int;
        assert(pow2(k as nat) as int == p * 2);
        lemma_br_shr16(x, k1);
        let y = x >> k1;
        assert(x >> k == (y >> 1u32)) by (bit_vector) requires y == x >> k1, k1 == (k - 1) as u32, 0 < k < 16;
        assert((y >> 1u32) == y / 2) by (bit_vector);
        vstd::arithmetic::div_mod::lemma_div_denominator(x as int, p, 2);
        assert(p * 2 == 2 * p);
        assert(((x as int) / p) / 2 == (x as int) / (p * 2));
        assert((y >> 1u32) as int == (y as int) / 2);
    }
}
