// ---- round_int_addsub_stubs.rs: IBig +/- IBig (integer/src/add_ops.rs), value-exact.  TRUSTED (C01 lower layer).
impl Add<IBig> for IBig { type Output = IBig; #[verifier::external_body] fn add(self, rhs: IBig) -> IBig { unimplemented!() } }
impl AddSpecImpl<IBig> for IBig {
    open spec fn obeys_add_spec() -> bool { true }
    open spec fn add_req(self, rhs: IBig) -> bool { true }
    open spec fn add_spec(self, rhs: IBig) -> IBig { ibig_of(self.v() + rhs.v()) }
}
impl Sub<IBig> for IBig { type Output = IBig; #[verifier::external_body] fn sub(self, rhs: IBig) -> IBig { unimplemented!() } }
impl SubSpecImpl<IBig> for IBig {
    open spec fn obeys_sub_spec() -> bool { true }
    open spec fn sub_req(self, rhs: IBig) -> bool { true }
    open spec fn sub_spec(self, rhs: IBig) -> IBig { ibig_of(self.v() - rhs.v()) }
}
impl<'a> Add<IBig> for &'a IBig { type Output = IBig; #[verifier::external_body] fn add(self, rhs: IBig) -> IBig { unimplemented!() } }
impl<'a> AddSpecImpl<IBig> for &'a IBig {
    open spec fn obeys_add_spec() -> bool { true }
    open spec fn add_req(self, rhs: IBig) -> bool { true }
    open spec fn add_spec(self, rhs: IBig) -> IBig { ibig_of(self.v() + rhs.v()) }
}
impl<'a> Sub<IBig> for &'a IBig { type Output = IBig; #[verifier::external_body] fn sub(self, rhs: IBig) -> IBig { unimplemented!() } }
impl<'a> SubSpecImpl<IBig> for &'a IBig {
    open spec fn obeys_sub_spec() -> bool { true }
    open spec fn sub_req(self, rhs: IBig) -> bool { true }
    open spec fn sub_spec(self, rhs: IBig) -> IBig { ibig_of(self.v() - rhs.v()) }
}
impl AddAssign<IBig> for IBig {
    #[verifier::external_body]
    fn add_assign(&mut self, rhs: IBig) { unimplemented!() }
}
impl AddAssignSpecImpl<IBig> for IBig {
    open spec fn obeys_add_assign_spec() -> bool { true }
    open spec fn add_assign_req(&self, rhs: IBig) -> bool { true }
    open spec fn add_assign_spec(&self, rhs: IBig) -> &IBig { &ibig_of(self.v() + rhs.v()) }
}
impl SubAssign<IBig> for IBig {
    #[verifier::external_body]
    fn sub_assign(&mut self, rhs: IBig) { unimplemented!() }
}
impl SubAssignSpecImpl<IBig> for IBig {
    open spec fn obeys_sub_assign_spec() -> bool { true }
    open spec fn sub_assign_req(&self, rhs: IBig) -> bool { true }
    open spec fn sub_assign_spec(&self, rhs: IBig) -> &IBig { &ibig_of(self.v() - rhs.v()) }
}
