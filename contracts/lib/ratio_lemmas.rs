// ---- ratio_lemmas.rs: divisibility vocabulary for the rational units (C04) ---------------------------------
// gcd is specified by divisibility only (DESIGN.md section 4): there is no executable gcd in the specs.
pub open spec fn divides(d: int, n: int) -> bool { d != 0 && n % d == 0 }

pub open spec fn is_gcd(g: int, a: int, b: int) -> bool {
    g > 0 && divides(g, a) && divides(g, b)
    && forall|d: int| d > 0 && #[trigger] divides(d, a) && divides(d, b) ==> divides(d, g)
}

pub open spec fn rabs(x: int) -> int { if x >= 0 { x } else { -x } }

// "positive denominator coprime to the numerator, zero stored as 0/1"
pub open spec fn wf_ratio(n: int, d: int) -> bool {
    d >= 1 && is_gcd(1, rabs(n), d) && (n == 0 ==> d == 1)
}

pub proof fn lemma_divides_intro(d: int, k: int, n: int)
    requires n == k * d, d != 0
    ensures divides(d, n)
{
    vstd::arithmetic::div_mod::lemma_mod_multiples_basic(k, d);
}

pub proof fn lemma_divides_elim(d: int, n: int)
    requires divides(d, n)
    ensures n == (n / d) * d
{
    vstd::arithmetic::div_mod::lemma_fundamental_div_mod(n, d);
    let q = n / d;
    assert(d * q == q * d) by (nonlinear_arith);
}

// divisors of a positive number are bounded by it
pub proof fn lemma_divides_le(d: int, n: int)
    requires divides(d, n), d > 0, n > 0
    ensures d <= n
{
    lemma_divides_elim(d, n);
    let q = n / d;
    assert(q >= 1 && q * d >= d) by (nonlinear_arith) requires n == q * d, n > 0, d > 0;
}

pub proof fn lemma_divides_one(d: int)
    requires d > 0, divides(d, 1)
    ensures d == 1
{
    lemma_divides_le(d, 1);
}

pub proof fn lemma_one_divides(n: int)
    ensures divides(1, n)
{
    lemma_divides_intro(1, n, n);
}

// quotients by the gcd are coprime
pub proof fn lemma_gcd_quot_coprime(g: int, a: int, b: int, a1: int, b1: int)
    requires is_gcd(g, a, b), a == a1 * g, b == b1 * g
    ensures is_gcd(1, a1, b1)
{
    lemma_one_divides(a1);
    lemma_one_divides(b1);
    assert forall|d: int| d > 0 && #[trigger] divides(d, a1) && divides(d, b1) implies divides(d, 1) by {
        lemma_divides_elim(d, a1);
        lemma_divides_elim(d, b1);
        let k1 = a1 / d;
        let k2 = b1 / d;
        let dg = d * g;
        assert(dg > 0) by (nonlinear_arith) requires d > 0, g > 0, dg == d * g;
        assert(a == k1 * dg) by (nonlinear_arith) requires a == a1 * g, a1 == k1 * d, dg == d * g;
        assert(b == k2 * dg) by (nonlinear_arith) requires b == b1 * g, b1 == k2 * d, dg == d * g;
        lemma_divides_intro(dg, k1, a);
        lemma_divides_intro(dg, k2, b);
        assert(divides(dg, g));
        lemma_divides_le(dg, g);
        assert(d == 1) by (nonlinear_arith) requires dg == d * g, dg <= g, d > 0, g > 0;
        lemma_one_divides(1);
    }
}

// exact quotient: n == q * g with g > 0 is what `/` computes
pub proof fn lemma_exact_div(n: int, g: int)
    requires g > 0, divides(g, n)
    ensures n == (n / g) * g, n >= 0 ==> n / g >= 0, n > 0 ==> n / g > 0
{
    lemma_divides_elim(g, n);
    let q = n / g;
    assert(n >= 0 ==> q >= 0) by (nonlinear_arith) requires n == q * g, g > 0;
    assert(n > 0 ==> q > 0) by (nonlinear_arith) requires n == q * g, g > 0;
}

pub proof fn lemma_divides_neg(d: int, n: int)
    requires divides(d, n)
    ensures divides(d, -n)
{
    lemma_divides_elim(d, n);
    let q = n / d;
    assert(-n == (-q) * d) by (nonlinear_arith) requires n == q * d;
    lemma_divides_intro(d, -q, -n);
}
