// ---- ratio_lemmas.rs: divisibility vocabulary for the rational units (C04) ---------------------------------
// gcd is specified by divisibility only (DESIGN.md section 4): there is no executable gcd in the specs.
pub open spec fn divides(d: int, n: int) -> bool { d > 0 && n % d == 0 }

pub open spec fn is_gcd(g: int, a: int, b: int) -> bool {
    g > 0 && divides(g, a) && divides(g, b)
    && forall|d: int| d > 0 && #[trigger] divides(d, a) && divides(d, b) ==> divides(d, g)
}

pub open spec fn rabs(x: int) -> int { if x >= 0 { x } else { -x } }

// "positive denominator coprime to the numerator, zero stored as 0/1"
pub open spec fn wf_ratio(n: int, d: int) -> bool {
    d >= 1 && is_gcd(1, rabs(n), d) && (n == 0 ==> d == 1)
}

pub proof fn lemma_divides_intro(d: int, k: int, n: int)
    requires n == k * d, d > 0
    ensures divides(d, n)
{
    vstd::arithmetic::div_mod::lemma_mod_multiples_basic(k, d);
}

pub proof fn lemma_divides_elim(d: int, n: int)
    requires divides(d, n)
    ensures n == (n / d) * d
{
    vstd::arithmetic::div_mod::lemma_fundamental_div_mod(n, d);
    let q = n / d;
    assert(d * q == q * d) by (nonlinear_arith);
}

// divisors of a positive number are bounded by it
pub proof fn lemma_divides_le(d: int, n: int)
    requires divides(d, n), d > 0, n > 0
    ensures d <= n
{
    lemma_divides_elim(d, n);
    let q = n / d;
    assert(q >= 1 && q * d >= d) by (nonlinear_arith) requires n == q * d, n > 0, d > 0;
}

pub proof fn lemma_divides_one(d: int)
    requires d > 0, divides(d, 1)
    ensures d == 1
{
    lemma_divides_le(d, 1);
}

pub proof fn lemma_one_divides(n: int)
    ensures divides(1, n)
{
    lemma_divides_intro(1, n, n);
}

// quotients by the gcd are coprime
pub proof fn lemma_gcd_quot_coprime(g: int, a: int, b: int, a1: int, b1: int)
    requires is_gcd(g, a, b), a == a1 * g, b == b1 * g
    ensures is_gcd(1, a1, b1)
{
    lemma_one_divides(a1);
    lemma_one_divides(b1);
    assert forall|d: int| d > 0 && #[trigger] divides(d, a1) && divides(d, b1) implies divides(d, 1) by {
        lemma_divides_elim(d, a1);
        lemma_divides_elim(d, b1);
        let k1 = a1 / d;
        let k2 = b1 / d;
        let dg = d * g;
        assert(dg > 0) by (nonlinear_arith) requires d > 0, g > 0, dg == d * g;
        assert(a == k1 * dg) by (nonlinear_arith) requires a == a1 * g, a1 == k1 * d, dg == d * g;
        assert(b == k2 * dg) by (nonlinear_arith) requires b == b1 * g, b1 == k2 * d, dg == d * g;
        lemma_divides_intro(dg, k1, a);
        lemma_divides_intro(dg, k2, b);
        assert(divides(dg, g));
        lemma_divides_le(dg, g);
        assert(d == 1) by (nonlinear_arith) requires dg == d * g, dg <= g, d > 0, g > 0;
        lemma_one_divides(1);
    }
}

// exact quotient: n == q * g with g > 0 is what `/` computes
pub proof fn lemma_exact_div(n: int, g: int)
    requires g > 0, divides(g, n)
    ensures n == (n / g) * g, n >= 0 ==> n / g >= 0, n > 0 ==> n / g > 0
{
    lemma_divides_elim(g, n);
    let q = n / g;
    assert(n >= 0 ==> q >= 0) by (nonlinear_arith) requires n == q * g, g > 0;
    assert(n > 0 ==> q > 0) by (nonlinear_arith) requires n == q * g, g > 0;
}

pub proof fn lemma_divides_neg(d: int, n: int)
    requires divides(d, n)
    ensures divides(d, -n)
{
    lemma_divides_elim(d, n);
    let q = n / d;
    assert(-n == (-q) * d) by (nonlinear_arith) requires n == q * d;
    lemma_divides_intro(d, -q, -n);
}

pub proof fn lemma_wf_zero()
    ensures wf_ratio(0, 1)
{
    lemma_one_divides(0);
    lemma_one_divides(1);
}

pub proof fn lemma_divides_trans(a: int, b: int, c: int)
    requires divides(a, b), divides(b, c)
    ensures divides(a, c)
{
    lemma_divides_elim(a, b);
    lemma_divides_elim(b, c);
    let k1 = b / a;
    let k2 = c / b;
    let k = k2 * k1;
    assert(c == k * a) by (nonlinear_arith) requires c == k2 * b, b == k1 * a, k == k2 * k1;
    lemma_divides_intro(a, k, c);
}

// truncating division (rounds toward zero), divisor > 0
pub open spec fn tdiv(a: int, b: int) -> int { if a >= 0 { a / b } else { -((-a) / b) } }

// cancel a common divisor g of |n| and d: value preserved, denominator stays positive
pub proof fn lemma_cancel(n: int, d: int, g: int, n1: int, d1: int)
    requires d > 0, divides(g, rabs(n)), divides(g, d), n1 == tdiv(n, g), d1 == d / g
    ensures n1 * d == n * d1, d1 >= 1, rabs(n) == rabs(n1) * g, d == d1 * g, (n != 0 ==> n1 != 0), (n == 0 ==> n1 == 0)
{
    lemma_exact_div(rabs(n), g);
    lemma_exact_div(d, g);
    let a1 = rabs(n) / g;
    if n >= 0 {
        assert(n1 == a1);
        assert(n1 * d == n * d1) by (nonlinear_arith) requires n == n1 * g, d == d1 * g;
    } else {
        assert(n1 == -a1);
        assert(n1 * d == n * d1) by (nonlinear_arith) requires -n == a1 * g, n1 == -a1, d == d1 * g;
    }
    if n == 0 {
        assert(a1 == 0) by (nonlinear_arith) requires 0 == a1 * g, g > 0;
    }
}

// Repr::reduce: dividing by the gcd gives the canonical form
pub proof fn lemma_reduce(n: int, d: int, g: int, n1: int, d1: int)
    requires d > 0, n != 0, is_gcd(g, rabs(n), d), n1 == tdiv(n, g), d1 == d / g
    ensures n1 * d == n * d1, wf_ratio(n1, d1)
{
    lemma_cancel(n, d, g, n1, d1);
    lemma_gcd_quot_coprime(g, rabs(n), d, rabs(n1), d1);
}

// Repr::reduce_with_hint: gcd(gcd(hint, n), d) divides both |n| and d
pub proof fn lemma_hint_gcd_divides(h: int, n: int, d: int, g: int)
    requires exists|g1: int| is_gcd(g1, rabs(h), rabs(n)) && #[trigger] is_gcd(g, rabs(g1), rabs(d)), d > 0
    ensures divides(g, rabs(n)), divides(g, d)
{
    let g1 = choose|g1: int| is_gcd(g1, rabs(h), rabs(n)) && #[trigger] is_gcd(g, rabs(g1), rabs(d));
    lemma_divides_trans(g, g1, rabs(n));
}

pub proof fn lemma_mod_abs(n: int, m: int)
    requires m > 0, rabs(n) % m == 0
    ensures n % m == 0
{
    if n < 0 {
        lemma_divides_neg(m, -n);
    }
}

// Repr::reduce2: shifting both parts by z <= min(tz(n), tz(d)) bits preserves the value
pub proof fn lemma_reduce2(n: int, d: int, nz: int, dz: int, z: int)
    requires d > 0, n != 0, 0 <= z <= nz, z <= dz,
        rabs(n) % pow2(nz as nat) as int == 0, d % pow2(dz as nat) as int == 0
    ensures (n / pow2(z as nat) as int) * d == n * (d / pow2(z as nat) as int), d / pow2(z as nat) as int >= 1
{
    let m = pow2(z as nat) as int;
    vstd::arithmetic::power2::lemma_pow2_pos(z as nat);
    vstd::arithmetic::power2::lemma_pow2_pos(nz as nat);
    vstd::arithmetic::power2::lemma_pow2_pos(dz as nat);
    vstd::arithmetic::power2::lemma_pow2_pos((nz - z) as nat);
    vstd::arithmetic::power2::lemma_pow2_pos((dz - z) as nat);
    vstd::arithmetic::power2::lemma_pow2_adds((nz - z) as nat, z as nat);
    vstd::arithmetic::power2::lemma_pow2_adds((dz - z) as nat, z as nat);
    let mn = pow2(nz as nat) as int;
    let md = pow2(dz as nat) as int;
    lemma_divides_intro(m, pow2((nz - z) as nat) as int, mn);
    lemma_divides_intro(m, pow2((dz - z) as nat) as int, md);
    lemma_divides_trans(m, mn, rabs(n));
    lemma_divides_trans(m, md, d);
    lemma_mod_abs(n, m);
    lemma_divides_elim(m, n);
    lemma_exact_div(d, m);
    let n1 = n / m;
    let d1 = d / m;
    assert(n1 * d == n * d1) by (nonlinear_arith) requires n == n1 * m, d == d1 * m;
}

pub proof fn lemma_tdiv_exact(n: int, g: int)
    requires divides(g, rabs(n))
    ensures n == tdiv(n, g) * g, rabs(n) == rabs(tdiv(n, g)) * g, (n != 0 ==> tdiv(n, g) != 0)
{
    lemma_exact_div(rabs(n), g);
    let a1 = rabs(n) / g;
    if n < 0 {
        assert(n == (-a1) * g) by (nonlinear_arith) requires -n == a1 * g;
    }
}

// ---- value identities of the rational operators (cross-multiplied) ----
pub proof fn lemma_prod4(x: int, y: int, gx: int, gy: int)
    ensures (x * gx) * (y * gy) == (x * y) * (gx * gy)
{
    assert((x * gx) * (y * gy) == (x * y) * (gx * gy)) by (nonlinear_arith);
}

// a/b * c/d with a = a1*g1, d = d1*g1, b = b1*g2, c = c1*g2
pub proof fn lemma_mul_value(a: int, b: int, c: int, d: int, g1: int, g2: int, a1: int, b1: int, c1: int, d1: int)
    requires a == a1 * g1, d == d1 * g1, b == b1 * g2, c == c1 * g2
    ensures (a1 * c1) * (b * d) == (a * c) * (b1 * d1)
{
    lemma_prod4(b1, d1, g2, g1);
    lemma_prod4(a1, c1, g1, g2);
    let n = a1 * c1; let m = b1 * d1; let gg = g1 * g2; let hh = g2 * g1;
    assert(n * (m * hh) == (n * gg) * m) by (nonlinear_arith) requires hh == g2 * g1, gg == g1 * g2;
}

// (a/b) / (c/d) with a = a1*g1, c = s*c1*g1 (s = sign of c), b = b1*g2, d = d1*g2
pub proof fn lemma_div_value(a: int, b: int, c: int, d: int, g1: int, g2: int, a1: int, b1: int, c1: int, d1: int, s: int)
    requires a == a1 * g1, c == s * (c1 * g1), b == b1 * g2, d == d1 * g2, s == 1 || s == -1
    ensures ((a1 * d1) * s) * (b * c) == (a * d) * (b1 * c1)
{
    lemma_prod4(a1, d1, g1, g2);
    lemma_prod4(b1, c1, g2, g1);
    let n = a1 * d1; let m = b1 * c1; let gg = g1 * g2; let hh = g2 * g1;
    let cc = c1 * g1;
    assert(b * c == s * (m * hh)) by (nonlinear_arith) requires b == b1 * g2, c == s * cc, (b1 * g2) * cc == m * hh, cc == c1 * g1;
    assert((n * s) * (s * (m * hh)) == (n * gg) * m) by (nonlinear_arith) requires hh == g2 * g1, gg == g1 * g2, s == 1 || s == -1;
}

// a/b + c/d through g = gcd(b, d): numerator N = ddg*a + bg*c over D = b*ddg, then reduced to n/dn
pub proof fn lemma_add_hint_value(a: int, b: int, c: int, d: int, g: int, ddg: int, bg: int, nn: int, dd: int, n: int, dn: int)
    requires d == ddg * g, b == bg * g, nn == ddg * a + bg * c, dd == b * ddg, n * dd == nn * dn
    ensures n * (b * d) == (a * d + c * b) * dn
{
    assert(nn * g == a * d + c * b) by (nonlinear_arith) requires d == ddg * g, b == bg * g, nn == ddg * a + bg * c;
    assert(dd * g == b * d) by (nonlinear_arith) requires d == ddg * g, dd == b * ddg;
    assert(n * (dd * g) == (nn * g) * dn) by (nonlinear_arith) requires n * dd == nn * dn;
}

// (a/b) / (c/d) for Relaxed: N = (a*d)*s over D = b*|c| (s = sign of c), stored as n/dn with n*D == N*dn
pub proof fn lemma_relaxed_div_value(a: int, b: int, c: int, d: int, s: int, n: int, dn: int)
    requires (s == 1 && c >= 0) || (s == -1 && c < 0), n * (b * rabs(c)) == ((a * d) * s) * dn
    ensures n * (b * c) == (a * d) * dn
{
    let ad = a * d;
    let bc = b * rabs(c);
    assert(b * c == s * bc) by (nonlinear_arith) requires bc == b * rabs(c), (s == 1 && rabs(c) == c) || (s == -1 && rabs(c) == -c);
    assert(n * (s * bc) == ad * dn) by (nonlinear_arith) requires n * bc == (ad * s) * dn, s == 1 || s == -1;
}

// ---- coprimality of products (Bezout -> Euclid's lemma -> products), from the divisibility definition ----
pub proof fn lemma_gcd_sym(g: int, a: int, b: int)
    requires is_gcd(g, a, b)
    ensures is_gcd(g, b, a)
{
    assert forall|d: int| d > 0 && #[trigger] divides(d, b) && divides(d, a) implies divides(d, g) by {
        assert(divides(d, a));
    }
}

pub proof fn lemma_divides_lincomb(d: int, x: int, y: int, k: int)
    requires divides(d, x), divides(d, y)
    ensures divides(d, k * x + y)
{
    lemma_divides_elim(d, x);
    lemma_divides_elim(d, y);
    let q1 = x / d;
    let q2 = y / d;
    let q = k * q1 + q2;
    assert(k * x + y == q * d) by (nonlinear_arith) requires x == q1 * d, y == q2 * d, q == k * q1 + q2;
    lemma_divides_intro(d, q, k * x + y);
}

// a positive m coprime to 0 is 1
pub proof fn lemma_coprime_zero(m: int)
    requires m > 0, is_gcd(1, 0, m)
    ensures m == 1
{
    lemma_divides_intro(m, 0, 0);
    lemma_divides_intro(m, 1, m);
    assert(divides(m, 0) && divides(m, m));
    assert(divides(m, 1));
    lemma_divides_one(m);
}

pub proof fn lemma_bezout(a: int, b: int) -> (xy: (int, int))
    requires a >= 0, b >= 0, is_gcd(1, a, b)
    ensures a * xy.0 + b * xy.1 == 1
    decreases b
{
    if b == 0 {
        if a == 0 {
            lemma_divides_intro(2, 0, 0);
            assert(divides(2, a) && divides(2, b));
            assert(divides(2, 1));
            assert(1int % 2int == 1) by (compute);
            assert(false);
        }
        lemma_gcd_sym(1, a, b);
        lemma_coprime_zero(a);
        (1, 0)
    } else {
        let r = a % b;
        let q = a / b;
        vstd::arithmetic::div_mod::lemma_fundamental_div_mod(a, b);
        vstd::arithmetic::div_mod::lemma_mod_bound(a, b);
        assert(b * q == q * b) by (nonlinear_arith);
        lemma_one_divides(b);
        lemma_one_divides(r);
        assert forall|d: int| d > 0 && #[trigger] divides(d, b) && divides(d, r) implies divides(d, 1) by {
            lemma_divides_lincomb(d, b, r, q);
            assert(divides(d, a));
        }
        assert(is_gcd(1, b, r));
        let (x1, y1) = lemma_bezout(b, r);
        let x = y1;
        let y = x1 - q * y1;
        assert(a * x + b * y == 1) by (nonlinear_arith)
            requires b * x1 + r * y1 == 1, a == q * b + r, x == y1, y == x1 - q * y1;
        (x, y)
    }
}

// Euclid's lemma: p | x*y and gcd(p, x) = 1  ==>  p | y
pub proof fn lemma_euclid_lemma(p: int, x: int, y: int)
    requires p > 0, x >= 0, is_gcd(1, p, x), divides(p, x * y)
    ensures divides(p, y)
{
    let (s, t) = lemma_bezout(p, x);
    let xy = x * y;
    lemma_divides_elim(p, xy);
    let k = xy / p;
    let m = s * y + k * t;
    assert(y == y * (p * s + x * t));
    assert(y * (p * s + x * t) == p * (s * y) + xy * t) by (nonlinear_arith) requires xy == x * y;
    assert(xy * t == p * (k * t)) by (nonlinear_arith) requires xy == k * p;
    assert(p * (s * y) + p * (k * t) == m * p) by (nonlinear_arith) requires m == s * y + k * t;
    lemma_divides_intro(p, m, y);
}

pub proof fn lemma_coprime_mul(x: int, y: int, m: int)
    requires x >= 0, y >= 0, m >= 0, is_gcd(1, x, m), is_gcd(1, y, m)
    ensures is_gcd(1, x * y, m)
{
    lemma_one_divides(x * y);
    lemma_one_divides(m);
    assert forall|d: int| d > 0 && #[trigger] divides(d, x * y) && divides(d, m) implies divides(d, 1) by {
        lemma_one_divides(d);
        lemma_one_divides(x);
        assert forall|e: int| e > 0 && #[trigger] divides(e, d) && divides(e, x) implies divides(e, 1) by {
            lemma_divides_trans(e, d, m);
            assert(divides(e, x) && divides(e, m));
        }
        assert(is_gcd(1, d, x));
        lemma_euclid_lemma(d, x, y);
        assert(divides(d, y) && divides(d, m));
    }
}

// a factor of x stays coprime to m
pub proof fn lemma_coprime_factor(x: int, x1: int, k: int, m: int)
    requires is_gcd(1, x, m), x == k * x1
    ensures is_gcd(1, x1, m)
{
    lemma_one_divides(x1);
    lemma_one_divides(m);
    assert forall|d: int| d > 0 && #[trigger] divides(d, x1) && divides(d, m) implies divides(d, 1) by {
        lemma_divides_elim(d, x1);
        let q = x1 / d;
        let kq = k * q;
        assert(x == kq * d) by (nonlinear_arith) requires x == k * x1, x1 == q * d, kq == k * q;
        lemma_divides_intro(d, kq, x);
        assert(divides(d, x) && divides(d, m));
    }
}

pub proof fn lemma_rabs_mul(x: int, y: int)
    ensures rabs(x * y) == rabs(x) * rabs(y), (x * y == 0 ==> x == 0 || y == 0)
{
    assert(rabs(x * y) == rabs(x) * rabs(y)) by (nonlinear_arith);
    assert(x * y == 0 ==> x == 0 || y == 0) by (nonlinear_arith);
}

// cross-cancelling product: a/b * c/d with g1 = gcd(|a|, d), g2 = gcd(b, |c|) is in lowest terms
pub proof fn lemma_mul_canonical(a: int, b: int, c: int, d: int, g1: int, g2: int, a1: int, b1: int, c1: int, d1: int)
    requires wf_ratio(a, b), wf_ratio(c, d), is_gcd(g1, rabs(a), d), is_gcd(g2, b, rabs(c)),
        a == a1 * g1, rabs(a) == rabs(a1) * g1, d == d1 * g1, b == b1 * g2, c == c1 * g2, rabs(c) == rabs(c1) * g2,
        b1 >= 1, d1 >= 1
    ensures wf_ratio(a1 * c1, b1 * d1)
{
    let aa = rabs(a1);
    let cc = rabs(c1);
    // the four pairs
    lemma_gcd_quot_coprime(g1, rabs(a), d, aa, d1);             // (aa, d1)
    lemma_gcd_quot_coprime(g2, b, rabs(c), b1, cc);             // (b1, cc)
    lemma_gcd_sym(1, b1, cc);                                   // (cc, b1)
    assert(rabs(a) == g1 * aa) by (nonlinear_arith) requires rabs(a) == aa * g1;
    lemma_coprime_factor(rabs(a), aa, g1, b);                   // (aa, b)
    lemma_gcd_sym(1, aa, b);
    assert(b == g2 * b1) by (nonlinear_arith) requires b == b1 * g2;
    lemma_coprime_factor(b, b1, g2, aa);                        // (b1, aa)
    lemma_gcd_sym(1, b1, aa);                                   // (aa, b1)
    assert(rabs(c) == g2 * cc) by (nonlinear_arith) requires rabs(c) == cc * g2;
    lemma_coprime_factor(rabs(c), cc, g2, d);                   // (cc, d)
    lemma_gcd_sym(1, cc, d);
    assert(d == g1 * d1) by (nonlinear_arith) requires d == d1 * g1;
    lemma_coprime_factor(d, d1, g1, cc);                        // (d1, cc)
    lemma_gcd_sym(1, d1, cc);                                   // (cc, d1)
    // products
    let nn = aa * cc;
    assert(nn >= 0) by (nonlinear_arith) requires nn == aa * cc, aa >= 0, cc >= 0;
    lemma_coprime_mul(aa, cc, b1);                              // (nn, b1)
    lemma_coprime_mul(aa, cc, d1);                              // (nn, d1)
    lemma_gcd_sym(1, nn, b1);
    lemma_gcd_sym(1, nn, d1);
    lemma_coprime_mul(b1, d1, nn);                              // (b1*d1, nn)
    lemma_gcd_sym(1, b1 * d1, nn);
    lemma_rabs_mul(a1, c1);
    assert(b1 * d1 >= 1) by (nonlinear_arith) requires b1 >= 1, d1 >= 1;
    if a1 * c1 == 0 {
        if a1 == 0 {
            lemma_coprime_zero(d1);
            lemma_coprime_zero(b1);
        } else {
            lemma_gcd_sym(1, cc, b1);
            lemma_gcd_sym(1, cc, d1);
            lemma_gcd_sym(1, b1, cc);
            lemma_gcd_sym(1, d1, cc);
            lemma_coprime_zero(b1);
            lemma_coprime_zero(d1);
        }
        assert(b1 * d1 == 1) by (nonlinear_arith) requires b1 == 1, d1 == 1;
    }
}

pub proof fn lemma_wf_sign(n: int, m: int, s: int)
    requires wf_ratio(n, m), s == 1 || s == -1
    ensures wf_ratio(n * s, m)
{
    assert(rabs(n * s) == rabs(n) && (n * s == 0 ==> n == 0)) by (nonlinear_arith) requires s == 1 || s == -1;
}

// ---- Repr::reduce_with_hint as used by RBig + / -: what exactly is divided out ----
pub open spec fn hint_red(hint: int, n: int, d: int, g1: int, h: int, n1: int, d1: int) -> bool {
    is_gcd(g1, rabs(hint), rabs(n)) && is_gcd(h, rabs(g1), rabs(d)) && n1 == tdiv(n, h) && d1 == d / h
}

// e | |N|, e | bp  ==>  e | 1, where N = dp*a + bp*c, bp a factor of b, gcd(|a|, b) = 1, gcd(bp, dp) = 1
pub proof fn lemma_sum_coprime_part(a: int, b: int, c: int, bp: int, dp: int, kb: int, nn: int)
    requires is_gcd(1, rabs(a), b), is_gcd(1, bp, dp), b == kb * bp, bp >= 1, dp >= 1, nn == dp * a + bp * c
    ensures is_gcd(1, rabs(nn), bp)
{
    lemma_one_divides(rabs(nn));
    lemma_one_divides(bp);
    assert forall|e: int| e > 0 && #[trigger] divides(e, rabs(nn)) && divides(e, bp) implies divides(e, 1) by {
        if nn < 0 { lemma_divides_neg(e, -nn); }
        assert(divides(e, nn));
        lemma_divides_elim(e, bp);
        let q = bp / e;
        let qc = q * c;
        assert(bp * c == qc * e) by (nonlinear_arith) requires bp == q * e, qc == q * c;
        lemma_divides_intro(e, qc, bp * c);
        lemma_divides_lincomb(e, bp * c, nn, -1);
        let da = dp * a;
        let bc = bp * c;
        assert((-1) * bc + nn == da) by (nonlinear_arith) requires nn == da + bc;
        assert(divides(e, da));
        // gcd(e, |a|) = 1
        lemma_one_divides(e);
        lemma_one_divides(rabs(a));
        assert forall|f: int| f > 0 && #[trigger] divides(f, e) && divides(f, rabs(a)) implies divides(f, 1) by {
            lemma_divides_trans(f, e, bp);
            lemma_divides_intro(bp, kb, b);
            lemma_divides_trans(f, bp, b);
            assert(divides(f, rabs(a)) && divides(f, b));
        }
        assert(is_gcd(1, e, rabs(a)));
        if a < 0 { lemma_divides_neg(e, da); }
        let ad = rabs(a) * dp;
        assert(ad == da || ad == -da) by (nonlinear_arith) requires ad == rabs(a) * dp, da == dp * a;
        assert(divides(e, ad));
        lemma_euclid_lemma(e, rabs(a), dp);
        assert(divides(e, bp) && divides(e, dp));
    }
}

// gcd(b, d) = 1:  (a*d + c*b) / (b*d) is in lowest terms
pub proof fn lemma_add_canonical_one(a: int, b: int, c: int, d: int)
    requires wf_ratio(a, b), wf_ratio(c, d), is_gcd(1, b, d)
    ensures wf_ratio(a * d + c * b, b * d)
{
    let nn = a * d + c * b;
    assert(nn == d * a + b * c) by (nonlinear_arith) requires nn == a * d + c * b;
    assert(nn == b * c + d * a) by (nonlinear_arith) requires nn == a * d + c * b;
    lemma_sum_coprime_part(a, b, c, b, d, 1, nn);
    lemma_gcd_sym(1, b, d);
    lemma_sum_coprime_part(c, d, a, d, b, 1, nn);
    lemma_gcd_sym(1, rabs(nn), b);
    lemma_gcd_sym(1, rabs(nn), d);
    lemma_coprime_mul(b, d, rabs(nn));
    lemma_gcd_sym(1, b * d, rabs(nn));
    assert(b * d >= 1) by (nonlinear_arith) requires b >= 1, d >= 1;
    if nn == 0 {
        lemma_coprime_zero(b * d);
    }
}

// gcd(b, d) = g, b = bp*g, d = dp*g, N = dp*a + bp*c over D = b*dp, reduced with hint g
pub proof fn lemma_add_canonical_hint(a: int, b: int, c: int, d: int, g: int, bp: int, dp: int, nn: int, dd: int,
                                      g1: int, h: int, n1: int, d1: int)
    requires wf_ratio(a, b), wf_ratio(c, d), is_gcd(g, b, d), b == bp * g, d == dp * g, bp >= 1, dp >= 1,
        nn == dp * a + bp * c, dd == b * dp, nn != 0, hint_red(g, nn, dd, g1, h, n1, d1)
    ensures wf_ratio(n1, d1)
{
    let an = rabs(nn);
    lemma_gcd_quot_coprime(g, b, d, bp, dp);
    assert(b == g * bp) by (nonlinear_arith) requires b == bp * g;
    assert(d == g * dp) by (nonlinear_arith) requires d == dp * g;
    lemma_sum_coprime_part(a, b, c, bp, dp, g, nn);
    lemma_gcd_sym(1, bp, dp);
    assert(nn == bp * c + dp * a);
    lemma_sum_coprime_part(c, d, a, dp, bp, g, nn);
    lemma_gcd_sym(1, an, bp);
    lemma_gcd_sym(1, an, dp);
    lemma_coprime_mul(bp, dp, an);
    let m = bp * dp;
    assert(m >= 1) by (nonlinear_arith) requires m == bp * dp, bp >= 1, dp >= 1;
    assert(dd == m * g) by (nonlinear_arith) requires dd == b * dp, b == bp * g, m == bp * dp;
    assert(dd >= 1) by (nonlinear_arith) requires dd == m * g, m >= 1, g >= 1;
    // h is the gcd of |N| and D
    assert(rabs(g) == g && rabs(g1) == g1 && rabs(dd) == dd);
    lemma_divides_trans(h, g1, an);
    assert forall|e: int| e > 0 && #[trigger] divides(e, an) && divides(e, dd) implies divides(e, h) by {
        lemma_one_divides(e);
        lemma_one_divides(m);
        assert forall|f: int| f > 0 && #[trigger] divides(f, e) && divides(f, m) implies divides(f, 1) by {
            lemma_divides_trans(f, e, an);
            assert(divides(f, m) && divides(f, an));
        }
        assert(is_gcd(1, e, m));
        lemma_euclid_lemma(e, m, g);
        assert(divides(e, g) && divides(e, an));
        assert(divides(e, g1));
        assert(divides(e, g1) && divides(e, dd));
    }
    assert(is_gcd(h, an, dd));
    lemma_reduce(nn, dd, h, n1, d1);
}

// RBig a/b + c/d (subtraction: c negated) as computed by impl_add_or_sub_with_rbig, g = gcd(b, d):
//   g == 1: n/dn = (a*d + c*b) / (b*d);   g != 1: N = (d/g)*a + (b/g)*c over D = b*(d/g), reduced with hint g
pub open spec fn rbig_addsub_result(a: int, b: int, c: int, d: int, g: int, n: int, dn: int) -> bool {
    if g == 1 {
        n == a * d + c * b && dn == b * d
    } else {
        let nn = (d / g) * a + (b / g) * c;
        let dd = b * (d / g);
        n * dd == nn * dn && dn >= 1 && (nn == 0 ==> n == 0 && dn == 1)
        && (nn != 0 ==> exists|g1: int, h: int| #[trigger] hint_red(g, nn, dd, g1, h, n, dn))
    }
}

pub proof fn lemma_rbig_addsub(a: int, b: int, c: int, d: int, g: int, n: int, dn: int)
    requires b >= 1, d >= 1, is_gcd(g, b, d), rbig_addsub_result(a, b, c, d, g, n, dn)
    ensures n * (b * d) == (a * d + c * b) * dn, dn >= 1,
        wf_ratio(a, b) && wf_ratio(c, d) ==> wf_ratio(n, dn)
{
    if g == 1 {
        assert(b * d >= 1) by (nonlinear_arith) requires b >= 1, d >= 1;
        if wf_ratio(a, b) && wf_ratio(c, d) {
            lemma_add_canonical_one(a, b, c, d);
        }
    } else {
        lemma_exact_div(d, g);
        lemma_exact_div(b, g);
        let dp = d / g;
        let bp = b / g;
        let nn = dp * a + bp * c;
        let dd = b * dp;
        lemma_add_hint_value(a, b, c, d, g, dp, bp, nn, dd, n, dn);
        if wf_ratio(a, b) && wf_ratio(c, d) {
            if nn == 0 {
                lemma_wf_zero();
            } else {
                let (g1, h) = choose|g1: int, h: int| #[trigger] hint_red(g, nn, dd, g1, h, n, dn);
                lemma_add_canonical_hint(a, b, c, d, g, bp, dp, nn, dd, g1, h, n, dn);
            }
        }
    }
}
