// ---- ratio_lemmas.rs: divisibility vocabulary for the rational units (C04) ---------------------------------
// gcd is specified by divisibility only (DESIGN.md section 4): there is no executable gcd in the specs.
pub open spec fn divides(d: int, n: int) -> bool { d > 0 && n % d == 0 }

pub open spec fn is_gcd(g: int, a: int, b: int) -> bool {
    g > 0 && divides(g, a) && divides(g, b)
    && forall|d: int| d > 0 && #[trigger] divides(d, a) && divides(d, b) ==> divides(d, g)
}

pub open spec fn rabs(x: int) -> int { if x >= 0 { x } else { -x } }

// "positive denominator coprime to the numerator, zero stored as 0/1"
pub open spec fn wf_ratio(n: int, d: int) -> bool {
    d >= 1 && is_gcd(1, rabs(n), d) && (n == 0 ==> d == 1)
}

pub proof fn lemma_divides_intro(d: int, k: int, n: int)
    requires n == k * d, d > 0
    ensures divides(d, n)
{
    vstd::arithmetic::div_mod::lemma_mod_multiples_basic(k, d);
}

pub proof fn lemma_divides_elim(d: int, n: int)
    requires divides(d, n)
    ensures n == (n / d) * d
{
    vstd::arithmetic::div_mod::lemma_fundamental_div_mod(n, d);
    let q = n / d;
    assert(d * q == q * d) by (nonlinear_arith);
}

// divisors of a positive number are bounded by it
pub proof fn lemma_divides_le(d: int, n: int)
    requires divides(d, n), d > 0, n > 0
    ensures d <= n
{
    lemma_divides_elim(d, n);
    let q = n / d;
    assert(q >= 1 && q * d >= d) by (nonlinear_arith) requires n == q * d, n > 0, d > 0;
}

pub proof fn lemma_divides_one(d: int)
    requires d > 0, divides(d, 1)
    ensures d == 1
{
    lemma_divides_le(d, 1);
}

pub proof fn lemma_one_divides(n: int)
    ensures divides(1, n)
{
    lemma_divides_intro(1, n, n);
}

// quotients by the gcd are coprime
pub proof fn lemma_gcd_quot_coprime(g: int, a: int, b: int, a1: int, b1: int)
    requires is_gcd(g, a, b), a == a1 * g, b == b1 * g
    ensures is_gcd(1, a1, b1)
{
    lemma_one_divides(a1);
    lemma_one_divides(b1);
    assert forall|d: int| d > 0 && #[trigger] divides(d, a1) && divides(d, b1) implies divides(d, 1) by {
        lemma_divides_elim(d, a1);
        lemma_divides_elim(d, b1);
        let k1 = a1 / d;
        let k2 = b1 / d;
        let dg = d * g;
        assert(dg > 0) by (nonlinear_arith) requires d > 0, g > 0, dg == d * g;
        assert(a == k1 * dg) by (nonlinear_arith) requires a == a1 * g, a1 == k1 * d, dg == d * g;
        assert(b == k2 * dg) by (nonlinear_arith) requires b == b1 * g, b1 == k2 * d, dg == d * g;
        lemma_divides_intro(dg, k1, a);
        lemma_divides_intro(dg, k2, b);
        assert(divides(dg, g));
        lemma_divides_le(dg, g);
        assert(d == 1) by (nonlinear_arith) requires dg == d * g, dg <= g, d > 0, g > 0;
        lemma_one_divides(1);
    }
}

// exact quotient: n == q * g with g > 0 is what `/` computes
pub proof fn lemma_exact_div(n: int, g: int)
    requires g > 0, divides(g, n)
    ensures n == (n / g) * g, n >= 0 ==> n / g >= 0, n > 0 ==> n / g > 0
{
    lemma_divides_elim(g, n);
    let q = n / g;
    assert(n >= 0 ==> q >= 0) by (nonlinear_arith) requires n == q * g, g > 0;
    assert(n > 0 ==> q > 0) by (nonlinear_arith) requires n == q * g, g > 0;
}

pub proof fn lemma_divides_neg(d: int, n: int)
    requires divides(d, n)
    ensures divides(d, -n)
{
    lemma_divides_elim(d, n);
    let q = n / d;
    assert(-n == (-q) * d) by (nonlinear_arith) requires n == q * d;
    lemma_divides_intro(d, -q, -n);
}

pub proof fn lemma_wf_zero()
    ensures wf_ratio(0, 1)
{
    lemma_one_divides(0);
    lemma_one_divides(1);
}

pub proof fn lemma_divides_trans(a: int, b: int, c: int)
    requires divides(a, b), divides(b, c)
    ensures divides(a, c)
{
    lemma_divides_elim(a, b);
    lemma_divides_elim(b, c);
    let k1 = b / a;
    let k2 = c / b;
    let k = k2 * k1;
    assert(c == k * a) by (nonlinear_arith) requires c == k2 * b, b == k1 * a, k == k2 * k1;
    lemma_divides_intro(a, k, c);
}

// truncating division (rounds toward zero), divisor > 0
pub open spec fn tdiv(a: int, b: int) -> int { if a >= 0 { a / b } else { -((-a) / b) } }

// cancel a common divisor g of |n| and d: value preserved, denominator stays positive
pub proof fn lemma_cancel(n: int, d: int, g: int, n1: int, d1: int)
    requires d > 0, divides(g, rabs(n)), divides(g, d), n1 == tdiv(n, g), d1 == d / g
    ensures n1 * d == n * d1, d1 >= 1, rabs(n) == rabs(n1) * g, d == d1 * g, (n != 0 ==> n1 != 0), (n == 0 ==> n1 == 0)
{
    lemma_exact_div(rabs(n), g);
    lemma_exact_div(d, g);
    let a1 = rabs(n) / g;
    if n >= 0 {
        assert(n1 == a1);
        assert(n1 * d == n * d1) by (nonlinear_arith) requires n == n1 * g, d == d1 * g;
    } else {
        assert(n1 == -a1);
        assert(n1 * d == n * d1) by (nonlinear_arith) requires -n == a1 * g, n1 == -a1, d == d1 * g;
    }
    if n == 0 {
        assert(a1 == 0) by (nonlinear_arith) requires 0 == a1 * g, g > 0;
    }
}

// Repr::reduce: dividing by the gcd gives the canonical form
pub proof fn lemma_reduce(n: int, d: int, g: int, n1: int, d1: int)
    requires d > 0, n != 0, is_gcd(g, rabs(n), d), n1 == tdiv(n, g), d1 == d / g
    ensures n1 * d == n * d1, wf_ratio(n1, d1)
{
    lemma_cancel(n, d, g, n1, d1);
    lemma_gcd_quot_coprime(g, rabs(n), d, rabs(n1), d1);
}

// Repr::reduce_with_hint: gcd(gcd(hint, n), d) divides both |n| and d
pub proof fn lemma_hint_gcd_divides(h: int, n: int, d: int, g: int)
    requires exists|g1: int| is_gcd(g1, rabs(h), rabs(n)) && #[trigger] is_gcd(g, rabs(g1), rabs(d)), d > 0
    ensures divides(g, rabs(n)), divides(g, d)
{
    let g1 = choose|g1: int| is_gcd(g1, rabs(h), rabs(n)) && #[trigger] is_gcd(g, rabs(g1), rabs(d));
    lemma_divides_trans(g, g1, rabs(n));
}

pub proof fn lemma_mod_abs(n: int, m: int)
    requires m > 0, rabs(n) % m == 0
    ensures n % m == 0
{
    if n < 0 {
        lemma_divides_neg(m, -n);
    }
}

// Repr::reduce2: shifting both parts by z <= min(tz(n), tz(d)) bits preserves the value
pub proof fn lemma_reduce2(n: int, d: int, nz: int, dz: int, z: int)
    requires d > 0, n != 0, 0 <= z <= nz, z <= dz,
        rabs(n) % pow2(nz as nat) as int == 0, d % pow2(dz as nat) as int == 0
    ensures (n / pow2(z as nat) as int) * d == n * (d / pow2(z as nat) as int), d / pow2(z as nat) as int >= 1
{
    let m = pow2(z as nat) as int;
    vstd::arithmetic::power2::lemma_pow2_pos(z as nat);
    vstd::arithmetic::power2::lemma_pow2_pos(nz as nat);
    vstd::arithmetic::power2::lemma_pow2_pos(dz as nat);
    vstd::arithmetic::power2::lemma_pow2_pos((nz - z) as nat);
    vstd::arithmetic::power2::lemma_pow2_pos((dz - z) as nat);
    vstd::arithmetic::power2::lemma_pow2_adds((nz - z) as nat, z as nat);
    vstd::arithmetic::power2::lemma_pow2_adds((dz - z) as nat, z as nat);
    let mn = pow2(nz as nat) as int;
    let md = pow2(dz as nat) as int;
    lemma_divides_intro(m, pow2((nz - z) as nat) as int, mn);
    lemma_divides_intro(m, pow2((dz - z) as nat) as int, md);
    lemma_divides_trans(m, mn, rabs(n));
    lemma_divides_trans(m, md, d);
    lemma_mod_abs(n, m);
    lemma_divides_elim(m, n);
    lemma_exact_div(d, m);
    let n1 = n / m;
    let d1 = d / m;
    assert(n1 * d == n * d1) by (nonlinear_arith) requires n == n1 * m, d == d1 * m;
}

pub proof fn lemma_tdiv_exact(n: int, g: int)
    requires divides(g, rabs(n))
    ensures n == tdiv(n, g) * g, rabs(n) == rabs(tdiv(n, g)) * g, (n != 0 ==> tdiv(n, g) != 0)
{
    lemma_exact_div(rabs(n), g);
    let a1 = rabs(n) / g;
    if n < 0 {
        assert(n == (-a1) * g) by (nonlinear_arith) requires -n == a1 * g;
    }
}

// ---- value identities of the rational operators (cross-multiplied) ----
pub proof fn lemma_prod4(x: int, y: int, gx: int, gy: int)
    ensures (x * gx) * (y * gy) == (x * y) * (gx * gy)
{
    assert((x * gx) * (y * gy) == (x * y) * (gx * gy)) by (nonlinear_arith);
}

// a/b * c/d with a = a1*g1, d = d1*g1, b = b1*g2, c = c1*g2
pub proof fn lemma_mul_value(a: int, b: int, c: int, d: int, g1: int, g2: int, a1: int, b1: int, c1: int, d1: int)
    requires a == a1 * g1, d == d1 * g1, b == b1 * g2, c == c1 * g2
    ensures (a1 * c1) * (b * d) == (a * c) * (b1 * d1)
{
    lemma_prod4(b1, d1, g2, g1);
    lemma_prod4(a1, c1, g1, g2);
    let n = a1 * c1; let m = b1 * d1; let gg = g1 * g2; let hh = g2 * g1;
    assert(n * (m * hh) == (n * gg) * m) by (nonlinear_arith) requires hh == g2 * g1, gg == g1 * g2;
}

// (a/b) / (c/d) with a = a1*g1, c = s*c1*g1 (s = sign of c), b = b1*g2, d = d1*g2
pub proof fn lemma_div_value(a: int, b: int, c: int, d: int, g1: int, g2: int, a1: int, b1: int, c1: int, d1: int, s: int)
    requires a == a1 * g1, c == s * (c1 * g1), b == b1 * g2, d == d1 * g2, s == 1 || s == -1
    ensures ((a1 * d1) * s) * (b * c) == (a * d) * (b1 * c1)
{
    lemma_prod4(a1, d1, g1, g2);
    lemma_prod4(b1, c1, g2, g1);
    let n = a1 * d1; let m = b1 * c1; let gg = g1 * g2; let hh = g2 * g1;
    let cc = c1 * g1;
    assert(b * c == s * (m * hh)) by (nonlinear_arith) requires b == b1 * g2, c == s * cc, (b1 * g2) * cc == m * hh, cc == c1 * g1;
    assert((n * s) * (s * (m * hh)) == (n * gg) * m) by (nonlinear_arith) requires hh == g2 * g1, gg == g1 * g2, s == 1 || s == -1;
}

// a/b + c/d through g = gcd(b, d): numerator N = ddg*a + bg*c over D = b*ddg, then reduced to n/dn
pub proof fn lemma_add_hint_value(a: int, b: int, c: int, d: int, g: int, ddg: int, bg: int, nn: int, dd: int, n: int, dn: int)
    requires d == ddg * g, b == bg * g, nn == ddg * a + bg * c, dd == b * ddg, n * dd == nn * dn
    ensures n * (b * d) == (a * d + c * b) * dn
{
    assert(nn * g == a * d + c * b) by (nonlinear_arith) requires d == ddg * g, b == bg * g, nn == ddg * a + bg * c;
    assert(dd * g == b * d) by (nonlinear_arith) requires d == ddg * g, dd == b * ddg;
    assert(n * (dd * g) == (nn * g) * dn) by (nonlinear_arith) requires n * dd == nn * dn;
}
