// ---- sf_ratio_prim_spec.rs: INCLUDE inside `pub mod ratio` after sf_ratio_stubs.rs (needs Repr, ConversionError, conv_float.rs,
// conv_from_prim_stubs.rs, sf_prim_lemmas.rs)
/// contract of `impl TryFrom<f32 / f64> for Repr` (rational/src/convert.rs), see lib/sf_ratio_prim_stubs.rs
pub open spec fn prim_from_post(f: Fmt, r: Fields, res: Result<Repr, ConversionError>) -> bool {
    if r.eb == f.emaxb { res matches Err(e) && e == ConversionError::OutOfBounds }
    else if r.eb == 0 && r.frac == 0 { res matches Ok(x) && x.numerator.v() == 0 && x.denominator.v() == 1 }
    else { res matches Ok(x) && prim_est(dec_m(f, r), dec_e(f, r), x.numerator.v(), x.denominator.v()) }
}
