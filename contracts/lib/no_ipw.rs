// ---- no_ipw.rs: integer powers b^e and their elementary lemmas (pure, nothing trusted)
pub mod no_ipw {
use super::*;
use vstd::arithmetic::power2::*;
/// b^e
pub open spec fn ipw(b: int, e: nat) -> int decreases e { if e == 0 { 1 } else { b * ipw(b, (e - 1) as nat) } }

pub proof fn lemma_ipw_pos(b: int, e: nat)
    requires b >= 1,
    ensures ipw(b, e) >= 1,
    decreases e
{
    if e > 0 {
        lemma_ipw_pos(b, (e - 1) as nat);
        assert(b * ipw(b, (e - 1) as nat) >= 1) by (nonlinear_arith) requires b >= 1, ipw(b, (e - 1) as nat) >= 1;
    }
}
pub proof fn lemma_ipw_add(b: int, x: nat, y: nat)
    ensures ipw(b, x + y) == ipw(b, x) * ipw(b, y),
    decreases x
{
    if x > 0 {
        lemma_ipw_add(b, (x - 1) as nat, y);
        assert(ipw(b, x + y) == b * ipw(b, ((x - 1) as nat) + y));
        assert(b * (ipw(b, (x - 1) as nat) * ipw(b, y)) == (b * ipw(b, (x - 1) as nat)) * ipw(b, y)) by (nonlinear_arith);
    } else {
        assert(ipw(b, 0) == 1);
        assert(1 * ipw(b, y) == ipw(b, y));
    }
}
/// ipw(2, n) is vstd's pow2(n)
pub proof fn lemma_ipw2(n: nat)
    ensures ipw(2, n) == pow2(n),
    decreases n
{
    if n > 0 { lemma_ipw2((n - 1) as nat); vstd::arithmetic::power2::lemma_pow2_unfold(n); }
    else { vstd::arithmetic::power2::lemma2_to64(); }
}
/// monotone in the base and in the exponent (b >= 1)
pub proof fn lemma_ipw_mono(a: int, b: int, e: nat)
    requires 1 <= a <= b,
    ensures ipw(a, e) <= ipw(b, e),
    decreases e
{
    if e > 0 {
        lemma_ipw_mono(a, b, (e - 1) as nat);
        lemma_ipw_pos(a, (e - 1) as nat);
        let (x, y) = (ipw(a, (e - 1) as nat), ipw(b, (e - 1) as nat));
        assert(a * x <= b * y) by (nonlinear_arith) requires 1 <= a <= b, 1 <= x <= y;
    }
}
/// (2^t)^e == 2^(e*t)
pub proof fn lemma_ipw_pot(t: nat, e: nat)
    ensures ipw(ipw(2, t), e) == ipw(2, e * t),
    decreases e
{
    if e > 0 {
        lemma_ipw_pot(t, (e - 1) as nat);
        assert(e * t == t + (e - 1) * t) by (nonlinear_arith) requires e >= 1;
        lemma_ipw_add(2, t, ((e - 1) as nat) * t);
    } else {
        assert(0 * t == 0);
    }
}

} // mod no_ipw
pub use no_ipw::*;
