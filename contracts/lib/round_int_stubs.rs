// ---- round_int_stubs.rs: dashu_int::{IBig, UBig} as seen from dashu-float / dashu-ratio.
// Abstract types with a mathematical value `v()`.  EVERY contract in this file is a TRUSTED ASSUMPTION about
// dashu-int (the lower layer; C01/C02/C05/C09 units are where those are to be established); each was read off
// the real implementation (integer/src/{ibig,ubig,sign,cmp,bits,shift_ops,div_ops,add_ops,pow,convert}.rs).

#[verifier::external_body]
pub struct IBig { _p: u8 }
#[verifier::external_body]
pub struct UBig { _p: u8 }

/// the values of the abstract types cover all integers / all naturals (memory limits ignored)
pub uninterp spec fn ibig_of(i: int) -> IBig;
pub uninterp spec fn ubig_of(i: int) -> UBig;
pub broadcast axiom fn ibig_of_v(i: int) ensures (#[trigger] ibig_of(i)).v() == i;
pub broadcast axiom fn ubig_of_v(i: int) requires i >= 0 ensures (#[trigger] ubig_of(i)).v() == i;
pub broadcast axiom fn ubig_nonneg(u: UBig) ensures #[trigger] u.v() >= 0;
pub broadcast axiom fn ibig_consts() ensures #![trigger IBig::ZERO.v()] #![trigger IBig::ONE.v()] IBig::ZERO.v() == 0 && IBig::ONE.v() == 1;
/// functions that use the stubs start with `broadcast use round_int_axioms;`
pub broadcast group round_int_axioms { ibig_of_v, ubig_of_v, ubig_nonneg, ibig_consts }

impl IBig {
    pub uninterp spec fn v(&self) -> int;
    #[verifier::external_body]
    pub const ZERO: IBig = IBig { _p: 0 };
    #[verifier::external_body]
    pub const ONE: IBig = IBig { _p: 0 };
    #[verifier::external_body]
    pub fn is_zero(&self) -> (r: bool) ensures r == (self.v() == 0) { unimplemented!() }
    /// Signed::sign.  Zero is Positive: representation invariant of dashu-int (`Repr::with_sign` / `Repr::neg` never
    /// flip the sign of zero, `Repr::sign()` reads the sign of `capacity`; wf_repr "zero is positive", C05/C17)
    #[verifier::external_body]
    pub fn sign(&self) -> (r: Sign)
        ensures self.v() > 0 ==> r == Sign::Positive, self.v() < 0 ==> r == Sign::Negative,
            self.v() == 0 ==> r == Sign::Positive { unimplemented!() }
    /// Signed::is_positive = (sign() == Positive)
    #[verifier::external_body]
    pub fn is_positive(&self) -> (r: bool)
        ensures self.v() > 0 ==> r, self.v() < 0 ==> !r, self.v() == 0 ==> r { unimplemented!() }
    /// BitTest::bit on the two's complement view: bit 0 is the parity
    #[verifier::external_body]
    pub fn bit(&self, n: usize) -> (r: bool) ensures n == 0 ==> r == (self.v() % 2 != 0) { unimplemented!() }
    #[verifier::external_body]
    pub fn into_parts(self) -> (r: (Sign, UBig))
        ensures r.1.v() == iabs(self.v()), self.v() > 0 ==> r.0 == Sign::Positive, self.v() < 0 ==> r.0 == Sign::Negative
    { unimplemented!() }
    /// AbsOrd::abs_cmp
    #[verifier::external_body]
    pub fn abs_cmp(&self, rhs: &IBig) -> (r: Ordering) ensures r == int_cmp(iabs(self.v()), iabs(rhs.v())) { unimplemented!() }
    /// UnsignedAbs::unsigned_abs
    #[verifier::external_body]
    pub fn unsigned_abs(self) -> (r: UBig) ensures r.v() == iabs(self.v()) { unimplemented!() }
}
impl Clone for IBig {
    #[verifier::external_body]
    fn clone(&self) -> (r: IBig) ensures r.v() == self.v() { unimplemented!() }
}
impl UBig {
    pub uninterp spec fn v(&self) -> int;
    #[verifier::external_body]
    pub fn from_word(w: Word) -> (r: UBig) ensures r.v() == w as int { unimplemented!() }
    #[verifier::external_body]
    pub fn pow(&self, exp: usize) -> (r: UBig) ensures r.v() == ipow(self.v(), exp as nat) { unimplemented!() }
}
impl Clone for UBig {
    #[verifier::external_body]
    fn clone(&self) -> (r: UBig) ensures r.v() == self.v() { unimplemented!() }
}

// ---- comparisons: Ord / PartialOrd / PartialEq follow the value
impl PartialEq for IBig { #[verifier::external_body] fn eq(&self, o: &IBig) -> bool { unimplemented!() } }
impl Eq for IBig {}
impl PartialOrd for IBig { #[verifier::external_body] fn partial_cmp(&self, o: &IBig) -> Option<Ordering> { unimplemented!() } }
impl Ord for IBig { #[verifier::external_body] fn cmp(&self, o: &IBig) -> Ordering { unimplemented!() } }
impl PartialEqSpecImpl for IBig {
    open spec fn obeys_eq_spec() -> bool { true }
    open spec fn eq_spec(&self, o: &IBig) -> bool { self.v() == o.v() }
}
impl PartialOrdSpecImpl for IBig {
    open spec fn obeys_partial_cmp_spec() -> bool { true }
    open spec fn partial_cmp_spec(&self, o: &IBig) -> Option<Ordering> { Some(int_cmp(self.v(), o.v())) }
}
impl OrdSpecImpl for IBig {
    open spec fn obeys_cmp_spec() -> bool { true }
    open spec fn cmp_spec(&self, o: &IBig) -> Ordering { int_cmp(self.v(), o.v()) }
}
impl PartialEq for UBig { #[verifier::external_body] fn eq(&self, o: &UBig) -> bool { unimplemented!() } }
impl Eq for UBig {}
impl PartialOrd for UBig { #[verifier::external_body] fn partial_cmp(&self, o: &UBig) -> Option<Ordering> { unimplemented!() } }
impl Ord for UBig { #[verifier::external_body] fn cmp(&self, o: &UBig) -> Ordering { unimplemented!() } }
impl PartialEqSpecImpl for UBig {
    open spec fn obeys_eq_spec() -> bool { true }
    open spec fn eq_spec(&self, o: &UBig) -> bool { self.v() == o.v() }
}
impl PartialOrdSpecImpl for UBig {
    open spec fn obeys_partial_cmp_spec() -> bool { true }
    open spec fn partial_cmp_spec(&self, o: &UBig) -> Option<Ordering> { Some(int_cmp(self.v(), o.v())) }
}
impl OrdSpecImpl for UBig {
    open spec fn obeys_cmp_spec() -> bool { true }
    open spec fn cmp_spec(&self, o: &UBig) -> Ordering { int_cmp(self.v(), o.v()) }
}

// ---- conversions and operators (value-exact)
impl From<UBig> for IBig {
    #[verifier::external_body]
    fn from(u: UBig) -> (r: IBig) ensures r.v() == u.v() { unimplemented!() }
}
impl Shl<usize> for UBig {
    type Output = UBig;
    #[verifier::external_body]
    fn shl(self, rhs: usize) -> UBig { unimplemented!() }
}
impl ShlSpecImpl<usize> for UBig {
    open spec fn obeys_shl_spec() -> bool { true }
    open spec fn shl_req(self, rhs: usize) -> bool { true }
    open spec fn shl_spec(self, rhs: usize) -> UBig { ubig_of(self.v() * ipow(2, rhs as nat)) }
}
// (not used by the unchanged code: present so that a changed function that shifts right still type-checks and is
//  judged by its contract instead of being rejected as unsupported)
impl Shr<usize> for UBig {
    type Output = UBig;
    #[verifier::external_body]
    fn shr(self, rhs: usize) -> UBig { unimplemented!() }
}
impl ShrSpecImpl<usize> for UBig {
    open spec fn obeys_shr_spec() -> bool { true }
    open spec fn shr_req(self, rhs: usize) -> bool { true }
    open spec fn shr_spec(self, rhs: usize) -> UBig { ubig_of(self.v() / ipow(2, rhs as nat)) }
}
impl Neg for UBig {
    type Output = IBig;
    #[verifier::external_body]
    fn neg(self) -> IBig { unimplemented!() }
}
impl NegSpecImpl for UBig {
    open spec fn obeys_neg_spec() -> bool { true }
    open spec fn neg_req(self) -> bool { true }
    open spec fn neg_spec(self) -> IBig { ibig_of(-self.v()) }
}
// Mul<Sign> for Sign (base/src/sign.rs): product of signs
impl Mul<Sign> for Sign {
    type Output = Sign;
    #[verifier::external_body]
    fn mul(self, rhs: Sign) -> Sign { unimplemented!() }
}
impl MulSpecImpl<Sign> for Sign {
    open spec fn obeys_mul_spec() -> bool { true }
    open spec fn mul_req(self, rhs: Sign) -> bool { true }
    open spec fn mul_spec(self, rhs: Sign) -> Sign { sign_mul(self, rhs) }
}
pub assume_specification [core::cmp::Ordering::is_le] (o: Ordering) -> (r: bool) ensures r == (o != Ordering::Greater);
