// ---- no_float_prim_stubs.rs: what float/src/third_party/num_order.rs `impl_num_ord_with_float` (NumOrd<f32 / f64> for Repr<B>)
// needs beyond lib/no_float_stubs.rs and the abstract float model lib/gcdo_numord_stubs.rs (include after both and after
// lib/no_frac_lemmas.rs, lib/no_prim_stubs.rs).  Every external_body is TRUSTED and states what the real function does.
pub mod no_float_prim_stubs {
use super::*;
use vstd::std_specs::convert::*;
use vstd::arithmetic::power2::*;
use core::cmp::Ordering;

// ---- the property's sentence (C14): ordering of the exact real values of s * b^e (or +-inf) and a primitive float
// (NaN incomparable, +-inf, otherwise man * 2^ex), cross-multiplied by the positive denominators pd(b, e) * td(ex)
pub open spec fn cmp_repr_prim(s: int, b: int, e: int, nan: bool, inf: bool, neg: bool, man: int, ex: int) -> Option<Ordering> {
    if nan { None }
    else if fl_inf(s, e) {
        if inf && (neg == (e < 0)) { Some(Ordering::Equal) } else if e > 0 { Some(Ordering::Greater) } else { Some(Ordering::Less) }
    }
    else if inf { if neg { Some(Ordering::Greater) } else { Some(Ordering::Less) } }
    else { Some(cmp_int((s * pn(b, e)) * td(ex), (man * pd(b, e)) * tn(ex))) }
}
/// the same with the primitive float on the LEFT
pub open spec fn cmp_prim_repr(nan: bool, inf: bool, neg: bool, man: int, ex: int, s: int, b: int, e: int) -> Option<Ordering> {
    if nan { None }
    else if fl_inf(s, e) {
        if inf && (neg == (e < 0)) { Some(Ordering::Equal) } else if e > 0 { Some(Ordering::Less) } else { Some(Ordering::Greater) }
    }
    else if inf { if neg { Some(Ordering::Less) } else { Some(Ordering::Greater) } }
    else { Some(cmp_int((man * pd(b, e)) * tn(ex), (s * pn(b, e)) * td(ex))) }
}
/// precondition of the comparisons of a Repr<B> with f32 / f64: B >= 2 and the resource bound on the exponent (see the
/// annotated copy float/numorder2/repr_cmp_prim_float.rs)
pub open spec fn fp_pre(b: int, e: int) -> bool {
    b >= 2 && -0x0100_0000_0000_0000 <= e <= 0x0100_0000_0000_0000
}
} // mod no_float_prim_stubs
pub use no_float_prim_stubs::*;
