// ---- trusted stubs for integer/src/div/mod.rs (single-word divisor kernels). Word = @W@ ------------------
//
// `FastDivideNormalized = num_modular::Normalized2by1Divisor<Word>` (external crate num-modular 0.6.5,
// src/barrett.rs) is NOT verified here. Its documented meaning is ASSUMED:
//   new(d)            "The divisor must have top bit of 1" (asserts d.leading_zeros() == 0, panics otherwise)
//   div_rem_1by1(a)   "Returns (a / divisor, a % divisor)"
//   div_rem_2by1(a)   "Returns (a / divisor, a % divisor). The result must fit in a single word."
//                     (debug_assert!(a_hi < self.divisor))
// The fields are private and `new` is the only constructor, so every value has a normalized divisor; we do not
// assume that as an axiom but carry it as the explicit precondition `wf()` (established by `new`).
#[verifier::external_body]
#[derive(Clone, Copy)]
pub struct FastDivideNormalized { _divisor: Word, _m: Word }

impl FastDivideNormalized {
    pub uninterp spec fn divisor(&self) -> int;

    pub open spec fn wf(&self) -> bool { @HALFB@ <= self.divisor() < B() }

    #[verifier::external_body]
    pub const fn new(divisor: Word) -> (r: Self)
        requires divisor >= @HALFB@,
        ensures r.divisor() == divisor as int, r.wf(),
    { unimplemented!() }

    #[verifier::external_body]
    pub const fn div_rem_1by1(&self, a: Word) -> (r: (Word, Word))
        requires self.wf(),
        ensures r.0 as int == (a as int) / self.divisor(), r.1 as int == (a as int) % self.divisor(),
    { unimplemented!() }

    #[verifier::external_body]
    pub const fn div_rem_2by1(&self, a: DoubleWord) -> (r: (Word, Word))
        requires self.wf(), (a as int) < self.divisor() * B(),        // high word of a < divisor
        ensures r.0 as int == (a as int) / self.divisor(), r.1 as int == (a as int) % self.divisor(),
    { unimplemented!() }
}

// core functions without a vstd specification: trusted
/// `is_power_of_two`: exactly one bit set
pub assume_specification [@W@::is_power_of_two] (w: @W@) -> (r: bool)
    ensures r <==> (w != 0 && (w & ((w - 1) as @W@)) == 0);

/// `<[T]>::split_last`: None for the empty slice, otherwise (last element, everything before it)
pub assume_specification<T> [<[T]>::split_last] (s: &[T]) -> (r: Option<(&T, &[T])>)
    ensures s@.len() == 0 ==> r is None,
        s@.len() > 0 ==> r is Some && *(r.unwrap().0) == s@[s@.len() - 1] && (r.unwrap().1)@ == s@.subrange(0, s@.len() - 1);
