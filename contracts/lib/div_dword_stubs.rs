// ---- trusted stub: FastDivideNormalized2 = num_modular::Normalized3by2Divisor<Word, DoubleWord> -----------
// (external crate num-modular 0.6.5, src/barrett.rs; NOT verified here, documented meaning ASSUMED)
//   new(d)                  "divisor must have top bit of 1" (asserts d.leading_zeros() == 0)
//   div_rem_2by2(a)         (a / divisor, a % divisor)
//   div_rem_3by2(lo, hi)    "The input a is arranged as (lo, mi & hi). The output is (a / divisor, a % divisor)",
//                           debug_assert!(a_hi < self.divisor)
//   div_rem_4by2(lo, hi)    "Divide a 4-word number with double word divisor. The output is (a / divisor, a % divisor)"
//                           (two 3by2 steps: needs a_hi < divisor)
#[verifier::external_body]
#[derive(Clone, Copy)]
pub struct FastDivideNormalized2 { _divisor: DoubleWord, _m: Word }

impl FastDivideNormalized2 {
    pub uninterp spec fn divisor(&self) -> int;

    pub open spec fn wf(&self) -> bool { @HALFB@ * B() <= self.divisor() < B() * B() }

    #[verifier::external_body]
    pub const fn new(divisor: DoubleWord) -> (r: Self)
        requires divisor as int >= @HALFB@ * B(),
        ensures r.divisor() == divisor as int, r.wf(),
    { unimplemented!() }

    #[verifier::external_body]
    pub const fn div_rem_2by2(&self, a: DoubleWord) -> (r: (DoubleWord, DoubleWord))
        requires self.wf(),
        ensures r.0 as int == (a as int) / self.divisor(), r.1 as int == (a as int) % self.divisor(),
    { unimplemented!() }

    #[verifier::external_body]
    pub const fn div_rem_3by2(&self, a_lo: Word, a_hi: DoubleWord) -> (r: (Word, DoubleWord))
        requires self.wf(), (a_hi as int) < self.divisor(),
        ensures r.0 as int == (a_lo as int + (a_hi as int) * B()) / self.divisor(),
            r.1 as int == (a_lo as int + (a_hi as int) * B()) % self.divisor(),
    { unimplemented!() }

    #[verifier::external_body]
    pub const fn div_rem_4by2(&self, a_lo: DoubleWord, a_hi: DoubleWord) -> (r: (DoubleWord, DoubleWord))
        requires self.wf(), (a_hi as int) < self.divisor(),
        ensures r.0 as int == (a_lo as int + (a_hi as int) * (B() * B())) / self.divisor(),
            r.1 as int == (a_lo as int + (a_hi as int) * (B() * B())) % self.divisor(),
    { unimplemented!() }
}
