// ---- conv_fbig_stubs.rs: float/src/fbig.rs `FBig` and the float/src/utils.rs / repr.rs helpers that
// `with_precision` / `to_int` call.  Needs round_prelude.rs, round_int_stubs.rs, round_float_repr.rs.

// float/src/fbig.rs `pub struct FBig<RoundingMode: Round, const BASE: Word>` -- transcription (two fields)
pub struct FBig<RoundingMode: Round, const BASE: Word> {
    pub repr: Repr<BASE>,
    pub context: Context<RoundingMode>,
}
/// documented invariant of FBig (fbig.rs `from_repr`): infinite, or unlimited precision, or digits <= precision
pub open spec fn fbig_wf<R: Round, const B: Word>(f: FBig<R, B>) -> bool {
    (f.repr.significand.v() == 0 && f.repr.exponent != 0) || f.context.precision == 0
        || ndigits(B as int, f.repr.significand.v()) <= f.context.precision
}
/// Rounded<FBig> seen as Rounded<Repr>
pub open spec fn map_repr<R: Round, const B: Word>(r: Rounded<FBig<R, B>>) -> Rounded<Repr<B>> {
    match r { Approximation::Exact(f) => Approximation::Exact(f.repr), Approximation::Inexact(f, a) => Approximation::Inexact(f.repr, a) }
}
pub open spec fn rd_val<T>(r: Rounded<T>) -> T { match r { Approximation::Exact(v) => v, Approximation::Inexact(v, _) => v } }

// ---- TRUSTED stubs (float/src/utils.rs, float/src/repr.rs); each contract was read off the real function
// utils::shl_digits: PROVED in unit float_digit_utils; contract from its annotated copy
//@@ SIG float/utils3/shl_digits.rs
// utils::shr_digits: PROVED in unit float_digit_utils (quotient truncated toward zero in every base arm)
//@@ SIG float/utils3/shr_digits.rs
impl<const B: Word> Repr<B> {
    /// repr.rs `Repr::smaller_than_one`: "Quickly test if |self| < 1. It's not always correct, but there are guaranteed
    /// to be no false positives" (decided from `digits_ub`, an f32 log2 estimate).  ASSUMED enclosure: a `true`
    /// answer implies |significand| * B^exponent < 1; nothing is assumed about `false`.
    #[verifier::external_body]
    pub fn smaller_than_one(&self) -> (r: bool)
        requires !(self.significand.v() == 0 && self.exponent != 0)
        ensures r ==> self.exponent < 0 && iabs(self.significand.v()) < ipow(B as int, (-(self.exponent as int)) as nat)
    { unimplemented!() }
}
