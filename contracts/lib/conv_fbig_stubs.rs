// ---- conv_fbig_stubs.rs: float/src/fbig.rs `FBig` and the float/src/utils.rs / repr.rs helpers that
// `with_precision` / `to_int` call.  Needs round_prelude.rs, round_int_stubs.rs, round_float_repr.rs.

// float/src/fbig.rs `pub struct FBig<RoundingMode: Round, const BASE: Word>` -- transcription (two fields)
pub struct FBig<RoundingMode: Round, const BASE: Word> {
    pub repr: Repr<BASE>,
    pub context: Context<RoundingMode>,
}
/// documented invariant of FBig (fbig.rs `from_repr`): infinite, or unlimited precision, or digits <= precision
pub open spec fn fbig_wf<R: Round, const B: Word>(f: FBig<R, B>) -> bool {
    (f.repr.significand.v() == 0 && f.repr.exponent != 0) || f.context.precision == 0
        || ndigits(B as int, f.repr.significand.v()) <= f.context.precision
}
/// Rounded<FBig> seen as Rounded<Repr>
pub open spec fn map_repr<R: Round, const B: Word>(r: Rounded<FBig<R, B>>) -> Rounded<Repr<B>> {
    match r { Approximation::Exact(f) => Approximation::Exact(f.repr), Approximation::Inexact(f, a) => Approximation::Inexact(f.repr, a) }
}
pub open spec fn rd_val<T>(r: Rounded<T>) -> T { match r { Approximation::Exact(v) => v, Approximation::Inexact(v, _) => v } }

// ---- TRUSTED stubs (float/src/utils.rs, float/src/repr.rs); each contract was read off the real function
/// utils::shl_digits: "Left shifting in given radix, i.e. multiply by a power of radix"
#[verifier::external_body]
pub fn shl_digits<const B: Word>(value: &IBig, exp: usize) -> (r: IBig)
    requires B >= 2,
        // resource limit: exponent overflow is a documented panic (C16), not modelled: power-of-two bases shift by
        // `exp * log2(B)` computed in usize (utils.rs:31); a wrapped product gives a wrong value in release builds
        pos_room(exp as int),
    ensures r.v() == value.v() * ipow(B as int, exp as nat)
{ unimplemented!() }
/// utils::shr_digits: "Right shifting in given radix, i.e. divide by a power of radix"; the MAGNITUDE is shifted
/// (shr_ref) resp. IBig `/` is used, both truncate towards zero
#[verifier::external_body]
pub fn shr_digits<const B: Word>(value: &IBig, exp: usize) -> (r: IBig)
    requires B >= 2,
        // resource limit: exponent overflow is a documented panic (C16), not modelled: `exp * log2(B)` in usize
        // (utils.rs:72): `shr_digits::<16>(&0x123.into(), 1 << 62)` panics (debug) or returns 0x123 (release)
        pos_room(exp as int),
    ensures exists|lo: int| #[trigger] is_trunc_divrem(value.v(), ipow(B as int, exp as nat), r.v(), lo)
{ unimplemented!() }
impl<const B: Word> Repr<B> {
    /// repr.rs `Repr::smaller_than_one`: "Quickly test if |self| < 1. It's not always correct, but there are guaranteed
    /// to be no false positives" (decided from `digits_ub`, an f32 log2 estimate).  ASSUMED enclosure: a `true`
    /// answer implies |significand| * B^exponent < 1; nothing is assumed about `false`.
    #[verifier::external_body]
    pub fn smaller_than_one(&self) -> (r: bool)
        requires !(self.significand.v() == 0 && self.exponent != 0)
        ensures r ==> self.exponent < 0 && iabs(self.significand.v()) < ipow(B as int, (-(self.exponent as int)) as nat)
    { unimplemented!() }
}
