// ---- mod2_ring.rs: reduced-ring (integer/src/modular) vocabulary for the units int_modadd2 / int_modmul / int_moddiv /
// int_modconv (property C13).  Word = @W@.  Needs lib/prelude.rs and lib/div_dword_stubs.rs (FastDivideNormalized2).
// Same names and the same definitions as lib/mod_lemmas.rs (unit int_modadd) for `ring_wf`, `red_valid`, `mod1`, so a
// contract written against either file means the same thing; this file additionally mirrors the third field of
// ConstLargeDivisor and relates the STORED numbers to the MATHEMATICAL residue.
//
// Representation (integer/src/div_const.rs:35, modular/repr.rs:44): a ring over the modulus m stores
//     normalized_divisor = M = m * 2^shift   (top bit of the top word set),
// an element with residue r stores  raw = r * 2^shift  in exactly len(M) words.  Contracts are stated on the stored
// numbers (val(raw) < val(M)); `resid` / `modulus` divide the factor 2^shift out again.

// Structural mirrors of the real types (trusted to match integer/src/modular/repr.rs:44 and div_const.rs:35-39).
pub struct ReducedLarge(pub Box<[Word]>);
pub struct ConstLargeDivisor {
    pub normalized_divisor: Box<[Word]>,
    pub shift: u32,
    pub fast_div_top: FastDivideNormalized2,
}

pub open spec fn ring_wf(ring: &ConstLargeDivisor) -> bool {
    ring.normalized_divisor@.len() <= usize::MAX && val(ring.normalized_divisor@) >= 1
}
/// the stored (normalised) residue is a number below the (normalised) modulus of the same length
pub open spec fn red_valid(x: &ReducedLarge, ring: &ConstLargeDivisor) -> bool {
    x.0@.len() == ring.normalized_divisor@.len() && val(x.0@) < val(ring.normalized_divisor@)
}
/// r is THE residue of x modulo m, for x within one modulus of the canonical range
pub open spec fn mod1(r: int, x: int, m: int) -> bool {
    0 <= r < m && (r == x || r == x - m || r == x + m)
}

/// 2^shift
pub open spec fn ring_p(ring: &ConstLargeDivisor) -> int { pow2(ring.shift as int) }
/// the stored modulus M = m * 2^shift
pub open spec fn ring_M(ring: &ConstLargeDivisor) -> int { val(ring.normalized_divisor@) }
/// the modulus m of the ring (what ConstDivisor::new was given)
pub open spec fn modulus(ring: &ConstLargeDivisor) -> int { ring_M(ring) / ring_p(ring) }
/// the mathematical residue of a stored element
pub open spec fn resid(x: &ReducedLarge, ring: &ConstLargeDivisor) -> int { val(x.0@) / ring_p(ring) }
/// the normalisation bookkeeping: shift < WORD_BITS and M is a multiple of 2^shift (div::normalize shifts m left)
pub open spec fn ring_al(ring: &ConstLargeDivisor) -> bool {
    ring_wf(ring) && ring.shift < WORD_BITS && ring_M(ring) % ring_p(ring) == 0
}
/// stored element: below M, same length, low `shift` bits zero (ReducedLarge::is_valid, modular/repr.rs:137)
pub open spec fn red_ok(x: &ReducedLarge, ring: &ConstLargeDivisor) -> bool {
    red_valid(x, ring) && val(x.0@) % ring_p(ring) == 0
}

pub assume_specification [core::cmp::Ordering::is_ge] (o: core::cmp::Ordering) -> (r: bool)
    ensures r == !(o is Less);
pub assume_specification [core::cmp::Ordering::is_le] (o: core::cmp::Ordering) -> (r: bool)
    ensures r == !(o is Greater);
pub assume_specification [core::cmp::Ordering::is_gt] (o: core::cmp::Ordering) -> (r: bool)
    ensures r == (o is Greater);
pub assume_specification [core::cmp::Ordering::is_lt] (o: core::cmp::Ordering) -> (r: bool)
    ensures r == (o is Less);
pub assume_specification [core::cmp::Ordering::is_eq] (o: core::cmp::Ordering) -> (r: bool)
    ensures r == (o is Equal);
pub assume_specification [core::cmp::Ordering::is_ne] (o: core::cmp::Ordering) -> (r: bool)
    ensures r == !(o is Equal);

/// Target of lowering rule D15 (`X.iter().all(|w| *w == C)`): VERIFIED here, not trusted.
pub fn __slice_all_eq(s: &[Word], c: Word) -> (ret: bool)
    ensures ret == (forall|k: int| 0 <= k < s@.len() ==> s@[k] == c),
{
    let n = s.len();
    let mut i: usize = 0;
    while i < n
        invariant n == s@.len(), i <= n, forall|k: int| 0 <= k < i ==> s@[k] == c,
        decreases n - i
    {
        if !(s[i] == c) {
            return false;
        }
        i += 1;
    }
    true
}

/// Target of lowering rule D16 (`&mut P[range]` with P a `Box<[Word]>`): the identity, VERIFIED here, not trusted.
pub fn __as_mut_slice(s: &mut [Word]) -> (r: &mut [Word])
    ensures r@ == old(s)@, final(r)@ == final(s)@,
{
    s
}

pub proof fn lemma_b2i_mul(b: bool, p: int)
    ensures b2i(b) * p == if b { p } else { 0 },
{
    if b { assert(1 * p == p); } else { assert(0 * p == 0); }
}

pub proof fn lemma_mod_add_fix(a: int, b: int, m: int, mid: int, fin: int, o1: int, o2: int, p: int)
    requires 0 <= a < m, 0 <= b < m, m < p, 0 <= o1 <= 1, 0 <= o2 <= 1,
        mid + o1 * p == a + b, 0 <= mid < p,
        fin - o2 * p == mid - m, 0 <= fin < p,
        o1 == 1 || mid >= m,
    ensures o1 == o2, fin == a + b - m, 0 <= fin < m,
{
    assert(o1 * p == if o1 == 1 { p } else { 0 }) by (nonlinear_arith) requires 0 <= o1 <= 1;
    assert(o2 * p == if o2 == 1 { p } else { 0 }) by (nonlinear_arith) requires 0 <= o2 <= 1;
}

/// a word sequence with a non-zero word has a positive value
pub proof fn lemma_valn_pos(s: Seq<Word>, k: int, n: int)
    requires 0 <= k < n <= s.len(), s[k] != 0,
    ensures valn(s, n) >= 1,
    decreases n
{
    lemma_valn_bound(s, n - 1);
    lemma_pw_pos(n - 1);
    if k == n - 1 {
        assert((s[n - 1] as int) * pw(n - 1) >= 1) by (nonlinear_arith) requires s[n - 1] as int >= 1, pw(n - 1) >= 1;
    } else {
        lemma_valn_pos(s, k, n - 1);
        assert((s[n - 1] as int) * pw(n - 1) >= 0) by (nonlinear_arith) requires s[n - 1] as int >= 0, pw(n - 1) >= 1;
    }
}

pub proof fn lemma_pow2_pos(n: int)
    ensures pow2(n) >= 1,
    decreases n
{
    if n > 0 { lemma_pow2_pos(n - 1); }
}

/// r is x reduced into [0, m) by at most one modulus  ==>  r is the Euclidean residue x mod m
pub proof fn lemma_mod1_is_mod(r: int, x: int, m: int)
    requires mod1(r, x, m),
    ensures r == x % m,
{
    if r == x {
        vstd::arithmetic::div_mod::lemma_fundamental_div_mod_converse(x, m, 0, r);
    } else if r == x - m {
        vstd::arithmetic::div_mod::lemma_fundamental_div_mod_converse(x, m, 1, r);
    } else {
        vstd::arithmetic::div_mod::lemma_fundamental_div_mod_converse(x, m, -1, r);
    }
}

/// x = xs * p exactly  <==>  what `/` and `%` say
pub proof fn lemma_exact_div(x: int, p: int)
    requires p >= 1, x % p == 0,
    ensures x == (x / p) * p,
{
    vstd::arithmetic::div_mod::lemma_fundamental_div_mod(x, p);
    assert(p * (x / p) == (x / p) * p) by (nonlinear_arith);
}

pub proof fn lemma_div_of_multiple(q: int, p: int)
    requires p >= 1,
    ensures (q * p) % p == 0, (q * p) / p == q,
{
    vstd::arithmetic::div_mod::lemma_fundamental_div_mod_converse(q * p, p, q, 0);
}

/// scaling a residue statement down by the common factor p:  R = X mod M on multiples of p  ==>  R/p = (X/p) mod (M/p)
pub proof fn lemma_mod_scale_down(r: int, x: int, m: int, p: int)
    requires p >= 1, m >= 1, r == x % m, m % p == 0, x % p == 0,
    ensures r % p == 0, m / p >= 1, r / p == (x / p) % (m / p),
{
    let ms = m / p;
    let xs = x / p;
    lemma_exact_div(m, p);
    lemma_exact_div(x, p);
    assert(ms >= 1) by (nonlinear_arith) requires m == ms * p, m >= 1, p >= 1;
    let q = xs / ms;
    let rs = xs % ms;
    vstd::arithmetic::div_mod::lemma_fundamental_div_mod(xs, ms);
    vstd::arithmetic::div_mod::lemma_mod_bound(xs, ms);
    // x = xs*p = (ms*q + rs)*p = q*m + rs*p  with 0 <= rs*p < m
    assert(x == q * m + rs * p) by (nonlinear_arith) requires x == xs * p, xs == ms * q + rs, m == ms * p;
    assert(0 <= rs * p < m) by (nonlinear_arith) requires 0 <= rs < ms, m == ms * p, p >= 1;
    vstd::arithmetic::div_mod::lemma_fundamental_div_mod_converse(x, m, q, rs * p);
    lemma_div_of_multiple(rs, p);
}

/// the stored statement `mod1(R, X, M)` read as a statement about mathematical residues
pub proof fn lemma_mod1_resid(r: int, x: int, m: int, p: int)
    requires p >= 1, mod1(r, x, m), m % p == 0, x % p == 0,
    ensures r % p == 0, m / p >= 1, r / p == (x / p) % (m / p),
{
    lemma_mod1_is_mod(r, x, m);
    lemma_mod_scale_down(r, x, m, p);
}

/// (-a*p)/p == -a, (2*a*p)/p == 2*a  for exact multiples
pub proof fn lemma_neg_div(x: int, p: int)
    requires p >= 1, x % p == 0,
    ensures (-x) % p == 0, (-x) / p == -(x / p),
{
    lemma_exact_div(x, p);
    let q = x / p;
    assert(-x == (-q) * p) by (nonlinear_arith) requires x == q * p;
    lemma_div_of_multiple(-q, p);
}

pub proof fn lemma_dbl_div(x: int, p: int)
    requires p >= 1, x % p == 0,
    ensures (2 * x) % p == 0, (2 * x) / p == 2 * (x / p),
{
    lemma_exact_div(x, p);
    let q = x / p;
    assert(2 * x == (2 * q) * p) by (nonlinear_arith) requires x == q * p;
    lemma_div_of_multiple(2 * q, p);
}

pub proof fn lemma_add_div(x: int, y: int, p: int)
    requires p >= 1, x % p == 0, y % p == 0,
    ensures (x + y) % p == 0, (x + y) / p == x / p + y / p, (x - y) % p == 0, (x - y) / p == x / p - y / p,
{
    lemma_exact_div(x, p);
    lemma_exact_div(y, p);
    let a = x / p;
    let b = y / p;
    assert(x + y == (a + b) * p) by (nonlinear_arith) requires x == a * p, y == b * p;
    assert(x - y == (a - b) * p) by (nonlinear_arith) requires x == a * p, y == b * p;
    lemma_div_of_multiple(a + b, p);
    lemma_div_of_multiple(a - b, p);
}

/// dividing the common factor p out of r0 < mv
pub proof fn lemma_scaled_lt(r0: int, mv: int, p: int)
    requires p >= 1, r0 % p == 0, mv % p == 0, 0 <= r0 < mv,
    ensures 0 <= r0 / p < mv / p,
{
    lemma_exact_div(r0, p);
    lemma_exact_div(mv, p);
    let r = r0 / p;
    let m = mv / p;
    assert(0 <= r < m) by (nonlinear_arith) requires r0 == r * p, mv == m * p, 0 <= r0 < mv, p >= 1;
}

