// ---- type mirrors needed by integer/src/mul/simple.rs ------------------------------------------------
/// mirror of dashu_base::Sign (a plain two-variant enum; trusted type definition, no contract attached)
#[derive(Clone, Copy, PartialEq, Eq)]
pub enum Sign { Positive, Negative }

pub open spec fn sgn(s: Sign) -> int {
    match s { Sign::Positive => 1, Sign::Negative => -1 }
}

/// integer/src/memory.rs Memory: scratch allocator handle; the simple multiplication only passes it along
/// (parameter `_memory`), no method of it is called: opaque type, no contract attached
#[verifier::external_body]
pub struct Memory { _p: u8 }

pub proof fn lemma_sgn_mul(s: Sign, x: int)
    ensures sgn(s) * x == (match s { Sign::Positive => x, Sign::Negative => -x }),
{
    match s {
        Sign::Positive => { assert(1 * x == x); }
        Sign::Negative => { assert((-1) * x == -x); }
    }
}

/// signed carry r (= k or −k, k the carry/borrow bit) at weight p
pub proof fn lemma_signed_carry(s: Sign, r: int, k: int, p: int)
    requires r == (match s { Sign::Positive => k, Sign::Negative => -k }),
    ensures r * p == (match s { Sign::Positive => k * p, Sign::Negative => -(k * p) }),
{
    assert((-k) * p == -(k * p)) by (nonlinear_arith);
}
