// ---- basering_root_traits.rs: the traits of dashu-base the square-root routines call through (`a.normalized_sqrt_rem()`,
// `r0.div_rem(d)`, `x.sqrt_rem()`), mirrored so that the method calls of the real code resolve.  NOT trusted: the impls in the unit
// forward to the hoisted (rule D2) VERIFIED functions and Verus checks each forwarding body against the trait contract.
// TRUSTED here: u64::overflowing_add (core).
pub assume_specification [u64::overflowing_add] (a: u64, b: u64) -> (r: (u64, bool))
    ensures r.1 == (a as int + b as int > u64::MAX as int),
        r.0 as int == (if a as int + b as int > u64::MAX as int { a as int + b as int - 0x1_0000_0000_0000_0000 } else { a as int + b as int });

pub trait NormalizedRootRem: Sized {
    type OutputRoot;
    spec fn nsqrt_req(self) -> bool;
    spec fn nsqrt_post(self, r: (Self::OutputRoot, Self)) -> bool;
    fn normalized_sqrt_rem(self) -> (r: (Self::OutputRoot, Self))
        requires self.nsqrt_req(),
        ensures self.nsqrt_post(r);
}
pub trait DivRem<Rhs = Self>: Sized {
    type OutputDiv;
    type OutputRem;
    spec fn div_rem_req(self, rhs: Rhs) -> bool;
    spec fn div_rem_post(self, rhs: Rhs, r: (Self::OutputDiv, Self::OutputRem)) -> bool;
    fn div_rem(self, rhs: Rhs) -> (r: (Self::OutputDiv, Self::OutputRem))
        requires self.div_rem_req(rhs),
        ensures self.div_rem_post(rhs, r);
}
