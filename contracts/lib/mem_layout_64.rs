// ---- mem_layout_64.rs: size and alignment of Word = u64 and of usize on the verification target (x86_64 host),
// plus the modular arithmetic of the scratch-memory model with the LITERAL word size (linear arithmetic for Z3).
// `global layout` / `global size_of` are CHECKED by Verus against rustc's layout of the host target (compile-time
// assertion in the generated crate), so these are not assumptions.  Include before lib/mem_model.rs.
global size_of usize == 8;
global layout u64 is size == 8, align == 8;

/// bytes per Word
pub open spec fn wbytes() -> nat { 8 }

/// `a` rounded up to a multiple of `k`  (memory.rs:187 `start.wrapping_neg() & (align - 1)` for a power of two `k`)
pub open spec fn align_up(a: nat, k: nat) -> nat { (a + ((-(a as int)) % (k as int))) as nat }

pub proof fn lemma_word_layout()
    ensures vstd::layout::size_of::<Word>() == 8, vstd::layout::align_of::<Word>() == 8,
{}

/// taking n Words from [s, e): with q = floor((e - up(s)) / W) >= n the request fits and the rest offers q - n Words
pub proof fn lemma_take_arith(s: int, e: int, n: int)
    requires 0 <= s, 0 <= n, n <= (e - (s + ((-s) % 8))) / 8,
    ensures (s + ((-s) % 8)) + n * 8 <= e,
        (-((s + ((-s) % 8)) + n * 8)) % 8 == 0,
        (e - ((s + ((-s) % 8)) + n * 8)) / 8 == (e - (s + ((-s) % 8))) / 8 - n,
{}

/// an address that is a multiple of `al`, itself a multiple of the Word size, needs no padding
pub proof fn lemma_fresh_arith(s: int, al: int)
    requires 0 <= s, al > 0, al % 8 == 0, s % al == 0,
    ensures (-s) % 8 == 0,
{
    let k = al / 8;
    assert(al == k * 8);
    let j = s / al;
    assert(s == j * al) by (nonlinear_arith) requires s % al == 0, j == s / al, al > 0;
    assert(s == (j * k) * 8) by (nonlinear_arith) requires s == j * al, al == k * 8;
    let jk = j * k;
    assert(s == jk * 8);
}

/// size >= k * W  ==>  size / W >= k
pub proof fn lemma_div_ge(size: int, k: int)
    requires size >= k * 8,
    ensures size / 8 >= k,
{}

/// add_layout(array of t Words, b) with b aligned to 1 or W and providing k Words: W t + |b| bytes, at least (t + k) Words
pub proof fn lemma_layout_sum_arith(t: int, bsz: int, bal: int, k: int)
    requires 0 <= t, 0 <= bsz, bal == 1 || bal == 8, k <= 0 || bsz >= k * 8,
    ensures (t * 8) + ((-(t * 8)) % bal) + bsz == t * 8 + bsz,
        t + k <= 0 || t * 8 + bsz >= (t + k) * 8,
{}
