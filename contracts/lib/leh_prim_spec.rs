// ---- leh_prim_spec.rs: INCLUDE inside `pub mod primitive { use super::*; .. }` next to the FN/SIG of
// integer/lehmer/signed_extend_word.rs: spec twin of primitive.rs signed_extend_word (`when_used_as_spec` needs it in the same
// module); lets the debug assertion `y_carry == c * signed_extend_word(*x_top)` of lehmer_step become a proof obligation.
pub open spec fn leh_sew(word: Word) -> SignedDoubleWord { word as SignedDoubleWord }
