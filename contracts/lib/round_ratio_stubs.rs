// ---- round_ratio_stubs.rs: the part of dashu_int's API used by rational/src/round.rs (on top of round_int_stubs.rs).
// TRUSTED ASSUMPTIONS about dashu-int (integer/src/div_ops.rs impl_ibig_div / impl_ibig_rem / impl_ibig_divrem via
// forward_ibig_ubig_binop_to_repr: quotient truncated towards 0 with sign sign0*sign1, remainder with the sign of
// the dividend; division by zero panics -> `requires` non-zero divisor), add_ops.rs (+=, -= exact).

/// THE quotient / remainder the library computes (`/`, `%` and `div_rem` agree with each other)
pub uninterp spec fn tdiv(a: int, b: int) -> int;
pub uninterp spec fn tmod(a: int, b: int) -> int;
pub broadcast axiom fn ax_trunc_divrem(a: int, b: int)
    requires b != 0
    ensures #![trigger tdiv(a, b)] #![trigger tmod(a, b)] is_trunc_divrem(a, b, tdiv(a, b), tmod(a, b));

impl UBig {
    #[verifier::external_body]
    pub const ONE: UBig = UBig { _p: 0 };
}
pub broadcast axiom fn ubig_consts() ensures #![trigger UBig::ONE.v()] UBig::ONE.v() == 1;

// dashu_base::DivRem (base/src/ring/mod.rs)
pub trait DivRem<Rhs = Self> {
    type OutputDiv;
    type OutputRem;
    /// ghost: the divisor is non-zero (the real implementations panic on division by zero)
    spec fn div_rem_req(self, rhs: Rhs) -> bool;
    fn div_rem(self, rhs: Rhs) -> (Self::OutputDiv, Self::OutputRem)
        requires self.div_rem_req(rhs);
}
impl<'l, 'r> DivRem<&'r UBig> for &'l IBig {
    type OutputDiv = IBig;
    type OutputRem = IBig;
    open spec fn div_rem_req(self, rhs: &'r UBig) -> bool { rhs.v() != 0 }
    #[verifier::external_body]
    fn div_rem(self, rhs: &'r UBig) -> (ret: (IBig, IBig))
        ensures ret.0.v() == tdiv(self.v(), rhs.v()), ret.1.v() == tmod(self.v(), rhs.v())
    { unimplemented!() }
}
impl<'l, 'r> Div<&'r UBig> for &'l IBig {
    type Output = IBig;
    #[verifier::external_body]
    fn div(self, rhs: &'r UBig) -> IBig { unimplemented!() }
}
impl<'l, 'r> DivSpecImpl<&'r UBig> for &'l IBig {
    open spec fn obeys_div_spec() -> bool { true }
    open spec fn div_req(self, rhs: &'r UBig) -> bool { rhs.v() != 0 }
    open spec fn div_spec(self, rhs: &'r UBig) -> IBig { ibig_of(tdiv(self.v(), rhs.v())) }
}
impl<'l, 'r> Rem<&'r UBig> for &'l IBig {
    type Output = IBig;
    #[verifier::external_body]
    fn rem(self, rhs: &'r UBig) -> IBig { unimplemented!() }
}
impl<'l, 'r> RemSpecImpl<&'r UBig> for &'l IBig {
    open spec fn obeys_rem_spec() -> bool { true }
    open spec fn rem_req(self, rhs: &'r UBig) -> bool { rhs.v() != 0 }
    open spec fn rem_spec(self, rhs: &'r UBig) -> IBig { ibig_of(tmod(self.v(), rhs.v())) }
}
// (`+=` / `-=` on IBig: lib/round_int_addsub_stubs.rs)
pub broadcast group round_ratio_axioms { ax_trunc_divrem, ubig_consts }
