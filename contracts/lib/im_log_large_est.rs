// ---- im_log_large_est.rs: rule D10b stub of log_large's estimate `(log2_self / log2_base) as usize` (log.rs:239) -----------
// The estimate is ARBITRARY except for ONE TRUSTED resource claim: it is not absurdly large -- est * len(base) <= 3 * len(target)
// (the true quotient log2(target) / log2(base) is below len(target) / (len(base) - 1) <= 2 * len(target) / len(base); an estimate
// beyond that makes pow_large_base / pow_dword_base allocate more than the operands warrant).  Whether it is an under- or an
// overestimate of the logarithm is NOT assumed: the run-time guard `assert!(est_pow <= target)` and the loop decide.
pub open spec fn im_est_small(r: int, bl: int, tl: int) -> bool { r * bl <= 3 * tl }
#[verifier::external_body]
pub fn __f32_est0(log2_self: f32, log2_base: f32) -> (r: usize)
    ensures forall|ts: Seq<Word>, bs: Seq<Word>| #![trigger im_l2w(log2_self, ts), im_l2w(log2_base, bs)]
        im_l2w(log2_self, ts) && im_l2w(log2_base, bs) ==> im_est_small(r as int, bs.len() as int, ts.len() as int),
{ unimplemented!() }
