// ---- df_float_utils.rs: what float/src/utils.rs `split_bits`, `split_bits_ref`, `split_digits`, `split_digits_ref`,
// `base_as_ibig` call in dashu-int, plus the arithmetic lemmas of their proofs.
// Needs round_prelude.rs, round_int_stubs.rs (IBig / UBig with value v()), round_int_addsub_stubs.rs (IBig + IBig) and the
// word-level vocabulary inside `pub mod wl` (lib/prelude.rs: val, pw; div_word_lemmas.rs: power-of-two words).
//
// EVERY external_body contract below is a TRUSTED ASSUMPTION about dashu-int, read off the real implementation:
//   IBig::as_sign_words   ibig.rs:95 -> repr.rs:226 as_sign_slice: sign of the capacity + the magnitude words
//                         (little endian, empty for zero); "zero has a positive sign"
//   UBig::from_words      ubig.rs from_words -> Repr::from_buffer(Buffer::from(words)): the value of the words (leading
//                         zero words allowed)
//   IBig::from_parts      ibig.rs:142  `IBig(magnitude.0.with_sign(sign))`: sign * magnitude (zero stays zero)
//   IBig::from_parts_const ibig.rs: the same for a DoubleWord magnitude
//   UBig::clear_high_bits bits.rs:139 -> TypedRepr::clear_high_bits (PROVED in unit int_bits_large): value mod 2^n
//   UBig::split_bits      bits.rs:115 -> TypedRepr::split_bits (PROVED in unit int_bits_large): (value mod 2^n, value div 2^n)
//   UBig >>= usize        shift_ops.rs (repr-level >> PROVED in unit int_shift_ops): floor(value / 2^s)
//   IBig::pow             pow.rs:40 (PROVED in unit int_pow_api): value^exp
//   IBig << usize         shift_ops.rs: value * 2^s (sign kept)
//   IBig::from(i32)       convert.rs: exact
//   DivRem<IBig> for IBig / &IBig   div_ops.rs:71 forward_ibig_binop_to_repr!(.. impl_ibig_divrem) (arm PROVED in unit
//                         int_div_sign): truncating division, a zero divisor panics (precondition)
//   u64::is_power_of_two  (lib/div_word_stubs.rs) exactly one bit set; u64::trailing_zeros has a vstd specification

impl IBig {
    #[verifier::external_body]
    pub fn as_sign_words(&self) -> (r: (Sign, &[Word]))
        ensures wl::val(r.1@) == iabs(self.v()), r.1@.len() <= usize::MAX,
            r.0 == (if self.v() < 0 { Sign::Negative } else { Sign::Positive }),
    { unimplemented!() }
    #[verifier::external_body]
    pub fn from_parts(sign: Sign, magnitude: UBig) -> (r: IBig)
        ensures r.v() == sgn_apply_u(sign, magnitude.v()),
    { unimplemented!() }
    #[verifier::external_body]
    pub fn from_parts_const(sign: Sign, dword: u128) -> (r: IBig)
        ensures r.v() == sgn_apply_u(sign, dword as int),
    { unimplemented!() }
    #[verifier::external_body]
    pub fn pow(&self, exp: usize) -> (r: IBig) ensures r.v() == ipow(self.v(), exp as nat) { unimplemented!() }
}
pub open spec fn sgn_apply_u(s: Sign, m: int) -> int { match s { Sign::Positive => m, Sign::Negative => -m } }

impl UBig {
    #[verifier::external_body]
    pub fn from_words(words: &[Word]) -> (r: UBig) ensures r.v() == wl::val(words@) { unimplemented!() }
    #[verifier::external_body]
    pub fn clear_high_bits(&mut self, n: usize)
        ensures final(self).v() == old(self).v() % ipow(2, n as nat),
    { unimplemented!() }
    #[verifier::external_body]
    pub fn split_bits(self, n: usize) -> (r: (UBig, UBig))
        ensures r.0.v() == self.v() % ipow(2, n as nat), r.1.v() == self.v() / ipow(2, n as nat),
    { unimplemented!() }
}
impl core::ops::ShrAssign<usize> for UBig {
    #[verifier::external_body]
    fn shr_assign(&mut self, rhs: usize) { unimplemented!() }
}
impl vstd::std_specs::ops::ShrAssignSpecImpl<usize> for UBig {
    open spec fn obeys_shr_assign_spec() -> bool { true }
    open spec fn shr_assign_req(&self, rhs: usize) -> bool { true }
    open spec fn shr_assign_spec(&self, rhs: usize) -> &UBig { &ubig_of(self.v() / ipow(2, rhs as nat)) }
}
impl Shl<usize> for IBig {
    type Output = IBig;
    #[verifier::external_body]
    fn shl(self, rhs: usize) -> IBig { unimplemented!() }
}
impl ShlSpecImpl<usize> for IBig {
    open spec fn obeys_shl_spec() -> bool { true }
    open spec fn shl_req(self, rhs: usize) -> bool { true }
    open spec fn shl_spec(self, rhs: usize) -> IBig { ibig_of(self.v() * ipow(2, rhs as nat)) }
}
impl From<i32> for IBig {
    #[verifier::external_body]
    fn from(x: i32) -> (r: IBig) ensures r.v() == x as int { unimplemented!() }
}

// dashu_base::DivRem (trait mirrored), truncating division on IBig
pub trait DivRem<Rhs = Self> {
    type OutputDiv;
    type OutputRem;
    spec fn div_rem_req(self, rhs: Rhs) -> bool;
    spec fn div_rem_post(self, rhs: Rhs, q: Self::OutputDiv, r: Self::OutputRem) -> bool;
    fn div_rem(self, rhs: Rhs) -> (qr: (Self::OutputDiv, Self::OutputRem))
        requires self.div_rem_req(rhs) ensures self.div_rem_post(rhs, qr.0, qr.1);
}
impl DivRem<IBig> for IBig {
    type OutputDiv = IBig;
    type OutputRem = IBig;
    open spec fn div_rem_req(self, rhs: IBig) -> bool { rhs.v() != 0 }
    open spec fn div_rem_post(self, rhs: IBig, q: IBig, r: IBig) -> bool { is_trunc_divrem(self.v(), rhs.v(), q.v(), r.v()) }
    #[verifier::external_body]
    fn div_rem(self, rhs: IBig) -> (qr: (IBig, IBig)) { unimplemented!() }
}
impl<'a> DivRem<IBig> for &'a IBig {
    type OutputDiv = IBig;
    type OutputRem = IBig;
    open spec fn div_rem_req(self, rhs: IBig) -> bool { rhs.v() != 0 }
    open spec fn div_rem_post(self, rhs: IBig, q: IBig, r: IBig) -> bool { is_trunc_divrem(self.v(), rhs.v(), q.v(), r.v()) }
    #[verifier::external_body]
    fn div_rem(self, rhs: IBig) -> (qr: (IBig, IBig)) { unimplemented!() }
}

// ---- lemmas ------------------------------------------------------------------------------------------------------

pub proof fn lemma_du_ipow_add(b: int, x: nat, y: nat)
    ensures ipow(b, x + y) == ipow(b, x) * ipow(b, y)
    decreases x
{
    if x == 0 {
        assert(ipow(b, 0) == 1);
        assert(1 * ipow(b, y) == ipow(b, y));
    } else {
        lemma_du_ipow_add(b, (x - 1) as nat, y);
        let (p, q) = (ipow(b, (x - 1) as nat), ipow(b, y));
        assert(ipow(b, x + y) == b * ipow(b, (x - 1 + y) as nat));
        assert(b * (p * q) == (b * p) * q) by (nonlinear_arith);
    }
}
/// (b^x)^y == b^(x*y)
pub proof fn lemma_du_ipow_mul(b: int, x: nat, y: nat)
    ensures ipow(ipow(b, x), y) == ipow(b, x * y)
    decreases y
{
    if y == 0 {
        assert(x * 0 == 0) by (nonlinear_arith);
    } else {
        lemma_du_ipow_mul(b, x, (y - 1) as nat);
        assert(x * y == x + x * (y - 1)) by (nonlinear_arith);
        lemma_du_ipow_add(b, x, x * ((y - 1) as nat));
    }
}
/// (a*b)^e == a^e * b^e
pub proof fn lemma_du_ipow_prod(a: int, b: int, e: nat)
    ensures ipow(a * b, e) == ipow(a, e) * ipow(b, e)
    decreases e
{
    if e > 0 {
        lemma_du_ipow_prod(a, b, (e - 1) as nat);
        let (p, q) = (ipow(a, (e - 1) as nat), ipow(b, (e - 1) as nat));
        assert((a * b) * (p * q) == (a * p) * (b * q)) by (nonlinear_arith);
    } else {
        assert(1 * 1 == 1);
    }
}
/// prelude's pow2 / pw in terms of ipow
pub proof fn lemma_du_pow2_ipow(n: nat)
    ensures wl::pow2(n as int) == ipow(2, n)
    decreases n
{
    if n > 0 { lemma_du_pow2_ipow((n - 1) as nat); }
}
pub proof fn lemma_du_pw_ipow(k: nat)
    ensures wl::pw(k as int) == ipow(2, 64 * k)
    decreases k
{
    if k > 0 {
        lemma_du_pw_ipow((k - 1) as nat);
        lemma_du_ipow_add(2, 64, 64 * ((k - 1) as nat));
        lemma_du_ipow2_64();
        assert(64 + 64 * (k - 1) == 64 * k);
    } else {
        assert(64 * 0 == 0);
    }
}
pub proof fn lemma_du_ipow2_64()
    ensures ipow(2, 64) == 0x1_0000_0000_0000_0000
{
    lemma_du_ipow_add(2, 32, 32);
    lemma_du_ipow_add(2, 16, 16);
    lemma_du_ipow_add(2, 8, 8);
    lemma_du_ipow_add(2, 4, 4);
    assert(ipow(2, 4) == 16) by { reveal_with_fuel(ipow, 5); }
    assert(ipow(2, 8) == 256) by (nonlinear_arith) requires ipow(2, 8) == ipow(2, 4) * ipow(2, 4), ipow(2, 4) == 16;
    assert(ipow(2, 16) == 65536) by (nonlinear_arith) requires ipow(2, 16) == ipow(2, 8) * ipow(2, 8), ipow(2, 8) == 256;
    assert(ipow(2, 32) == 0x1_0000_0000) by (nonlinear_arith) requires ipow(2, 32) == ipow(2, 16) * ipow(2, 16), ipow(2, 16) == 65536;
    assert(ipow(2, 64) == 0x1_0000_0000_0000_0000) by (nonlinear_arith)
        requires ipow(2, 64) == ipow(2, 32) * ipow(2, 32), ipow(2, 32) == 0x1_0000_0000;
}

/// the arithmetic of split_bits_ref: A = val(words), k = n / 64 < len, r = n % 64;
/// H = val(words[k..]), M = val(words[..k+1])  ==>  H / 2^r == A / 2^n  and  M % 2^n == A % 2^n
pub proof fn lemma_du_split_words(words: Seq<Word>, n: int, k: int, r: int)
    requires 0 <= k < words.len(), n == 64 * k + r, 0 <= r < 64
    ensures
        wl::val(words.subrange(k, words.len() as int)) / ipow(2, r as nat) == wl::val(words) / ipow(2, n as nat),
        wl::val(words.subrange(0, k + 1)) % ipow(2, n as nat) == wl::val(words) % ipow(2, n as nat),
        wl::val(words) >= 0,
{
    let len = words.len() as int;
    let A = wl::val(words);
    wl::lemma_valn_bound(words, len);
    // high part
    wl::lemma_val_split(words, k);
    let L = wl::val(words.subrange(0, k));
    let H = wl::val(words.subrange(k, len));
    let P = wl::pw(k);
    wl::lemma_valn_bound(words.subrange(0, k), k);
    wl::lemma_valn_bound(words.subrange(k, len), len - k);
    wl::lemma_pw_pos(k);
    assert(A == L + P * H && 0 <= L < P);
    assert(P * H == H * P) by (nonlinear_arith);
    vstd::arithmetic::div_mod::lemma_fundamental_div_mod_converse(A, P, H, L);
    assert(A / P == H);
    lemma_du_pw_ipow(k as nat);
    lemma_du_ipow_add(2, (64 * k) as nat, r as nat);
    lemma_ipow_pos(2, r as nat);
    let R = ipow(2, r as nat);
    vstd::arithmetic::div_mod::lemma_div_denominator(A, P, R);
    assert((A / P) / R == A / (P * R));
    assert(P * R == ipow(2, n as nat));
    // low part
    wl::lemma_val_split(words, k + 1);
    let M = wl::val(words.subrange(0, k + 1));
    let H2 = wl::val(words.subrange(k + 1, len));
    let P2 = wl::pw(k + 1);
    wl::lemma_valn_bound(words.subrange(0, k + 1), k + 1);
    wl::lemma_pw_pos(k + 1);
    assert(A == M + P2 * H2 && 0 <= M < P2);
    assert(P2 * H2 == H2 * P2) by (nonlinear_arith);
    vstd::arithmetic::div_mod::lemma_fundamental_div_mod_converse(A, P2, H2, M);
    assert(A % P2 == M);
    lemma_du_pw_ipow((k + 1) as nat);
    let N = ipow(2, n as nat);
    let T = ipow(2, (64 - r) as nat);
    lemma_du_ipow_add(2, n as nat, (64 - r) as nat);
    assert(n + (64 - r) == 64 * (k + 1));
    assert(P2 == N * T);
    lemma_ipow_pos(2, n as nat);
    lemma_ipow_pos(2, (64 - r) as nat);
    vstd::arithmetic::div_mod::lemma_mod_mod(A, N, T);
    assert((A % (N * T)) % N == A % N);
}

/// n / 64 >= len  ==>  the whole magnitude is below 2^n
pub proof fn lemma_du_small(words: Seq<Word>, n: nat)
    requires n / 64 >= words.len()
    ensures 0 <= wl::val(words) < ipow(2, n)
{
    let len = words.len();
    wl::lemma_valn_bound(words, len as int);
    lemma_du_pw_ipow(len);
    lemma_du_ipow_add(2, 64 * len, (n - 64 * len) as nat);
    lemma_ipow_pos(2, (n - 64 * len) as nat);
    let (a, b) = (ipow(2, 64 * len), ipow(2, (n - 64 * len) as nat));
    assert(a * b >= a) by (nonlinear_arith) requires a >= 0, b >= 1;
}

/// sign * (A div D), sign * (A mod D) is the truncating division of sign * A by D (A >= 0, D > 0)
pub proof fn lemma_du_trunc_signed(s: Sign, A: int, D: int)
    requires A >= 0, D > 0
    ensures is_trunc_divrem(sgn_apply_u(s, A), D, sgn_apply_u(s, A / D), sgn_apply_u(s, A % D))
{
    vstd::arithmetic::div_mod::lemma_fundamental_div_mod(A, D);
    vstd::arithmetic::div_mod::lemma_mod_pos_bound(A, D);
    let (q, r) = (A / D, A % D);
    assert(D * q == q * D) by (nonlinear_arith);
    assert((-q) * D == -(q * D)) by (nonlinear_arith);
    vstd::arithmetic::div_mod::lemma_div_pos_is_pos(A, D);
}

/// base 10 = 2 * 5: v = q1*2^p + r1 (truncating), q1 = q*5^p + r2 (truncating)  ==>  v = q*10^p + (r2*2^p + r1) (truncating)
pub proof fn lemma_du_split10(v: int, p: nat, q1: int, r1: int, q: int, r2: int)
    requires is_trunc_divrem(v, ipow(2, p), q1, r1), is_trunc_divrem(q1, ipow(5, p), q, r2)
    ensures is_trunc_divrem(v, ipow(10, p), q, r2 * ipow(2, p) + r1)
{
    let (T, F) = (ipow(2, p), ipow(5, p));
    lemma_ipow_pos(2, p);
    lemma_ipow_pos(5, p);
    lemma_du_ipow_prod(5, 2, p);
    assert(5 * 2 == 10);
    let D = ipow(10, p);
    assert(D == F * T);
    let r = r2 * T + r1;
    assert(v == q * D + r) by (nonlinear_arith)
        requires v == q1 * T + r1, q1 == q * F + r2, D == F * T, r == r2 * T + r1;
    // signs: q1 has the sign of v (or is zero), so r2 and r1 never have opposite signs
    assert(v > 0 ==> q1 >= 0) by (nonlinear_arith) requires v == q1 * T + r1, -T < r1 < T, T >= 1;
    assert(v < 0 ==> q1 <= 0) by (nonlinear_arith) requires v == q1 * T + r1, -T < r1 < T, T >= 1;
    assert(v == 0 ==> q1 == 0 && r1 == 0) by (nonlinear_arith) requires v == q1 * T + r1, -T < r1 < T, T >= 1, (r1 == 0 || (r1 > 0) == (v > 0));
    assert(q1 == 0 ==> r2 == 0) by (nonlinear_arith) requires q1 == q * F + r2, -F < r2 < F, F >= 1;
    if v >= 0 {
        assert(r1 >= 0 && r2 >= 0);
        assert(0 <= r && r < D) by (nonlinear_arith)
            requires r == r2 * T + r1, 0 <= r2 <= F - 1, 0 <= r1 <= T - 1, D == F * T, T >= 1;
        assert(v == 0 ==> r == 0) by (nonlinear_arith) requires v == q * D + r, 0 <= r < D, q1 == q * F + r2, v == 0 ==> q1 == 0 && r1 == 0,
            0 <= r2 < F, r == r2 * T + r1, F >= 1;
    } else {
        assert(r1 <= 0 && r2 <= 0);
        assert(-D < r && r <= 0) by (nonlinear_arith)
            requires r == r2 * T + r1, -(F - 1) <= r2 <= 0, -(T - 1) <= r1 <= 0, D == F * T, T >= 1;
    }
}

/// B is a power of two with t trailing zeros: B^pos == 2^(pos * t)
pub proof fn lemma_du_pow2_base(b: u64, pos: nat)
    requires b != 0, (b & ((b - 1) as u64)) == 0
    ensures vstd::std_specs::bits::u64_trailing_zeros(b) < 64,
        b >= 2 ==> vstd::std_specs::bits::u64_trailing_zeros(b) >= 1,
        ipow(b as int, pos) == ipow(2, pos * (vstd::std_specs::bits::u64_trailing_zeros(b) as nat)),
        pos * (vstd::std_specs::bits::u64_trailing_zeros(b) as nat) <= pos * 64,
        b >= 2 && pos >= 1 ==> pos * (vstd::std_specs::bits::u64_trailing_zeros(b) as nat) >= 1,
{
    let tt = vstd::std_specs::bits::u64_trailing_zeros(b) as nat;
    assert(tt < 64 ==> pos * tt <= pos * 64) by (nonlinear_arith);
    assert(tt >= 1 && pos >= 1 ==> pos * tt >= 1) by (nonlinear_arith);
    assert(wl::pow2(0) == 1);
    let t = vstd::std_specs::bits::u64_trailing_zeros(b);
    wl::lemma_dw_pow2_word(b);
    lemma_du_pow2_ipow(t as nat);
    lemma_du_ipow_mul(2, t as nat, pos);
    assert((t as nat) * pos == pos * (t as nat)) by (nonlinear_arith);
}
