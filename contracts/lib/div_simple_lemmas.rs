// ---- lemmas for integer/src/div/simple.rs (Knuth 4.3.1 D with a 3-by-2 quotient estimate) ------------------
// All statements are over mathematical integers; B() is the word base, pw(k) = B^k.

/// a sequence of n >= 2 words seen as (low n-2 words) + (top two words)·B^(n-2)
pub proof fn lemma_ds_top2(s: Seq<Word>)
    requires s.len() >= 2,
    ensures
        val(s) == valn(s, s.len() - 2) + (s[s.len() - 2] as int + (s[s.len() - 1] as int) * B()) * pw(s.len() - 2),
        0 <= valn(s, s.len() - 2) < pw(s.len() - 2),
        pw(s.len() as int) == B() * B() * pw(s.len() - 2),
        pw(s.len() - 2) >= 1,
{
    let n = s.len() as int;
    let p = pw(n - 2);
    let a = s[n - 2] as int;
    let b = s[n - 1] as int;
    assert(valn(s, n) == valn(s, n - 1) + b * pw(n - 1));
    assert(valn(s, n - 1) == valn(s, n - 2) + a * pw(n - 2));
    assert(pw(n) == B() * pw(n - 1));
    assert(pw(n - 1) == B() * pw(n - 2));
    lemma_valn_bound(s, n - 2);
    lemma_pw_pos(n - 2);
    assert(b * (B() * p) + a * p == (a + b * B()) * p) by (nonlinear_arith);
    assert(B() * (B() * p) == B() * B() * p) by (nonlinear_arith);
}

/// a sequence of n >= 1 words seen as (low n-1 words) + top word·B^(n-1)
pub proof fn lemma_ds_top1(s: Seq<Word>)
    requires s.len() >= 1,
    ensures
        val(s) == valn(s, s.len() - 1) + (s[s.len() - 1] as int) * pw(s.len() - 1),
        0 <= valn(s, s.len() - 1) < pw(s.len() - 1),
        pw(s.len() as int) == B() * pw(s.len() - 1),
{
    let n = s.len() as int;
    assert(valn(s, n) == valn(s, n - 1) + (s[n - 1] as int) * pw(n - 1));
    assert(pw(n) == B() * pw(n - 1));
    lemma_valn_bound(s, n - 1);
}

/// a normalized two-word divisor d = v2 + v1·B >= B²/2: d >= B and the top word has its top bit set
pub proof fn lemma_ds_normalized(d: int, v2: int, v1: int)
    requires d >= @HALFB@ * B(), d == v2 + v1 * B(), 0 <= v2 < B(),
    ensures d >= B(), 2 * v1 >= B(),
{
    assert(@HALFB@ * B() >= B()) by (nonlinear_arith) requires B() >= 1;
    assert(v1 >= @HALFB@) by (nonlinear_arith) requires v2 + v1 * B() >= @HALFB@ * B(), v2 < B();
}

/// Quotient estimate from the top three dividend words by the top two divisor words:
/// qhat = floor(A3 / d) satisfies  (qhat − 1)·R <= A < (qhat + 1)·R, i.e. qhat is exact or one too large.
/// (A = alow + A3·P, R = rlow + d·P, 0 <= alow, rlow < P, qhat < B <= d.)
pub proof fn lemma_ds_estimate(a: int, alow: int, a3: int, r: int, rlow: int, d: int, p: int, qhat: int)
    requires
        p >= 1, 0 <= alow < p, 0 <= rlow < p, a3 >= 0, d >= B(),
        a == alow + a3 * p, r == rlow + d * p,
        qhat == a3 / d, qhat < B(),
    ensures (qhat - 1) * r <= a, a < (qhat + 1) * r, qhat >= 0,
{
    vstd::arithmetic::div_mod::lemma_fundamental_div_mod(a3, d);
    vstd::arithmetic::div_mod::lemma_mod_bound(a3, d);
    vstd::arithmetic::div_mod::lemma_div_pos_is_pos(a3, d);
    let r3 = a3 % d;
    let qd = qhat * d;
    assert(d * qhat == qd) by (nonlinear_arith) requires qd == qhat * d;
    assert(a3 == qd + r3);
    // upper bound: A < (A3 + 1)·P <= (qhat + 1)·d·P <= (qhat + 1)·R
    let q1 = qhat + 1;
    assert(q1 * d == qd + d) by (nonlinear_arith) requires q1 == qhat + 1, qd == qhat * d;
    assert((a3 + 1) * p <= (q1 * d) * p) by (nonlinear_arith) requires a3 + 1 <= q1 * d, p >= 1;
    assert((a3 + 1) * p == a3 * p + p) by (nonlinear_arith);
    assert(q1 * r == q1 * rlow + (q1 * d) * p) by (nonlinear_arith) requires r == rlow + d * p;
    assert(q1 * rlow >= 0) by (nonlinear_arith) requires q1 >= 0, rlow >= 0;
    // lower bound
    if qhat == 0 {
        assert(r >= 0) by (nonlinear_arith) requires r == rlow + d * p, rlow >= 0, d >= 0, p >= 1;
        assert(a3 * p >= 0) by (nonlinear_arith) requires a3 >= 0, p >= 1;
        assert((qhat - 1) * r == -r) by (nonlinear_arith) requires qhat == 0;
    } else {
        let q0 = qhat - 1;
        // (qhat−1)·R <= (qhat−1)·(d+1)·P  and  (qhat−1)·(d+1) = qhat·d + qhat − d − 1 <= qhat·d <= A3
        assert(q0 * r == q0 * rlow + (q0 * d) * p) by (nonlinear_arith) requires r == rlow + d * p;
        assert(q0 * rlow <= q0 * p) by (nonlinear_arith) requires q0 >= 0, rlow <= p;
        assert(q0 * d == qd - d) by (nonlinear_arith) requires q0 == qhat - 1, qd == qhat * d;
        assert(q0 * p + (q0 * d) * p == (q0 + q0 * d) * p) by (nonlinear_arith);
        assert((q0 + q0 * d) * p <= a3 * p) by (nonlinear_arith) requires q0 + q0 * d <= a3, p >= 1;
    }
}

/// The branch `lhs_top >= rhs_top`: the estimate MAX = B − 1 is exact or one too large
/// (A >= u0·B·P1, R = rl + v1·P1 with rl < P1, u0 >= v1 >= B/2, A < R·B).
pub proof fn lemma_ds_estimate_max(a: int, u0: int, r: int, rl: int, v1: int, p1: int)
    requires
        p1 >= 1, 0 <= rl < p1, r == rl + v1 * p1, u0 >= v1, 2 * v1 >= B(),
        a >= u0 * (B() * p1), a < r * B(),
    ensures (B() - 2) * r <= a, a < B() * r,
{
    let b2 = B() - 2;
    assert(r * B() == B() * r) by (nonlinear_arith);
    assert(b2 * r == b2 * rl + (b2 * v1) * p1) by (nonlinear_arith) requires r == rl + v1 * p1;
    assert(b2 * rl <= b2 * p1) by (nonlinear_arith) requires b2 >= 0, rl <= p1;
    assert(b2 * p1 + (b2 * v1) * p1 == (b2 + b2 * v1) * p1) by (nonlinear_arith);
    assert(b2 * v1 == B() * v1 - 2 * v1) by (nonlinear_arith) requires b2 == B() - 2;
    assert(B() * v1 <= B() * u0) by (nonlinear_arith) requires v1 <= u0;
    let bu = B() * u0;
    assert((b2 + b2 * v1) * p1 <= bu * p1) by (nonlinear_arith) requires b2 + b2 * v1 <= bu, p1 >= 1;
    assert(u0 * (B() * p1) == bu * p1) by (nonlinear_arith) requires bu == B() * u0;
}

/// What the borrow of `lhs_lo[top n] -= qhat·rhs` tells about qhat:
/// L1 − borrow·Bn == L − qhat·R with A = u0·Bn + L and (qhat−1)·R <= A < (qhat+1)·R.
pub proof fn lemma_ds_borrow(a: int, u0: int, l: int, l1: int, borrow: int, qhat: int, r: int, bn: int)
    requires
        0 <= l1 < bn, 0 < r < bn, a >= 0, a == u0 * bn + l,
        l1 - borrow * bn == l - qhat * r,
        (qhat - 1) * r <= a, a < (qhat + 1) * r,
    ensures
        borrow == u0 || borrow == u0 + 1,
        borrow == u0 ==> l1 < r && a == qhat * r + l1,
        borrow == u0 + 1 ==> qhat >= 1 && l1 + r >= bn && l1 + r - bn < r && a == (qhat - 1) * r + (l1 + r - bn),
{
    let k = u0 - borrow;
    let dd = a - qhat * r;
    assert((qhat - 1) * r == qhat * r - r) by (nonlinear_arith);
    assert((qhat + 1) * r == qhat * r + r) by (nonlinear_arith);
    assert(-r <= dd < r);
    assert(k * bn == u0 * bn - borrow * bn) by (nonlinear_arith) requires k == u0 - borrow;
    assert(dd == k * bn + l1);
    assert(k > -2) by (nonlinear_arith) requires k * bn > -2 * bn, bn > 0;
    assert(k < 1) by (nonlinear_arith) requires k * bn < bn, bn > 0;
    if k == 0 {
        assert(k * bn == 0) by (nonlinear_arith) requires k == 0;
    } else {
        assert(k * bn == -bn) by (nonlinear_arith) requires k == -1;
        if qhat <= 0 {
            assert(qhat * r <= 0) by (nonlinear_arith) requires qhat <= 0, r > 0;
        }
    }
}

/// the n words starting at position k of a sequence, weighted: val(s) = valn(s, k) + B^k · val(s[k..])
pub proof fn lemma_ds_split_top(s: Seq<Word>, k: int)
    requires 0 <= k <= s.len(),
    ensures val(s) == valn(s, k) + pw(k) * val(s.subrange(k, s.len() as int)),
{
    lemma_valn_split(s, k, s.len() as int);
}

/// one step of the quotient loop of div_rem_in_place, on values:
/// rem = lo ++ [top] (k words), lo' agrees with lo below j = k−1−n and its top n words hold the new remainder.
pub proof fn lemma_ds_loop_step(v1: int, vrem: int, vlo_low: int, a: int, q: int, r: int, newtop: int, vlo1: int,
    vsuf: int, pj: int, pk: int)
    requires
        v1 == vrem + (vsuf * pk) * r,
        vrem == vlo_low + pj * a,
        a == q * r + newtop,
        vlo1 == vlo_low + pj * newtop,
        pk == B() * pj,
    ensures v1 == vlo1 + ((q + vsuf * B()) * pj) * r,
{
    assert(pj * (q * r + newtop) == pj * newtop + (q * pj) * r) by (nonlinear_arith);
    assert((vsuf * (B() * pj)) * r == ((vsuf * B()) * pj) * r) by (nonlinear_arith);
    assert(((q + vsuf * B()) * pj) * r == (q * pj) * r + ((vsuf * B()) * pj) * r) by (nonlinear_arith);
}

/// val([q] ++ suffix) = q + B·val(suffix)
pub proof fn lemma_ds_val_cons(q: Word, suffix: Seq<Word>)
    ensures val(seq![q] + suffix) == q as int + val(suffix) * B(),
{
    let t = seq![q] + suffix;
    lemma_valn_split(t, 1, t.len() as int);
    assert(t.subrange(1, t.len() as int) =~= suffix);
    assert(valn(t, 1) == valn(t, 0) + (t[0] as int) * pw(0));
    assert(pw(0) == 1);
    assert(pw(1) == B() * pw(0));
    assert(t[0] == q);
    assert(valn(t, 0) == 0);
    assert((t[0] as int) * pw(0) == q as int) by (nonlinear_arith) requires pw(0) == 1, t[0] == q;
    assert(t.len() - 1 == suffix.len());
    assert(val(t) == valn(t, 1) + pw(1) * valn(t.subrange(1, t.len() as int), t.len() - 1));
    assert(pw(1) * val(suffix) == val(suffix) * B()) by (nonlinear_arith) requires pw(1) == B();
}

/// the window of n+1 words ending at position k, read from both ends:
/// val(s[k-1-n..k]) = val(s[k-1-n..k-1]) + s[k-1]·B^n = s[k-1-n] + B·val(s[k-n..k])
pub proof fn lemma_ds_window(s: Seq<Word>, k: int, n: int)
    requires 1 <= n, n + 1 <= k <= s.len(),
    ensures
        val(s.subrange(k - 1 - n, k)) == val(s.subrange(k - 1 - n, k - 1)) + (s[k - 1] as int) * pw(n),
        val(s.subrange(k - 1 - n, k)) == s[k - 1 - n] as int + B() * val(s.subrange(k - n, k)),
{
    let w = s.subrange(k - 1 - n, k);
    lemma_ds_top1(w);
    assert(w.subrange(0, n) =~= s.subrange(k - 1 - n, k - 1));
    lemma_valn_ext(w, w.subrange(0, n), n);
    assert(w[n] == s[k - 1]);
    lemma_valn_split(w, 1, n + 1);
    assert(w.subrange(1, n + 1) =~= s.subrange(k - n, k));
    assert(valn(w, 1) == valn(w, 0) + (w[0] as int) * pw(0));
    assert(valn(w, 0) == 0);
    assert(pw(0) == 1);
    assert(pw(1) == B() * pw(0));
    assert((w[0] as int) * pw(0) == w[0] as int) by (nonlinear_arith) requires pw(0) == 1;
    assert(w[0] == s[k - 1 - n]);
}

/// the running remainder (top n words) below the divisor ==> the next quotient word fits: a0 + B·t < r·B
pub proof fn lemma_ds_next_fits(a0: int, t: int, r: int)
    requires 0 <= a0 < B(), t < r,
    ensures a0 + B() * t < r * B(),
{
    assert(B() * t <= B() * (r - 1)) by (nonlinear_arith) requires t <= r - 1;
    assert(B() * (r - 1) == r * B() - B()) by (nonlinear_arith);
}

/// a normalized divisor (top bit of the top word set) is at least half of B^n: 2·val(rhs) >= B^n > val(rhs) > 0
pub proof fn lemma_ds_normalized_half(rhs: Seq<Word>, d: int)
    requires rhs.len() >= 2, d >= @HALFB@ * B(),
        d == rhs[rhs.len() - 2] as int + (rhs[rhs.len() - 1] as int) * B(),
    ensures 2 * val(rhs) >= pw(rhs.len() as int), 0 < val(rhs) < pw(rhs.len() as int),
{
    let n = rhs.len() as int;
    let p = pw(n - 2);
    lemma_ds_top2(rhs);
    lemma_valn_bound(rhs, n);
    assert(2 * (@HALFB@ * B()) == B() * B()) by (nonlinear_arith) requires B() == 2 * @HALFB@;
    assert((2 * d) * p >= (B() * B()) * p) by (nonlinear_arith) requires 2 * d >= B() * B(), p >= 1;
    assert((2 * d) * p == 2 * (d * p)) by (nonlinear_arith);
}
