// ---- ratio_types.rs: the data definitions of dashu-ratio (mirrored from rational/src/{repr,rbig}.rs: plain
// structs, trusted to match) and core::cmp::Ordering combinators without vstd specs.
pub struct Repr { pub numerator: IBig, pub denominator: UBig }
pub struct RBig(pub Repr);
pub struct Relaxed(pub Repr);

// TRUSTED (core): Ordering::then_with runs the closure only on Equal and returns its result; is_lt is `== Less`
pub assume_specification<F: FnOnce() -> Ordering> [Ordering::then_with] (o: Ordering, f: F) -> (r: Ordering)
    requires o == Ordering::Equal ==> f.requires(()),
    ensures o != Ordering::Equal ==> r == o, o == Ordering::Equal ==> f.ensures((), r);
pub assume_specification [Ordering::is_lt] (o: Ordering) -> (r: bool)
    ensures r == (o == Ordering::Less);
pub assume_specification [Ordering::is_le] (o: Ordering) -> (r: bool)
    ensures r == (o != Ordering::Greater);
pub assume_specification [Ordering::is_gt] (o: Ordering) -> (r: bool)
    ensures r == (o == Ordering::Greater);
pub assume_specification [Ordering::is_ge] (o: Ordering) -> (r: bool)
    ensures r == (o != Ordering::Less);
pub assume_specification [Ordering::is_eq] (o: Ordering) -> (r: bool)
    ensures r == (o == Ordering::Equal);

// the documented order of C18 over (denominator, |numerator|, sign): smaller denominator first, then smaller
// numerator magnitude, then positive before negative
pub open spec fn simpler(d1: int, n1: int, d2: int, n2: int) -> bool {
    d1 < d2 || (d1 == d2 && (rabs(n1) < rabs(n2) || (rabs(n1) == rabs(n2) && n1 >= 0 && n2 < 0)))
}
