// ---- no_prim_stubs.rs: additions to the abstract float model lib/gcdo_numord_stubs.rs used by the NumOrd-with-f32/f64 impls of
// the float, rational and integer crates (include after lib/gcdo_numord_stubs.rs, lib/no_ord_stubs.rs).  external_body = TRUSTED.
pub mod no_prim_stubs {
use super::*;
use vstd::std_specs::convert::*;
use vstd::arithmetic::power2::*;
use core::cmp::Ordering;

// dashu_base::BitTest for u64 (base/src/bit.rs `impl_bit_ops_for_uint`): bit length, at most 64
impl BitTest for u64 {
    open spec fn bit_len_spec(&self) -> int { blen(*self as int) }
    #[verifier::external_body]
    fn bit_len(&self) -> (r: usize) ensures r <= 64 { unimplemented!() }
}
// integer/src/convert.rs `impl From<i32> for IBig`, `impl From<i64> for IBig`: value-exact
impl From<i32> for IBig {
    #[verifier::external_body]
    fn from(x: i32) -> IBig { unimplemented!() }
}
impl FromSpecImpl<i32> for IBig {
    open spec fn obeys_from_spec() -> bool { true }
    open spec fn from_spec(x: i32) -> IBig { ibig_of(x as int) }
}
impl From<i64> for IBig {
    #[verifier::external_body]
    fn from(x: i64) -> IBig { unimplemented!() }
}
impl FromSpecImpl<i64> for IBig {
    open spec fn obeys_from_spec() -> bool { true }
    open spec fn from_spec(x: i64) -> IBig { ibig_of(x as int) }
}

} // mod no_prim_stubs
pub use no_prim_stubs::*;
