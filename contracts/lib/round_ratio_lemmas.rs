// ---- round_ratio_lemmas.rs
/// (q+1)*d and (q-1)*d spelled out
pub proof fn lemma_qd(q: int, d: int)
    ensures (q + 1) * d == q * d + d, (q - 1) * d == q * d - d
{
    assert((q + 1) * d == q * d + d) by (nonlinear_arith);
    assert((q - 1) * d == q * d - d) by (nonlinear_arith);
}
