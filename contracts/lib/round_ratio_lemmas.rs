// ---- round_ratio_lemmas.rs: integer facts behind rational/src/round.rs

/// t + fnum/fden == num/den, cross-multiplied (den, fden > 0)
pub open spec fn frac_sum_eq(t: int, fnum: int, fden: int, num: int, den: int) -> bool {
    t * den * fden + fnum * den == num * fden
}
/// fnum/fden is a proper fraction carrying the sign of num/den (or zero)
pub open spec fn proper_fract(fnum: int, fden: int, num: int) -> bool {
    fden > 0 && iabs(fnum) < fden && (fnum == 0 || (fnum > 0) == (num > 0))
}

/// q + r/den == num/den  (fract = r/den), and the degenerate form for r == 0 (fract = 0/1)
pub proof fn lemma_frac_sum(num: int, den: int, q: int, r: int)
    requires num == q * den + r
    ensures frac_sum_eq(q, r, den, num, den), r == 0 ==> frac_sum_eq(q, 0, 1, num, den)
{
    let qd = q * den;
    assert(qd * den + r * den == (qd + r) * den) by (nonlinear_arith);
    assert(qd * 1 + 0 * den == qd) by (nonlinear_arith);
}
