// ---- codecs_fmt_stubs.rs: the data structures of integer/src/fmt/non_power_two.rs (mirrored verbatim) and the
// specification vocabulary "number of digits that write() emits", stated on the PREPARED STRUCTURE (C07).
// Needs lib/prelude.rs (Word, pow2) and lib/div_word_stubs.rs (FastDivideNormalized).
//
// TRUSTED here: the struct mirrors (non_power_two.rs:112-116, 154-158, 225-231, 289-297; radix.rs:60-76), the opaque
// `Repr` / FastDivideSmall types and the ASSUMED contract of num_modular's PreMulInv1by1::div_rem, the two constants, and the contract of radix::radix_info (digits_per_word and range_per_word
// of a valid non-power-of-two radix: Kani group int_radix, harness vk_int_radix_info_tables, checks
// `radix^digits_per_word == range_per_word <= Word::MAX < radix^(digits_per_word+1)` for every such radix).

/// non_power_two.rs:27
pub const CHUNK_LEN: usize = 16;

/// b^e
pub open spec fn ipow(b: int, e: int) -> int
    decreases e
{
    if e <= 0 { 1 } else { b * ipow(b, e - 1) }
}

pub mod radix {
    use super::*;
    pub type Digit = u32;
    /// radix.rs:82  `max_exp_in_word(3).0 + 1`: 3^40 < 2^64 < 3^41, 3^20 < 2^32 < 3^21
    pub const MAX_WORD_DIGITS_NON_POW_2: usize = (@BITS@ / 32) * 20 + 1;
    /// radix.rs:84  `max_exp_in_dword(3).0 + 1`: 3^80 < 2^128 < 3^81, 3^40 < 2^64 < 3^41
    pub const MAX_DWORD_DIGITS_NON_POW_2: usize = (@BITS@ / 32) * 40 + 1;

    /// `FastDivideSmall = num_modular::PreMulInv1by1<Word>` (external crate num-modular 0.6.5, src/barrett.rs:39-104,
    /// Granlund-Montgomery division by an invariant divisor): NOT verified here, its documented meaning is ASSUMED:
    ///   new(divisor)      (debug_assert!(divisor > 1))
    ///   div_rem(a, d)     "(a / divisor, a % divisor)" -- `d` must be the divisor the value was built for
    #[verifier::external_body]
    #[derive(Clone, Copy)]
    pub struct FastDivideSmall { _p: u8 }
    impl FastDivideSmall {
        pub uninterp spec fn divisor(&self) -> int;
        #[verifier::external_body]
        pub const fn div_rem(&self, a: Word, d: Word) -> (r: (Word, Word))
            requires d as int == self.divisor(), d > 1,
            ensures r.0 as int == (a as int) / (d as int), r.1 as int == (a as int) % (d as int),
        { unimplemented!() }
    }

    /// radix.rs:60-76
    #[derive(Clone, Copy)]
    pub struct RadixInfo {
        pub digits_per_word: usize,
        pub range_per_word: Word,
        pub fast_div_radix: FastDivideSmall,
        pub fast_div_range_per_word: FastDivideNormalized,
    }

    /// radix.rs:23 is_radix_valid, and "not a power of two" (every caller in non_power_two.rs debug-asserts both)
    pub open spec fn radix_ok(radix: Digit) -> bool {
        2 <= radix <= 36 && radix != 2 && radix != 4 && radix != 8 && radix != 16 && radix != 32
    }

    /// the largest k with radix^k <= Word::MAX
    pub uninterp spec fn dpw(radix: Digit) -> int;
    /// radix^dpw(radix)
    pub uninterp spec fn rpw(radix: Digit) -> int;

    #[verifier::external_body]
    pub broadcast proof fn ax_dpw(radix: Digit)
        requires radix_ok(radix),
        ensures #![trigger dpw(radix)] #![trigger rpw(radix)]
            // radix >= 3: radix^dpw <= Word::MAX < 3^MAX_WORD_DIGITS_NON_POW_2
            1 <= dpw(radix) < MAX_WORD_DIGITS_NON_POW_2, 3 <= rpw(radix) < B(),
            rpw(radix) == ipow(radix as int, dpw(radix)),
            // maximality of dpw: one more digit does not fit a word
            rpw(radix) * (radix as int) >= B(),
    {}

    /// number of leading zero bits of a word as vstd specifies `leading_zeros`
    pub open spec fn nlz(w: Word) -> int { vstd::std_specs::bits::@W@_leading_zeros(w) as int }

    /// radix.rs:90-97 radix_info -> RadixInfo::for_radix (radix.rs:100-113):
    ///   (digits_per_word, range_per_word) = max_exp_in_word(radix)
    ///   fast_div_radix = FastDivideSmall::new(radix)
    ///   fast_div_range_per_word = FastDivideNormalized::new(range_per_word << range_per_word.leading_zeros())
    #[verifier::external_body]
    pub fn radix_info(radix: Digit) -> (r: RadixInfo)
        requires radix_ok(radix),
        ensures r.digits_per_word as int == dpw(radix), r.range_per_word as int == rpw(radix),
            r.fast_div_radix.divisor() == radix as int,
            r.fast_div_range_per_word.wf(),
            r.fast_div_range_per_word.divisor() == rpw(radix) * pow2(nlz(r.range_per_word)),
    { unimplemented!() }
}
pub use radix::{Digit, radix_ok, dpw, rpw};

pub mod fmt_types {
    use super::*;

    /// the big integer stored with every big chunk / radix power: opaque here (only its position is counted)
    #[verifier::external_body]
    pub struct Repr { _p: u8 }

    /// non_power_two.rs:112-116
    pub struct PreparedWord {
        pub digits: [u8; radix::MAX_WORD_DIGITS_NON_POW_2],
        pub start_index: usize,
    }
    /// non_power_two.rs:154-158
    pub struct PreparedDword {
        pub digits: [u8; radix::MAX_DWORD_DIGITS_NON_POW_2],
        pub start_index: usize,
    }
    /// non_power_two.rs:225-231
    pub struct PreparedMedium {
        pub top_group: PreparedWord,
        pub low_groups: [Word; CHUNK_LEN],
        pub num_low_groups: usize,
        pub radix: Digit,
    }
    /// non_power_two.rs:289-297
    pub struct PreparedLarge {
        pub top_chunk: PreparedMedium,
        pub radix_powers: Vec<Repr>,
        pub big_chunks: Vec<(usize, Repr)>,
        pub radix: Digit,
    }

    // ---- what write() emits, read off the structure -------------------------------------------------------------
    // PreparedWord / PreparedDword::write pass `digits[start_index..]` to the digit writer (non_power_two.rs:149, 219)
    pub open spec fn word_wf(p: PreparedWord) -> bool { p.start_index <= radix::MAX_WORD_DIGITS_NON_POW_2 }
    pub open spec fn word_digits(p: PreparedWord) -> int { radix::MAX_WORD_DIGITS_NON_POW_2 as int - p.start_index as int }
    pub open spec fn dword_wf(p: PreparedDword) -> bool { p.start_index <= radix::MAX_DWORD_DIGITS_NON_POW_2 }
    pub open spec fn dword_digits(p: PreparedDword) -> int { radix::MAX_DWORD_DIGITS_NON_POW_2 as int - p.start_index as int }

    // PreparedMedium::write (non_power_two.rs:274-285): the top group as it is, then every low group as a word padded
    // to exactly digits_per_word digits (a group is a remainder modulo radix^digits_per_word)
    pub open spec fn medium_wf(p: PreparedMedium) -> bool {
        word_wf(p.top_group) && p.num_low_groups <= CHUNK_LEN && radix_ok(p.radix)
    }
    pub open spec fn medium_digits(p: PreparedMedium) -> int {
        word_digits(p.top_group) + (p.num_low_groups as int) * dpw(p.radix)
    }

    // PreparedLarge::write (non_power_two.rs:408-416): the top chunk, then for every stored pair (level, value), from
    // the last to the first, write_big_chunk(level, value) = 2^level chunks of CHUNK_LEN words of digits_per_word
    // digits each (non_power_two.rs:358-395) -- the LEVEL IS THE STORED ONE, not the position in the vector.
    pub open spec fn level_digits(radix: Digit, level: int) -> int { (dpw(radix) * (CHUNK_LEN as int)) * pow2(level) }
    pub open spec fn chunks_digits(radix: Digit, s: Seq<(usize, Repr)>, n: int) -> int
        decreases n
    {
        if n <= 0 { 0 } else { chunks_digits(radix, s, n - 1) + level_digits(radix, s[n - 1].0 as int) }
    }
    pub open spec fn large_wf(p: PreparedLarge) -> bool { medium_wf(p.top_chunk) && radix_ok(p.radix) }
    pub open spec fn large_digits(p: PreparedLarge) -> int {
        medium_digits(p.top_chunk) + chunks_digits(p.radix, p.big_chunks@, p.big_chunks@.len() as int)
    }
}
pub use fmt_types::*;

// ---- repr.rs:76-79 TypedReprRef, mirrored verbatim (only the two variants are used by the formatters) --------------
pub mod repr_ref {
    use super::*;
    #[derive(Clone, Copy)]
    pub enum TypedReprRef<'a> {
        RefSmall(DoubleWord),
        RefLarge(&'a [Word]),
    }
    impl<'a> TypedReprRef<'a> {
        /// the magnitude
        pub open spec fn v(&self) -> int {
            match self { TypedReprRef::RefSmall(d) => *d as int, TypedReprRef::RefLarge(w) => val(w@) }
        }
        /// a large magnitude that fits a chunk buffer: 1..=CHUNK_LEN words, top word non-zero (a large Repr is
        /// normalized, repr.rs:36-49; the length bound comes from the call sites, see PreparedMedium::new)
        pub open spec fn chunk_wf(&self) -> bool {
            match self {
                TypedReprRef::RefSmall(d) => true,
                TypedReprRef::RefLarge(w) => 1 <= w@.len() <= CHUNK_LEN && w@[w@.len() - 1] != 0,
            }
        }
    }
}
pub use repr_ref::TypedReprRef;
