// ---- basering_cbrt_est.rs: the table-driven reciprocal-cube-root ESTIMATES of <u64 / u32 as NormalizedRootRem>::normalized_cbrt_rem
// (base/src/ring/root.rs) as closed-form integer functions, and the trusted statements about them.  Needs the real table RCBRT_TAB
// in the unit (`//@@ CONST base/ring_root/rcbrt_tab.rs`).
//
// TRUSTED (explicit assumptions, NOT proved in Verus; same scheme as lib/basering_root_est.rs):
//   axiom_br_cb64_estimate: `br_cb64_ok(h)` for every high word h = n >> 32 in [2^29, 2^32) (the estimate c depends on h only):
//     no over/underflow in the estimate chain and c^3 <= h * 2^32.  Exhaustive native run: `tools/base_root_exhaust.rs cbrt64`.
//   axiom_br_cb32_estimate: `br_cb32_ok(n)` for every u32 n >= 2^29.                    `tools/base_root_exhaust.rs cbrt32`.

pub open spec fn br_rcbrt_tab() -> Seq<int> {
    seq![
        0xf6, 0xe4, 0xd4, 0xc6, 0xb9, 0xae, 0xa4, 0x9b, 0x92, 0x8a, 0x83, 0x7c, 0x76, 0x70, 0x6b, 0x66,
        0x61, 0x5c, 0x57, 0x53, 0x4f, 0x4b, 0x48, 0x44, 0x41, 0x3e, 0x3b, 0x38, 0x35, 0x32, 0x2f, 0x2d,
        0x2a, 0x28, 0x25, 0x23, 0x21, 0x1f, 0x1d, 0x1b, 0x19, 0x17, 0x15, 0x13, 0x11, 0x10, 0x0e, 0x0c,
        0x0b, 0x09, 0x08, 0x06, 0x05, 0x03, 0x02, 0x01int
    ]
}
pub open spec fn br_cp32() -> int { 0x1_0000_0000 }

// ---- u64: h = n >> 32 ---------------------------------------------------------------------------------------------------------
pub open spec fn br_cb64_adj(h: int) -> bool { h >= 0x8000_0000 }
pub open spec fn br_cb64_n32(h: int) -> int { if br_cb64_adj(h) { h / 8 } else { h } }
pub open spec fn br_cb64_r0(h: int) -> int { 0x100 + br_rcbrt_tab()[br_cb64_n32(h) / 0x200_0000 - 8] }
pub open spec fn br_cb64_w1(h: int) -> int { (br_cb64_n32(h) * (br_cb64_r0(h) * br_cb64_r0(h) * br_cb64_r0(h))) / br_cp32() }
pub open spec fn br_cb64_r1(h: int) -> int { br_cb64_r0(h) * ((0x200_0000 - br_cb64_w1(h)) / 3) }
pub open spec fn br_cb64_w3(h: int) -> int {
    (br_cb64_r1(h) * ((br_cb64_r1(h) * ((br_cb64_r1(h) * br_cb64_n32(h)) / br_cp32())) / br_cp32())) / br_cp32()
}
pub open spec fn br_cb64_r2(h: int) -> int { ((br_cb64_r1(h) * (0x4000_0000 - br_cb64_w3(h))) / br_cp32()) / 3 }
pub open spec fn br_cb64_r4(h: int) -> int { (if br_cb64_adj(h) { br_cb64_r2(h) / 2 } else { br_cb64_r2(h) }) - 1 }
pub open spec fn br_cb64_c(h: int) -> int { (br_cb64_r4(h) * ((br_cb64_r4(h) * h) / br_cp32())) / br_cp32() }

pub open spec fn br_cb64_ok(h: int) -> bool {
    &&& 8 <= br_cb64_n32(h) / 0x200_0000 < 64
    &&& 0 <= br_cb64_w1(h) <= 0x200_0000                       // step 2 does not underflow
    &&& 0 <= br_cb64_r1(h) < br_cp32()                          // `r * (t / 3)` does not overflow
    &&& 0 <= br_cb64_w3(h) <= 0x4000_0000                      // step 3 does not underflow
    &&& br_cb64_r4(h) >= 0                                      // `r - 1` does not underflow
    &&& 0 <= br_cb64_c(h)
    &&& br_cube(br_cb64_c(h)) <= h * br_cp32()                  // c is an underestimate of the cube root of every n of the class
}

#[verifier::external_body]
pub proof fn axiom_br_cb64_estimate(h: int)
    requires 0x2000_0000 <= h < 0x1_0000_0000,
    ensures br_cb64_ok(h),
{
}

pub proof fn lemma_br_cb64_bits(n: u64)
    requires n >= 0x2000_0000_0000_0000,
    ensures (vstd::std_specs::bits::u64_leading_zeros(n) == 0) == (n >= 0x8000_0000_0000_0000),
        vstd::std_specs::bits::u64_leading_zeros(n) <= 2,
        ((n >> 32u32) as u32) as int == (n as int) / 0x1_0000_0000, (n >> 32u32) as u32 >= 0x2000_0000,
        ((n >> 32u8) as u32) as int == (n as int) / 0x1_0000_0000,
        ((n >> 35u8) as u32) as int == ((n as int) / 0x1_0000_0000) / 8,
        n as int == ((n as int) / 0x1_0000_0000) * 0x1_0000_0000 + (n as int) % 0x1_0000_0000,
{
    let z = vstd::std_specs::bits::u64_leading_zeros(n);
    vstd::std_specs::bits::axiom_u64_leading_zeros(n);
    if z >= 1 {
        let zz = z as u64;
        let up = (64 - z) as u64;
        assert(sub(64u64, zz) == up);
        assert(n >> up == 0);
        assert(n < 0x8000_0000_0000_0000 && up >= 62) by (bit_vector) requires n >> up == 0, 1 <= up <= 63, n >= 0x2000_0000_0000_0000u64;
    } else {
        let top = 63u64;
        assert(sub(63u64, z as u64) == top);
        assert(((n >> top) & 1) != 0);
        assert(n >= 0x8000_0000_0000_0000) by (bit_vector) requires ((n >> 63u64) & 1) != 0;
    }
    assert((n >> 32u32) == n / 0x1_0000_0000 && (n >> 32u32) <= 0xffff_ffff && (n >> 32u32) >= 0x2000_0000
           && (n >> 32u8) == (n >> 32u32) && (n >> 35u8) == (n / 0x1_0000_0000) / 8 && (n >> 35u8) <= 0xffff_ffff) by (bit_vector)
        requires n >= 0x2000_0000_0000_0000u64;
    vstd::arithmetic::div_mod::lemma_fundamental_div_mod(n as int, 0x1_0000_0000);
}

pub proof fn lemma_br_cb_or100(t: u8, r0: u32)
    requires r0 == 0x100 | t as u32,
    ensures r0 as int == 0x100 + t as int, r0 < 512,
{
    assert(r0 == 0x100 + t as u32 && r0 < 512) by (bit_vector) requires r0 == 0x100 | t as u32;
}

pub proof fn lemma_br_cb_shr_small(r: u32, n32: u32)
    ensures (r >> 0u8) == r, (r >> 1u8) as int == (r as int) / 2, (n32 >> 25u32) as int == (n32 as int) / 0x200_0000,
        (4u32 << 23) == 0x200_0000u32, (4u32 << 28) == 0x4000_0000u32,
{
    assert((r >> 0u8) == r) by (bit_vector);
    assert((r >> 1u8) == r / 2) by (bit_vector);
    assert((n32 >> 25u32) == n32 / 0x200_0000) by (bit_vector);
    assert((4u32 << 23) == 0x200_0000u32) by (bit_vector);
    assert((4u32 << 28) == 0x4000_0000u32) by (bit_vector);
}

// ---- machine-word facts of <u128 as NormalizedRootRem>::normalized_cbrt_rem (bit_vector) -----------------------------------------
pub proof fn lemma_br_cb128_bits(n: u128)
    requires n >= 0x2000_0000_0000_0000_0000_0000_0000_0000,
    ensures (dd_lz(n) > 0) == (n < 0x8000_0000_0000_0000_0000_0000_0000_0000), dd_lz(n) <= 2,
        n < 0x8000_0000_0000_0000_0000_0000_0000_0000 ==> (n >> 63u32) <= 0xffff_ffff_ffff_ffff && (n >> 63u32) >= 0x4000_0000_0000_0000
            && (((n >> 63u32) as u64) >> 3u32) as int == (n as int) / 0x4_0000_0000_0000_0000,
        n >= 0x8000_0000_0000_0000_0000_0000_0000_0000 ==> (n >> 66u32) >= 0x2000_0000_0000_0000,
        ((n >> 66u32) as u64) as int == (n as int) / 0x4_0000_0000_0000_0000,
        0x800_0000_0000_0000 <= (n as int) / 0x4_0000_0000_0000_0000 < 0x4000_0000_0000_0000,
        ((n >> 44u32) & 0x3f_ffffu128) < 0x40_0000, (n & 0xfff_ffff_ffffu128) < 0x1000_0000_0000,
        n as int == ((n as int) / 0x4_0000_0000_0000_0000) * 0x4_0000_0000_0000_0000 + (((n >> 44u32) & 0x3f_ffffu128) as int) * 0x1000_0000_0000
                    + ((n & 0xfff_ffff_ffffu128) as int),
{
    let z = dd_lz(n);
    axiom_dd_lz(n);
    if z >= 1 {
        let up = (128 - z) as u128;
        assert(n >> up == 0);
        assert(n < 0x8000_0000_0000_0000_0000_0000_0000_0000 && up >= 126) by (bit_vector)
            requires n >> up == 0, 1 <= up <= 127, n >= 0x2000_0000_0000_0000_0000_0000_0000_0000u128;
    } else {
        assert(((n >> 127u128) & 1) == 1);
        assert(n >= 0x8000_0000_0000_0000_0000_0000_0000_0000) by (bit_vector) requires ((n >> 127u128) & 1) == 1;
    }
    let a66 = n >> 66u32;
    let b2 = (n >> 44u32) & 0x3f_ffffu128;
    let low = n & 0xfff_ffff_ffffu128;
    assert(a66 == n / 0x4_0000_0000_0000_0000u128 && a66 <= 0x3fff_ffff_ffff_ffff && a66 >= 0x800_0000_0000_0000
           && b2 < 0x40_0000 && low < 0x1000_0000_0000
           && n == a66 * 0x4_0000_0000_0000_0000u128 + b2 * 0x1000_0000_0000u128 + low) by (bit_vector)
        requires a66 == n >> 66u32, b2 == (n >> 44u32) & 0x3f_ffffu128, low == n & 0xfff_ffff_ffffu128, n >= 0x2000_0000_0000_0000_0000_0000_0000_0000u128;
    if n < 0x8000_0000_0000_0000_0000_0000_0000_0000 {
        let a63 = n >> 63u32;
        assert(a63 <= 0xffff_ffff_ffff_ffffu128 && a63 >= 0x4000_0000_0000_0000u128 && (a63 >> 3u32) == (n >> 66u32)) by (bit_vector)
            requires a63 == n >> 63u32, n < 0x8000_0000_0000_0000_0000_0000_0000_0000u128, n >= 0x2000_0000_0000_0000_0000_0000_0000_0000u128;
        let a64 = a63 as u64;
        assert(((a64 >> 3u32) as u128) == (a63 >> 3u32)) by (bit_vector) requires a64 == a63 as u64, a63 <= 0xffff_ffff_ffff_ffffu128;
    } else {
        assert(a66 >= 0x2000_0000_0000_0000u128) by (bit_vector) requires a66 == n >> 66u32, n >= 0x8000_0000_0000_0000_0000_0000_0000_0000u128;
    }
}

pub proof fn lemma_br_cb128_words(r1: u64, b2: u128, c1: u32, u: u128, low: u128, c3: u128)
    requires b2 < 0x40_0000, u < 0x1_0000_0000_0000_0000_0000, low < 0x1000_0000_0000, c3 as int == 3 * (c1 as int),
    ensures (((r1 as u128) << 22u32) | b2) as int == (r1 as int) * 0x40_0000 + b2 as int,
        ((c1 as u64) << 22u32) as int == (c1 as int) * 0x40_0000,
        ((u << 44u32) | low) as int == (u as int) * 0x1000_0000_0000 + low as int,
        (c3 << 22u32) as int == 3 * (c1 as int) * 0x40_0000,
        (1u128 << 22u32) == 0x40_0000u128, (1u128 << 44u32) == 0x1000_0000_0000u128,
{
    let r = r1 as u128;
    assert(((r << 22u32) | b2) == r * 0x40_0000 + b2) by (bit_vector) requires r <= 0xffff_ffff_ffff_ffffu128, b2 < 0x40_0000u128;
    let c = c1 as u64;
    assert((c << 22u32) == c * 0x40_0000) by (bit_vector) requires c <= 0xffff_ffffu64;
    assert(((u << 44u32) | low) == u * 0x1000_0000_0000 + low) by (bit_vector) requires u < 0x1_0000_0000_0000_0000_0000u128, low < 0x1000_0000_0000u128;
    assert((c3 << 22u32) == c3 * 0x40_0000) by (bit_vector) requires c3 <= 0x3_0000_0000u128;
    assert((1u128 << 22u32) == 0x40_0000u128 && (1u128 << 44u32) == 0x1000_0000_0000u128) by (bit_vector);
}

// ---- u32: the estimate depends on all of n ------------------------------------------------------------------------------------------
pub open spec fn br_cb32_adj(n: int) -> bool { n >= 0x4000_0000 }
pub open spec fn br_cb32_n16(n: int) -> int { if br_cb32_adj(n) { n / 0x8_0000 } else { n / 0x1_0000 } }
pub open spec fn br_cb32_r0(n: int) -> int { 0x100 + br_rcbrt_tab()[br_cb32_n16(n) / 0x100 - 8] }
pub open spec fn br_cb32_r3(n: int) -> int { (br_cb32_r0(n) * br_cb32_r0(n) * br_cb32_r0(n)) / 0x800 }
pub open spec fn br_cb32_w(n: int) -> int { (br_cb32_n16(n) * br_cb32_r3(n)) / 0x1_0000 }
pub open spec fn br_cb32_r1(n: int) -> int { ((br_cb32_r0(n) * (0x2000 - br_cb32_w(n))) / 3) / 16 }
pub open spec fn br_cb32_r(n: int) -> int { (if br_cb32_adj(n) { br_cb32_r1(n) / 2 } else { br_cb32_r1(n) }) - 10 }
pub open spec fn br_cb32_c(n: int) -> int { ((br_cb32_r(n) * ((br_cb32_r(n) * (n / 0x1_0000)) / 0x1_0000)) / 0x1_0000) / 4 }

pub open spec fn br_cb32_ok(n: int) -> bool {
    &&& 8 <= br_cb32_n16(n) / 0x100 < 64
    &&& br_cb32_r3(n) < 0x1_0000                                // `r3 as u16` loses nothing
    &&& 0 <= br_cb32_w(n) <= 0x2000                             // `(4 << 11) - ..` does not underflow
    &&& 0 <= br_cb32_r1(n) < 0x1_0000                           // `.. as u16` loses nothing
    &&& br_cb32_r(n) >= 0                                       // `r - 10` does not underflow
    &&& 0 <= br_cb32_c(n)
    &&& br_cube(br_cb32_c(n)) <= n                              // c is an underestimate of the cube root
}

#[verifier::external_body]
pub proof fn axiom_br_cb32_estimate(n: int)
    requires 0x2000_0000 <= n < 0x1_0000_0000,
    ensures br_cb32_ok(n),
{
}

pub proof fn lemma_br_cb32_bits(n: u32)
    requires n >= 0x2000_0000,
    ensures (vstd::std_specs::bits::u32_leading_zeros(n) < 2) == (n >= 0x4000_0000),
        vstd::std_specs::bits::u32_leading_zeros(n) <= 2,
        ((n >> 16u32) as u16) as int == (n as int) / 0x1_0000,
        ((n >> 16u8) as u16) as int == (n as int) / 0x1_0000,
        n >= 0x4000_0000 ==> ((n >> 19u8) as u16) as int == (n as int) / 0x8_0000,
{
    let z = vstd::std_specs::bits::u32_leading_zeros(n);
    vstd::std_specs::bits::axiom_u32_leading_zeros(n);
    if z >= 1 {
        let zz = z as u32;
        let up = (32 - z) as u32;
        assert(sub(32u32, zz) == up);
        assert(n >> up == 0);
        assert(up >= 30 && (up == 30 ==> n < 0x4000_0000) && (up == 31 ==> n < 0x8000_0000)) by (bit_vector)
            requires n >> up == 0, 1 <= up <= 31, n >= 0x2000_0000u32;
        let top = (31 - z) as u32;
        assert(sub(31u32, zz) == top);
        assert(((n >> top) & 1) != 0);
        assert(top == 30 ==> n >= 0x4000_0000) by (bit_vector) requires ((n >> top) & 1) != 0, top <= 30;
    } else {
        assert(sub(31u32, z as u32) == 31u32);
        assert(((n >> 31u32) & 1) != 0);
        assert(n >= 0x8000_0000) by (bit_vector) requires ((n >> 31u32) & 1) != 0;
    }
    assert((n >> 16u32) == n / 0x1_0000 && (n >> 16u32) <= 0xffff && (n >> 16u8) == (n >> 16u32)
           && (n >> 19u8) == n / 0x8_0000 && (n >> 19u8) <= 0xffff) by (bit_vector);
}

pub proof fn lemma_br_cb32_shifts(x: u32, r: u16, n16: u16, y: u32)
    ensures (x >> 11u32) as int == (x as int) / 0x800, (r >> 0u8) == r, (r >> 1u8) as int == (r as int) / 2, (r >> 2u32) as int == (r as int) / 4,
        (n16 >> 8u32) as int == (n16 as int) / 0x100, (4u16 << 11) == 0x2000u16, (y >> 4u32) as int == (y as int) / 16,
{
    assert((x >> 11u32) == x / 0x800) by (bit_vector);
    assert((r >> 0u8) == r) by (bit_vector);
    assert((r >> 1u8) == r / 2) by (bit_vector);
    assert((r >> 2u32) == r / 4) by (bit_vector);
    assert((n16 >> 8u32) == n16 / 0x100) by (bit_vector);
    assert((4u16 << 11) == 0x2000u16) by (bit_vector);
    assert((y >> 4u32) == y / 16) by (bit_vector);
}
