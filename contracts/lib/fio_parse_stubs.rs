// ---- fio_parse_stubs.rs: the string model, the documented grammar of float literals and the stubs that
// float/src/parse.rs `Repr::from_str_native` is verified against (C08 "parsing a float string yields exactly the written
// value with the precision implied by the number of written digits").
// Needs round_prelude.rs, round_int_stubs.rs, round_float_repr.rs.
//
// TRUSTED -- the string model.  Inside the unit the primitive type name `str` is SHADOWED by the opaque struct below
// (a user type named `str` takes precedence over the primitive in type position; string literals keep the primitive
// type `core::primitive::str`).  Its view is the sequence of characters; every method contract states what the
// `core::str` method of the same name does ON AN ASCII STRING (byte offsets == character positions):
//   len / is_empty / `s[a..]` / `s[..b]` / strip_prefix(char) / starts_with(&str) / find(pat) (first match) /
//   rfind(pat) (last match) / contains(pat) / matches(char).count() / parse::<isize>() / as_bytes().
// Non-ASCII input is outside this contract (the parser treats every such character as an invalid digit).

#[allow(non_camel_case_types)]
#[verifier::external_body]
pub struct str { _p: u8 }
impl View for str {
    type V = Seq<char>;
    uninterp spec fn view(&self) -> Seq<char>;
}

/// `sub` / `at`: sub-sequence and element, kept OPAQUE in the verified function (the sequence axioms of vstd are used
/// only inside the small lemmas at the end of this file, never in the big function)
#[verifier::opaque]
pub open spec fn sub(s: Seq<char>, a: int, b: int) -> Seq<char> { s.subrange(a, b) }
#[verifier::opaque]
pub open spec fn at(s: Seq<char>, i: int) -> char { s[i] }

/// core::str::pattern::Pattern, for the two pattern types the parser uses: a char, a reference to three chars
pub trait Pat: Sized { spec fn hit(self, c: char) -> bool; }
impl Pat for char { open spec fn hit(self, c: char) -> bool { c == self } }
impl<'a> Pat for &'a [char; 3] {
    open spec fn hit(self, c: char) -> bool { c == self@[0] || c == self@[1] || c == self@[2] }
}

/// some character of s matches the pattern
#[verifier::opaque]
pub open spec fn has_hit<P: Pat>(s: Seq<char>, p: P) -> bool { exists|i: int| 0 <= i < s.len() && p.hit(#[trigger] s[i]) }

/// core::num::IntErrorKind (mirror) / ParseIntError (opaque)
pub enum IntErrorKind { Empty, InvalidDigit, PosOverflow, NegOverflow, Zero }
#[verifier::external_body]
pub struct ParseIntError { _p: u8 }
impl ParseIntError {
    #[verifier::external_body]
    pub fn kind(&self) -> (r: &IntErrorKind) { unimplemented!() }
}
/// dashu_base::ParseError (base/src/error.rs) -- transcription
#[derive(Debug, Clone, Copy, PartialEq, Eq)]
pub enum ParseError { NoDigits, InvalidDigit, UnsupportedRadix, InconsistentRadix }

/// the meaning of `str::parse::<isize>()`: Some(value) for `[+-]? [0-9]+` within the isize range, None otherwise
pub uninterp spec fn isize_text(s: Seq<char>) -> Option<int>;
pub trait FromText: Sized { spec fn as_int(self) -> int; }
impl FromText for isize { open spec fn as_int(self) -> int { self as int } }

/// number of occurrences of c
pub open spec fn count_c(s: Seq<char>, c: char) -> nat
    decreases s.len()
{
    if s.len() == 0 { 0 } else { count_c(s.drop_last(), c) + (if s.last() == c { 1nat } else { 0nat }) }
}
pub proof fn lemma_count_le(s: Seq<char>, c: char)
    ensures count_c(s, c) <= s.len()
    decreases s.len()
{
    if s.len() > 0 { lemma_count_le(s.drop_last(), c); }
}

#[verifier::external_body]
pub struct Matches { _p: u8 }
impl Matches {
    pub uninterp spec fn n(&self) -> nat;
    #[verifier::external_body]
    pub fn count(self) -> (r: usize) ensures r == self.n() { unimplemented!() }
}

impl Index<RangeFrom<usize>> for str {
    type Output = str;
    #[verifier::external_body]
    fn index(&self, r: RangeFrom<usize>) -> (o: &str)
        ensures o@ == sub(self@, r.start as int, self@.len() as int), o@.len() == self@.len() - r.start
    { unimplemented!() }
}
impl IndexSpecImpl<RangeFrom<usize>> for str {
    open spec fn index_req(&self, r: &RangeFrom<usize>) -> bool { r.start <= self@.len() }
}
impl Index<RangeTo<usize>> for str {
    type Output = str;
    #[verifier::external_body]
    fn index(&self, r: RangeTo<usize>) -> (o: &str)
        ensures o@ == sub(self@, 0, r.end as int), o@.len() == r.end
    { unimplemented!() }
}
impl IndexSpecImpl<RangeTo<usize>> for str {
    open spec fn index_req(&self, r: &RangeTo<usize>) -> bool { r.end <= self@.len() }
}
impl str {
    #[verifier::external_body]
    pub fn len(&self) -> (r: usize) ensures r == self@.len() { unimplemented!() }
    #[verifier::external_body]
    pub fn is_empty(&self) -> (r: bool) ensures r == (self@.len() == 0) { unimplemented!() }
    #[verifier::external_body]
    pub fn starts_with(&self, p: &core::primitive::str) -> (r: bool)
        ensures r == (p@.len() <= self@.len() && sub(self@, 0, p@.len() as int) == p@)
    { unimplemented!() }
    #[verifier::external_body]
    pub fn strip_prefix<'a, P: Pat>(&'a self, p: P) -> (r: Option<&'a str>)
        ensures match r {
            Some(t) => self@.len() > 0 && p.hit(at(self@, 0)) && t@ == sub(self@, 1, self@.len() as int) && t@.len() == self@.len() - 1,
            None => !(self@.len() > 0 && p.hit(at(self@, 0))),
        }
    { unimplemented!() }
    /// `find` / `rfind`: the position of SOME match (that it is the first / last one is not needed: the grammar reading of
    /// the text is existential and every other candidate is rejected by the digit parser)
    #[verifier::external_body]
    pub fn find<P: Pat>(&self, p: P) -> (r: Option<usize>)
        ensures r is Some ==> r.unwrap() < self@.len() && p.hit(at(self@, r.unwrap() as int)),
    { unimplemented!() }
    #[verifier::external_body]
    pub fn rfind<P: Pat>(&self, p: P) -> (r: Option<usize>)
        ensures r is Some ==> r.unwrap() < self@.len() && p.hit(at(self@, r.unwrap() as int)),
    { unimplemented!() }
    #[verifier::external_body]
    pub fn contains<P: Pat>(&self, p: P) -> (r: bool) ensures r == has_hit(self@, p) { unimplemented!() }
    #[verifier::external_body]
    pub fn as_bytes(&self) -> (r: &[u8]) { unimplemented!() }
    #[verifier::external_body]
    pub fn matches(&self, c: char) -> (r: Matches) ensures r.n() == count_c(self@, c) { unimplemented!() }
    #[verifier::external_body]
    pub fn parse<T: FromText>(&self) -> (r: Result<T, ParseIntError>)
        ensures match r { Ok(v) => isize_text(self@) == Some(v.as_int()), Err(_) => isize_text(self@) is None }
    { unimplemented!() }
}

// ---- positional notation (the oracle of digit strings) ------------------------------------------------------------
/// value of a digit character in the 36-character alphabet, 99 for anything else
pub open spec fn digit_val(c: char) -> int {
    if '0' <= c && c <= '9' { c as int - '0' as int }
    else if 'a' <= c && c <= 'z' { c as int - 'a' as int + 10 }
    else if 'A' <= c && c <= 'Z' { c as int - 'A' as int + 10 }
    else { 99 }
}
/// only digits below the radix and separators
#[verifier::opaque]
pub open spec fn digits_ok(s: Seq<char>, radix: int) -> bool {
    forall|i: int| 0 <= i < s.len() ==> (#[trigger] s[i]) == '_' || digit_val(s[i]) < radix
}
/// number of written digits (separators not counted)
pub open spec fn ndig(s: Seq<char>) -> int { s.len() - count_c(s, '_') }
/// positional value, separators skipped
pub open spec fn dval(s: Seq<char>, radix: int) -> int
    decreases s.len()
{
    if s.len() == 0 { 0 }
    else if s.last() == '_' { dval(s.drop_last(), radix) }
    else { dval(s.drop_last(), radix) * radix + digit_val(s.last()) }
}
pub proof fn lemma_count_concat(a: Seq<char>, b: Seq<char>, c: char)
    ensures count_c(a + b, c) == count_c(a, c) + count_c(b, c)
    decreases b.len()
{
    if b.len() == 0 {
        assert(a + b =~= a);
    } else {
        assert((a + b).drop_last() =~= a + b.drop_last());
        assert((a + b).last() == b.last());
        lemma_count_concat(a, b.drop_last(), c);
    }
}
/// value(a ++ b) == value(a) * radix^(digits of b) + value(b)
pub proof fn lemma_dval_concat(a: Seq<char>, b: Seq<char>, radix: int)
    ensures dval(a + b, radix) == dval(a, radix) * ipow(radix, ndig(b) as nat) + dval(b, radix), ndig(b) >= 0
    decreases b.len()
{
    lemma_count_le(b, '_');
    if b.len() == 0 {
        assert(a + b =~= a);
        assert(ipow(radix, 0) == 1);
        assert(dval(a, radix) * 1 == dval(a, radix));
    } else {
        let b1 = b.drop_last();
        assert((a + b).drop_last() =~= a + b1);
        assert((a + b).last() == b.last());
        lemma_dval_concat(a, b1, radix);
        lemma_count_le(b1, '_');
        if b.last() != '_' {
            let (va, vb1, p) = (dval(a, radix), dval(b1, radix), ipow(radix, ndig(b1) as nat));
            assert(ndig(b) == ndig(b1) + 1);
            assert(ipow(radix, ndig(b) as nat) == radix * p);
            assert((va * p + vb1) * radix == va * (radix * p) + vb1 * radix) by (nonlinear_arith);
        } else {
            assert(ndig(b) == ndig(b1));
        }
    }
}
pub proof fn lemma_dval_empty(radix: int)
    ensures dval(Seq::<char>::empty(), radix) == 0, ndig(Seq::<char>::empty()) == 0
{}

// ---- the documented grammar (FBig::from_str_native, "# Format" and "# Precision") ------------------------------------
///   text = sign prefix ipart [ '.' fpart ] [ marker stext ]
pub struct FloatText {
    pub sign: Seq<char>,        // "", "-" or "+"
    pub prefix: Seq<char>,      // "", or "0x" / "0X" (base 2 only: hexadecimal digits, 4 bits each)
    pub ipart: Seq<char>,       // digits and '_'
    pub has_dot: bool,
    pub fpart: Seq<char>,       // digits and '_'
    pub has_scale: bool,
    pub marker: char,
    pub stext: Seq<char>,       // decimal integer, may be signed
}
pub open spec fn ft_hex(d: FloatText) -> bool { d.prefix.len() > 0 }
pub open spec fn ft_radix(b: int, d: FloatText) -> int { if ft_hex(d) { 16 } else { b } }
pub open spec fn ft_bits(d: FloatText) -> int { if ft_hex(d) { 4 } else { 1 } }
/// scale markers: `@` in every base; base 10 `e E`; base 2 `b B`, with the 0x prefix `p P`; base 8 `o O`; base 16 `h H`
pub open spec fn marker_ok(b: int, hex: bool, c: char) -> bool {
    c == '@' || (b == 10 && (c == 'e' || c == 'E')) || (b == 2 && hex && (c == 'p' || c == 'P'))
        || (b == 2 && !hex && (c == 'b' || c == 'B')) || (b == 8 && (c == 'o' || c == 'O')) || (b == 16 && (c == 'h' || c == 'H'))
}
pub open spec fn ft_text(d: FloatText) -> Seq<char> {
    d.sign + d.prefix + d.ipart + (if d.has_dot { seq!['.'] + d.fpart } else { Seq::<char>::empty() })
        + (if d.has_scale { seq![d.marker] + d.stext } else { Seq::<char>::empty() })
}
/// `src` reads as `d` in base b
pub open spec fn grammar(src: Seq<char>, b: int, d: FloatText) -> bool {
    &&& src == ft_text(d)
    &&& (d.sign.len() == 0 || d.sign == seq!['-'] || d.sign == seq!['+'])
    &&& (d.prefix.len() == 0 || (b == 2 && (d.prefix == seq!['0', 'x'] || d.prefix == seq!['0', 'X'])))
    &&& digits_ok(d.ipart, ft_radix(b, d))
    &&& digits_ok(d.fpart, ft_radix(b, d))
    &&& (!d.has_dot ==> d.fpart.len() == 0)
    &&& (d.has_scale ==> marker_ok(b, ft_hex(d), d.marker) && isize_text(d.stext) is Some)
}
pub open spec fn ft_scale(d: FloatText) -> int { if d.has_scale { isize_text(d.stext).unwrap() } else { 0 } }
/// the written significand: all digits of both parts read as one numeral, with the sign
pub open spec fn ft_mant(b: int, d: FloatText) -> int {
    let m = dval(d.ipart + d.fpart, ft_radix(b, d));
    if d.sign == seq!['-'] { -m } else { m }
}
/// value = ft_mant * B^ft_exp:  aaa.bbb@cc = aaabbb * B^(cc - len(bbb)),  0xaaa.bbbPcc = 0xaaabbb / 16^len(bbb) * 2^cc
pub open spec fn ft_exp(d: FloatText) -> int { if ft_hex(d) { ft_scale(d) - 4 * ndig(d.fpart) } else { ft_scale(d) - ndig(d.fpart) } }
/// "the precision is determined by the number of digits that are presented in the input string" (bits for 0x literals)
pub open spec fn ft_prec(d: FloatText) -> int { if ft_hex(d) { 4 * (ndig(d.ipart) + ndig(d.fpart)) } else { ndig(d.ipart) + ndig(d.fpart) } }

/// C08 for a successfully parsed text
pub open spec fn parsed_ok<const B: Word>(src: Seq<char>, repr: Repr<B>, nd: usize) -> bool {
    exists|d: FloatText| #[trigger] grammar(src, B as int, d)
        && nd as int == ft_prec(d)
        && same_value(B as int, repr.significand.v(), repr.exponent as int, ft_mant(B as int, d), ft_exp(d))
}

// ---- TRUSTED stubs of dashu-int --------------------------------------------------------------------------------------
pub const MIN_RADIX: u32 = 2;       // integer/src/radix.rs:16
pub const MAX_RADIX: u32 = 36;      // integer/src/radix.rs:19
/// "src may contain an optional `+` prefix"
pub open spec fn strip_plus(s: Seq<char>) -> Seq<char> {
    if s.len() > 0 && s[0] == '+' { s.subrange(1, s.len() as int) } else { s }
}
impl UBig {
    #[verifier::external_body]
    pub const ZERO: UBig = UBig { _p: 0 };
    #[verifier::external_body]
    pub fn is_zero(&self) -> (r: bool) ensures r == (self.v() == 0) { unimplemented!() }
    /// integer/src/parse/mod.rs `UBig::from_str_radix`: optional `+`, then digits of the radix (either letter case) and `_`
    /// separators, at least one digit; the positional value (C07: Kani groups int_parse_p2 / the parse units decide the
    /// digit loops; the contract here is ASSUMED)
    #[verifier::external_body]
    pub fn from_str_radix(src: &str, radix: u32) -> (r: Result<UBig, ParseError>)
        ensures (2 <= radix <= 36 && r is Ok) ==> digits_ok(strip_plus(src@), radix as int)
            && r.unwrap().v() == dval(strip_plus(src@), radix as int),
    { unimplemented!() }
}
pub broadcast axiom fn ubig_zero() ensures #[trigger] UBig::ZERO.v() == 0;
impl Mul<UBig> for UBig {
    type Output = UBig;
    #[verifier::external_body]
    fn mul(self, rhs: UBig) -> UBig { unimplemented!() }
}
impl MulSpecImpl<UBig> for UBig {
    open spec fn obeys_mul_spec() -> bool { true }
    open spec fn mul_req(self, rhs: UBig) -> bool { true }
    open spec fn mul_spec(self, rhs: UBig) -> UBig { ubig_of(self.v() * rhs.v()) }
}
impl Add<UBig> for UBig {
    type Output = UBig;
    #[verifier::external_body]
    fn add(self, rhs: UBig) -> UBig { unimplemented!() }
}
impl AddSpecImpl<UBig> for UBig {
    open spec fn obeys_add_spec() -> bool { true }
    open spec fn add_req(self, rhs: UBig) -> bool { true }
    open spec fn add_spec(self, rhs: UBig) -> UBig { ubig_of(self.v() + rhs.v()) }
}
/// `impl Mul<UBig> for Sign` (integer/src/sign.rs): the magnitude with the given sign
impl Mul<UBig> for Sign {
    type Output = IBig;
    #[verifier::external_body]
    fn mul(self, rhs: UBig) -> IBig { unimplemented!() }
}
impl MulSpecImpl<UBig> for Sign {
    open spec fn obeys_mul_spec() -> bool { true }
    open spec fn mul_req(self, rhs: UBig) -> bool { true }
    open spec fn mul_spec(self, rhs: UBig) -> IBig { ibig_of(if self == Sign::Negative { -rhs.v() } else { rhs.v() }) }
}

// ---- same_value: comparison after scaling to a common smaller exponent; transitivity; sign ---------------------------
pub proof fn lemma_sv_scaled(b: int, s1: int, e1: int, s2: int, e2: int, m: int)
    requires b >= 1, m <= e1, m <= e2
    ensures same_value(b, s1, e1, s2, e2) <==> s1 * ipow(b, (e1 - m) as nat) == s2 * ipow(b, (e2 - m) as nat)
{
    let p1 = ipow(b, (e1 - m) as nat);
    let p2 = ipow(b, (e2 - m) as nat);
    lemma_ipow_pos(b, (e1 - m) as nat);
    lemma_ipow_pos(b, (e2 - m) as nat);
    if e1 <= e2 {
        let d = ipow(b, (e2 - e1) as nat);
        lemma_ipow_add(b, (e2 - e1) as nat, (e1 - m) as nat);
        assert(((e2 - e1) as nat + (e1 - m) as nat) as nat == (e2 - m) as nat);
        assert(p2 == d * p1);
        assert(s2 * (d * p1) == (s2 * d) * p1) by (nonlinear_arith);
        if s1 * p1 == s2 * p2 {
            assert(s1 == s2 * d) by (nonlinear_arith) requires s1 * p1 == (s2 * d) * p1, p1 >= 1;
        }
    } else {
        let d = ipow(b, (e1 - e2) as nat);
        lemma_ipow_add(b, (e1 - e2) as nat, (e2 - m) as nat);
        assert(((e1 - e2) as nat + (e2 - m) as nat) as nat == (e1 - m) as nat);
        assert(p1 == d * p2);
        assert(s1 * (d * p2) == (s1 * d) * p2) by (nonlinear_arith);
        if s1 * p1 == s2 * p2 {
            assert(s2 == s1 * d) by (nonlinear_arith) requires (s1 * d) * p2 == s2 * p2, p2 >= 1;
        }
    }
}
pub proof fn lemma_sv_trans(b: int, s1: int, e1: int, s2: int, e2: int, s3: int, e3: int)
    requires b >= 1, same_value(b, s1, e1, s2, e2), same_value(b, s2, e2, s3, e3)
    ensures same_value(b, s1, e1, s3, e3)
{
    let m = if e1 <= e2 && e1 <= e3 { e1 } else if e2 <= e3 { e2 } else { e3 };
    lemma_sv_scaled(b, s1, e1, s2, e2, m);
    lemma_sv_scaled(b, s2, e2, s3, e3, m);
    lemma_sv_scaled(b, s1, e1, s3, e3, m);
}
/// moving k factors b from the exponent into the significand
pub proof fn lemma_sv_shift(b: int, s: int, e: int, k: nat)
    requires b >= 1
    ensures same_value(b, s, e, s * ipow(b, k), e - k)
{
    if k == 0 {
        assert(ipow(b, 0) == 1);
        assert(s * 1 == s);
        assert(s == (s * 1) * 1);
    } else {
        assert((e - (e - k)) as nat == k);
    }
}
pub proof fn lemma_sv_neg(b: int, s1: int, e1: int, s2: int, e2: int)
    requires same_value(b, s1, e1, s2, e2)
    ensures same_value(b, -s1, e1, -s2, e2)
{
    if e1 <= e2 {
        let p = ipow(b, (e2 - e1) as nat);
        assert((-s2) * p == -(s2 * p)) by (nonlinear_arith);
    } else {
        let p = ipow(b, (e1 - e2) as nat);
        assert((-s1) * p == -(s1 * p)) by (nonlinear_arith);
    }
}
/// 16^n == 2^(4n)
pub proof fn lemma_ipow_16(n: nat)
    ensures ipow(16, n) == ipow(2, 4 * n)
{
    assert(ipow(2, 4) == 16) by { reveal_with_fuel(ipow, 5); }
    lemma_ipow_mul(2, 4, n);
}

// ---- sequence bookkeeping: every fact the big function needs, proved once on plain sequences ------------------------
pub open spec fn sign_seq(c: Option<char>) -> Seq<char> { match c { Some(ch) => seq![ch], None => Seq::<char>::empty() } }
/// after the sign has been stripped
pub proof fn lemma_sign(s0: Seq<char>, s1: Seq<char>, c: Option<char>)
    requires
        match c {
            Some(ch) => s0.len() > 0 && at(s0, 0) == ch && (ch == '-' || ch == '+') && s1 == sub(s0, 1, s0.len() as int),
            None => s1 == s0,
        },
    ensures s0 == sign_seq(c) + s1,
        s1.len() == s0.len() - sign_seq(c).len(),
        (sign_seq(c) == seq!['-']) <==> c == Some('-'),
        sign_seq(c).len() == 0 || sign_seq(c) == seq!['-'] || sign_seq(c) == seq!['+'],
{
    if c == Some('+') { assert(seq!['+'][0] != seq!['-'][0]); }
    reveal(sub); reveal(at);
    match c {
        Some(ch) => { assert(s0 =~= seq![ch] + s1); },
        None => { assert(s0 =~= Seq::<char>::empty() + s1); },
    }
}
/// a text starting with the two characters of t
pub proof fn lemma_starts2(s: Seq<char>, t: Seq<char>)
    requires t.len() == 2, s.len() >= 2, sub(s, 0, 2) == t
    ensures at(s, 0) == t[0], at(s, 1) == t[1]
{
    reveal(sub); reveal(at);
    assert(s.subrange(0, 2)[0] == s[0] && s.subrange(0, 2)[1] == s[1]);
}
pub proof fn lemma_starts2_conv(s: Seq<char>, t: Seq<char>)
    requires t.len() == 2, s.len() >= 2, at(s, 0) == t[0], at(s, 1) == t[1]
    ensures sub(s, 0, 2) == t
{
    reveal(sub); reveal(at);
    assert(s.subrange(0, 2) =~= t);
}
/// cutting the scale part off at position p
pub proof fn lemma_scale_split(s1: Seq<char>, p: int)
    requires 0 <= p < s1.len()
    ensures s1 == sub(s1, 0, p) + (seq![at(s1, p)] + sub(s1, p + 1, s1.len() as int)),
        sub(s1, 0, p).len() == p,
        forall|i: int| 0 <= i < p ==> at(sub(s1, 0, p), i) == #[trigger] at(s1, i),
{
    reveal(sub); reveal(at);
    assert(s1 =~= s1.subrange(0, p) + (seq![s1[p]] + s1.subrange(p + 1, s1.len() as int)));
}
pub proof fn lemma_no_scale(s1: Seq<char>)
    ensures s1 == s1 + Seq::<char>::empty()
{
    assert(s1 =~= s1 + Seq::<char>::empty());
}
pub proof fn lemma_sub_sub(s: Seq<char>, a: int, b: int, c: int, e: int)
    requires 0 <= a <= b <= s.len(), 0 <= c <= e <= b - a
    ensures sub(sub(s, a, b), c, e) == sub(s, a + c, a + e)
{
    reveal(sub);
    assert(s.subrange(a, b).subrange(c, e) =~= s.subrange(a + c, a + e));
}
/// a part of a text without any '+' does not start with '+': the integer parser takes it as it is
pub proof fn lemma_part_no_plus(s: Seq<char>, k: int, e: int)
    requires !has_hit(s, '+'), 0 <= k <= e <= s.len()
    ensures strip_plus(sub(s, k, e)) == sub(s, k, e), sub(s, k, e).len() == e - k
{
    reveal(sub); reveal(has_hit);
    if k < e { assert(s.subrange(k, e)[0] == s[k]); assert(!'+'.hit(s[k])); }
}
pub proof fn lemma_whole_no_plus(s: Seq<char>)
    requires !has_hit(s, '+')
    ensures strip_plus(s) == s
{
    reveal(has_hit);
    if s.len() > 0 { assert(!'+'.hit(s[0])); }
}
/// the mantissa region of the text: [prefix of k characters] ipart [ '.' fpart ]
pub open spec fn body_of(pre: Seq<char>, gi: Seq<char>, gdot: bool, gf: Seq<char>) -> Seq<char> {
    pre + gi + (if gdot { seq!['.'] + gf } else { Seq::<char>::empty() })
}
pub proof fn lemma_body_dot(s: Seq<char>, k: int, dot: int)
    requires 0 <= k <= dot < s.len(), at(s, dot) == '.'
    ensures s == body_of(sub(s, 0, k), sub(s, k, dot), true, sub(s, dot + 1, s.len() as int)),
        sub(s, 0, k).len() == k,
{
    reveal(sub); reveal(at);
    assert(s =~= body_of(s.subrange(0, k), s.subrange(k, dot), true, s.subrange(dot + 1, s.len() as int)));
}
pub proof fn lemma_body_nodot(s: Seq<char>, k: int)
    requires 0 <= k <= s.len()
    ensures s == body_of(sub(s, 0, k), sub(s, k, s.len() as int), false, Seq::<char>::empty()),
        sub(s, 0, k).len() == k, sub(s, 0, s.len() as int) == s,
{
    reveal(sub);
    assert(s =~= body_of(s.subrange(0, k), s.subrange(k, s.len() as int), false, Seq::<char>::empty()));
    assert(s.subrange(0, s.len() as int) =~= s);
}
pub proof fn lemma_hex_prefix(s: Seq<char>)
    requires s.len() >= 2, at(s, 0) == '0', at(s, 1) == 'x' || at(s, 1) == 'X'
    ensures sub(s, 0, 2) == seq!['0', 'x'] || sub(s, 0, 2) == seq!['0', 'X']
{
    reveal(sub); reveal(at);
    if s[1] == 'x' { assert(s.subrange(0, 2) =~= seq!['0', 'x']); } else { assert(s.subrange(0, 2) =~= seq!['0', 'X']); }
}
pub proof fn lemma_assemble(s0: Seq<char>, gsign: Seq<char>, s1: Seq<char>, s2: Seq<char>, gtail: Seq<char>,
                            pre: Seq<char>, gi: Seq<char>, gdot: bool, gf: Seq<char>)
    requires s0 == gsign + s1, s1 == s2 + gtail, s2 == body_of(pre, gi, gdot, gf)
    ensures s0 == gsign + pre + gi + (if gdot { seq!['.'] + gf } else { Seq::<char>::empty() }) + gtail
{
    assert(s0 =~= gsign + pre + gi + (if gdot { seq!['.'] + gf } else { Seq::<char>::empty() }) + gtail);
}
pub proof fn lemma_concat_empty(a: Seq<char>)
    ensures a + Seq::<char>::empty() == a
{
    assert(a + Seq::<char>::empty() =~= a);
}
/// the ASCII restriction of the string model (documentation of the domain; no fact is drawn from it)
#[verifier::opaque]
pub open spec fn ascii_text(s: Seq<char>) -> bool { forall|i: int| 0 <= i < s.len() ==> (#[trigger] s[i]) as int <= 127 }

pub proof fn lemma_digits_ok_empty(radix: int)
    ensures digits_ok(Seq::<char>::empty(), radix)
{
    reveal(digits_ok);
}

/// the arithmetic of "integer part, fraction part" -> significand, kept out of the big function:
/// value(ipart ++ fpart) == value(ipart) * B^fd + value(fpart) with fd = (bits per digit) * (digits of fpart), and an
/// all-zero fraction may stay in the exponent
pub proof fn lemma_frac_value(b: int, hex: bool, radix: int, gi: Seq<char>, gf: Seq<char>, iv: int, fv: int, fd: int, scale: int)
    requires b >= 2, hex ==> b == 2, radix == (if hex { 16 } else { b }),
        iv == dval(gi, radix), fv == dval(gf, radix), iv >= 0,
        hex ==> fd == 4 * ndig(gf), !hex ==> fd == ndig(gf),
    ensures fd >= 0, ipow(b, fd as nat) >= 1, iv * ipow(b, fd as nat) >= 0,
        dval(gi + gf, radix) == iv * ipow(b, fd as nat) + fv,
        same_value(b, iv, scale, iv * ipow(b, fd as nat), scale - fd),
        same_value(b, iv * ipow(b, fd as nat) + fv, scale - fd, iv * ipow(b, fd as nat) + fv, scale - fd),
{
    lemma_dval_concat(gi, gf, radix);
    if hex { lemma_ipow_16(ndig(gf) as nat); }
    lemma_ipow_pos(b, fd as nat);
    let p = ipow(b, fd as nat);
    assert(iv * p >= 0) by (nonlinear_arith) requires iv >= 0, p >= 1;
    lemma_sv_shift(b, iv, scale, fd as nat);
    lemma_same_value_refl(b, iv * p + fv, scale - fd);
}

/// the postcondition from an explicit reading of the text
/// resource limit: exponent overflow is a documented panic (C16), not modelled: the written value must leave
/// `Repr::new` room for the exponent (`exp_room`, lib/round_float_repr.rs): the exponent of its LEADING digit fits isize
/// under every reading of the text.  Otherwise (e.g. "10e9223372036854775807" in base 10) `normalize` overflows the
/// exponent while stripping the trailing zero digits: debug builds panic, release builds return a wrapped exponent.
#[verifier::opaque]
pub open spec fn parse_room(src: Seq<char>, b: int) -> bool {
    forall|d: FloatText| #[trigger] grammar(src, b, d) ==> exp_room(ft_exp(d), ndigits(b, ft_mant(b, d)) as int)
}
/// the significand / exponent pair (sv, e) handed to `Repr::new` denotes the written value: it has room
pub proof fn lemma_parse_room(src: Seq<char>, b: int, d: FloatText, sv: int, e: int)
    requires b >= 2, parse_room(src, b), grammar(src, b, d), same_value(b, sv, e, ft_mant(b, d), ft_exp(d)), e <= isize::MAX
    ensures exp_room(e, ndigits(b, sv) as int)
{
    reveal(parse_room);
    lemma_exp_room_value(b, sv, e, ft_mant(b, d), ft_exp(d));
}
pub proof fn lemma_parsed_ok<const B: Word>(src: Seq<char>, repr: Repr<B>, nd: usize, d: FloatText)
    requires grammar(src, B as int, d), nd as int == ft_prec(d),
        same_value(B as int, repr.significand.v(), repr.exponent as int, ft_mant(B as int, d), ft_exp(d)),
    ensures parsed_ok::<B>(src, repr, nd)
{}
