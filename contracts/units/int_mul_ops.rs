// unit int_mul_ops: integer/src/mul_ops.rs `mod repr`: the representation-level dispatch of UBig/IBig * and sqr over
// the verified word kernels (C01, C16, C19).
// Trusted: lib/repr_stubs.rs (Buffer / Repr), lib/mul_glue_stubs.rs (scratch memory), lib/div_dword_bits_<BITS>.rs
// (DoubleWord bit counting) and the CONTRACTS of mul::mul_dword_in_place, mul::multiply, sqr::sqr, cmp::cmp_in_place
// (annotated copies used through //@@ SIG only: their bodies are NOT verified: chunks_exact_mut, Karatsuba/Toom-3).
// mul::mul_word_in_place, shift::shl_in_place, math::mul_add_carry_dword, primitive::* are seen through the contracts
// PROVED in units int_mul_scale, int_shift, int_mul, int_prim.
#![allow(unused_imports, unused_variables, dead_code, non_snake_case, unused_mut, unused_parens, unused_braces)]
use vstd::prelude::*;
use core::cmp::Ordering;
verus! {
//@@ INCLUDE lib/prelude.rs
//@@ INCLUDE lib/sign.rs
//@@ INCLUDE lib/shift_bv.rs
//@@ INCLUDE lib/div_dword_bits_@BITS@.rs
//@@ INCLUDE lib/repr_stubs.rs
//@@ INCLUDE lib/mul_glue_stubs.rs
//@@ INCLUDE lib/word_bv_@BITS@.rs
//@@ INCLUDE lib/dispatch_lemmas.rs
//@@ INCLUDE lib/dispatch_mul_lemmas.rs
//@@ FN integer/primitive/shrink_dword.rs
//@@ SIG integer/primitive/split_dword.rs
//@@ SIG integer/primitive/extend_word.rs
pub mod math {
use super::*;
//@@ SIG integer/math/mul_add_carry_dword.rs
}
pub mod shift {
use super::*;
//@@ SIG integer/shift/shl_in_place.rs
}
pub mod cmp {
use super::*;
//@@ SIG integer/cmp/cmp_in_place.rs
}
pub mod mul {
use super::*;
//@@ SIG integer/mul/mul_word_in_place.rs
//@@ SIG integer/mul_algos/mul_dword_in_place.rs
//@@ SIG integer/mul_algos/multiply.rs
// scratch sizing: opaque (see lib/mul_glue_stubs.rs)
#[verifier::external_body]
pub fn memory_requirement_exact(total_len: usize, smaller_len: usize) -> Layout { unimplemented!() }
}
pub mod sqr {
use super::*;
//@@ SIG integer/mul_algos/sqr.rs
#[verifier::external_body]
pub fn memory_requirement_exact(len: usize) -> Layout { unimplemented!() }
}
pub mod mul_ops {
pub mod repr {
use super::super::*;
use super::super::cmp::cmp_in_place;
use core::ops::Mul;
use vstd::std_specs::ops::*;
broadcast use {crate::buffer_stub::ax_buffer_inv, crate::repr_stub::ax_repr_of};
//@@ FN integer/mul_ops/mul_dword.rs
//@@ FN integer/mul_ops/mul_dword_spilled.rs
//@@ FN integer/mul_ops/mul_large_dword.rs
//@@ FN integer/mul_ops/mul_large.rs
//@@ FN integer/mul_ops/square_dword_spilled.rs
//@@ FN integer/mul_ops/square_large.rs
//@@ FN integer/mul_ops/typedref_sqr.rs
// `impl Mul<..> for TypedRepr(Ref)`: methods hoisted to free functions (rule D2, renamed)
//@@ FN integer/mul_ops/typed_mul_vv.rs
//@@ FN integer/mul_ops/typed_mul_rv.rs
//@@ FN integer/mul_ops/typed_mul_vr.rs
//@@ FN integer/mul_ops/typed_mul_rr.rs
// D2 link: `rhs.mul(self)` inside `impl Mul<TypedReprRef> for TypedRepr` resolves to this impl, whose body IS the hoisted
// method verified above (typed_mul_rv); mul_req / mul_spec restate its contract (checked here).
impl<'l> MulSpecImpl<TypedRepr> for TypedReprRef<'l> {
    open spec fn obeys_mul_spec() -> bool { true }
    open spec fn mul_req(self, rhs: TypedRepr) -> bool {
        self.wf() && rhs.wf() && self.nwords() + rhs.nwords() <= max_capacity()
    }
    open spec fn mul_spec(self, rhs: TypedRepr) -> Repr { repr_of(self.v() * rhs.v()) }
}
impl<'l> Mul<TypedRepr> for TypedReprRef<'l> { type Output = Repr;
    fn mul(self, rhs: TypedRepr) -> Repr {
        let ghost a = self.v(); let ghost b = rhs.v();
        let r = typed_mul_rv(self, rhs);
        proof { ax_repr_ext(r, repr_of(a * b)); }
        r
    }
}
}
}
} // verus!
fn main() {}
