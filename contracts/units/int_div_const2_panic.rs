// unit int_div_const2_panic: "a zero divisor panics" for the public constructors of integer/src/div_const.rs
// (ConstDivisor::{new, from_word, from_dword}; `must_panic` variants, rule D4: with divisor == 0 no normal return is
// possible) (C02, C16).
// Trusted: as unit int_div_const2; `panic_divide_by_0() -> !` never returns (it is `panic!`).
#![feature(allocator_api)]
#![allow(unused_imports, unused_variables, dead_code, non_snake_case, unused_mut, unused_parens, unused_braces)]
use vstd::prelude::*;
verus! {
//@@ INCLUDE lib/prelude.rs
//@@ INCLUDE lib/sign.rs
//@@ INCLUDE lib/shift_bv.rs
//@@ INCLUDE lib/repr_stubs.rs
//@@ INCLUDE lib/div_word_stubs.rs
//@@ INCLUDE lib/div_dword_stubs.rs
//@@ INCLUDE lib/div_post_spec.rs
//@@ INCLUDE lib/div_ops_stubs.rs
//@@ INCLUDE lib/div_const_stubs.rs
//@@ INCLUDE lib/div_simple_lemmas.rs
//@@ INCLUDE lib/div_ops_lemmas.rs
//@@ INCLUDE lib/dc2_stubs.rs
//@@ INCLUDE lib/dc2_lemmas.rs
//@@ SIG integer/primitive/shrink_dword.rs
pub mod error {
use super::*;
//@@ SIG integer/div_ops_repr/panic_divide_by_0.rs variant=must_panic
}
use error::panic_divide_by_0;
impl ConstSingleDivisor {
//@@ SIG integer/divconst2/single_new.rs
}
impl ConstDoubleDivisor {
//@@ SIG integer/divconst2/double_new.rs
}
impl ConstLargeDivisor {
//@@ SIG integer/divconst2/large_new.rs
}
impl ConstDivisor {
//@@ FN integer/divconst2/cd_new.rs variant=must_panic
//@@ FN integer/divconst2/cd_from_word.rs variant=must_panic
//@@ FN integer/divconst2/cd_from_dword.rs variant=must_panic
}
} // verus!
fn main() {}
