// unit ratio_to_float: rational/src/convert.rs `Repr::{to_f32, to_f64}` (C06: RBig / Relaxed -> f32 / f64 is the
// correctly rounded value of numerator/denominator with a truthful flag, for ALL inputs: the quotient gets two guard bits
// and a sticky bit and `encode` performs the only rounding -- lemma_sticky_rne_q), with the real
// `Approximation::and_then` (base/src/approx.rs; no longer called by to_f32/to_f64, kept under contract) and the real
// `Sign` operators.  `encode` is seen through the contract that the Kani group base_bit proves for it.
// (History: before the repair of the double rounding and of the f64 flush-to-zero bound two known-finding regions
// were excluded by precondition.)
#![allow(unused_imports, unused_variables, dead_code, non_snake_case, unused_mut, unused_parens, unused_braces)]
use vstd::prelude::*;
use core::cmp::Ordering;
use core::ops::{Add, Sub, Mul, Div};
use vstd::std_specs::ops::*;
verus! {
//@@ INCLUDE lib/ratio_lemmas.rs
//@@ INCLUDE lib/bigstub.rs
impl Sign {
//@@ FN rational/sign/base_sign_mul.rs
//@@ FN rational/sign/base_sign_neg.rs
//@@ FN rational/sign/base_sign_cmp.rs
}
//@@ INCLUDE lib/ratio_types.rs
//@@ INCLUDE lib/conv_approx.rs
//@@ INCLUDE lib/conv_float.rs
//@@ INCLUDE lib/conv_float_ratio.rs
//@@ INCLUDE lib/conv_enc.rs
//@@ INCLUDE lib/conv_sign_float.rs
//@@ INCLUDE lib/conv_ratio_stubs.rs
pub open spec fn rd_val0<T, E>(r: Approximation<T, E>) -> T { match r { Approximation::Exact(v) => v, Approximation::Inexact(v, _) => v } }
pub open spec fn and_then_spec<T, U, E>(s: Approximation<T, E>, o: Approximation<U, E>) -> Approximation<U, E> {
    match s {
        Approximation::Exact(_) => o,
        Approximation::Inexact(_, e) => match o {
            Approximation::Exact(v2) => Approximation::Inexact(v2, e),
            Approximation::Inexact(v2, e2) => Approximation::Inexact(v2, e2),
        },
    }
}
impl<T, E> Approximation<T, E> {
//@@ FN base/approx/and_then.rs
}
impl Repr {
//@@ FN rational/convert/to_f32.rs
//@@ FN rational/convert/to_f64.rs
}
} // verus!
fn main() {}
