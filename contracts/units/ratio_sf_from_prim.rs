// unit ratio_sf_from_prim (C18, callee of simplest_from_f32 / _f64; also C06 "conversion from f32/f64 is exact"):
// rational/src/convert.rs macro impl_conversion_from_float, `impl TryFrom<$t> for Repr` for $t = f32 and f64 (rule E3b):
// NaN / infinities are rejected, +-0.0 is 0/1, every other float m * 2^e (decode) becomes the UNREDUCED fraction
// m * 2^max(e,0) / 2^max(-e,0) -- the exact form `impl_simplest_from_float` relies on.
#![allow(unused_imports, unused_variables, dead_code, non_snake_case, unused_mut, unused_parens, unused_braces)]
use vstd::prelude::*;
verus! {
//@@ INCLUDE lib/round_prelude.rs
//@@ INCLUDE lib/round_int_stubs.rs
//@@ INCLUDE lib/round_int_addsub_stubs.rs
//@@ INCLUDE lib/round_modes.rs
pub trait Round: Copy {
    /// ghost: which of the six mode definitions the implementing type stands for
    spec fn md() -> Mode;
}
//@@ INCLUDE lib/round_float_repr.rs
//@@ INCLUDE lib/conv_float.rs
//@@ INCLUDE lib/conv_enc.rs
//@@ INCLUDE lib/conv_float_stubs.rs
//@@ INCLUDE lib/conv_fbig_stubs.rs
//@@ INCLUDE lib/conv_from_prim_stubs.rs
//@@ INCLUDE lib/ebounds_stubs.rs
//@@ INCLUDE lib/ebounds_lemmas.rs
//@@ INCLUDE lib/sf_shape.rs
pub mod ratio_lemmas_m { use super::*;
//@@ INCLUDE lib/ratio_lemmas.rs
}
pub use ratio_lemmas_m::*;
pub mod ratio2_unique_lemmas_m { use super::*;
//@@ INCLUDE lib/ratio2_unique_lemmas.rs
}
pub use ratio2_unique_lemmas_m::*;
pub mod sf_q_m { use super::*;
//@@ INCLUDE lib/sf_q.rs
}
pub use sf_q_m::*;
pub mod farey_lemmas_m { use super::*;
//@@ INCLUDE lib/farey_lemmas.rs
}
pub use farey_lemmas_m::*;
pub mod simplest_lemmas_m { use super::*;
//@@ INCLUDE lib/simplest_lemmas.rs
}
pub use simplest_lemmas_m::*;
//@@ INCLUDE lib/sf_spec.rs
//@@ INCLUDE lib/sf_stubs.rs
//@@ INCLUDE lib/sf_prim_stubs.rs
//@@ INCLUDE lib/sf_from_prim_stubs.rs
use core::marker::PhantomData;
// (needed by the transcribed constants of conv_from_prim_stubs.rs only)
impl<const B: Word> Repr<B> {
//@@ SIG float/convert/repr_infinity.rs
//@@ SIG float/convert/repr_neg_infinity.rs
}
impl<R: Round> Context<R> {
//@@ SIG float/convert/context_new.rs
}
impl<R: Round, const B: Word> FBig<R, B> {
//@@ SIG float/fbig/new.rs
}
pub mod sf_lemmas_m { use super::*;
//@@ INCLUDE lib/sf_lemmas.rs
}
pub use sf_lemmas_m::*;
pub mod sf_prim_lemmas_m { use super::*;
//@@ INCLUDE lib/sf_prim_lemmas.rs
}
pub use sf_prim_lemmas_m::*;
pub mod ratio {
use super::*;
//@@ INCLUDE lib/sf_ratio_stubs.rs
//@@ INCLUDE lib/sf_ratio_prim_spec.rs
impl Repr {
// proved in unit ratio_reduce
//@@ SIG rational/repr/zero.rs
}
pub mod from_f32 { use super::*;
//@@ FN rational/simplestf/repr_try_from_prim.rs variant=f32 msubst=t:f32
}
pub mod from_f64 { use super::*;
//@@ FN rational/simplestf/repr_try_from_prim.rs variant=f64 msubst=t:f64
}
}
} // verus!
fn main() {}
