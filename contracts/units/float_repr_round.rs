// unit float_repr_round: float/src/repr.rs `Context::{repr_round, repr_round_ref}` (C03: a single rounding of an exact
// value) with the small real helpers they call; `Round::round_fract` is seen through the contract it is verified
// against in unit float_round (SIG = generated from the same annotated copy).
#![allow(unused_imports, unused_variables, dead_code, non_snake_case, unused_mut, unused_parens, unused_braces)]
use vstd::prelude::*;
verus! {
//@@ INCLUDE lib/round_prelude.rs
//@@ INCLUDE lib/round_int_stubs.rs
pub trait Round: Copy {
    /// ghost: which of the six mode definitions the implementing type stands for
    spec fn md() -> Mode;
//@@ SIG float/round/round_fract.rs
}
//@@ INCLUDE lib/round_float_repr.rs
//@@ SIG float/error/panic_operate_with_inf.rs
//@@ FN float/error/assert_finite.rs
impl<const B: Word> Repr<B> {
//@@ FN float/repr/is_infinite.rs
//@@ FN float/repr/digits.rs
}
impl<R: Round> Context<R> {
//@@ FN float/repr/is_limited.rs
//@@ FN float/repr/repr_round.rs
//@@ FN float/repr/repr_round_ref.rs
}
} // verus!
fn main() {}
