// unit int_div_multiple: integer/src/div_ops.rs `UBig::is_multiple_of`, `IBig::is_multiple_of`, their const twins
// `is_multiple_of_const` and `TypedReprRef::is_multiple_of_dword` (C02: "true exactly when the remainder is zero", for every
// size class / kernel), with the real one-line accessors UBig::{repr, is_zero}, IBig::{as_sign_repr, is_zero}.
// Kernel contracts (rem_by_word, rem_by_dword, shrink_dword, extend_word) are the ones PROVED in units int_div_word /
// int_div_dword / int_div_ops (//@@ SIG from the same annotated copies).  Trusted: lib/repr_stubs.rs (Repr accessors),
// lib/df_int_multiple.rs (`&UBig % &UBig`, `&IBig % &IBig` on the value: the forwarding macros of helper_macros.rs are not
// under contract, the arms / dispatch they forward to are proved in int_div_sign / int_div_ops).
#![allow(unused_imports, unused_variables, dead_code, non_snake_case, unused_mut, unused_parens, unused_braces)]
use vstd::prelude::*;
verus! {
//@@ INCLUDE lib/prelude.rs
//@@ INCLUDE lib/sign.rs
//@@ INCLUDE lib/repr_stubs.rs
//@@ INCLUDE lib/df_int_multiple.rs
pub mod primitive {
use super::*;
//@@ SIG integer/primitive/extend_word.rs
//@@ SIG integer/div_ops_repr/shrink_dword.rs
}
pub use primitive::shrink_dword;
pub mod div {
use super::*;
//@@ SIG integer/div/rem_by_word.rs
//@@ SIG integer/div/rem_by_dword.rs
}
impl UBig {
//@@ FN integer/div_top/ubig_repr.rs
//@@ FN integer/div_top/ubig_is_zero.rs
}
impl IBig {
//@@ FN integer/div_top/ibig_as_sign_repr.rs
//@@ FN integer/div_top/ibig_is_zero.rs
}
pub mod div_ops {
use super::*;
pub mod repr {
use super::super::*;
impl<'a> TypedReprRef<'a> {
//@@ FN integer/div_top/is_multiple_of_dword.rs
}
}
impl UBig {
//@@ FN integer/div_top/ubig_is_multiple_of.rs
//@@ FN integer/div_top/ubig_is_multiple_of_const.rs
}
impl IBig {
//@@ FN integer/div_top/ibig_is_multiple_of.rs
//@@ FN integer/div_top/ibig_is_multiple_of_const.rs
}
}
} // verus!
fn main() {}
