// unit int_div_ops: integer/src/div_ops.rs `mod repr` (representation-level dispatch of / % div_rem) and the
// integer/src/div/mod.rs glue between it and the verified kernels (C02, C16, C19).
// Trusted: lib/repr_stubs.rs (Buffer / Repr contracts), lib/div_dword_stubs.rs (num_modular 3by2 divisor),
// lib/div_ops_stubs.rs (MemoryAllocation / Memory / Layout, Buffer::erase_front); kernel contracts are the ones PROVED in
// units int_div_word, int_div_dword, int_shift, int_div_simple, int_div_dc (//@@ SIG from the same annotated copies).
#![allow(unused_imports, unused_variables, dead_code, non_snake_case, unused_mut, unused_parens, unused_braces)]
use vstd::prelude::*;
verus! {
//@@ INCLUDE lib/prelude.rs
//@@ INCLUDE lib/sign.rs
//@@ INCLUDE lib/repr_stubs.rs
//@@ INCLUDE lib/div_dword_stubs.rs
//@@ INCLUDE lib/div_post_spec.rs
//@@ INCLUDE lib/div_ops_stubs.rs
//@@ INCLUDE lib/shift_bv.rs
//@@ INCLUDE lib/div_word_lemmas.rs
//@@ INCLUDE lib/div_simple_lemmas.rs
//@@ INCLUDE lib/div_ops_lemmas.rs
//@@ SIG integer/primitive/split_dword.rs
//@@ FN integer/div_ops_repr/shrink_dword.rs
pub mod error {
use super::*;
//@@ SIG integer/div_ops_repr/panic_divide_by_0.rs
}
pub mod div {
use super::*;
//@@ SIG integer/div/div_by_word_in_place.rs
//@@ SIG integer/div/div_by_dword_in_place.rs
//@@ SIG integer/div/rem_by_word.rs
//@@ SIG integer/div/rem_by_dword.rs
pub mod simple {
use super::super::*;
//@@ SIG integer/div_simple/div_rem_highest_word.rs
//@@ SIG integer/div_simple/div_rem_in_place.rs
}
pub(crate) use simple::div_rem_highest_word;
pub use super::div_dc_stub::memory_requirement_exact;
/// integer/src/div/mod.rs:20
pub const THRESHOLD_SIMPLE: usize = 32;
pub mod divide_conquer {
use super::super::*;
use super::super::div;
// contract PROVED in unit int_div_dc
//@@ SIG integer/div_dc/div_rem_in_place.rs
}
//@@ FN integer/div_glue/normalize.rs
//@@ FN integer/div_glue/div_rem_in_place.rs
//@@ FN integer/div_glue/div_rem_unshifted_in_place.rs
}
pub mod shift {
use super::*;
//@@ SIG integer/shift/shl_in_place.rs
//@@ SIG integer/shift/shr_in_place.rs
}
pub mod div_ops {
pub mod repr {
use super::super::*;
use super::super::error::panic_divide_by_0;
broadcast use super::super::buffer_stub::ax_buffer_inv;
//@@ FN integer/div_ops_repr/div_rem_dword.rs
//@@ FN integer/div_ops_repr/div_dword.rs
//@@ FN integer/div_ops_repr/rem_dword.rs
//@@ FN integer/div_ops_repr/div_rem_large_dword.rs
//@@ FN integer/div_ops_repr/rem_large_dword.rs
//@@ FN integer/div_ops_repr/div_rem_in_lhs.rs
//@@ FN integer/div_ops_repr/div_rem_large.rs
//@@ FN integer/div_ops_repr/div_large.rs
//@@ FN integer/div_ops_repr/rem_large.rs
}
}
} // verus!
fn main() {}
