// unit int_add_ops_panic: integer/src/add_ops.rs `mod repr`, the must-panic half of "unsigned subtraction below zero
// panics instead of wrapping" (C01, C16): under the NEGATED precondition a < b every subtraction path is proved to have
// no normal return (`ensures false`), the only diverging call being panic_negative_ubig (`-> !`, `ensures false`).
#![allow(unused_imports, unused_variables, dead_code, non_snake_case, unused_mut, unused_parens, unused_braces)]
use vstd::prelude::*;
verus! {
//@@ INCLUDE lib/prelude.rs
//@@ INCLUDE lib/sign.rs
//@@ INCLUDE lib/dword_core_specs.rs
//@@ INCLUDE lib/repr_stubs.rs
//@@ INCLUDE lib/dispatch_lemmas.rs
pub mod add {
use super::*;
//@@ SIG integer/add/add_one_in_place.rs
//@@ SIG integer/add/sub_one_in_place.rs
//@@ SIG integer/add/add_dword_in_place.rs
//@@ SIG integer/add/sub_dword_in_place.rs
//@@ SIG integer/add/add_same_len_in_place.rs
//@@ SIG integer/add/sub_same_len_in_place_swap.rs
//@@ SIG integer/add/sub_in_place.rs
//@@ SIG integer/add/sub_in_place_with_sign.rs
}
//@@ SIG integer/primitive/split_dword.rs
pub mod error {
use super::*;
//@@ SIG integer/error/panic_negative_ubig.rs variant=must_panic
}
pub mod add_ops {
pub mod repr {
use super::super::*;
use super::super::error::panic_negative_ubig;
broadcast use crate::buffer_stub::ax_buffer_inv;
//@@ SIG integer/add_ops/sub_large_dword.rs
//@@ FN integer/add_ops/sub_dword.rs variant=must_panic
//@@ FN integer/add_ops/sub_large.rs variant=must_panic
//@@ FN integer/add_ops/sub_large_ref_val.rs variant=must_panic
//@@ FN integer/add_ops/typed_sub_rr.rs variant=must_panic
//@@ FN integer/add_ops/typed_sub_vr.rs variant=must_panic
//@@ FN integer/add_ops/typed_sub_rv.rs variant=must_panic
//@@ FN integer/add_ops/typed_sub_vv.rs variant=must_panic
}
}
} // verus!
fn main() {}
