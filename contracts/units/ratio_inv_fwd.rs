// unit ratio_inv_fwd: rational/src/div.rs `Inverse for RBig / &RBig / Relaxed / &Relaxed` (C04 "inversion"): the result is
// the reciprocal with a positive denominator, canonical for a canonical operand -- over the contract of
// `Inverse for Repr` that unit ratio_inv proves.
#![allow(unused_imports, unused_variables, dead_code, non_snake_case, unused_mut, unused_parens, unused_braces)]
use vstd::prelude::*;
use vstd::arithmetic::power2::pow2;
use core::cmp::Ordering;
use core::ops::{Add, Sub, Mul, Div, Rem};
verus! {
//@@ INCLUDE lib/ratio_lemmas.rs
//@@ INCLUDE lib/bigstub.rs
impl Sign {
//@@ SIG rational/sign/base_sign_mul.rs
//@@ SIG rational/sign/base_sign_neg.rs
//@@ SIG rational/sign/base_sign_cmp.rs
}
//@@ INCLUDE lib/ratio_types.rs
//@@ INCLUDE lib/ratio2_inv_stubs.rs
//@@ FN rational/inv/rbig_inv.rs
//@@ FN rational/inv/rbig_ref_inv.rs
//@@ FN rational/inv/relaxed_inv.rs
//@@ FN rational/inv/relaxed_ref_inv.rs
} // verus!
fn main() {}
