// unit int_mul_simple: integer/src/mul/simple.rs schoolbook multiplication c ±= a·b (C01)
#![allow(unused_imports, unused_variables, dead_code, non_snake_case, unused_mut, unused_parens, unused_braces)]
use vstd::prelude::*;
verus! {
//@@ INCLUDE lib/prelude.rs
//@@ INCLUDE lib/mul_lemmas.rs
//@@ INCLUDE lib/mul_stubs.rs
pub mod arch { pub mod add {
use super::super::*;
//@@ SIG integer/arch/add_with_carry.rs
//@@ SIG integer/arch/sub_with_borrow.rs
} }
pub mod mul {
use super::*;
//@@ SIG integer/mul/add_mul_word_same_len_in_place.rs
//@@ SIG integer/mul/sub_mul_word_same_len_in_place.rs
pub mod simple {
use super::super::*;
use super::super::Sign::*;
// the debug assertions about CHUNK_LEN / MAX_SMALLER_LEN (memory-locality limits, constants of simple.rs that the
// engine does not extract) are dropped: the contracts hold for every length
//@@ FN integer/mul_simple/add_mul_chunk.rs drop_asserts=1
//@@ FN integer/mul_simple/sub_mul_chunk.rs drop_asserts=1
//@@ FN integer/mul_simple/add_signed_mul_chunk.rs drop_asserts=1
//@@ FN integer/mul_simple/add_signed_mul_same_len.rs drop_asserts=1
}
}
} // verus!
fn main() {}
