// unit num_order_float_int: float/src/cmp.rs `repr_cmp_ubig` / `repr_cmp_ibig` -- the functions behind NumOrd / AbsOrd between
// FBig / Repr<B> of any base and UBig / IBig / primitive integers (C14) -- and every impl that dispatches to them (cmp.rs
// macro impl_abs_ord_with_method, third_party/num_order.rs macros impl_num_ord_with_method, forward_num_ord_to_repr,
// impl_num_ord_fbig_unsigned, impl_num_ord_with_signed).  Infinities (the ABS flag), sign cases and the EXACT comparison are
// proved; the f32 log2 filter in between is ASSUMED sound (lib/no_float_stubs.rs ax_est_gt / ax_est_lt, rule D10).
#![allow(unused_imports, unused_variables, dead_code, non_snake_case, unused_mut, unused_parens, unused_braces)]
use vstd::prelude::*;
use vstd::arithmetic::power2::pow2;
use core::cmp::Ordering;
use core::ops::{Add, Sub, Mul, Div, Rem};
verus! {
global size_of usize == 8;
//@@ INCLUDE lib/ratio_lemmas.rs
//@@ INCLUDE lib/bigstub.rs
impl Sign {
//@@ SIG rational/sign/base_sign_mul.rs
//@@ SIG rational/sign/base_sign_neg.rs
//@@ SIG rational/sign/base_sign_cmp.rs
}
//@@ INCLUDE lib/ratio2_cmp_stubs.rs
//@@ INCLUDE lib/no_ipw.rs
//@@ INCLUDE lib/no_ord_stubs.rs
//@@ INCLUDE lib/no_float_stubs.rs
//@@ INCLUDE lib/no_prim_from.rs
//@@ INCLUDE lib/no_numord_trait.rs
impl<const B: Word> Repr<B> {
//@@ FN float/repr/is_infinite.rs
}
//@@ FN float/numorder2/repr_cmp_ubig.rs
//@@ FN float/numorder2/repr_cmp_ibig.rs
// ---- AbsOrd / NumOrd between Repr<B> / FBig<R, B> and UBig (cmp.rs impl_abs_ord_with_method!, num_order.rs impl_num_ord_with_method!,
// forward_num_ord_to_repr!)
pub mod via_ubig {
use super::*;
broadcast use {crate::bigstub::ax_ubig_of, crate::bigstub::ax_ibig_of, crate::bigstub::ax_ubig_nonneg};
//@@ FN float/numorder2/abs_repr_t.rs msubst=T:UBig,method:repr_cmp_ubig
//@@ FN float/numorder2/abs_t_repr.rs variant=UBig msubst=T:UBig,method:repr_cmp_ubig
//@@ FN float/numorder2/abs_fbig_t.rs msubst=T:UBig,method:repr_cmp_ubig
//@@ FN float/numorder2/abs_t_fbig.rs variant=UBig msubst=T:UBig,method:repr_cmp_ubig
//@@ FN float/numorder2/ord_repr_t_cmp.rs msubst=T:UBig,method:repr_cmp_ubig
//@@ FN float/numorder2/ord_repr_t_pcmp.rs msubst=T:UBig,method:repr_cmp_ubig
//@@ FN float/numorder2/ord_t_repr_cmp.rs variant=UBig msubst=T:UBig,method:repr_cmp_ubig
//@@ FN float/numorder2/ord_t_repr_pcmp.rs variant=UBig msubst=T:UBig,method:repr_cmp_ubig
// glue (verified one-liners): the trait impls that the forwarding impls call by method syntax
impl<const B: Word> NumOrd<UBig> for Repr<B> {
    open spec fn npc_req(&self, other: &UBig) -> bool { fi_pre(B as int, self.exponent as int) }
    open spec fn npc_spec(&self, other: &UBig) -> Option<Ordering> {
        Some(cmp_repr_int(self.significand.v(), B as int, self.exponent as int, other.v(), false))
    }
    fn num_partial_cmp(&self, other: &UBig) -> (r: Option<Ordering>) { repr_num_partial_cmp_t(self, other) }
    fn num_cmp(&self, other: &UBig) -> (r: Ordering) { repr_num_cmp_t(self, other) }
}
impl<const B: Word> NumOrd<Repr<B>> for UBig {
    open spec fn npc_req(&self, other: &Repr<B>) -> bool { fi_pre(B as int, other.exponent as int) }
    open spec fn npc_spec(&self, other: &Repr<B>) -> Option<Ordering> {
        Some(cmp_int_repr(self.v(), other.significand.v(), B as int, other.exponent as int, false))
    }
    fn num_partial_cmp(&self, other: &Repr<B>) -> (r: Option<Ordering>) { t_num_partial_cmp_repr(self, other) }
    fn num_cmp(&self, other: &Repr<B>) -> (r: Ordering) { t_num_cmp_repr(self, other) }
}
//@@ FN float/numorder2/fwd_fbig_t_cmp.rs msubst=t:UBig
//@@ FN float/numorder2/fwd_fbig_t_pcmp.rs msubst=t:UBig
//@@ FN float/numorder2/fwd_t_fbig_cmp.rs variant=UBig msubst=t:UBig
//@@ FN float/numorder2/fwd_t_fbig_pcmp.rs variant=UBig msubst=t:UBig
}
// ---- AbsOrd / NumOrd between Repr<B> / FBig<R, B> and IBig (cmp.rs impl_abs_ord_with_method!, num_order.rs impl_num_ord_with_method!,
// forward_num_ord_to_repr!)
pub mod via_ibig {
use super::*;
broadcast use {crate::bigstub::ax_ubig_of, crate::bigstub::ax_ibig_of, crate::bigstub::ax_ubig_nonneg};
//@@ FN float/numorder2/abs_repr_t.rs msubst=T:IBig,method:repr_cmp_ibig
//@@ FN float/numorder2/abs_t_repr.rs variant=IBig msubst=T:IBig,method:repr_cmp_ibig
//@@ FN float/numorder2/abs_fbig_t.rs msubst=T:IBig,method:repr_cmp_ibig
//@@ FN float/numorder2/abs_t_fbig.rs variant=IBig msubst=T:IBig,method:repr_cmp_ibig
//@@ FN float/numorder2/ord_repr_t_cmp.rs msubst=T:IBig,method:repr_cmp_ibig
//@@ FN float/numorder2/ord_repr_t_pcmp.rs msubst=T:IBig,method:repr_cmp_ibig
//@@ FN float/numorder2/ord_t_repr_cmp.rs variant=IBig msubst=T:IBig,method:repr_cmp_ibig
//@@ FN float/numorder2/ord_t_repr_pcmp.rs variant=IBig msubst=T:IBig,method:repr_cmp_ibig
// glue (verified one-liners): the trait impls that the forwarding impls call by method syntax
impl<const B: Word> NumOrd<IBig> for Repr<B> {
    open spec fn npc_req(&self, other: &IBig) -> bool { fi_pre(B as int, self.exponent as int) }
    open spec fn npc_spec(&self, other: &IBig) -> Option<Ordering> {
        Some(cmp_repr_int(self.significand.v(), B as int, self.exponent as int, other.v(), false))
    }
    fn num_partial_cmp(&self, other: &IBig) -> (r: Option<Ordering>) { repr_num_partial_cmp_t(self, other) }
    fn num_cmp(&self, other: &IBig) -> (r: Ordering) { repr_num_cmp_t(self, other) }
}
impl<const B: Word> NumOrd<Repr<B>> for IBig {
    open spec fn npc_req(&self, other: &Repr<B>) -> bool { fi_pre(B as int, other.exponent as int) }
    open spec fn npc_spec(&self, other: &Repr<B>) -> Option<Ordering> {
        Some(cmp_int_repr(self.v(), other.significand.v(), B as int, other.exponent as int, false))
    }
    fn num_partial_cmp(&self, other: &Repr<B>) -> (r: Option<Ordering>) { t_num_partial_cmp_repr(self, other) }
    fn num_cmp(&self, other: &Repr<B>) -> (r: Ordering) { t_num_cmp_repr(self, other) }
}
//@@ FN float/numorder2/fwd_fbig_t_cmp.rs msubst=t:IBig
//@@ FN float/numorder2/fwd_fbig_t_pcmp.rs msubst=t:IBig
//@@ FN float/numorder2/fwd_t_fbig_cmp.rs variant=IBig msubst=t:IBig
//@@ FN float/numorder2/fwd_t_fbig_pcmp.rs variant=IBig msubst=t:IBig
}
// ---- NumOrd between Repr<B> / FBig<R, B> and the primitive integers (impl_num_ord_fbig_unsigned!, impl_num_ord_with_signed!)
pub mod prim_u8 {
use super::*;
broadcast use {crate::bigstub::ax_ubig_of, crate::bigstub::ax_ibig_of, crate::bigstub::ax_ubig_nonneg};
//@@ FN float/numorder2/primu_repr_t.rs msubst=t:u8
//@@ FN float/numorder2/primu_t_repr.rs variant=u8 msubst=t:u8
//@@ FN float/numorder2/primu_fbig_t.rs msubst=t:u8
//@@ FN float/numorder2/primu_t_fbig.rs variant=u8 msubst=t:u8
}
pub mod prim_u16 {
use super::*;
broadcast use {crate::bigstub::ax_ubig_of, crate::bigstub::ax_ibig_of, crate::bigstub::ax_ubig_nonneg};
//@@ FN float/numorder2/primu_repr_t.rs msubst=t:u16
//@@ FN float/numorder2/primu_t_repr.rs variant=u16 msubst=t:u16
//@@ FN float/numorder2/primu_fbig_t.rs msubst=t:u16
//@@ FN float/numorder2/primu_t_fbig.rs variant=u16 msubst=t:u16
}
pub mod prim_u32 {
use super::*;
broadcast use {crate::bigstub::ax_ubig_of, crate::bigstub::ax_ibig_of, crate::bigstub::ax_ubig_nonneg};
//@@ FN float/numorder2/primu_repr_t.rs msubst=t:u32
//@@ FN float/numorder2/primu_t_repr.rs variant=u32 msubst=t:u32
//@@ FN float/numorder2/primu_fbig_t.rs msubst=t:u32
//@@ FN float/numorder2/primu_t_fbig.rs variant=u32 msubst=t:u32
}
pub mod prim_u64 {
use super::*;
broadcast use {crate::bigstub::ax_ubig_of, crate::bigstub::ax_ibig_of, crate::bigstub::ax_ubig_nonneg};
//@@ FN float/numorder2/primu_repr_t.rs msubst=t:u64
//@@ FN float/numorder2/primu_t_repr.rs variant=u64 msubst=t:u64
//@@ FN float/numorder2/primu_fbig_t.rs msubst=t:u64
//@@ FN float/numorder2/primu_t_fbig.rs variant=u64 msubst=t:u64
}
pub mod prim_u128 {
use super::*;
broadcast use {crate::bigstub::ax_ubig_of, crate::bigstub::ax_ibig_of, crate::bigstub::ax_ubig_nonneg};
//@@ FN float/numorder2/primu_repr_t.rs msubst=t:u128
//@@ FN float/numorder2/primu_t_repr.rs variant=u128 msubst=t:u128
//@@ FN float/numorder2/primu_fbig_t.rs msubst=t:u128
//@@ FN float/numorder2/primu_t_fbig.rs variant=u128 msubst=t:u128
}
pub mod prim_usize {
use super::*;
broadcast use {crate::bigstub::ax_ubig_of, crate::bigstub::ax_ibig_of, crate::bigstub::ax_ubig_nonneg};
//@@ FN float/numorder2/primu_repr_t.rs msubst=t:usize
//@@ FN float/numorder2/primu_t_repr.rs variant=usize msubst=t:usize
//@@ FN float/numorder2/primu_fbig_t.rs msubst=t:usize
//@@ FN float/numorder2/primu_t_fbig.rs variant=usize msubst=t:usize
}
pub mod prim_i8 {
use super::*;
broadcast use {crate::bigstub::ax_ubig_of, crate::bigstub::ax_ibig_of, crate::bigstub::ax_ubig_nonneg};
//@@ FN float/numorder2/primi_repr_t.rs msubst=t:i8
//@@ FN float/numorder2/primi_t_repr.rs variant=i8 msubst=t:i8
//@@ FN float/numorder2/primi_fbig_t.rs msubst=t:i8
//@@ FN float/numorder2/primi_t_fbig.rs variant=i8 msubst=t:i8
}
pub mod prim_i16 {
use super::*;
broadcast use {crate::bigstub::ax_ubig_of, crate::bigstub::ax_ibig_of, crate::bigstub::ax_ubig_nonneg};
//@@ FN float/numorder2/primi_repr_t.rs msubst=t:i16
//@@ FN float/numorder2/primi_t_repr.rs variant=i16 msubst=t:i16
//@@ FN float/numorder2/primi_fbig_t.rs msubst=t:i16
//@@ FN float/numorder2/primi_t_fbig.rs variant=i16 msubst=t:i16
}
pub mod prim_i32 {
use super::*;
broadcast use {crate::bigstub::ax_ubig_of, crate::bigstub::ax_ibig_of, crate::bigstub::ax_ubig_nonneg};
//@@ FN float/numorder2/primi_repr_t.rs msubst=t:i32
//@@ FN float/numorder2/primi_t_repr.rs variant=i32 msubst=t:i32
//@@ FN float/numorder2/primi_fbig_t.rs msubst=t:i32
//@@ FN float/numorder2/primi_t_fbig.rs variant=i32 msubst=t:i32
}
pub mod prim_i64 {
use super::*;
broadcast use {crate::bigstub::ax_ubig_of, crate::bigstub::ax_ibig_of, crate::bigstub::ax_ubig_nonneg};
//@@ FN float/numorder2/primi_repr_t.rs msubst=t:i64
//@@ FN float/numorder2/primi_t_repr.rs variant=i64 msubst=t:i64
//@@ FN float/numorder2/primi_fbig_t.rs msubst=t:i64
//@@ FN float/numorder2/primi_t_fbig.rs variant=i64 msubst=t:i64
}
pub mod prim_i128 {
use super::*;
broadcast use {crate::bigstub::ax_ubig_of, crate::bigstub::ax_ibig_of, crate::bigstub::ax_ubig_nonneg};
//@@ FN float/numorder2/primi_repr_t.rs msubst=t:i128
//@@ FN float/numorder2/primi_t_repr.rs variant=i128 msubst=t:i128
//@@ FN float/numorder2/primi_fbig_t.rs msubst=t:i128
//@@ FN float/numorder2/primi_t_fbig.rs variant=i128 msubst=t:i128
}
pub mod prim_isize {
use super::*;
broadcast use {crate::bigstub::ax_ubig_of, crate::bigstub::ax_ibig_of, crate::bigstub::ax_ubig_nonneg};
//@@ FN float/numorder2/primi_repr_t.rs msubst=t:isize
//@@ FN float/numorder2/primi_t_repr.rs variant=isize msubst=t:isize
//@@ FN float/numorder2/primi_fbig_t.rs msubst=t:isize
//@@ FN float/numorder2/primi_t_fbig.rs variant=isize msubst=t:isize
}
} // verus!
fn main() {}
