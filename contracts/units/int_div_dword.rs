// unit int_div_dword: integer/src/div/mod.rs double-word divisor kernels + math::shl_dword (C02, C19)
// Trusted: the num_modular::Normalized3by2Divisor stub (lib/div_dword_stubs.rs); bit counting on DoubleWord
// (lib/div_dword_bits_<BITS>.rs).
#![allow(unused_imports, unused_variables, dead_code, non_snake_case, unused_mut, unused_parens, unused_braces)]
use vstd::prelude::*;
verus! {
//@@ INCLUDE lib/prelude.rs
//@@ INCLUDE lib/shift_bv.rs
//@@ INCLUDE lib/div_word_lemmas.rs
//@@ INCLUDE lib/div_dword_bits_@BITS@.rs
//@@ INCLUDE lib/div_dword_stubs.rs
//@@ INCLUDE lib/div_dword_lemmas.rs
//@@ SIG integer/primitive/extend_word.rs
//@@ SIG integer/primitive/double_word.rs
//@@ SIG integer/primitive/split_dword.rs
//@@ FN integer/math/shl_dword.rs
//@@ SIG integer/math/shr_word.rs
pub mod shift {
use super::*;
//@@ SIG integer/shift/shr_in_place.rs
//@@ SIG integer/shift/shr_in_place_one_word.rs
}
// rchunks_exact_mut: not expressible in Verus; contract checked by the Kani group int_div_dword (bounded)
//@@ SIG integer/div/fast_div_by_dword_in_place.rs
//@@ FN integer/div/div_by_dword_in_place.rs
//@@ FN integer/div/fast_rem_by_normalized_dword.rs
//@@ FN integer/div/rem_by_dword.rs
} // verus!
fn main() {}
