// unit int_leh_top: integer/src/gcd/lehmer.rs highest_word_normalized, highest_dword_normalized, trim_leading_zeros (C12): the
// words handed to the Lehmer guess are the leading parts of x and y at one common weight (leh_top), which is what makes a
// successful guess applicable to the full operands (lemma_leh_apply).
// Trusted: primitive.rs highest_dword (get_unchecked; lib/leh_top_lemmas.rs, Kani group int_primitive), the documented meaning of
// DoubleWord::leading_zeros (lib/div_dword_bits_<BITS>.rs).
#![allow(unused_imports, unused_variables, dead_code, non_snake_case, unused_mut, unused_parens, unused_braces)]
use vstd::prelude::*;
verus! {
//@@ INCLUDE lib/prelude.rs
//@@ INCLUDE lib/shift_bv.rs
//@@ INCLUDE lib/div_word_lemmas.rs
//@@ INCLUDE lib/div_dword_bits_@BITS@.rs
//@@ INCLUDE lib/div_dword_stubs.rs
//@@ INCLUDE lib/div_dword_lemmas.rs
//@@ INCLUDE lib/leh_guess_lemmas.rs
//@@ INCLUDE lib/leh_top_lemmas.rs
//@@ INCLUDE lib/leh_top_bv.rs
//@@ SIG integer/primitive/extend_word.rs
//@@ SIG integer/primitive/split_dword.rs
//@@ SIG integer/modular2/locate_top_word_plus_one.rs
pub mod gcd {
pub mod lehmer {
use super::super::*;
//@@ FN integer/lehmer/highest_word_normalized.rs
//@@ FN integer/lehmer/trim_leading_zeros.rs
//@@ FN integer/lehmer/highest_dword_normalized.rs
}
}
} // verus!
fn main() {}
