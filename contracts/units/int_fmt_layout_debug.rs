// unit int_fmt_layout_debug: integer/src/fmt/mod.rs DoubleEnd::format_prepared (the Debug form: most and least significant
// digits): against the ghost-output model of core::fmt::Formatter the formatter receives
//   sign  high digits  [".." low digits]  [" (digits: D, bits: B)"]
// (FN names must be unique inside a unit: the function is called format_prepared like the one of unit int_fmt_layout).
// Trusted: lib/fmtl_fmt_stubs.rs (Formatter / DigitWriter model, contract of trait PreparedForFormatting),
// lib/fmtl_fmt_types.rs (struct mirrors, write_usize_decimals / bit_len as named values).
#![allow(unused_imports, unused_variables, dead_code, non_snake_case, unused_mut, unused_parens, unused_braces)]
use vstd::prelude::*;
use vstd::string::*;
verus! {
//@@ INCLUDE lib/prelude.rs
//@@ INCLUDE lib/fmtl_fmt_stubs.rs
//@@ INCLUDE lib/fmtl_fmt_types.rs
impl<'a> DoubleEnd<'a> {
//@@ FN integer/fmt_large/doubleend_format_prepared.rs
}
} // verus!
fn main() {}
