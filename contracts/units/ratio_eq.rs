// unit ratio_eq: rational/src/cmp.rs `PartialEq for RBig::eq` and `AbsEq for RBig::abs_eq` (C05): for canonical operands
// the component-wise comparison holds exactly when the values (cross products) are equal -- uniqueness of the canonical
// form, proved in lib/ratio2_unique_lemmas.rs.  Uses its own UBig/IBig stubs (see lib/ratio2_eq_stubs.rs for why).
#![allow(unused_imports, unused_variables, dead_code, non_snake_case, unused_mut, unused_parens, unused_braces)]
use vstd::prelude::*;
use vstd::arithmetic::power2::pow2;
use core::cmp::Ordering;
verus! {
//@@ INCLUDE lib/ratio_lemmas.rs
//@@ INCLUDE lib/ratio2_unique_lemmas.rs
//@@ INCLUDE lib/ratio2_eq_stubs.rs
//@@ FN rational/cmp/rbig_eq.rs
//@@ FN rational/cmp/rbig_abs_eq.rs
} // verus!
fn main() {}
