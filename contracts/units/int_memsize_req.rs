// unit int_memsize_req: the scratch-size functions integer/src/mul/{mod,karatsuba,toom_3}.rs memory_requirement_up_to /
// memory_requirement_exact and sqr/mod.rs memory_requirement_exact + sqr (C01, C16).
// PROPERTY proved: the Layout they return provides at least as many Words as the kernels really allocate
// (gneed(smaller_len), lib/mem_need.rs), for ALL lengths: lemma_mn_formula_suffices.  The closed forms themselves
// (2 n + 2 ceil_log2 n, 4 n + 13 ceil_log2 n, as documented in the source comments) are ensured exactly, so that a change
// of the formula is seen even where it would still suffice.
// Trusted: lib/mem_model.rs (Layout constructors of memory.rs), math::ceil_log2 (lib/mem_req_stubs.rs, Kani-checked).
#![allow(unused_imports, unused_variables, dead_code, non_snake_case, unused_mut, unused_parens, unused_braces)]
use vstd::prelude::*;
verus! {
//@@ INCLUDE lib/prelude.rs
//@@ INCLUDE lib/sign.rs
//@@ INCLUDE lib/mem_layout_@BITS@.rs
//@@ INCLUDE lib/mem_model.rs
//@@ INCLUDE lib/mem_need.rs
//@@ INCLUDE lib/mem_req_stubs.rs
pub mod mul {
use super::*;
// the REAL threshold constants (rule E4): lib/mem_need.rs need() mirrors 24 / 192 as literals, so a changed constant
// makes the dispatch obligations fail
//@@ CONST integer/memsize/c_mul_thr_simple.rs
//@@ CONST integer/memsize/c_mul_thr_kara.rs
//@@ FN integer/memsize/mul_req_up_to.rs
//@@ FN integer/memsize/mul_req_exact.rs
//@@ SIG integer/memsize/disp_same_len.rs
pub mod karatsuba {
use super::super::*;
//@@ FN integer/memsize/kara_req.rs
}
pub mod toom_3 {
use super::super::*;
//@@ FN integer/memsize/toom3_req.rs
}
}
pub mod sqr {
use super::*;
//@@ CONST integer/memsize/c_sqr_max_len_simple.rs
pub mod simple {
use super::super::*;
//@@ SIG integer/mul_algos/square.rs
}
//@@ FN integer/memsize/sqr_req.rs
// debug assertion #2 `b.iter().all(..)` (iterator closure) is the zero-filled precondition; #3 debug_assert_zero: value fact (int_sqr)
//@@ FN integer/memsize/sqr.rs drop_asserts=2,3
}
} // verus!
fn main() {}
