// unit int_div_prim: the primitive-operand overloads of `/`, `%`, div_rem, `/=`, div_rem_assign of UBig / IBig
// (integer/src/div_ops.rs `impl_divrem_with_primitive!`, `impl_div_by_primitive!`; integer/src/helper_macros.rs
// `impl_binop_with_primitive!` arm 1 (Rem instance), `impl_binop_assign_with_primitive!` arms 0 / 1 (DivAssign / DivRemAssign
// instances)): every operand form converts the primitive exactly, forwards the operands in the right order and converts the
// result back without loss (C02 truncating convention, C15).  Functions extracted from inside the macro arms (rules E3b, E3e)
// and instantiated for (UBig, u64), (IBig, i64), (IBig, u64); the token streams are identical for all primitive types.
// The (IBig, unsigned) instances are verified only where the result fits the unsigned result type (known finding C15).
// Trusted: lib/df_int_prim_stubs.rs.
#![allow(unused_imports, unused_variables, dead_code, non_snake_case, unused_mut, unused_parens, unused_braces)]
use vstd::prelude::*;
verus! {
//@@ INCLUDE lib/df_int_prim_stubs.rs

pub mod uu {
use super::*;
//@@ FN integer/div_top/prim_dr_vv.rs variant=uu msubst=target:u64,t:UBig
//@@ FN integer/div_top/prim_dr_rv.rs variant=uu msubst=target:u64,t:UBig
//@@ FN integer/div_top/prim_dr_vr.rs variant=uu msubst=target:u64,t:UBig
//@@ FN integer/div_top/prim_dr_rr.rs variant=uu msubst=target:u64,t:UBig
//@@ FN integer/div_top/prim_db_vv.rs variant=uu msubst=target:u64,t:UBig
//@@ FN integer/div_top/prim_db_rv.rs variant=uu msubst=target:u64,t:UBig
//@@ FN integer/div_top/prim_db_vr.rs variant=uu msubst=target:u64,t:UBig
//@@ FN integer/div_top/prim_db_rr.rs variant=uu msubst=target:u64,t:UBig
//@@ FN integer/div_top/prim_bp_vv.rs variant=uu msubst=trait:Rem,target:u64,t:UBig,method:rem,omethod:u64
//@@ FN integer/div_top/prim_bp_rv.rs variant=uu msubst=trait:Rem,target:u64,t:UBig,method:rem,omethod:u64
//@@ FN integer/div_top/prim_bp_vr.rs variant=uu msubst=trait:Rem,target:u64,t:UBig,method:rem,omethod:u64
//@@ FN integer/div_top/prim_bp_rr.rs variant=uu msubst=trait:Rem,target:u64,t:UBig,method:rem,omethod:u64
//@@ FN integer/div_top/prim_as0_v.rs variant=uu msubst=trait:DivAssign,target:u64,t:UBig,method:div_assign
//@@ FN integer/div_top/prim_as0_r.rs variant=uu msubst=trait:DivAssign,target:u64,t:UBig,method:div_assign
//@@ FN integer/div_top/prim_as1_v.rs variant=uu msubst=trait:DivRemAssign,target:u64,t:UBig,method:div_rem_assign,output:OutputRem,ty_output:u64
//@@ FN integer/div_top/prim_as1_r.rs variant=uu msubst=trait:DivRemAssign,target:u64,t:UBig,method:div_rem_assign,output:OutputRem,ty_output:u64
}
pub mod ii {
use super::*;
//@@ FN integer/div_top/prim_dr_vv.rs variant=ii msubst=target:i64,t:IBig
//@@ FN integer/div_top/prim_dr_rv.rs variant=ii msubst=target:i64,t:IBig
//@@ FN integer/div_top/prim_dr_vr.rs variant=ii msubst=target:i64,t:IBig
//@@ FN integer/div_top/prim_dr_rr.rs variant=ii msubst=target:i64,t:IBig
//@@ FN integer/div_top/prim_db_vv.rs variant=ii msubst=target:i64,t:IBig
//@@ FN integer/div_top/prim_db_rv.rs variant=ii msubst=target:i64,t:IBig
//@@ FN integer/div_top/prim_db_vr.rs variant=ii msubst=target:i64,t:IBig
//@@ FN integer/div_top/prim_db_rr.rs variant=ii msubst=target:i64,t:IBig
//@@ FN integer/div_top/prim_bp_vv.rs variant=ii msubst=trait:Rem,target:i64,t:IBig,method:rem,omethod:i64
//@@ FN integer/div_top/prim_bp_rv.rs variant=ii msubst=trait:Rem,target:i64,t:IBig,method:rem,omethod:i64
//@@ FN integer/div_top/prim_bp_vr.rs variant=ii msubst=trait:Rem,target:i64,t:IBig,method:rem,omethod:i64
//@@ FN integer/div_top/prim_bp_rr.rs variant=ii msubst=trait:Rem,target:i64,t:IBig,method:rem,omethod:i64
//@@ FN integer/div_top/prim_as0_v.rs variant=ii msubst=trait:DivAssign,target:i64,t:IBig,method:div_assign
//@@ FN integer/div_top/prim_as0_r.rs variant=ii msubst=trait:DivAssign,target:i64,t:IBig,method:div_assign
//@@ FN integer/div_top/prim_as1_v.rs variant=ii msubst=trait:DivRemAssign,target:i64,t:IBig,method:div_rem_assign,output:OutputRem,ty_output:i64
//@@ FN integer/div_top/prim_as1_r.rs variant=ii msubst=trait:DivRemAssign,target:i64,t:IBig,method:div_rem_assign,output:OutputRem,ty_output:i64
}
pub mod iu {
use super::*;
//@@ FN integer/div_top/prim_dr_vv.rs variant=iu msubst=target:u64,t:IBig
//@@ FN integer/div_top/prim_dr_rv.rs variant=iu msubst=target:u64,t:IBig
//@@ FN integer/div_top/prim_dr_vr.rs variant=iu msubst=target:u64,t:IBig
//@@ FN integer/div_top/prim_dr_rr.rs variant=iu msubst=target:u64,t:IBig
//@@ FN integer/div_top/prim_db_vv.rs variant=iu msubst=target:u64,t:IBig
//@@ FN integer/div_top/prim_db_rv.rs variant=iu msubst=target:u64,t:IBig
//@@ FN integer/div_top/prim_db_vr.rs variant=iu msubst=target:u64,t:IBig
//@@ FN integer/div_top/prim_db_rr.rs variant=iu msubst=target:u64,t:IBig
//@@ FN integer/div_top/prim_bp_vv.rs variant=iu msubst=trait:Rem,target:u64,t:IBig,method:rem,omethod:u64
//@@ FN integer/div_top/prim_bp_rv.rs variant=iu msubst=trait:Rem,target:u64,t:IBig,method:rem,omethod:u64
//@@ FN integer/div_top/prim_bp_vr.rs variant=iu msubst=trait:Rem,target:u64,t:IBig,method:rem,omethod:u64
//@@ FN integer/div_top/prim_bp_rr.rs variant=iu msubst=trait:Rem,target:u64,t:IBig,method:rem,omethod:u64
//@@ FN integer/div_top/prim_as0_v.rs variant=iu msubst=trait:DivAssign,target:u64,t:IBig,method:div_assign
//@@ FN integer/div_top/prim_as0_r.rs variant=iu msubst=trait:DivAssign,target:u64,t:IBig,method:div_assign
//@@ FN integer/div_top/prim_as1_v.rs variant=iu msubst=trait:DivRemAssign,target:u64,t:IBig,method:div_rem_assign,output:OutputRem,ty_output:u64
//@@ FN integer/div_top/prim_as1_r.rs variant=iu msubst=trait:DivRemAssign,target:u64,t:IBig,method:div_rem_assign,output:OutputRem,ty_output:u64
}
} // verus!
fn main() {}
