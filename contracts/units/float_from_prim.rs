// unit float_from_prim: float/src/convert.rs macro `impl_from_float_for_fbig` -- `TryFrom<f32/f64> for Repr<2>` and
// `TryFrom<f32/f64> for FBig<R, 2>` (C08 / C06: conversion from f32/f64 is always exact; +-inf map to the infinities,
// NaN is rejected), instantiated for $t = f32 and $t = f64 (rule E3b), with the real `Repr::{infinity, neg_infinity}`,
// `Context::new`, `FBig::new`.  `decode` is seen through the contract that the Kani group base_bit proves for it.
#![allow(unused_imports, unused_variables, dead_code, non_snake_case, unused_mut, unused_parens, unused_braces)]
use vstd::prelude::*;
verus! {
//@@ INCLUDE lib/round_prelude.rs
//@@ INCLUDE lib/round_int_stubs.rs
pub trait Round: Copy {
    /// ghost: which of the six mode definitions the implementing type stands for
    spec fn md() -> Mode;
}
//@@ INCLUDE lib/round_float_repr.rs
//@@ INCLUDE lib/conv_float.rs
//@@ INCLUDE lib/conv_enc.rs
//@@ INCLUDE lib/conv_float_stubs.rs
//@@ INCLUDE lib/conv_fbig_stubs.rs
//@@ INCLUDE lib/conv_from_prim_stubs.rs
use core::marker::PhantomData;
impl<const B: Word> Repr<B> {
//@@ FN float/convert/repr_infinity.rs
//@@ FN float/convert/repr_neg_infinity.rs
}
impl<R: Round> Context<R> {
//@@ FN float/convert/context_new.rs
}
impl<R: Round, const B: Word> FBig<R, B> {
//@@ FN float/fbig/new.rs
}
// The real functions are methods of `impl TryFrom<$t> for Repr<2>` / `impl<R: Round> TryFrom<$t> for FBig<R, 2>`;
// rule D2 (hoist) turns them into free / associated functions so that the vacuity canary has a place to live:
// `Self` -> `Repr2` resp. `FB2<R>` (aliases below), `Self::Error` -> ConversionError, and for the generic FBig impl
// `Self::new` -> `FB2::<R>::new` (expression position needs the turbofish), `Self::INFINITY` / `Self::NEG_INFINITY` ->
// calls of the transcribed constants `fbig_infinity` / `fbig_neg_infinity` (conv_from_prim_stubs.rs).
// The wrapper structs only carry the generic parameter R of the impl header.
pub type Repr2 = Repr<2>;
pub mod repr_from_f32 {
    use super::*;
//@@ FN float/convert/repr_try_from_float.rs variant=f32 msubst=t:f32
}
pub mod repr_from_f64 {
    use super::*;
//@@ FN float/convert/repr_try_from_float.rs variant=f64 msubst=t:f64
}
pub struct FBigFromF32<R: Round>(pub PhantomData<R>);
impl<R: Round> FBigFromF32<R> {
//@@ FN float/convert/fbig_try_from_float.rs variant=f32 msubst=t:f32
}
pub struct FBigFromF64<R: Round>(pub PhantomData<R>);
impl<R: Round> FBigFromF64<R> {
//@@ FN float/convert/fbig_try_from_float.rs variant=f64 msubst=t:f64
}
} // verus!
fn main() {}
