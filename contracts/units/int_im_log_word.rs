// unit int_im_log_word: integer/src/log.rs `mod repr` log_word_base (C12, C16): floor logarithm of a multi-word number in a
// single-word base > 2:  base^e <= target < base^(e+1), ret.1 == base^e, for an ARBITRARY f32 estimate >= 1 (rule D10b: only
// the claims of lib/im_log_word_est.rs are trusted), the run-time `assert!(est_pow <= target)` being a possible panic (rule D4a
// `#[assert_guard]`); both correction loops terminate, `est -= 1` cannot underflow, the undoing division is exact
// (debug_assert_zero! proved).  pow_word_base / mul_word_in_place / div_by_word_in_place / extend_word enter through the
// contracts PROVED in units int_pow / int_mul_word / int_div_word (//@@ SIG); max_exp_in_word through its trusted contract.
#![allow(unused_imports, unused_variables, dead_code, non_snake_case, unused_mut, unused_parens, unused_braces)]
use vstd::prelude::*;
verus! {
//@@ INCLUDE lib/prelude.rs
//@@ INCLUDE lib/sign.rs
//@@ INCLUDE lib/repr_stubs.rs
//@@ INCLUDE lib/shift_bv.rs
//@@ INCLUDE lib/dispatch_lemmas.rs
//@@ INCLUDE lib/pow_lemmas.rs
//@@ INCLUDE lib/pow_api_stubs.rs
//@@ INCLUDE lib/pow_api_lemmas.rs
//@@ INCLUDE lib/gcdo_log_stubs.rs
//@@ INCLUDE lib/im_log_stubs.rs
//@@ SIG integer/primitive/extend_word.rs
pub mod math {
use super::*;
//@@ SIG integer/math/max_exp_in_word.rs
}
pub use math::max_exp_in_word;
pub mod mul {
use super::*;
//@@ SIG integer/mul/mul_word_in_place.rs
}
pub mod div {
use super::*;
//@@ SIG integer/div/div_by_word_in_place.rs
}
pub mod pow {
pub mod repr {
use super::super::*;
// contract proved in unit int_pow
//@@ SIG integer/pow/pow_word_base.rs
}
}
pub mod log {
pub mod repr {
use super::super::*;
use super::super::cmp::cmp_in_place;
use core::cmp::Ordering;
broadcast use {crate::buffer_stub::ax_buffer_inv, crate::repr_stub::ax_repr_of};
//@@ INCLUDE lib/im_log_word_est.rs
//@@ FN integer/intmisc/log_word_base.rs
}
}
} // verus!
fn main() {}
