// unit ratio_simpler: rational/src/simplify.rs RBig::is_simpler_than against the documented order (C18)
#![allow(unused_imports, unused_variables, dead_code, non_snake_case, unused_mut, unused_parens, unused_braces)]
use vstd::prelude::*;
use vstd::arithmetic::power2::pow2;
use core::cmp::Ordering;
verus! {
//@@ INCLUDE lib/ratio_lemmas.rs
//@@ INCLUDE lib/bigstub.rs
impl Sign {
//@@ FN rational/sign/base_sign_mul.rs
//@@ FN rational/sign/base_sign_neg.rs
//@@ FN rational/sign/base_sign_cmp.rs
}
//@@ INCLUDE lib/ratio_types.rs
impl RBig {
//@@ FN rational/rbig/rbig_numerator.rs
//@@ FN rational/rbig/rbig_denominator.rs
//@@ FN rational/sign/rbig_sign.rs
//@@ FN rational/simplify/is_simpler_than.rs
}
} // verus!
fn main() {}
