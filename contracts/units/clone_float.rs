// unit clone_float: the hand-written `Clone` impls of dashu-float ("necessary due to rust issue 98374"):
//   float/src/repr.rs  `impl Clone for Repr<B>`   clone, clone_from   against cl_frepr_copy (significand AND exponent)
//   float/src/fbig.rs  `impl Clone for FBig<R,B>` clone, clone_from   against cl_fbig_copy  (... AND context precision)
// C05 (a clone / clone_from copy equals its source: every comparison reads only these fields) and C15 (`b.clone_from(&a)`
// leaves b indistinguishable from `a.clone()` whatever b held: ONE predicate for both forms).  `Context` is
// `#[derive(Clone, Copy)]`: no code to verify.
// The real trait methods are verified as inherent methods of the transcribed types, so `FBig::clone` / `FBig::clone_from`
// call the VERIFIED real `Repr::clone` / `Repr::clone_from` (no stub in between).
// Trusted: IBig::clone (lib/round_int_stubs.rs) and IBig::clone_from (lib/cl_int_clone_from.rs): same value afterwards.
#![allow(unused_imports, unused_variables, dead_code, non_snake_case, unused_mut, unused_parens, unused_braces)]
use vstd::prelude::*;
verus! {
//@@ INCLUDE lib/round_prelude.rs
//@@ INCLUDE lib/round_int_stubs.rs
pub trait Round: Copy {}
//@@ INCLUDE lib/cl_int_clone_from.rs
//@@ INCLUDE lib/cl_float_types.rs
use core::marker::PhantomData;
global size_of usize == 8;   // DESIGN.md section 6: usize is 64-bit in all proofs
// the real trait methods are placed in inherent impl blocks (Verus rejects contracts with `requires`/canaries inside a foreign
// trait's impl and has no trait-level `clone_from`): `self.repr.clone()` / `self.repr.clone_from(..)` in the FBig methods
// resolve to the VERIFIED real Repr methods below (inherent before trait), not to a stub.
impl<const B: Word> Repr<B> {
//@@ FN float/clones/repr_clone.rs
//@@ FN float/clones/repr_clone_from.rs
}
impl<R: Round> Context<R> {
// `Context::max` / `Context::new` (verified in units float_add / float_sign): present so that a changed clone / clone_from
// that merges or rebuilds the context is judged by their contracts instead of failing to compile
//@@ SIG float/mul/context_max.rs
//@@ SIG float/convert/context_new.rs
}
impl<R: Round, const B: Word> FBig<R, B> {
//@@ FN float/clones/fbig_clone.rs
//@@ FN float/clones/fbig_clone_from.rs
}
} // verus!
fn main() {}
