// unit int_leh_guess: integer/src/gcd/lehmer.rs lehmer_guess, lehmer_guess_dword (C12): the cofactor matrix guessed from the
// leading (double) words is unimodular, bounded by SignedWord::MAX and satisfies the Lehmer / Jebelean margins that make the
// combination (a x - b y, d y - c x) non-negative and <= y for every pair of operands with these leading parts
// (lib/leh_guess_lemmas.rs: leh_guess_post, lemma_leh_apply) and the EXACT Jebelean condition for both rows (leh_guess_exact: the two
// results are consecutive Euclid remainders; gcd_ext_in_place needs it).  No trusted stubs.
#![allow(unused_imports, unused_variables, dead_code, non_snake_case, unused_mut, unused_parens, unused_braces)]
use vstd::prelude::*;
verus! {
//@@ INCLUDE lib/prelude.rs
//@@ INCLUDE lib/leh_guess_lemmas.rs
pub mod gcd {
pub mod lehmer {
use super::super::*;
//@@ FN integer/lehmer/lehmer_guess.rs
}
// (separate module: both functions declare a local `const COEFF_LIMIT`, which rule D19 moves in front of the function)
pub mod lehmer_dw {
use super::super::*;
//@@ FN integer/lehmer/lehmer_guess_dword.rs
}
}
} // verus!
fn main() {}
