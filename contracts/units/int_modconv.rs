// unit int_modconv: conversion into / out of a multi-word ring: modular/convert.rs ReducedLarge::{from_ubig, residue},
// div_const.rs ConstLargeDivisor::{rem_large, rem_repr}, modular/repr.rs check_same_ring_* ("same ring" variant: the
// panic is unreachable) (C13, C16, C19).
// Trusted: lib/mod2_conv.rs (own Buffer / TypedRepr / UBig mirror, core::ptr::eq as an uninterpreted identity relation),
// lib/mod2_mem.rs; kernel contracts via //@@ SIG (shift::{shl,shr}_in_place, math::shl_dword proved in their units;
// div::div_rem_in_place ASSUMED: lhs == q*rhs + r, r < rhs).
#![feature(allocator_api)]
#![allow(unused_imports, unused_variables, dead_code, non_snake_case, unused_mut, unused_parens, unused_braces)]
use vstd::prelude::*;
use vstd::std_specs::cmp::*;
use core::cmp::Ordering;
use core::ops::Deref;
verus! {
//@@ INCLUDE lib/prelude.rs
//@@ INCLUDE lib/div_dword_stubs.rs
//@@ INCLUDE lib/div_post_spec.rs
//@@ INCLUDE lib/mod2_ring.rs
//@@ INCLUDE lib/mod2_mem.rs
//@@ INCLUDE lib/mod2_conv.rs
//@@ SIG integer/math/shl_dword.rs
pub mod shift {
use super::*;
//@@ SIG integer/shift/shl_in_place.rs
//@@ SIG integer/shift/shr_in_place.rs
}
pub mod div {
use super::*;
pub use super::div_mem_stub::memory_requirement_exact;
//@@ SIG integer/div_glue/div_rem_in_place.rs
}
pub mod error {
use super::*;
//@@ SIG integer/modular2/panic_different_rings.rs
}
use error::panic_different_rings;
impl ConstLargeDivisor {
//@@ FN integer/modular2/large_rem_large.rs
//@@ FN integer/modular2/large_rem_repr.rs
}
impl ReducedLarge {
//@@ FN integer/modular2/large_from_ubig.rs
//@@ FN integer/modular2/large_residue.rs
}
impl Reduced {
//@@ FN integer/modular2/check_same_ring_single.rs
//@@ FN integer/modular2/check_same_ring_double.rs
//@@ FN integer/modular2/check_same_ring_large.rs
}
} // verus!
fn main() {}
