// unit float_round_away: float/src/round.rs `impl Round for mode::Away` (C03, C10)
#![allow(unused_imports, unused_variables, dead_code, non_snake_case, unused_mut, unused_parens, unused_braces)]
use vstd::prelude::*;
verus! {
//@@ INCLUDE lib/round_prelude.rs
//@@ INCLUDE lib/round_int_stubs.rs
//@@ INCLUDE lib/round_modes.rs
pub trait Round: Copy {
//@@ INCLUDE lib/round_trait_decl.rs
}
impl Round for mode::Away {
    open spec fn md() -> Mode { Mode::Away }
//@@ FN float/round/away_round_low_part.rs
}
} // verus!
fn main() {}
