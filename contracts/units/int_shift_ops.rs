// unit int_shift_ops: integer/src/shift_ops.rs `mod repr` buffer-level shifts over Buffer/Repr stubs, on top of the
// shift kernel contracts of unit int_shift (C09, C16, C19)
#![allow(unused_imports, unused_variables, dead_code, non_snake_case, unused_mut, unused_parens, unused_braces)]
use vstd::prelude::*;
verus! {
//@@ INCLUDE lib/prelude.rs
//@@ INCLUDE lib/shift_bv.rs
//@@ INCLUDE lib/bits_repr_lemmas.rs
//@@ INCLUDE lib/shift_ops_lemmas.rs
//@@ INCLUDE lib/sign.rs
//@@ INCLUDE lib/repr_stubs.rs
//@@ INCLUDE lib/bits_stubs.rs
//@@ SIG integer/primitive/double_word.rs
pub mod shift {
use super::*;
//@@ SIG integer/shift/shl_in_place.rs
//@@ SIG integer/shift/shr_in_place.rs
}
pub mod math {
use super::*;
//@@ SIG integer/math/shl_dword.rs
}
pub mod repr {
use super::*;
broadcast use crate::buffer_stub::ax_buffer_inv;
//@@ FN integer/shift_ops/shr_dword.rs
//@@ FN integer/shift_ops/shr_large.rs
//@@ FN integer/shift_ops/shr_large_ref.rs
//@@ FN integer/shift_ops/shl_one_spilled.rs
//@@ FN integer/shift_ops/shl_dword_spilled.rs
//@@ FN integer/shift_ops/shl_large_ref.rs
//@@ FN integer/shift_ops/shl_large.rs
}
} // verus!
fn main() {}
