// unit int_pow: integer/src/pow.rs `mod repr`: left-to-right square-and-multiply over the multiplication glue (C01).
// Trusted: lib/repr_stubs.rs, lib/mul_glue_stubs.rs, lib/pow_stubs.rs (bit_len, <[T]>::fill, scratch sizing) and the
// CONTRACTS of mul::mul_dword_in_place and sqr::sqr (annotated copies used through //@@ SIG only).
#![allow(unused_imports, unused_variables, dead_code, non_snake_case, unused_mut, unused_parens, unused_braces)]
use vstd::prelude::*;
use core::cmp::Ordering;
verus! {
//@@ INCLUDE lib/prelude.rs
//@@ INCLUDE lib/sign.rs
//@@ INCLUDE lib/repr_stubs.rs
//@@ INCLUDE lib/mul_glue_stubs.rs
//@@ INCLUDE lib/pow_stubs.rs
//@@ INCLUDE lib/shift_bv.rs
//@@ INCLUDE lib/div_dword_bits_@BITS@.rs
//@@ INCLUDE lib/dispatch_lemmas.rs
//@@ INCLUDE lib/dispatch_mul_lemmas.rs
//@@ INCLUDE lib/pow_lemmas.rs
//@@ SIG integer/primitive/split_dword.rs
//@@ SIG integer/primitive/shrink_dword.rs
//@@ SIG integer/primitive/extend_word.rs
pub mod math {
use super::*;
pub use super::math_stub::bit_len;
//@@ SIG integer/math/max_exp_in_word.rs
//@@ SIG integer/math/mul_add_carry_dword.rs
}
pub mod mul {
use super::*;
//@@ SIG integer/mul_algos/mul_dword_in_place.rs
//@@ SIG integer/mul/mul_word_in_place.rs
}
pub mod sqr {
use super::*;
//@@ SIG integer/mul_algos/sqr.rs
#[verifier::external_body]
pub fn memory_requirement_exact(len: usize) -> Layout { unimplemented!() }
}
pub mod mul_ops {
pub mod repr {
use super::super::*;
// contracts proved in unit int_mul_ops
//@@ SIG integer/mul_ops/mul_large.rs
//@@ SIG integer/mul_ops/square_large.rs
//@@ SIG integer/mul_ops/typedref_sqr.rs
}
}
pub mod pow {
pub mod repr {
use super::super::*;
use super::super::math::{bit_len, max_exp_in_word};
broadcast use crate::buffer_stub::ax_buffer_inv;
//@@ FN integer/pow/pow_dword_base.rs
//@@ FN integer/pow/pow_large_base.rs
//@@ FN integer/pow/pow_word_base.rs
// D2 link: `self.sqr()` is the hoisted method proved in unit int_mul_ops (mul_ops::repr::typedref_sqr)
impl<'a> TypedReprRef<'a> {
    pub fn sqr(&self) -> (r: Repr)
        requires self.wf(), self.nwords() * 2 <= max_capacity(),
        ensures r.v() == self.v() * self.v(),
    { super::super::mul_ops::repr::typedref_sqr(self) }
}
//@@ FN integer/pow/typedref_pow.rs
}
}
} // verus!
fn main() {}
