// unit ratio_ops_ref: the RBig and Relaxed `+ - * /` macro arms of rational/src/{add,mul,div}.rs (C04), rule E3, instantiated
// for the three BY-REFERENCE forwardings of helper_macros::impl_binop_with_macro! (unit ratio_ops has the by-value one):
//   `T op &T`  : (a, b) = self.into_parts() owned, (c, d) = (rhs.numerator(), rhs.denominator()) references
//   `&T op T`  : a, b references, c, d owned
//   `&T op &T` : all four references
// (ra..rd are references to the same four values in every form).  The SAME annotated arm text and the SAME contract (the
// mathematical value of the result, positive denominator, canonical for canonical operands) as in unit ratio_ops is proved
// for each form: all four call forms of an operator agree with the property's value, hence with each other (C15 style).
// Trusted in addition to unit ratio_ops: lib/rp_refops.rs (the by-reference forms of the dashu-int operators, same
// contracts as the by-value forms of lib/bigstub.rs; UnsignedAbs for &IBig).  The accessors `numerator()/denominator()`
// and `into_parts()` of the forwarding fns themselves (the WRAP header) are not under contract here.
#![allow(unused_imports, unused_variables, dead_code, non_snake_case, unused_mut, unused_parens, unused_braces)]
use vstd::prelude::*;
use vstd::arithmetic::power2::pow2;
use core::cmp::Ordering;
use core::ops::{Add, Sub, Mul, Div};
verus! {
//@@ INCLUDE lib/ratio_lemmas.rs
//@@ INCLUDE lib/bigstub.rs
//@@ INCLUDE lib/rp_refops.rs
impl Sign {
// base/src/sign.rs: proved in unit ratio_ops / ratio_reduce, here seen through their contracts
//@@ SIG rational/sign/base_sign_mul.rs
//@@ SIG rational/sign/base_sign_neg.rs
//@@ SIG rational/sign/base_sign_cmp.rs
}
//@@ INCLUDE lib/ratio_types.rs
// rational/src/error.rs: `total` reading, the panic is unreachable under the precondition (divisor != 0); the must_panic
// reading of the `/` arms for these three forms is unit ratio_zero_panic_ref
//@@ SIG rational/panic/panic_divide_by_0.rs
impl Repr {
// proved in unit ratio_reduce
//@@ SIG rational/repr/reduce_with_hint.rs
//@@ SIG rational/repr/reduce2.rs
}
impl Relaxed {
// proved in unit ratio_ops
//@@ SIG rational/rbig/relaxed_from_parts.rs
}
// ---- `T op &T`: a: IBig, b: UBig, c: &IBig, d: &UBig
//@@ WRAP rbig_add_vr fn rbig_add_vr(a: IBig, b: UBig, c: &IBig, d: &UBig, ra: &IBig, rb: &UBig, rc: &IBig, rd: &UBig) -> RBig
//@@ FN rational/add/add_or_sub_with_rbig.rs wrap=rbig_add_vr subst=method:add variant=add
//@@ WRAP rbig_sub_vr fn rbig_sub_vr(a: IBig, b: UBig, c: &IBig, d: &UBig, ra: &IBig, rb: &UBig, rc: &IBig, rd: &UBig) -> RBig
//@@ FN rational/add/add_or_sub_with_rbig.rs wrap=rbig_sub_vr subst=method:sub variant=sub
//@@ WRAP relaxed_add_vr fn relaxed_add_vr(a: IBig, b: UBig, c: &IBig, d: &UBig, ra: &IBig, rb: &UBig, rc: &IBig, rd: &UBig) -> Relaxed
//@@ FN rational/add/addsub_with_relaxed.rs wrap=relaxed_add_vr subst=method:add variant=add
//@@ WRAP relaxed_sub_vr fn relaxed_sub_vr(a: IBig, b: UBig, c: &IBig, d: &UBig, ra: &IBig, rb: &UBig, rc: &IBig, rd: &UBig) -> Relaxed
//@@ FN rational/add/addsub_with_relaxed.rs wrap=relaxed_sub_vr subst=method:sub variant=sub
//@@ WRAP rbig_mul_vr fn rbig_mul_vr(a: IBig, b: UBig, c: &IBig, d: &UBig, ra: &IBig, rb: &UBig, rc: &IBig, rd: &UBig) -> RBig
//@@ FN rational/mul/mul_with_rbig.rs wrap=rbig_mul_vr subst=method:mul
//@@ WRAP relaxed_mul_vr fn relaxed_mul_vr(a: IBig, b: UBig, c: &IBig, d: &UBig, ra: &IBig, rb: &UBig, rc: &IBig, rd: &UBig) -> Relaxed
//@@ FN rational/mul/mul_with_relaxed.rs wrap=relaxed_mul_vr subst=method:mul
//@@ WRAP rbig_div_vr fn rbig_div_vr(a: IBig, b: UBig, c: &IBig, d: &UBig, ra: &IBig, rb: &UBig, rc: &IBig, rd: &UBig) -> RBig
//@@ FN rational/div/div_with_rbig.rs wrap=rbig_div_vr subst=method:div
//@@ WRAP relaxed_div_vr fn relaxed_div_vr(a: IBig, b: UBig, c: &IBig, d: &UBig, ra: &IBig, rb: &UBig, rc: &IBig, rd: &UBig) -> Relaxed
//@@ FN rational/div/div_with_relaxed.rs wrap=relaxed_div_vr subst=method:div
// ---- `&T op T`: a: &IBig, b: &UBig, c: IBig, d: UBig
//@@ WRAP rbig_add_rv fn rbig_add_rv(a: &IBig, b: &UBig, c: IBig, d: UBig, ra: &IBig, rb: &UBig, rc: &IBig, rd: &UBig) -> RBig
//@@ FN rational/add/add_or_sub_with_rbig.rs wrap=rbig_add_rv subst=method:add variant=add
//@@ WRAP rbig_sub_rv fn rbig_sub_rv(a: &IBig, b: &UBig, c: IBig, d: UBig, ra: &IBig, rb: &UBig, rc: &IBig, rd: &UBig) -> RBig
//@@ FN rational/add/add_or_sub_with_rbig.rs wrap=rbig_sub_rv subst=method:sub variant=sub
//@@ WRAP relaxed_add_rv fn relaxed_add_rv(a: &IBig, b: &UBig, c: IBig, d: UBig, ra: &IBig, rb: &UBig, rc: &IBig, rd: &UBig) -> Relaxed
//@@ FN rational/add/addsub_with_relaxed.rs wrap=relaxed_add_rv subst=method:add variant=add
//@@ WRAP relaxed_sub_rv fn relaxed_sub_rv(a: &IBig, b: &UBig, c: IBig, d: UBig, ra: &IBig, rb: &UBig, rc: &IBig, rd: &UBig) -> Relaxed
//@@ FN rational/add/addsub_with_relaxed.rs wrap=relaxed_sub_rv subst=method:sub variant=sub
//@@ WRAP rbig_mul_rv fn rbig_mul_rv(a: &IBig, b: &UBig, c: IBig, d: UBig, ra: &IBig, rb: &UBig, rc: &IBig, rd: &UBig) -> RBig
//@@ FN rational/mul/mul_with_rbig.rs wrap=rbig_mul_rv subst=method:mul
//@@ WRAP relaxed_mul_rv fn relaxed_mul_rv(a: &IBig, b: &UBig, c: IBig, d: UBig, ra: &IBig, rb: &UBig, rc: &IBig, rd: &UBig) -> Relaxed
//@@ FN rational/mul/mul_with_relaxed.rs wrap=relaxed_mul_rv subst=method:mul
//@@ WRAP rbig_div_rv fn rbig_div_rv(a: &IBig, b: &UBig, c: IBig, d: UBig, ra: &IBig, rb: &UBig, rc: &IBig, rd: &UBig) -> RBig
//@@ FN rational/div/div_with_rbig.rs wrap=rbig_div_rv subst=method:div
//@@ WRAP relaxed_div_rv fn relaxed_div_rv(a: &IBig, b: &UBig, c: IBig, d: UBig, ra: &IBig, rb: &UBig, rc: &IBig, rd: &UBig) -> Relaxed
//@@ FN rational/div/div_with_relaxed.rs wrap=relaxed_div_rv subst=method:div
// ---- `&T op &T`: a: &IBig, b: &UBig, c: &IBig, d: &UBig
//@@ WRAP rbig_add_rr fn rbig_add_rr(a: &IBig, b: &UBig, c: &IBig, d: &UBig, ra: &IBig, rb: &UBig, rc: &IBig, rd: &UBig) -> RBig
//@@ FN rational/add/add_or_sub_with_rbig.rs wrap=rbig_add_rr subst=method:add variant=add
//@@ WRAP rbig_sub_rr fn rbig_sub_rr(a: &IBig, b: &UBig, c: &IBig, d: &UBig, ra: &IBig, rb: &UBig, rc: &IBig, rd: &UBig) -> RBig
//@@ FN rational/add/add_or_sub_with_rbig.rs wrap=rbig_sub_rr subst=method:sub variant=sub
//@@ WRAP relaxed_add_rr fn relaxed_add_rr(a: &IBig, b: &UBig, c: &IBig, d: &UBig, ra: &IBig, rb: &UBig, rc: &IBig, rd: &UBig) -> Relaxed
//@@ FN rational/add/addsub_with_relaxed.rs wrap=relaxed_add_rr subst=method:add variant=add
//@@ WRAP relaxed_sub_rr fn relaxed_sub_rr(a: &IBig, b: &UBig, c: &IBig, d: &UBig, ra: &IBig, rb: &UBig, rc: &IBig, rd: &UBig) -> Relaxed
//@@ FN rational/add/addsub_with_relaxed.rs wrap=relaxed_sub_rr subst=method:sub variant=sub
//@@ WRAP rbig_mul_rr fn rbig_mul_rr(a: &IBig, b: &UBig, c: &IBig, d: &UBig, ra: &IBig, rb: &UBig, rc: &IBig, rd: &UBig) -> RBig
//@@ FN rational/mul/mul_with_rbig.rs wrap=rbig_mul_rr subst=method:mul
//@@ WRAP relaxed_mul_rr fn relaxed_mul_rr(a: &IBig, b: &UBig, c: &IBig, d: &UBig, ra: &IBig, rb: &UBig, rc: &IBig, rd: &UBig) -> Relaxed
//@@ FN rational/mul/mul_with_relaxed.rs wrap=relaxed_mul_rr subst=method:mul
//@@ WRAP rbig_div_rr fn rbig_div_rr(a: &IBig, b: &UBig, c: &IBig, d: &UBig, ra: &IBig, rb: &UBig, rc: &IBig, rd: &UBig) -> RBig
//@@ FN rational/div/div_with_rbig.rs wrap=rbig_div_rr subst=method:div
//@@ WRAP relaxed_div_rr fn relaxed_div_rr(a: &IBig, b: &UBig, c: &IBig, d: &UBig, ra: &IBig, rb: &UBig, rc: &IBig, rd: &UBig) -> Relaxed
//@@ FN rational/div/div_with_relaxed.rs wrap=relaxed_div_rr subst=method:div
} // verus!
fn main() {}
