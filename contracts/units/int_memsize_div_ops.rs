// unit int_memsize_div_ops: integer/src/div_ops.rs `mod repr` div_rem_in_lhs under a RESOURCE contract (C01/C02 resource
// clause, C16): the only place of div_ops.rs that sizes and allocates scratch memory (div_rem_large, div_large, rem_large
// go through it): div::memory_requirement_exact(|lhs|, |rhs|) -> MemoryAllocation::new -> div_rem_unshifted_in_place: the
// size computed IS enough (contracts PROVED in int_memsize_div; //@@ SIG here), so the public `/`, `%`, div_rem of two
// large integers never panic with "internal error: not enough memory allocated".  Values: int_div_ops (opaque Memory).
// Trusted: lib/repr_stubs.rs (Buffer), lib/mem_model.rs, lib/div_dword_stubs.rs (num_modular divisor, only passed along).
#![allow(unused_imports, unused_variables, dead_code, non_snake_case, unused_mut, unused_parens, unused_braces)]
use vstd::prelude::*;
verus! {
//@@ INCLUDE lib/prelude.rs
//@@ INCLUDE lib/sign.rs
//@@ INCLUDE lib/repr_stubs.rs
//@@ INCLUDE lib/div_dword_stubs.rs
//@@ INCLUDE lib/mem_layout_@BITS@.rs
//@@ INCLUDE lib/mem_model.rs
//@@ INCLUDE lib/mem_need.rs
//@@ INCLUDE lib/mem_req_stubs.rs
//@@ INCLUDE lib/mem_div_spec.rs
pub mod div {
use super::*;
//@@ SIG integer/div_glue/normalize.rs
//@@ SIG integer/memsize/div_req.rs
//@@ SIG integer/memsize/div_rem_unshifted.rs
}
pub mod div_ops {
pub mod repr {
use super::super::*;
broadcast use {crate::buffer_stub::ax_buffer_inv, crate::repr_stub::ax_repr_of};
//@@ FN integer/memsize/div_rem_in_lhs.rs
}
}
} // verus!
fn main() {}
