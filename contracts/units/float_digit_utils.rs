// unit float_digit_utils: float/src/utils.rs `shr_ref`, `shr_digits`, `shl_digits`, `shl_digits_in_place`, `digit_len`,
// `base_as_ibig` (C10 / C03 / C08: every rounding, alignment and integer conversion of dashu-float moves the significand by
// whole digits with these; the contracts are EXACTLY the ones the float units assume for them in lib/round_float_repr.rs
// (digit_len), lib/conv_fbig_stubs.rs (shl_digits, shr_digits) and lib/farith_add_stubs.rs (shl_digits_in_place)).
// lib/round_float_repr.rs is included for the vocabulary `ndigits` / `ax_ndigits` / `lemma_nd_unique`; the functions under
// contract live in `pub mod utils` (as in the real crate) and shadow the assumed stubs of the same name: none of the stubs of
// round_float_repr.rs is called by the code verified here.
// Trusted: lib/round_int_stubs.rs + lib/df_float_utils.rs + lib/fu_stubs.rs (dashu-int seen through its values).
#![allow(unused_imports, unused_variables, dead_code, non_snake_case, unused_mut, unused_parens, unused_braces)]
use vstd::prelude::*;
verus! {
//@@ INCLUDE lib/round_prelude.rs
//@@ INCLUDE lib/round_int_stubs.rs
//@@ INCLUDE lib/round_int_addsub_stubs.rs
pub trait Round: Copy {}
//@@ INCLUDE lib/round_float_repr.rs
pub type DoubleWord = u128;
pub mod wl {
use vstd::prelude::*;
//@@ INCLUDE lib/prelude.rs
//@@ INCLUDE lib/shift_bv.rs
//@@ INCLUDE lib/div_word_stubs.rs
//@@ INCLUDE lib/div_word_lemmas.rs
}
//@@ INCLUDE lib/df_float_utils.rs
//@@ INCLUDE lib/fu_stubs.rs
//@@ INCLUDE lib/fu_lemmas.rs
global size_of usize == 8;   // DESIGN.md section 6: usize is 64-bit in all proofs
pub mod utils {
use super::*;
//@@ FN float/utils2/base_as_ibig.rs
//@@ FN float/utils3/digit_len.rs
//@@ FN float/utils3/shl_digits.rs
//@@ FN float/utils3/shl_digits_in_place.rs
//@@ FN float/utils3/shr_ref.rs
//@@ FN float/utils3/shr_digits.rs
}
} // verus!
fn main() {}
