// unit float_round: float/src/round.rs trait-provided methods `Round::round_ratio`, `Round::round_fract` (C03, C10),
// verified for EVERY implementor of `Round` through the contract of `round_low_part` (which the six
// float_round_<mode> units establish for the six built-in modes).
#![allow(unused_imports, unused_variables, dead_code, non_snake_case, unused_mut, unused_parens, unused_braces)]
use vstd::prelude::*;
verus! {
//@@ INCLUDE lib/round_prelude.rs
//@@ INCLUDE lib/round_int_stubs.rs

// ---- f32 shortcut of round_fract (dashu_base::EstimatedLog2).  Verus cannot reason about f32 arithmetic, so:
//  * log2_bounds returns floats about which only the uninterpreted enclosure predicates are known,
//  * the two float tests are abstracted by lowering rule D10 into __f32_guard0/1, and
//  * THE AGREEMENT OF THE SHORTCUT WITH THE EXACT COMPARISON IS ASSUMED, NOT PROVED (contracts of __f32_guard0/1).
// What is proved is the exact branch and everything around it.
/// "f <= log2(x)" resp. "f >= log2(x)" over the reals (uninterpreted)
pub uninterp spec fn log2_lb(f: f32, x: int) -> bool;
pub uninterp spec fn log2_ub(f: f32, x: int) -> bool;
pub trait EstimatedLog2 { fn log2_bounds(&self) -> (f32, f32); }
impl EstimatedLog2 for UBig {
    #[verifier::external_body]
    fn log2_bounds(&self) -> (r: (f32, f32)) ensures log2_lb(r.0, self.v()), log2_ub(r.1, self.v()) { unimplemented!() }
}
impl EstimatedLog2 for Word {
    #[verifier::external_body]
    fn log2_bounds(&self) -> (r: (f32, f32)) ensures log2_lb(r.0, *self as int), log2_ub(r.1, *self as int) { unimplemented!() }
}
/// stands for `lb + 0.999 > b_ub * precision as f32`:  log2(x) + 0.999 > precision*log2(b)  ==>  2x > b^precision
#[verifier::external_body]
pub fn __f32_guard0(lb: f32, b_ub: f32, precision: usize) -> (r: bool)
    ensures r ==> forall|x: int, b: int| #![trigger log2_lb(lb, x), log2_ub(b_ub, b)]
        log2_lb(lb, x) && log2_ub(b_ub, b) && x >= 1 && b >= 2 ==> 2 * x > ipow(b, precision as nat)
{ unimplemented!() }
/// stands for `ub + 1.001 < b_lb * precision as f32`:  log2(x) + 1.001 < precision*log2(b)  ==>  2x < b^precision
#[verifier::external_body]
pub fn __f32_guard1(ub: f32, b_lb: f32, precision: usize) -> (r: bool)
    ensures r ==> forall|x: int, b: int| #![trigger log2_ub(ub, x), log2_lb(b_lb, b)]
        log2_ub(ub, x) && log2_lb(b_lb, b) && x >= 1 && b >= 2 ==> 2 * x < ipow(b, precision as nat)
{ unimplemented!() }

pub trait Round: Copy {
//@@ INCLUDE lib/round_trait_decl.rs
//@@ FN float/round/round_fract.rs drop_asserts=0
//@@ FN float/round/round_ratio.rs
}
} // verus!
fn main() {}
