// unit int_modmul: integer/src/modular/mul.rs multi-word residue multiplication / squaring (C13, C16, C19).
// Trusted: lib/mod2_mem.rs (scratch allocator, Box deref / eq), lib/div_dword_stubs.rs (num_modular divider type);
// ASSUMED through //@@ SIG: mul::multiply, sqr::sqr (exact product; strategies bounded-checked elsewhere),
// div::div_rem_in_place (lhs == q*rhs + r, r < rhs; proved for the schoolbook branch in unit int_div_ops),
// shift::shr_in_place, add::sub_same_len_in_place, primitive::{extend_word, split_dword} (proved in their own units),
// cmp::cmp_same_len (assumed, bounded-checked by Kani group int_cmp).
#![feature(allocator_api)]
#![allow(unused_imports, unused_variables, dead_code, non_snake_case, unused_mut, unused_parens, unused_braces)]
use vstd::prelude::*;
use vstd::std_specs::cmp::*;
use core::cmp::Ordering;
use core::ops::Deref;
verus! {
//@@ INCLUDE lib/prelude.rs
//@@ INCLUDE lib/div_dword_stubs.rs
//@@ INCLUDE lib/div_post_spec.rs
//@@ INCLUDE lib/mod2_ring.rs
//@@ INCLUDE lib/mod2_mem.rs
//@@ SIG integer/primitive/extend_word.rs
//@@ SIG integer/primitive/split_dword.rs
//@@ FN integer/modular2/locate_top_word_plus_one.rs
pub mod add {
use super::*;
//@@ SIG integer/add/sub_same_len_in_place.rs
}
pub mod shift {
use super::*;
//@@ SIG integer/shift/shr_in_place.rs
}
pub mod mul {
use super::*;
//@@ SIG integer/mul_algos/multiply.rs
}
pub mod sqr {
use super::*;
//@@ SIG integer/mul_algos/sqr.rs
}
pub mod div {
use super::*;
//@@ SIG integer/div_glue/div_rem_in_place.rs
}
pub mod cmp {
use super::*;
// ASSUMED contract (integer/src/cmp.rs uses Iterator::cmp, outside Verus' reach); bounded-checked on the
// real code by the Kani group int_cmp.  Same text as in unit int_modadd.
#[verifier::external_body]
pub fn cmp_same_len(lhs: &[Word], rhs: &[Word]) -> (ret: Ordering)
    requires lhs@.len() == rhs@.len(),
    ensures (ret is Less) == (val(lhs@) < val(rhs@)), (ret is Equal) == (val(lhs@) == val(rhs@)),
        (ret is Greater) == (val(lhs@) > val(rhs@)),
{ unimplemented!() }
}
//@@ FN integer/modular2/mul_normalized.rs drop_asserts=2
//@@ FN integer/modular2/sqr_normalized.rs drop_asserts=2
//@@ FN integer/modular2/mul_in_place.rs
//@@ FN integer/modular2/sqr_in_place.rs
} // verus!
fn main() {}
