// unit ratio_fm_ctor_panic: C16 for the const constructors `RBig::from_parts_const` / `Relaxed::from_parts_const`
// (rational/src/rbig.rs): must_panic variants (rule D4): denominator == 0 ==> no normal return, WHATEVER the numerator
// (0/0 included), over `panic_divide_by_0() -> !` never returning.  The value-level contracts (denominator != 0: exact,
// canonical) are proved in unit ratio_ctor.
#![allow(unused_imports, unused_variables, dead_code, non_snake_case, unused_mut, unused_parens, unused_braces)]
use vstd::prelude::*;
use vstd::arithmetic::power2::pow2;
use core::cmp::Ordering;
use core::ops::{Add, Sub, Mul, Div, Rem};
verus! {
//@@ INCLUDE lib/ratio_lemmas.rs
//@@ INCLUDE lib/bigstub.rs
impl Sign {
//@@ SIG rational/sign/base_sign_mul.rs
//@@ SIG rational/sign/base_sign_neg.rs
//@@ SIG rational/sign/base_sign_cmp.rs
}
//@@ INCLUDE lib/ratio_types.rs
//@@ INCLUDE lib/ratio2_ctor_stubs.rs
//@@ SIG rational/panic/panic_divide_by_0.rs variant=must_panic
impl RBig {
//@@ FN rational/fmisc/rbig_from_parts_const_panic.rs variant=must_panic
}
impl Relaxed {
//@@ FN rational/fmisc/relaxed_from_parts_const_panic.rs variant=must_panic
}
} // verus!
fn main() {}
