// unit float_round_add_ref: float/src/round.rs `impl Add<Rounding> for &IBig` (C03, C10), hoisted by lowering rule D2
#![allow(unused_imports, unused_variables, dead_code, non_snake_case, unused_mut, unused_parens, unused_braces)]
use vstd::prelude::*;
verus! {
//@@ INCLUDE lib/round_prelude.rs
//@@ INCLUDE lib/round_int_stubs.rs
//@@ INCLUDE lib/round_int_addsub_stubs.rs
//@@ FN float/round/ibig_ref_add_rounding.rs
} // verus!
fn main() {}
