// unit int_mul_dispatch: integer/src/mul/mod.rs `multiply`, `add_signed_mul`, `add_signed_mul_same_len` (the size dispatch
// simple / Karatsuba / Toom-3), integer/src/mul/helpers.rs `add_signed_mul_split_into_chunks` (chunking of the longer
// factor; the chunk kernel is a function value contracted through f.requires / f.ensures) and the three unequal-length
// entries simple / karatsuba / toom_3 :: add_signed_mul that instantiate it (C01, C16).
// Post everywhere: val(c') + ret*B^|c| == val(c) + sgn(sign)*val(a)*val(b), -1 <= ret <= 1;  multiply: val(c') == a*b.
// The equal-length algorithms are seen through their contracts (//@@ SIG): simple::add_signed_mul_chunk / _same_len
// PROVED in int_mul_simple, karatsuba::add_signed_mul_same_len in int_mul_karatsuba, toom_3::add_signed_mul_same_len in
// int_mul_toom3.  Termination of the cycle add_signed_mul -> {simple,karatsuba,toom_3}::add_signed_mul -> helpers ->
// add_signed_mul is proved here (decreases: smaller length, total length, rank).
// Trusted: lib/mulalg_stubs.rs (Memory is only passed along here), the mirrored constants below.
#![allow(unused_imports, unused_variables, dead_code, non_snake_case, unused_mut, unused_parens, unused_braces)]
use vstd::prelude::*;
verus! {
//@@ INCLUDE lib/prelude.rs
//@@ INCLUDE lib/sign.rs
//@@ INCLUDE lib/mul_lemmas.rs
//@@ INCLUDE lib/mulalg_stubs.rs
//@@ INCLUDE lib/mulalg_core_lemmas.rs
//@@ INCLUDE lib/mulalg_lemmas.rs
pub mod add {
use super::*;
//@@ SIG integer/add/add_signed_word_in_place.rs
}
pub mod mul {
use super::*;
use core::mem;
/// integer/src/mul/mod.rs:17,22 (mirrored)
pub const THRESHOLD_SIMPLE: usize = 24;
pub const THRESHOLD_KARATSUBA: usize = 192;
//@@ FN integer/mul_algos/multiply.rs drop_asserts=0
//@@ FN integer/mul_algos/add_signed_mul.rs
//@@ FN integer/mul_algos/add_signed_mul_same_len.rs
pub mod helpers {
use super::super::*;
use super::super::{add, mul};
//@@ FN integer/mul_algos/add_signed_mul_split_into_chunks.rs
}
pub mod simple {
use super::super::*;
use super::helpers;
/// integer/src/mul/simple.rs:14,17 (mirrored)
pub const CHUNK_LEN: usize = 1024;
pub const MAX_SMALLER_LEN: usize = CHUNK_LEN;
//@@ SIG integer/mul_simple/add_signed_mul_chunk.rs
//@@ SIG integer/mul_simple/add_signed_mul_same_len.rs
//@@ FN integer/mul_algos/simple_add_signed_mul.rs
}
pub mod karatsuba {
use super::super::*;
use super::helpers;
/// integer/src/mul/karatsuba.rs:19 (mirrored)
pub const MIN_LEN: usize = 3;
//@@ SIG integer/mul_algos/kara_add_signed_mul_same_len.rs
//@@ FN integer/mul_algos/kara_add_signed_mul.rs
}
pub mod toom_3 {
use super::super::*;
use super::helpers;
/// integer/src/mul/toom_3.rs:30 (mirrored)
pub const MIN_LEN: usize = 16;
//@@ SIG integer/mul_algos/toom3_add_signed_mul_same_len.rs
//@@ FN integer/mul_algos/toom3_add_signed_mul.rs
}
}
} // verus!
fn main() {}
