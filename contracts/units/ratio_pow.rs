// unit ratio_pow: rational/src/mul.rs `Repr::{sqr, cubic, pow}` and the RBig / Relaxed methods forwarding to them (C04):
// numerator and denominator are exactly the k-th powers (so the value is the k-th power of the rational) and the
// result of a canonical operand is canonical (powers of coprime numbers are coprime; 0/1 stays 0/1, x^0 = 1/1).
#![allow(unused_imports, unused_variables, dead_code, non_snake_case, unused_mut, unused_parens, unused_braces)]
use vstd::prelude::*;
use vstd::arithmetic::power2::pow2;
use core::cmp::Ordering;
use core::ops::{Add, Sub, Mul, Div, Rem};
verus! {
//@@ INCLUDE lib/ratio_lemmas.rs
//@@ INCLUDE lib/bigstub.rs
impl Sign {
// base/src/sign.rs: proved in unit ratio_ops / ratio_reduce, here seen through their contracts
//@@ SIG rational/sign/base_sign_mul.rs
//@@ SIG rational/sign/base_sign_neg.rs
//@@ SIG rational/sign/base_sign_cmp.rs
}
//@@ INCLUDE lib/ratio_types.rs
//@@ INCLUDE lib/ratio2_stubs.rs
//@@ INCLUDE lib/ratio2_float_stubs.rs
//@@ INCLUDE lib/ratio2_pow_stubs.rs
//@@ INCLUDE lib/bigstub_ibig_eq.rs
impl Repr {
//@@ FN rational/pow/repr_sqr.rs
//@@ FN rational/pow/repr_cubic.rs
//@@ FN rational/pow/repr_pow.rs
}
impl RBig {
//@@ FN rational/pow/rbig_sqr.rs
//@@ FN rational/pow/rbig_cubic.rs
//@@ FN rational/pow/rbig_pow.rs
}
impl Relaxed {
//@@ FN rational/pow/relaxed_sqr.rs
//@@ FN rational/pow/relaxed_cubic.rs
//@@ FN rational/pow/relaxed_pow.rs
}
} // verus!
fn main() {}
