// unit int_modpow_single: integer/src/modular/pow.rs `mod single` (instance of the macro impl_mod_pow_for_primitive!):
// pow_word, pow_helper (left-to-right square-and-multiply over one exponent word), pow (one/two-word exponents),
// pow_nontrivial (multi-word exponents, unbounded length).  C13 clause "pow(e)":  residue(ret) == residue(raw)^e mod m.
// ReducedWord::one (modular/repr.rs) is verified here against its real body.
// ASSUMED (lib/mp_prim1_stubs.rs): the num_modular Reducer (sqr / mul on stored numbers), ring.shift() / normalized_divisor();
// lib/mp_prim_common.rs: UBig::repr().  primitive::split_dword via //@@ SIG (proved in its own unit).
// Holds for every modulus m >= 1 and every exponent (the modulus-1 defect of ReducedWord::one was repaired in /repo 296f9c6).
#![allow(unused_imports, unused_variables, dead_code, non_snake_case, unused_mut, unused_parens, unused_braces)]
use vstd::prelude::*;
verus! {
global size_of usize == 8;
//@@ INCLUDE lib/prelude.rs
//@@ INCLUDE lib/shift_bv.rs
//@@ INCLUDE lib/mp_arith.rs
//@@ INCLUDE lib/mp_prim_lemmas.rs
//@@ INCLUDE lib/mp_prim_common.rs
//@@ INCLUDE lib/mp_prim1_stubs.rs
//@@ SIG integer/primitive/split_dword.rs
impl ReducedWord {
//@@ FN integer/modpow/prim1_one.rs
}
pub mod single {
use super::*;
//@@ FN integer/modpow/prim_pow_helper.rs msubst=ring:ConstSingleDivisor,raw:ReducedWord,ns:single
//@@ FN integer/modpow/prim_pow_word.rs msubst=ring:ConstSingleDivisor,raw:ReducedWord,ns:single
//@@ FN integer/modpow/prim_pow_nontrivial.rs msubst=ring:ConstSingleDivisor,raw:ReducedWord,ns:single
//@@ FN integer/modpow/prim_pow.rs msubst=ring:ConstSingleDivisor,raw:ReducedWord,ns:single
}
} // verus!
fn main() {}
