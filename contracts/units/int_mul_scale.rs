// unit int_mul_scale: integer/src/mul/mod.rs  words *= rhs (+ carry)  (C01)
#![allow(unused_imports, unused_variables, dead_code, non_snake_case, unused_mut, unused_parens, unused_braces)]
use vstd::prelude::*;
verus! {
//@@ INCLUDE lib/prelude.rs
//@@ INCLUDE lib/mul_lemmas.rs
pub mod math {
use super::*;
//@@ SIG integer/math/mul_add_carry.rs
}
pub mod mul {
use super::*;
//@@ FN integer/mul/mul_word_in_place_with_carry.rs
//@@ FN integer/mul/mul_word_in_place.rs
}
} // verus!
fn main() {}
