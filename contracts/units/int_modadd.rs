// unit int_modadd: integer/src/modular/add.rs multi-word residue addition/subtraction (C13)
#![allow(unused_imports, unused_variables, dead_code, non_snake_case, unused_mut, unused_parens, unused_braces)]
use vstd::prelude::*;
use core::cmp::Ordering;
verus! {
//@@ INCLUDE lib/prelude.rs
//@@ INCLUDE lib/mod_lemmas.rs
pub mod add {
use super::*;
//@@ SIG integer/add/add_same_len_in_place.rs
//@@ SIG integer/add/sub_same_len_in_place.rs
//@@ SIG integer/add/sub_same_len_in_place_swap.rs
}
pub mod cmp {
use super::*;
// ASSUMED contract (integer/src/cmp.rs uses Iterator::cmp, outside Verus' reach); bounded-checked on the
// real code by the Kani group int_cmp.
#[verifier::external_body]
pub fn cmp_same_len(lhs: &[Word], rhs: &[Word]) -> (ret: Ordering)
    requires lhs@.len() == rhs@.len(),
    ensures (ret is Less) == (val(lhs@) < val(rhs@)), (ret is Equal) == (val(lhs@) == val(rhs@)),
        (ret is Greater) == (val(lhs@) > val(rhs@)),
{ unimplemented!() }
}
//@@ FN integer/modular/add_in_place.rs drop_asserts=0
//@@ FN integer/modular/sub_in_place.rs drop_asserts=0
//@@ FN integer/modular/sub_in_place_swap.rs drop_asserts=0
} // verus!
fn main() {}
