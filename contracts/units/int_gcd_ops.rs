// unit int_gcd_ops: integer/src/gcd_ops.rs `mod repr`: representation-level dispatch of gcd / gcd_ext (C12, C16).
#![allow(unused_imports, unused_variables, dead_code, non_snake_case, unused_mut, unused_parens, unused_braces)]
use vstd::prelude::*;
use core::cmp::Ordering;
verus! {
//@@ INCLUDE lib/prelude.rs
//@@ INCLUDE lib/sign.rs
//@@ INCLUDE lib/gcdo_stubs.rs
impl Sign {
//@@ SIG rational/sign/base_sign_neg.rs
}
//@@ INCLUDE lib/repr_stubs.rs
//@@ INCLUDE lib/dispatch_lemmas.rs
//@@ INCLUDE lib/div_dword_stubs.rs
//@@ INCLUDE lib/div_post_spec.rs
//@@ INCLUDE lib/gcdo_ops_stubs.rs
//@@ SIG integer/primitive/shrink_dword.rs
pub mod add {
use super::*;
//@@ SIG integer/add/add_in_place.rs
//@@ SIG integer/add/sub_in_place.rs
}
pub mod mul {
use super::*;
//@@ SIG integer/mul_algos/multiply.rs
// scratch sizing: opaque
#[verifier::external_body]
pub fn memory_requirement_exact(total_len: usize, smaller_len: usize) -> Layout { unimplemented!() }
}
pub mod div {
use super::*;
// contracts PROVED in unit int_div_ops
//@@ SIG integer/div_glue/normalize.rs
//@@ SIG integer/div_glue/div_rem_unshifted_in_place.rs
// contracts PROVED in units int_div_word / int_div_dword
//@@ SIG integer/div/rem_by_word.rs
//@@ SIG integer/div/rem_by_dword.rs
/// integer/src/div/mod.rs :: memory_requirement_exact: `assert!(lhs_len >= rhs_len && rhs_len >= 2)`, opaque Layout
#[verifier::external_body]
pub fn memory_requirement_exact(lhs_len: usize, rhs_len: usize) -> (r: Layout)
    requires lhs_len >= rhs_len && rhs_len >= 2,
{ unimplemented!() }
}
pub mod gcd {
use super::*;
// contracts PROVED in unit int_gcd_small
//@@ SIG integer/gcd/gcd_ext_word.rs
//@@ SIG integer/gcd/gcd_ext_dword.rs
pub use super::gcd_lehmer_stub::*;
}
pub mod gcd_ops {
pub mod repr {
use super::super::*;
broadcast use {crate::buffer_stub::ax_buffer_inv, crate::repr_stub::ax_repr_of};
//@@ FN integer/gcd_ops/gcd_ext_dword.rs
//@@ FN integer/gcd_ops/gcd_ext_large_dword.rs
//@@ FN integer/gcd_ops/gcd_ext_large.rs
//@@ FN integer/gcd_ops/gcd_large_dword.rs
//@@ FN integer/gcd_ops/gcd_large.rs
// trait-impl methods hoisted to free functions (rule D2, renamed)
//@@ FN integer/gcd_ops/typed_gcd_rr.rs
//@@ FN integer/gcd_ops/typed_gcd_ext_rr.rs
//@@ FN integer/gcd_ops/typed_gcd_ext_vr.rs
//@@ FN integer/gcd_ops/typed_gcd_ext_rv.rs
//@@ FN integer/gcd_ops/typed_gcd_ext_vv.rs
}
}
} // verus!
fn main() {}
