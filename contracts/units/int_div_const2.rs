// unit int_div_const2: integer/src/div_const.rs, every function (C02, C13, C15, C16, C19).
//  * constructors ConstSingleDivisor/ConstDoubleDivisor/ConstLargeDivisor::new, ConstDivisor::{new, from_word, from_dword}:
//    the prepared divisor stands for the given number (stored divisor == d << shift, top bit set, reciprocal table built
//    from the normalized divisor), in the representation (Single / Double / Large) its size decides; zero panics
//    (unit int_div_const2_panic);  accessors divisor / normalized_divisor / shift / value give the original back;
//  * rem_word / rem_dword / rem_large of the single- and double-word divisors: `(x mod d) << shift`, i.e. (x << shift)
//    mod (d << shift): what ReducedWord / ReducedDword store (C13: always below the stored modulus);
//  * the Div / Rem / DivRem dispatch on &ConstDivisorRepr, every (Small|Large) x (Single|Double|Large) arm: q == floor(a/d),
//    r == a mod d (the annotated copies of unit int_div_const, re-verified here against stubs that have the read-only
//    accessors `divisor()` of the num_modular wrappers);
//  * the 18 UBig / IBig operator wrappers (`/`, `%`, div_rem by value and by reference, `/=`, `%=`, div_rem_assign):
//    UBig: q == a / d, r == a % d (as plain division);  IBig: truncating convention a == q*d + r, |r| < d, sign(r) == sign(a).
// Trusted: lib/div_const_stubs.rs + lib/dc2_stubs.rs (num_modular PreMulInv2by1 / PreMulInv3by2 wrappers, mirrored
// ConstDivisor / UBig / IBig types, operator forms each proved here under its hoisted name), lib/div_word_stubs.rs,
// lib/div_dword_stubs.rs (num_modular dividers), lib/repr_stubs.rs (Buffer / Repr), lib/div_ops_stubs.rs (memory stubs);
// kernel contracts via //@@ SIG (proved in units int_div_word, int_div_dword, int_shift, int_div_ops).
#![feature(allocator_api)]
#![allow(unused_imports, unused_variables, dead_code, non_snake_case, unused_mut, unused_parens, unused_braces)]
use vstd::prelude::*;
verus! {
//@@ INCLUDE lib/prelude.rs
//@@ INCLUDE lib/sign.rs
//@@ INCLUDE lib/shift_bv.rs
//@@ INCLUDE lib/repr_stubs.rs
//@@ INCLUDE lib/div_word_stubs.rs
//@@ INCLUDE lib/div_dword_stubs.rs
//@@ INCLUDE lib/div_post_spec.rs
//@@ INCLUDE lib/div_ops_stubs.rs
//@@ INCLUDE lib/div_const_stubs.rs
//@@ INCLUDE lib/div_dword_bits_@BITS@.rs
//@@ INCLUDE lib/div_dword_lemmas.rs
//@@ INCLUDE lib/div_simple_lemmas.rs
//@@ INCLUDE lib/div_ops_lemmas.rs
//@@ INCLUDE lib/div_const_lemmas.rs
//@@ INCLUDE lib/dc2_stubs.rs
//@@ INCLUDE lib/dc2_lemmas.rs
//@@ INCLUDE lib/dc2_lemmas_rem.rs
//@@ SIG integer/primitive/extend_word.rs
//@@ SIG integer/primitive/double_word.rs
//@@ SIG integer/primitive/shrink_dword.rs
//@@ SIG integer/math/shl_dword.rs
pub mod error {
use super::*;
//@@ SIG integer/div_ops_repr/panic_divide_by_0.rs
}
use error::panic_divide_by_0;
pub mod div {
use super::*;
pub use super::div_dc_stub::memory_requirement_exact;
//@@ SIG integer/div_glue/normalize.rs
//@@ SIG integer/div_glue/div_rem_unshifted_in_place.rs
//@@ SIG integer/div/fast_rem_by_normalized_word.rs
//@@ SIG integer/div/fast_rem_by_normalized_dword.rs
//@@ SIG integer/div/fast_div_by_word_in_place.rs
//@@ SIG integer/div/fast_div_by_dword_in_place.rs
}
pub mod shift {
use super::*;
//@@ SIG integer/shift/shr_in_place.rs
}
impl ConstSingleDivisor {
//@@ FN integer/divconst2/single_new.rs
//@@ FN integer/divconst2/single_divisor.rs
//@@ FN integer/divconst2/single_normalized_divisor.rs
//@@ FN integer/divconst2/single_shift.rs
//@@ FN integer/divconst2/single_rem_word.rs
//@@ FN integer/divconst2/single_rem_dword.rs
//@@ FN integer/divconst2/single_rem_large.rs
}
impl ConstDoubleDivisor {
//@@ FN integer/divconst2/double_new.rs
//@@ FN integer/divconst2/double_divisor.rs
//@@ FN integer/divconst2/double_normalized_divisor.rs
//@@ FN integer/divconst2/double_shift.rs
//@@ FN integer/divconst2/double_rem_dword.rs
//@@ FN integer/divconst2/double_rem_large.rs
}
impl ConstLargeDivisor {
//@@ FN integer/divconst2/large_new.rs
//@@ FN integer/divconst2/large_divisor.rs
}
impl ConstDivisor {
//@@ FN integer/divconst2/cd_new.rs
//@@ FN integer/divconst2/cd_from_word.rs
//@@ FN integer/divconst2/cd_from_dword.rs
//@@ FN integer/divconst2/cd_value.rs
}
// the operator wrappers (trait impl methods, hoisted to free functions: rule D2)
//@@ FN integer/divconst2/ubig_div_v.rs
//@@ FN integer/divconst2/ubig_div_r.rs
//@@ FN integer/divconst2/ubig_div_assign.rs
//@@ FN integer/divconst2/ubig_rem_v.rs
//@@ FN integer/divconst2/ubig_rem_r.rs
//@@ FN integer/divconst2/ubig_rem_assign.rs
//@@ FN integer/divconst2/ubig_divrem_v.rs
//@@ FN integer/divconst2/ubig_divrem_r.rs
//@@ FN integer/divconst2/ubig_divrem_assign.rs
//@@ FN integer/divconst2/ibig_div_v.rs
//@@ FN integer/divconst2/ibig_div_r.rs
//@@ FN integer/divconst2/ibig_div_assign.rs
//@@ FN integer/divconst2/ibig_rem_v.rs
//@@ FN integer/divconst2/ibig_rem_r.rs
//@@ FN integer/divconst2/ibig_rem_assign.rs
//@@ FN integer/divconst2/ibig_divrem_v.rs
//@@ FN integer/divconst2/ibig_divrem_r.rs
//@@ FN integer/divconst2/ibig_divrem_assign.rs
pub mod repr {
use super::*;
broadcast use super::buffer_stub::ax_buffer_inv;
//@@ FN integer/div_const/div_rem_small_single.rs
//@@ FN integer/div_const/div_rem_small_double.rs
//@@ FN integer/div_const/rem_large_large.rs
//@@ FN integer/div_const/typed_rem_const.rs
//@@ FN integer/div_const/typedref_rem_const.rs
//@@ FN integer/div_const/typed_div_const.rs
//@@ FN integer/div_const/typed_divrem_const.rs
}
} // verus!
fn main() {}
