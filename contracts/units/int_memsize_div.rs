// unit int_memsize_div: the scratch-memory RESOURCE contracts of integer/src/div/divide_conquer.rs (div_rem_in_place,
// div_rem_in_place_same_len, div_rem_in_place_small_quotient, memory_requirement_exact) and div/mod.rs (div_rem_in_place,
// div_rem_unshifted_in_place, memory_requirement_exact) (C02 side of C01's resource clause, C16):
// dc_need(l, n) = gneed(min(floor(n / 2), l - n)) Words are enough for every product made by the Burnikel-Ziegler recursion
// (each has a smaller factor of at most min(quotient length, floor(divisor length / 2)) words; gneed is monotone), and
// memory_requirement_exact returns a Layout that provides them.
// PREFIX-ONLY (rule D20u `#[cut_tail_unused(memory)]`): div_rem_in_place_small_quotient behind its product and
// div_rem_unshifted_in_place behind its division: value-dependent tails (correction loop, carry addition) that do not
// mention `memory`; proved completely in int_div_dc / int_div_ops (opaque Memory).
// mul::add_signed_mul / mul::memory_requirement_up_to through their RESOURCE contracts (//@@ SIG; PROVED in
// int_memsize_dispatch / int_memsize_req); simple::div_rem_in_place, div_rem_highest_word, shl_in_place through their
// functional contracts (int_div_simple, int_shift).  Trusted: lib/mem_model.rs, lib/div_dword_stubs.rs (num_modular).
#![allow(unused_imports, unused_variables, dead_code, non_snake_case, unused_mut, unused_parens, unused_braces)]
use vstd::prelude::*;
macro_rules! const_assert { ($($t:tt)*) => {}; }
verus! {
//@@ INCLUDE lib/prelude.rs
//@@ INCLUDE lib/sign.rs
//@@ INCLUDE lib/div_dword_stubs.rs
//@@ INCLUDE lib/mem_layout_@BITS@.rs
//@@ INCLUDE lib/mem_model.rs
//@@ INCLUDE lib/mem_need.rs
//@@ INCLUDE lib/mem_req_stubs.rs
//@@ INCLUDE lib/mem_chunk_spec.rs
//@@ INCLUDE lib/mem_div_spec.rs
//@@ INCLUDE lib/shift_bv.rs
//@@ INCLUDE lib/div_simple_lemmas.rs
//@@ INCLUDE lib/div_ops_lemmas.rs
pub mod shift {
use super::*;
//@@ SIG integer/shift/shl_in_place.rs
}
pub mod mul {
use super::*;
//@@ SIG integer/memsize/disp_add_signed_mul.rs
//@@ SIG integer/memsize/mul_req_up_to.rs
}
pub mod div {
use super::*;
//@@ CONST integer/memsize/c_div_thr_simple.rs
pub mod simple {
use super::super::*;
//@@ SIG integer/div_simple/div_rem_highest_word.rs
//@@ SIG integer/div_simple/div_rem_in_place.rs
}
use simple::div_rem_highest_word;
pub mod divide_conquer {
use super::super::*;
use super::super::div;
//@@ FN integer/memsize/dc_small_quotient.rs
// debug assertion #0 `!overflow_lo`: value fact (int_div_dc)
//@@ FN integer/memsize/dc_same_len.rs drop_asserts=0
// debug assertions #0, #1 `m == lhs.len()` under `if o`: value facts (int_div_dc)
//@@ FN integer/memsize/dc_div_rem_in_place.rs drop_asserts=0,1
//@@ FN integer/memsize/dc_req.rs
}
//@@ FN integer/memsize/div_req.rs
//@@ FN integer/memsize/div_rem_in_place.rs
//@@ FN integer/memsize/div_rem_unshifted.rs
}
} // verus!
fn main() {}
