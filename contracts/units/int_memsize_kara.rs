// unit int_memsize_kara: integer/src/mul/karatsuba.rs add_signed_mul_same_len under a RESOURCE contract (C01, C16):
// with a scratch chunk of kneed(n) Words (lib/mem_need.rs) none of its four allocate_slice_* calls and none of the three
// nested products runs out of scratch memory ("internal error: not enough memory allocated", memory.rs:166).
// The functional contract of the same function (exact product) is proved in int_mul_karatsuba with an OPAQUE Memory;
// here Memory is the capacity-tracking model lib/mem_model.rs (trusted: its contracts transcribe memory.rs; Kani group
// int_memsize_model checks them on the real code) and value facts are ignored: debug_assert_zero! comparisons are dropped
// (proved in int_mul_karatsuba), the returned carry is only bounded by |ret| <= 2 (structural bound, enough against overflow).
// The nested products go through the dispatcher's RESOURCE contract (//@@ SIG, PROVED in unit int_memsize_dispatch).
#![allow(unused_imports, unused_variables, dead_code, non_snake_case, unused_mut, unused_parens, unused_braces)]
use vstd::prelude::*;
verus! {
//@@ INCLUDE lib/prelude.rs
//@@ INCLUDE lib/sign.rs
//@@ INCLUDE lib/mem_sign_ops.rs
//@@ INCLUDE lib/mem_layout_@BITS@.rs
//@@ INCLUDE lib/mem_model.rs
//@@ INCLUDE lib/mem_need.rs
pub mod add {
use super::*;
//@@ SIG integer/add/add_signed_same_len_in_place.rs
//@@ SIG integer/add/add_signed_in_place.rs
//@@ SIG integer/add/add_signed_word_in_place.rs
//@@ SIG integer/add/sub_in_place_with_sign.rs
}
pub mod mul {
use super::*;
//@@ SIG integer/memsize/disp_same_len.rs
pub mod karatsuba {
use super::super::*;
use super::super::mul;
//@@ CONST integer/memsize/c_kara_min_len.rs
// debug_assert_zero #2, #3 (value facts, proved in int_mul_karatsuba) and #4 `carry.abs() <= 1` (exec abs) dropped
//@@ FN integer/memsize/kara_same_len.rs drop_asserts=2,3,4
}
}
} // verus!
fn main() {}
