// unit ratio_try_float: rational/src/convert.rs macro `impl_conversion_to_float` -- `TryFrom<RBig> for f32 / f64`
// (C06: a TryFrom conversion succeeds only if the target holds exactly the source value; it never panics), instantiated
// for ($t, $lb, $ub) = (f32, -149, 128) and (f64, -1074, 1024) (rule E3b).  `encode` is seen through the contract that
// the Kani group base_bit proves for it.  Not decided here: completeness (every representable value is accepted) and
// the choice between OutOfBounds and LossOfPrecision.
#![allow(unused_imports, unused_variables, dead_code, non_snake_case, unused_mut, unused_parens, unused_braces)]
use vstd::prelude::*;
use core::cmp::Ordering;
use core::ops::{Add, Sub, Mul, Div};
use vstd::std_specs::ops::*;
verus! {
//@@ INCLUDE lib/ratio_lemmas.rs
//@@ INCLUDE lib/bigstub.rs
impl Sign {
//@@ FN rational/sign/base_sign_mul.rs
//@@ FN rational/sign/base_sign_neg.rs
//@@ FN rational/sign/base_sign_cmp.rs
}
//@@ INCLUDE lib/ratio_types.rs
//@@ INCLUDE lib/conv_approx.rs
//@@ INCLUDE lib/conv_float.rs
//@@ INCLUDE lib/conv_float_ratio.rs
//@@ INCLUDE lib/conv_enc.rs
//@@ INCLUDE lib/conv_sign_float.rs
//@@ INCLUDE lib/conv_ratio_stubs.rs
//@@ INCLUDE lib/conv_try_float_stubs.rs
pub mod try_f32 {
    use super::*;
//@@ FN rational/convert/try_from_rbig_float.rs variant=f32 msubst=t:f32,lb:-149,ub:128
}
pub mod try_f64 {
    use super::*;
//@@ FN rational/convert/try_from_rbig_float.rs variant=f64 msubst=t:f64,lb:-1074,ub:1024
}
} // verus!
fn main() {}
