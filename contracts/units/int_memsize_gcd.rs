// unit int_memsize_gcd: integer/src/gcd/lehmer.rs gcd_in_place under its FUNCTIONAL + RESOURCE contract (C12 / C16):
// the proof of int_leh_gcd (same annotations) over the capacity-tracking Memory of lib/mem_model.rs, plus: a scratch chunk
// of gneed(|rhs| / 2) Words is enough for every Euclidean step of the loop.  The Euclidean division is seen through the
// conjunction of its functional contract (PROVED in int_div_ops) and its resource contract (PROVED in int_memsize_div).
// NOTE: the CALLER's sizing (gcd/lehmer.rs memory_requirement_up_to = div::memory_requirement_exact(lhs_len, rhs_len)) does
// NOT provide gneed(rhs_len / 2) Words: genuine defect, proposed_fixes/MEM1; units/int_memsize_gcd_fixed.rs (NOT registered)
// verifies the repaired function and the caller gcd_ops.rs gcd_large against a tree with that fix.
// Trusted: as int_leh_gcd (lib/mem_gcd_stubs.rs = lib/gcdo_ops_stubs.rs without its opaque Memory) + lib/mem_model.rs.
#![allow(unused_imports, unused_variables, dead_code, non_snake_case, unused_mut, unused_parens, unused_braces)]
use vstd::prelude::*;
use core::cmp::Ordering;
verus! {
//@@ INCLUDE lib/prelude.rs
//@@ INCLUDE lib/sign.rs
//@@ INCLUDE lib/gcdo_stubs.rs
impl Sign {
//@@ SIG rational/sign/base_sign_neg.rs
}
//@@ INCLUDE lib/repr_stubs.rs
//@@ INCLUDE lib/dispatch_lemmas.rs
//@@ INCLUDE lib/div_dword_stubs.rs
//@@ INCLUDE lib/mem_layout_@BITS@.rs
//@@ INCLUDE lib/mem_model.rs
//@@ INCLUDE lib/mem_need.rs
//@@ INCLUDE lib/mem_req_stubs.rs
//@@ INCLUDE lib/mem_div_spec.rs
//@@ INCLUDE lib/mem_gcd_stubs.rs
//@@ INCLUDE lib/shift_bv.rs
//@@ INCLUDE lib/leh_guess_lemmas.rs
//@@ INCLUDE lib/leh_step_lemmas.rs
//@@ INCLUDE lib/leh_top_lemmas.rs
//@@ INCLUDE lib/leh_gcd_lemmas.rs
//@@ SIG integer/primitive/split_dword.rs
pub mod div {
use super::*;
// contracts PROVED in unit int_div_ops
//@@ SIG integer/div_glue/normalize.rs
// functional contract (int_div_ops) AND resource contract (int_memsize_div)
//@@ SIG integer/div_glue/div_rem_unshifted_in_place.rs and=integer/memsize/div_rem_unshifted.rs
// contracts PROVED in units int_div_word / int_div_dword
//@@ SIG integer/div/rem_by_word.rs
//@@ SIG integer/div/rem_by_dword.rs
}
pub mod shift {
use super::*;
// contract PROVED in unit int_shift
//@@ SIG integer/shift/shr_in_place.rs
}
pub mod gcd {
pub mod lehmer {
use super::super::*;
use super::super::cmp::cmp_in_place;
use core::mem;
//@@ CONST integer/lehmer/min_dword_guess_len.rs
// contracts PROVED in units int_leh_guess, int_leh_top, int_leh_step
//@@ SIG integer/lehmer/lehmer_guess.rs
//@@ SIG integer/lehmer/lehmer_guess_dword.rs
//@@ SIG integer/lehmer/highest_word_normalized.rs
//@@ SIG integer/lehmer/highest_dword_normalized.rs
//@@ SIG integer/lehmer/trim_leading_zeros.rs
//@@ SIG integer/lehmer/lehmer_step.rs
// debug assertion #0 `cmp_in_place(lhs, rhs).is_ge()` is an exec call (not spec-expressible): dropped (as in int_leh_gcd)
//@@ FN integer/memsize/gcd_in_place.rs drop_asserts=0
}
}
} // verus!
fn main() {}
