// unit float_add_inf: C16 "arithmetic on infinities panics" for float/src/add.rs: `must_panic` variants (rule D4) of
// `Context::{add, sub}` and of the four dispatch functions behind the FBig `+` / `-` operators: with an infinite operand
// no normal return is possible -- in particular the "one operand is zero" shortcuts must come AFTER the infinity check.
#![allow(unused_imports, unused_variables, dead_code, non_snake_case, unused_mut, unused_parens, unused_braces)]
use vstd::prelude::*;
verus! {
//@@ INCLUDE lib/round_prelude.rs
//@@ INCLUDE lib/round_int_stubs.rs
//@@ INCLUDE lib/round_int_addsub_stubs.rs
pub trait Round: Copy {
    /// ghost: which of the six mode definitions the implementing type stands for
    spec fn md() -> Mode;
}
//@@ INCLUDE lib/round_float_repr.rs
//@@ INCLUDE lib/conv_fbig_stubs.rs
//@@ INCLUDE lib/farith_repr_stubs.rs
//@@ INCLUDE lib/farith_lemmas.rs
//@@ INCLUDE lib/farith_add_stubs.rs
//@@ INCLUDE lib/farith_add_lemmas.rs
use core::marker::PhantomData;
use Sign::*;
global size_of usize == 8;   // DESIGN.md section 6: usize is 64-bit in all proofs
impl<T, E> Approximation<T, E> {
//@@ FN base/approx/map.rs
//@@ FN float/mul/approx_value.rs
}
//@@ SIG float/mul/panic_operate_with_inf.rs variant=must_panic
//@@ FN float/mul/assert_finite_operands.rs variant=must_panic
impl<const B: Word> Repr<B> {
//@@ FN float/repr/is_infinite.rs
}
impl<R: Round> Context<R> {
//@@ FN float/mul/context_max.rs
//@@ SIG float/repr/repr_round.rs
//@@ SIG float/add/repr_add_large_small.rs
//@@ SIG float/add/repr_add_small_large.rs
//@@ SIG float/repr/repr_round_ref.rs
//@@ FN float/add/context_add.rs variant=must_panic
//@@ FN float/add/context_sub.rs variant=must_panic
}
impl<R: Round, const B: Word> FBig<R, B> {
//@@ FN float/fbig/new.rs
}
//@@ FN float/add/add_val_val.rs variant=must_panic
//@@ FN float/add/add_val_ref.rs variant=must_panic
//@@ FN float/add/add_ref_val.rs variant=must_panic
//@@ FN float/add/add_ref_ref.rs variant=must_panic
} // verus!
fn main() {}
