// unit ratio_round_relaxed: rational/src/round.rs `impl Relaxed` forwards to `Repr` (C10); the Repr methods are seen through the
// contracts they are verified against in unit ratio_round (SIG = generated from the same annotated copies).
#![allow(unused_imports, unused_variables, dead_code, non_snake_case, unused_mut, unused_parens, unused_braces)]
use vstd::prelude::*;
verus! {
//@@ INCLUDE lib/round_prelude.rs
//@@ INCLUDE lib/round_int_stubs.rs
//@@ INCLUDE lib/round_int_addsub_stubs.rs
//@@ INCLUDE lib/round_ratio_stubs.rs
//@@ INCLUDE lib/round_ratio_lemmas.rs

// rational/src/repr.rs `pub struct Repr`, rational/src/rbig.rs `pub struct Relaxed(pub(crate) Repr)` -- transcriptions
pub struct Repr {
    pub numerator: IBig,
    pub denominator: UBig,
}
pub struct Relaxed(pub Repr);
impl Repr {
//@@ SIG rational/round/split_at_point.rs
//@@ SIG rational/round/ceil.rs
//@@ SIG rational/round/floor.rs
//@@ SIG rational/round/trunc.rs
//@@ SIG rational/round/fract.rs
//@@ SIG rational/round/round.rs
}
impl Relaxed {
//@@ FN rational/round/relaxed_split_at_point.rs
//@@ FN rational/round/relaxed_ceil.rs
//@@ FN rational/round/relaxed_floor.rs
//@@ FN rational/round/relaxed_round.rs
//@@ FN rational/round/relaxed_trunc.rs
//@@ FN rational/round/relaxed_fract.rs
}
} // verus!
fn main() {}
