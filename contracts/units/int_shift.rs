// unit int_shift: integer/src/shift.rs slice kernels + math::shr_word (C09, C02, C19)
#![allow(unused_imports, unused_variables, dead_code, non_snake_case, unused_mut, unused_parens, unused_braces)]
use vstd::prelude::*;
verus! {
//@@ INCLUDE lib/prelude.rs
//@@ INCLUDE lib/shift_bv.rs
//@@ INCLUDE lib/shift_lemmas.rs
//@@ SIG integer/primitive/extend_word.rs
//@@ SIG integer/primitive/double_word.rs
//@@ SIG integer/primitive/split_dword.rs
//@@ FN integer/math/shr_word.rs
//@@ FN integer/shift/shl_in_place.rs
// raw-pointer code: contract checked by the Kani group int_shift (bounded, len <= 4), trusted here
//@@ SIG integer/shift/shr_in_place_one_word.rs
//@@ FN integer/shift/shr_in_place_with_carry.rs
//@@ FN integer/shift/shr_in_place.rs
} // verus!
fn main() {}
