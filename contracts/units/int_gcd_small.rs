// unit int_gcd_small: integer/src/gcd/mod.rs gcd_ext_word, gcd_ext_dword (C12): extended gcd of a multi-word number with a
// one- / two-word number on top of the PROVED kernel contracts (div_by_(d)word_in_place, mul_(d)word_in_place,
// add_(d)word_in_place: //@@ SIG from the annotated copies of units int_div_word, int_div_dword, int_mul_scale, int_add;
// mul_dword_in_place is a trusted contract there, bounded-checked by Kani).
// Trusted: lib/gcdo_stubs.rs (primitive ExtendedGcd::gcd_ext contract: u8 instance proved by Kani; to_sign_magnitude),
// lib/sign.rs; <[T]>::fill (core).
#![allow(unused_imports, unused_variables, dead_code, non_snake_case, unused_mut, unused_parens, unused_braces)]
use vstd::prelude::*;
verus! {
//@@ INCLUDE lib/prelude.rs
//@@ INCLUDE lib/sign.rs
//@@ INCLUDE lib/gcdo_stubs.rs
impl Sign {
//@@ FN rational/sign/base_sign_neg.rs
}
pub assume_specification<T: Clone> [<[T]>::fill] (s: &mut [T], value: T)
    ensures final(s)@.len() == old(s)@.len(), forall|i: int| 0 <= i < old(s)@.len() ==> final(s)@[i] == value;
//@@ SIG integer/primitive/extend_word.rs
//@@ SIG integer/primitive/shrink_dword.rs
pub mod div {
use super::*;
//@@ SIG integer/div/div_by_word_in_place.rs
//@@ SIG integer/div/div_by_dword_in_place.rs
}
pub mod mul {
use super::*;
//@@ SIG integer/mul/mul_word_in_place.rs
//@@ SIG integer/mul_algos/mul_dword_in_place.rs
}
pub mod add {
use super::*;
//@@ SIG integer/add/add_word_in_place.rs
//@@ SIG integer/add/add_dword_in_place.rs
}
pub mod gcd {
use super::*;
//@@ FN integer/gcd/gcd_ext_word.rs
//@@ FN integer/gcd/gcd_ext_dword.rs
}
} // verus!
fn main() {}
