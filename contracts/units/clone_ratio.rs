// unit clone_ratio: the hand-written `Clone` impls of dashu-ratio ("necessary due to rust issue 98374"):
//   rational/src/repr.rs  `impl Clone for Repr`     clone, clone_from
//   rational/src/rbig.rs  `impl Clone for RBig`     clone, clone_from   (forward to Repr)
//   rational/src/rbig.rs  `impl Clone for Relaxed`  clone, clone_from   (forward to Repr)
// all against cl_ratio_copy (lib/cl_ratio_spec.rs): the copy has the numerator AND the denominator of its source.
// C05 (a clone / clone_from copy equals its source, compares Equal, hashes equally: all of these read the two fields)
// and C15 (`b.clone_from(&a)` leaves b indistinguishable from `a.clone()`: ONE predicate for both forms).
// The real trait methods are verified as inherent methods of the mirrored types (Verus has no trait-level `clone_from` and
// no canary inside a foreign trait's impl), so the RBig / Relaxed methods call the VERIFIED real `Repr::clone` /
// `Repr::clone_from` (inherent before trait), no stub in between.
// Trusted: UBig / IBig clone (lib/cl_int_clone.rs) and clone_from (lib/cl_int_clone_from.rs): same value afterwards.
#![allow(unused_imports, unused_variables, dead_code, non_snake_case, unused_mut, unused_parens, unused_braces)]
use vstd::prelude::*;
use vstd::arithmetic::power2::pow2;
use core::cmp::Ordering;
verus! {
global size_of usize == 8;
//@@ INCLUDE lib/ratio_lemmas.rs
//@@ INCLUDE lib/bigstub.rs
impl Sign {
//@@ SIG rational/sign/base_sign_mul.rs
//@@ SIG rational/sign/base_sign_neg.rs
//@@ SIG rational/sign/base_sign_cmp.rs
}
//@@ INCLUDE lib/ratio_types.rs
//@@ INCLUDE lib/cl_int_clone.rs
//@@ INCLUDE lib/cl_int_clone_from.rs
//@@ INCLUDE lib/cl_ratio_spec.rs
impl Repr {
//@@ FN rational/clones/repr_clone.rs
//@@ FN rational/clones/repr_clone_from.rs
}
impl RBig {
//@@ FN rational/clones/rbig_clone.rs
//@@ FN rational/clones/rbig_clone_from.rs
}
impl Relaxed {
//@@ FN rational/clones/relaxed_clone.rs
//@@ FN rational/clones/relaxed_clone_from.rs
}
} // verus!
fn main() {}
