// unit int_modconv_panic: "mixing elements of different ConstDivisor instances panics" for modular/repr.rs
// check_same_ring_{single,double,large} (`must_panic` variants, rule D4: with two DIFFERENT ring objects no normal return
// is possible) (C13, C16).
// Trusted: lib/mod2_conv.rs (core::ptr::eq decides the uninterpreted identity relation `same_object`);
// `panic_different_rings() -> !` never returns (it is `panic!`).
#![feature(allocator_api)]
#![allow(unused_imports, unused_variables, dead_code, non_snake_case, unused_mut, unused_parens, unused_braces)]
use vstd::prelude::*;
use vstd::std_specs::cmp::*;
use core::cmp::Ordering;
use core::ops::Deref;
verus! {
//@@ INCLUDE lib/prelude.rs
//@@ INCLUDE lib/div_dword_stubs.rs
//@@ INCLUDE lib/div_post_spec.rs
//@@ INCLUDE lib/mod2_ring.rs
//@@ INCLUDE lib/mod2_mem.rs
//@@ INCLUDE lib/mod2_conv.rs
pub mod error {
use super::*;
//@@ SIG integer/modular2/panic_different_rings.rs variant=must_panic
}
use error::panic_different_rings;
impl Reduced {
//@@ FN integer/modular2/check_same_ring_single.rs variant=must_panic
//@@ FN integer/modular2/check_same_ring_double.rs variant=must_panic
//@@ FN integer/modular2/check_same_ring_large.rs variant=must_panic
}
} // verus!
fn main() {}
