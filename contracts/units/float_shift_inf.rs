// unit float_shift_inf: float/src/shift.rs, `must_panic` variants (rule D4) of ALL four forms of the FBig digit shift.
// C15 "every form returns the same value, or every form panics" / C16 "arithmetic on infinities panics": with an infinite
// operand (significand 0, exponent != 0) no form returns normally -- `assert_finite` comes first in every form, before the
// zero test and before the exponent is touched.  `panic_operate_with_inf` never returns (`ensures false`); the real
// `assert_finite` is verified here in its must_panic reading (requires an infinity, ensures false).
#![allow(unused_imports, unused_variables, dead_code, non_snake_case, unused_mut, unused_parens, unused_braces)]
use vstd::prelude::*;
verus! {
//@@ INCLUDE lib/round_prelude.rs
//@@ INCLUDE lib/round_int_stubs.rs
//@@ INCLUDE lib/round_int_addsub_stubs.rs
pub trait Round: Copy {
    /// ghost: which of the six mode definitions the implementing type stands for
    spec fn md() -> Mode;
}
//@@ INCLUDE lib/round_float_repr.rs
//@@ INCLUDE lib/conv_fbig_stubs.rs
//@@ INCLUDE lib/farith_add_stubs.rs
//@@ INCLUDE lib/fs_spec.rs
use core::marker::PhantomData;
global size_of usize == 8;   // DESIGN.md section 6: usize is 64-bit in all proofs
//@@ SIG float/mul/panic_operate_with_inf.rs variant=must_panic
//@@ FN float/shift/assert_finite.rs variant=must_panic
impl<const B: Word> Repr<B> {
//@@ FN float/repr/is_infinite.rs
//@@ FN float/ebounds/repr_is_zero.rs
}
//@@ FN float/shift/shl.rs variant=must_panic
//@@ FN float/shift/shl_assign.rs variant=must_panic
//@@ FN float/shift/shr.rs variant=must_panic
//@@ FN float/shift/shr_assign.rs variant=must_panic
} // verus!
fn main() {}
