// unit int_parse_npt (C07, parsing half): integer/src/parse/non_power_two.rs
#![allow(unused_imports, unused_variables, dead_code, non_snake_case, unused_mut, unused_parens, unused_braces)]
use vstd::prelude::*;
verus! {
//@@ INCLUDE lib/prelude.rs
//@@ INCLUDE lib/sign.rs
//@@ INCLUDE lib/repr_stubs.rs
//@@ INCLUDE lib/shift_bv.rs
//@@ INCLUDE lib/dispatch_lemmas.rs
//@@ INCLUDE lib/pow_lemmas.rs
//@@ INCLUDE lib/pow_api_stubs.rs
//@@ INCLUDE lib/parse_spec.rs
//@@ INCLUDE lib/parse_stubs.rs
//@@ INCLUDE lib/parse_lemmas.rs
//@@ INCLUDE lib/parse_rchunks.rs
//@@ INCLUDE lib/parse_filter.rs
//@@ INCLUDE lib/parse_str.rs
pub mod pow_api {
use super::*;
// contract proved in unit int_pow_api
//@@ SIG integer/pow_api/ubig_pow.rs
}
// D2 link: `x.pow(exp)` on a UBig is the hoisted method proved in unit int_pow_api
impl UBig {
    pub fn pow(&self, exp: usize) -> (r: UBig)
        requires self.0.v() >= 0, pow_fits(self.0.v(), exp as int),
        ensures r.0.v() == ipow(self.0.v(), exp as int),
    { pow_api::ubig_pow(self, exp) }
}
pub mod mul {
use super::*;
//@@ SIG integer/mul/mul_word_in_place_with_carry.rs
}
pub mod non_power_two {
use super::*;
use std::vec;
broadcast use {buffer_stub::ax_buffer_inv, repr_stub::ax_repr_of};
/// parse/non_power_two.rs:15 (mirrored)
pub const CHUNK_LEN: usize = 256;
//@@ FN integer/parse/npt_parse_word.rs drop_asserts=0
//@@ FN integer/parse/npt_parse_chunk.rs drop_asserts=0
//@@ FN integer/parse/npt_parse_large_dc.rs
//@@ FN integer/parse/npt_parse_large.rs drop_asserts=0
//@@ FN integer/parse/npt_parse.rs drop_asserts=0
}
} // verus!
fn main() {}
