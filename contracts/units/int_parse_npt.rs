// unit int_parse_npt (C07, parsing half): integer/src/parse/non_power_two.rs -- parse_word, parse_chunk,
// parse_large_divide_conquer, parse_large, parse; UNBOUNDED in the length of the text.
// Post (from the property statement, vocabulary lib/parse_spec.rs): for a digit string `bytes` (most significant first)
//     Ok(v)  ==> every byte is a digit of the radix (0-9, a-z / A-Z below the radix) and v == digits_value(bytes, radix)
//     Err(e) ==> some byte is not a digit of the radix and e == InvalidDigit
// (both directions: a Result is one or the other), for `parse` on the text with its '_' separators:
//     Ok(v) ==> text_ok(src) && v == digits_value(strip_us(src), radix);  Err(e) ==> !text_ok(src) && e == InvalidDigit.
// Proved besides: no Word overflow in `word * radix + digit` (len <= digits_per_word), every debug assertion except the
// radix class test (drop_asserts=0: `is_power_of_two` is not a spec function), buffer capacity of parse_chunk,
// no usize overflow / shift overflow in the power loop, `bytes.len() <= chunk_bytes << radix_powers.len()`, termination.
// Trusted: lib/parse_stubs.rs (digit_from_ascii_byte, radix_info = what Kani group int_radix proves; UBig from Word,
// `*`, `+` exact; <[T]>::split_last / contains), lib/parse_str.rs (string model), lib/repr_stubs.rs (Buffer, Repr),
// lib/pow_api_stubs.rs (UBig mirror); callee contracts by SIG: mul::mul_word_in_place_with_carry (unit int_mul),
// UBig::pow (unit int_pow_api).  Engine rules D1e (rchunks), D11d (reference operands), D15c (copied/filter/collect):
// their helpers (lib/parse_rchunks.rs, lib/parse_filter.rs) are verified here.
// Precondition `bytes.len() <= isize::MAX` of parse_large: language invariant of slices (established by `parse` from the
// string model).
#![allow(unused_imports, unused_variables, dead_code, non_snake_case, unused_mut, unused_parens, unused_braces)]
use vstd::prelude::*;
verus! {
//@@ INCLUDE lib/prelude.rs
//@@ INCLUDE lib/sign.rs
//@@ INCLUDE lib/repr_stubs.rs
//@@ INCLUDE lib/shift_bv.rs
//@@ INCLUDE lib/dispatch_lemmas.rs
//@@ INCLUDE lib/pow_lemmas.rs
//@@ INCLUDE lib/pow_api_stubs.rs
//@@ INCLUDE lib/parse_spec.rs
//@@ INCLUDE lib/parse_stubs.rs
//@@ INCLUDE lib/parse_lemmas.rs
//@@ INCLUDE lib/parse_rchunks.rs
//@@ INCLUDE lib/parse_filter.rs
//@@ INCLUDE lib/parse_str.rs
pub mod pow_api {
use super::*;
// contract proved in unit int_pow_api
//@@ SIG integer/pow_api/ubig_pow.rs
}
// D2 link: `x.pow(exp)` on a UBig is the hoisted method proved in unit int_pow_api
impl UBig {
    pub fn pow(&self, exp: usize) -> (r: UBig)
        requires self.0.v() >= 0, pow_fits(self.0.v(), exp as int),
        ensures r.0.v() == ipow(self.0.v(), exp as int),
    { pow_api::ubig_pow(self, exp) }
}
pub mod mul {
use super::*;
//@@ SIG integer/mul/mul_word_in_place_with_carry.rs
}
pub mod non_power_two {
use super::*;
use std::vec;
broadcast use {buffer_stub::ax_buffer_inv, repr_stub::ax_repr_of};
/// parse/non_power_two.rs:15 (mirrored)
pub const CHUNK_LEN: usize = 256;
//@@ FN integer/parse/npt_parse_word.rs drop_asserts=0
//@@ FN integer/parse/npt_parse_chunk.rs drop_asserts=0
//@@ FN integer/parse/npt_parse_large_dc.rs
//@@ FN integer/parse/npt_parse_large.rs drop_asserts=0
//@@ FN integer/parse/npt_parse.rs drop_asserts=0
}
} // verus!
fn main() {}
