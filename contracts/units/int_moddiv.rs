// unit int_moddiv: integer/src/modular/div.rs inv_large -- modular inverse of a multi-word residue (C13, C16, C19).
// Trusted: lib/mod2_gcd.rs (ASSUMED contracts of gcd::gcd_ext_word / gcd_ext_dword / gcd_ext_in_place: g = gcd with a Bezout
// coefficient of bounded size and exact lengths; lowest_dword; Buffer::into_boxed_slice; <[T]>::fill), lib/repr_stubs.rs
// (Buffer), lib/mod2_mem.rs (scratch memory, Box deref); kernel contracts via //@@ SIG (proved in units int_shift,
// int_modadd2, int_modmul).
#![feature(allocator_api)]
#![allow(unused_imports, unused_variables, dead_code, non_snake_case, unused_mut, unused_parens, unused_braces)]
use vstd::prelude::*;
use vstd::std_specs::cmp::*;
use core::cmp::Ordering;
use core::ops::Deref;
verus! {
//@@ INCLUDE lib/prelude.rs
//@@ INCLUDE lib/mod2_sign.rs
//@@ INCLUDE lib/repr_stubs.rs
//@@ INCLUDE lib/div_dword_stubs.rs
//@@ INCLUDE lib/div_post_spec.rs
//@@ INCLUDE lib/mod2_ring.rs
//@@ INCLUDE lib/mod2_mem.rs
//@@ INCLUDE lib/mod2_gcd.rs
//@@ SIG integer/shift/shl_in_place.rs
//@@ SIG integer/shift/shr_in_place.rs
//@@ SIG integer/modular2/locate_top_word_plus_one.rs
//@@ SIG integer/modular2/negate_in_place.rs
//@@ FN integer/modular2/inv_large.rs drop_asserts=2
} // verus!
fn main() {}
